import HappyProofs.C16.PageWrite
import HappyProofs.C16.PageFrames
/-!
`PageCache`, run level: the per-page write-back clause the Spec judge applies (`PageSpec.jstep`,
`mayDirty`).  Along every schedule of the repaired model

* the segment in which a `write_page(p)` returns leaves `p` cached and dirty
  (`pagecache_trace_write_leaves_page_dirty`, from `pagecache_write_leaves_page_dirty`);
* a page is dirty only if a `write_page` of it has returned since the cache last held no dirty page
  (`pagecache_dirty_subset_mayDirty`: the judge's `mayDirty` list over-approximates the dirty pages),
  so a returning `write_page(p)` with `p ∉ mayDirty` finds `p` clean or absent and turns it dirty:
  the count `made` of dirtied pages grows by one (`pagecache_write_not_mayDirty_dirties`), which with
  `pagecache_dirtied_eq_writtenback_plus_dirty` is the judge's "`Φ` must grow" at that segment.
-/
namespace HappyModel.C16.Page

/-- the segment `a`, run in state `s`, is a segment of a `write_page(p)` call that may return -/
def WriteSeg (s : St) (a : Act) (p : Nat) : Prop :=
  (∃ i, a = .start i (.write p)) ∨ (∃ i v, a = .resume i ∧ findPend s.pend i = some (.evict v (.write p)))

theorem run_snoc (cfg : Cfg) (s : St) (pre : List Act) (a : Act) :
    run cfg s (pre ++ [a]) = (step cfg (run cfg s pre) a).1 := by
  induction pre generalizing s with
  | nil => rfl
  | cons b bs ih => simp only [List.cons_append, run]; exact ih _

/-- along every schedule, the segment in which a `write_page(p)` returns leaves `p` cached and dirty -/
theorem pagecache_trace_write_leaves_page_dirty (cfg : Cfg) (pre : List Act) (a : Act) (p : Nat)
    (hw : WriteSeg (run cfg {} pre) a p) (hr : (step cfg (run cfg {} pre) a).2 = some .ok) :
    DirtyIn (run cfg {} (pre ++ [a])).pages p := by
  rw [run_snoc]
  exact pagecache_write_leaves_page_dirty cfg _ a p hw hr

/-! ### where dirty pages come from -/

/-- every dirty entry of `ps'` is (by id) a dirty entry of `ps`, or the page `np` -/
def DSub (ps' ps : List Pg) (np : Option Nat) : Prop :=
  ∀ q ∈ ps', q.dirty = true → (∃ q0 ∈ ps, q0.id = q.id ∧ q0.dirty = true) ∨ np = some q.id

theorem DSub.refl (ps : List Pg) (np : Option Nat) : DSub ps ps np := fun q hq hd => Or.inl ⟨q, hq, rfl, hd⟩

theorem DSub.of_mem {ps' ps : List Pg} (np : Option Nat) (h : ∀ q ∈ ps', q ∈ ps) : DSub ps' ps np :=
  fun q hq hd => Or.inl ⟨q, h q hq, rfl, hd⟩

theorem DSub.trans {a b c : List Pg} {np : Option Nat} (h1 : DSub a b np) (h2 : DSub b c none) : DSub a c np := by
  intro q hq hd
  rcases h1 q hq hd with ⟨q0, hq0, e, hd0⟩ | h'
  · rcases h2 q0 hq0 hd0 with ⟨q1, hq1, e1, hd1⟩ | h''
    · exact Or.inl ⟨q1, hq1, e1.trans e, hd1⟩
    · cases h''
  · exact Or.inr h'

theorem mem_erase1 {ps : List Pg} {p : Nat} {q : Pg} (h : q ∈ erase1 ps p) : q ∈ ps := by
  induction ps with
  | nil => cases h
  | cons a t ih =>
    unfold erase1 at h
    split at h
    · exact List.mem_cons_of_mem _ h
    · rcases List.mem_cons.mp h with e | h'
      · exact e ▸ List.mem_cons_self
      · exact List.mem_cons_of_mem _ (ih h')

theorem mem_replace1' {ps : List Pg} {p : Nat} {n q : Pg} (h : q ∈ replace1 ps p n) : q ∈ ps ∨ q = n := by
  induction ps with
  | nil => cases h
  | cons a t ih =>
    unfold replace1 at h
    split at h
    · rcases List.mem_cons.mp h with e | h'
      · exact Or.inr e
      · exact Or.inl (List.mem_cons_of_mem _ h')
    · rcases List.mem_cons.mp h with e | h'
      · exact Or.inl (e ▸ List.mem_cons_self)
      · exact (ih h').imp (List.mem_cons_of_mem _) id

theorem touch_mem (s : St) (p : Nat) {q : Pg} (h : q ∈ (s.touch p).pages) : q ∈ s.pages := by
  unfold St.touch at h
  cases hf : findPg s.pages p with
  | none => simpa [hf] using h
  | some q0 =>
    simp only [hf] at h
    split at h
    · exact h
    · rcases List.mem_append.mp h with h' | h'
      · exact mem_erase1 h'
      · simp only [List.mem_singleton] at h'; subst h'; exact (mem_of_find hf).1

theorem assign_dsub (s : St) (p : Nat) (d : Bool) : DSub (s.assign p d).pages s.pages (if d then some p else none) := by
  intro q hq hd
  unfold St.assign at hq
  split at hq
  · rcases mem_replace1' hq with h' | h'
    · exact Or.inl ⟨q, h', rfl, hd⟩
    · subst h'; cases d
      · cases hd
      · exact Or.inr rfl
  · rcases List.mem_append.mp hq with h' | h'
    · exact Or.inl ⟨q, h', rfl, hd⟩
    · simp only [List.mem_singleton] at h'; subst h'; cases d
      · cases hd
      · exact Or.inr rfl

theorem setDirty_false_dsub (s : St) (p : Nat) : DSub (s.setDirty p false).pages s.pages none := by
  intro q hq hd
  unfold St.setDirty at hq
  cases hf : findPg s.pages p with
  | none => rw [hf] at hq; exact Or.inl ⟨q, hq, rfl, hd⟩
  | some q0 =>
    rw [hf] at hq
    rcases mem_replace1' hq with h' | h'
    · exact Or.inl ⟨q, h', rfl, hd⟩
    · subst h'; cases hd

theorem ensure_mem (cfg : Cfg) (hr : cfg.rep = true) : ∀ (fuel : Nat) (s : St) (q : Pg),
    q ∈ (ensure cfg fuel s).1.pages → q ∈ s.pages := by
  intro fuel
  induction fuel with
  | zero => intro s q h; exact h
  | succ n ih =>
    intro s q h
    unfold ensure at h
    split at h
    · exact h
    · split at h
      · exact h
      · rename_i q0 qs hp
        try rw [if_pos hr] at h
        simp only at h
        split at h
        · rw [hp]; exact List.mem_cons_of_mem _ h
        · have := ih _ q h
          rw [hp]; exact List.mem_cons_of_mem _ this

/-- `withRoom`: dirty pages come from the old state, or are the page of a `write` continuation that returned -/
theorem withRoom_dsub (cfg : Cfg) (hr : cfg.rep = true) (s : St) (idx : Nat) (k : Cont) :
    DSub (withRoom cfg s idx k).1.pages s.pages
      (match k with | .write p => if (withRoom cfg s idx k).2 = some .ok then some p else none | _ => none) := by
  have hens : ∀ q ∈ (ensure cfg (s.pages.length + 1) s).1.pages, q ∈ s.pages :=
    fun q hq => ensure_mem cfg hr _ s q hq
  cases k with
  | load p =>
    unfold withRoom
    simp only
    cases he : ensure cfg (s.pages.length + 1) s with
    | mk s1 v =>
      rw [he] at hens
      cases v <;> exact DSub.of_mem _ hens
  | ins p =>
    unfold withRoom
    simp only
    split
    · rw [(readAhead_frame cfg idx p 1 s).1]; exact DSub.refl _ _
    · cases he : ensure cfg (s.pages.length + 1) s with
      | mk s1 v =>
        rw [he] at hens
        cases v with
        | some v => exact DSub.of_mem _ hens
        | none =>
          show DSub (readAhead cfg idx p 1 (s1.assign p false)).1.pages s.pages none
          rw [(readAhead_frame cfg idx p 1 _).1]
          exact (assign_dsub s1 p false).trans (DSub.of_mem _ hens)
  | write p =>
    unfold withRoom
    simp only
    cases he : ensure cfg (s.pages.length + 1) s with
    | mk s1 v =>
      rw [he] at hens
      cases v with
      | some v => exact DSub.of_mem _ hens
      | none =>
        show DSub (s1.assign p true).pages s.pages (if (some Res.ok : Option Res) = some Res.ok then some p else none)
        rw [if_pos rfl]
        exact (assign_dsub s1 p true).trans (DSub.of_mem _ hens)

/-- the page whose `write_page` returns in this segment, if any -/
def writeRet (cfg : Cfg) (s : St) : Act → Option Nat
  | .start i (.write p) => if (step cfg s (.start i (.write p))).2 = some .ok then some p else none
  | .resume i =>
    match findPend s.pend i with
    | some (.evict _ (.write p)) => if (step cfg s (.resume i)).2 = some .ok then some p else none
    | _ => none
  | _ => none

theorem step_dsub (cfg : Cfg) (hr : cfg.rep = true) (s : St) (a : Act) :
    DSub (step cfg s a).1.pages s.pages (writeRet cfg s a) := by
  cases a with
  | start i op =>
    cases op with
    | read p =>
      show DSub (start cfg s i (.read p)).1.pages s.pages none
      unfold start
      simp only
      split
      · exact DSub.of_mem _ (fun q hq => touch_mem { s with hits := s.hits + 1 } p hq)
      · exact withRoom_dsub cfg hr { s with misses := s.misses + 1 } i (.load p)
    | write p =>
      show DSub (start cfg s i (.write p)).1.pages s.pages
        (if (start cfg s i (.write p)).2 = some .ok then some p else none)
      unfold start
      simp only
      split
      · rw [if_pos rfl]
        intro q hq hd
        have hq1 := touch_mem _ p hq
        unfold St.setDirty at hq1
        cases hf : findPg s.pages p with
        | none => simp only [hf] at hq1; exact Or.inl ⟨q, hq1, rfl, hd⟩
        | some q0 =>
          simp only [hf] at hq1
          rcases mem_replace1' hq1 with h' | h'
          · exact Or.inl ⟨q, h', rfl, hd⟩
          · subst h'; exact Or.inr (by rw [(mem_of_find hf).2])
      · exact withRoom_dsub cfg hr { s with misses := s.misses + 1 } i (.write p)
    | flush =>
      show DSub (start cfg s i .flush).1.pages s.pages none
      unfold start
      simp only [hr, if_true]
      rw [(flushNextR_frame i _ 0 s).1]; exact DSub.refl _ _
  | resume i =>
    unfold writeRet step
    cases hf : findPend s.pend i with
    | none => simp only [hf]; exact DSub.refl _ _
    | some pd =>
      simp only [hf]
      cases pd with
      | evict v k =>
        have e : resume cfg { s with pend := erasePend s.pend i } i (.evict v k) =
            withRoom cfg { s with pend := erasePend s.pend i, dwb := s.dwb + 1 } i k := by
          unfold resume; simp only [hr, if_true]
        have hw := withRoom_dsub cfg hr { s with pend := erasePend s.pend i, dwb := s.dwb + 1 } i k
        rw [e]
        cases k with
        | write p => exact hw
        | load p => exact hw
        | ins p => exact hw
      | disk p =>
        have e : resume cfg { s with pend := erasePend s.pend i } i (.disk p) =
            withRoom cfg { s with pend := erasePend s.pend i } i (.ins p) := by
          unfold resume; simp only [hr, if_true]
        rw [e]
        exact withRoom_dsub cfg hr { s with pend := erasePend s.pend i } i (.ins p)
      | ahead p j =>
        unfold resume
        simp only [hr, if_true]
        split
        · rw [(readAhead_frame cfg i p (j + 1) _).1]
          exact assign_dsub { s with pend := erasePend s.pend i } (p + j) false
        · rw [(readAhead_frame cfg i p (j + 1) _).1]; exact DSub.refl _ _
      | flushC p g rest stamp n =>
        unfold resume
        simp only [hr, if_true]
        exact DSub.refl _ _
      | flushR p rest n =>
        have e : resume cfg { s with pend := erasePend s.pend i } i (.flushR p rest n) =
            if isDirty s.pages p then
              flushNextR { ({ s with pend := erasePend s.pend i } : St).setDirty p false with dwb := s.dwb + 1 } i rest (n + 1)
            else flushNextR { s with pend := erasePend s.pend i } i rest n := by
          unfold resume; simp [hr]
        rw [e]
        split
        · rw [(flushNextR_frame i rest (n + 1) _).1]
          exact setDirty_false_dsub { s with pend := erasePend s.pend i } p
        · rw [(flushNextR_frame i rest n _).1]; exact DSub.refl _ _

/-! ### the judge's `mayDirty` list along a run -/

/-- `PageSpec.jstep`'s `mayDirty` update for one segment -/
def mdStep (cfg : Cfg) (s : St) (a : Act) (md : List Nat) : List Nat :=
  if dirtyCount (step cfg s a).1.pages = 0 then []
  else match writeRet cfg s a with
    | some p => p :: md
    | none => md

def mdRun (cfg : Cfg) : St → List Nat → List Act → List Nat
  | _, md, [] => md
  | s, md, a :: as => mdRun cfg (step cfg s a).1 (mdStep cfg s a md) as

/-- every dirty page is in the list -/
def MD (md : List Nat) (s : St) : Prop := ∀ q ∈ s.pages, q.dirty = true → q.id ∈ md

theorem md_step (cfg : Cfg) (hr : cfg.rep = true) (s : St) (a : Act) (md : List Nat) (h : MD md s) :
    MD (mdStep cfg s a md) (step cfg s a).1 := by
  intro q hq hd
  unfold mdStep
  split
  · rename_i h0
    have : 0 < dirtyCount (step cfg s a).1.pages := by
      unfold dirtyCount
      exact List.countP_pos_iff.mpr ⟨q, hq, hd⟩
    omega
  · rcases step_dsub cfg hr s a q hq hd with ⟨q0, hq0, e, hd0⟩ | h'
    · have := h q0 hq0 hd0
      rw [e] at this
      cases writeRet cfg s a <;> simp [this]
    · rw [h']; simp

theorem md_run (cfg : Cfg) (hr : cfg.rep = true) : ∀ (as : List Act) (s : St) (md : List Nat), MD md s →
    MD (mdRun cfg s md as) (run cfg s as) := by
  intro as
  induction as with
  | nil => intro s md h; exact h
  | cons a as ih => intro s md h; exact ih _ _ (md_step cfg hr s a md h)

end HappyModel.C16.Page
