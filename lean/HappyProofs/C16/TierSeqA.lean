import HappyModel.C16.Tier
import HappyProofs.C16.TierInv
import HappyProofs.C16.StoreSeq
/-!
Tier-level lemmas for `TierSeq.lean`: what one write-through `CachedStore` tier (repaired variant)
keeps when the multi-tier cache runs one of its methods on it between operations.  `TR c s M` is the
part of `RInv` that does not mention the backing store (a write-through tier is never dirty), so it is
not disturbed by what other tiers do to the shared store.
-/
namespace HappyModel.C16.Tier
open HappyModel.C16

/-- a write-through tier at rest implements (part of) the map `M` -/
structure TR (c : Cfg) (s : St) (M : List (Key × Nat)) : Prop where
  sinv : SInv c s
  idle : s.pend = []
  noInfl : ∀ k, cnt s.infl k = 0
  clean : s.dirty = []
  cacheOk : ∀ k v, aget? s.cache k = some v → aget? M k = some v

/-- every tier is a repaired write-through `CachedStore` with capacity ≥ 1 -/
def TierOk (c : Cfg) : Prop := c.rep = true ∧ c.wt = true ∧ 1 ≤ c.cap

theorem plug_self (s : St) : plug s s.back = s := by cases s; rfl

theorem tr_plug {c : Cfg} {s : St} {M : List (Key × Nat)} (h : TR c s M) (b : List (Key × Nat)) : TR c (plug s b) M :=
  ⟨sinv_plug h.sinv b, h.idle, h.noInfl, h.clean, h.cacheOk⟩

theorem tr_to_rinv {c : Cfg} {s : St} {M b : List (Key × Nat)} (h : TR c s M)
    (hb : ∀ k, aget? b k = aget? M k) : RInv c (plug s b) M :=
  ⟨sinv_plug h.sinv b, h.idle, h.noInfl, fun x hx => (by rw [show (plug s b).dirty = s.dirty from rfl, h.clean] at hx; cases hx),
    h.cacheOk, fun k _ => hb k, fun _ => h.clean⟩

theorem rinv_to_tr {c : Cfg} {x : St} {M : List (Key × Nat)} (h : RInv c x M) (hwt : c.wt = true) :
    TR c x M ∧ ∀ k, aget? x.back k = aget? M k := by
  have hd := h.wtClean hwt
  exact ⟨⟨h.sinv, h.idle, h.noInfl, hd, h.cacheOk⟩, fun k => h.backOk k (by rw [hd]; simp)⟩

theorem tr_congr {c : Cfg} {s : St} {M M' : List (Key × Nat)} (h : TR c s M) (e : ∀ k, aget? M' k = aget? M k) :
    TR c s M' :=
  ⟨h.sinv, h.idle, h.noInfl, h.clean, fun k v hv => by rw [e k]; exact h.cacheOk k v hv⟩

theorem step_resume_set (c : Cfg) (X : St) (i : Nat) (p : Pend) (now : Nat) (hX : X.pend = []) :
    step c (X.setPend i p) (.resume i now) = resume c (X.setPend i p) i p now := by
  simp only [step]
  rw [sq_find_set X i p hX]

/-- `tier.get(key)`: its two segments run back to back are `execOp` -/
theorem tier_get_exec (c : Cfg) (hcap : 1 ≤ c.cap) (x : St) (M : List (Key × Nat)) (i k now : Nat) (h : RInv c x M) :
    (start c x i (.get k) now).2 = none ∧
      step c (start c x i (.get k) now).1 (.resume i now) = execOp c x i (.get k) now := by
  have e : execOp c x i (.get k) now = finish c (1 + 1) i now (start c x i (.get k) now) := rfl
  cases hc : aget? x.cache k with
  | some v =>
    have hst : start c x i (.get k) now = ({ x with pol := x.pol.access k }.setPend i (.getHit v), none) := by
      simp only [start, hc]
    have hX : ({ x with pol := x.pol.access k } : St).pend = [] := h.idle
    have hres : resume c ({ x with pol := x.pol.access k }.setPend i (.getHit v)) i (.getHit v) now
        = ({ x with pol := x.pol.access k }, some (.val v)) := by
      simp only [resume, sq_clear_set _ _ _ hX]
    have ⟨e1, _⟩ := exec_two c hcap x i _ now _ _ _ _ e hst hX hres h.sinv
    rw [e1, hst]
    exact ⟨rfl, by rw [step_resume_set c _ i _ now hX, hres]⟩
  | none =>
    have hst : start c x i (.get k) now = (x.setPend i (.getMiss k (cnt x.epoch k)), none) := by
      simp only [start, hc]
    cases hbk : aget? x.back k with
    | none =>
      have hres : resume c (x.setPend i (.getMiss k (cnt x.epoch k))) i (.getMiss k (cnt x.epoch k)) now
          = (x, some .none) := by
        simp only [resume, sq_clear_set _ _ _ h.idle, hbk]
      have ⟨e1, _⟩ := exec_two c hcap x i _ now _ _ _ _ e hst h.idle hres h.sinv
      rw [e1, hst]
      exact ⟨rfl, by rw [step_resume_set c _ i _ now h.idle, hres]⟩
    | some y =>
      have hres : resume c (x.setPend i (.getMiss k (cnt x.epoch k))) i (.getMiss k (cnt x.epoch k)) now
          = ((if !c.rep || x.fillAllowed k (cnt x.epoch k) then cachePut c x k y now else x), some (.val y)) := by
        simp only [resume, sq_clear_set _ _ _ h.idle, hbk]
        split <;> rfl
      have ⟨e1, _⟩ := exec_two c hcap x i _ now _ _ _ _ e hst h.idle hres h.sinv
      rw [e1, hst]
      exact ⟨rfl, by rw [step_resume_set c _ i _ now h.idle, hres]⟩

/-- `tier.get(key)` on a tier at rest: returns what the map holds and keeps the tier consistent -/
theorem tier_get (c : Cfg) (hc : TierOk c) (s : St) (M b : List (Key × Nat)) (i k now : Nat) (h : TR c s M)
    (hb : ∀ k, aget? b k = aget? M k) :
    (start c (plug s b) i (.get k) now).2 = none ∧
    TR c (step c (start c (plug s b) i (.get k) now).1 (.resume i now)).1 M ∧
    (∀ k', aget? (step c (start c (plug s b) i (.get k) now).1 (.resume i now)).1.back k' = aget? M k') ∧
    (step c (start c (plug s b) i (.get k) now).1 (.resume i now)).2 = some (expected M k) := by
  have hr := tr_to_rinv h hb
  have key := tier_get_exec c hc.2.2 (plug s b) M i k now hr
  have ex := exec_get c hc.1 hc.2.2 (plug s b) M i k now hr
  rw [key.2]
  have t := rinv_to_tr ex.1 hc.2.1
  exact ⟨key.1, t.1, t.2, ex.2⟩

theorem evictLoop_pend (c : Cfg) (now : Nat) : ∀ (fuel : Nat) (t : St), (evictLoop c fuel t now).pend = t.pend := by
  intro fuel
  induction fuel with
  | zero => intro t; rfl
  | succ f ih =>
    intro t
    unfold evictLoop
    split
    · rfl
    · split
      · rfl
      · rw [ih]
        unfold evictOne
        show (if c.rep then t.writeBack _ else t).pend = t.pend
        split
        · exact wb_writeBack_pend _ _
        · rfl

theorem cachePut_pend (c : Cfg) (t : St) (k v now : Nat) : (cachePut c t k v now).pend = t.pend := by
  unfold cachePut
  split
  · rfl
  · show (evictLoop c _ t now).pend = t.pend
    exact evictLoop_pend c now _ t

/-- `tiers[0].put(key, value)` (write-through): its two segments run back to back are `execOp` -/
theorem tier_put_exec (c : Cfg) (hwt : c.wt = true) (hcap : 1 ≤ c.cap) (x : St) (i k v now : Nat)
    (hs : SInv c x) (hidle : x.pend = []) :
    (start c x i (.put k v) now).2 = none ∧
      step c (start c x i (.put k v) now).1 (.resume i now) = execOp c x i (.put k v) now ∧
      (step c (start c x i (.put k v) now).1 (.resume i now)).2 = some .none := by
  have e : execOp c x i (.put k v) now = finish c (1 + 1) i now (start c x i (.put k v) now) := rfl
  generalize hu : cachePut c (x.bump c k) k v now = u
  have hup : u.pend = [] := by
    rw [← hu, cachePut_pend, wb_bump_pend]; exact hidle
  have hst : start c x i (.put k v) now = ((u.inflInc c k).setPend i (.putWT k v), none) := by
    simp only [start, hwt, if_true, hu]
  have hX : (u.inflInc c k).pend = [] := by rw [wb_inflInc_pend]; exact hup
  have hres : resume c ((u.inflInc c k).setPend i (.putWT k v)) i (.putWT k v) now
      = ({ u.inflInc c k with back := aset (u.inflInc c k).back k v }.inflDec c k, some .none) := by
    simp only [resume, sq_clear_set _ _ _ hX]
  have ⟨e1, _⟩ := exec_two c hcap x i _ now _ _ _ _ e hst hX hres hs
  rw [e1, hst]
  refine ⟨rfl, ?_, ?_⟩
  · rw [step_resume_set c _ i _ now hX, hres]
  · rw [step_resume_set c _ i _ now hX, hres]

/-- `tiers[0].put(key, value)` on a tier at rest, the backing store already holding the value -/
theorem tier_put (c : Cfg) (hc : TierOk c) (s : St) (M b : List (Key × Nat)) (i k v now : Nat) (h : TR c s M)
    (hb : ∀ k, aget? b k = aget? M k) (hM : aget? M k = some v) :
    (start c (plug s b) i (.put k v) now).2 = none ∧
    TR c (step c (start c (plug s b) i (.put k v) now).1 (.resume i now)).1 M ∧
    (∀ k', aget? (step c (start c (plug s b) i (.put k v) now).1 (.resume i now)).1.back k' = aget? M k') ∧
    (step c (start c (plug s b) i (.put k v) now).1 (.resume i now)).2 = some .none := by
  have hr := tr_to_rinv h hb
  have key := tier_put_exec c hc.2.1 hc.2.2 (plug s b) i k v now hr.sinv hr.idle
  have ex := exec_put c hc.1 hc.2.2 (plug s b) M i k v now hr
  have hMe : ∀ k', aget? M k' = aget? (aset M k v) k' := by
    intro k'
    by_cases e : k' = k
    · subst e; rw [wb_aget?_aset_self, hM]
    · rw [wb_aget?_aset_other _ _ _ _ e]
  refine ⟨key.1, ?_, ?_, key.2.2⟩
  · rw [key.2.1]
    exact tr_congr (rinv_to_tr ex hc.2.1).1 hMe
  · intro k'
    rw [key.2.1, (rinv_to_tr ex hc.2.1).2 k', hMe k']

/-- `tier.invalidate(key)` while the map changes at `k` only (`M' = M` for a plain invalidation) -/
theorem tr_inv_change (c : Cfg) (hc : TierOk c) (s : St) (M M' b : List (Key × Nat)) (k : Key) (h : TR c s M)
    (hM : ∀ k', k' ≠ k → aget? M' k' = aget? M k') :
    TR c (start c (plug s b) 0 (.inv k) 0).1 M' ∧ (start c (plug s b) 0 (.inv k) 0).1.back = b := by
  have hwb : (plug s b).writeBack k = plug s b := by
    unfold St.writeBack
    split
    · rw [show (plug s b).dirty = s.dirty from rfl, h.clean]; simp
    · rfl
  by_cases hk : k ∈ akeys s.cache
  · have hst : (start c (plug s b) 0 (.inv k) 0).1 = cacheRemove (plug s b) k := by
      simp only [start, show (plug s b).cache = s.cache from rfl, hk, if_true, hc.1, hwb]
    rw [hst]
    refine ⟨⟨cacheRemove_inv c _ k (sinv_plug h.sinv b), h.idle, h.noInfl, ?_, ?_⟩, rfl⟩
    · show setDel s.dirty k = []
      rw [h.clean]; rfl
    · intro k' v hv
      have hv : aget? (adel s.cache k) k' = some v := hv
      by_cases e : k' = k
      · subst e; rw [sq_aget?_adel_self] at hv; cases hv
      · rw [wb_aget?_adel_other _ _ _ e] at hv
        rw [hM k' e]; exact h.cacheOk k' v hv
  · have hst : (start c (plug s b) 0 (.inv k) 0).1 = plug s b := by
      simp only [start, show (plug s b).cache = s.cache from rfl, hk, if_false]
    rw [hst]
    refine ⟨⟨sinv_plug h.sinv b, h.idle, h.noInfl, h.clean, ?_⟩, rfl⟩
    intro k' v hv
    have hv : aget? s.cache k' = some v := hv
    have e : k' ≠ k := fun e => hk (e ▸ sq_mem_akeys_of_some _ _ _ hv)
    rw [hM k' e]; exact h.cacheOk k' v hv

/-- `tier.invalidate_all()` -/
theorem tr_invAll (c : Cfg) (hc : TierOk c) (s : St) (M b : List (Key × Nat)) (h : TR c s M) :
    TR c (start c (plug s b) 0 .invAll 0).1 M ∧ (start c (plug s b) 0 .invAll 0).1.back = b := by
  have hs := start_inv c hc.2.2 (plug s b) 0 .invAll 0 (sinv_plug h.sinv b)
  have hwb : (plug s b).writeBackAll (plug s b).dirty = plug s b := by
    rw [show (plug s b).dirty = s.dirty from rfl, h.clean]; rfl
  have hst : (start c (plug s b) 0 .invAll 0).1
      = { plug s b with cache := [], dirty := [], pol := (plug s b).pol.clear } := by
    simp only [start, hc.1, if_true, hwb]
  rw [hst] at hs ⊢
  exact ⟨⟨hs, h.idle, h.noInfl, rfl, fun k v hv => by simp [aget?] at hv⟩, rfl⟩

/-- `_cache_put(key, value)` of the value the map holds (promotion, miss fill) -/
theorem tr_cachePut (c : Cfg) (hc : TierOk c) (s : St) (M b : List (Key × Nat)) (k v now : Nat) (h : TR c s M)
    (hb : ∀ k, aget? b k = aget? M k) (hM : aget? M k = some v) :
    TR c (cachePut c (plug s b) k v now) M ∧ ∀ k', aget? (cachePut c (plug s b) k v now).back k' = aget? M k' := by
  have hr := tr_to_rinv h hb
  obtain ⟨c', d, b', hq, hsub, ec, ed, eb, ep, ei, _⟩ := cachePut_q c hc.1 (plug s b) k v now hr.q
  have hd : d = [] := nil_of_sub hsub h.clean
  have hq' : QD M (aset c' k v) d b' :=
    qd_set hq hM (fun _ _ => rfl) (fun _ hx => Or.inl hx) (fun _ _ hx => hx) (fun _ _ => rfl)
      (fun hk => (hq.backOk k hk).trans hM)
  refine ⟨⟨cachePut_inv c hc.2.2 _ k v now hr.sinv, ep.trans h.idle, by rw [ei]; exact h.noInfl, ed.trans hd, ?_⟩, ?_⟩
  · rw [ec]; exact hq'.cacheOk
  · intro k'
    rw [eb]; exact hq'.backOk k' (by rw [hd]; simp)

end HappyModel.C16.Tier
