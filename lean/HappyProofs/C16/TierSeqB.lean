import HappyProofs.C16.TierSeqA
/-!
`MultiTierCache`, schedules in which operations do not overlap: definitions (`mexec`, `MSeqOk`), the
link `MR` between the hierarchy and the map it implements, and the plumbing lemmas about `onTier` /
`sweepL` used by `TierSeq.lean`.
-/
namespace HappyModel.C16.Tier
open HappyModel.C16

/-- every tier is a repaired write-through `CachedStore` with capacity ≥ 1 -/
def SeqCfg (cfg : MCfg) : Prop := ∀ c, c ∈ cfg.tiers → TierOk c

/-- resume operation `i` until it reports a result (a put needs two resumes) -/
def mresumeAll (cfg : MCfg) : Nat → MSt → Nat → Nat → MSt × Option Res
  | 0, ms, _, _ => (ms, none)
  | fuel + 1, ms, i, now =>
    match ms.pend.find? (·.1 == i) with
    | none => (ms, none)
    | some (_, p) =>
      match (mresume cfg ms i p now).2 with
      | some r => ((mresume cfg ms i p now).1, some r)
      | none => mresumeAll cfg fuel (mresume cfg ms i p now).1 i now

/-- run one operation to completion, nothing else in between -/
def mexec (cfg : MCfg) (ms : MSt) (i : Nat) (op : MOp) (now : Nat) : MSt × Option Res :=
  match (mstart cfg ms i op now).2 with
  | some r => ((mstart cfg ms i op now).1, some r)
  | none => mresumeAll cfg 3 (mstart cfg ms i op now).1 i now

/-- the map the hierarchy is supposed to implement (a direct tier read changes nothing) -/
def mabs (M : List (Key × Nat)) : MOp → List (Key × Nat)
  | .put k v => aset M k v
  | .del k => adel M k
  | _ => M

/-- every get of a sequential script returns what the map holds -/
def MSeqOk (cfg : MCfg) : MSt → List (Key × Nat) → Nat → List (MOp × Nat) → Prop
  | _, _, _, [] => True
  | ms, M, i, (op, now) :: rest =>
    (match op with
     | .get k => (mexec cfg ms i op now).2 = some (expected M k)
     | _ => True) ∧
    MSeqOk cfg (mexec cfg ms i op now).1 (mabs M op) (i + 1) rest

/-- a predicate holds of every configured tier -/
def PW (P : Cfg → St → Prop) (cs : List Cfg) (ss : List St) : Prop :=
  ∀ (t : Nat) (c : Cfg) (s : St), cs[t]? = some c → ss[t]? = some s → P c s

/-- what links the hierarchy to the map whenever no segment of the multi-tier cache is pending -/
structure MR0 (cfg : MCfg) (ms : MSt) (M : List (Key × Nat)) : Prop where
  tiers : PW (fun c s => TR c s M) cfg.tiers ms.tiers
  len : ms.tiers.length = cfg.tiers.length
  backOk : ∀ k, aget? ms.back k = aget? M k
  idle : ms.pend = []

/-- … and between operations -/
structure MR (cfg : MCfg) (ms : MSt) (M : List (Key × Nat)) : Prop extends MR0 cfg ms M where
  noInfl : ∀ k, cnt ms.infl k = 0

theorem pw_set {P : Cfg → St → Prop} {cs : List Cfg} {ss : List St} (h : PW P cs ss) (t : Nat) (c : Cfg) (x : St)
    (ec : cs[t]? = some c) (hx : P c x) : PW P cs (ss.set t x) := by
  intro t' c' s' ec' es'
  by_cases e : t = t'
  · subst e
    rw [List.getElem?_set] at es'
    simp only [if_true] at es'
    split at es'
    · cases es'
      rw [ec] at ec'; cases ec'
      exact hx
    · cases es'
  · rw [List.getElem?_set_ne e] at es'
    exact h t' c' s' ec' es'

theorem pw_tail {P : Cfg → St → Prop} {c : Cfg} {cs : List Cfg} {s : St} {ss : List St} (h : PW P (c :: cs) (s :: ss)) :
    PW P cs ss := by
  intro t1 c1 s1 e1 e2
  exact h (t1 + 1) c1 s1 (by simpa using e1) (by simpa using e2)

/-! ### `onTier` -/

theorem onTier_eq (cfg : MCfg) (ms : MSt) (t : Nat) (f : Cfg → St → St × Option Res) (c : Cfg) (s : St)
    (ec : cfg.tiers[t]? = some c) (es : ms.tiers[t]? = some s) :
    onTier cfg ms t f = ({ ms with tiers := ms.tiers.set t (f c (plug s ms.back)).1, back := (f c (plug s ms.back)).1.back },
      (f c (plug s ms.back)).2) := by
  simp only [onTier, ec, es]

theorem onTier_none (cfg : MCfg) (ms : MSt) (t : Nat) (f : Cfg → St → St × Option Res)
    (h : cfg.tiers[t]? = none ∨ ms.tiers[t]? = none) : onTier cfg ms t f = (ms, none) := by
  unfold onTier
  split
  · rename_i ec es
    rcases h with h | h
    · rw [h] at ec; cases ec
    · rw [h] at es; cases es
  · rfl

theorem onTier_pend (cfg : MCfg) (ms : MSt) (t : Nat) (f : Cfg → St → St × Option Res) :
    (onTier cfg ms t f).1.pend = ms.pend := by
  unfold onTier; split <;> rfl

theorem onTier_infl (cfg : MCfg) (ms : MSt) (t : Nat) (f : Cfg → St → St × Option Res) :
    (onTier cfg ms t f).1.infl = ms.infl := by
  unfold onTier; split <;> rfl

/-- two tier-level segments run back to back on the same tier are one composite segment -/
theorem onTier_comp (cfg : MCfg) (ms : MSt) (t : Nat) (f g : Cfg → St → St × Option Res) :
    onTier cfg (onTier cfg ms t f).1 t g = onTier cfg ms t (fun c s => g c (f c s).1) := by
  cases ec : cfg.tiers[t]? with
  | none => rw [onTier_none cfg ms t f (Or.inl ec), onTier_none cfg ms t g (Or.inl ec), onTier_none cfg ms t _ (Or.inl ec)]
  | some c =>
    cases es : ms.tiers[t]? with
    | none => rw [onTier_none cfg ms t f (Or.inr es), onTier_none cfg ms t g (Or.inr es), onTier_none cfg ms t _ (Or.inr es)]
    | some s =>
      have hlt : t < ms.tiers.length := by
        cases Nat.lt_or_ge t ms.tiers.length with
        | inl h => exact h
        | inr h => rw [List.getElem?_eq_none h] at es; cases es
      rw [onTier_eq cfg ms t f c s ec es, onTier_eq cfg ms t _ c s ec es]
      rw [onTier_eq cfg _ t g c (f c (plug s ms.back)).1 ec (by simp [List.getElem?_set_self hlt])]
      simp only [plug_self, List.set_set]

/-- tier-level code that leaves the tier consistent with the map leaves the hierarchy consistent -/
theorem mr_onTier {cfg : MCfg} {ms : MSt} {M : List (Key × Nat)} (h : MR0 cfg ms M) (t : Nat)
    (f : Cfg → St → St × Option Res)
    (hf : ∀ c s, cfg.tiers[t]? = some c → ms.tiers[t]? = some s →
      TR c (f c (plug s ms.back)).1 M ∧ ∀ k, aget? (f c (plug s ms.back)).1.back k = aget? M k) :
    MR0 cfg (onTier cfg ms t f).1 M := by
  cases ec : cfg.tiers[t]? with
  | none => rw [onTier_none cfg ms t f (Or.inl ec)]; exact h
  | some c =>
    cases es : ms.tiers[t]? with
    | none => rw [onTier_none cfg ms t f (Or.inr es)]; exact h
    | some s =>
      rw [onTier_eq cfg ms t f c s ec es]
      have := hf c s ec es
      exact ⟨pw_set h.tiers t c _ ec this.1, by simp [h.len], this.2, h.idle⟩

/-! ### sweeps -/

theorem sweepL_tr (op : OpK) (M M' : List (Key × Nat))
    (hop : ∀ c s b, TierOk c → TR c s M → TR c (start c (plug s b) 0 op 0).1 M' ∧ (start c (plug s b) 0 op 0).1.back = b)
    (cs : List Cfg) (ss : List St) (b : List (Key × Nat)) (hc : ∀ c, c ∈ cs → TierOk c)
    (h : PW (fun c s => TR c s M) cs ss) :
    PW (fun c s => TR c s M') cs (sweepL op cs ss b).1 ∧ (sweepL op cs ss b).2 = b ∧
      (sweepL op cs ss b).1.length = ss.length := by
  induction cs generalizing ss b with
  | nil => exact ⟨fun t c s ec _ => by simp at ec, rfl, rfl⟩
  | cons c cs ih =>
    cases ss with
    | nil => exact ⟨fun t c s _ es => by simp [sweepL] at es, rfl, rfl⟩
    | cons s ss =>
      have h0 := hop c s b (hc c (by simp)) (h 0 c s rfl rfl)
      have ih' := ih ss b (fun x hx => hc x (by simp [hx])) (pw_tail h)
      simp only [sweepL]
      rw [h0.2]
      refine ⟨?_, ih'.2.1, by simp [ih'.2.2]⟩
      intro t c' s' ec es
      cases t with
      | zero =>
        simp only [List.getElem?_cons_zero, Option.some.injEq] at ec es
        subst ec; subst es
        exact h0.1
      | succ t =>
        simp only [List.getElem?_cons_succ] at ec es
        exact ih'.1 t c' s' ec es

/-- `for tier in tiers: tier.invalidate(k)` while the map changes at `k` only -/
theorem mr_sweep_inv {cfg : MCfg} (hc : SeqCfg cfg) {ms : MSt} {M M' : List (Key × Nat)} (k : Key)
    (ht : PW (fun c s => TR c s M) cfg.tiers ms.tiers) (hM : ∀ k', k' ≠ k → aget? M' k' = aget? M k') :
    PW (fun c s => TR c s M') cfg.tiers (ms.sweep cfg (.inv k)).tiers ∧ (ms.sweep cfg (.inv k)).back = ms.back ∧
      (ms.sweep cfg (.inv k)).tiers.length = ms.tiers.length :=
  sweepL_tr (.inv k) M M' (fun c s b hc' h => tr_inv_change c hc' s M M' b k h hM) cfg.tiers ms.tiers ms.back hc ht

theorem mr_sweep_invAll {cfg : MCfg} (hc : SeqCfg cfg) {ms : MSt} {M : List (Key × Nat)}
    (ht : PW (fun c s => TR c s M) cfg.tiers ms.tiers) :
    PW (fun c s => TR c s M) cfg.tiers (ms.sweep cfg .invAll).tiers ∧ (ms.sweep cfg .invAll).back = ms.back ∧
      (ms.sweep cfg .invAll).tiers.length = ms.tiers.length :=
  sweepL_tr .invAll M M (fun c s b hc' h => tr_invAll c hc' s M b h) cfg.tiers ms.tiers ms.back hc ht

/-- the same over `tiers[1:]` -/
theorem mr_sweepLow_inv {cfg : MCfg} (hc : SeqCfg cfg) {ms : MSt} {M : List (Key × Nat)} (k : Key)
    (ht : PW (fun c s => TR c s M) cfg.tiers ms.tiers) :
    PW (fun c s => TR c s M) cfg.tiers (ms.sweepLow cfg (.inv k)).tiers ∧ (ms.sweepLow cfg (.inv k)).back = ms.back ∧
      (ms.sweepLow cfg (.inv k)).tiers.length = ms.tiers.length := by
  unfold MSt.sweepLow
  show PW _ cfg.tiers (ms.tiers.take 1 ++ (sweepL (.inv k) (cfg.tiers.drop 1) (ms.tiers.drop 1) ms.back).1) ∧
    (sweepL (.inv k) (cfg.tiers.drop 1) (ms.tiers.drop 1) ms.back).2 = ms.back ∧
    (ms.tiers.take 1 ++ (sweepL (.inv k) (cfg.tiers.drop 1) (ms.tiers.drop 1) ms.back).1).length = ms.tiers.length
  cases hs : ms.tiers with
  | nil => exact ⟨fun t c s _ es => by simp [sweepL] at es, by simp [sweepL], by simp [sweepL]⟩
  | cons s0 ss =>
    cases hcs : cfg.tiers with
    | nil => exact ⟨fun t c s ec _ => by simp at ec, by simp [sweepL], by simp [sweepL]⟩
    | cons c0 cs =>
      rw [hs, hcs] at ht
      have hc' : ∀ c, c ∈ cs → TierOk c := fun x hx => hc x (by rw [hcs]; simp [hx])
      have sw := sweepL_tr (.inv k) M M (fun c s b hc'' h => tr_inv_change c hc'' s M M b k h (fun _ _ => rfl))
        cs ss ms.back hc' (pw_tail ht)
      simp only [List.take_succ_cons, List.take_zero, List.drop_succ_cons, List.drop_zero, List.singleton_append]
      refine ⟨?_, sw.2.1, by simp [sw.2.2]⟩
      intro t c s ec es
      cases t with
      | zero =>
        simp only [List.getElem?_cons_zero, Option.some.injEq] at ec es
        subst ec; subst es
        exact ht 0 _ _ rfl rfl
      | succ t =>
        simp only [List.getElem?_cons_succ] at ec es
        exact sw.1 t c s ec es

/-! ### running the segments of one operation -/

theorem m_clear_set (X : MSt) (i : Nat) (p : MPend) (hX : X.pend = []) : (X.setPend i p).clearPend i = X := by
  cases X
  simp only [] at hX
  subst hX
  simp [MSt.setPend, MSt.clearPend]

theorem m_find_set (X : MSt) (i : Nat) (p : MPend) (hX : X.pend = []) :
    (X.setPend i p).pend.find? (·.1 == i) = some (i, p) := by
  simp [MSt.setPend, hX]

theorem mexec_one (cfg : MCfg) (ms : MSt) (i : Nat) (op : MOp) (now : Nat) (Y : MSt) (r : Res)
    (hst : mstart cfg ms i op now = (Y, some r)) : mexec cfg ms i op now = (Y, some r) := by
  unfold mexec; rw [hst]

theorem mexec_two (cfg : MCfg) (ms : MSt) (i : Nat) (op : MOp) (now : Nat) (X : MSt) (p : MPend) (Y : MSt) (r : Res)
    (hst : mstart cfg ms i op now = (X.setPend i p, none)) (hX : X.pend = [])
    (hres : mresume cfg (X.setPend i p) i p now = (Y, some r)) : mexec cfg ms i op now = (Y, some r) := by
  unfold mexec; rw [hst]
  show mresumeAll cfg 3 (X.setPend i p) i now = _
  unfold mresumeAll
  rw [m_find_set X i p hX]
  simp only [hres]

theorem mexec_three (cfg : MCfg) (ms : MSt) (i : Nat) (op : MOp) (now : Nat) (X : MSt) (p : MPend) (Y : MSt) (q : MPend)
    (Z : MSt) (r : Res)
    (hst : mstart cfg ms i op now = (X.setPend i p, none)) (hX : X.pend = [])
    (hres1 : mresume cfg (X.setPend i p) i p now = (Y.setPend i q, none)) (hY : Y.pend = [])
    (hres2 : mresume cfg (Y.setPend i q) i q now = (Z, some r)) : mexec cfg ms i op now = (Z, some r) := by
  unfold mexec; rw [hst]
  show mresumeAll cfg 3 (X.setPend i p) i now = _
  unfold mresumeAll
  rw [m_find_set X i p hX]
  simp only [hres1]
  unfold mresumeAll
  rw [m_find_set Y i q hY]
  simp only [hres2]

end HappyModel.C16.Tier
