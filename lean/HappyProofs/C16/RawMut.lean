import HappyProofs.C16.RawFresh
/-!
Read-after-write over every interleaving, part 3: the building blocks of the repaired store
(`writeBack`, `evictOne`, `evictLoop`, `cacheRemove`, `cachePut`, `invalidate_all`) are mutations
(`Mut`) that keep the value invariant `VI` under a fixed context.
-/
namespace HappyModel.C16

/-- a state that differs in nothing the invariant looks at -/
theorem mut_same {g : Gh} {s s' : St} (h : VI g s) (hc : s'.cache = s.cache) (hd : s'.dirty = s.dirty)
    (hb : s'.back = s.back) (hp : s'.pend = s.pend) (he : s'.epoch = s.epoch) (hi : s'.infl = s.infl) :
    Mut g s s' where
  pend := hp
  epoch := he
  infl := hi
  dsub := by rw [hd]; exact fun _ h => h
  dcache := by rw [hd, hc]; exact h.dsub
  c := by rw [hc]; exact fun _ _ h => Or.inl h
  b := by rw [hb]; exact fun _ => Or.inl rfl
  wb := by rw [hd]; exact fun _ h1 h2 => absurd h1 h2

theorem mut_writeBack {g : Gh} {s : St} (h : VI g s) (k : Key) : Mut g s (s.writeBack k) := by
  have key : ∀ x, x ∈ s.dirty → x = k → FreshAll g x (aget? (s.writeBack k).back x) := by
    intro x hx e
    subst e
    obtain ⟨v, hv⟩ := sq_some_of_mem_akeys _ _ (h.dsub x hx)
    rw [wb_writeBack_self s x v hx hv]
    exact h.c x v hv
  refine ⟨wb_writeBack_pend s k, sq_writeBack_epoch s k, sq_writeBack_infl s k,
    fun x hx => wb_writeBack_dirty_sub s k x hx, ?_, ?_, ?_, ?_⟩
  · intro x hx
    rw [wb_writeBack_cache]
    exact h.dsub x (wb_writeBack_dirty_sub s k x hx)
  · intro x v hv
    rw [wb_writeBack_cache] at hv
    exact Or.inl hv
  · intro x
    by_cases hx : x ≠ k ∨ x ∉ s.dirty
    · exact Or.inl (wb_writeBack_back_other s k x hx)
    · have hx' : x = k ∧ x ∈ s.dirty := by
        constructor
        · exact Classical.byContradiction fun hne => hx (Or.inl hne)
        · exact Classical.byContradiction fun hnd => hx (Or.inr hnd)
      exact Or.inr (key x hx'.2 hx'.1)
  · intro x hx hn
    have : x = k := Classical.byContradiction fun hne => hn (wb_writeBack_dirty_keep s k x hx hne)
    exact key x hx this

theorem vi_writeBack_clean {g : Gh} {s : St} (h : VI g s) (k : Key) : k ∉ (s.writeBack k).dirty := by
  by_cases hd : k ∈ s.dirty
  · obtain ⟨v, hv⟩ := sq_some_of_mem_akeys _ _ (h.dsub k hd)
    exact wb_writeBack_self_clean s k v hv
  · exact fun hx => hd (wb_writeBack_dirty_sub s k k hx)

/-- dropping a clean key from the cache -/
theorem mut_drop {g : Gh} {s s' : St} (h : VI g s) (k : Key) (hk : k ∉ s.dirty)
    (hc : s'.cache = adel s.cache k) (hd : s'.dirty = setDel s.dirty k)
    (hb : s'.back = s.back) (hp : s'.pend = s.pend) (he : s'.epoch = s.epoch) (hi : s'.infl = s.infl) :
    Mut g s s' where
  pend := hp
  epoch := he
  infl := hi
  dsub := by rw [hd]; exact fun x hx => ((wb_mem_setDel _ _ _).mp hx).1
  dcache := by
    rw [hd, hc]
    intro x hx
    have := (wb_mem_setDel _ _ _).mp hx
    exact (mem_akeys_adel _ _ _).mpr ⟨h.dsub x this.1, this.2⟩
  c := by
    rw [hc]
    intro x v hv
    by_cases e : x = k
    · subst e; rw [sq_aget?_adel_self] at hv; cases hv
    · rw [wb_aget?_adel_other _ _ _ e] at hv; exact Or.inl hv
  b := by rw [hb]; exact fun _ => Or.inl rfl
  wb := by
    rw [hd]
    intro x hx hn
    have : x = k := Classical.byContradiction fun hne => hn ((wb_mem_setDel _ _ _).mpr ⟨hx, hne⟩)
    exact absurd (this ▸ hx) hk

theorem mut_evictOne (cfg : Cfg) (hrep : cfg.rep = true) {g : Gh} {s : St} (h : VI g s) (ek : Key) (pol' : Pol) :
    Mut g s (evictOne cfg s ek pol') := by
  have e : evictOne cfg s ek pol' = { s.writeBack ek with
      cache := adel s.cache ek, dirty := setDel (s.writeBack ek).dirty ek, pol := pol', nEv := s.nEv + 1 } := by
    simp only [evictOne, hrep, ↓reduceIte]
  rw [e]
  have m1 := mut_writeBack h ek
  refine m1.trans (mut_drop (h.mut m1) ek (vi_writeBack_clean h ek) ?_ rfl rfl rfl rfl rfl)
  show adel s.cache ek = adel (s.writeBack ek).cache ek
  rw [wb_writeBack_cache]

theorem mut_evictLoop (cfg : Cfg) (hrep : cfg.rep = true) {g : Gh} (fuel : Nat) (s : St) (now : Nat)
    (h : VI g s) : Mut g s (evictLoop cfg fuel s now) := by
  induction fuel generalizing s with
  | zero => simpa [evictLoop] using Mut.refl h
  | succ f ih =>
    unfold evictLoop
    by_cases hlt : s.cache.length < cfg.cap
    · rw [if_pos hlt]; exact Mut.refl h
    · rw [if_neg hlt]
      cases hev : (s.pol.evict now (s.pick cfg)).1 with
      | none => simp only []; exact mut_same h rfl rfl rfl rfl rfl rfl
      | some ek =>
        simp only []
        have m1 := mut_evictOne cfg hrep h ek (s.pol.evict now (s.pick cfg)).2
        exact m1.trans (ih _ (h.mut m1))

/-- `_cache_remove` after `_write_back_if_dirty` -/
theorem mut_remove {g : Gh} {s : St} (h : VI g s) (k : Key) : Mut g s (cacheRemove (s.writeBack k) k) := by
  have m1 := mut_writeBack h k
  exact m1.trans (mut_drop (h.mut m1) k (vi_writeBack_clean h k) rfl rfl rfl rfl rfl rfl)

/-- setting a cache entry to a fresh value -/
theorem mut_cacheSet {g : Gh} {s s' : St} (h : VI g s) (k : Key) (v : Nat) (hf : FreshAll g k (some v))
    (hc : s'.cache = aset s.cache k v) (hd : s'.dirty = s.dirty)
    (hb : s'.back = s.back) (hp : s'.pend = s.pend) (he : s'.epoch = s.epoch) (hi : s'.infl = s.infl) :
    Mut g s s' where
  pend := hp
  epoch := he
  infl := hi
  dsub := by rw [hd]; exact fun _ h => h
  dcache := by
    rw [hd, hc]
    exact fun x hx => (sq_mem_akeys_aset _ _ _ _).mpr (Or.inr (h.dsub x hx))
  c := by
    rw [hc]
    intro x w hw
    by_cases e : x = k
    · subst e
      rw [wb_aget?_aset_self] at hw
      cases hw
      exact Or.inr hf
    · rw [wb_aget?_aset_other _ _ _ _ e] at hw; exact Or.inl hw
  b := by rw [hb]; exact fun _ => Or.inl rfl
  wb := by rw [hd]; exact fun _ h1 h2 => absurd h1 h2

/-- `_cache_put` = evictions (a mutation) followed by setting the entry -/
theorem cachePut_split (cfg : Cfg) (hrep : cfg.rep = true) {g : Gh} (s : St) (k v now : Nat) (h : VI g s) :
    ∃ pe, Mut g s pe ∧ (cachePut cfg s k v now).cache = aset pe.cache k v ∧
      (cachePut cfg s k v now).dirty = pe.dirty ∧ (cachePut cfg s k v now).back = pe.back ∧
      (cachePut cfg s k v now).pend = pe.pend ∧ (cachePut cfg s k v now).epoch = pe.epoch ∧
      (cachePut cfg s k v now).infl = pe.infl := by
  unfold cachePut
  by_cases hk : k ∈ akeys s.cache
  · rw [if_pos hk]
    exact ⟨s, Mut.refl h, rfl, rfl, rfl, rfl, rfl, rfl⟩
  · rw [if_neg hk]
    exact ⟨_, mut_evictLoop cfg hrep (s.cache.length + s.pol.tracked.length + 1) s now h,
      rfl, rfl, rfl, rfl, rfl, rfl⟩

theorem mut_cachePut (cfg : Cfg) (hrep : cfg.rep = true) {g : Gh} (s : St) (k v now : Nat) (h : VI g s)
    (hf : FreshAll g k (some v)) : Mut g s (cachePut cfg s k v now) := by
  obtain ⟨pe, m, hc, hd, hb, hp, he, hi⟩ := cachePut_split cfg hrep s k v now h
  exact m.trans (mut_cacheSet (h.mut m) k v hf hc hd hb hp he hi)

theorem rw_writeBackAll_epoch (s : St) (l : List Key) : (s.writeBackAll l).epoch = s.epoch := by
  induction l generalizing s with
  | nil => rfl
  | cons k ks ih => simp [St.writeBackAll, ih]

/-- `invalidate_all`: every dirty entry is written back, then everything is dropped -/
theorem mut_invAll {g : Gh} {s s' : St} (h : VI g s) (hc : s'.cache = []) (hd : s'.dirty = [])
    (hb : s'.back = (s.writeBackAll s.dirty).back) (hp : s'.pend = s.pend) (he : s'.epoch = s.epoch)
    (hi : s'.infl = s.infl) : Mut g s s' := by
  have key : ∀ x, x ∈ s.dirty → FreshAll g x (aget? s'.back x) := by
    intro x hx
    obtain ⟨v, hv⟩ := sq_some_of_mem_akeys _ _ (h.dsub x hx)
    rw [hb, wb_writeBackAll_hit s s.dirty x v hx hv hx]
    exact h.c x v hv
  refine ⟨hp, he, hi, ?_, ?_, ?_, ?_, ?_⟩
  · rw [hd]; intro x hx; cases hx
  · rw [hd]; intro x hx; cases hx
  · rw [hc]; intro x v hv; simp [aget?] at hv
  · intro x
    by_cases hx : x ∈ s.dirty
    · exact Or.inr (key x hx)
    · exact Or.inl (by rw [hb]; exact wb_writeBackAll_miss s s.dirty x hx)
  · intro x hx _; exact key x hx

end HappyModel.C16
