import HappyProofs.C16.RawMut
/-!
Read-after-write over every interleaving, part 4: extending the context by one observation.

* `ext_same`  — a later segment of an operation (or a `resume` of an id that has nothing pending):
  no new id is started; if the segment returned a result the operation has nothing pending any more;
* `ext_start` — a first segment: the id joins `started`; the state differs from a state that
  satisfies the invariant in the old context by what the first segment of a `get` / `put` /
  `delete` / `flush` does after its evictions and write-backs.
-/
namespace HappyModel.C16

theorem getD_snoc_lt {α} (l : List α) (x d : α) (n : Nat) (h : n < l.length) :
    (l ++ [x]).getD n d = l.getD n d := by
  simp [List.getD_eq_getElem?_getD, List.getElem?_append_left h]

theorem getD_snoc_eq {α} (l : List α) (x d : α) : (l ++ [x]).getD l.length d = x := by
  simp [List.getD_eq_getElem?_getD]

theorem ops_unique {β} {ops : List (Nat × β)} (nd : (ops.map (·.1)).Nodup) {i : Nat} {a b : β}
    (ha : (i, a) ∈ ops) (hb : (i, b) ∈ ops) : a = b := by
  induction ops with
  | nil => cases ha
  | cons x t ih =>
    simp only [List.map_cons, List.nodup_cons] at nd
    have hmem : ∀ c, (i, c) ∈ t → x.1 ≠ i := fun c hc e =>
      nd.1 (by rw [e]; exact List.mem_map.mpr ⟨(i, c), hc, rfl⟩)
    rcases List.mem_cons.mp ha with ha | ha <;> rcases List.mem_cons.mp hb with hb | hb
    · exact (Prod.mk.inj (ha.trans hb.symm)).2
    · exact absurd (by rw [← ha]) (hmem b hb)
    · exact absurd (by rw [← hb]) (hmem a ha)
    · exact ih nd.2 ha hb

theorem bwCount_append (a b : List (Nat × Pend)) (k : Key) : bwCount (a ++ b) k = bwCount a k + bwCount b k := by
  simp [bwCount, List.filter_append]

/-- completion is final: what was not complete before position `r ≤ |evs|` is not after one more
observation -/
theorem not_cb_snoc {evs : List Obs} (o : Obs) {j r : Nat} (hr : r ≤ evs.length) (h : endIdx evs j = none) :
    ¬ CompletedBefore (evs ++ [o]) j r := by
  intro hc
  obtain ⟨e, he, _⟩ := (cb_snoc o hr).mp hc
  rw [h] at he; cases he

/-- a completed operation has nothing pending -/
theorem not_bp_of_cb {g : Gh} {s : St} (pi : PI g s) {j r : Nat} (k : Key) (h : CompletedBefore g.evs j r) :
    ¬ BP s k j := by
  rintro ⟨p, hp, _⟩
  obtain ⟨e, he, _⟩ := h
  have := (pi.pendS (j, p) hp).2
  rw [he] at this; cases this

/-- the value a completing `get` returns is fresh ⇒ the read clause holds for it -/
theorem readGood_of_fresh {g : Gh} (gi : GI g) (o : Obs) {k : Key} {v : Option Nat} {r : Nat}
    (hr : r ≤ g.evs.length) (h : Fresh g k v (fun j => CompletedBefore g.evs j r)) :
    ReadGood g.ops (g.evs ++ [o]) k r g.evs.length v := by
  have hcb : ∀ j, CompletedBefore (g.evs ++ [o]) j r → CompletedBefore g.evs j r ∧ j ∈ g.started := by
    intro j hc
    have hc' := (cb_snoc o hr).mp hc
    refine ⟨hc', Classical.byContradiction fun hn => ?_⟩
    obtain ⟨e, he, _⟩ := hc'
    rw [gi.s2 j hn] at he; cases he
  rcases h with ⟨i, op, hi, hm, hw, hall⟩ | ⟨hv, hall⟩
  · refine Or.inl ⟨i, op, hm, hw, ?_, ?_⟩
    · cases hs : firstIdx g.evs i with
      | none => have := gi.s1 i hi; rw [hs] at this; cases this
      | some s => exact ⟨s, firstIdx_snoc_some o hs, firstIdx_lt hs⟩
    · intro j op' hjm hk hc
      obtain ⟨hc', hj⟩ := hcb j hc
      exact nf_snoc o (gi.s1 j hj) (hall j op' hj hjm hk hc')
  · refine Or.inr ⟨hv, ?_⟩
    intro j op' hjm hk hc
    obtain ⟨hc', hj⟩ := hcb j hc
    exact hall j op' hj hjm hk hc'

/-- the log part of the invariant after one more observation -/
theorem gi_ext {g : Gh} (gi : GI g) (o : Obs) (new : List Nat)
    (hnew : ∀ j ∈ new, j = o.i)
    (hst : o.res.isSome → o.i ∈ g.started ++ new)
    (hd : ∀ k rs, (o.i, OpK.get k) ∈ g.ops → o.res.isSome → endIdx g.evs o.i = none →
      firstIdx (g.evs ++ [o]) o.i = some rs →
      ∃ v, o.res = some (resOf v) ∧ ReadGood g.ops (g.evs ++ [o]) k rs g.evs.length v) :
    GI (g.ext o new) where
  nd := gi.nd
  s1 := by
    intro j hj
    simp only [Gh.ext, List.mem_append] at hj ⊢
    rcases hj with hj | hj
    · rw [firstIdx_snoc_isSome o (gi.s1 j hj)]; exact gi.s1 j hj
    · rw [hnew j hj]; exact firstIdx_snoc_self _ o
  s2 := by
    intro j hj
    simp only [Gh.ext, List.mem_append, not_or] at hj ⊢
    rw [endIdx_snoc_none o (gi.s2 j hj.1)]
    split
    · rename_i hc
      simp only [Bool.and_eq_true, beq_iff_eq] at hc
      have := hst hc.2
      rw [hc.1, List.mem_append] at this
      exact absurd this (not_or.mpr hj)
    · rfl
  d := by
    intro i0 k rs re hm hs he
    simp only [Gh.ext] at hm hs he ⊢
    cases he0 : endIdx g.evs i0 with
    | some re0 =>
      rw [endIdx_snoc_some o he0] at he
      have hre : re0 = re := Option.some.inj he
      subst hre
      obtain ⟨rs0, hrs0, _⟩ := firstIdx_of_endIdx he0
      rw [firstIdx_snoc_some o hrs0] at hs
      have hrs : rs0 = rs := Option.some.inj hs
      subst hrs
      obtain ⟨v, hv, hg⟩ := gi.d i0 k rs0 re0 hm hrs0 he0
      refine ⟨v, ?_, readGood_snoc o (Nat.le_of_lt (firstIdx_lt hrs0)) hg⟩
      rw [getD_snoc_lt _ _ _ _ (endIdx_lt he0)]; exact hv
    | none =>
      rw [endIdx_snoc_none o he0] at he
      split at he
      · rename_i hc
        simp only [Bool.and_eq_true, beq_iff_eq] at hc
        have hre : g.evs.length = re := Option.some.inj he
        subst hre
        obtain ⟨hoi, hres⟩ := hc
        subst hoi
        obtain ⟨v, hv, hg⟩ := hd k rs hm hres he0 hs
        exact ⟨v, by rw [getD_snoc_eq]; exact hv, hg⟩
      · cases he

/-! ### a later segment -/

theorem ext_same {g : Gh} {s : St} (gi : GI g) (pi : PI g s) (vi : VI g s) (o : Obs)
    (hres : o.res.isSome → ∀ x ∈ s.pend, x.1 ≠ o.i)
    (hst : o.res.isSome → o.i ∈ g.started)
    (hd : ∀ k rs, (o.i, OpK.get k) ∈ g.ops → o.res.isSome → endIdx g.evs o.i = none →
      firstIdx (g.evs ++ [o]) o.i = some rs →
      ∃ v, o.res = some (resOf v) ∧ ReadGood g.ops (g.evs ++ [o]) k rs g.evs.length v) :
    GI (g.ext o []) ∧ PI (g.ext o []) s ∧ VI (g.ext o []) s := by
  have hfx : ∀ {k v} {P P' : Nat → Prop}, (∀ j, j ∈ g.started → P' j → P j) → Fresh g k v P →
      Fresh (g.ext o []) k v P' := fun hP h =>
    Fresh.ext o [] gi.s1 hP (fun _ _ hj => by cases hj) h
  have hcbx : ∀ {i r} {k v}, firstIdx g.evs i = some r →
      Fresh g k v (fun j => CompletedBefore g.evs j r) →
      firstIdx (g.evs ++ [o]) i = some r ∧
        Fresh (g.ext o []) k v (fun j => CompletedBefore (g.evs ++ [o]) j r) := fun hr hf =>
    ⟨firstIdx_snoc_some o hr,
      hfx (fun j _ hc => (cb_snoc o (Nat.le_of_lt (firstIdx_lt hr))).mp hc) hf⟩
  refine ⟨gi_ext gi o [] (fun _ hj => by cases hj) (by simpa using hst) hd, ?_, ?_⟩
  · refine ⟨?_, pi.pendND, pi.infl, pi.pOp, ?_⟩
    · intro x hx
      obtain ⟨h1, h2⟩ := pi.pendS x hx
      refine ⟨by simp only [Gh.ext, List.append_nil]; exact h1, ?_⟩
      simp only [Gh.ext]
      rw [endIdx_snoc_none o h2]
      split
      · rename_i hc
        simp only [Bool.and_eq_true, beq_iff_eq] at hc
        exact absurd hc.1.symm (hres hc.2 x hx)
      · rfl
    · intro i v hm k hk
      obtain ⟨r, hr, hf⟩ := pi.hit i v hm k hk
      exact ⟨r, (hcbx hr hf).1, (hcbx hr hf).2⟩
  · refine ⟨vi.dsub, fun k v hv => hfx (fun _ _ h => h) (vi.c k v hv),
      fun k hk => hfx (fun _ _ h => h) (vi.b k hk), ?_⟩
    intro i k e hm
    obtain ⟨⟨r, hr, hf⟩, h2, h3⟩ := vi.miss i k e hm
    exact ⟨⟨r, (hcbx hr hf).1, (hcbx hr hf).2⟩, h2, h3⟩

/-! ### a first segment -/

theorem ext_start {g : Gh} {sm s' : St} {i : Nat} {op : OpK} {o : Obs} {extra : List (Nat × Pend)}
    (gi : GI g) (pi : PI g sm) (vi : VI g sm)
    (hi : i ∉ g.started) (hop : (i, op) ∈ g.ops) (hoi : o.i = i)
    (hpend : s'.pend = sm.pend ++ extra)
    (hextra : extra = [] ∨ ∃ p, extra = [(i, p)] ∧ PendOf op p ∧ o.res = none)
    (hres : o.res.isSome → ∀ k, op ≠ .get k)
    (hwres : ∀ k, wk op = some k → o.res = none)
    (hinfl : ∀ k, cnt s'.infl k = cnt sm.infl k + bwCount extra k)
    (hepoch : ∀ k, cnt sm.epoch k ≤ cnt s'.epoch k)
    (hback : s'.back = sm.back)
    (hdsup : ∀ x, x ∈ sm.dirty → x ∈ s'.dirty)
    (hoc : ∀ x, wk op ≠ some x → aget? s'.cache x = aget? sm.cache x)
    (hod : ∀ x, wk op ≠ some x → x ∈ s'.dirty → x ∈ sm.dirty)
    (hoe : ∀ x, wk op ≠ some x → cnt s'.epoch x = cnt sm.epoch x)
    (hkc : ∀ k v, wk op = some k → aget? s'.cache k = some v → wkv op = some (k, some v))
    (hkd : ∀ k, wk op = some k → k ∈ s'.dirty ∨ BP s' k i)
    (hkm : ∀ k, wk op = some k → ∀ j e, (j, Pend.getMiss k e) ∈ sm.pend → e < cnt s'.epoch k)
    (hds : ∀ x ∈ s'.dirty, x ∈ akeys s'.cache)
    (hhit : ∀ v, (i, Pend.getHit v) ∈ extra → ∀ k, op = .get k → aget? sm.cache k = some v)
    (hmiss : ∀ k e, (i, Pend.getMiss k e) ∈ extra → k ∉ akeys sm.cache ∧ e = cnt sm.epoch k) :
    GI (g.ext o [i]) ∧ PI (g.ext o [i]) s' ∧ VI (g.ext o [i]) s' := by
  have hi0 : endIdx g.evs i = none := gi.s2 i hi
  have hopu : ∀ op', (i, op') ∈ g.ops → op' = op := fun op' h => ops_unique gi.nd h hop
  -- the new id is not a write to `k` unless `op` is
  have hnw : ∀ {k} {P' : Nat → Prop}, wk op ≠ some k →
      ∀ j op', j ∈ [i] → j ∉ g.started → (j, op') ∈ g.ops → wk op' = some k → ¬ P' j := by
    intro k P' hne j op' hj _ hjm hk
    have : j = i := by simpa using hj
    subst this
    rw [hopu op' hjm] at hk
    exact absurd hk hne
  have hmemS : ∀ j, j ∈ g.started → j ∈ (g.ext o [i]).started := fun j hj => by
    simp only [Gh.ext, List.mem_append]; exact Or.inl hj
  have hiS : i ∈ (g.ext o [i]).started := by simp [Gh.ext]
  -- `i` cannot be complete before a position of the old log
  have hncb : ∀ {r}, r ≤ g.evs.length → ¬ CompletedBefore (g.evs ++ [o]) i r := fun hr =>
    not_cb_snoc o hr hi0
  have hcbx : ∀ {j r} {k v}, firstIdx g.evs j = some r →
      Fresh g k v (fun j => CompletedBefore g.evs j r) →
      firstIdx (g.evs ++ [o]) j = some r ∧
        Fresh (g.ext o [i]) k v (fun j => CompletedBefore (g.evs ++ [o]) j r) := by
    intro j r k v hr hf
    have hle := Nat.le_of_lt (firstIdx_lt hr)
    refine ⟨firstIdx_snoc_some o hr, Fresh.ext o [i] gi.s1 (fun j _ hc => (cb_snoc o hle).mp hc) ?_ hf⟩
    intro j' op' hj' _ _ _
    have : j' = i := by simpa using hj'
    subst this
    exact hncb hle
  have hpendOld : ∀ x ∈ sm.pend, x ∈ s'.pend := fun x hx => by rw [hpend]; exact List.mem_append_left _ hx
  have hbpOld : ∀ k j, BP sm k j → BP s' k j := fun k j ⟨p, hp, hk⟩ => ⟨p, hpendOld _ hp, hk⟩
  have hiNotPend : ∀ x ∈ sm.pend, x.1 ≠ i := fun x hx e => hi (e ▸ (pi.pendS x hx).1)
  refine ⟨?_, ?_, ?_⟩
  · -- GI
    refine gi_ext gi o [i] (fun j hj => by simp at hj; rw [hj, hoi]) (fun _ => by simp [hoi]) ?_
    intro k rs hm hres' _ _
    rw [hoi] at hm
    exact absurd (hopu _ hm).symm (hres hres' k)
  · -- PI
    refine ⟨?_, ?_, ?_, ?_, ?_⟩
    · intro x hx
      rw [hpend, List.mem_append] at hx
      rcases hx with hx | hx
      · obtain ⟨h1, h2⟩ := pi.pendS x hx
        refine ⟨hmemS _ h1, ?_⟩
        simp only [Gh.ext]
        rw [endIdx_snoc_none o h2]
        split
        · rename_i hc
          simp only [Bool.and_eq_true, beq_iff_eq] at hc
          exact absurd (hoi ▸ hc.1).symm (hiNotPend x hx)
        · rfl
      · rcases hextra with he | ⟨p, he, _, hon⟩
        · rw [he] at hx; cases hx
        · rw [he, List.mem_singleton] at hx
          subst hx
          refine ⟨hiS, ?_⟩
          simp only [Gh.ext]
          rw [endIdx_snoc_none o hi0, hon]; simp
    · rw [hpend, List.map_append]
      rcases hextra with he | ⟨p, he, _, _⟩
      · rw [he]; simpa using pi.pendND
      · rw [he]
        simp only [List.map_cons, List.map_nil]
        rw [List.nodup_append]
        refine ⟨pi.pendND, by simp, ?_⟩
        intro a ha b hb
        simp only [List.mem_singleton] at hb
        subst hb
        obtain ⟨x, hx, rfl⟩ := List.mem_map.mp ha
        exact hiNotPend x hx
    · intro k
      rw [hinfl, pi.infl, hpend, bwCount_append]
    · intro x hx
      rw [hpend, List.mem_append] at hx
      rcases hx with hx | hx
      · exact pi.pOp x hx
      · rcases hextra with he | ⟨p, he, hpo, _⟩
        · rw [he] at hx; cases hx
        · rw [he, List.mem_singleton] at hx
          subst hx
          exact ⟨op, hop, hpo⟩
    · intro j v hm k hk
      rw [hpend, List.mem_append] at hm
      rcases hm with hm | hm
      · obtain ⟨r, hr, hf⟩ := pi.hit j v hm k hk
        exact ⟨r, (hcbx hr hf).1, (hcbx hr hf).2⟩
      · have hji : j = i := by
          rcases hextra with he | ⟨p, he, _, _⟩
          · rw [he] at hm; cases hm
          · rw [he, List.mem_singleton] at hm; exact (Prod.mk.inj hm).1
        subst hji
        have hopk : op = .get k := (hopu _ hk).symm
        have hc := hhit v hm k hopk
        have hsome := firstIdx_snoc_self g.evs o
        rw [hoi] at hsome
        cases hr : firstIdx (g.evs ++ [o]) j with
        | none => rw [hr] at hsome; cases hsome
        | some r =>
          refine ⟨r, hr, Fresh.ext o [j] gi.s1 (fun _ _ _ => trivial) (hnw ?_) (vi.c k v hc)⟩
          rw [hopk]; simp [wk, wkv]
  · -- VI
    refine ⟨hds, ?_, ?_, ?_⟩
    · intro x v hv
      by_cases hx : wk op = some x
      · have hw := hkc x v hx hv
        exact Fresh.self _ hiS hop hw (by
          simp only [Gh.ext]; rw [endIdx_snoc_none o hi0, hwres x hx]; simp)
      · rw [hoc x hx] at hv
        exact Fresh.ext o [i] gi.s1 (fun _ _ h => h) (hnw hx) (vi.c x v hv)
    · intro x hxd
      have hxm : x ∉ sm.dirty := fun h => hxd (hdsup x h)
      rw [hback]
      refine Fresh.ext o [i] gi.s1 (fun j _ hp hb => hp (hbpOld x j hb)) ?_ (vi.b x hxm)
      by_cases hx : wk op = some x
      · intro j op' hj _ _ _ hp
        have : j = i := by simpa using hj
        subst this
        rcases hkd x hx with h | h
        · exact hxd h
        · exact hp h
      · exact hnw hx
    · intro j k e hm
      rw [hpend, List.mem_append] at hm
      rcases hm with hm | hm
      · obtain ⟨⟨r, hr, hf⟩, h2, h3⟩ := vi.miss j k e hm
        refine ⟨⟨r, (hcbx hr hf).1, by rw [hback]; exact (hcbx hr hf).2⟩, Nat.le_trans h2 (hepoch k), ?_⟩
        intro he
        by_cases hx : wk op = some k
        · have := hkm k hx j e hm; omega
        · rw [hoe k hx] at he
          exact fun hd => h3 he (hod k hx hd)
      · have hji : j = i := by
          rcases hextra with he | ⟨p, he, _, _⟩
          · rw [he] at hm; cases hm
          · rw [he, List.mem_singleton] at hm; exact (Prod.mk.inj hm).1
        subst hji
        obtain ⟨hkc', hee⟩ := hmiss k e hm
        have hopk : op = .get k := by
          rcases hextra with he | ⟨p, he, hpo, _⟩
          · rw [he] at hm; cases hm
          · rw [he, List.mem_singleton] at hm
            have : p = Pend.getMiss k e := (Prod.mk.inj hm).2.symm
            subst this
            cases op <;> simp [PendOf] at hpo
            subst hpo; rfl
        have hwn : wk op ≠ some k := by rw [hopk]; simp [wk, wkv]
        have hkd' : k ∉ sm.dirty := fun h => hkc' (vi.dsub k h)
        have hsome := firstIdx_snoc_self g.evs o
        rw [hoi] at hsome
        cases hr : firstIdx (g.evs ++ [o]) j with
        | none => rw [hr] at hsome; cases hsome
        | some r =>
          have hrle : r ≤ g.evs.length := by
            have := firstIdx_lt hr
            simp only [List.length_append, List.length_cons, List.length_nil] at this
            omega
          refine ⟨⟨r, hr, ?_⟩, by rw [hee]; exact hepoch k, ?_⟩
          · rw [hback]
            refine Fresh.ext o [j] gi.s1 ?_ (hnw hwn) (vi.b k hkd')
            intro j' _ hc
            exact not_bp_of_cb pi k ((cb_snoc o hrle).mp hc)
          · intro _ hd
            exact hkd' (hod k hwn hd)

end HappyModel.C16
