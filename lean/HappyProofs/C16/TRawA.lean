import HappyProofs.C16.RawMain
/-!
Multi-tier read-after-write over every interleaving, part 1: what the segments of a *clean
write-through* `CachedStore` tier (nothing dirty — `MultiTierCache` only ever calls `put` on L1 and
that is write-through) do to its cache, its pending continuations and the backing store it is
plugged into.
-/
namespace HappyModel.C16

/-- tier-level code ran on a clean tier: it stays clean, cache entries are old ones or the one new
    entry `new`, the backing store is untouched -/
structure TStep (s s' : St) (new : Option (Key × Nat)) : Prop where
  dirty : s'.dirty = []
  back : s'.back = s.back
  cache : ∀ x w, aget? s'.cache x = some w → aget? s.cache x = some w ∨ new = some (x, w)

theorem TStep.refl {s : St} (h : s.dirty = []) : TStep s s none := ⟨h, rfl, fun _ _ h => Or.inl h⟩

theorem TStep.trans {a b c : St} {n : Option (Key × Nat)} (h1 : TStep a b none) (h2 : TStep b c n) : TStep a c n :=
  ⟨h2.dirty, h2.back.trans h1.back, fun x w hw => by
    rcases h2.cache x w hw with h | h
    · rcases h1.cache x w h with h' | h'
      · exact Or.inl h'
      · cases h'
    · exact Or.inr h⟩

theorem TStep.weaken {a b : St} {n : Option (Key × Nat)} (h : TStep a b none) : TStep a b n :=
  ⟨h.dirty, h.back, fun x w hw => (h.cache x w hw).elim Or.inl (fun e => by cases e)⟩

theorem writeBack_nb (s : St) (k : Key) (h : s.dirty = []) : s.writeBack k = s := by
  unfold St.writeBack
  split
  · rw [h]; simp
  · rfl

theorem setDel_nil (k : Key) : setDel [] k = [] := rfl

theorem evictOne_nb (c : Cfg) (s : St) (ek : Key) (pol' : Pol) (h : s.dirty = []) :
    TStep s (evictOne c s ek pol') none ∧ (evictOne c s ek pol').pend = s.pend := by
  have e : evictOne c s ek pol' = { s with cache := adel s.cache ek, dirty := [], pol := pol', nEv := s.nEv + 1 } := by
    unfold evictOne
    rw [writeBack_nb s ek h]
    simp [h, setDel_nil]
  rw [e]
  refine ⟨⟨rfl, rfl, ?_⟩, rfl⟩
  intro x w hw
  have hw : aget? (adel s.cache ek) x = some w := hw
  by_cases ex : x = ek
  · subst ex; rw [sq_aget?_adel_self] at hw; cases hw
  · rw [wb_aget?_adel_other _ _ _ ex] at hw; exact Or.inl hw

theorem evictLoop_nb (c : Cfg) (now : Nat) : ∀ (fuel : Nat) (s : St), s.dirty = [] →
    TStep s (evictLoop c fuel s now) none ∧ (evictLoop c fuel s now).pend = s.pend := by
  intro fuel
  induction fuel with
  | zero => intro s h; exact ⟨TStep.refl h, rfl⟩
  | succ f ih =>
    intro s h
    unfold evictLoop
    split
    · exact ⟨TStep.refl h, rfl⟩
    · split
      · exact ⟨⟨h, rfl, fun _ _ hw => Or.inl hw⟩, rfl⟩
      · rename_i ek _
        obtain ⟨t1, p1⟩ := evictOne_nb c s ek (s.pol.evict now (s.pick c)).2 h
        obtain ⟨t2, p2⟩ := ih _ t1.dirty
        exact ⟨t1.trans t2, p2.trans p1⟩

theorem cachePut_nb (c : Cfg) (s : St) (k v now : Nat) (h : s.dirty = []) :
    TStep s (cachePut c s k v now) (some (k, v)) ∧ (cachePut c s k v now).pend = s.pend ∧
      aget? (cachePut c s k v now).cache k = some v := by
  have key : ∀ pe : St, TStep s pe none → ∀ r : St, r.cache = aset pe.cache k v → r.dirty = pe.dirty →
      r.back = pe.back → TStep s r (some (k, v)) ∧ aget? r.cache k = some v := by
    intro pe t r hc hd hb
    refine ⟨⟨hd.trans t.dirty, hb.trans t.back, ?_⟩, by rw [hc]; exact wb_aget?_aset_self _ _ _⟩
    intro x w hw
    rw [hc] at hw
    by_cases ex : x = k
    · subst ex
      rw [wb_aget?_aset_self] at hw; cases hw
      exact Or.inr rfl
    · rw [wb_aget?_aset_other _ _ _ _ ex] at hw
      exact (t.cache x w hw).elim Or.inl (fun e => by cases e)
  unfold cachePut
  split
  · have := key s (TStep.refl h) { s with pol := s.pol.access k, cache := aset s.cache k v } rfl rfl rfl
    exact ⟨this.1, rfl, this.2⟩
  · obtain ⟨t, p⟩ := evictLoop_nb c now (s.cache.length + s.pol.tracked.length + 1) s h
    generalize evictLoop c (s.cache.length + s.pol.tracked.length + 1) s now = s1 at t p
    have := key s1 t { s1 with pol := s1.pol.insert k now, cache := aset s1.cache k v } rfl rfl rfl
    exact ⟨this.1, p, this.2⟩

/-- `tier.invalidate(k)` -/
theorem startInv_nb (c : Cfg) (s : St) (i k now : Nat) (h : s.dirty = []) :
    TStep s (start c s i (.inv k) now).1 none ∧ (start c s i (.inv k) now).1.pend = s.pend ∧
      k ∉ akeys (start c s i (.inv k) now).1.cache := by
  have e0 : start c s i (.inv k) now = if k ∈ akeys s.cache then
      (cacheRemove (if c.rep then s.writeBack k else s) k, some .none) else (s, some .none) := rfl
  rw [e0]
  by_cases hk : k ∈ akeys s.cache
  · rw [if_pos hk]
    have e : (if c.rep = true then s.writeBack k else s) = s := by
      split
      · exact writeBack_nb s k h
      · rfl
    rw [e]
    refine ⟨⟨by show setDel s.dirty k = []; rw [h]; rfl, rfl, ?_⟩, rfl, ?_⟩
    · intro x w hw
      have hw : aget? (adel s.cache k) x = some w := hw
      by_cases ex : x = k
      · subst ex; rw [sq_aget?_adel_self] at hw; cases hw
      · rw [wb_aget?_adel_other _ _ _ ex] at hw; exact Or.inl hw
    · show k ∉ akeys (adel s.cache k)
      rw [mem_akeys_adel]; exact fun hh => hh.2 rfl
  · rw [if_neg hk]
    exact ⟨TStep.refl h, rfl, hk⟩

theorem writeBackAll_nil (s : St) : s.writeBackAll [] = s := rfl

/-- `tier.invalidate_all()` -/
theorem startInvAll_nb (c : Cfg) (s : St) (i now : Nat) (h : s.dirty = []) :
    TStep s (start c s i .invAll now).1 none ∧ (start c s i .invAll now).1.pend = s.pend ∧
      (start c s i .invAll now).1.cache = [] := by
  have e : (if c.rep = true then s.writeBackAll s.dirty else s) = s := by
    split
    · rw [h]; rfl
    · rfl
  have e0 : (start c s i .invAll now).1 =
      (fun s1 : St => ({ s1 with cache := [], dirty := [], pol := s1.pol.clear } : St))
        (if c.rep = true then s.writeBackAll s.dirty else s) := rfl
  rw [e0, e]
  exact ⟨⟨rfl, rfl, fun x w hw => by simp [aget?] at hw⟩, rfl, rfl⟩

/-- first segment of `tier.get(k)` -/
theorem startGet_nb (c : Cfg) (s : St) (i k now : Nat) :
    (start c s i (.get k) now).1.cache = s.cache ∧ (start c s i (.get k) now).1.dirty = s.dirty ∧
    (start c s i (.get k) now).1.back = s.back ∧
    ((∃ v, aget? s.cache k = some v ∧ (start c s i (.get k) now).1.pend = s.pend ++ [(i, .getHit v)]) ∨
     (∃ e, aget? s.cache k = none ∧ (start c s i (.get k) now).1.pend = s.pend ++ [(i, .getMiss k e)])) := by
  have e0 : start c s i (.get k) now = match aget? s.cache k with
      | some v => ({ s with pol := s.pol.access k }.setPend i (.getHit v), none)
      | none => (s.setPend i (.getMiss k (cnt s.epoch k)), none) := rfl
  rw [e0]
  cases hv : aget? s.cache k with
  | some v => exact ⟨rfl, rfl, rfl, Or.inl ⟨v, rfl, rfl⟩⟩
  | none => exact ⟨rfl, rfl, rfl, Or.inr ⟨_, rfl, rfl⟩⟩

/-- first segment of `tier.put(k, v)` on a write-through tier -/
theorem startPut_nb (c : Cfg) (hwt : c.wt = true) (s : St) (i k v now : Nat) (h : s.dirty = []) :
    TStep s (start c s i (.put k v) now).1 (some (k, v)) ∧
    (start c s i (.put k v) now).1.pend = s.pend ++ [(i, .putWT k v)] ∧
    aget? (start c s i (.put k v) now).1.cache k = some v := by
  have e0 : start c s i (.put k v) now =
      if c.wt then (((cachePut c (s.bump c k) k v now).inflInc c k).setPend i (.putWT k v), none)
      else ({ (cachePut c (s.bump c k) k v now) with
        dirty := setAdd (cachePut c (s.bump c k) k v now).dirty k }.setPend i .putWB, none) := rfl
  rw [e0, if_pos hwt]
  have hb : (s.bump c k).dirty = [] := by rw [wb_bump_dirty]; exact h
  obtain ⟨t, p, g⟩ := cachePut_nb c (s.bump c k) k v now hb
  refine ⟨⟨?_, ?_, ?_⟩, ?_, ?_⟩
  · show ((cachePut c (s.bump c k) k v now).inflInc c k).dirty = []
    rw [wb_inflInc_dirty]; exact t.dirty
  · show ((cachePut c (s.bump c k) k v now).inflInc c k).back = s.back
    rw [wb_inflInc_back, t.back, sq_bump_back]
  · intro x w hw
    have hw : aget? ((cachePut c (s.bump c k) k v now).inflInc c k).cache x = some w := hw
    rw [sq_inflInc_cache] at hw
    have := t.cache x w hw
    rw [wb_bump_cache] at this
    exact this
  · show ((cachePut c (s.bump c k) k v now).inflInc c k).pend ++ _ = _
    rw [wb_inflInc_pend, p, wb_bump_pend]
  · show aget? ((cachePut c (s.bump c k) k v now).inflInc c k).cache k = some v
    rw [sq_inflInc_cache]; exact g

/-- a later segment of a tier operation, by the continuation found -/
theorem resume_getHit (c : Cfg) (s : St) (i v now : Nat) :
    resume c s i (.getHit v) now = (s.clearPend i, some (.val v)) := rfl

theorem resume_putWT_nb (c : Cfg) (s : St) (i k v now : Nat) :
    (resume c s i (.putWT k v) now).1.cache = s.cache ∧ (resume c s i (.putWT k v) now).1.dirty = s.dirty ∧
    (resume c s i (.putWT k v) now).1.back = aset s.back k v ∧
    (resume c s i (.putWT k v) now).1.pend = (s.clearPend i).pend ∧
    (resume c s i (.putWT k v) now).2 = some .none := by
  have e0 : resume c s i (.putWT k v) now =
      (({ (s.clearPend i) with back := aset (s.clearPend i).back k v } : St).inflDec c k, some .none) := rfl
  rw [e0]
  refine ⟨?_, ?_, ?_, ?_, rfl⟩
  · rw [sq_inflDec_cache]; rfl
  · rw [wb_inflDec_dirty]; rfl
  · rw [sq_inflDec_back]; rfl
  · rw [wb_inflDec_pend]

theorem resume_getMiss_nb (c : Cfg) (s : St) (i k e now : Nat) (h : s.dirty = []) :
    (∃ nw, TStep s (resume c s i (.getMiss k e) now).1 nw ∧
      (∀ x w, nw = some (x, w) → x = k ∧ aget? s.back k = some w)) ∧
    (resume c s i (.getMiss k e) now).1.pend = (s.clearPend i).pend ∧
    (resume c s i (.getMiss k e) now).2 = some (resOf (aget? s.back k)) := by
  have e0 : resume c s i (.getMiss k e) now = match aget? (s.clearPend i).back k with
      | some x =>
        if !c.rep || (s.clearPend i).fillAllowed k e then (cachePut c (s.clearPend i) k x now, some (.val x))
        else (s.clearPend i, some (.val x))
      | none => (s.clearPend i, some .none) := rfl
  rw [e0]
  have hback : (s.clearPend i).back = s.back := rfl
  have hclr : TStep s (s.clearPend i) none := ⟨h, rfl, fun _ _ hw => Or.inl hw⟩
  rw [hback]
  cases hb : aget? s.back k with
  | none => exact ⟨⟨none, hclr, fun _ _ e => by cases e⟩, rfl, rfl⟩
  | some x =>
    simp only []
    split
    · obtain ⟨t, p, _⟩ := cachePut_nb c (s.clearPend i) k x now h
      refine ⟨⟨some (k, x), hclr.trans t, ?_⟩, p, rfl⟩
      intro a w e; cases e; exact ⟨rfl, rfl⟩
    · exact ⟨⟨none, hclr, fun _ _ e => by cases e⟩, rfl, rfl⟩

end HappyModel.C16
