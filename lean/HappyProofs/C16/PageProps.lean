import HappyModel.C16.PageDriver
import HappyProofs.C16.PageSize
import HappyProofs.C16.PageCons
import HappyProofs.C16.PageObs
import HappyProofs.C16.PageEv
import HappyProofs.C16.PageWrite
/-!
C16 — property theorems for `PageCache` (infrastructure/page_cache.py), imported by Props.lean.

The model (`HappyModel/C16/Page.lean`) is a transition system over generator segments; a schedule is
an arbitrary list of `start i op` / `resume i` actions, so every theorem below covers every
interleaving of overlapping `read_page` / `write_page` / `flush` calls, every capacity ≥ 1 and every
read-ahead width.  `trace` lists the state after every segment — exactly the points at which the
harness observes the implementation (`pages_cached = pages.length`, `dirty_pages = dirtyCount pages`,
`dirty_writebacks = dwb`).  Theorems are about the `repaired` variant
(fixes/C16-pagecache-capacity.diff); the `current` variant has decided counterexamples.
-/
namespace HappyModel.C16.Page

/-- the states after every segment of a schedule -/
def trace (cfg : Cfg) (s : St) : List Act → List St
  | [] => []
  | a :: as => (step cfg s a).1 :: trace cfg (step cfg s a).1 as

def repaired (cap ra : Nat) : Cfg := ⟨cap, ra, true⟩
def current (cap ra : Nat) : Cfg := ⟨cap, ra, false⟩

theorem trace_inv (cfg : Cfg) (P : St → Prop) (hstep : ∀ s a, P s → P (step cfg s a).1) :
    ∀ (acts : List Act) (s : St), P s → ∀ t ∈ trace cfg s acts, P t := by
  intro acts
  induction acts with
  | nil => intro s _ t ht; simp [trace] at ht
  | cons a as ih =>
    intro s hs t ht
    simp only [trace, List.mem_cons] at ht
    rcases ht with rfl | ht
    · exact hstep s a hs
    · exact ih _ (hstep s a hs) t ht

/-- **A cache layer holds at most its capacity.**  For every capacity ≥ 1, every read-ahead width
and every schedule of segments, after every segment the repaired PageCache holds at most
`capacity_pages` pages. -/
theorem pagecache_size_le_capacity (cap ra : Nat) (hc : 1 ≤ cap) (acts : List Act) :
    ∀ s ∈ trace (repaired cap ra) {} acts, s.pages.length ≤ cap :=
  trace_inv (repaired cap ra) (fun s => s.pages.length ≤ cap)
    (fun s a hs => step_size (repaired cap ra) rfl hc s a hs) acts {} (Nat.zero_le _)

/-- non-vacuity: three overlapping loads into a one-page cache — two evictions happen, one page stays -/
example :
    let s := run (repaired 1 0) {} [.start 0 (.read 1), .start 1 (.read 2), .start 2 (.read 3), .resume 0, .resume 1, .resume 2]
    s.pages.length = 1 ∧ s.ev = 2 ∧ s.misses = 3 := by decide

/-- The same schedule on the code as it is: three pages in a cache of capacity one
(corpus/C16/pagecache-overlapping-loads.json). -/
theorem pagecache_capacity_exceeded_current :
    (run (current 1 0) {} [.start 0 (.read 1), .start 1 (.read 2), .start 2 (.read 3),
      .resume 0, .resume 1, .resume 2]).pages.length = 3 := by decide

/-- … so the capacity theorem is false of the current variant. -/
theorem pagecache_size_le_capacity_fails_current :
    ¬ ∀ (acts : List Act), ∀ s ∈ trace (current 1 0) {} acts, s.pages.length ≤ 1 := by
  intro h
  have := h [.start 0 (.read 1), .start 1 (.read 2), .start 2 (.read 3), .resume 0, .resume 1, .resume 2]
    (run (current 1 0) {} [.start 0 (.read 1), .start 1 (.read 2), .start 2 (.read 3), .resume 0, .resume 1, .resume 2])
    (by decide)
  revert this
  decide

/-- **Pages leave the cache only through counted evictions.**  Over every segment of every
schedule `pages_cached + evictions` never falls and rises by at most one (a segment inserts at most
one page) — the `evictions` clause of the Spec. -/
theorem pagecache_evictions_account (cap ra : Nat) (s : St) (a : Act) :
    s.pages.length + s.ev ≤ (step (repaired cap ra) s a).1.pages.length + (step (repaired cap ra) s a).1.ev ∧
    (step (repaired cap ra) s a).1.pages.length + (step (repaired cap ra) s a).1.ev ≤ s.pages.length + s.ev + 1 :=
  step_grow (repaired cap ra) rfl s a

/-- non-vacuity: a segment that evicts one page and inserts another -/
example :
    let s := run (repaired 1 0) {} [.start 0 (.write 1), .start 1 (.write 2), .resume 1]
    s.pages.length = 1 ∧ s.ev = 1 := by decide

/-- Dirty pages are cached pages: `dirty_pages ≤ pages_cached` after every segment (either variant). -/
theorem pagecache_dirty_subset_cached (cfg : Cfg) (acts : List Act) :
    ∀ s ∈ trace cfg {} acts, dirtyCount s.pages ≤ s.pages.length :=
  fun s _ => dirtyCount_le_length s.pages

example :
    let s := run (repaired 2 0) {} [.start 0 (.write 1), .start 1 (.read 2), .resume 1]
    dirtyCount s.pages = 1 ∧ s.pages.length = 2 := by decide

/-- **Write-back data is never discarded before it reaches the backing store.**  After every
segment of every schedule, the number of times `write_page` turned an absent or clean page dirty
equals `dirty_writebacks` + the dirty pages still cached + the evicted dirty victims whose
write-back latency is being served (each is counted in `dirty_writebacks` when its call resumes):
no dirty page ever leaves the repaired cache without a write-back. -/
theorem pagecache_dirty_never_dropped (cap ra : Nat) (acts : List Act) :
    ∀ s ∈ trace (repaired cap ra) {} acts, s.made = s.dwb + dirtyCount s.pages + inflight s.pend := by
  refine trace_inv (repaired cap ra) (fun s => s.made = s.dwb + dirtyCount s.pages + inflight s.pend) ?_ acts {} rfl
  intro s a hs
  have := step_bal (repaired cap ra) rfl s a
  unfold Bal pot at this
  omega

/-- at quiescence (no call suspended) every dirtied page is still dirty in the cache or was written back -/
theorem pagecache_dirty_never_dropped_quiescent (cap ra : Nat) (acts : List Act) :
    ∀ s ∈ trace (repaired cap ra) {} acts, s.pend = [] → s.made = s.dwb + dirtyCount s.pages := by
  intro s hs hq
  have := pagecache_dirty_never_dropped cap ra acts s hs
  rw [hq] at this
  simpa [inflight] using this

/-- non-vacuity: two dirty pages through a one-page cache, the first one evicted while a third call
waits — one write-back done, one victim in flight, one page dirty -/
example :
    let s := run (repaired 1 0) {} [.start 0 (.write 1), .start 1 (.write 2), .resume 1, .start 2 (.write 3)]
    s.made = 2 ∧ s.dwb = 1 ∧ dirtyCount s.pages = 0 ∧ inflight s.pend = 1 := by decide

theorem run_inv (cfg : Cfg) (P : St → Prop) (hstep : ∀ s a, P s → P (step cfg s a).1) :
    ∀ (acts : List Act) (s : St), P s → P (run cfg s acts) := by
  intro acts
  induction acts with
  | nil => intro s hs; exact hs
  | cons a as ih => intro s hs; exact ih _ (hstep s a hs)

/-- The same conservation law in observable terms (`dirtied` = the quantity `W` of the Spec judge:
the summed rise of `dirty_pages` over the segments in which a `write_page` call returns): after any
schedule, `W = dirty_writebacks + dirty_pages + victims in write-back`, and there is at most one
such victim per suspended call. -/
theorem pagecache_dirtied_eq_writtenback_plus_dirty (cap ra : Nat) (acts : List Act) :
    dirtied (repaired cap ra) {} acts
      = (run (repaired cap ra) {} acts).dwb + dirtyCount (run (repaired cap ra) {} acts).pages
        + inflight (run (repaired cap ra) {} acts).pend ∧
    inflight (run (repaired cap ra) {} acts).pend ≤ (run (repaired cap ra) {} acts).pend.length := by
  refine ⟨?_, List.countP_le_length⟩
  have h1 := made_eq_dirtied (repaired cap ra) rfl acts {}
  have h2 := run_inv (repaired cap ra) (fun s => s.made = s.dwb + dirtyCount s.pages + inflight s.pend)
    (fun s a hs => by
      have := step_bal (repaired cap ra) rfl s a
      unfold Bal pot at this
      omega) acts {} rfl
  have h0 : ({} : St).made = 0 := rfl
  omega

example :
    dirtied (repaired 1 0) {} [.start 0 (.write 1), .start 1 (.write 2), .resume 1, .start 2 (.write 3)] = 2 := by decide

/-- The code as it is drops a dirty page: `read_page(1)` waits for the disk, `write_page(1)`
inserts the page dirty, the read then replaces it by a clean page — one page was dirtied, none is
dirty, none was written back, nothing is in flight (corpus/C16/pagecache-load-overwrites-dirty.json). -/
theorem pagecache_dirty_dropped_current :
    let s := run (current 1 0) {} [.start 0 (.read 1), .start 1 (.write 1), .resume 0]
    s.made = 1 ∧ s.dwb = 0 ∧ dirtyCount s.pages = 0 ∧ s.pend = [] := by decide

/-- The code as it is fails with KeyError when two evictions wait on the same dirty victim. -/
theorem pagecache_evict_keyerror_current :
    (step (current 1 0) (run (current 1 0) {} [.start 0 (.write 1), .start 1 (.write 2), .start 2 (.write 3), .resume 1])
      (.resume 2)).2 = some (.err .key) := by decide

end HappyModel.C16.Page
