import HappyModel.C16.Store
import HappyProofs.C16.PolicyLawsMain
/-!
Store-level invariant of `CachedStore`, for both variants and every interleaving of segments:
the policy tracks exactly the cached keys, and the cache holds at most `capacity` entries.
The `break` of `_cache_put` ("policy returned nothing") is shown unreachable on the way:
with the key sets equal, `evict` returns `None` only for an empty cache, and an empty cache is
below any capacity ≥ 1.
-/
namespace HappyModel.C16

structure SInv (cfg : Cfg) (s : St) : Prop where
  pinv : s.pol.Inv
  nodup : (akeys s.cache).Nodup
  same : ∀ x, x ∈ s.pol.tracked ↔ x ∈ akeys s.cache
  size : s.cache.length ≤ cfg.cap

/-- the invariant without the size bound (it is broken and restored inside `_cache_put`) -/
structure KInv (s : St) : Prop where
  pinv : s.pol.Inv
  nodup : (akeys s.cache).Nodup
  same : ∀ x, x ∈ s.pol.tracked ↔ x ∈ akeys s.cache

theorem SInv.k {cfg : Cfg} {s : St} (h : SInv cfg s) : KInv s := ⟨h.pinv, h.nodup, h.same⟩

theorem KInv.congr {s s' : St} (h : KInv s) (hc : s'.cache = s.cache) (hp : s'.pol = s.pol) : KInv s' := by
  constructor
  · rw [hp]; exact h.pinv
  · rw [hc]; exact h.nodup
  · rw [hc, hp]; exact h.same

theorem SInv.congr {cfg : Cfg} {s s' : St} (h : SInv cfg s) (hc : s'.cache = s.cache) (hp : s'.pol = s.pol) :
    SInv cfg s' := by
  have k := h.k.congr hc hp
  exact ⟨k.pinv, k.nodup, k.same, by rw [hc]; exact h.size⟩

@[simp] theorem writeBack_cache (s : St) (k : Key) : (s.writeBack k).cache = s.cache := by
  unfold St.writeBack; split
  · split <;> rfl
  · rfl
@[simp] theorem writeBack_pol (s : St) (k : Key) : (s.writeBack k).pol = s.pol := by
  unfold St.writeBack; split
  · split <;> rfl
  · rfl
@[simp] theorem writeBack_nEv (s : St) (k : Key) : (s.writeBack k).nEv = s.nEv := by
  unfold St.writeBack; split
  · split <;> rfl
  · rfl

theorem writeBackAll_cache (s : St) (l : List Key) : (s.writeBackAll l).cache = s.cache := by
  induction l generalizing s with
  | nil => rfl
  | cons k ks ih => simp [St.writeBackAll, ih]
theorem writeBackAll_pol (s : St) (l : List Key) : (s.writeBackAll l).pol = s.pol := by
  induction l generalizing s with
  | nil => rfl
  | cons k ks ih => simp [St.writeBackAll, ih]

theorem adel_length_lt {α} (l : List (Key × α)) (k : Key) (h : k ∈ akeys l) :
    (adel l k).length < l.length := by
  induction l with
  | nil => simp [akeys] at h
  | cons p t ih =>
    by_cases hp : p.1 = k
    · have : (adel (p :: t) k) = adel t k := by simp [adel, hp]
      rw [this]
      have : (adel t k).length ≤ t.length := List.length_filter_le _ _
      simp; omega
    · have hk : k ∈ akeys t := by
        simp only [akeys, List.map_cons, List.mem_cons] at h
        rcases h with h | h
        · exact absurd h.symm hp
        · exact h
      have : (adel (p :: t) k) = p :: adel t k := by simp [adel, hp]
      rw [this]; have := ih hk; simp; omega

theorem aget?_none_iff {α} (l : List (Key × α)) (k : Key) : aget? l k = none ↔ k ∉ akeys l := by
  simp only [aget?, Option.map_eq_none_iff, List.find?_eq_none, akeys, List.mem_map, beq_iff_eq]
  constructor
  · rintro h ⟨p, hp, rfl⟩; exact h p hp rfl
  · intro h p hp e; exact h ⟨p, hp, e⟩

theorem aset_length_mem {α} (l : List (Key × α)) (k : Key) (v : α) (h : k ∈ akeys l) :
    (aset l k v).length = l.length := by
  simp [aset, h]

theorem aset_length_not_mem {α} (l : List (Key × α)) (k : Key) (v : α) (h : k ∉ akeys l) :
    (aset l k v).length = l.length + 1 := by
  simp [aset, h]

/-- the eviction loop keeps the key sets equal and ends below capacity (capacity ≥ 1) -/
theorem evictLoop_inv (cfg : Cfg) (hcap : 1 ≤ cfg.cap) (fuel : Nat) (s : St) (now : Nat)
    (h : KInv s) (hf : s.cache.length < cfg.cap + fuel) :
    KInv (evictLoop cfg fuel s now) ∧ (evictLoop cfg fuel s now).cache.length < cfg.cap ∧
      ∀ x, x ∈ akeys (evictLoop cfg fuel s now).cache → x ∈ akeys s.cache := by
  induction fuel generalizing s with
  | zero => exact ⟨h, by simpa [evictLoop] using hf, fun x hx => hx⟩
  | succ f ih =>
    unfold evictLoop
    by_cases hlt : s.cache.length < cfg.cap
    · rw [if_pos hlt]; exact ⟨h, hlt, fun x hx => hx⟩
    · rw [if_neg hlt]
      cases hev : (s.pol.evict now (s.pick cfg)).1 with
      | none =>
        -- unreachable: nothing tracked means nothing cached
        have ht := (Pol.evict_none_iff s.pol h.pinv now (s.pick cfg)).mp hev
        have : akeys s.cache = [] := by
          cases hk : akeys s.cache with
          | nil => rfl
          | cons a t =>
            have : a ∈ s.pol.tracked := (h.same a).mpr (by rw [hk]; simp)
            rw [ht] at this; simp at this
        have : s.cache.length = 0 := by
          have := congrArg List.length this
          simpa [akeys] using this
        omega
      | some ek =>
        have law := Pol.evict_some_law s.pol h.pinv now (s.pick cfg) ek hev
        have hek : ek ∈ akeys s.cache := (h.same ek).mp law.1
        simp only []
        have key := ih (evictOne cfg s ek (s.pol.evict now (s.pick cfg)).2) ?_ ?_
        · refine ⟨key.1, key.2.1, fun x hx => ?_⟩
          have := key.2.2 x hx
          exact ((mem_akeys_adel _ _ _).mp this).1
        · refine ⟨law.2.1, nodup_akeys_adel _ _ h.nodup, ?_⟩
          intro x
          show x ∈ (s.pol.evict now (s.pick cfg)).2.tracked ↔ x ∈ akeys (adel s.cache ek)
          rw [law.2.2 x, mem_akeys_adel, h.same x]
        · show (adel s.cache ek).length < cfg.cap + f
          have := adel_length_lt s.cache ek hek
          omega

theorem cachePut_inv (cfg : Cfg) (hcap : 1 ≤ cfg.cap) (s : St) (k v now : Nat) (h : SInv cfg s) :
    SInv cfg (cachePut cfg s k v now) := by
  unfold cachePut
  by_cases hk : k ∈ akeys s.cache
  · simp only [hk, if_true]
    have law := Pol.access_law s.pol h.pinv k
    refine ⟨law.1, ?_, ?_, ?_⟩
    · show (akeys (aset s.cache k v)).Nodup
      rw [akeys_aset_mem _ _ _ hk]; exact h.nodup
    · intro x
      show x ∈ (s.pol.access k).tracked ↔ x ∈ akeys (aset s.cache k v)
      rw [akeys_aset_mem _ _ _ hk, law.2 x, h.same x]
    · show (aset s.cache k v).length ≤ cfg.cap
      rw [aset_length_mem _ _ _ hk]; exact h.size
  · simp only [hk, if_false]
    have hl := evictLoop_inv cfg hcap (s.cache.length + s.pol.tracked.length + 1) s now h.k (by omega)
    generalize evictLoop cfg (s.cache.length + s.pol.tracked.length + 1) s now = s1 at hl
    -- the loop only removes keys, so k is still absent
    have hk1 : k ∉ akeys s1.cache := fun hx => hk (hl.2.2 k hx)
    have hkt : k ∉ s1.pol.tracked := fun hx => hk1 ((hl.1.same k).mp hx)
    have law := Pol.insert_law s1.pol hl.1.pinv k now hkt
    have al := aset_insert_law s1.cache k v hl.1.nodup hk1
    refine ⟨law.1, al.1, ?_, ?_⟩
    · intro x
      show x ∈ (s1.pol.insert k now).tracked ↔ x ∈ akeys (aset s1.cache k v)
      rw [law.2 x, al.2 x, hl.1.same x]
    · show (aset s1.cache k v).length ≤ cfg.cap
      rw [aset_length_not_mem _ _ _ hk1]; have := hl.2.1; omega

theorem cacheRemove_inv (cfg : Cfg) (s : St) (k : Key) (h : SInv cfg s) : SInv cfg (cacheRemove s k) := by
  have law := Pol.remove_law s.pol h.pinv k
  refine ⟨law.1, nodup_akeys_adel _ _ h.nodup, ?_, ?_⟩
  · intro x
    show x ∈ (s.pol.remove k).tracked ↔ x ∈ akeys (adel s.cache k)
    rw [law.2 x, mem_akeys_adel, h.same x]
  · show (adel s.cache k).length ≤ cfg.cap
    have : (adel s.cache k).length ≤ s.cache.length := List.length_filter_le _ _
    have := h.size; omega

/-! ### frame: everything else leaves cache and policy alone -/

/-- `s'` has the cache and policy of `s` -/
def Same (s s' : St) : Prop := s'.cache = s.cache ∧ s'.pol = s.pol

theorem Same.refl (s : St) : Same s s := ⟨rfl, rfl⟩
theorem Same.trans {a b c : St} (h1 : Same a b) (h2 : Same b c) : Same a c :=
  ⟨h2.1.trans h1.1, h2.2.trans h1.2⟩
theorem SInv.same' {cfg : Cfg} {s s' : St} (h : SInv cfg s) (hs : Same s s') : SInv cfg s' :=
  h.congr hs.1 hs.2

theorem same_setPend (s : St) (i : Nat) (p : Pend) : Same s (s.setPend i p) := ⟨rfl, rfl⟩
theorem same_clearPend (s : St) (i : Nat) : Same s (s.clearPend i) := ⟨rfl, rfl⟩
theorem same_bump (cfg : Cfg) (s : St) (k : Key) : Same s (s.bump cfg k) := by
  unfold St.bump; split <;> exact ⟨rfl, rfl⟩
theorem same_inflInc (cfg : Cfg) (s : St) (k : Key) : Same s (s.inflInc cfg k) := by
  unfold St.inflInc; split <;> exact ⟨rfl, rfl⟩
theorem same_inflDec (cfg : Cfg) (s : St) (k : Key) : Same s (s.inflDec cfg k) := by
  unfold St.inflDec; split <;> exact ⟨rfl, rfl⟩
theorem same_writeBack (s : St) (k : Key) : Same s (s.writeBack k) := ⟨by simp, by simp⟩
theorem same_writeBackAll (s : St) (l : List Key) : Same s (s.writeBackAll l) :=
  ⟨writeBackAll_cache s l, writeBackAll_pol s l⟩
theorem same_repWriteBack (cfg : Cfg) (s : St) (k : Key) : Same s (if cfg.rep then s.writeBack k else s) := by
  split
  · exact same_writeBack s k
  · exact Same.refl s

theorem same_flushNext (cfg : Cfg) (s : St) (i : Nat) (l : List Key) (n : Nat) :
    Same s (flushNext cfg s i l n).1 := by
  induction l generalizing n with
  | nil => exact Same.refl s
  | cons k rest ih =>
    unfold flushNext
    split
    · split
      · exact same_setPend _ _ _
      · exact ih n
    · split
      · exact same_setPend _ _ _
      · exact ih n

/-- every first segment preserves the invariant -/
theorem start_inv (cfg : Cfg) (hcap : 1 ≤ cfg.cap) (s : St) (i : Nat) (op : OpK) (now : Nat)
    (h : SInv cfg s) : SInv cfg (start cfg s i op now).1 := by
  cases op with
  | get k =>
    simp only [start]
    split
    · refine SInv.same' ?_ (same_setPend _ _ _)
      have law := Pol.access_law s.pol h.pinv k
      exact ⟨law.1, h.nodup, fun x => by show x ∈ (s.pol.access k).tracked ↔ _; rw [law.2 x, h.same x], h.size⟩
    · exact h.same' (same_setPend _ _ _)
  | put k v =>
    simp only [start]
    have h1 := cachePut_inv cfg hcap (s.bump cfg k) k v now (h.same' (same_bump cfg s k))
    split
    · exact (h1.same' (same_inflInc cfg _ k)).same' (same_setPend _ _ _)
    · exact SInv.same' (h1.same' ⟨rfl, rfl⟩) (same_setPend _ _ _)
  | del k =>
    simp only [start]
    have h0 := h.same' (same_bump cfg s k)
    refine SInv.same' (SInv.same' ?_ (same_inflInc cfg _ k)) (same_setPend _ _ _)
    split
    · exact cacheRemove_inv cfg _ k (h0.same' (same_repWriteBack cfg _ k))
    · exact h0
  | inv k =>
    simp only [start]
    split
    · exact cacheRemove_inv cfg _ k (h.same' (same_repWriteBack cfg _ k))
    · exact h
  | invAll =>
    simp only [start]
    have hp : (if cfg.rep then s.writeBackAll s.dirty else s).pol = s.pol := by
      split
      · exact writeBackAll_pol _ _
      · rfl
    have law := Pol.clear_law s.pol
    refine ⟨?_, ?_, ?_, ?_⟩
    · show ((if cfg.rep then s.writeBackAll s.dirty else s).pol.clear).Inv
      rw [hp]; exact law.1
    · show (akeys ([] : List (Key × Nat))).Nodup
      simp [akeys]
    · intro x
      show x ∈ ((if cfg.rep then s.writeBackAll s.dirty else s).pol.clear).tracked ↔ x ∈ akeys ([] : List (Key × Nat))
      rw [hp, law.2]; simp [akeys]
    · show ([] : List (Key × Nat)).length ≤ cfg.cap
      simp
  | flush order =>
    simp only [start]
    exact h.same' (same_flushNext cfg s i order 0)

/-- every later segment preserves the invariant -/
theorem resume_inv (cfg : Cfg) (hcap : 1 ≤ cfg.cap) (s : St) (i : Nat) (p : Pend) (now : Nat)
    (h : SInv cfg s) : SInv cfg (resume cfg s i p now).1 := by
  have hc := h.same' (same_clearPend s i)
  cases p with
  | getHit v => exact hc
  | getMiss k e =>
    simp only [resume]
    split
    · split
      · exact cachePut_inv cfg hcap _ k _ now hc
      · exact hc
    · exact hc
  | putWT k v =>
    simp only [resume]
    exact SInv.same' (hc.same' ⟨rfl, rfl⟩) (same_inflDec cfg _ k)
  | putWB => exact hc
  | del k inC =>
    simp only [resume]
    exact SInv.same' (hc.same' ⟨rfl, rfl⟩) (same_inflDec cfg _ k)
  | flushCur k v rest n =>
    simp only [resume]
    exact SInv.same' (hc.same' ⟨rfl, rfl⟩) (same_flushNext cfg _ i rest (n + 1))
  | flushRep k rest n =>
    simp only [resume]
    split
    · exact SInv.same' (hc.same' (same_writeBack _ k)) (same_flushNext cfg _ i rest (n + 1))
    · exact hc.same' (same_flushNext cfg _ i rest n)

theorem step_inv (cfg : Cfg) (hcap : 1 ≤ cfg.cap) (s : St) (a : Act) (h : SInv cfg s) :
    SInv cfg (step cfg s a).1 := by
  cases a with
  | start i op now => exact start_inv cfg hcap s i op now h
  | resume i now =>
    simp only [step]
    split
    · exact resume_inv cfg hcap s i _ now h
    · exact h

theorem run_inv (cfg : Cfg) (hcap : 1 ≤ cfg.cap) (s : St) (as : List Act) (h : SInv cfg s) :
    SInv cfg (run cfg s as) := by
  induction as generalizing s with
  | nil => exact h
  | cons a as ih => exact ih _ (step_inv cfg hcap s a h)

theorem init_inv (cfg : Cfg) (name : String) (arg : Nat) (p : Pol) (hp : Pol.ofName name arg = some p) :
    SInv cfg { pol := p } := by
  have := Pol.ofName_inv name arg p hp
  exact ⟨this.1, by simp [akeys], fun x => by simp [this.2, akeys], by simp⟩

end HappyModel.C16
