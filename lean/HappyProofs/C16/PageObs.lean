import HappyProofs.C16.PageCons
/-!
C16 / PageCache — the ghost counter `made` of the model is an observable quantity: in the repaired
model it moves only in a segment in which a `write_page` call returns, and then by exactly the rise
of `dirty_pages` over that segment (which is 0 or 1).  This is the quantity the Spec judge
(`PageSpec.lean`) reconstructs from public counters.
-/
namespace HappyModel.C16.Page

/-- does this segment belong to a `write_page` call? (a resumed call is a write iff it is suspended
in the eviction loop of `write_page`: that is the only place where `write_page` yields) -/
def writeSeg (s : St) : Act → Bool
  | .start _ (.write _) => true
  | .start _ _ => false
  | .resume i =>
    match findPend s.pend i with
    | some (.evict _ (.write _)) => true
    | _ => false

/-- the segment is the returning segment of a `write_page` -/
def writeReturns (cfg : Cfg) (s : St) (a : Act) : Bool :=
  writeSeg s a && decide ((step cfg s a).2 = some .ok)

theorem withRoom_write (cfg : Cfg) (hr : cfg.rep = true) (s : St) (idx p : Nat) :
    ((withRoom cfg s idx (.write p)).2 = some .ok ∧ s.made ≤ (withRoom cfg s idx (.write p)).1.made ∧
      (withRoom cfg s idx (.write p)).1.made + dirtyCount s.pages = s.made + dirtyCount (withRoom cfg s idx (.write p)).1.pages) ∨
    ((withRoom cfg s idx (.write p)).2 = none ∧ (withRoom cfg s idx (.write p)).1.made = s.made) := by
  simp only [withRoom]
  obtain ⟨h1, _, _, h4⟩ := ensure_frame cfg hr (s.pages.length + 1) s
  generalize ensure cfg (s.pages.length + 1) s = r at *
  obtain ⟨s1, o⟩ := r
  cases o with
  | none =>
    left
    have := assign_dirty s1 p true
    have hb := b2n_not (isDirty s1.pages p)
    simp only [afterRoom]
    simp only [b2n] at this hb ⊢
    simp at this hb h1 h4 ⊢
    omega
  | some v =>
    right
    exact ⟨rfl, h1⟩

theorem ensureThen_nonwrite (cfg : Cfg) (hr : cfg.rep = true) (s : St) (idx : Nat) (k : Cont)
    (hk : ∀ p, k ≠ .write p) :
    (match ensure cfg (s.pages.length + 1) s with
      | (s1, none) => afterRoom cfg s1 idx k
      | (s1, some v) => (s1.setPend idx (.evict v k), none)).1.made = s.made := by
  obtain ⟨h1, _, _, _⟩ := ensure_frame cfg hr (s.pages.length + 1) s
  generalize ensure cfg (s.pages.length + 1) s = r at *
  obtain ⟨s1, o⟩ := r
  cases o with
  | none =>
    simp only at h1 ⊢
    cases k with
    | load p => simp only [afterRoom, setPend_made]; exact h1
    | ins p => simp only [afterRoom]; rw [(readAhead_frame cfg idx p 1 _).2.2.1, assign_made]; exact h1
    | write p => exact absurd rfl (hk p)
  | some v => simp only at h1 ⊢; exact h1

theorem withRoom_nonwrite (cfg : Cfg) (hr : cfg.rep = true) (s : St) (idx : Nat) (k : Cont)
    (hk : ∀ p, k ≠ .write p) : (withRoom cfg s idx k).1.made = s.made := by
  cases k with
  | ins p =>
    simp only [withRoom]
    split
    · exact (readAhead_frame cfg idx p 1 s).2.2.1
    · exact ensureThen_nonwrite cfg hr s idx (.ins p) hk
  | load p => simp only [withRoom]; exact ensureThen_nonwrite cfg hr s idx (.load p) hk
  | write p => exact absurd rfl (hk p)

/-- In the repaired model `made` moves only when a `write_page` returns, by the rise of the dirty count. -/
theorem step_made (cfg : Cfg) (hr : cfg.rep = true) (s : St) (a : Act) :
    (writeReturns cfg s a = true → s.made ≤ (step cfg s a).1.made ∧
      (step cfg s a).1.made + dirtyCount s.pages = s.made + dirtyCount (step cfg s a).1.pages) ∧
    (writeReturns cfg s a = false → (step cfg s a).1.made = s.made) := by
  cases a with
  | start i op =>
    cases op with
    | read p =>
      refine ⟨fun h => (by simp [writeReturns, writeSeg] at h), fun _ => ?_⟩
      simp only [step, start]
      split
      · simp
      · exact withRoom_nonwrite cfg hr _ i (.load p) (fun q h => by cases h)
    | flush =>
      refine ⟨fun h => (by simp [writeReturns, writeSeg] at h), fun _ => ?_⟩
      simp only [step, start, hr, if_true]
      exact (flushNextR_frame i _ 0 s).2.2.1
    | write p =>
      simp only [writeReturns, writeSeg, Bool.true_and, decide_eq_true_eq, decide_eq_false_iff_not, step, start]
      split
      · rename_i hh
        refine ⟨fun _ => ?_, fun h => absurd rfl h⟩
        have := setDirty_dirty { s with hits := s.hits + 1, made := s.made + (if (!isDirty s.pages p) = true then 1 else 0) } p true hh
        have hb := b2n_not (isDirty s.pages p)
        simp only [touch_dirty, touch_made, setDirty_made]
        simp only [b2n] at this hb ⊢
        simp at this hb ⊢
        omega
      · rcases withRoom_write cfg hr { s with misses := s.misses + 1 } i p with ⟨h1, h2, h3⟩ | ⟨h1, h2⟩
        · exact ⟨fun _ => ⟨h2, h3⟩, fun h => absurd h1 h⟩
        · exact ⟨fun h => (by rw [h1] at h; cases h), fun _ => h2⟩
  | resume i =>
    cases hf : findPend s.pend i with
    | none =>
      have hs : step cfg s (.resume i) = (s, none) := by simp [step, hf]
      simp [writeReturns, writeSeg, hf, hs]
    | some pd =>
      have hs : step cfg s (.resume i) = resume cfg { s with pend := erasePend s.pend i } i pd := by
        simp [step, hf]
      simp only [writeReturns, writeSeg, hf, hs]
      cases pd with
      | evict v k =>
        cases k with
        | write p =>
          simp only [Bool.true_and, decide_eq_true_eq, decide_eq_false_iff_not, resume, hr, if_true]
          rcases withRoom_write cfg hr { s with pend := erasePend s.pend i, dwb := s.dwb + 1 } i p with ⟨h1, h2, h3⟩ | ⟨h1, h2⟩
          · exact ⟨fun _ => ⟨h2, h3⟩, fun h => absurd h1 h⟩
          · exact ⟨fun h => (by rw [h1] at h; cases h), fun _ => h2⟩
        | load p =>
          simp only [Bool.false_and, resume, hr, if_true]
          exact ⟨fun h => (by cases h), fun _ => withRoom_nonwrite cfg hr _ i (.load p) (fun q h => by cases h)⟩
        | ins p =>
          simp only [Bool.false_and, resume, hr, if_true]
          exact ⟨fun h => (by cases h), fun _ => withRoom_nonwrite cfg hr _ i (.ins p) (fun q h => by cases h)⟩
      | disk p =>
        simp only [Bool.false_and, resume, hr, if_true]
        exact ⟨fun h => (by cases h), fun _ => withRoom_nonwrite cfg hr _ i (.ins p) (fun q h => by cases h)⟩
      | ahead p j =>
        simp only [Bool.false_and, resume, hr, if_true]
        refine ⟨fun h => (by cases h), fun _ => ?_⟩
        split
        · rw [(readAhead_frame cfg i p (j + 1) _).2.2.1]; simp
        · rw [(readAhead_frame cfg i p (j + 1) _).2.2.1]
      | flushC p g rest stamp n =>
        simp only [Bool.false_and, resume, hr, if_true]
        exact ⟨fun h => (by cases h), fun _ => trivial⟩
      | flushR p rest n =>
        simp only [Bool.false_and, resume, hr, Bool.not_true, Bool.false_eq_true, if_false]
        refine ⟨fun h => (by cases h), fun _ => ?_⟩
        split
        · rw [(flushNextR_frame i rest (n + 1) _).2.2.1]; simp
        · rw [(flushNextR_frame i rest n _).2.2.1]

/-- `W` of the Spec: the summed rise of `dirty_pages` over the returning segments of `write_page` calls -/
def dirtied (cfg : Cfg) (s : St) : List Act → Nat
  | [] => 0
  | a :: as =>
    (if writeReturns cfg s a then dirtyCount (step cfg s a).1.pages - dirtyCount s.pages else 0)
      + dirtied cfg (step cfg s a).1 as

theorem made_eq_dirtied (cfg : Cfg) (hr : cfg.rep = true) : ∀ (acts : List Act) (s : St),
    (run cfg s acts).made = s.made + dirtied cfg s acts := by
  intro acts
  induction acts with
  | nil => intro s; simp [run, dirtied]
  | cons a as ih =>
    intro s
    simp only [run, dirtied]
    rw [ih]
    obtain ⟨h1, h2⟩ := step_made cfg hr s a
    cases hw : writeReturns cfg s a with
    | true => have := h1 hw; simp only [if_true]; omega
    | false => have := h2 hw; simp only [Bool.false_eq_true, if_false]; omega

end HappyModel.C16.Page
