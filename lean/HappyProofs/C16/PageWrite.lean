import HappyProofs.C16.PageLemmas
/-!
`PageCache`, per page: a `write_page(p)` that returns leaves page `p` cached and dirty — whatever
happened to the page while the call was stalled on a victim's write-back (a concurrent read may have
loaded it clean, a concurrent write may have dirtied it, it may have been evicted again).  Both
variants, every state.
-/
namespace HappyModel.C16.Page

/-- some cached entry of page `p` is dirty -/
def DirtyIn (ps : List Pg) (p : Nat) : Prop := ∃ q ∈ ps, q.id = p ∧ q.dirty = true

theorem mem_replace1 {ps : List Pg} {p : Nat} (n : Pg) (h : has ps p = true) : n ∈ replace1 ps p n := by
  induction ps with
  | nil => simp [has] at h
  | cons q qs ih =>
    unfold replace1
    by_cases e : (q.id == p) = true
    · rw [if_pos e]; exact List.mem_cons_self
    · rw [if_neg e]
      rw [has_cons] at h
      have : has qs p = true := by
        cases hq : (q.id == p) with
        | true => exact absurd hq e
        | false => rw [hq] at h; simpa using h
      exact List.mem_cons_of_mem _ (ih this)

theorem find_replace1 {ps : List Pg} {p : Nat} (n : Pg) (hn : n.id = p) (h : has ps p = true) :
    findPg (replace1 ps p n) p = some n := by
  induction ps with
  | nil => simp [has] at h
  | cons q qs ih =>
    unfold replace1
    by_cases e : (q.id == p) = true
    · rw [if_pos e]; unfold findPg; simp [hn]
    · rw [if_neg e]
      rw [has_cons] at h
      have : has qs p = true := by
        cases hq : (q.id == p) with
        | true => exact absurd hq e
        | false => rw [hq] at h; simpa using h
      unfold findPg
      rw [if_neg e]
      exact ih this

theorem mem_of_find {ps : List Pg} {p : Nat} {q : Pg} (h : findPg ps p = some q) : q ∈ ps ∧ q.id = p := by
  induction ps with
  | nil => simp [findPg] at h
  | cons a t ih =>
    unfold findPg at h
    by_cases e : (a.id == p) = true
    · rw [if_pos e] at h; cases h; exact ⟨List.mem_cons_self, by simpa using e⟩
    · rw [if_neg e] at h
      exact ⟨List.mem_cons_of_mem _ (ih h).1, (ih h).2⟩

theorem assign_dirtyIn (s : St) (p : Nat) : DirtyIn (s.assign p true).pages p := by
  unfold St.assign
  by_cases h : has s.pages p = true
  · rw [if_pos h]; exact ⟨_, mem_replace1 _ h, rfl, rfl⟩
  · rw [if_neg h]; exact ⟨⟨p, true, s.gen⟩, by simp, rfl, rfl⟩

theorem touch_dirtyIn (s : St) (p : Nat) {q : Pg} (hf : findPg s.pages p = some q) (hd : q.dirty = true) :
    DirtyIn (s.touch p).pages p := by
  obtain ⟨hm, hid⟩ := mem_of_find hf
  unfold St.touch
  rw [hf]
  simp only []
  split
  · exact ⟨q, hm, hid, hd⟩
  · exact ⟨q, by simp, hid, hd⟩

theorem setDirty_find {s s1 : St} {p : Nat} {q : Pg} (hp : s1.pages = s.pages) (hq : findPg s.pages p = some q)
    (hh : has s.pages p = true) : findPg (s1.setDirty p true).pages p = some { q with dirty := true } := by
  unfold St.setDirty
  rw [hp, hq]
  exact find_replace1 _ (mem_of_find hq).2 hh

theorem withRoom_write_dirty (cfg : Cfg) (s : St) (idx p : Nat) (h : (withRoom cfg s idx (.write p)).2 = some .ok) :
    DirtyIn (withRoom cfg s idx (.write p)).1.pages p := by
  unfold withRoom at h ⊢
  simp only at h ⊢
  cases he : ensure cfg (s.pages.length + 1) s with
  | mk s1 v =>
    cases v with
    | none =>
      simp only [he] at h ⊢
      exact assign_dirtyIn s1 p
    | some v =>
      simp only [he] at h
      cases h

/-- **write-back, per page**: the segment in which a `write_page(p)` returns leaves `p` cached and
    dirty (so it is written back by the next flush or by its eviction — `pagecache_dirty_never_dropped`) -/
theorem pagecache_write_leaves_page_dirty (cfg : Cfg) (s : St) (a : Act) (p : Nat)
    (hw : (∃ i, a = .start i (.write p)) ∨
          (∃ i v, a = .resume i ∧ findPend s.pend i = some (.evict v (.write p))))
    (hr : (step cfg s a).2 = some .ok) : DirtyIn (step cfg s a).1.pages p := by
  rcases hw with ⟨i, rfl⟩ | ⟨i, v, rfl, hp⟩
  · have e : step cfg s (.start i (.write p)) = start cfg s i (.write p) := rfl
    rw [e] at hr ⊢
    unfold start at hr ⊢
    simp only at hr ⊢
    by_cases hh : has s.pages p = true
    · rw [if_pos hh] at hr ⊢
      obtain ⟨q, hq⟩ := find_of_has_true hh
      -- `dirty = True`, then `move_to_end`
      have hset := setDirty_find (s1 := { s with hits := s.hits + 1, made := s.made + (if (!isDirty s.pages p) = true then 1 else 0) }) rfl hq hh
      exact touch_dirtyIn _ p hset rfl
    · rw [if_neg hh] at hr ⊢
      exact withRoom_write_dirty cfg _ i p hr
  · have e : step cfg s (.resume i) = resume cfg { s with pend := erasePend s.pend i } i (.evict v (.write p)) := by
      unfold step; simp only [hp]
    rw [e] at hr ⊢
    unfold resume at hr ⊢
    simp only at hr ⊢
    by_cases hrep : cfg.rep = true
    · rw [if_pos hrep] at hr ⊢
      exact withRoom_write_dirty cfg _ i p hr
    · rw [if_neg hrep] at hr ⊢
      split at hr
      · rename_i hv
        rw [if_pos hv]
        exact withRoom_write_dirty cfg _ i p hr
      · cases hr

/-- non-vacuity (the schedule of the seeded review change): capacity 2, page 1 dirty, page 2 clean;
    `write_page(7)` stalls on the write-back of 1; meanwhile `read_page(7)` loads 7 clean; the write
    resumes: 7 is dirty, and a flush then writes back exactly that page -/
example :
    let acts := [Act.start 0 (.write 1), .start 1 (.read 2), .resume 1, .start 2 (.write 7), .start 3 (.read 7),
                 .resume 3, .resume 2]
    let s := run ⟨2, 0, true⟩ {} acts
    (s.pages.map fun q => (q.id, q.dirty)) = [(7, true)] ∧ s.dwb = 1 ∧
    (step ⟨2, 0, true⟩ s (.start 4 .flush)).2 = none ∧
    (run ⟨2, 0, true⟩ s [.start 4 .flush, .resume 4]).dwb = 2 := by decide

end HappyModel.C16.Page
