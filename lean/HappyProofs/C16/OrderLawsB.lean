import HappyProofs.C16.OrderLawsA
/-!
The simulation relation of LRU: the policy's key list is duplicate free, names exactly the held keys,
and is sorted by the last-touch index recorded in the history.
-/
namespace HappyModel.C16

/-- every record of key `a` was last touched before every record of key `b` -/
def LruOrd (held : List HRec) (a b : Key) : Prop :=
  ∀ ra ∈ held, ∀ rb ∈ held, ra.key = a → rb.key = b → ra.last < rb.last

theorem lruOrd_mono {h h' : List HRec} (hs : ∀ r ∈ h', r ∈ h) {a b : Key} (ho : LruOrd h a b) :
    LruOrd h' a b :=
  fun ra ha rb hb ea eb => ho ra (hs ra ha) rb (hs rb hb) ea eb

def LruRel (p : Pol) (sp : SpecSt) : Prop :=
  SpecInv sp ∧ ∃ s, p = .lru s ∧ s.order.Nodup ∧ (∀ x, x ∈ s.order ↔ x ∈ sp.keys) ∧
    s.order.Pairwise (LruOrd sp.held)

theorem lruRel_init : LruRel (.lru {}) {} :=
  ⟨specInv_init, {}, rfl, List.nodup_nil, fun x => by simp [SpecSt.keys], List.Pairwise.nil⟩

theorem lruRel_filter (s : SpecSt) (l : List Key) (k : Key) (hn : l.Nodup)
    (hm : ∀ x, x ∈ l ↔ x ∈ s.keys) (hp : l.Pairwise (LruOrd s.held)) :
    (l.erase k).Nodup ∧
      (∀ x, x ∈ l.erase k ↔ x ∈ (s.held.filter (fun r => r.key != k)).map (·.key)) ∧
      (l.erase k).Pairwise (LruOrd (s.held.filter (fun r => r.key != k))) := by
  refine ⟨hn.erase k, ?_, ?_⟩
  · intro x
    rw [mem_erase_iff' hn, keys_filter, List.mem_filter, hm x]
    simp [SpecSt.keys]
  · exact (hp.sublist List.erase_sublist).imp
      (fun hab => lruOrd_mono (fun r hr => (List.mem_filter.mp hr).1) hab)

theorem lruRel_step (p : Pol) (s : SpecSt) (op : POp) (h : LruRel p s)
    (hwf : (s.step op (p.step op).1).wf = true) :
    LruRel (p.step op).2 (s.step op (p.step op).1) := by
  obtain ⟨hi, ⟨l⟩, rfl, hn, hm, hp⟩ := h
  simp only at hn hm hp
  refine ⟨specInv_step _ _ _ hi hwf, ?_⟩
  cases op with
  | access k =>
    simp only [Pol.step, Pol.access, LRU.access]
    by_cases hk : k ∈ l
    · rw [if_pos hk]
      refine ⟨_, rfl, nodup_erase_append hn, ?_, ?_⟩
      · intro x
        rw [step_keys_access]
        simp only
        rw [mem_erase_append hn hk]; exact hm x
      · rw [step_access]
        simp only
        rw [List.pairwise_append]
        refine ⟨?_, List.pairwise_singleton _ _, ?_⟩
        · refine (hp.sublist List.erase_sublist).imp_of_mem ?_
          intro a b ha hb hab ra' hra rb' hrb ea eb
          have ha' : a ≠ k := (hn.mem_erase_iff.mp ha).1
          have hb' : b ≠ k := (hn.mem_erase_iff.mp hb).1
          obtain ⟨ra, hra0, rfl⟩ := List.mem_map.mp hra
          obtain ⟨rb, hrb0, rfl⟩ := List.mem_map.mp hrb
          rw [touch_key] at ea eb
          rw [touch_of_ne (ea ▸ ha'), touch_of_ne (eb ▸ hb')]
          exact hab ra hra0 rb hrb0 ea eb
        · intro a ha b hb
          simp only [List.mem_singleton] at hb; subst hb
          intro ra' hra rb' hrb ea eb
          have ha' : a ≠ b := (hn.mem_erase_iff.mp ha).1
          obtain ⟨ra, hra0, rfl⟩ := List.mem_map.mp hra
          obtain ⟨rb, hrb0, rfl⟩ := List.mem_map.mp hrb
          rw [touch_key] at ea eb
          rw [touch_of_ne (ea ▸ ha'), touch_last_of_eq eb]
          exact hi.last_lt ra hra0
    · rw [if_neg hk]
      have hk' : k ∉ s.keys := fun h => hk ((hm k).mpr h)
      refine ⟨_, rfl, hn, ?_, ?_⟩
      · intro x; rw [step_keys_access]; exact hm x
      · rw [step_access]
        simp only
        rw [map_touch_not_mem hk']; exact hp
  | insert k now =>
    have hh := wf_insert_not_has _ _ _ _ hwf
    have hk := not_mem_keys_of_not_has hh
    have hkl : k ∉ l := fun h => hk ((hm k).mp h)
    simp only [Pol.step, Pol.insert, LRU.insert]
    rw [if_neg hkl]
    refine ⟨_, rfl, nodup_append_singleton hn hkl, ?_, ?_⟩
    · intro x
      rw [step_keys_insert _ _ _ _ hh]
      simp only [List.mem_append, hm x]
    · rw [step_insert_wf _ _ _ _ hh]
      simp only
      rw [List.pairwise_append]
      have old : ∀ (r : HRec) (a : Key), a ∈ l → r.key = a →
          r ∈ s.held ++ [⟨k, s.tick, s.tick, 1, now⟩] → r ∈ s.held := by
        intro r a ha e hr
        rcases List.mem_append.mp hr with hr | hr
        · exact hr
        · simp only [List.mem_singleton] at hr; subst hr
          have e' : k = a := e
          exact absurd (e' ▸ ha) hkl
      refine ⟨?_, List.pairwise_singleton _ _, ?_⟩
      · refine hp.imp_of_mem ?_
        intro a b ha hb hab ra hra rb hrb ea eb
        exact hab ra (old ra a ha ea hra) rb (old rb b hb eb hrb) ea eb
      · intro a ha b hb
        simp only [List.mem_singleton] at hb; subst hb
        intro ra hra rb hrb ea eb
        have hra0 := old ra a ha ea hra
        rcases List.mem_append.mp hrb with hrb | hrb
        · exact absurd (eb ▸ mem_keys_of_mem hrb) hk
        · simp only [List.mem_singleton] at hrb; subst hrb
          exact hi.last_lt ra hra0
  | remove k =>
    simp only [Pol.step, Pol.remove, LRU.remove]
    obtain ⟨h1, h2, h3⟩ := lruRel_filter s l k hn hm hp
    exact ⟨_, rfl, h1, h2, h3⟩
  | evict now pick =>
    simp only [Pol.step, Pol.evict, LRU.evict]
    cases l with
    | nil => exact ⟨_, rfl, hn, hm, hp⟩
    | cons a r =>
      obtain ⟨h1, h2, h3⟩ := lruRel_filter s (a :: r) a hn hm hp
      simp only [List.erase_cons_head] at h1 h2 h3
      exact ⟨_, rfl, h1, h2, h3⟩
  | clear =>
    exact ⟨{}, rfl, List.nodup_nil, fun x => by simp [SpecSt.step, SpecSt.keys], List.Pairwise.nil⟩

theorem lruRel_evict (p : Pol) (s : SpecSt) (now : Nat) (pick : List Key) (k : Key)
    (h : LruRel p s) (he : (p.evict now pick).1 = some k) :
    ∃ v, s.rec? k = some v ∧ orderOk .lru s now pick v = true := by
  obtain ⟨hi, ⟨l⟩, rfl, hn, hm, hp⟩ := h
  simp only at hn hm hp
  simp only [Pol.evict, LRU.evict] at he
  cases l with
  | nil => simp at he
  | cons a rest =>
    simp only [Option.some.injEq] at he; subst he
    obtain ⟨v, hv, hva⟩ := exists_rec_of_mem_keys ((hm a).mp List.mem_cons_self)
    subst hva
    refine ⟨v, rec?_of_mem hi.nodup hv, ?_⟩
    simp only [orderOk, List.all_eq_true, decide_eq_true_eq]
    intro r hr
    rcases List.mem_cons.mp ((hm r.key).mpr (mem_keys_of_mem hr)) with e | hin
    · rw [rec_unique hi.nodup hr hv e]; exact Nat.le_refl _
    · exact Nat.le_of_lt ((List.pairwise_cons.mp hp).1 r.key hin v hv r hr rfl rfl)

end HappyModel.C16
