import HappyModel.C16.SoftTtl
/-!
`soft_ttl_age_le_hard` for the repaired variant: every pending cache hit was chosen while its entry
was younger than the hard TTL, and the coalesced path re-validates, so every served value is.
-/
namespace HappyModel.C16

def TPend.ok (hard : Nat) : TPend → Prop
  | .hit _ cat issued => issued < cat + hard
  | _ => True

def TInv (cfg : TCfg) (s : TSt) : Prop := ∀ x ∈ s.pend, x.2.ok cfg.hard

theorem tinv_setPend (cfg : TCfg) (s : TSt) (i : Nat) (p : TPend) (h : TInv cfg s) (hp : p.ok cfg.hard) :
    TInv cfg (s.setPend i p) := by
  intro x hx
  simp only [TSt.setPend, List.mem_append, List.mem_singleton] at hx
  rcases hx with hx | hx
  · exact h x hx
  · subst hx; exact hp

theorem tinv_clearPend (cfg : TCfg) (s : TSt) (i : Nat) (h : TInv cfg s) : TInv cfg (s.clearPend i) := by
  intro x hx
  simp only [TSt.clearPend, List.mem_filter] at hx
  exact h x hx.1

theorem tinv_of_pend (cfg : TCfg) {s t : TSt} (h : TInv cfg s) (hp : t.pend = s.pend) : TInv cfg t := by
  intro x hx; rw [hp] at hx; exact h x hx

theorem tEvict_pend (fuel cap : Nat) (s : TSt) : (tEvict fuel cap s).pend = s.pend := by
  induction fuel generalizing s with
  | zero => rfl
  | succ f ih =>
    unfold tEvict
    split
    · rfl
    · split
      · rfl
      · rw [ih]

theorem tStore_pend (cfg : TCfg) (s : TSt) (k v now : Nat) : (tStore cfg s k v now).pend = s.pend := by
  unfold tStore
  cases cfg.cap with
  | none => rfl
  | some c =>
    simp only []
    split
    · rfl
    · exact tEvict_pend _ _ _

theorem tStart_ok (cfg : TCfg) (hsh : cfg.soft ≤ cfg.hard) (s : TSt) (i : Nat) (op : TOp) (now : Nat)
    (h : TInv cfg s) :
    TInv cfg (tStart cfg s i op now).1 ∧ ∀ r, (tStart cfg s i op now).2 = some r → r.ageOk cfg.hard = true := by
  cases op with
  | get k =>
    simp only [tStart]
    have hm : ∀ s' : TSt, TInv cfg s' →
        TInv cfg (if k ∈ s'.refreshing then (s'.setPend i (.coalesced k now), (none : Option TRes))
          else (s'.setPend i (.miss k), none)).1 ∧
        ∀ r, (if k ∈ s'.refreshing then (s'.setPend i (.coalesced k now), (none : Option TRes))
          else (s'.setPend i (.miss k), none)).2 = some r → r.ageOk cfg.hard = true := by
      intro s' h'
      split
      · exact ⟨tinv_setPend cfg _ _ _ h' trivial, by intro r hr; cases hr⟩
      · exact ⟨tinv_setPend cfg _ _ _ h' trivial, by intro r hr; cases hr⟩
    split
    · rename_i v cat _
      have h1 : TInv cfg { s with order := lruTouch s.order k } := tinv_of_pend cfg h rfl
      split
      · rename_i hlt
        refine ⟨tinv_setPend cfg _ _ _ h1 ?_, by intro r hr; cases hr⟩
        show now < cat + cfg.hard
        omega
      · split
        · rename_i hlt
          have hok : (TPend.hit v cat now).ok cfg.hard := by show now < cat + cfg.hard; omega
          split
          · exact ⟨tinv_setPend cfg _ _ _ h1 hok, by intro r hr; cases hr⟩
          · exact ⟨tinv_setPend cfg _ _ _ (tinv_of_pend cfg h1 rfl) hok, by intro r hr; cases hr⟩
        · exact hm _ h1
    · exact hm _ h
  | put k v =>
    simp only [tStart]
    exact ⟨tinv_setPend cfg _ _ _ h trivial, by intro r hr; cases hr⟩
  | inv k =>
    simp only [tStart]
    split
    · exact ⟨tinv_of_pend cfg h rfl, by intro r hr; cases hr; rfl⟩
    · exact ⟨h, by intro r hr; cases hr; rfl⟩
  | invAll => exact ⟨tinv_of_pend cfg h rfl, by intro r hr; cases hr; rfl⟩
  | bput k v => exact ⟨tinv_of_pend cfg h rfl, by intro r hr; cases hr; rfl⟩
  | bdel k => exact ⟨tinv_of_pend cfg h rfl, by intro r hr; cases hr; rfl⟩
  | refresh k =>
    simp only [tStart]
    exact ⟨tinv_setPend cfg _ _ _ (tinv_of_pend cfg h rfl) trivial, by intro r hr; cases hr⟩

theorem tResume_ok (cfg : TCfg) (hrep : cfg.rep = true) (s : TSt) (i : Nat) (p : TPend) (now : Nat)
    (h : TInv cfg s) (hp : p.ok cfg.hard) :
    TInv cfg (tResume cfg s i p now).1 ∧ ∀ r, (tResume cfg s i p now).2 = some r → r.ageOk cfg.hard = true := by
  have hc := tinv_clearPend cfg s i h
  cases p with
  | hit v cat issued =>
    simp only [tResume]
    refine ⟨hc, ?_⟩
    intro r hr; cases hr
    simp only [TRes.ageOk, decide_eq_true_eq]; exact hp
  | coalesced k issued =>
    simp only [tResume, hrep, if_true]
    split
    · rename_i v cat _
      split
      · rename_i hlt
        refine ⟨hc, ?_⟩
        intro r hr; cases hr
        simp only [TRes.ageOk, decide_eq_true_eq]; omega
      · exact ⟨tinv_setPend cfg _ _ _ hc trivial, by intro r hr; cases hr⟩
    · exact ⟨tinv_setPend cfg _ _ _ hc trivial, by intro r hr; cases hr⟩
  | miss k =>
    simp only [tResume]
    split
    · exact ⟨tinv_of_pend cfg hc (tStore_pend _ _ _ _ _), by intro r hr; cases hr; rfl⟩
    · exact ⟨hc, by intro r hr; cases hr; rfl⟩
  | put k v =>
    simp only [tResume]
    exact ⟨tinv_of_pend cfg hc (by rw [tStore_pend]), by intro r hr; cases hr; rfl⟩
  | refresh k =>
    simp only [tResume]
    refine ⟨?_, by intro r hr; cases hr; rfl⟩
    apply tinv_of_pend cfg hc
    show (match aget? (s.clearPend i).back k with
      | some v => tStore cfg (s.clearPend i) k v now
      | none => s.clearPend i).pend = (s.clearPend i).pend
    split
    · exact tStore_pend _ _ _ _ _
    · rfl

theorem tStep_ok (cfg : TCfg) (hrep : cfg.rep = true) (hsh : cfg.soft ≤ cfg.hard) (s : TSt) (a : TAct)
    (h : TInv cfg s) :
    TInv cfg (tStep cfg s a).1 ∧ ∀ r, (tStep cfg s a).2 = some r → r.ageOk cfg.hard = true := by
  cases a with
  | start i op now => exact tStart_ok cfg hsh s i op now h
  | resume i now =>
    simp only [tStep]
    split
    · rename_i p hf
      exact tResume_ok cfg hrep s i p now h (h _ (List.mem_of_find?_eq_some hf))
    · exact ⟨h, by intro r hr; cases hr⟩

theorem tRun_ok (cfg : TCfg) (hrep : cfg.rep = true) (hsh : cfg.soft ≤ cfg.hard) (s : TSt) (as : List TAct)
    (h : TInv cfg s) : ∀ r ∈ (tRun cfg s as).2, r.ageOk cfg.hard = true := by
  induction as generalizing s with
  | nil => intro r hr; simp [tRun] at hr
  | cons a as ih =>
    intro r hr
    have st := tStep_ok cfg hrep hsh s a h
    simp only [tRun, List.mem_append] at hr
    rcases hr with hr | hr
    · cases hres : (tStep cfg s a).2 with
      | none => rw [hres] at hr; simp at hr
      | some x =>
        rw [hres] at hr
        simp only [List.mem_singleton] at hr
        subst hr; exact st.2 _ hres
    · exact ih _ st.1 r hr

end HappyModel.C16
