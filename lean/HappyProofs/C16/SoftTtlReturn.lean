import HappyProofs.C16.SoftTtlInv
/-!
`soft_ttl_age_le_hard`, return-time form.  `TRes.served v cat issued` carries the instant at which
the decision to serve the entry was taken; the value reaches the caller when the generator returns,
one `cache_read_latency` (a hit) or nothing (a coalesced request: it decides when its wait ends)
later.  This file ties `issued` to the clock readings of the operation's own segments: for a hit it
is the reading of the operation's first segment, for a coalesced request the reading of the segment
that returns.  Hence the age of a served value *at return* is below `hard_ttl` plus the time the
operation spent between its first and its returning segment.
-/
namespace HappyModel.C16

def tActId : TAct → Nat
  | .start i _ _ => i
  | .resume i _ => i

def tActTime : TAct → Nat
  | .start _ _ t => t
  | .resume _ t => t

/-- the first-segment readings recorded so far -/
def tStarts (st : List (Nat × Nat)) : TAct → List (Nat × Nat)
  | .start i _ t => st ++ [(i, t)]
  | .resume _ _ => st

def tStartIds (as : List TAct) : List Nat :=
  as.filterMap fun a => match a with | .start i _ _ => some i | _ => none

/-- run a schedule, collecting for every completed operation what it reported, the clock reading of
    its first segment and the clock reading of the segment in which it returned -/
def tRunT (cfg : TCfg) : TSt → List (Nat × Nat) → List TAct → List (TRes × Nat × Nat)
  | _, _, [] => []
  | s, st, a :: as =>
    (match (tStep cfg s a).2 with
      | some x => [(x, (aget? (tStarts st a) (tActId a)).getD 0, tActTime a)]
      | none => []) ++ tRunT cfg (tStep cfg s a).1 (tStarts st a) as

/-- every pending hit was decided at the reading of its operation's first segment, on an entry
    younger than the hard TTL -/
def HInv (cfg : TCfg) (st : List (Nat × Nat)) (s : TSt) : Prop :=
  ∀ i v cat iss, (i, TPend.hit v cat iss) ∈ s.pend → (i, iss) ∈ st ∧ iss < cat + cfg.hard

theorem hinv_mono {cfg : TCfg} {st st' : List (Nat × Nat)} {s s' : TSt} (h : HInv cfg st s)
    (hst : ∀ x ∈ st, x ∈ st') (hp : ∀ x ∈ s'.pend, x ∈ s.pend) : HInv cfg st' s' :=
  fun i v cat iss hm => ⟨hst _ (h i v cat iss (hp _ hm)).1, (h i v cat iss (hp _ hm)).2⟩

theorem hinv_set {cfg : TCfg} {st : List (Nat × Nat)} {s : TSt} (h : HInv cfg st s) (i : Nat) (p : TPend)
    (hp : ∀ v cat iss, p = .hit v cat iss → (i, iss) ∈ st ∧ iss < cat + cfg.hard) : HInv cfg st (s.setPend i p) := by
  intro j v cat iss hm
  simp only [TSt.setPend, List.mem_append, List.mem_singleton] at hm
  rcases hm with hm | hm
  · exact h j v cat iss hm
  · cases hm; exact hp v cat iss rfl

theorem hstart (cfg : TCfg) (hsh : cfg.soft ≤ cfg.hard) (st : List (Nat × Nat)) (s : TSt) (i : Nat) (op : TOp)
    (now : Nat) (h : HInv cfg st s) :
    HInv cfg (st ++ [(i, now)]) (tStart cfg s i op now).1 ∧
      ∀ v cat iss, (tStart cfg s i op now).2 ≠ some (.served v cat iss) := by
  have h' : HInv cfg (st ++ [(i, now)]) s := hinv_mono h (fun x hx => List.mem_append_left _ hx) (fun x hx => hx)
  have hme : (i, now) ∈ st ++ [(i, now)] := by simp
  have nothit : ∀ (s' : TSt) (p : TPend), HInv cfg (st ++ [(i, now)]) s' → (∀ v cat iss, p ≠ .hit v cat iss) →
      HInv cfg (st ++ [(i, now)]) (s'.setPend i p) :=
    fun s' p hs hp => hinv_set hs i p (fun v cat iss e => absurd e (hp v cat iss))
  cases op with
  | get k =>
    simp only [tStart]
    have hm : ∀ s' : TSt, HInv cfg (st ++ [(i, now)]) s' →
        HInv cfg (st ++ [(i, now)]) (if k ∈ s'.refreshing then (s'.setPend i (.coalesced k now), (none : Option TRes))
          else (s'.setPend i (.miss k), none)).1 ∧
        ∀ v cat iss, (if k ∈ s'.refreshing then (s'.setPend i (.coalesced k now), (none : Option TRes))
          else (s'.setPend i (.miss k), none)).2 ≠ some (.served v cat iss) := by
      intro s' hs
      split
      · exact ⟨nothit _ _ hs (fun _ _ _ e => by cases e), fun _ _ _ e => by cases e⟩
      · exact ⟨nothit _ _ hs (fun _ _ _ e => by cases e), fun _ _ _ e => by cases e⟩
    split
    · rename_i v cat _
      have h1 : HInv cfg (st ++ [(i, now)]) { s with order := lruTouch s.order k } := hinv_mono h' (fun x hx => hx) (fun x hx => hx)
      split
      · rename_i hlt
        refine ⟨hinv_set h1 i _ ?_, fun _ _ _ e => by cases e⟩
        intro v' cat' iss e; cases e
        exact ⟨hme, by omega⟩
      · split
        · rename_i hlt
          have hok : ∀ v' cat' iss, TPend.hit v cat now = .hit v' cat' iss →
              (i, iss) ∈ st ++ [(i, now)] ∧ iss < cat' + cfg.hard := by
            intro v' cat' iss e; cases e; exact ⟨hme, by omega⟩
          split
          · exact ⟨hinv_set h1 i _ hok, fun _ _ _ e => by cases e⟩
          · exact ⟨hinv_set (hinv_mono h1 (fun x hx => hx) (fun x hx => hx)) i _ hok, fun _ _ _ e => by cases e⟩
        · exact hm _ h1
    · exact hm _ h'
  | put k v =>
    simp only [tStart]
    exact ⟨nothit _ _ h' (fun _ _ _ e => by cases e), fun _ _ _ e => by cases e⟩
  | inv k =>
    simp only [tStart]
    split
    · exact ⟨hinv_mono h' (fun x hx => hx) (fun x hx => hx), fun _ _ _ e => by cases e⟩
    · exact ⟨h', fun _ _ _ e => by cases e⟩
  | invAll => exact ⟨hinv_mono h' (fun x hx => hx) (fun x hx => hx), fun _ _ _ e => by cases e⟩
  | bput k v => exact ⟨hinv_mono h' (fun x hx => hx) (fun x hx => hx), fun _ _ _ e => by cases e⟩
  | bdel k => exact ⟨hinv_mono h' (fun x hx => hx) (fun x hx => hx), fun _ _ _ e => by cases e⟩
  | refresh k =>
    simp only [tStart]
    exact ⟨nothit _ _ (hinv_mono h' (fun x hx => hx) (fun x hx => hx)) (fun _ _ _ e => by cases e),
      fun _ _ _ e => by cases e⟩

theorem hresume (cfg : TCfg) (hrep : cfg.rep = true) (st : List (Nat × Nat)) (s : TSt) (i : Nat) (p : TPend)
    (now : Nat) (h : HInv cfg st s) (hm : (i, p) ∈ s.pend) :
    HInv cfg st (tResume cfg s i p now).1 ∧
      ∀ v cat iss, (tResume cfg s i p now).2 = some (.served v cat iss) →
        iss < cat + cfg.hard ∧ ((i, iss) ∈ st ∨ iss = now) := by
  have hc : HInv cfg st (s.clearPend i) := hinv_mono h (fun x hx => hx) (fun x hx => by
    simp only [TSt.clearPend, List.mem_filter] at hx; exact hx.1)
  have nothit : ∀ (p' : TPend), (∀ v cat iss, p' ≠ .hit v cat iss) → HInv cfg st ((s.clearPend i).setPend i p') :=
    fun p' hp => hinv_set hc i p' (fun v cat iss e => absurd e (hp v cat iss))
  cases p with
  | hit v cat issued =>
    simp only [tResume]
    refine ⟨hc, ?_⟩
    intro v' cat' iss e; cases e
    have := h i v cat issued hm
    exact ⟨this.2, Or.inl this.1⟩
  | coalesced k issued =>
    simp only [tResume, hrep, if_true]
    split
    · rename_i v cat _
      split
      · rename_i hlt
        refine ⟨hc, ?_⟩
        intro v' cat' iss e; cases e
        exact ⟨by omega, Or.inr rfl⟩
      · exact ⟨nothit _ (fun _ _ _ e => by cases e), fun _ _ _ e => by cases e⟩
    · exact ⟨nothit _ (fun _ _ _ e => by cases e), fun _ _ _ e => by cases e⟩
  | miss k =>
    simp only [tResume]
    split
    · exact ⟨hinv_mono hc (fun x hx => hx) (fun x hx => by rw [tStore_pend] at hx; exact hx), fun _ _ _ e => by cases e⟩
    · exact ⟨hc, fun _ _ _ e => by cases e⟩
  | put k v =>
    simp only [tResume]
    exact ⟨hinv_mono hc (fun x hx => hx) (fun x hx => by rw [tStore_pend] at hx; exact hx), fun _ _ _ e => by cases e⟩
  | refresh k =>
    simp only [tResume]
    refine ⟨?_, fun _ _ _ e => by cases e⟩
    refine hinv_mono hc (fun x hx => hx) ?_
    intro x hx
    have e : (match aget? (s.clearPend i).back k with
      | some v => tStore cfg (s.clearPend i) k v now
      | none => s.clearPend i).pend = (s.clearPend i).pend := by
      split
      · exact tStore_pend _ _ _ _ _
      · rfl
    have hx : x ∈ (match aget? (s.clearPend i).back k with
      | some v => tStore cfg (s.clearPend i) k v now
      | none => s.clearPend i).pend := hx
    rw [e] at hx; exact hx

theorem aget?_of_mem_keys_nodup {l : List (Nat × Nat)} {i t : Nat} (hn : (l.map (·.1)).Nodup) (h : (i, t) ∈ l) :
    aget? l i = some t := by
  induction l with
  | nil => cases h
  | cons a r ih =>
    simp only [List.map_cons, List.nodup_cons] at hn
    rcases List.mem_cons.mp h with e | h'
    · subst e; simp [aget?]
    · have hne : a.1 ≠ i := fun e => hn.1 (e ▸ List.mem_map.mpr ⟨(i, t), h', rfl⟩)
      have : aget? (a :: r) i = aget? r i := by simp [aget?, hne]
      rw [this]; exact ih hn.2 h'

/-- **age at return** (repaired variant, every schedule whose operation ids are distinct, every clock
    reading): a value served from an entry cached at `cat` by an operation whose first segment ran at
    `ts` and whose returning segment ran at `tr` satisfies `tr - cat < hard_ttl + (tr - ts)` — its age
    when the caller gets it exceeds what `soft_ttl_age_le_hard` bounds by no more than the time the
    operation itself took (`cache_read_latency` for a hit; a coalesced request decides at `tr`). -/
theorem tRunT_ok (cfg : TCfg) (hrep : cfg.rep = true) (hsh : cfg.soft ≤ cfg.hard) :
    ∀ (as : List TAct) (s : TSt) (st : List (Nat × Nat)), HInv cfg st s →
      ((st.map (·.1)) ++ tStartIds as).Nodup →
      ∀ v cat iss ts tr, (TRes.served v cat iss, ts, tr) ∈ tRunT cfg s st as →
        iss < cat + cfg.hard ∧ (iss = ts ∨ iss = tr) := by
  intro as
  induction as with
  | nil => intro s st _ _ v cat iss ts tr hm; simp [tRunT] at hm
  | cons a as ih =>
    intro s st h hnd v cat iss ts tr hm
    simp only [tRunT, List.mem_append] at hm
    have hnd' : (((tStarts st a).map (·.1)) ++ tStartIds as).Nodup := by
      cases a with
      | start i op now =>
        have e : tStartIds (.start i op now :: as) = i :: tStartIds as := rfl
        rw [e] at hnd
        simpa [tStarts, List.map_append, List.append_assoc] using hnd
      | resume i now => exact hnd
    have hkeys : ((tStarts st a).map (·.1)).Nodup := (List.nodup_append.mp hnd').1
    -- the step
    have hstep : HInv cfg (tStarts st a) (tStep cfg s a).1 ∧
        ∀ v cat iss, (tStep cfg s a).2 = some (.served v cat iss) →
          iss < cat + cfg.hard ∧ ((tActId a, iss) ∈ tStarts st a ∨ iss = tActTime a) := by
      cases a with
      | start i op now =>
        obtain ⟨h1, h2⟩ := hstart cfg hsh st s i op now h
        exact ⟨h1, fun v cat iss e => absurd e (h2 v cat iss)⟩
      | resume i now =>
        simp only [tStep]
        cases hf : s.pend.find? (fun x => x.1 == i) with
        | none => exact ⟨h, fun _ _ _ e => by cases e⟩
        | some y =>
          obtain ⟨j, p⟩ := y
          simp only []
          have hmem := List.mem_of_find?_eq_some hf
          have hj : j = i := by simpa using List.find?_some hf
          subst hj
          exact hresume cfg hrep st s j p now h hmem
    rcases hm with hm | hm
    · cases hres : (tStep cfg s a).2 with
      | none => rw [hres] at hm; simp at hm
      | some x =>
        rw [hres] at hm
        simp only [List.mem_singleton, Prod.mk.injEq] at hm
        obtain ⟨rfl, rfl, rfl⟩ := hm
        obtain ⟨hage, hwhere⟩ := hstep.2 v cat iss hres
        refine ⟨hage, ?_⟩
        rcases hwhere with hw | hw
        · left
          rw [aget?_of_mem_keys_nodup hkeys hw]; rfl
        · exact Or.inr hw
    · exact ih _ _ hstep.1 hnd' v cat iss ts tr hm

end HappyModel.C16
