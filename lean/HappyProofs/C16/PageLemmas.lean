import HappyModel.C16.PageDriver
/-! C16 / PageCache — list-level lemmas about the ordered dict of the model (length and dirty count). -/
namespace HappyModel.C16.Page

def b2n (b : Bool) : Nat := if b then 1 else 0

@[simp] theorem b2n_true : b2n true = 1 := rfl
@[simp] theorem b2n_false : b2n false = 0 := rfl
theorem b2n_le (b : Bool) : b2n b ≤ 1 := by cases b <;> simp

theorem dirtyCount_nil : dirtyCount [] = 0 := rfl

theorem dirtyCount_cons (q : Pg) (ps : List Pg) : dirtyCount (q :: ps) = dirtyCount ps + b2n q.dirty := by
  simp [dirtyCount, b2n, List.countP_cons]

theorem dirtyCount_snoc (q : Pg) (ps : List Pg) : dirtyCount (ps ++ [q]) = dirtyCount ps + b2n q.dirty := by
  simp [dirtyCount, b2n, List.countP_append, List.countP_cons]

theorem dirtyCount_le_length (ps : List Pg) : dirtyCount ps ≤ ps.length := by
  unfold dirtyCount; exact List.countP_le_length

theorem has_cons (q : Pg) (ps : List Pg) (p : Nat) : has (q :: ps) p = (q.id == p || has ps p) := by
  simp [has]

theorem find_of_has_false {ps : List Pg} {p : Nat} (h : has ps p = false) : findPg ps p = none := by
  induction ps with
  | nil => rfl
  | cons a as ih =>
    rw [has_cons] at h
    have h1 : (a.id == p) = false := by cases hc : (a.id == p) <;> simp_all
    have h2 : has as p = false := by cases hc : has as p <;> simp_all
    simp [findPg, h1, ih h2]

theorem find_of_has_true {ps : List Pg} {p : Nat} (h : has ps p = true) : ∃ q, findPg ps p = some q := by
  induction ps with
  | nil => simp [has] at h
  | cons a as ih =>
    rw [has_cons] at h
    by_cases hc : (a.id == p) = true
    · exact ⟨a, by simp [findPg, hc]⟩
    · have h2 : has as p = true := by simp_all
      obtain ⟨q, hq⟩ := ih h2
      exact ⟨q, by simp [findPg, hc, hq]⟩

theorem isDirty_of_find {ps : List Pg} {p : Nat} {q : Pg} (h : findPg ps p = some q) : isDirty ps p = q.dirty := by
  simp [isDirty, h]

theorem isDirty_of_absent {ps : List Pg} {p : Nat} (h : has ps p = false) : isDirty ps p = false := by
  simp [isDirty, find_of_has_false h]

theorem has_of_isDirty {ps : List Pg} {p : Nat} (h : isDirty ps p = true) : has ps p = true := by
  cases hh : has ps p with
  | true => rfl
  | false => rw [isDirty_of_absent hh] at h; cases h

/-! ### length -/

theorem length_replace1 (ps : List Pg) (p : Nat) (n : Pg) : (replace1 ps p n).length = ps.length := by
  induction ps with
  | nil => rfl
  | cons a as ih =>
    by_cases hc : (a.id == p) = true <;> simp [replace1, hc, ih]

theorem length_erase1 {ps : List Pg} {p : Nat} {q : Pg} (h : findPg ps p = some q) :
    (erase1 ps p).length + 1 = ps.length := by
  induction ps with
  | nil => simp [findPg] at h
  | cons a as ih =>
    by_cases hc : (a.id == p) = true
    · simp [erase1, hc]
    · simp only [findPg, hc] at h
      simp [erase1, hc, ih h]

theorem length_erase1_le (ps : List Pg) (p : Nat) : (erase1 ps p).length ≤ ps.length := by
  induction ps with
  | nil => simp [erase1]
  | cons a as ih =>
    by_cases hc : (a.id == p) = true
    · simp [erase1, hc]
    · simp [erase1, hc]; exact ih

/-! ### dirty count -/

theorem dirty_erase1 {ps : List Pg} {p : Nat} {q : Pg} (h : findPg ps p = some q) :
    dirtyCount (erase1 ps p) + b2n q.dirty = dirtyCount ps := by
  induction ps with
  | nil => simp [findPg] at h
  | cons a as ih =>
    by_cases hc : (a.id == p) = true
    · simp only [findPg, hc] at h
      simp only [if_true, Option.some.injEq] at h
      subst h
      simp [erase1, hc, dirtyCount_cons]
    · simp only [findPg, hc] at h
      have := ih h
      simp only [erase1, hc, dirtyCount_cons]
      simp only [Bool.false_eq_true, if_false, dirtyCount_cons]
      omega

theorem dirty_replace1 {ps : List Pg} {p : Nat} {q : Pg} (n : Pg) (h : findPg ps p = some q) :
    dirtyCount (replace1 ps p n) + b2n q.dirty = dirtyCount ps + b2n n.dirty := by
  induction ps with
  | nil => simp [findPg] at h
  | cons a as ih =>
    by_cases hc : (a.id == p) = true
    · simp only [findPg, hc] at h
      simp only [if_true, Option.some.injEq] at h
      subst h
      simp only [replace1, hc, if_true, dirtyCount_cons]
      omega
    · simp only [findPg, hc] at h
      have := ih h
      simp only [replace1, hc, dirtyCount_cons]
      simp only [Bool.false_eq_true, if_false, dirtyCount_cons]
      omega

/-! ### state-level frames -/

@[simp] theorem setPend_pages (s : St) (i : Nat) (p : Pend) : (s.setPend i p).pages = s.pages := rfl
@[simp] theorem setPend_dwb (s : St) (i : Nat) (p : Pend) : (s.setPend i p).dwb = s.dwb := rfl
@[simp] theorem setPend_made (s : St) (i : Nat) (p : Pend) : (s.setPend i p).made = s.made := rfl
@[simp] theorem setPend_pend (s : St) (i : Nat) (p : Pend) : (s.setPend i p).pend = s.pend ++ [(i, p)] := rfl

theorem touch_length (s : St) (p : Nat) : (s.touch p).pages.length = s.pages.length := by
  unfold St.touch
  cases hf : findPg s.pages p with
  | none => rfl
  | some q =>
    by_cases hl : isLast s.pages p = true
    · simp [hl]
    · simp [hl]; exact length_erase1 hf

theorem touch_dirty (s : St) (p : Nat) : dirtyCount (s.touch p).pages = dirtyCount s.pages := by
  unfold St.touch
  cases hf : findPg s.pages p with
  | none => rfl
  | some q =>
    by_cases hl : isLast s.pages p = true
    · simp [hl]
    · simp [hl, dirtyCount_snoc]; exact dirty_erase1 hf

@[simp] theorem touch_dwb (s : St) (p : Nat) : (s.touch p).dwb = s.dwb := by
  unfold St.touch; split <;> (try split) <;> rfl
@[simp] theorem touch_made (s : St) (p : Nat) : (s.touch p).made = s.made := by
  unfold St.touch; split <;> (try split) <;> rfl
@[simp] theorem touch_pend (s : St) (p : Nat) : (s.touch p).pend = s.pend := by
  unfold St.touch; split <;> (try split) <;> rfl

theorem assign_length_le (s : St) (p : Nat) (d : Bool) : (s.assign p d).pages.length ≤ s.pages.length + 1 := by
  unfold St.assign
  by_cases hh : has s.pages p = true
  · simp [hh, length_replace1]
  · simp [hh]

theorem assign_length_present (s : St) (p : Nat) (d : Bool) (hh : has s.pages p = true) :
    (s.assign p d).pages.length = s.pages.length := by
  unfold St.assign; simp [hh, length_replace1]

theorem assign_dirty (s : St) (p : Nat) (d : Bool) :
    dirtyCount (s.assign p d).pages + b2n (isDirty s.pages p) = dirtyCount s.pages + b2n d := by
  unfold St.assign
  by_cases hh : has s.pages p = true
  · obtain ⟨q, hq⟩ := find_of_has_true hh
    simp only [hh, if_true]
    rw [isDirty_of_find hq]
    exact dirty_replace1 _ hq
  · have hh' : has s.pages p = false := by simpa using hh
    simp only [hh', Bool.false_eq_true, if_false, dirtyCount_snoc, isDirty_of_absent hh']
    simp

@[simp] theorem assign_dwb (s : St) (p : Nat) (d : Bool) : (s.assign p d).dwb = s.dwb := by
  unfold St.assign; split <;> rfl
@[simp] theorem assign_made (s : St) (p : Nat) (d : Bool) : (s.assign p d).made = s.made := by
  unfold St.assign; split <;> rfl
@[simp] theorem assign_pend (s : St) (p : Nat) (d : Bool) : (s.assign p d).pend = s.pend := by
  unfold St.assign; split <;> rfl

theorem setDirty_length (s : St) (p : Nat) (d : Bool) : (s.setDirty p d).pages.length = s.pages.length := by
  unfold St.setDirty
  cases findPg s.pages p with
  | none => rfl
  | some q => simp [length_replace1]

theorem setDirty_dirty (s : St) (p : Nat) (d : Bool) (hh : has s.pages p = true) :
    dirtyCount (s.setDirty p d).pages + b2n (isDirty s.pages p) = dirtyCount s.pages + b2n d := by
  obtain ⟨q, hq⟩ := find_of_has_true hh
  unfold St.setDirty
  rw [isDirty_of_find hq]
  simp only [hq]
  exact dirty_replace1 _ hq

@[simp] theorem setDirty_dwb (s : St) (p : Nat) (d : Bool) : (s.setDirty p d).dwb = s.dwb := by
  unfold St.setDirty; split <;> rfl
@[simp] theorem setDirty_made (s : St) (p : Nat) (d : Bool) : (s.setDirty p d).made = s.made := by
  unfold St.setDirty; split <;> rfl
@[simp] theorem setDirty_pend (s : St) (p : Nat) (d : Bool) : (s.setDirty p d).pend = s.pend := by
  unfold St.setDirty; split <;> rfl

/-! ### pending calls -/

def isEvict : Pend → Bool
  | .evict _ _ => true
  | _ => false

/-- victims whose write-back is under way (repaired: popped from the cache, not yet counted) -/
def inflight (l : List (Nat × Pend)) : Nat := l.countP (fun e => isEvict e.2)

theorem inflight_snoc (l : List (Nat × Pend)) (i : Nat) (p : Pend) :
    inflight (l ++ [(i, p)]) = inflight l + b2n (isEvict p) := by
  simp [inflight, b2n, List.countP_append, List.countP_cons]

theorem inflight_erase {l : List (Nat × Pend)} {i : Nat} {p : Pend} (h : findPend l i = some p) :
    inflight (erasePend l i) + b2n (isEvict p) = inflight l := by
  induction l with
  | nil => simp [findPend] at h
  | cons a as ih =>
    obtain ⟨j, q⟩ := a
    by_cases hc : (j == i) = true
    · simp only [findPend, hc, if_true, Option.some.injEq] at h
      subst h
      simp [erasePend, hc, inflight, b2n, List.countP_cons]
    · simp only [findPend, hc] at h
      have := ih h
      simp only [erasePend, hc]
      simp only [inflight, List.countP_cons] at this ⊢
      simp only [Bool.false_eq_true, if_false, List.countP_cons]
      omega

end HappyModel.C16.Page
