import HappyProofs.C16.OrderLawsB
/-!
Per-policy order laws: in every state reached by a well-formed call history, whatever `evict`
returns satisfies the policy's order clause of `PolicySpec.orderOk`, which is stated over the history
(`SpecSt`: insertion index, last-touch index, touch count, insertion clock reading of every held key)
and not over the policy's data structure.
-/
namespace HappyModel.C16

/-- the order law of `p0`'s kind holds for whatever the policy evicts after any well-formed history -/
def OrderLaw (p0 : Pol) : Prop :=
  ∀ (ops : List POp) (now : Nat) (pick : List Key) (k : Key),
    (runBoth p0 {} ops).2.wf = true →
    ((runBoth p0 {} ops).1.evict now pick).1 = some k →
    ∃ v, (runBoth p0 {} ops).2.rec? k = some v ∧ orderOk p0.kind (runBoth p0 {} ops).2 now pick v = true

/-- a simulation relation that holds initially, is preserved by well-formed calls and implies the
    order clause at an `evict` gives the order law -/
theorem orderLaw_of_rel (p0 : Pol) (R : Pol → SpecSt → Prop) (h0 : R p0 {})
    (hstep : ∀ p s op, R p s → (s.step op (p.step op).1).wf = true →
      R (p.step op).2 (s.step op (p.step op).1))
    (hev : ∀ p s now pick k, R p s → (p.evict now pick).1 = some k →
      ∃ v, s.rec? k = some v ∧ orderOk p0.kind s now pick v = true) : OrderLaw p0 := by
  intro ops now pick k hwf he
  exact hev _ _ now pick k (rel_run R hstep p0 {} ops h0 hwf) he

/-! ### FIFO -/

def FifoRel (p : Pol) (sp : SpecSt) : Prop :=
  SpecInv sp ∧ ∃ s, p = .fifo s ∧ s.order = sp.keys

theorem fifoRel_step (p : Pol) (s : SpecSt) (op : POp) (h : FifoRel p s)
    (hwf : (s.step op (p.step op).1).wf = true) :
    FifoRel (p.step op).2 (s.step op (p.step op).1) := by
  obtain ⟨hi, f, rfl, ho⟩ := h
  refine ⟨specInv_step _ _ _ hi hwf, ?_⟩
  cases op with
  | access k => exact ⟨f, rfl, by rw [step_keys_access]; exact ho⟩
  | insert k now =>
    have hh := wf_insert_not_has _ _ _ _ hwf
    have hk := not_mem_keys_of_not_has hh
    refine ⟨f.insert k, rfl, ?_⟩
    rw [step_keys_insert _ _ _ _ hh, FIFO.insert, if_neg (ho ▸ hk), ho]
  | remove k =>
    refine ⟨f.remove k, rfl, ?_⟩
    rw [step_keys_remove, FIFO.remove]
    simp only
    rw [ho, hi.nodup.erase_eq_filter]
  | evict now pick =>
    obtain ⟨l⟩ := f
    simp only at ho
    cases l with
    | nil =>
      refine ⟨⟨[]⟩, rfl, ?_⟩
      show [] = (s.step (.evict now pick) none).keys
      rw [step_keys_evict_none]; exact ho
    | cons a r =>
      refine ⟨⟨r⟩, rfl, ?_⟩
      show r = (s.step (.evict now pick) (some a)).keys
      rw [step_keys_evict_some, ← ho, filter_ne_head (ho ▸ hi.nodup)]
  | clear => exact ⟨{}, rfl, by simp [SpecSt.step, SpecSt.keys]⟩

theorem fifoRel_evict (p : Pol) (s : SpecSt) (now : Nat) (pick : List Key) (k : Key)
    (h : FifoRel p s) (he : (p.evict now pick).1 = some k) :
    ∃ v, s.rec? k = some v ∧ orderOk .fifo s now pick v = true := by
  obtain ⟨hi, ⟨l⟩, rfl, ho⟩ := h
  obtain ⟨held, tick, wf⟩ := s
  simp only [SpecSt.keys] at ho
  simp only [Pol.evict, FIFO.evict] at he
  cases held with
  | nil => subst ho; simp at he
  | cons v rest =>
    simp only [List.map_cons] at ho; subst ho
    simp only [Option.some.injEq] at he; subst he
    refine ⟨v, by simp [SpecSt.rec?], ?_⟩
    simp only [orderOk, List.all_eq_true, decide_eq_true_eq]
    intro r hr
    rcases List.mem_cons.mp hr with rfl | hr'
    · exact Nat.le_refl _
    · exact Nat.le_of_lt ((List.pairwise_cons.mp hi.sorted).1 r hr')

/-- FIFO evicts the key inserted earliest -/
theorem fifo_evicts_oldest : OrderLaw (.fifo {}) :=
  orderLaw_of_rel _ FifoRel ⟨specInv_init, {}, rfl, rfl⟩ fifoRel_step fifoRel_evict

/-- LRU evicts the key whose last insert/access is oldest -/
theorem lru_evicts_least_recent : OrderLaw (.lru {}) :=
  orderLaw_of_rel _ LruRel lruRel_init lruRel_step lruRel_evict

/-! ### LFU -/

def LfuRel (p : Pol) (sp : SpecSt) : Prop :=
  SpecInv sp ∧ ∃ s, p = .lfu s ∧ s.counts = sp.held.map (fun r => (r.key, r.cnt))

theorem lfuRel_step (p : Pol) (s : SpecSt) (op : POp) (h : LfuRel p s)
    (hwf : (s.step op (p.step op).1).wf = true) :
    LfuRel (p.step op).2 (s.step op (p.step op).1) := by
  obtain ⟨hi, ⟨c⟩, rfl, ho⟩ := h
  simp only at ho
  refine ⟨specInv_step _ _ _ hi hwf, ?_⟩
  cases op with
  | access k =>
    refine ⟨_, rfl, ?_⟩
    simp only [Pol.step, Pol.access, LFU.access, step_access]
    rw [ho, aget?_proj]
    cases hf : s.held.find? (fun r => r.key == k) with
    | none =>
      have hk : k ∉ s.held.map (·.key) := by
        intro hm
        obtain ⟨r, hr, e⟩ := List.mem_map.mp hm
        have := List.find?_eq_none.mp hf r hr
        simp [e] at this
      simp only [Option.map_none]
      rw [map_touch_not_mem hk]
    | some r0 =>
      have hr0 := List.mem_of_find?_eq_some hf
      have hk0 : r0.key = k := by simpa using List.find?_some hf
      have hk : k ∈ akeys (s.held.map (fun r => (r.key, r.cnt))) := by
        rw [akeys_proj]; exact hk0 ▸ List.mem_map.mpr ⟨r0, hr0, rfl⟩
      simp only [Option.map_some, aset, hk, if_true, List.map_map]
      apply List.map_congr_left
      intro r hr
      simp only [Function.comp]
      by_cases e : r.key = k
      · have : r = r0 := rec_unique hi.nodup hr hr0 (e.trans hk0.symm)
        subst this
        simp [e, touch_cnt_of_eq e]
      · simp [e, touch_of_ne e]
  | insert k now =>
    have hh := wf_insert_not_has _ _ _ _ hwf
    have hk := not_mem_keys_of_not_has hh
    refine ⟨_, rfl, ?_⟩
    have hk' : k ∉ akeys (s.held.map (fun r => (r.key, r.cnt))) := by rw [akeys_proj]; exact hk
    simp only [Pol.step, Pol.insert, LFU.insert, step_insert_wf _ _ _ _ hh]
    rw [ho]
    simp [aset, hk']
  | remove k =>
    refine ⟨_, rfl, ?_⟩
    simp only [Pol.step, Pol.remove, LFU.remove, step_remove]
    rw [ho, proj_filter]
  | evict now pick =>
    simp only [Pol.step, Pol.evict, LFU.evict]
    cases hm : argminFirst c with
    | none => exact ⟨_, rfl, by simp only [step_evict_none]; exact ho⟩
    | some q =>
      refine ⟨_, rfl, ?_⟩
      simp only [step_evict_some]
      rw [ho, proj_filter]
  | clear => exact ⟨{}, rfl, by simp [SpecSt.step]⟩

theorem lfuRel_evict (p : Pol) (s : SpecSt) (now : Nat) (pick : List Key) (k : Key)
    (h : LfuRel p s) (he : (p.evict now pick).1 = some k) :
    ∃ v, s.rec? k = some v ∧ orderOk .lfu s now pick v = true := by
  obtain ⟨hi, ⟨c⟩, rfl, ho⟩ := h
  simp only at ho
  simp only [Pol.evict, LFU.evict] at he
  cases hm : argminFirst c with
  | none => simp [hm] at he
  | some q =>
    simp only [hm, Option.some.injEq] at he; subst he
    have hq := argminFirst_mem _ _ hm
    have hle := argminFirst_le _ _ hm
    rw [ho] at hq hle
    obtain ⟨v, hv, rfl⟩ := List.mem_map.mp hq
    refine ⟨v, rec?_of_mem hi.nodup hv, ?_⟩
    simp only [orderOk, List.all_eq_true, decide_eq_true_eq]
    intro r hr
    exact hle (r.key, r.cnt) (List.mem_map.mpr ⟨r, hr, rfl⟩)

/-- LFU evicts a key with the fewest touches since its insertion -/
theorem lfu_evicts_least_frequent : OrderLaw (.lfu {}) :=
  orderLaw_of_rel _ LfuRel ⟨specInv_init, {}, rfl, rfl⟩ lfuRel_step lfuRel_evict

/-! ### TTL -/

def TtlRel (ttl : Nat) (p : Pol) (sp : SpecSt) : Prop :=
  SpecInv sp ∧ ∃ s, p = .ttl s ∧ s.ttl = ttl ∧ s.times = sp.held.map (fun r => (r.key, r.insNow))

theorem ttlRel_step (ttl : Nat) (p : Pol) (s : SpecSt) (op : POp) (h : TtlRel ttl p s)
    (hwf : (s.step op (p.step op).1).wf = true) :
    TtlRel ttl (p.step op).2 (s.step op (p.step op).1) := by
  obtain ⟨hi, ⟨t0, c⟩, rfl, ht, ho⟩ := h
  simp only at ho ht
  refine ⟨specInv_step _ _ _ hi hwf, ?_⟩
  cases op with
  | access k =>
    refine ⟨_, rfl, ht, ?_⟩
    simp only [Pol.step, Pol.access, step_access, List.map_map]
    rw [ho]
    apply List.map_congr_left
    intro r _
    simp
  | insert k now =>
    have hh := wf_insert_not_has _ _ _ _ hwf
    have hk := not_mem_keys_of_not_has hh
    refine ⟨_, rfl, ht, ?_⟩
    have hk' : k ∉ akeys (s.held.map (fun r => (r.key, r.insNow))) := by rw [akeys_proj]; exact hk
    simp only [Pol.step, Pol.insert, TTL.insert, step_insert_wf _ _ _ _ hh]
    rw [ho]
    simp [aset, hk']
  | remove k =>
    refine ⟨_, rfl, ht, ?_⟩
    simp only [Pol.step, Pol.remove, TTL.remove, step_remove]
    rw [ho, proj_filter]
  | evict now pick =>
    simp only [Pol.step, Pol.evict, TTL.evict]
    cases hm : TTL.victim ⟨t0, c⟩ now with
    | none => exact ⟨_, rfl, ht, by simp only [step_evict_none]; exact ho⟩
    | some q =>
      refine ⟨_, rfl, ht, ?_⟩
      simp only [step_evict_some]
      rw [ho, proj_filter]
  | clear => exact ⟨_, rfl, ht, by simp [SpecSt.step]⟩

theorem ttlRel_evict (ttl : Nat) (p : Pol) (s : SpecSt) (now : Nat) (pick : List Key) (k : Key)
    (h : TtlRel ttl p s) (he : (p.evict now pick).1 = some k) :
    ∃ v, s.rec? k = some v ∧ orderOk (.ttl ttl) s now pick v = true := by
  obtain ⟨hi, ⟨t0, c⟩, rfl, ht, ho⟩ := h
  simp only at ho ht
  subst ht
  simp only [Pol.evict, TTL.evict] at he
  cases hm : TTL.victim ⟨t0, c⟩ now with
  | none => simp [hm] at he
  | some q =>
    simp only [hm, Option.some.injEq] at he; subst he
    simp only [TTL.victim] at hm
    cases hf : c.find? (TTL.expired ⟨t0, c⟩ now) with
    | some q' =>
      simp only [hf, Option.some.injEq] at hm; subst hm
      have hq := List.mem_of_find?_eq_some hf
      have hx : q'.2 + t0 ≤ now := by simpa [TTL.expired] using List.find?_some hf
      rw [ho] at hq
      obtain ⟨v, hv, rfl⟩ := List.mem_map.mp hq
      refine ⟨v, rec?_of_mem hi.nodup hv, ?_⟩
      have hany : (s.held.any fun r => decide (r.insNow + t0 ≤ now)) = true :=
        List.any_eq_true.mpr ⟨v, hv, by simpa using hx⟩
      simp only [orderOk, hany, if_true, decide_eq_true_eq]
      exact hx
    | none =>
      simp only [hf] at hm
      have hq := argminFirst_mem _ _ hm
      have hle := argminFirst_le _ _ hm
      have hnone := List.find?_eq_none.mp hf
      rw [ho] at hq hle hnone
      obtain ⟨v, hv, rfl⟩ := List.mem_map.mp hq
      refine ⟨v, rec?_of_mem hi.nodup hv, ?_⟩
      have hany : (s.held.any fun r => decide (r.insNow + t0 ≤ now)) = false := by
        rw [Bool.eq_false_iff]
        intro hc
        obtain ⟨r, hr, hx⟩ := List.any_eq_true.mp hc
        have := hnone (r.key, r.insNow) (List.mem_map.mpr ⟨r, hr, rfl⟩)
        simp [TTL.expired] at this hx
        omega
      simp only [orderOk, hany, Bool.false_eq_true, if_false, List.all_eq_true, decide_eq_true_eq]
      intro r hr
      exact hle (r.key, r.insNow) (List.mem_map.mpr ⟨r, hr, rfl⟩)

/-- TTL evicts an expired key if there is one, else the key with the smallest insertion reading -/
theorem ttl_evicts_expired_or_oldest (ttl : Nat) : OrderLaw (.ttl { ttl := ttl }) :=
  orderLaw_of_rel _ (TtlRel ttl) ⟨specInv_init, _, rfl, rfl, rfl⟩ (ttlRel_step ttl) (ttlRel_evict ttl)

end HappyModel.C16
