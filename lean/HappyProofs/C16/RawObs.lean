import HappyModel.C16.StoreSpec
/-!
Read-after-write over every interleaving, part 1: the observed log.

`firstIdx` / `endIdx` (issue and completion of an operation as the Spec's judge computes them from
the log) under extension of the log by one observation; the two relations between writes the read
clause is made of (`CompletedBefore`, `NotFollowed`); the clause itself as a proposition
(`ReadGood`), its stability under extension of the log, and that it implies the judge's executable
`readOk` on `writesOf`.
-/
namespace HappyModel.C16

/-- the default observation used by the judge's `getD` -/
def dObs : Obs := ⟨0, [], [], [], none⟩

/-- key and value written by an operation (`none` value = delete) -/
def wkv : OpK → Option (Key × Option Nat)
  | .put k v => some (k, some v)
  | .del k => some (k, none)
  | _ => none

/-- key written by an operation -/
def wk (op : OpK) : Option Key := (wkv op).map (·.1)

theorem wk_of_wkv {op : OpK} {k : Key} {v : Option Nat} (h : wkv op = some (k, v)) : wk op = some k := by
  simp [wk, h]

/-! ### indices under `evs ++ [o]` -/

theorem findIdx?_snoc {α} (p : α → Bool) (l : List α) (x : α) :
    List.findIdx? p (l ++ [x]) =
      match List.findIdx? p l with
      | some s => some s
      | none => if p x then some l.length else none := by
  rw [List.findIdx?_append]
  cases h : List.findIdx? p l with
  | some s => rfl
  | none =>
    by_cases hp : p x = true
    · simp [List.findIdx?_cons, hp]
    · simp [List.findIdx?_cons, hp]

theorem findIdx?_lt {α} (p : α → Bool) (l : List α) (s : Nat) (h : List.findIdx? p l = some s) :
    s < l.length := by
  rw [List.findIdx?_eq_some_iff_getElem] at h
  exact h.1

theorem firstIdx_lt {evs : List Obs} {i s : Nat} (h : firstIdx evs i = some s) : s < evs.length :=
  findIdx?_lt _ _ _ h

theorem endIdx_lt {evs : List Obs} {i s : Nat} (h : endIdx evs i = some s) : s < evs.length :=
  findIdx?_lt _ _ _ h

theorem firstIdx_snoc_some {evs : List Obs} {i s : Nat} (o : Obs) (h : firstIdx evs i = some s) :
    firstIdx (evs ++ [o]) i = some s := by
  unfold firstIdx at h ⊢; rw [findIdx?_snoc, h]

theorem firstIdx_snoc_none {evs : List Obs} {i : Nat} (o : Obs) (h : firstIdx evs i = none) :
    firstIdx (evs ++ [o]) i = if o.i == i then some evs.length else none := by
  unfold firstIdx at h ⊢; rw [findIdx?_snoc, h]

theorem endIdx_snoc_some {evs : List Obs} {i s : Nat} (o : Obs) (h : endIdx evs i = some s) :
    endIdx (evs ++ [o]) i = some s := by
  unfold endIdx at h ⊢; rw [findIdx?_snoc, h]

theorem endIdx_snoc_none {evs : List Obs} {i : Nat} (o : Obs) (h : endIdx evs i = none) :
    endIdx (evs ++ [o]) i = if (o.i == i && o.res.isSome) then some evs.length else none := by
  unfold endIdx at h ⊢; rw [findIdx?_snoc, h]

/-- a completed operation was issued, no later than it completed -/
theorem firstIdx_of_endIdx {evs : List Obs} {i e : Nat} (h : endIdx evs i = some e) :
    ∃ s, firstIdx evs i = some s ∧ s ≤ e := by
  have := List.findIdx?_eq_some_le_of_findIdx?_eq_some (xs := evs)
    (p := fun o => o.i == i && o.res.isSome) (q := fun o => o.i == i)
    (by intro x _ hx; simp only [Bool.and_eq_true] at hx; exact hx.1) h
  obtain ⟨j, hj, hf⟩ := this
  exact ⟨j, hf, hj⟩

theorem firstIdx_snoc_isSome {evs : List Obs} {i : Nat} (o : Obs) (h : (firstIdx evs i).isSome) :
    firstIdx (evs ++ [o]) i = firstIdx evs i := by
  cases hs : firstIdx evs i with
  | none => rw [hs] at h; cases h
  | some s => exact firstIdx_snoc_some o hs

theorem firstIdx_snoc_self (evs : List Obs) (o : Obs) : (firstIdx (evs ++ [o]) o.i).isSome := by
  cases hs : firstIdx evs o.i with
  | some s => rw [firstIdx_snoc_some o hs]; rfl
  | none => rw [firstIdx_snoc_none o hs]; simp

/-! ### relations between operations -/

/-- operation `j` completed before log position `r` -/
def CompletedBefore (evs : List Obs) (j r : Nat) : Prop := ∃ e, endIdx evs j = some e ∧ e < r

/-- `j` does not entirely follow `i`: it was issued no later than `i` completed (if `i` has) -/
def NotFollowed (evs : List Obs) (i j : Nat) : Prop :=
  ∀ e' sj, endIdx evs i = some e' → firstIdx evs j = some sj → sj ≤ e'

theorem cb_snoc {evs : List Obs} (o : Obs) {j r : Nat} (hr : r ≤ evs.length) :
    CompletedBefore (evs ++ [o]) j r ↔ CompletedBefore evs j r := by
  constructor
  · rintro ⟨e, he, hlt⟩
    cases h : endIdx evs j with
    | some e0 =>
      rw [endIdx_snoc_some o h] at he
      have hee : e0 = e := Option.some.inj he
      exact ⟨e0, h, hee ▸ hlt⟩
    | none =>
      rw [endIdx_snoc_none o h] at he
      split at he
      · cases he; omega
      · cases he
  · rintro ⟨e, he, hlt⟩
    exact ⟨e, endIdx_snoc_some o he, hlt⟩

theorem nf_snoc {evs : List Obs} (o : Obs) {i j : Nat} (hj : (firstIdx evs j).isSome)
    (h : NotFollowed evs i j) : NotFollowed (evs ++ [o]) i j := by
  intro e' sj he hs
  rw [firstIdx_snoc_isSome o hj] at hs
  cases hi : endIdx evs i with
  | some e0 =>
    rw [endIdx_snoc_some o hi] at he
    have hee : e0 = e' := Option.some.inj he
    exact hee ▸ h e0 sj hi hs
  | none =>
    rw [endIdx_snoc_none o hi] at he
    split at he
    · cases he; exact Nat.le_of_lt (firstIdx_lt hs)
    · cases he

/-- an operation that has not completed is followed by nothing -/
theorem nf_of_running {evs : List Obs} {i : Nat} (j : Nat) (h : endIdx evs i = none) :
    NotFollowed evs i j := by
  intro e' sj he; rw [h] at he; cases he

/-! ### the read clause as a proposition -/

/-- a `get` of `k` issued at `rs` and completed at `re` may return `v` (`none` = nothing) -/
def ReadGood (ops : List (Nat × OpK)) (evs : List Obs) (k : Key) (rs re : Nat) (v : Option Nat) : Prop :=
  (∃ i op, (i, op) ∈ ops ∧ wkv op = some (k, v) ∧ (∃ s, firstIdx evs i = some s ∧ s < re) ∧
      ∀ j op', (j, op') ∈ ops → wk op' = some k → CompletedBefore evs j rs → NotFollowed evs i j) ∨
  (v = none ∧ ∀ j op', (j, op') ∈ ops → wk op' = some k → ¬ CompletedBefore evs j rs)

theorem readGood_snoc {ops : List (Nat × OpK)} {evs : List Obs} (o : Obs) {k : Key} {rs re : Nat}
    {v : Option Nat} (hr : rs ≤ evs.length) (h : ReadGood ops evs k rs re v) :
    ReadGood ops (evs ++ [o]) k rs re v := by
  rcases h with ⟨i, op, hm, hw, ⟨s, hs, hlt⟩, hall⟩ | ⟨hv, hall⟩
  · refine Or.inl ⟨i, op, hm, hw, ⟨s, firstIdx_snoc_some o hs, hlt⟩, ?_⟩
    intro j op' hj hk hcb
    have hcb' := (cb_snoc o hr).mp hcb
    obtain ⟨e, he, _⟩ := hcb'
    obtain ⟨sj, hsj, _⟩ := firstIdx_of_endIdx he
    exact nf_snoc o (by rw [hsj]; rfl) (hall j op' hj hk ⟨e, he, ‹_›⟩)
  · exact Or.inr ⟨hv, fun j op' hj hk hcb => hall j op' hj hk ((cb_snoc o hr).mp hcb)⟩

/-! ### … and the judge's executable version -/

theorem mem_writesOf {ops : List (Nat × OpK)} {evs : List Obs} {w : WRec} :
    w ∈ writesOf ops evs ↔
      ∃ i op s k v, (i, op) ∈ ops ∧ firstIdx evs i = some s ∧ wkv op = some (k, v) ∧
        w = ⟨k, v, s, endIdx evs i⟩ := by
  unfold writesOf
  rw [List.mem_filterMap]
  constructor
  · rintro ⟨⟨i, op⟩, hm, hf⟩
    cases hs : firstIdx evs i with
    | none => simp [hs] at hf
    | some s =>
      cases op <;> simp [hs] at hf
      case put k v => exact ⟨i, _, s, k, some v, hm, hs, rfl, hf.symm⟩
      case del k => exact ⟨i, _, s, k, none, hm, hs, rfl, hf.symm⟩
  · rintro ⟨i, op, s, k, v, hm, hs, hw, rfl⟩
    refine ⟨(i, op), hm, ?_⟩
    cases op <;> simp [wkv] at hw
    case put k' v' => obtain ⟨rfl, rfl⟩ := hw; simp [hs]
    case del k' => obtain ⟨rfl, rfl⟩ := hw; simp [hs]

theorem readOk_of_readGood {ops : List (Nat × OpK)} {evs : List Obs} {k : Key} {rs re : Nat}
    {v : Option Nat} (h : ReadGood ops evs k rs re v) : readOk (writesOf ops evs) k rs re v = true := by
  -- what membership in `before` means
  have hbefore : ∀ w, w ∈ ((writesOf ops evs).filter (·.key == k)).filter
      (fun w => match w.e with | some e => decide (e < rs) | none => false) →
      ∃ j op' sj, (j, op') ∈ ops ∧ wk op' = some k ∧ CompletedBefore evs j rs ∧
        firstIdx evs j = some sj ∧ w.s = sj := by
    intro w hw
    rw [List.mem_filter, List.mem_filter] at hw
    obtain ⟨⟨hw, hk⟩, he⟩ := hw
    obtain ⟨j, op', sj, k', v', hm, hs, hwk, rfl⟩ := mem_writesOf.mp hw
    simp only [beq_iff_eq] at hk
    subst hk
    refine ⟨j, op', sj, hm, wk_of_wkv hwk, ?_, hs, rfl⟩
    cases hej : endIdx evs j with
    | none => simp [hej] at he
    | some e => simp [hej] at he; exact ⟨e, hej, he⟩
  unfold readOk
  simp only [Bool.or_eq_true, Bool.and_eq_true]
  rcases h with ⟨i, op, hm, hw, ⟨s, hs, hlt⟩, hall⟩ | ⟨hv, hall⟩
  · right
    rw [List.any_eq_true]
    refine ⟨⟨k, v, s, endIdx evs i⟩, ?_, ?_⟩
    · rw [List.mem_filter]
      exact ⟨mem_writesOf.mpr ⟨i, op, s, k, v, hm, hs, hw, rfl⟩, by simp⟩
    · simp only [Bool.and_eq_true, beq_self_eq_true, decide_eq_true_eq, true_and, Bool.not_eq_true']
      refine ⟨hlt, ?_⟩
      rw [Bool.eq_false_iff]
      intro hany
      rw [List.any_eq_true] at hany
      obtain ⟨w, hwb, hf⟩ := hany
      obtain ⟨j, op', sj, hj, hk, hcb, hsj, hws⟩ := hbefore w hwb
      have hnf := hall j op' hj hk hcb
      unfold follows at hf
      cases hei : endIdx evs i with
      | none => simp [hei] at hf
      | some e' =>
        simp [hei] at hf
        have := hnf e' sj hei hsj
        omega
  · left
    subst hv
    refine ⟨rfl, ?_⟩
    rw [List.isEmpty_iff]
    apply List.eq_nil_iff_forall_not_mem.mpr
    intro w hwb
    obtain ⟨j, op', sj, hj, hk, hcb, _, _⟩ := hbefore w hwb
    exact hall j op' hj hk hcb

def resOf : Option Nat → Res
  | none => .none
  | some v => .val v

/-- every completed `get` is good ⇒ the judge accepts the log -/
theorem judgeReads_none {cfg : Cfg} {ops : List (Nat × OpK)} {evs : List Obs}
    (h : ∀ i k rs re, (i, OpK.get k) ∈ ops → firstIdx evs i = some rs → endIdx evs i = some re →
      ∃ v, (evs.getD re dObs).res = some (resOf v) ∧ ReadGood ops evs k rs re v) :
    judgeReads cfg ops evs = none := by
  unfold judgeReads
  rw [List.findSome?_eq_none_iff]
  rintro ⟨i, op⟩ hm
  cases op with
  | get k =>
    cases hs : firstIdx evs i with
    | none => simp only [hs]
    | some rs =>
      cases he : endIdx evs i with
      | none => simp only [hs, he]
      | some re =>
        simp only [hs, he]
        obtain ⟨v, hres, hg⟩ := h i k rs re hm hs he
        have hok := readOk_of_readGood hg
        have hres' : (evs.getD re ⟨0, [], [], [], none⟩).res = some (resOf v) := hres
        cases v with
        | none => simp only [hres', resOf, hok, if_true]
        | some x => simp only [hres', resOf, hok, if_true]
  | _ => simp
