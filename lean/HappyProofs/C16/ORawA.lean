import HappyProofs.C16.TRawA
/-!
Read-after-write with overlapping writes ordered (write-through stores), part 1: the clause as a
proposition (`ReadGoodO`), its stability under extension of the log, and that it implies the judge's
executable `readOkOrd`.
-/
namespace HappyModel.C16

/-- `j` is the later write of the two: issued after `i` and completed after `i` -/
def Sup (evs : List Obs) (j i : Nat) : Prop :=
  ∃ si sj ei ej, firstIdx evs i = some si ∧ firstIdx evs j = some sj ∧ endIdx evs i = some ei ∧
    endIdx evs j = some ej ∧ si < sj ∧ ei < ej

/-- `j` is not later than `i`: issued no later, or completed no later -/
def OkPair (evs : List Obs) (i j : Nat) : Prop :=
  (∃ si sj, firstIdx evs i = some si ∧ firstIdx evs j = some sj ∧ sj ≤ si) ∨
  (∃ ei ej, endIdx evs i = some ei ∧ endIdx evs j = some ej ∧ ej ≤ ei)

theorem OkPair.snoc {evs : List Obs} (o : Obs) {i j : Nat} (h : OkPair evs i j) : OkPair (evs ++ [o]) i j := by
  rcases h with ⟨si, sj, h1, h2, h3⟩ | ⟨ei, ej, h1, h2, h3⟩
  · exact Or.inl ⟨si, sj, firstIdx_snoc_some o h1, firstIdx_snoc_some o h2, h3⟩
  · exact Or.inr ⟨ei, ej, endIdx_snoc_some o h1, endIdx_snoc_some o h2, h3⟩

theorem OkPair.not_sup {evs : List Obs} {i j : Nat} (h : OkPair evs i j) : ¬ Sup evs j i := by
  rintro ⟨si, sj, ei, ej, a1, a2, a3, a4, a5, a6⟩
  rcases h with ⟨si', sj', h1, h2, h3⟩ | ⟨ei', ej', h1, h2, h3⟩
  · rw [a1] at h1; rw [a2] at h2; cases h1; cases h2; omega
  · rw [a3] at h1; rw [a4] at h2; cases h1; cases h2; omega

/-- a write completed before position `r ≤ |evs|` that does not supersede `i` now never will -/
theorem not_sup_snoc {evs : List Obs} (o : Obs) {i j r : Nat} (hr : r ≤ evs.length)
    (hc : CompletedBefore evs j r) (h : ¬ Sup evs j i) : ¬ Sup (evs ++ [o]) j i := by
  rintro ⟨si, sj, ei, ej, a1, a2, a3, a4, a5, a6⟩
  obtain ⟨ej0, hej, hlt⟩ := hc
  rw [endIdx_snoc_some o hej] at a4
  cases a4
  obtain ⟨sj0, hsj, _⟩ := firstIdx_of_endIdx hej
  rw [firstIdx_snoc_some o hsj] at a2
  cases a2
  cases hei : endIdx evs i with
  | some ei0 =>
    rw [endIdx_snoc_some o hei] at a3
    cases a3
    obtain ⟨si0, hsi, _⟩ := firstIdx_of_endIdx hei
    rw [firstIdx_snoc_some o hsi] at a1
    cases a1
    exact h ⟨_, _, _, _, hsi, hsj, hei, hej, a5, a6⟩
  | none =>
    rw [endIdx_snoc_none o hei] at a3
    split at a3
    · cases a3; omega
    · cases a3

def ReadGoodO (ops : List (Nat × OpK)) (evs : List Obs) (k : Key) (rs re : Nat) (v : Option Nat) : Prop :=
  (∃ i op, (i, op) ∈ ops ∧ wkv op = some (k, v) ∧ (∃ s, firstIdx evs i = some s ∧ s < re) ∧
      ∀ j op', (j, op') ∈ ops → wk op' = some k → CompletedBefore evs j rs → ¬ Sup evs j i) ∨
  (v = none ∧ ∀ j op', (j, op') ∈ ops → wk op' = some k → ¬ CompletedBefore evs j rs)

theorem readGoodO_snoc {ops : List (Nat × OpK)} {evs : List Obs} (o : Obs) {k : Key} {rs re : Nat}
    {v : Option Nat} (hr : rs ≤ evs.length) (h : ReadGoodO ops evs k rs re v) :
    ReadGoodO ops (evs ++ [o]) k rs re v := by
  rcases h with ⟨i, op, hm, hw, ⟨s, hs, hlt⟩, hall⟩ | ⟨hv, hall⟩
  · refine Or.inl ⟨i, op, hm, hw, ⟨s, firstIdx_snoc_some o hs, hlt⟩, ?_⟩
    intro j op' hj hk hcb
    have hcb' := (cb_snoc o hr).mp hcb
    exact not_sup_snoc o hr hcb' (hall j op' hj hk hcb')
  · exact Or.inr ⟨hv, fun j op' hj hk hcb => hall j op' hj hk ((cb_snoc o hr).mp hcb)⟩

theorem supersedes_iff {evs : List Obs} {i j si sj : Nat} {ki kj : Key} {vi vj : Option Nat} :
    supersedes ⟨kj, vj, sj, endIdx evs j⟩ ⟨ki, vi, si, endIdx evs i⟩ = true ↔
      si < sj ∧ ∃ ei ej, endIdx evs i = some ei ∧ endIdx evs j = some ej ∧ ei < ej := by
  unfold supersedes
  simp only [Bool.and_eq_true, decide_eq_true_eq]
  constructor
  · rintro ⟨h1, h2⟩
    refine ⟨h1, ?_⟩
    cases hi : endIdx evs i with
    | none => simp [hi] at h2
    | some ei =>
      cases hj : endIdx evs j with
      | none => simp [hi, hj] at h2
      | some ej => simp [hi, hj] at h2; exact ⟨ei, ej, rfl, rfl, h2⟩
  · rintro ⟨h1, ei, ej, hi, hj, h2⟩
    exact ⟨h1, by simp [hi, hj, h2]⟩

theorem readOkOrd_of_readGoodO {ops : List (Nat × OpK)} {evs : List Obs} {k : Key} {rs re : Nat}
    {v : Option Nat} (h : ReadGoodO ops evs k rs re v) : readOkOrd (writesOf ops evs) k rs re v = true := by
  have hbefore : ∀ w, w ∈ ((writesOf ops evs).filter (·.key == k)).filter
      (fun w => match w.e with | some e => decide (e < rs) | none => false) →
      ∃ j op' sj kj vj, (j, op') ∈ ops ∧ wk op' = some k ∧ CompletedBefore evs j rs ∧
        firstIdx evs j = some sj ∧ w = ⟨kj, vj, sj, endIdx evs j⟩ := by
    intro w hw
    rw [List.mem_filter, List.mem_filter] at hw
    obtain ⟨⟨hw, hk⟩, he⟩ := hw
    obtain ⟨j, op', sj, k', v', hm, hs, hwk, rfl⟩ := mem_writesOf.mp hw
    simp only [beq_iff_eq] at hk
    subst hk
    refine ⟨j, op', sj, k', v', hm, wk_of_wkv hwk, ?_, hs, rfl⟩
    cases hej : endIdx evs j with
    | none => simp [hej] at he
    | some e => simp [hej] at he; exact ⟨e, hej, he⟩
  unfold readOkOrd
  simp only [Bool.or_eq_true, Bool.and_eq_true]
  rcases h with ⟨i, op, hm, hw, ⟨s, hs, hlt⟩, hall⟩ | ⟨hv, hall⟩
  · right
    rw [List.any_eq_true]
    refine ⟨⟨k, v, s, endIdx evs i⟩, ?_, ?_⟩
    · rw [List.mem_filter]
      exact ⟨mem_writesOf.mpr ⟨i, op, s, k, v, hm, hs, hw, rfl⟩, by simp⟩
    · simp only [Bool.and_eq_true, beq_self_eq_true, decide_eq_true_eq, true_and, Bool.not_eq_true']
      refine ⟨hlt, ?_⟩
      rw [Bool.eq_false_iff]
      intro hany
      rw [List.any_eq_true] at hany
      obtain ⟨w, hwb, hf⟩ := hany
      obtain ⟨j, op', sj, kj, vj, hj, hk, hcb, hsj, rfl⟩ := hbefore w hwb
      obtain ⟨h1, ei, ej, hi, hj', h2⟩ := supersedes_iff.mp hf
      exact hall j op' hj hk hcb ⟨s, sj, ei, ej, hs, hsj, hi, hj', h1, h2⟩
  · left
    subst hv
    refine ⟨rfl, ?_⟩
    rw [List.isEmpty_iff]
    apply List.eq_nil_iff_forall_not_mem.mpr
    intro w hwb
    obtain ⟨j, op', sj, kj, vj, hj, hk, hcb, _, _⟩ := hbefore w hwb
    exact hall j op' hj hk hcb

/-- every completed `get` is good ⇒ the judge's ordered clause accepts the log -/
theorem judgeReadsOrd_none {cfg : Cfg} {ops : List (Nat × OpK)} {evs : List Obs}
    (h : ∀ i k rs re, (i, OpK.get k) ∈ ops → firstIdx evs i = some rs → endIdx evs i = some re →
      ∃ v, (evs.getD re dObs).res = some (resOf v) ∧ ReadGoodO ops evs k rs re v) :
    judgeReadsOrd cfg ops evs = none := by
  unfold judgeReadsOrd
  simp only
  rw [List.findSome?_eq_none_iff]
  rintro ⟨i, op⟩ hm
  cases op with
  | get k =>
    cases hs : firstIdx evs i with
    | none => simp only
    | some rs =>
      cases he : endIdx evs i with
      | none => simp only
      | some re =>
        simp only
        obtain ⟨v, hres, hg⟩ := h i k rs re hm hs he
        have hok := readOkOrd_of_readGoodO hg
        have hres' : (evs.getD re ⟨0, [], [], [], none⟩).res = some (resOf v) := hres
        cases v with
        | none => simp only [hres', resOf, hok, if_true]
        | some x => simp only [hres', resOf, hok, if_true]
  | _ => simp

end HappyModel.C16
