import HappyProofs.C16.SoftTtlReturn
import HappyProofs.C16.PageTrace2
/-!
# C16 — property theorems of the final deepening round (imported by `Props.lean`)

* `soft_ttl_age_at_return` — `soft_ttl_age_le_hard` at the instant the caller gets the value;
* `pagecache_trace_write_leaves_page_dirty`, `pagecache_dirty_subset_mayDirty`,
  `pagecache_write_not_mayDirty_dirties` — the per-page write-back clause of the Spec judge
  (`PageSpec.jstep`, `mayDirty`) along every schedule.
-/
namespace HappyModel.C16

/-- the reports of `tRunT` are those of `tRun` (the same run, with the two clock readings added) -/
theorem tRunT_results (cfg : TCfg) : ∀ (as : List TAct) (s : TSt) (st : List (Nat × Nat)),
    (tRunT cfg s st as).map (·.1) = (tRun cfg s as).2 := by
  intro as
  induction as with
  | nil => intro s st; rfl
  | cons a as ih =>
    intro s st
    simp only [tRunT, tRun, List.map_append, ih]
    cases (tStep cfg s a).2 <;> rfl

/-- **`soft_ttl_age_le_hard` at return time** (repaired variant, `soft_ttl ≤ hard_ttl`, every schedule
    with distinct operation ids, every clock reading): a value served from an entry cached at `cat`,
    by an operation whose first segment ran at `ts` and whose returning segment ran at `tr`, reaches
    the caller with `tr - cat < hard_ttl + (tr - ts)`: older than the hard TTL by no more than the time
    the operation itself took — `cache_read_latency` for a hit, nothing for a coalesced request (it
    decides in its returning segment). -/
theorem soft_ttl_age_at_return (cfg : TCfg) (hrep : cfg.rep = true) (hsh : cfg.soft ≤ cfg.hard)
    (as : List TAct) (hnd : (tStartIds as).Nodup) (v cat iss ts tr : Nat)
    (hm : (TRes.served v cat iss, ts, tr) ∈ tRunT cfg {} [] as) :
    tr < cat + cfg.hard + (tr - ts) := by
  have := tRunT_ok cfg hrep hsh as {} [] (by intro i v cat iss hm; cases hm) (by simpa using hnd) v cat iss ts tr hm
  omega

/-- … so with every operation returning within `d` of its first segment (the engine resumes a hit
    exactly `cache_read_latency` later), the age at return is below `hard_ttl + d` -/
theorem soft_ttl_age_at_return_within (cfg : TCfg) (hrep : cfg.rep = true) (hsh : cfg.soft ≤ cfg.hard)
    (as : List TAct) (hnd : (tStartIds as).Nodup) (d : Nat) (v cat iss ts tr : Nat)
    (hm : (TRes.served v cat iss, ts, tr) ∈ tRunT cfg {} [] as) (hd : tr ≤ ts + d) :
    tr < cat + cfg.hard + d := by
  have := soft_ttl_age_at_return cfg hrep hsh as hnd v cat iss ts tr hm
  omega

/-- non-vacuity: soft 10, hard 20; the entry is cached at 6; a stale hit issued at 25 returns at 26:
    served (7, cached 6, decided 25), first segment 25, returned 26 — age 20 at return, `< 20 + 1` -/
example :
    (tRunT ⟨10, 20, none, true⟩ {} [] [.start 0 (.bput 0 7) 0, .start 1 (.get 0) 1, .resume 1 6,
      .start 3 (.get 0) 25, .resume 3 26]) =
      [(.done, 0, 0), (.fetched 7, 1, 6), (.served 7 6 25, 25, 26)] := by decide

namespace Page

/-- **the judge's `mayDirty` list over-approximates the dirty pages** along every schedule of the
    repaired model: a page is dirty only if a `write_page` of it has returned since the cache last
    held no dirty page -/
theorem pagecache_dirty_subset_mayDirty (cap ra : Nat) (acts : List Act) :
    ∀ q ∈ (run ⟨cap, ra, true⟩ {} acts).pages, q.dirty = true → q.id ∈ mdRun ⟨cap, ra, true⟩ {} [] acts :=
  md_run ⟨cap, ra, true⟩ rfl acts {} [] (by intro q hq; cases hq)

/-- **per-page write-back clause, run level**: after any schedule `pre`, a segment in which a
    `write_page(p)` returns with `p` outside the `mayDirty` list dirties a page (the ghost count of
    dirtied pages, which `pagecache_dirtied_eq_writtenback_plus_dirty` equates with
    `dirty_writebacks + dirty_pages + victims in write-back`, grows by one) and leaves `p` dirty -/
theorem pagecache_write_not_mayDirty_dirties (cap ra : Nat) (pre : List Act) (a : Act) (p : Nat)
    (hw : WriteSeg (run ⟨cap, ra, true⟩ {} pre) a p)
    (hok : (step ⟨cap, ra, true⟩ (run ⟨cap, ra, true⟩ {} pre) a).2 = some .ok)
    (hp : p ∉ mdRun ⟨cap, ra, true⟩ {} [] pre) :
    (run ⟨cap, ra, true⟩ {} (pre ++ [a])).made = (run ⟨cap, ra, true⟩ {} pre).made + 1 ∧
      DirtyIn (run ⟨cap, ra, true⟩ {} (pre ++ [a])).pages p := by
  refine ⟨?_, pagecache_trace_write_leaves_page_dirty _ pre a p hw hok⟩
  rw [run_snoc]
  exact step_write_made _ rfl _ a p _ hw hok (md_run _ rfl pre {} [] (by intro q hq; cases hq)) hp

/-- non-vacuity (the schedule of the seeded review change): `write_page(7)` stalls on a dirty victim,
    `read_page(7)` loads 7 clean meanwhile; 7 is not in `mayDirty` (only page 1 was written), the
    write's returning segment is a `WriteSeg`, returns, and `made` goes from 1 to 2 -/
example :
    let cfg : Cfg := ⟨2, 0, true⟩
    let pre := [Act.start 0 (.write 1), .start 1 (.read 2), .resume 1, .start 2 (.write 7), .start 3 (.read 7), .resume 3]
    mdRun cfg {} [] pre = [] ∧ findPend (run cfg {} pre).pend 2 = some (.evict 1 (.write 7)) ∧
    (step cfg (run cfg {} pre) (.resume 2)).2 = some .ok ∧
    (run cfg {} pre).made = 1 ∧ (run cfg {} (pre ++ [.resume 2])).made = 2 := by decide

end Page
end HappyModel.C16
