import HappyProofs.C16.TRawJ
/-!
Multi-tier read-after-write over every interleaving, part 11: the multi-tier judge's read clause
accepts the observed log of every schedule (`mraw_judge`).
-/
namespace HappyModel.C16.Tier
open HappyModel.C16

/-- the operation table as the register clauses see it -/
def opsK (ops : List (Nat × MOp)) : List (Nat × OpK) := ops.map fun (i, o) => (i, o.toOpK)

theorem opsK_ids (ops : List (Nat × MOp)) : (opsK ops).map (·.1) = ops.map (·.1) := by
  unfold opsK
  rw [List.map_map]
  apply List.map_congr_left
  rintro ⟨i, o⟩ _; rfl

theorem mem_opsK {ops : List (Nat × MOp)} {i : Nat} {op : MOp} (h : (i, op) ∈ ops) : (i, op.toOpK) ∈ opsK ops :=
  List.mem_map.mpr ⟨(i, op), h, rfl⟩

/-- every completed `get` is good ⇒ the multi-tier judge accepts the log -/
theorem tier_judgeReads_none {ops : List (Nat × MOp)} {evs : List MObs}
    (h : ∀ i k rs re, (i, OpK.get k) ∈ opsK ops → firstIdx (evs.map MObs.toObs) i = some rs →
      endIdx (evs.map MObs.toObs) i = some re →
      ∃ v, ((evs.map MObs.toObs).getD re dObs).res = some (resOf v) ∧
        ReadGood (opsK ops) (evs.map MObs.toObs) k rs re v) :
    Tier.judgeReads ops evs = none := by
  unfold Tier.judgeReads
  rw [List.findSome?_eq_none_iff]
  rintro ⟨i, op⟩ hm
  cases op with
  | get k =>
    have hm' : (i, OpK.get k) ∈ opsK ops := mem_opsK hm
    cases hs : firstIdx (evs.map MObs.toObs) i with
    | none => simp only [hs]
    | some rs =>
      cases he : endIdx (evs.map MObs.toObs) i with
      | none => simp only [hs, he]
      | some re =>
        simp only [hs, he]
        obtain ⟨v, hres, hg⟩ := h i k rs re hm' hs he
        have hok : readOk (writesOf (opsK ops) (evs.map MObs.toObs)) k rs re v = true := readOk_of_readGood hg
        have hres' : ((evs.map MObs.toObs).getD re ⟨0, [], [], [], none⟩).res = some (resOf v) := hres
        have hok' : readOk (writesOf (List.map (fun x => match x with | (i, o) => (i, o.toOpK)) ops)
            (evs.map MObs.toObs)) k rs re v = true := hok
        cases v with
        | none => simp only [hres', resOf, hok', if_true]
        | some x => simp only [hres', resOf, hok', if_true]
  | _ => simp

/-- **multi-tier read after write, every interleaving** -/
theorem mraw_judge (cfg : MCfg) (hrep : cfg.rep = true) (hc : SeqCfg cfg) (pols : List Pol)
    (hlen : pols.length = cfg.tiers.length) (ops : List (Nat × MOp)) (hnd : (ops.map (·.1)).Nodup)
    (as : List MAct) (htab : ∀ i op now, MAct.start i op now ∈ as → (i, op) ∈ ops)
    (hst : (mstartIds as).Nodup) (evs : List MObs)
    (hevs : evs.map MObs.toObs = mobsRunG cfg (MSt.init pols) as) :
    Tier.judgeReads ops evs = none := by
  have hnd' : ((opsK ops).map (·.1)).Nodup := by rw [opsK_ids]; exact hnd
  have hl : MLen cfg (MSt.init pols) := by
    show (pols.map fun p => ({ pol := p } : St)).length = _
    rw [List.length_map]; exact hlen
  obtain ⟨g', h1, h2, h3⟩ := mraw_run cfg hrep hc as ⟨opsK ops, [], []⟩ (MSt.init pols)
    (minv_init (opsK ops) hnd' pols) hl
    ⟨hst, (fun i _ hi => by cases hi), (fun i op now hm => mem_opsK (htab i op now hm))⟩
  simp only [List.nil_append] at h1 h2
  apply tier_judgeReads_none
  rw [hevs, ← h2, ← h1]
  exact h3.gi.d

end HappyModel.C16.Tier
