import HappyModel.C16.Store
/-!
Helper lemmas for `StoreWB.lean`: lookups in association lists after `aset` / `adel`, membership in
`setDel` / `setAdd`, and what `writeBack`, `writeBackAll`, `flushNext` and the bookkeeping updates
leave unchanged.
-/
namespace HappyModel.C16

/-! ### association lists and sets -/

theorem wb_aget?_cons {α} (p : Key × α) (t : List (Key × α)) (k : Key) :
    aget? (p :: t) k = if p.1 = k then some p.2 else aget? t k := by
  by_cases h : p.1 = k
  · simp [aget?, h]
  · have hb : (p.1 == k) = false := by simp [h]
    simp [aget?, hb, h]

theorem wb_aget?_map_self {α} (l : List (Key × α)) (k : Key) (v : α) (h : k ∈ akeys l) :
    aget? (l.map (fun p => if p.1 = k then (k, v) else p)) k = some v := by
  induction l with
  | nil => simp [akeys] at h
  | cons p t ih =>
    rw [List.map_cons, wb_aget?_cons]
    by_cases hp : p.1 = k
    · simp [hp]
    · have hk : k ∈ akeys t := by
        simp only [akeys, List.map_cons, List.mem_cons] at h
        rcases h with h | h
        · exact absurd h.symm hp
        · exact h
      simp [hp, ih hk]

theorem wb_aget?_map_other {α} (l : List (Key × α)) (k k' : Key) (v : α) (h : k' ≠ k) :
    aget? (l.map (fun p => if p.1 = k then (k, v) else p)) k' = aget? l k' := by
  induction l with
  | nil => rfl
  | cons p t ih =>
    rw [List.map_cons, wb_aget?_cons, wb_aget?_cons, ih]
    by_cases hp : p.1 = k
    · have : ¬ k = k' := fun e => h e.symm
      have hp' : ¬ p.1 = k' := fun e => h (e.symm.trans hp)
      simp [hp, this]
    · simp [hp]

theorem wb_aget?_append {α} (l : List (Key × α)) (k k' : Key) (v : α) :
    aget? (l ++ [(k, v)]) k' = if k' ∈ akeys l then aget? l k' else if k = k' then some v else none := by
  induction l with
  | nil => simp [akeys, aget?]
  | cons p t ih =>
    rw [List.cons_append, wb_aget?_cons, wb_aget?_cons, ih]
    by_cases hp : p.1 = k'
    · simp [hp, akeys]
    · have e : k' ∈ akeys (p :: t) ↔ k' ∈ akeys t := by
        simp only [akeys, List.map_cons, List.mem_cons]
        exact ⟨fun h => h.elim (fun e => absurd e.symm hp) id, Or.inr⟩
      simp only [e, if_neg hp]

theorem wb_aget?_aset_self {α} (l : List (Key × α)) (k : Key) (v : α) :
    aget? (aset l k v) k = some v := by
  unfold aset
  by_cases h : k ∈ akeys l
  · rw [if_pos h]; exact wb_aget?_map_self l k v h
  · rw [if_neg h, wb_aget?_append]; simp [h]

theorem wb_aget?_aset_other {α} (l : List (Key × α)) (k k' : Key) (v : α) (h : k' ≠ k) :
    aget? (aset l k v) k' = aget? l k' := by
  unfold aset
  by_cases hk : k ∈ akeys l
  · rw [if_pos hk]; exact wb_aget?_map_other l k k' v h
  · rw [if_neg hk, wb_aget?_append]
    by_cases hk' : k' ∈ akeys l
    · simp [hk']
    · have : ¬ k = k' := fun e => h e.symm
      have hn : aget? l k' = none := by
        simp only [aget?, Option.map_eq_none_iff, List.find?_eq_none, beq_iff_eq]
        intro p hp e; exact hk' (by simp only [akeys, List.mem_map]; exact ⟨p, hp, e⟩)
      simp [hk', this, hn]

theorem wb_aget?_adel_other {α} (l : List (Key × α)) (k k' : Key) (h : k' ≠ k) :
    aget? (adel l k) k' = aget? l k' := by
  induction l with
  | nil => rfl
  | cons p t ih =>
    by_cases hp : p.1 = k
    · have e : adel (p :: t) k = adel t k := by simp [adel, hp]
      have hp' : ¬ p.1 = k' := fun e => h (e.symm.trans hp)
      rw [e, ih, wb_aget?_cons, if_neg hp']
    · have e : adel (p :: t) k = p :: adel t k := by simp [adel, hp]
      rw [e, wb_aget?_cons, wb_aget?_cons, ih]

theorem wb_mem_setDel (l : List Key) (k x : Key) : x ∈ setDel l k ↔ x ∈ l ∧ x ≠ k := by
  simp [setDel]

theorem wb_mem_setAdd (l : List Key) (k x : Key) (h : x ∈ l) : x ∈ setAdd l k := by
  unfold setAdd; split
  · exact h
  · exact List.mem_append_left _ h

/-! ### frame lemmas -/

@[simp] theorem wb_writeBack_cache (s : St) (k : Key) : (s.writeBack k).cache = s.cache := by
  unfold St.writeBack; split
  · split <;> rfl
  · rfl
@[simp] theorem wb_writeBack_pend (s : St) (k : Key) : (s.writeBack k).pend = s.pend := by
  unfold St.writeBack; split
  · split <;> rfl
  · rfl
@[simp] theorem wb_bump_dirty (cfg : Cfg) (s : St) (k : Key) : (s.bump cfg k).dirty = s.dirty := by
  unfold St.bump; split <;> rfl
@[simp] theorem wb_bump_cache (cfg : Cfg) (s : St) (k : Key) : (s.bump cfg k).cache = s.cache := by
  unfold St.bump; split <;> rfl
@[simp] theorem wb_bump_pend (cfg : Cfg) (s : St) (k : Key) : (s.bump cfg k).pend = s.pend := by
  unfold St.bump; split <;> rfl
@[simp] theorem wb_inflInc_dirty (cfg : Cfg) (s : St) (k : Key) : (s.inflInc cfg k).dirty = s.dirty := by
  unfold St.inflInc; split <;> rfl
@[simp] theorem wb_inflInc_back (cfg : Cfg) (s : St) (k : Key) : (s.inflInc cfg k).back = s.back := by
  unfold St.inflInc; split <;> rfl
@[simp] theorem wb_inflInc_pend (cfg : Cfg) (s : St) (k : Key) : (s.inflInc cfg k).pend = s.pend := by
  unfold St.inflInc; split <;> rfl
@[simp] theorem wb_inflDec_dirty (cfg : Cfg) (s : St) (k : Key) : (s.inflDec cfg k).dirty = s.dirty := by
  unfold St.inflDec; split <;> rfl
@[simp] theorem wb_inflDec_pend (cfg : Cfg) (s : St) (k : Key) : (s.inflDec cfg k).pend = s.pend := by
  unfold St.inflDec; split <;> rfl
@[simp] theorem wb_setPend_dirty (s : St) (i : Nat) (p : Pend) : (s.setPend i p).dirty = s.dirty := rfl
@[simp] theorem wb_setPend_back (s : St) (i : Nat) (p : Pend) : (s.setPend i p).back = s.back := rfl
@[simp] theorem wb_cacheRemove_dirty (s : St) (k : Key) : (cacheRemove s k).dirty = setDel s.dirty k := rfl
@[simp] theorem wb_cacheRemove_back (s : St) (k : Key) : (cacheRemove s k).back = s.back := rfl
@[simp] theorem wb_cacheRemove_pend (s : St) (k : Key) : (cacheRemove s k).pend = s.pend := rfl

theorem wb_writeBack_dirty_sub (s : St) (k x : Key) (h : x ∈ (s.writeBack k).dirty) : x ∈ s.dirty := by
  unfold St.writeBack at h; split at h
  · split at h
    · exact ((wb_mem_setDel _ _ _).mp h).1
    · exact h
  · exact h

theorem wb_writeBack_dirty_keep (s : St) (k x : Key) (h : x ∈ s.dirty) (hx : x ≠ k) :
    x ∈ (s.writeBack k).dirty := by
  unfold St.writeBack; split
  · split
    · exact (wb_mem_setDel _ _ _).mpr ⟨h, hx⟩
    · exact h
  · exact h

theorem wb_writeBack_self (s : St) (k : Key) (v : Nat) (hd : k ∈ s.dirty) (hc : aget? s.cache k = some v) :
    aget? (s.writeBack k).back k = some v := by
  unfold St.writeBack; rw [hc]; simp only [if_pos hd]
  exact wb_aget?_aset_self _ _ _

theorem wb_writeBack_self_clean (s : St) (k : Key) (v : Nat) (hc : aget? s.cache k = some v) :
    k ∉ (s.writeBack k).dirty := by
  unfold St.writeBack; rw [hc]; simp only []
  split
  · intro h; exact ((wb_mem_setDel _ _ _).mp h).2 rfl
  · assumption

theorem wb_writeBack_back_other (s : St) (k x : Key) (h : x ≠ k ∨ x ∉ s.dirty) :
    aget? (s.writeBack k).back x = aget? s.back x := by
  unfold St.writeBack; split
  · split
    · rename_i hd
      have hx : x ≠ k := by
        rcases h with h | h
        · exact h
        · intro e; exact h (e ▸ hd)
      exact wb_aget?_aset_other _ _ _ _ hx
    · rfl
  · rfl

theorem wb_writeBackAll_pend (s : St) (l : List Key) : (s.writeBackAll l).pend = s.pend := by
  induction l generalizing s with
  | nil => rfl
  | cons k ks ih => simp [St.writeBackAll, ih]

theorem wb_writeBackAll_miss (s : St) (l : List Key) (x : Key) (h : x ∉ s.dirty) :
    aget? (s.writeBackAll l).back x = aget? s.back x := by
  induction l generalizing s with
  | nil => rfl
  | cons d ds ih =>
    show aget? ((s.writeBack d).writeBackAll ds).back x = _
    rw [ih (s.writeBack d) (fun hx => h (wb_writeBack_dirty_sub s d x hx))]
    exact wb_writeBack_back_other s d x (Or.inr h)

theorem wb_writeBackAll_hit (s : St) (l : List Key) (x : Key) (v : Nat) (hd : x ∈ s.dirty)
    (hc : aget? s.cache x = some v) (hl : x ∈ l) : aget? (s.writeBackAll l).back x = some v := by
  induction l generalizing s with
  | nil => simp at hl
  | cons d ds ih =>
    show aget? ((s.writeBack d).writeBackAll ds).back x = _
    by_cases e : x = d
    · subst e
      rw [wb_writeBackAll_miss _ _ _ (wb_writeBack_self_clean s x v hc)]
      exact wb_writeBack_self s x v hd hc
    · have hl' : x ∈ ds := by
        rcases List.mem_cons.mp hl with h | h
        · exact absurd h e
        · exact h
      exact ih (s.writeBack d) (wb_writeBack_dirty_keep s d x hd e) (by rw [wb_writeBack_cache]; exact hc) hl'

theorem wb_flushNext (cfg : Cfg) (s : St) (i : Nat) (l : List Key) (n : Nat) :
    (flushNext cfg s i l n).1.dirty = s.dirty ∧ (flushNext cfg s i l n).1.back = s.back := by
  induction l generalizing n with
  | nil => exact ⟨rfl, rfl⟩
  | cons k rest ih =>
    unfold flushNext
    split
    · split
      · exact ⟨rfl, rfl⟩
      · exact ih n
    · split
      · exact ⟨rfl, rfl⟩
      · exact ih n

end HappyModel.C16
