import HappyProofs.C16.StoreInv
import HappyProofs.C16.StoreWBA
/-!
Helper lemmas for `StoreSeq.lean`: the data part `QD` of the refinement link between the cache,
the dirty set, the backing store and the abstract map, and how every building block of the model
(`writeBack`, `evictOne`, `evictLoop`, `cachePut`, `cacheRemove`, bookkeeping updates) acts on it.
-/
namespace HappyModel.C16

/-! ### association lists -/

theorem sq_aget?_adel_self {α} (l : List (Key × α)) (k : Key) : aget? (adel l k) k = none := by
  rw [aget?_none_iff, mem_akeys_adel]
  exact fun h => h.2 rfl

theorem sq_mem_akeys_of_some {α} (l : List (Key × α)) (k : Key) (v : α) (h : aget? l k = some v) :
    k ∈ akeys l := by
  apply Classical.byContradiction
  intro hn
  rw [(aget?_none_iff l k).mpr hn] at h
  cases h

theorem sq_some_of_mem_akeys {α} (l : List (Key × α)) (k : Key) (h : k ∈ akeys l) :
    ∃ v, aget? l k = some v := by
  cases hv : aget? l k with
  | none => exact absurd h ((aget?_none_iff l k).mp hv)
  | some v => exact ⟨v, rfl⟩

theorem sq_mem_akeys_aset {α} (l : List (Key × α)) (k x : Key) (v : α) :
    x ∈ akeys (aset l k v) ↔ x = k ∨ x ∈ akeys l := by
  by_cases hk : k ∈ akeys l
  · rw [akeys_aset_mem _ _ _ hk]
    constructor
    · exact Or.inr
    · rintro (h | h)
      · exact h ▸ hk
      · exact h
  · rw [akeys_aset_not_mem _ _ _ hk, List.mem_append, List.mem_singleton]
    constructor
    · rintro (h | h)
      · exact Or.inr h
      · exact Or.inl h
    · rintro (h | h)
      · exact Or.inr h
      · exact Or.inl h

theorem sq_cnt_nil (k : Key) : cnt [] k = 0 := rfl

theorem sq_cnt_aset_self (l : List (Key × Nat)) (k v : Nat) : cnt (aset l k v) k = v := by
  simp [cnt, wb_aget?_aset_self]

theorem sq_cnt_aset_other (l : List (Key × Nat)) (k x v : Nat) (h : x ≠ k) : cnt (aset l k v) x = cnt l x := by
  simp [cnt, wb_aget?_aset_other _ _ _ _ h]

/-! ### the data part of the link -/

/-- cache `c`, dirty set `d` and backing store `b` implement the map `M` -/
structure QD (M c : List (Key × Nat)) (d : List Key) (b : List (Key × Nat)) : Prop where
  dirtyCached : ∀ x, x ∈ d → x ∈ akeys c
  cacheOk : ∀ k v, aget? c k = some v → aget? M k = some v
  backOk : ∀ k, k ∉ d → aget? b k = aget? M k

def Q (M : List (Key × Nat)) (t : St) : Prop := QD M t.cache t.dirty t.back

/-- `d[k] = v` on the cache, with the map, the dirty set and the backing store following suit -/
theorem qd_set {M M' c b b' : List (Key × Nat)} {d d' : List Key} {k v : Nat} (h : QD M c d b)
    (hM : aget? M' k = some v) (hMo : ∀ x, x ≠ k → aget? M' x = aget? M x)
    (hd : ∀ x, x ∈ d' → x ∈ d ∨ x = k) (hd2 : ∀ x, x ≠ k → x ∈ d → x ∈ d')
    (hb : ∀ x, x ≠ k → aget? b' x = aget? b x) (hbk : k ∉ d' → aget? b' k = some v) :
    QD M' (aset c k v) d' b' := by
  refine ⟨?_, ?_, ?_⟩
  · intro x hx
    rw [sq_mem_akeys_aset]
    rcases hd x hx with h1 | h1
    · exact Or.inr (h.dirtyCached x h1)
    · exact Or.inl h1
  · intro x w hx
    by_cases e : x = k
    · subst e
      rw [wb_aget?_aset_self] at hx
      rw [hM]; exact hx
    · rw [wb_aget?_aset_other _ _ _ _ e] at hx
      rw [hMo x e]; exact h.cacheOk x w hx
  · intro x hx
    by_cases e : x = k
    · subst e
      rw [hbk hx, hM]
    · rw [hb x e, hMo x e]
      exact h.backOk x (fun hx' => hx (hd2 x e hx'))

/-- drop a clean key from the cache -/
theorem qd_drop {M c b : List (Key × Nat)} {d : List Key} (k : Key) (h : QD M c d b) (hk : k ∉ d) :
    QD M (adel c k) (setDel d k) b := by
  refine ⟨?_, ?_, ?_⟩
  · intro x hx
    have ⟨h1, h2⟩ := (wb_mem_setDel _ _ _).mp hx
    exact (mem_akeys_adel _ _ _).mpr ⟨h.dirtyCached x h1, h2⟩
  · intro x w hx
    by_cases e : x = k
    · subst e; rw [sq_aget?_adel_self] at hx; cases hx
    · rw [wb_aget?_adel_other _ _ _ e] at hx; exact h.cacheOk x w hx
  · intro x hx
    apply h.backOk x
    intro hx'
    by_cases e : x = k
    · subst e; exact hk hx'
    · exact hx ((wb_mem_setDel _ _ _).mpr ⟨hx', e⟩)

/-- `del d[k]` everywhere -/
theorem qd_del {M c b : List (Key × Nat)} {d : List Key} (k : Key) (h : QD M c d b) :
    QD (adel M k) (adel c k) (setDel d k) (adel b k) := by
  refine ⟨?_, ?_, ?_⟩
  · intro x hx
    have ⟨h1, h2⟩ := (wb_mem_setDel _ _ _).mp hx
    exact (mem_akeys_adel _ _ _).mpr ⟨h.dirtyCached x h1, h2⟩
  · intro x w hx
    by_cases e : x = k
    · subst e; rw [sq_aget?_adel_self] at hx; cases hx
    · rw [wb_aget?_adel_other _ _ _ e] at hx
      rw [wb_aget?_adel_other _ _ _ e]; exact h.cacheOk x w hx
  · intro x hx
    by_cases e : x = k
    · subst e; rw [sq_aget?_adel_self, sq_aget?_adel_self]
    · rw [wb_aget?_adel_other _ _ _ e, wb_aget?_adel_other _ _ _ e]
      exact h.backOk x (fun hx' => hx ((wb_mem_setDel _ _ _).mpr ⟨hx', e⟩))

/-- `del d[k]` of a key that is not cached -/
theorem qd_del_nc {M c b : List (Key × Nat)} {d : List Key} (k : Key) (h : QD M c d b) (hk : k ∉ akeys c) :
    QD (adel M k) c d (adel b k) := by
  refine ⟨h.dirtyCached, ?_, ?_⟩
  · intro x w hx
    have e : x ≠ k := fun e => hk (e ▸ sq_mem_akeys_of_some c x w hx)
    rw [wb_aget?_adel_other _ _ _ e]; exact h.cacheOk x w hx
  · intro x hx
    by_cases e : x = k
    · subst e; rw [sq_aget?_adel_self, sq_aget?_adel_self]
    · rw [wb_aget?_adel_other _ _ _ e, wb_aget?_adel_other _ _ _ e]
      exact h.backOk x hx

/-! ### write-back -/

theorem q_writeBack {M : List (Key × Nat)} (t : St) (k : Key) (h : Q M t) : Q M (t.writeBack k) := by
  unfold St.writeBack
  cases hc : aget? t.cache k with
  | none => exact h
  | some v =>
    simp only []
    by_cases hd : k ∈ t.dirty
    · rw [if_pos hd]
      refine ⟨?_, h.cacheOk, ?_⟩
      · intro x hx
        exact h.dirtyCached x ((wb_mem_setDel _ _ _).mp hx).1
      · intro x hx
        show aget? (aset t.back k v) x = aget? M x
        by_cases e : x = k
        · subst e; rw [wb_aget?_aset_self, h.cacheOk x v hc]
        · rw [wb_aget?_aset_other _ _ _ _ e]
          exact h.backOk x (fun hx' => hx ((wb_mem_setDel _ _ _).mpr ⟨hx', e⟩))
    · rw [if_neg hd]; exact h

theorem q_writeBack_clean {M : List (Key × Nat)} (t : St) (k : Key) (h : Q M t) : k ∉ (t.writeBack k).dirty := by
  by_cases hd : k ∈ t.dirty
  · obtain ⟨v, hv⟩ := sq_some_of_mem_akeys _ _ (h.dirtyCached k hd)
    exact wb_writeBack_self_clean t k v hv
  · exact fun hx => hd (wb_writeBack_dirty_sub t k k hx)

@[simp] theorem sq_writeBack_infl (s : St) (k : Key) : (s.writeBack k).infl = s.infl := by
  unfold St.writeBack; split
  · split <;> rfl
  · rfl
@[simp] theorem sq_writeBack_epoch (s : St) (k : Key) : (s.writeBack k).epoch = s.epoch := by
  unfold St.writeBack; split
  · split <;> rfl
  · rfl

theorem sq_writeBackAll_infl (s : St) (l : List Key) : (s.writeBackAll l).infl = s.infl := by
  induction l generalizing s with
  | nil => rfl
  | cons k ks ih => simp [St.writeBackAll, ih]

/-! ### eviction -/

/-- what the eviction loop and the write-backs inside keep: the link, the bookkeeping, and no new
dirty keys -/
structure Ev (M : List (Key × Nat)) (s t : St) : Prop where
  q : Q M t
  pend : t.pend = s.pend
  infl : t.infl = s.infl
  epoch : t.epoch = s.epoch
  sub : ∀ x, x ∈ t.dirty → x ∈ s.dirty

theorem Ev.refl {M : List (Key × Nat)} {s : St} (h : Q M s) : Ev M s s := ⟨h, rfl, rfl, rfl, fun _ h => h⟩

theorem ev_writeBack {M : List (Key × Nat)} {s t : St} (k : Key) (h : Ev M s t) : Ev M s (t.writeBack k) :=
  ⟨q_writeBack t k h.q, by rw [wb_writeBack_pend]; exact h.pend, by rw [sq_writeBack_infl]; exact h.infl,
    by rw [sq_writeBack_epoch]; exact h.epoch, fun x hx => h.sub x (wb_writeBack_dirty_sub t k x hx)⟩

theorem ev_evictOne (cfg : Cfg) (hrep : cfg.rep = true) {M : List (Key × Nat)} {s t : St} (ek : Key) (pol' : Pol)
    (h : Ev M s t) : Ev M s (evictOne cfg t ek pol') := by
  have e : evictOne cfg t ek pol' = { t.writeBack ek with
      cache := adel t.cache ek, dirty := setDel (t.writeBack ek).dirty ek, pol := pol', nEv := t.nEv + 1 } := by
    simp only [evictOne, hrep, ↓reduceIte]
  rw [e]
  have hw := ev_writeBack ek h
  refine ⟨?_, hw.pend, hw.infl, hw.epoch, ?_⟩
  · show QD M (adel t.cache ek) (setDel (t.writeBack ek).dirty ek) (t.writeBack ek).back
    have := qd_drop ek hw.q (q_writeBack_clean t ek h.q)
    rw [wb_writeBack_cache] at this
    exact this
  · intro x hx
    have hx : x ∈ setDel (t.writeBack ek).dirty ek := hx
    exact hw.sub x ((wb_mem_setDel _ _ _).mp hx).1

theorem ev_evictLoop (cfg : Cfg) (hrep : cfg.rep = true) {M : List (Key × Nat)} (s : St) (fuel : Nat) (t : St)
    (now : Nat) (h : Ev M s t) : Ev M s (evictLoop cfg fuel t now) := by
  induction fuel generalizing t with
  | zero => simpa [evictLoop] using h
  | succ f ih =>
    unfold evictLoop
    by_cases hlt : t.cache.length < cfg.cap
    · rw [if_pos hlt]; exact h
    · rw [if_neg hlt]
      cases hev : (t.pol.evict now (t.pick cfg)).1 with
      | none => simp only []; exact ⟨h.q, h.pend, h.infl, h.epoch, h.sub⟩
      | some ek => simp only []; exact ih _ (ev_evictOne cfg hrep ek _ h)

/-- `_cache_put`: after the evictions (which keep the link) the entry is set -/
theorem cachePut_q (cfg : Cfg) (hrep : cfg.rep = true) {M : List (Key × Nat)} (t : St) (k v now : Nat)
    (h : Q M t) :
    ∃ c d b, QD M c d b ∧ (∀ x, x ∈ d → x ∈ t.dirty) ∧
      (cachePut cfg t k v now).cache = aset c k v ∧ (cachePut cfg t k v now).dirty = d ∧
      (cachePut cfg t k v now).back = b ∧ (cachePut cfg t k v now).pend = t.pend ∧
      (cachePut cfg t k v now).infl = t.infl ∧ (cachePut cfg t k v now).epoch = t.epoch := by
  unfold cachePut
  by_cases hk : k ∈ akeys t.cache
  · rw [if_pos hk]
    exact ⟨t.cache, t.dirty, t.back, h, fun _ hx => hx, rfl, rfl, rfl, rfl, rfl, rfl⟩
  · rw [if_neg hk]
    have hl := ev_evictLoop cfg hrep t (t.cache.length + t.pol.tracked.length + 1) t now (Ev.refl h)
    generalize evictLoop cfg (t.cache.length + t.pol.tracked.length + 1) t now = t1 at hl
    exact ⟨t1.cache, t1.dirty, t1.back, hl.q, hl.sub, rfl, rfl, rfl, hl.pend, hl.infl, hl.epoch⟩

/-! ### bookkeeping updates under `rep` -/

theorem sq_clear_set (X : St) (i : Nat) (p : Pend) (hX : X.pend = []) : (X.setPend i p).clearPend i = X := by
  cases X
  simp only [] at hX
  subst hX
  simp [St.setPend, St.clearPend]

theorem sq_find_set (X : St) (i : Nat) (p : Pend) (hX : X.pend = []) :
    (X.setPend i p).pend.find? (·.1 == i) = some (i, p) := by
  simp [St.setPend, hX]

theorem sq_noInfl_incdec (cfg : Cfg) (a b : St) (k : Key) (hb : b.infl = (a.inflInc cfg k).infl)
    (ha : ∀ x, cnt a.infl x = 0) : ∀ x, cnt (b.inflDec cfg k).infl x = 0 := by
  intro x
  unfold St.inflDec St.inflInc at *
  by_cases hrep : cfg.rep = true
  · simp only [hrep, if_true] at hb ⊢
    show cnt (aset b.infl k (cnt b.infl k - 1)) x = 0
    rw [hb]
    by_cases e : x = k
    · subst e
      rw [sq_cnt_aset_self, sq_cnt_aset_self, ha]
    · rw [sq_cnt_aset_other _ _ _ _ e, sq_cnt_aset_other _ _ _ _ e, ha]
  · simp only [hrep] at hb ⊢
    show cnt b.infl x = 0
    rw [hb]; exact ha x

@[simp] theorem sq_bump_back (cfg : Cfg) (s : St) (k : Key) : (s.bump cfg k).back = s.back := by
  unfold St.bump; split <;> rfl
@[simp] theorem sq_bump_infl (cfg : Cfg) (s : St) (k : Key) : (s.bump cfg k).infl = s.infl := by
  unfold St.bump; split <;> rfl
@[simp] theorem sq_inflInc_cache (cfg : Cfg) (s : St) (k : Key) : (s.inflInc cfg k).cache = s.cache := by
  unfold St.inflInc; split <;> rfl
@[simp] theorem sq_inflDec_cache (cfg : Cfg) (s : St) (k : Key) : (s.inflDec cfg k).cache = s.cache := by
  unfold St.inflDec; split <;> rfl
@[simp] theorem sq_inflDec_back (cfg : Cfg) (s : St) (k : Key) : (s.inflDec cfg k).back = s.back := by
  unfold St.inflDec; split <;> rfl
@[simp] theorem sq_cacheRemove_infl (s : St) (k : Key) : (cacheRemove s k).infl = s.infl := rfl
@[simp] theorem sq_cacheRemove_cache (s : St) (k : Key) : (cacheRemove s k).cache = adel s.cache k := rfl

end HappyModel.C16
