import HappyProofs.C16.TRawI
/-!
Multi-tier read-after-write over every interleaving, part 10: the completion of a `delete`, every
segment (`mraw_step`), whole schedules (`mraw_run`) and the judge's verdict (`mraw_judge`).
-/
namespace HappyModel.C16.Tier
open HappyModel.C16

/-- the backing-store delete that completes a `delete`; the tiers are invalidated again -/
theorem mraw_resume_delBack (cfg : MCfg) (hrep : cfg.rep = true) {g : Gh} {ms0 : MSt} (h : MInv g ms0)
    (hlen : MLen cfg ms0) (i k now : Nat) (hm : (i, MPend.delBack k) ∈ ms0.pend)
    (o : Obs) (hoi : o.i = i) (hor : o.res = (mresume cfg ms0 i (.delBack k) now).2) :
    MInv (g.ext o []) (mresume cfg ms0 i (.delBack k) now).1 := by
  have hop := h.pi.db i k hm
  have hres : o.res.isSome := by rw [hor]; rfl
  let msA : MSt := { ms0.clearPend i with back := adel ms0.back k, acc := adel ms0.acc k }
  have e0 : (mresume cfg ms0 i (.delBack k) now).1 = (msA.sweep cfg (.inv k)).leave cfg k := by
    unfold mresume; simp only [hrep, if_true]; rfl
  rw [e0]
  have hdA : ∀ (t : Nat) (s : St), msA.tiers[t]? = some s → s.dirty = [] := h.vi.d
  obtain ⟨hbB, hsw⟩ := sweep_nb cfg msA (.inv k) (Or.inl ⟨k, rfl⟩) hdA
  have hbk : ∀ x, aget? (msA.sweep cfg (.inv k)).back x = aget? (adel ms0.back k) x := fun x => by rw [hbB]
  refine write_complete (msC := msA.sweep cfg (.inv k)) cfg hrep h hm rfl hop rfl (some k) (Or.inr rfl)
    rfl rfl rfl ?_ (fun _ => by rw [hbk]; exact sq_aget?_adel_self _ _) ?_ o hoi hres
  · intro x
    rw [hbk]
    by_cases e : x = k
    · subst e; exact Or.inr ⟨rfl, by rw [hbk]; exact sq_aget?_adel_self _ _⟩
    · exact Or.inl (wb_aget?_adel_other _ _ _ e)
  · intro t s' hs'
    obtain ⟨s, hs, a1, a2, a3, a4⟩ := hsw.at_ t s' hs'
    have hs0 : ms0.tiers[t]? = some s := hs
    have hlt : t < cfg.tiers.length := by
      have := getElem?_lt hs0
      have hl : ms0.tiers.length = cfg.tiers.length := hlen
      omega
    have hk : k ∉ akeys s'.cache := (a4 (Nat.zero_le _) hlt).1 k rfl
    refine ⟨s, hs0, a1, fun x hx => a2 ▸ hx, ?_, ?_⟩
    · intro x hx ⟨k', v', e⟩ exi
      rcases (h.vi.tp t s hs0 x (a2 ▸ hx)).2 with ⟨_, e'⟩ | ⟨_, _, e'⟩ | ⟨k'', v'', _, _, ho, _⟩
      · rw [e] at e'; cases e'
      · rw [e] at e'; cases e'
      · rw [exi] at ho
        have := ops_unique h.gi.nd hop ho
        cases this
    · intro x w hw
      have hxk : x ≠ k := fun e => hk (e ▸ sq_mem_akeys_of_some _ _ _ hw)
      exact ⟨fun e => hxk (Option.some.inj e).symm, Or.inl (a3 x w hw)⟩

theorem mraw_resume (cfg : MCfg) (hrep : cfg.rep = true) (hc : SeqCfg cfg) {g : Gh} {ms0 : MSt} (h : MInv g ms0)
    (hlen : MLen cfg ms0) (i : Nat) (p : MPend) (now : Nat) (hm : (i, p) ∈ ms0.pend)
    (o : Obs) (hoi : o.i = i) (hor : o.res = (mresume cfg ms0 i p now).2) :
    MInv (g.ext o []) (mresume cfg ms0 i p now).1 := by
  cases p with
  | tierGet t k e => exact mraw_resume_read cfg hrep h i _ now hm (Or.inl ⟨t, k, e, rfl⟩) o hoi hor
  | backGet k e => exact mraw_resume_read cfg hrep h i _ now hm (Or.inr (Or.inl ⟨k, e, rfl⟩)) o hoi hor
  | direct t => exact mraw_resume_read cfg hrep h i _ now hm (Or.inr (Or.inr ⟨t, rfl⟩)) o hoi hor
  | putBack k v => exact mraw_resume_putBack cfg hc h hlen i k v now hm o hoi hor
  | putL1 k => exact mraw_resume_putL1 cfg hrep h hlen i k now hm o hoi hor
  | delBack k => exact mraw_resume_delBack cfg hrep h hlen i k now hm o hoi hor

/-! ### the number of tiers never changes -/

theorem sweepL_len (op : OpK) : ∀ (cs : List Cfg) (ss : List St) (b : List (Key × Nat)),
    (sweepL op cs ss b).1.length = ss.length := by
  intro cs
  induction cs with
  | nil => intro ss b; unfold sweepL; rfl
  | cons c cs ih =>
    intro ss b
    cases ss with
    | nil => unfold sweepL; rfl
    | cons s ss =>
      have e : sweepL op (c :: cs) (s :: ss) b =
          ((start c (plug s b) 0 op 0).1 :: (sweepL op cs ss (start c (plug s b) 0 op 0).1.back).1,
           (sweepL op cs ss (start c (plug s b) 0 op 0).1.back).2) := by
        conv => lhs; unfold sweepL
      rw [e]
      simp [ih]

theorem onTier_len (cfg : MCfg) (ms : MSt) (t : Nat) (f : Cfg → St → St × Option Res) :
    (onTier cfg ms t f).1.tiers.length = ms.tiers.length := by
  unfold onTier; split
  · simp
  · rfl

theorem sweep_len (cfg : MCfg) (ms : MSt) (op : OpK) : (ms.sweep cfg op).tiers.length = ms.tiers.length :=
  sweepL_len op _ _ _

theorem sweepLow_len (cfg : MCfg) (ms : MSt) (op : OpK) : (ms.sweepLow cfg op).tiers.length = ms.tiers.length := by
  show (ms.tiers.take 1 ++ (sweepL op (cfg.tiers.drop 1) (ms.tiers.drop 1) ms.back).1).length = _
  rw [List.length_append, sweepL_len, List.length_take, List.length_drop]; omega

theorem fillL1_len (cfg : MCfg) (ms : MSt) (k v now : Nat) : (ms.fillL1 cfg k v now).tiers.length = ms.tiers.length :=
  onTier_len _ _ _ _

theorem mstart_len (cfg : MCfg) (ms : MSt) (i : Nat) (op : MOp) (now : Nat) :
    (mstart cfg ms i op now).1.tiers.length = ms.tiers.length := by
  cases op with
  | get k =>
    unfold mstart
    cases hf : firstHit k ms.tiers 0 with
    | some t => simp only [hf]; exact onTier_len _ _ _ _
    | none => simp only [hf]; rfl
  | put k v => show (ms.enter cfg k).tiers.length = _; rw [enter_tiers]
  | del k =>
    show ((ms.enter cfg k).sweep cfg (.inv k)).tiers.length = _
    rw [sweep_len, enter_tiers]
  | inv k => exact sweep_len _ _ _
  | invAll => exact sweep_len _ _ _
  | tget t k => exact onTier_len _ _ _ _

theorem mresume_len (cfg : MCfg) (ms : MSt) (i : Nat) (p : MPend) (now : Nat) :
    (mresume cfg ms i p now).1.tiers.length = ms.tiers.length := by
  cases p with
  | tierGet t k e =>
    unfold mresume
    simp only
    split
    · unfold afterTierGet
      split
      · rw [fillL1_len, onTier_len]; rfl
      · rw [onTier_len]; rfl
    · rw [onTier_len]; rfl
  | backGet k e =>
    unfold mresume
    simp only
    split
    · split
      · rw [fillL1_len]; rfl
      · rfl
    · rfl
  | putBack k v =>
    show (onTier cfg _ 0 _).1.tiers.length = _
    rw [onTier_len, sweep_len]; rfl
  | putL1 k =>
    unfold mresume
    simp only
    rw [leave_tiers]
    split
    · rw [sweepLow_len, onTier_len]; rfl
    · rw [onTier_len]; rfl
  | delBack k =>
    unfold mresume
    simp only
    rw [leave_tiers]
    split
    · rw [sweep_len]; rfl
    · rfl
  | direct t => exact onTier_len _ _ _ _

theorem mstep_len (cfg : MCfg) (ms : MSt) (a : MAct) : (mstep cfg ms a).1.tiers.length = ms.tiers.length := by
  cases a with
  | start i op now => exact mstart_len cfg ms i op now
  | resume i now =>
    unfold mstep
    simp only
    split
    · exact mresume_len cfg ms i _ now
    · rfl

/-! ### one segment, whole schedules -/

def mactId : MAct → Nat
  | .start i _ _ => i
  | .resume i _ => i

def mnewIds : MAct → List Nat
  | .start i _ _ => [i]
  | .resume _ _ => []

theorem mraw_step (cfg : MCfg) (hrep : cfg.rep = true) (hc : SeqCfg cfg) {g : Gh} {ms : MSt} (h : MInv g ms)
    (hlen : MLen cfg ms) (a : MAct) (hadm : ∀ i op now, a = .start i op now → MAdm g i op)
    (o : Obs) (hoi : o.i = mactId a) (hor : o.res = (mstep cfg ms a).2) :
    MInv (g.ext o (mnewIds a)) (mstep cfg ms a).1 := by
  cases a with
  | start i op now => exact mraw_start cfg hrep h i op now (hadm i op now rfl) o hoi hor
  | resume i now =>
    show MInv (g.ext o []) (mstep cfg ms (.resume i now)).1
    have hoi : o.i = i := hoi
    unfold mstep at hor ⊢
    cases hf : ms.pend.find? (fun x => x.1 == i) with
    | none =>
      simp only [hf] at hor ⊢
      refine mext_same h.gi h.pi h.vi o ?_ (fun hs => by rw [hor] at hs; cases hs)
        (fun hs => by rw [hor] at hs; cases hs) (fun hs => by rw [hor] at hs; cases hs)
        (fun _ _ _ hs => by rw [hor] at hs; cases hs)
      intro j op k hj hjm hk
      rcases h.lim.elim hj hjm hk with h' | h'
      · exact Or.inl h'
      · exact Or.inr (Or.inl h')
    | some x =>
      obtain ⟨j, p⟩ := x
      simp only [hf] at hor ⊢
      have hmem := List.mem_of_find?_eq_some hf
      have hj : j = i := by simpa using List.find?_some hf
      subst hj
      exact mraw_resume cfg hrep hc h hlen j p now hmem o hoi hor

def mstartIds (as : List MAct) : List Nat :=
  as.filterMap fun a => match a with | .start i _ _ => some i | _ => none

/-- the log of a schedule as the register clauses see it -/
def mobsRunG (cfg : MCfg) (ms : MSt) : List MAct → List Obs
  | [] => []
  | a :: as => ⟨mactId a, [], [], [], (mstep cfg ms a).2⟩ :: mobsRunG cfg (mstep cfg ms a).1 as

structure MAdmAll (g : Gh) (as : List MAct) : Prop where
  nd : (mstartIds as).Nodup
  fresh : ∀ i ∈ mstartIds as, i ∉ g.started
  tab : ∀ i op now, MAct.start i op now ∈ as → (i, op.toOpK) ∈ g.ops

theorem mraw_run (cfg : MCfg) (hrep : cfg.rep = true) (hc : SeqCfg cfg) :
    ∀ (as : List MAct) (g : Gh) (ms : MSt), MInv g ms → MLen cfg ms → MAdmAll g as →
      ∃ g', g'.ops = g.ops ∧ g'.evs = g.evs ++ mobsRunG cfg ms as ∧ MInv g' (mrun cfg ms as) := by
  intro as
  induction as with
  | nil => intro g ms h _ _; exact ⟨g, rfl, by simp [mobsRunG], h⟩
  | cons a as ih =>
    intro g ms h hlen hadm
    have hstep := mraw_step cfg hrep hc h hlen a (by
      intro i op now e
      subst e
      exact ⟨hadm.fresh i (by show i ∈ i :: mstartIds as; exact List.mem_cons_self),
        hadm.tab i op now List.mem_cons_self⟩)
      ⟨mactId a, [], [], [], (mstep cfg ms a).2⟩ rfl rfl
    have hadm' : MAdmAll (g.ext ⟨mactId a, [], [], [], (mstep cfg ms a).2⟩ (mnewIds a)) as := by
      cases a with
      | start i op now =>
        have hnd := hadm.nd
        have e : mstartIds (.start i op now :: as) = i :: mstartIds as := rfl
        rw [e, List.nodup_cons] at hnd
        refine ⟨hnd.2, ?_, fun j op' now' hj => hadm.tab j op' now' (List.mem_cons_of_mem _ hj)⟩
        intro j hj
        simp only [Gh.ext, mnewIds, List.mem_append, List.mem_singleton, not_or]
        refine ⟨hadm.fresh j (by rw [e]; exact List.mem_cons_of_mem _ hj), ?_⟩
        intro e'; subst e'; exact hnd.1 hj
      | resume i now =>
        refine ⟨hadm.nd, ?_, fun j op' now' hj => hadm.tab j op' now' (List.mem_cons_of_mem _ hj)⟩
        intro j hj
        simp only [Gh.ext, mnewIds, List.append_nil]
        exact hadm.fresh j hj
    have hlen' : MLen cfg (mstep cfg ms a).1 := by
      unfold MLen; rw [mstep_len]; exact hlen
    obtain ⟨g', h1, h2, h3⟩ := ih _ _ hstep hlen' hadm'
    refine ⟨g', h1, ?_, h3⟩
    rw [h2]
    simp [Gh.ext, mobsRunG]

/-- the invariant holds initially -/
theorem minv_init (ops : List (Nat × OpK)) (hnd : (ops.map (·.1)).Nodup) (pols : List Pol) :
    MInv ⟨ops, [], []⟩ (MSt.init pols) := by
  have htier : ∀ (t : Nat) (s : St), (MSt.init pols).tiers[t]? = some s → ∃ p, s = { pol := p } := by
    intro t s hs
    have hs : (pols.map fun p => ({ pol := p } : St))[t]? = some s := hs
    rw [List.getElem?_map] at hs
    cases hp : pols[t]? with
    | none => rw [hp] at hs; cases hs
    | some p => rw [hp] at hs; exact ⟨p, (Option.some.inj hs).symm⟩
  refine ⟨⟨hnd, ?_, ?_, ?_⟩, ⟨?_, ?_, ?_, ?_, ?_, ?_, ?_, ?_, ?_⟩, ⟨?_, ?_, ?_, ?_⟩, ?_⟩
  · intro i hi; cases hi
  · intro i _; rfl
  · intro i k rs re _ hs; simp [firstIdx] at hs
  · intro x hx; cases hx
  · exact List.nodup_nil
  · intro k; rfl
  · intro i k v hm; cases hm
  · intro i k hm; cases hm
  · intro i k hm; cases hm
  · intro i t hm; cases hm
  · intro i t k e hm; cases hm
  · intro i k e hm; cases hm
  · intro t s hs k v hv
    obtain ⟨p, rfl⟩ := htier t s hs
    simp [aget?] at hv
  · intro k
    exact Or.inr ⟨rfl, fun j _ hj => by cases hj⟩
  · intro t s hs
    obtain ⟨p, rfl⟩ := htier t s hs
    rfl
  · intro t s hs x hx
    obtain ⟨p, rfl⟩ := htier t s hs
    cases hx
  · intro j op k hj; cases hj

end HappyModel.C16.Tier
