import HappyProofs.C16.PolicyRun
import HappyProofs.C16.StoreInv
import HappyModel.C16.StoreSpec
import HappyProofs.C16.StoreWB
import HappyProofs.C16.SoftTtlInv
import HappyProofs.C16.SoftSize
import HappyProofs.C16.StoreSeq
import HappyProofs.C16.OrderLaws
import HappyProofs.C16.OrderLawsC
import HappyProofs.C16.OrderLawsD
import HappyProofs.C16.TierProps
import HappyProofs.C16.PageProps
import HappyProofs.C16.WPolProps
import HappyProofs.C16.ClearFresh
import HappyProofs.C16.RawMain
import HappyProofs.C16.PropsFinal
import HappyProofs.C16.ORawF
/-!
# C16 — property theorems

"For any interleaving of reads, writes, deletes and invalidations, a cache layer holds at most its
capacity, the keys tracked by its eviction policy are exactly the keys it holds, and a read issued
after a write to the same key has completed returns that write's value or a later one. Write-back
data is never discarded before it reaches the backing store, and a soft-TTL cache never serves an
entry older than its hard TTL."

Part 1 is about the nine policies alone (`Pol`, any call sequence that follows the cache's protocol,
any clock readings, any RNG draws); part 2 about `CachedStore` with any of them, any capacity ≥ 1,
both write modes, both variants, and any interleaving of operation segments (`List Act`).
-/
namespace HappyModel.C16

/-! ## Part 1 — policies -/

/-- After every well-formed call sequence, the keys a policy tracks are exactly the keys inserted
    and not yet removed / evicted (the history `SpecSt` is computed from the calls and the returned
    keys only), without duplicates. -/
theorem policy_keys_eq_cache_keys (name : String) (arg : Nat) (p0 : Pol)
    (h0 : Pol.ofName name arg = some p0) (ops : List POp)
    (hwf : (runBoth p0 {} ops).2.wf = true) :
    (∀ x, x ∈ (runBoth p0 {} ops).1.tracked ↔ x ∈ (runBoth p0 {} ops).2.keys) ∧
      (runBoth p0 {} ops).1.tracked.Nodup := by
  have r := keysRel_run p0 {} ops (keysRel_init name arg p0 h0) hwf
  exact ⟨r.same, Pol.inv_tracked_nodup _ r.inv⟩

/-- `evict` returns `None` exactly when no key is held — whatever the clock reading and the RNG draw;
    this is what makes the `break` in `CachedStore._cache_put` dead code. -/
theorem policy_evict_none_iff_empty (name : String) (arg : Nat) (p0 : Pol)
    (h0 : Pol.ofName name arg = some p0) (ops : List POp)
    (hwf : (runBoth p0 {} ops).2.wf = true) (now : Nat) (pick : List Key) :
    ((runBoth p0 {} ops).1.evict now pick).1 = none ↔ (runBoth p0 {} ops).2.held = [] := by
  have r := keysRel_run p0 {} ops (keysRel_init name arg p0 h0) hwf
  rw [Pol.evict_none_iff _ r.inv]
  constructor
  · intro ht
    cases hh : (runBoth p0 {} ops).2.held with
    | nil => rfl
    | cons a t =>
      have : a.key ∈ (runBoth p0 {} ops).1.tracked := (r.same a.key).mpr (by simp [SpecSt.keys, hh])
      rw [ht] at this; simp at this
  · intro hh
    cases ht : (runBoth p0 {} ops).1.tracked with
    | nil => rfl
    | cons a t =>
      have : a ∈ (runBoth p0 {} ops).2.keys := (r.same a).mp (by rw [ht]; simp)
      simp [SpecSt.keys, hh] at this

/-- a returned key was held, and afterwards exactly that key is gone -/
theorem policy_evict_returns_held_key (name : String) (arg : Nat) (p0 : Pol)
    (h0 : Pol.ofName name arg = some p0) (ops : List POp)
    (hwf : (runBoth p0 {} ops).2.wf = true) (now : Nat) (pick : List Key) (k : Key)
    (hk : ((runBoth p0 {} ops).1.evict now pick).1 = some k) :
    k ∈ (runBoth p0 {} ops).2.keys ∧
      ∀ x, x ∈ ((runBoth p0 {} ops).1.evict now pick).2.tracked ↔
        x ∈ (runBoth p0 {} ops).2.keys ∧ x ≠ k := by
  have r := keysRel_run p0 {} ops (keysRel_init name arg p0 h0) hwf
  have law := Pol.evict_some_law _ r.inv now pick k hk
  exact ⟨(r.same k).mp law.1, fun x => by rw [law.2.2 x, r.same x]⟩

/-- non-vacuity: a well-formed LRU history with an access, an eviction and a re-insert -/
example :
    let ops := [POp.insert 0 0, .insert 1 0, .access 0, .evict 0 [], .insert 2 0]
    (runBoth (.lru {}) {} ops).2.wf = true ∧ (runBoth (.lru {}) {} ops).1.tracked = [0, 2] := by decide

/-- `clear()` — what `invalidate_all()` calls — leaves any of the nine policies exactly as new:
    whatever was called before it (well formed or not, any clock readings, any draws), the calls
    after it take the policy through the same states, and hence return the same keys and track the
    same keys, as they would on a freshly constructed policy.  No reference bit, frequency, segment
    membership, ghost entry or insertion reading survives a clear. -/
theorem policy_clear_is_fresh (name : String) (arg : Nat) (p0 : Pol)
    (h0 : Pol.ofName name arg = some p0) (before after : List POp) :
    Pol.run p0 (before ++ POp.clear :: after) = Pol.run p0 after ∧
      ∀ now pick, (Pol.run p0 (before ++ POp.clear :: after)).evict now pick =
        (Pol.run p0 after).evict now pick := by
  have h : Pol.run p0 (before ++ POp.clear :: after) = Pol.run p0 after := by
    rw [Pol.run_append]
    simp only [Pol.run, Pol.step]
    rw [Pol.run_clear, Pol.ofName_clear name arg p0 h0]
  exact ⟨h, fun now pick => by rw [h]⟩

/-- non-vacuity: a Clock policy whose keys had their reference bits set, cleared, the same keys
    re-inserted and a third one on top: all three are tracked again and the hand starts over -/
example :
    let before := [POp.insert 0 0, .insert 1 0, .access 0, .evict 0 []]
    let after := [POp.insert 0 0, .insert 1 0, .insert 2 0]
    (Pol.run (.clock {}) (before ++ POp.clear :: after)).tracked = [0, 1, 2] ∧
      ((Pol.run (.clock {}) (before ++ POp.clear :: after)).evict 0 []).1 = some 0 := by decide

/-! ### order laws (statements and proofs in `OrderLaws.lean`)

`lru_evicts_least_recent`, `lfu_evicts_least_frequent`, `fifo_evicts_oldest`,
`ttl_evicts_expired_or_oldest`, `slru_evicts_probation_first` (`OrderLawsD.lean`),
`sampled_evicts_lru_of_sample` (`OrderLawsC.lean`, every sample size and every draw) `: OrderLaw p0` —
after every well-formed history, whatever `evict` returns satisfies `PolicySpec.orderOk` for the
policy's kind. -/

/-- non-vacuity of the order laws: histories in which `evict` does return a key, and the key the law
    singles out (LRU: 1 after 0 was re-accessed; LFU: 1, touched once; FIFO: 0; TTL 5: 0 expired at 7) -/
example :
    let h := [POp.insert 0 0, .insert 1 2, .access 0]
    ((runBoth (.lru {}) {} h).1.evict 7 []).1 = some 1 ∧ ((runBoth (.lfu {}) {} h).1.evict 7 []).1 = some 1 ∧
    ((runBoth (.fifo {}) {} h).1.evict 7 []).1 = some 0 ∧ ((runBoth (.ttl { ttl := 5 }) {} h).1.evict 7 []).1 = some 0 ∧
    (runBoth (.lru {}) {} h).2.wf = true := by decide

/-- non-vacuity of the segmented-LRU and sampled-LRU order laws: 0 is re-accessed (protected), so SLRU
    evicts 1, the oldest key on probation; sampled LRU with sample size 2 and a draw naming 0 and 2
    evicts 2 (0 was touched last), although 1 is the least recently used key overall -/
example :
    let h := [POp.insert 0 0, .insert 1 0, .insert 2 0, .access 0]
    ((runBoth (.slru {}) {} h).1.evict 7 []).1 = some 1 ∧
    ((runBoth (.sampled { size := 2 }) {} h).1.evict 7 [0, 2, 1]).1 = some 2 ∧
    (runBoth (.slru {}) {} h).2.wf = true ∧
    orderOk (.sampled 2) (runBoth (.sampled { size := 2 }) {} h).2 7 [0, 2, 1] ⟨2, 2, 2, 1, 0⟩ = true ∧
    orderOk (.sampled 2) (runBoth (.sampled { size := 2 }) {} h).2 7 [0, 2, 1] ⟨1, 1, 1, 1, 0⟩ = false := by
  decide

/-! ## Part 2 — `CachedStore` -/

/-- the initial store around a policy made by `Pol.ofName` -/
def St.init (p : Pol) : St := { pol := p }

/-- `size_le_capacity`: after every interleaving of operation segments the cache holds at most
    `capacity` entries (both write modes, both variants, every policy, every RNG draw). -/
theorem size_le_capacity (cfg : Cfg) (hcap : 1 ≤ cfg.cap) (name : String) (arg : Nat) (p : Pol)
    (hp : Pol.ofName name arg = some p) (as : List Act) :
    (run cfg (St.init p) as).cache.length ≤ cfg.cap := by
  have r : SInv cfg (run cfg (St.init p) as) := run_inv cfg hcap _ as (init_inv cfg name arg p hp)
  exact r.size

/-- `policy_keys_eq_cache_keys` at the store level: after every interleaving the policy tracks
    exactly the cached keys, each once. -/
theorem store_policy_keys_eq_cache_keys (cfg : Cfg) (hcap : 1 ≤ cfg.cap) (name : String) (arg : Nat)
    (p : Pol) (hp : Pol.ofName name arg = some p) (as : List Act) :
    (∀ x, x ∈ (run cfg (St.init p) as).pol.tracked ↔ x ∈ akeys (run cfg (St.init p) as).cache) ∧
      (akeys (run cfg (St.init p) as).cache).Nodup ∧ (run cfg (St.init p) as).pol.tracked.Nodup := by
  have r : SInv cfg (run cfg (St.init p) as) := run_inv cfg hcap _ as (init_inv cfg name arg p hp)
  exact ⟨r.same, r.nodup, Pol.inv_tracked_nodup _ r.pinv⟩

/-- the `break` of `_cache_put` is unreachable: in every reachable state with a full cache the policy
    returns a key -/
theorem evict_break_unreachable (cfg : Cfg) (hcap : 1 ≤ cfg.cap) (name : String) (arg : Nat)
    (p : Pol) (hp : Pol.ofName name arg = some p) (as : List Act) (now : Nat) (pick : List Key)
    (hfull : cfg.cap ≤ (run cfg (St.init p) as).cache.length) :
    ((run cfg (St.init p) as).pol.evict now pick).1 ≠ none := by
  have r : SInv cfg (run cfg (St.init p) as) := run_inv cfg hcap _ as (init_inv cfg name arg p hp)
  intro hn
  have ht := (Pol.evict_none_iff _ r.pinv now pick).mp hn
  cases hk : (run cfg (St.init p) as).cache with
  | nil => rw [hk] at hfull; simp at hfull; omega
  | cons a t =>
    have : a.1 ∈ (run cfg (St.init p) as).pol.tracked := (r.same a.1).mpr (by rw [hk]; simp [akeys])
    rw [ht] at this; simp at this

/-- non-vacuity: capacity 1, LRU, write-back — put a, put b (evicts a), both puts complete -/
example :
    let cfg : Cfg := ⟨1, false, true, []⟩
    let s := run cfg (St.init (.lru {})) [.start 0 (.put 0 7) 0, .start 1 (.put 1 8) 0, .resume 0 0, .resume 1 0]
    akeys s.cache = [1] ∧ s.pol.tracked = [1] ∧ s.back = [(0, 7)] ∧ s.dirty = [1] := by decide

/-! ### the current code loses write-back data (DESIGN §9-17) -/

/-- the run of the witness: write-back, capacity 2, LRU; put a, put b, put c, then flush -/
def dirtyEvictRun (rep : Bool) : St :=
  run ⟨2, false, rep, []⟩ (St.init (.lru {}))
    [.start 0 (.put 0 1) 0, .resume 0 0, .start 1 (.put 1 2) 0, .resume 1 0,
     .start 2 (.put 2 3) 0, .resume 2 0, .start 3 (.flush [1, 2]) 0, .resume 3 0, .resume 3 0]

/-- current code: the dirty entry `a = 1` evicted by `put c` never reaches the backing store -/
theorem dirty_evicted_lost_current : aget? (dirtyEvictRun false).back 0 = none ∧ (dirtyEvictRun false).dirty = [] := by
  decide

/-- repaired code: it does -/
theorem dirty_evicted_kept_repaired : aget? (dirtyEvictRun true).back 0 = some 1 := by decide

/-- the Spec predicate rejects what the current code does on that run and accepts the repaired run -/
theorem dirty_evicted_lost_judged :
    let ops := [(0, OpK.put 0 1), (1, .put 1 2), (2, .put 2 3), (3, .flush [])]
    let ev : Nat → Option Res → Obs := fun i r => ⟨i, [], [], [], r⟩
    let evs := [ev 0 none, ev 0 (some .none), ev 1 none, ev 1 (some .none), ev 2 none, ev 2 (some .none),
                ev 3 none, ev 3 none, ev 3 (some (.count 2))]
    judgeFinal ⟨2, false, false, []⟩ ops evs (dirtyEvictRun false).back = some "store/writeback/lost-write" ∧
    judgeFinal ⟨2, false, false, []⟩ ops evs (dirtyEvictRun true).back = none := by
  decide

/-! ### write-back data reaches the backing store (repaired) -/

/-- `writeback_reaches_store`: along every schedule of the repaired store, whenever a segment takes a
    key out of the dirty set, the backing store holds — right after that segment — the value the
    cache held for it right before (eviction, invalidation, invalidate_all, delete, flush alike). -/
theorem writeback_reaches_store (cfg : Cfg) (hrep : cfg.rep = true) (p : Pol) (as : List Act) (a : Act)
    (k v : Nat) (hd : k ∈ (run cfg (St.init p) as).dirty)
    (hv : aget? (run cfg (St.init p) as).cache k = some v)
    (hgone : k ∉ (step cfg (run cfg (St.init p) as) a).1.dirty) :
    aget? (step cfg (run cfg (St.init p) as) a).1.back k = some v := by
  have hn : NoCur (run cfg (St.init p) as) :=
    noCur_run cfg hrep (St.init p) as (by intro x hx; simp [St.init] at hx)
  exact writeback_step cfg hrep _ a hn k v hd hv hgone

/-- non-vacuity, and the negation for the current code: from the same state (a, b dirty, cache full)
    the segment `put c` drops dirty `a`; repaired: the backing store then holds a's value;
    current: it holds nothing for a. -/
theorem writeback_step_witness :
    let pre := [Act.start 0 (.put 0 1) 0, .resume 0 0, .start 1 (.put 1 2) 0, .resume 1 0]
    let a := Act.start 2 (.put 2 3) 0
    let cur : Cfg := ⟨2, false, false, []⟩
    let rep : Cfg := ⟨2, false, true, []⟩
    (0 ∈ (run rep (St.init (.lru {})) pre).dirty ∧ aget? (run rep (St.init (.lru {})) pre).cache 0 = some 1 ∧
      0 ∉ (step rep (run rep (St.init (.lru {})) pre) a).1.dirty ∧
      aget? (step rep (run rep (St.init (.lru {})) pre) a).1.back 0 = some 1) ∧
    (0 ∈ (run cur (St.init (.lru {})) pre).dirty ∧ aget? (run cur (St.init (.lru {})) pre).cache 0 = some 1 ∧
      0 ∉ (step cur (run cur (St.init (.lru {})) pre) a).1.dirty ∧
      aget? (step cur (run cur (St.init (.lru {})) pre) a).1.back 0 = none) := by
  decide

/-- the current code violates the step statement -/
theorem writeback_lost_current :
    ¬ (∀ (as : List Act) (a : Act), WritebackStep ⟨2, false, false, []⟩ (run ⟨2, false, false, []⟩ (St.init (.lru {})) as) a) := by
  intro h
  have := h [Act.start 0 (.put 0 1) 0, .resume 0 0, .start 1 (.put 1 2) 0, .resume 1 0]
    (Act.start 2 (.put 2 3) 0) 0 1 (by decide) (by decide) (by decide)
  revert this
  decide

/-! ### read after write -/

/-- what the harness prints after a segment -/
def obsOf (i : Nat) (s : St) (r : Option Res) : Obs :=
  ⟨i, sortKeys (akeys s.cache), sortKeys s.dirty, sortKeys s.pol.tracked, r⟩

def Act.opId : Act → Nat
  | .start i _ _ => i
  | .resume i _ => i

/-- the observed run of a schedule -/
def obsRun (cfg : Cfg) (s : St) : List Act → List Obs
  | [] => []
  | a :: as => obsOf a.opId (step cfg s a).1 (step cfg s a).2 :: obsRun cfg (step cfg s a).1 as

def sameOp : OpK → OpK → Bool
  | .flush _, .flush _ => true
  | a, b => a == b

/-- `as` is a schedule of the operation table `ops`: ids are unique, every started operation is its
    table entry (a flush with any iteration order of the dirty set), nothing is started twice, and
    put values are pairwise distinct (so that a returned value names its write) -/
def Schedule (ops : List (Nat × OpK)) (as : List Act) : Prop :=
  (ops.map (·.1)).Nodup ∧
  (∀ i op now, Act.start i op now ∈ as → ∃ op', (i, op') ∈ ops ∧ sameOp op' op = true) ∧
  (as.filterMap fun a => match a with | .start i _ _ => some i | _ => none).Nodup ∧
  (ops.filterMap fun x => match x.2 with | .put _ v => some v | _ => none).Nodup

/-- `read_after_write` at the property's strength: for every interleaving of operation segments the
    observed run of the repaired store passes the Spec's read clause — a `get` returns the value of a
    write that no write completed before the `get` was issued entirely follows (or nothing, if no
    write completed before it).  Proved below (`read_after_write_all_interleavings`). -/
def read_after_write_full : Prop :=
  ∀ (cfg : Cfg), cfg.rep = true → 1 ≤ cfg.cap →
  ∀ (name : String) (arg : Nat) (p : Pol), Pol.ofName name arg = some p →
  ∀ (ops : List (Nat × OpK)) (as : List Act), Schedule ops as →
    judgeReads cfg ops (obsRun cfg (St.init p) as) = none

theorem sameOp_cases {a b : OpK} (h : sameOp a b = true) :
    (∃ o1 o2, a = .flush o1 ∧ b = .flush o2) ∨ a = b := by
  cases a <;> cases b <;> first
    | exact Or.inl ⟨_, _, rfl, rfl⟩
    | exact Or.inr (eq_of_beq h)

theorem obsRun_eq (cfg : Cfg) (s : St) (as : List Act) : obsRun cfg s as = obsRunG obsOf cfg s as := by
  induction as generalizing s with
  | nil => rfl
  | cons a as ih =>
    have : a.opId = actId a := by cases a <;> rfl
    simp only [obsRun, obsRunG, this, ih]

/-- **`read_after_write` for all interleavings** (repaired store, both write modes, every policy and
    capacity, every schedule of operation segments — overlapping puts, deletes, misses in flight,
    evictions, invalidations and flushes alike): the judge's read clause accepts the observed run.
    The invariant (`RInvA`, files `Raw*.lean`): the cache only ever holds the value of a write that no
    started write entirely follows; so does the backing store for a clean key, up to the writes whose
    backing-store write is still in flight; a pending miss with a current epoch has a clean key, so
    with nothing in flight what it fills is fresh. -/
theorem read_after_write_all_interleavings : read_after_write_full := by
  intro cfg hrep _ _ _ p _ ops as hs
  obtain ⟨hnd, htab, hstart, _⟩ := hs
  rw [obsRun_eq]
  refine raw_judge cfg hrep obsOf (fun _ _ _ => rfl) (fun _ _ _ => rfl) ops hnd p as ⟨hstart, ?_, ?_⟩
  · intro i _ hi; cases hi
  · intro i op now hm
    obtain ⟨op', hop, hso⟩ := htab i op now hm
    exact ⟨op', hop, sameOp_cases hso⟩

/-- non-vacuity: a table and a schedule in which a miss of key 0 is in flight while a put of key 0
    starts and completes around it (capacity 1, so the put of key 1 evicts key 0 first) is a `Schedule` -/
example :
    let ops := [(0, OpK.put 0 1), (1, .put 1 9), (2, .get 0), (3, .put 0 2), (4, .get 0)]
    let as := [Act.start 0 (.put 0 1) 0, .resume 0 0, .start 1 (.put 1 9) 0, .resume 1 0,
               .start 2 (.get 0) 0, .start 3 (.put 0 2) 0, .resume 2 0, .resume 3 0,
               .start 4 (.get 0) 0, .resume 4 0]
    Schedule ops as := by
  refine ⟨by decide, ?_, by decide, by decide⟩
  intro i op now h
  simp only [List.mem_cons, Act.start.injEq, List.mem_nil_iff, or_false, reduceCtorEq, false_or] at h
  rcases h with ⟨rfl, rfl, _⟩ | ⟨rfl, rfl, _⟩ | ⟨rfl, rfl, _⟩ | ⟨rfl, rfl, _⟩ | ⟨rfl, rfl, _⟩
  · exact ⟨.put 0 1, by decide, by decide⟩
  · exact ⟨.put 1 9, by decide, by decide⟩
  · exact ⟨.get 0, by decide, by decide⟩
  · exact ⟨.put 0 2, by decide, by decide⟩
  · exact ⟨.get 0, by decide, by decide⟩

/-- … on which the repaired store (capacity 1, write-through, LRU) passes the read clause: the miss
    (get 2) reads the old value 1 from the backing store while put 3 is in flight — allowed, put 3 has
    not completed — and does **not** fill the cache (older epoch, write in flight), so get 4, issued
    after put 3 completed, returns 2.  The current code fills, and get 4 returns the overwritten 1. -/
theorem read_after_write_overlap_witness :
    let cfg : Cfg := ⟨1, true, true, []⟩
    let ops := [(0, OpK.put 0 1), (1, .put 1 9), (2, .get 0), (3, .put 0 2), (4, .get 0)]
    let as := [Act.start 0 (.put 0 1) 0, .resume 0 0, .start 1 (.put 1 9) 0, .resume 1 0,
               .start 2 (.get 0) 0, .start 3 (.put 0 2) 0, .resume 2 0, .resume 3 0,
               .start 4 (.get 0) 0, .resume 4 0]
    judgeReads cfg ops (obsRun cfg (St.init (.lru {})) as) = none ∧
    (obsRun cfg (St.init (.lru {})) as).map (·.res) =
      [none, some .none, none, some .none, none, none, some (.val 1), some .none, none, some (.val 2)] ∧
    judgeReads { cfg with rep := false } ops (obsRun { cfg with rep := false } (St.init (.lru {})) as)
      = some "store/read-after-write/stale/wt/after-put" := by decide

/-- `read_after_write` with overlapping writes ordered (write-through): "that write's value or a later
    one", where a write is later than another when it was issued after it **and** completed after it.
    For every schedule in which no segment of an operation is attempted before its first one (as in
    every observed run), the observed run of the repaired write-through store passes the Spec's
    ordered read clause `judgeReadsOrd` — a get never returns the value of a write that a write
    completed before the get was issued has superseded. -/
def read_after_write_ordered_full : Prop :=
  ∀ (cfg : Cfg), cfg.rep = true → cfg.wt = true → 1 ≤ cfg.cap →
  ∀ (name : String) (arg : Nat) (p : Pol), Pol.ofName name arg = some p →
  ∀ (ops : List (Nat × OpK)) (as : List Act), Schedule ops as → lateOk [] as = true →
    judgeReadsOrd cfg ops (obsRun cfg (St.init p) as) = none

/-- **ordered `read_after_write` for all interleavings** (repaired write-through store, every policy
    and capacity).  Nothing is ever dirty in a write-through store, so the backing store holds the
    value of the write that completed last, and a cache entry is the value of the write issued last —
    or, after a miss fill, of the write that had completed last when nothing was in flight (the
    per-key in-flight *count*: a fill while a second overlapping write is still on its way would
    install a superseded value). -/
theorem read_after_write_ordered_all_interleavings : read_after_write_ordered_full := by
  intro cfg hrep hwt _ _ _ p _ ops as hs hlate
  obtain ⟨hnd, htab, hstart, _⟩ := hs
  rw [obsRun_eq]
  refine oraw_judge cfg hrep hwt obsOf (fun _ _ _ => rfl) (fun _ _ _ => rfl) ops hnd p as ⟨hstart, ?_, ?_⟩ hlate
  · intro i _ hi; cases hi
  · intro i op now hm
    obtain ⟨op', hop, hso⟩ := htab i op now hm
    exact ⟨op', hop, sameOp_cases hso⟩

/-- non-vacuity, and what the ordered clause adds: two overlapping puts of one key (put 1 issued and
    completed after put 0), the key invalidated, a miss that reads the backing store between the two
    applications, a get once both completed.  The repaired store does not fill (one write is still in
    flight) and returns 2; the store without the in-flight guard (`current`) fills 1 and keeps serving
    it — accepted by the regular-register clause (the puts overlap), rejected by the ordered one. -/
theorem read_after_write_ordered_witness :
    let cfg : Cfg := ⟨4, true, true, []⟩
    let ops := [(0, OpK.put 0 1), (1, .put 0 2), (2, .inv 0), (3, .get 0), (4, .get 0)]
    let as := [Act.start 0 (.put 0 1) 0, .start 1 (.put 0 2) 0, .resume 0 0, .start 2 (.inv 0) 0,
               .start 3 (.get 0) 0, .resume 3 0, .resume 1 0, .start 4 (.get 0) 0, .resume 4 0]
    lateOk [] as = true ∧
    judgeReadsOrd cfg ops (obsRun cfg (St.init (.lru {})) as) = none ∧
    (obsRun cfg (St.init (.lru {})) as).getLast?.map (·.res) = some (some (.val 2)) ∧
    judgeReads { cfg with rep := false } ops (obsRun { cfg with rep := false } (St.init (.lru {})) as) = none ∧
    judgeReadsOrd { cfg with rep := false } ops (obsRun { cfg with rep := false } (St.init (.lru {})) as)
      = some "store/read-after-write/superseded/wt/value" := by decide

/-- what the harness prints after a segment, key lists as they are (unsorted: the clauses only ask
    for membership, and `sortKeys` does not reduce under `decide`) -/
def obsRaw (i : Nat) (s : St) (r : Option Res) : Obs := ⟨i, akeys s.cache, s.dirty, s.pol.tracked, r⟩

/-- **the ordered clause is false of the write-back store** (model = code as it is; known finding
    fixes/C16-writeback-overtaken-by-delete.known.md, witness corpus/C16/writeback-overtaken-by-delete.json):
    capacity 1, `delete(0)` is issued; while its backing-store delete is in flight `put(0,1)` is issued
    (dirty in the cache) and `put(1,2)` evicts key 0, whose value is written back synchronously; then
    the delete lands on it, then the put of key 0 completes.  The put was issued after the delete and
    completed after it, yet the `get(0)` issued afterwards finds nothing — the write never reaches the
    backing store for good.  The schedule is admissible, the regular-register clause accepts the run
    (put and delete overlap), the ordered clause rejects it with the signature of this cause. -/
theorem read_after_write_ordered_writeback_false :
    let cfg : Cfg := ⟨1, false, true, []⟩
    let ops := [(0, OpK.del 0), (1, .put 0 1), (2, .put 1 2), (3, .get 0)]
    let as := [Act.start 0 (.del 0) 0, .start 1 (.put 0 1) 0, .start 2 (.put 1 2) 0, .resume 0 0,
               .resume 1 0, .resume 2 0, .start 3 (.get 0) 0, .resume 3 0]
    lateOk [] as = true ∧
    (run cfg (St.init (.lru {})) as).back = [] ∧
    (obsRunG obsRaw cfg (St.init (.lru {})) as).getLast?.map (·.res) = some (some .none) ∧
    judgeReads cfg ops (obsRunG obsRaw cfg (St.init (.lru {})) as) = none ∧
    judgeReadsOrd cfg ops (obsRunG obsRaw cfg (St.init (.lru {})) as)
      = some "store/read-after-write/superseded/wb/writeback-overtaken-by-earlier-delete" ∧
    ¬ (∀ (ops : List (Nat × OpK)) (as : List Act), lateOk [] as = true →
        judgeReadsOrd cfg ops (obsRunG obsRaw cfg (St.init (.lru {})) as) = none) := by
  refine ⟨by decide, by decide, by decide, by decide, by decide, ?_⟩
  intro h
  have := h [(0, OpK.del 0), (1, .put 0 1), (2, .put 1 2), (3, .get 0)]
    [Act.start 0 (.del 0) 0, .start 1 (.put 0 1) 0, .start 2 (.put 1 2) 0, .resume 0 0,
     .resume 1 0, .resume 2 0, .start 3 (.get 0) 0, .resume 3 0] (by decide)
  revert this
  decide

/-- `read_after_write`, proved part: when operations do not overlap (each runs all its segments
    before the next starts — `execOp`), the repaired store with any policy, capacity ≥ 1 and either
    write mode is a map: every `get` returns the value of the latest `put` of its key, nothing after
    a `delete` or before any `put` (`SeqOk`), whatever evictions, invalidations and flushes happen
    in between. -/
theorem read_after_write_sequential (cfg : Cfg) (hrep : cfg.rep = true) (hcap : 1 ≤ cfg.cap)
    (name : String) (arg : Nat) (p : Pol) (hp : Pol.ofName name arg = some p)
    (ops : List (OpK × Nat)) : SeqOk cfg (St.init p) [] 0 ops :=
  seqOk_of_rinv cfg hrep hcap _ [] 0 ops (rinv_init cfg name arg p hp)

/-- non-vacuity: capacity 1, write-back, FIFO: put a, put b (evicts dirty a), get a (miss, refetched
    from the backing store: 7), delete a, get a (nothing) -/
example :
    let cfg : Cfg := ⟨1, false, true, []⟩
    let s1 := (execOp cfg (St.init (.fifo {})) 0 (.put 0 7) 0).1
    let s2 := (execOp cfg s1 1 (.put 1 8) 0).1
    let s3 := execOp cfg s2 2 (.get 0) 0
    let s4 := (execOp cfg s3.1 3 (.del 0) 0).1
    s3.2 = some (.val 7) ∧ (execOp cfg s4 4 (.get 0) 0).2 = some .none := by decide

/-- the read clause evaluated on a model run with an overlap (write-through: put a=1 completes;
    delete a and a miss of a overlap; a later get): the repaired store passes, the current code serves
    the deleted value (corpus/C16/delete-refill-race.json) -/
theorem read_after_write_refill_witness :
    let cfg : Cfg := ⟨2, true, true, []⟩
    let ops := [(0, OpK.put 0 1), (1, .del 0), (2, .get 0), (3, .get 0)]
    let as := [Act.start 0 (.put 0 1) 0, .resume 0 0, .start 1 (.del 0) 0, .start 2 (.get 0) 0,
               .resume 2 0, .resume 1 0, .start 3 (.get 0) 0, .resume 3 0]
    judgeReads cfg ops (obsRun cfg (St.init (.lru {})) as) = none ∧
    judgeReads { cfg with rep := false } ops (obsRun { cfg with rep := false } (St.init (.lru {})) as)
      = some "store/read-after-write/stale/wt/after-delete" := by decide

/-! ## Part 3 — `SoftTTLCache` -/

/-- `soft_ttl_age_le_hard` (repaired): along every schedule and for all clock readings, every value
    served from the cache comes from an entry younger than the hard TTL at the moment it was chosen
    (`soft_ttl ≤ hard_ttl` is what the constructor enforces). -/
theorem soft_ttl_age_le_hard (cfg : TCfg) (hrep : cfg.rep = true) (hsh : cfg.soft ≤ cfg.hard)
    (as : List TAct) : ∀ r ∈ (tRun cfg {} as).2, r.ageOk cfg.hard = true :=
  tRun_ok cfg hrep hsh {} as (by intro x hx; simp at hx)

/-- the schedule of corpus/C16/softttl-coalesced-expired.json: soft 10 ms, hard 20 ms, read latency
    5 ms; fetch at 6 ms, key deleted from the backing store, stale hit at 25 ms starts a refresh,
    coalesced get at 27 ms ends its wait at 32 ms -/
def softWitness : List TAct :=
  [.start 0 (.bput 0 7) 0, .start 1 (.get 0) 1, .resume 1 6, .start 2 (.bdel 0) 7,
   .start 3 (.get 0) 25, .start 1000 (.refresh 0) 25, .resume 3 25, .start 4 (.get 0) 27,
   .resume 1000 30, .resume 4 32]

/-- current code: the coalesced request is served the entry cached at 6 at time 32 — age 26 ≥ 20 -/
theorem soft_ttl_expired_served_current :
    TRes.served 7 6 32 ∈ (tRun ⟨10, 20, none, false⟩ {} softWitness).2 ∧
      (TRes.served 7 6 32).ageOk 20 = false := by decide

/-- repaired code on the same schedule: the expired entry is not served (non-vacuity of the theorem:
    a stale hit is served, the coalesced request falls through to a fetch) -/
example :
    (tRun ⟨10, 20, none, true⟩ {} (softWitness ++ [.resume 4 37])).2 =
      [.done, .fetched 7, .done, .served 7 6 25, .done, .none] := by decide

/-- `soft_ttl_size_le_capacity`: along every schedule of client-operation and background-refresh
    segments (both variants, any TTLs, any clock readings) a `SoftTTLCache` with a finite capacity
    (≥ 1, what the constructor enforces) holds at most that many entries — in particular when a
    refresh completes after its key was evicted or invalidated. -/
theorem soft_ttl_size_le_capacity (cfg : TCfg) (c : Nat) (hc : cfg.cap = some c) (h1 : 1 ≤ c) (as : List TAct) :
    (tRun cfg {} as).1.cache.length ≤ c :=
  (tRun_z cfg {} as zinv_init (fun _ _ _ => Nat.zero_le _)).2 c hc h1

/-- `soft_ttl_lru_keys_eq_cache_keys`: along every schedule the LRU bookkeeping (`_access_order`)
    tracks exactly the cached keys, each once — every entry can be chosen as a victim. -/
theorem soft_ttl_lru_keys_eq_cache_keys (cfg : TCfg) (as : List TAct) :
    (∀ x, x ∈ (tRun cfg {} as).1.order ↔ x ∈ akeys (tRun cfg {} as).1.cache) ∧
      (tRun cfg {} as).1.order.Nodup ∧ (akeys (tRun cfg {} as).1.cache).Nodup :=
  have r := (tRun_z cfg {} as zinv_init (fun _ _ _ => Nat.zero_le _)).1
  ⟨r.same, r.ond, r.cnd⟩

/-- non-vacuity: capacity 2, keys 0 and 1 cached; a stale hit on 0 starts a refresh (operation 1000);
    while it reads the backing store two misses (2, 3) complete and evict 1 and then 0; the refresh
    completes and re-inserts 0 through `_store`, which evicts 2: two entries, both tracked, 0 most recent -/
example :
    let cfg : TCfg := ⟨2000, 10000, some 2, true⟩
    let s := (tRun cfg {} [.start 0 (.bput 0 7) 0, .start 1 (.bput 1 8) 0, .start 2 (.bput 2 9) 0, .start 3 (.bput 3 10) 0,
      .start 4 (.get 0) 0, .resume 4 10, .start 5 (.get 1) 100, .resume 5 110,
      .start 6 (.get 2) 2995, .start 7 (.get 3) 2996, .start 8 (.get 0) 3000, .start 1000 (.refresh 0) 3000,
      .resume 8 3000, .resume 6 3005, .resume 7 3006, .resume 1000 3010]).1
    akeys s.cache = [3, 0] ∧ s.order = [3, 0] ∧ s.refreshing = [] := by decide

end HappyModel.C16
