import HappyProofs.C16.TRawE
/-!
Multi-tier read-after-write over every interleaving, part 6: the later segments of the reads
(`get` served by a tier, `get` served by the backing store, a direct tier read).
-/
namespace HappyModel.C16.Tier
open HappyModel.C16

theorem onTier_epoch (cfg : MCfg) (ms : MSt) (t : Nat) (f : Cfg → St → St × Option Res) :
    (onTier cfg ms t f).1.epoch = ms.epoch := by
  unfold onTier; split <;> rfl

theorem no_infl_of_count {g : Gh} {ms : MSt} (pi : MPI g ms) (k : Key) (h : cnt ms.infl k = 0) (j : Nat) :
    ¬ InFl ms k j := by
  rintro ⟨p, hp, hk⟩
  rw [pi.infl k] at h
  unfold inflCount at h
  have : (j, p) ∈ ms.pend.filter (fun x => inflKey x.2 == some k) := by
    rw [List.mem_filter]; exact ⟨hp, by simp [hk]⟩
  rw [List.length_eq_zero_iff.mp h] at this
  cases this

/-- what is left of the invariant in the old context after a *read* continuation of `i` ran on
    tier `t` (or nowhere) -/
structure ReadDone (g : Gh) (ms0 ms' : MSt) (i : Nat) : Prop where
  pi : MPI g ms'
  vi : MVI g ms'
  pend : ms'.pend = (ms0.clearPend i).pend
  epoch : ms'.epoch = ms0.epoch
  infl : ms'.infl = ms0.infl
  back : ms'.back = ms0.back
  lim : Limbo g ms'
  noPut : ∀ (t : Nat) (s : St), ms'.tiers[t]? = some s → ∀ x ∈ s.pend, (∃ k v, x.2 = Pend.putWT k v) → x.1 ≠ i

/-- `i`'s continuation is a read (keeps nothing in flight) and is taken out; tier `t` ran the
    tier-level later segment of `i`, or nothing happened -/
theorem read_done {g : Gh} {ms0 ms' : MSt} {i : Nat} {p : MPend} (h : MInv g ms0) (hm : (i, p) ∈ ms0.pend)
    (hpk : inflKey p = none) (hnp : ∀ k v, (i, OpK.put k v) ∉ g.ops)
    (hp : ms'.pend = (ms0.clearPend i).pend) (he : ms'.epoch = ms0.epoch) (hi : ms'.infl = ms0.infl)
    (hb : ms'.back = ms0.back)
    (ht : ∀ (t : Nat) (s' : St), ms'.tiers[t]? = some s' → ∃ s : St, ms0.tiers[t]? = some s ∧
      s'.dirty = [] ∧ (∀ x ∈ s'.pend, x ∈ s.pend) ∧
      ∀ x w, aget? s'.cache x = some w → aget? s.cache x = some w ∨ aget? ms0.back x = some w) :
    ReadDone g ms0 ms' i := by
  have hp' : ms'.pend = (ms0.clearPend i).pend ++ [] := by rw [hp]; simp
  have hnotI : ∀ x j, InFl ms0 x j → j ≠ i := by
    rintro x j ⟨q, hq, hk⟩ e
    subst e
    rw [mpend_unique h.pi hq hm, hpk] at hk; cases hk
  have hnotB : ∀ x j, BPm ms0 x j → j ≠ i := by
    rintro x j ⟨q, hq, hk⟩
    exact hnotI x j ⟨q, hq, inflKey_of_mbwKey hk⟩
  refine ⟨?_, ?_, hp, he, hi, hb, ?_, ?_⟩
  · refine mpi_clear h.pi hm hp' (Or.inl rfl) ?_ (fun x => by rw [he]; exact Nat.le_refl _)
      (fun x j _ hj => infl_clear hp' (hnotI x j hj) hj) (fun x => Or.inl (by rw [hb])) ?_
    · intro x
      rw [hi, hp, h.pi.infl x]
      show _ = inflCount (ms0.pend.filter (fun y => y.1 != i)) x
      rw [inflCount_clear ms0.pend i p x h.pi.pendND hm, hpk]; simp
    · intro t s' hs'
      obtain ⟨s, hs, _, hsub, _⟩ := ht t s' hs'
      exact ⟨s, hs, fun x hx => Or.inl (hsub x hx)⟩
  · refine mvi_update h.vi none (fun k j _ hbj => bpm_clear hp' (hnotB k j hbj) hbj) ?_
      (fun x => Or.inl ⟨by simp, by rw [hb]⟩) (fun t s' hs' => (ht t s' hs').choose_spec.2.1) ?_
    · intro t s' x w hs' hw
      obtain ⟨s, hs, _, _, hc⟩ := ht t s' hs'
      rcases hc x w hw with h' | h'
      · exact Or.inl ⟨by simp, t, s, hs, h'⟩
      · exact Or.inr (Or.inl ⟨by simp, h'⟩)
    · intro t s' hs'
      obtain ⟨s, hs, _, hsub, _⟩ := ht t s' hs'
      exact tp_of_pend (h.vi.tp t s hs) hsub
  · intro j op k hj hjm hk
    rcases h.lim.elim hj hjm hk with h' | h'
    · exact Or.inl (infl_clear hp' (hnotI k j h') h')
    · exact Or.inr (Or.inl h')
  · intro t s' hs' x hx hput
    obtain ⟨s, hs, _, hsub, _⟩ := ht t s' hs'
    obtain ⟨k, v, e⟩ := hput
    rcases (h.vi.tp t s hs x (hsub x hx)).2 with ⟨v', e'⟩ | ⟨k', e'', e'⟩ | ⟨k', v', e', _, ho, _⟩
    · rw [e] at e'; cases e'
    · rw [e] at e'; cases e'
    · intro exi
      rw [exi] at ho
      exact hnp k' v' ho

/-- running the tier-level later segment of `i` on tier `t` -/
theorem onTier_resume_shape (cfg : MCfg) {g : Gh} {ms0 : MSt} (h : MInv g ms0) (i t now : Nat)
    (hnp : ∀ k v, (i, OpK.put k v) ∉ g.ops) :
    let R := onTier cfg (ms0.clearPend i) t (fun c s => step c s (.resume i now))
    R.1.pend = (ms0.clearPend i).pend ∧ R.1.epoch = ms0.epoch ∧ R.1.infl = ms0.infl ∧ R.1.back = ms0.back ∧
    (∀ (t' : Nat) (s' : St), R.1.tiers[t']? = some s' → ∃ s : St, ms0.tiers[t']? = some s ∧
      s'.dirty = [] ∧ (∀ x ∈ s'.pend, x ∈ s.pend) ∧
      ∀ x w, aget? s'.cache x = some w → aget? s.cache x = some w ∨ aget? ms0.back x = some w) ∧
    (R.2 = none ∨ ∃ s : St, ms0.tiers[t]? = some s ∧
      ((∃ v, (i, Pend.getHit v) ∈ s.pend ∧ R.2 = some (.val v)) ∨
       (∃ k e, (i, Pend.getMiss k e) ∈ s.pend ∧ R.2 = some (resOf (aget? ms0.back k))))) := by
  intro R
  have same : ∀ (t' : Nat) (s' : St), ms0.tiers[t']? = some s' → ∃ s : St, ms0.tiers[t']? = some s ∧
      s'.dirty = [] ∧ (∀ x ∈ s'.pend, x ∈ s.pend) ∧
      ∀ x w, aget? s'.cache x = some w → aget? s.cache x = some w ∨ aget? ms0.back x = some w :=
    fun t' s' hs' => ⟨s', hs', h.vi.d t' s' hs', fun x hx => hx, fun x w hw => Or.inl hw⟩
  rcases onTier_cases cfg (ms0.clearPend i) t (fun c s => step c s (.resume i now)) with ⟨c, s, hc, hs, e⟩ | e
  · have hs0 : ms0.tiers[t]? = some s := hs
    have tr := tier_resume (g := g) (t := t) c s (ms0.clearPend i).back i now (h.vi.d t s hs0) (h.vi.tp t s hs0)
    have hbk : (step c (plug s (ms0.clearPend i).back) (.resume i now)).1.back = ms0.back := by
      rcases tr.back with hb | ⟨k, v, hmem, _⟩
      · exact hb
      · rcases (h.vi.tp t s hs0 _ hmem).2 with ⟨v', e'⟩ | ⟨k', e'', e'⟩ | ⟨k', v', e', _, ho, _⟩
        · cases e'
        · cases e'
        · exact absurd ho (hnp k' v')
    show (R.1.pend = _ ∧ _)
    have eR : R = _ := e
    rw [eR]
    refine ⟨rfl, rfl, rfl, hbk, ?_, ?_⟩
    · intro t' s' hs'
      have hs' : ((ms0.clearPend i).tiers.set t (step c (plug s (ms0.clearPend i).back) (.resume i now)).1)[t']? = some s' := hs'
      rcases getElem?_set_cases hs' with ⟨et, es⟩ | ⟨_, hold⟩
      · subst et; subst es
        exact ⟨s, hs0, tr.dirty, tr.pendSub, tr.cache⟩
      · exact same t' s' hold
    · rcases tr.res with hr | ⟨v, hmem, hr⟩ | ⟨k, e', hmem, hr⟩ | ⟨k, v, hmem, _⟩
      · exact Or.inl hr
      · exact Or.inr ⟨s, hs0, Or.inl ⟨v, hmem, hr⟩⟩
      · exact Or.inr ⟨s, hs0, Or.inr ⟨k, e', hmem, hr⟩⟩
      · rcases (h.vi.tp t s hs0 _ hmem).2 with ⟨v', e'⟩ | ⟨k', e'', e'⟩ | ⟨k', v', e', _, ho, _⟩
        · cases e'
        · cases e'
        · exact absurd ho (hnp k' v')
  · have eR : R = _ := e
    rw [eR]
    exact ⟨rfl, rfl, rfl, rfl, same, Or.inl rfl⟩

/-- `_maybe_promote` / `_cache_value` with a value that is fresh against the writes that reached the
    backing store -/
theorem fillL1_done (cfg : MCfg) {g : Gh} {ms0 ms : MSt} {i : Nat} (d : ReadDone g ms0 ms i) (k v now : Nat)
    (hf : Fresh g k (some v) (fun j => ¬ BPm ms k j)) : ReadDone g ms0 (ms.fillL1 cfg k v now) i := by
  unfold MSt.fillL1
  rcases onTier_cases cfg ms 0 (fun c s => (cachePut c s k v now, none)) with ⟨c, s, hc, hs, e⟩ | e
  · rw [e]
    obtain ⟨ts, tp, _⟩ := cachePut_nb c (plug s ms.back) k v now (d.vi.d 0 s hs)
    have hbk : (cachePut c (plug s ms.back) k v now).back = ms.back := ts.back
    have htier : ∀ (t' : Nat) (s' : St),
        (ms.tiers.set 0 (cachePut c (plug s ms.back) k v now))[t']? = some s' →
        (t' = 0 ∧ s' = cachePut c (plug s ms.back) k v now) ∨ ms.tiers[t']? = some s' := by
      intro t' s' hs'
      rcases getElem?_set_cases hs' with ⟨a, b⟩ | ⟨_, b⟩
      · exact Or.inl ⟨a, b⟩
      · exact Or.inr b
    refine ⟨?_, ?_, d.pend, d.epoch, d.infl, hbk.trans d.back, ?_, ?_⟩
    · refine mpi_same d.pi rfl rfl rfl (fun x => by show aget? (cachePut c (plug s ms.back) k v now).back x = _; rw [hbk]) ?_
      intro t' s' hs'
      rcases htier t' s' hs' with ⟨a, b⟩ | b
      · subst a; subst b
        exact ⟨s, hs, fun x hx => by rw [tp] at hx; exact hx⟩
      · exact ⟨s', b, fun x hx => hx⟩
    · refine mvi_update d.vi none (fun k' j _ hb => hb) ?_
        (fun x => Or.inl ⟨by simp, by show aget? (cachePut c (plug s ms.back) k v now).back x = _; rw [hbk]⟩) ?_ ?_
      · intro t' s' x w hs' hw
        rcases htier t' s' hs' with ⟨a, b⟩ | b
        · subst a; subst b
          rcases ts.cache x w hw with h' | h'
          · exact Or.inl ⟨by simp, 0, s, hs, h'⟩
          · cases h'; exact Or.inr (Or.inr hf)
        · exact Or.inl ⟨by simp, t', s', b, hw⟩
      · intro t' s' hs'
        rcases htier t' s' hs' with ⟨a, b⟩ | b
        · subst b; exact ts.dirty
        · exact d.vi.d t' s' b
      · intro t' s' hs'
        rcases htier t' s' hs' with ⟨a, b⟩ | b
        · subst a; subst b
          exact tp_of_pend (d.vi.tp 0 s hs) (fun x hx => by rw [tp] at hx; exact hx)
        · exact d.vi.tp t' s' b
    · exact d.lim
    · intro t' s' hs' x hx hput
      rcases htier t' s' hs' with ⟨a, b⟩ | b
      · subst a; subst b
        rw [tp] at hx
        exact d.noPut 0 s hs x hx hput
      · exact d.noPut t' s' b x hx hput
  · rw [e]; exact d

end HappyModel.C16.Tier
