import HappyProofs.C16.ORawE
/-!
Ordered read-after-write (write-through stores), part 6: whole schedules and the judge's verdict
(`oraw_judge`).
-/
namespace HappyModel.C16

/-- every `resume i` comes after the `start i` (the log then shows operations from their first
    segment on, as every observed run does) -/
def lateOk : List Nat → List Act → Bool
  | _, [] => true
  | st, .start i _ _ :: as => lateOk (st ++ [i]) as
  | st, .resume i _ :: as => st.contains i && lateOk st as

theorem oraw_run (cfg : Cfg) (hrep : cfg.rep = true) (hwt : cfg.wt = true) (mk : Nat → St → Option Res → Obs)
    (hmi : ∀ i s r, (mk i s r).i = i) (hmr : ∀ i s r, (mk i s r).res = r) :
    ∀ (as : List Act) (g : Gh) (s : St), RInvA g s → OInv g s → AdmAll g as → lateOk g.started as = true →
      ∃ g', g'.ops = g.ops ∧ g'.evs = g.evs ++ obsRunG mk cfg s as ∧ OInv g' (run cfg s as) := by
  intro as
  induction as with
  | nil => intro g s _ ho _ _; exact ⟨g, rfl, by simp [obsRunG], ho⟩
  | cons a as ih =>
    intro g s h ho hadm hlate
    have hadm1 : Adm g a := by
      intro i op now e
      subst e
      exact ⟨hadm.fresh i (by rw [startIds_cons_start]; exact List.mem_cons_self),
        hadm.tab i op now List.mem_cons_self⟩
    have hl1 : ∀ i now, a = .resume i now → i ∈ g.started := by
      intro i now e
      subst e
      simp only [lateOk, Bool.and_eq_true, List.contains_iff_mem] at hlate
      exact hlate.1
    have hstep := raw_step cfg hrep h a hadm1 (mk (actId a) (step cfg s a).1 (step cfg s a).2) (hmi _ _ _) (hmr _ _ _)
    have hostep := oraw_step cfg hrep hwt h ho a hadm1 hl1 (mk (actId a) (step cfg s a).1 (step cfg s a).2)
      (hmi _ _ _) (hmr _ _ _)
    have hadm' : AdmAll (g.ext (mk (actId a) (step cfg s a).1 (step cfg s a).2) (newIds a)) as := by
      cases a with
      | start i op now =>
        have hnd := hadm.nd
        rw [startIds_cons_start, List.nodup_cons] at hnd
        refine ⟨hnd.2, ?_, fun j op' now' hj => hadm.tab j op' now' (List.mem_cons_of_mem _ hj)⟩
        intro j hj
        simp only [Gh.ext, newIds, List.mem_append, List.mem_singleton, not_or]
        refine ⟨hadm.fresh j (by rw [startIds_cons_start]; exact List.mem_cons_of_mem _ hj), ?_⟩
        intro e; subst e; exact hnd.1 hj
      | resume i now =>
        refine ⟨hadm.nd, ?_, fun j op' now' hj => hadm.tab j op' now' (List.mem_cons_of_mem _ hj)⟩
        intro j hj
        simp only [Gh.ext, newIds, List.append_nil]
        exact hadm.fresh j hj
    have hlate' : lateOk (g.ext (mk (actId a) (step cfg s a).1 (step cfg s a).2) (newIds a)).started as = true := by
      cases a with
      | start i op now => simpa [lateOk, Gh.ext, newIds] using hlate
      | resume i now =>
        simp only [lateOk, Bool.and_eq_true] at hlate
        simpa [Gh.ext, newIds] using hlate.2
    obtain ⟨g', h1, h2, h3⟩ := ih _ _ hstep hostep hadm' hlate'
    refine ⟨g', h1, ?_, h3⟩
    rw [h2]
    simp [Gh.ext, obsRunG]

theorem oinv_init (ops : List (Nat × OpK)) (p : Pol) : OInv ⟨ops, [], []⟩ { pol := p } := by
  refine ⟨rfl, ?_, ?_, ?_, ?_, ?_, ?_, ?_⟩
  · intro x hx; cases hx
  · intro i _; rfl
  · intro j op k hj; cases hj
  · intro k; exact Or.inr ⟨rfl, fun j _ hj => by cases hj⟩
  · intro k v hv; simp [aget?] at hv
  · intro i v hm; cases hm
  · intro i k rs re _ hs; simp [firstIdx] at hs

/-- **read after write with overlapping writes ordered, every interleaving** (write-through) -/
theorem oraw_judge (cfg : Cfg) (hrep : cfg.rep = true) (hwt : cfg.wt = true) (mk : Nat → St → Option Res → Obs)
    (hmi : ∀ i s r, (mk i s r).i = i) (hmr : ∀ i s r, (mk i s r).res = r)
    (ops : List (Nat × OpK)) (hnd : (ops.map (·.1)).Nodup) (p : Pol) (as : List Act)
    (hadm : AdmAll ⟨ops, [], []⟩ as) (hlate : lateOk [] as = true) :
    judgeReadsOrd cfg ops (obsRunG mk cfg { pol := p } as) = none := by
  obtain ⟨g', h1, h2, h3⟩ := oraw_run cfg hrep hwt mk hmi hmr as _ _ (rinvA_init ops hnd p) (oinv_init ops p) hadm hlate
  simp only [List.nil_append] at h1 h2
  have := judgeReadsOrd_none (cfg := cfg) h3.dO
  rw [h1, h2] at this
  exact this

end HappyModel.C16
