import HappyProofs.C16.PageLemmas
/-! C16 / PageCache — what the loops of the model (`ensure`, the read-ahead loop, the flush loops)
leave unchanged. -/
namespace HappyModel.C16.Page

theorem raLoop_frame (cfg : Cfg) (idx p : Nat) : ∀ (n i : Nat) (s : St),
    (raLoop cfg idx p n i s).1.pages = s.pages ∧ (raLoop cfg idx p n i s).1.dwb = s.dwb ∧
    (raLoop cfg idx p n i s).1.made = s.made ∧ inflight (raLoop cfg idx p n i s).1.pend = inflight s.pend := by
  intro n
  induction n with
  | zero => intro i s; simp [raLoop]
  | succ n ih =>
    intro i s
    unfold raLoop
    split
    · simp [inflight_snoc, isEvict]
    · exact ih (i + 1) s

theorem readAhead_frame (cfg : Cfg) (idx p i : Nat) (s : St) :
    (readAhead cfg idx p i s).1.pages = s.pages ∧ (readAhead cfg idx p i s).1.dwb = s.dwb ∧
    (readAhead cfg idx p i s).1.made = s.made ∧ inflight (readAhead cfg idx p i s).1.pend = inflight s.pend :=
  raLoop_frame cfg idx p _ _ s

theorem flushNextR_frame (idx : Nat) : ∀ (rest : List Nat) (n : Nat) (s : St),
    (flushNextR s idx rest n).1.pages = s.pages ∧ (flushNextR s idx rest n).1.dwb = s.dwb ∧
    (flushNextR s idx rest n).1.made = s.made ∧ inflight (flushNextR s idx rest n).1.pend = inflight s.pend := by
  intro rest
  induction rest with
  | nil => intro n s; simp [flushNextR]
  | cons p rest ih =>
    intro n s
    unfold flushNextR
    split
    · simp [inflight_snoc, isEvict]
    · exact ih n s

/-- `_ensure_space` never adds a page, and stops without a yield only when there is room -/
theorem ensure_length_le (cfg : Cfg) : ∀ (fuel : Nat) (s : St), (ensure cfg fuel s).1.pages.length ≤ s.pages.length := by
  intro fuel
  induction fuel with
  | zero => intro s; simp [ensure]
  | succ n ih =>
    intro s
    unfold ensure
    split
    · exact Nat.le_refl _
    · split
      · exact Nat.le_refl _
      · rename_i q qs hp
        split
        · split
          · simp [hp]
          · refine Nat.le_trans (ih _) ?_; simp [hp]
        · split
          · exact Nat.le_refl _
          · refine Nat.le_trans (ih _) ?_; simp [hp]

theorem ensure_room (cfg : Cfg) (hc : 0 < cfg.cap) : ∀ (fuel : Nat) (s : St), s.pages.length < fuel →
    (ensure cfg fuel s).2 = none → (ensure cfg fuel s).1.pages.length < cfg.cap := by
  intro fuel
  induction fuel with
  | zero => intro s h; omega
  | succ n ih =>
    intro s hf
    unfold ensure
    split
    · intro _; assumption
    · split
      · rename_i hp; intro _; simp [hp]; exact hc
      · rename_i q qs hp
        rw [hp] at hf
        split
        · split
          · intro h; cases h
          · exact ih _ (by simp at hf ⊢; omega)
        · split
          · intro h; cases h
          · exact ih _ (by simp at hf ⊢; omega)

/-- repaired `_ensure_space`: only clean pages are dropped silently; a popped dirty page is the
returned victim -/
theorem ensure_frame (cfg : Cfg) (hr : cfg.rep = true) : ∀ (fuel : Nat) (s : St),
    (ensure cfg fuel s).1.made = s.made ∧ (ensure cfg fuel s).1.pend = s.pend ∧ (ensure cfg fuel s).1.dwb = s.dwb ∧
    dirtyCount (ensure cfg fuel s).1.pages + b2n (ensure cfg fuel s).2.isSome = dirtyCount s.pages := by
  intro fuel
  induction fuel with
  | zero => intro s; simp [ensure]
  | succ n ih =>
    intro s
    unfold ensure
    split
    · simp
    · split
      · simp
      · rename_i q qs hp
        split
        · rename_i hd
          simp [hp, dirtyCount_cons, hd]
        · rename_i hd
          have := ih { s with pages := qs, ev := s.ev + 1, ver := s.ver + 1 }
          have hd' : q.dirty = false := by simpa using hd
          simp only [hp, dirtyCount_cons, hd', b2n_false, Nat.add_zero]
          exact this

theorem has_tail_false {q : Pg} {qs : List Pg} {p : Nat} (h : has (q :: qs) p = false) : has qs p = false := by
  rw [has_cons] at h
  cases hh : has qs p <;> simp_all

theorem ensure_has_false (cfg : Cfg) (p : Nat) : ∀ (fuel : Nat) (s : St), has s.pages p = false →
    has (ensure cfg fuel s).1.pages p = false := by
  intro fuel
  induction fuel with
  | zero => intro s h; simpa [ensure] using h
  | succ n ih =>
    intro s h
    unfold ensure
    split
    · exact h
    · split
      · exact h
      · rename_i q qs hp
        rw [hp] at h
        split
        · split
          · exact has_tail_false h
          · exact ih _ (has_tail_false h)
        · split
          · rw [hp]; exact h
          · exact ih _ (has_tail_false h)

end HappyModel.C16.Page
