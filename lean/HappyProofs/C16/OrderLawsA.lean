import HappyProofs.C16.PolicyRun
/-!
Infrastructure for the order laws: lifting a simulation relation along `runBoth`, the invariants of
the history specification alone (`SpecInv`), and lemmas about looking records up by key.
-/
namespace HappyModel.C16

/-- a relation preserved by every well-formed call holds after every well-formed run -/
theorem rel_run (R : Pol → SpecSt → Prop)
    (hstep : ∀ p s op, R p s → (s.step op (p.step op).1).wf = true →
      R (p.step op).2 (s.step op (p.step op).1))
    (p : Pol) (s : SpecSt) (ops : List POp) (h : R p s) (hwf : (runBoth p s ops).2.wf = true) :
    R (runBoth p s ops).1 (runBoth p s ops).2 := by
  induction ops generalizing p s with
  | nil => exact h
  | cons op ops ih =>
    simp only [runBoth] at hwf ⊢
    exact ih _ _ (hstep p s op h (wf_runBoth_mono _ _ ops hwf)) hwf

/-! ### what `access` does to one record -/

def touch (t : Nat) (k : Key) (r : HRec) : HRec :=
  if r.key == k then { r with last := t, cnt := r.cnt + 1 } else r

@[simp] theorem touch_key (t : Nat) (k : Key) (r : HRec) : (touch t k r).key = r.key := by
  unfold touch; split <;> rfl

@[simp] theorem touch_ins (t : Nat) (k : Key) (r : HRec) : (touch t k r).ins = r.ins := by
  unfold touch; split <;> rfl

@[simp] theorem touch_insNow (t : Nat) (k : Key) (r : HRec) : (touch t k r).insNow = r.insNow := by
  unfold touch; split <;> rfl

theorem touch_of_ne {t : Nat} {k : Key} {r : HRec} (h : r.key ≠ k) : touch t k r = r := by
  unfold touch; simp [h]

theorem touch_last_of_eq {t : Nat} {k : Key} {r : HRec} (h : r.key = k) : (touch t k r).last = t := by
  unfold touch; simp [h]

theorem touch_cnt_of_eq {t : Nat} {k : Key} {r : HRec} (h : r.key = k) :
    (touch t k r).cnt = r.cnt + 1 := by
  unfold touch; simp [h]

theorem touch_last_lt {t : Nat} {k : Key} {r : HRec} (h : r.last < t) : (touch t k r).last < t + 1 := by
  unfold touch; split
  · simp
  · omega

theorem map_touch_not_mem {t : Nat} {k : Key} {l : List HRec} (h : k ∉ l.map (·.key)) :
    l.map (touch t k) = l := by
  induction l with
  | nil => rfl
  | cons a r ih =>
    simp only [List.map_cons, List.mem_cons, not_or] at h
    rw [List.map_cons, ih h.2, touch_of_ne (fun e => h.1 e.symm)]

/-! ### the steps of the history, spelled out -/

theorem step_access (s : SpecSt) (k : Key) (res : Option Key) :
    s.step (.access k) res = { s with tick := s.tick + 1, held := s.held.map (touch s.tick k) } := rfl

theorem step_insert_wf (s : SpecSt) (k now : Nat) (res : Option Key) (h : s.has k = false) :
    s.step (.insert k now) res =
      { s with tick := s.tick + 1, held := s.held ++ [⟨k, s.tick, s.tick, 1, now⟩] } := by
  simp [SpecSt.step, h]

theorem step_remove (s : SpecSt) (k : Key) (res : Option Key) :
    s.step (.remove k) res =
      { s with tick := s.tick + 1, held := s.held.filter (fun r => r.key != k) } := rfl

theorem step_evict_some (s : SpecSt) (now : Nat) (pick : List Key) (k : Key) :
    s.step (.evict now pick) (some k) =
      { s with tick := s.tick + 1, held := s.held.filter (fun r => r.key != k) } := rfl

theorem step_evict_none (s : SpecSt) (now : Nat) (pick : List Key) :
    s.step (.evict now pick) none = { s with tick := s.tick + 1 } := rfl

theorem step_clear (s : SpecSt) (res : Option Key) :
    s.step .clear res = { s with tick := s.tick + 1, held := [] } := rfl

theorem wf_insert_not_has (s : SpecSt) (k now : Nat) (res : Option Key)
    (h : (s.step (.insert k now) res).wf = true) : s.has k = false := by
  cases hb : s.has k with
  | false => rfl
  | true => simp [SpecSt.step, hb] at h

theorem not_mem_keys_of_not_has {s : SpecSt} {k : Key} (h : s.has k = false) : k ∉ s.keys := by
  intro hm; rw [← spec_has_iff] at hm; rw [h] at hm; cases hm

theorem mem_keys_of_mem {s : SpecSt} {r : HRec} (h : r ∈ s.held) : r.key ∈ s.keys :=
  List.mem_map.mpr ⟨r, h, rfl⟩

/-! ### invariants of the history alone -/

structure SpecInv (s : SpecSt) : Prop where
  nodup : s.keys.Nodup
  ins_lt : ∀ r ∈ s.held, r.ins < s.tick
  last_lt : ∀ r ∈ s.held, r.last < s.tick
  sorted : s.held.Pairwise (fun a b => a.ins < b.ins)

theorem specInv_init : SpecInv {} :=
  ⟨by simp [SpecSt.keys], by simp, by simp, by simp⟩

theorem specInv_filter (s : SpecSt) (k : Key) (h : SpecInv s) :
    SpecInv { s with tick := s.tick + 1, held := s.held.filter (fun r => r.key != k) } := by
  obtain ⟨hn, hi, hl, hs⟩ := h
  refine ⟨?_, ?_, ?_, hs.sublist List.filter_sublist⟩
  · simp only [SpecSt.keys] at hn ⊢
    rw [keys_filter]; exact hn.sublist List.filter_sublist
  · intro r hr
    have := hi r (List.mem_filter.mp hr).1
    simp only; omega
  · intro r hr
    have := hl r (List.mem_filter.mp hr).1
    simp only; omega

theorem specInv_step (s : SpecSt) (op : POp) (res : Option Key) (h : SpecInv s)
    (hwf : (s.step op res).wf = true) : SpecInv (s.step op res) := by
  cases op with
  | access k =>
    obtain ⟨hn, hi, hl, hs⟩ := h
    refine ⟨by rw [step_keys_access]; exact hn, ?_, ?_, ?_⟩
    · intro r hr
      rw [step_access] at hr ⊢
      obtain ⟨r0, h0, rfl⟩ := List.mem_map.mp hr
      have := hi r0 h0
      simp only [touch_ins]; omega
    · intro r hr
      rw [step_access] at hr ⊢
      obtain ⟨r0, h0, rfl⟩ := List.mem_map.mp hr
      exact touch_last_lt (hl r0 h0)
    · rw [step_access]
      simp only [List.pairwise_map, touch_ins]
      exact hs
  | insert k now =>
    have hh := wf_insert_not_has s k now res hwf
    have hk := not_mem_keys_of_not_has hh
    obtain ⟨hn, hi, hl, hs⟩ := h
    refine ⟨by rw [step_keys_insert _ _ _ _ hh]; exact nodup_append_singleton hn hk, ?_, ?_, ?_⟩
    · intro r hr
      rw [step_insert_wf _ _ _ _ hh] at hr ⊢
      simp only [List.mem_append, List.mem_singleton] at hr
      rcases hr with hr | rfl
      · have := hi r hr; simp only; omega
      · simp
    · intro r hr
      rw [step_insert_wf _ _ _ _ hh] at hr ⊢
      simp only [List.mem_append, List.mem_singleton] at hr
      rcases hr with hr | rfl
      · have := hl r hr; simp only; omega
      · simp
    · rw [step_insert_wf _ _ _ _ hh]
      simp only [List.pairwise_append]
      refine ⟨hs, by simp, ?_⟩
      intro a ha b hb
      simp only [List.mem_singleton] at hb; subst hb
      exact hi a ha
  | remove k => rw [step_remove]; exact specInv_filter s k h
  | evict now pick =>
    cases res with
    | some k => rw [step_evict_some]; exact specInv_filter s k h
    | none =>
      obtain ⟨hn, hi, hl, hs⟩ := h
      rw [step_evict_none]
      exact ⟨hn, fun r hr => Nat.lt_succ_of_lt (hi r hr), fun r hr => Nat.lt_succ_of_lt (hl r hr), hs⟩
  | clear =>
    rw [step_clear]
    exact ⟨by simp [SpecSt.keys], by simp, by simp, by simp⟩

/-! ### looking records up by key -/

theorem find_of_mem {l : List HRec} (h : (l.map (·.key)).Nodup) {r : HRec} (hr : r ∈ l) :
    l.find? (fun x => x.key == r.key) = some r := by
  induction l with
  | nil => cases hr
  | cons a t ih =>
    simp only [List.map_cons, List.nodup_cons] at h
    rw [List.find?_cons]
    by_cases e : a.key = r.key
    · simp only [e, beq_self_eq_true]
      rcases List.mem_cons.mp hr with rfl | hr'
      · rfl
      · exact absurd (List.mem_map.mpr ⟨r, hr', rfl⟩) (e ▸ h.1)
    · have : (a.key == r.key) = false := by simpa using e
      simp only [this]
      rcases List.mem_cons.mp hr with rfl | hr'
      · exact absurd rfl e
      · exact ih h.2 hr'

theorem rec_unique {l : List HRec} (h : (l.map (·.key)).Nodup) {a b : HRec} (ha : a ∈ l) (hb : b ∈ l)
    (e : a.key = b.key) : a = b := by
  have h1 := find_of_mem h ha
  have h2 := find_of_mem h hb
  rw [e, h2] at h1
  exact (Option.some.inj h1).symm

theorem rec?_of_mem {s : SpecSt} (h : s.keys.Nodup) {r : HRec} (hr : r ∈ s.held) :
    s.rec? r.key = some r := find_of_mem h hr

theorem exists_rec_of_mem_keys {s : SpecSt} {k : Key} (h : k ∈ s.keys) :
    ∃ r, r ∈ s.held ∧ r.key = k := by
  obtain ⟨r, hr, e⟩ := List.mem_map.mp h
  exact ⟨r, hr, e⟩

theorem filter_ne_head {a : Key} {r : List Key} (h : (a :: r).Nodup) :
    (a :: r).filter (fun x => x != a) = r := by
  rw [← h.erase_eq_filter]; simp

/-! ### projections of the held records as association lists -/

theorem akeys_proj {α} (l : List HRec) (f : HRec → α) :
    akeys (l.map (fun r => (r.key, f r))) = l.map (·.key) := by
  simp [akeys, Function.comp_def]

theorem proj_filter {α} (l : List HRec) (f : HRec → α) (k : Key) :
    adel (l.map (fun r => (r.key, f r))) k =
      (l.filter (fun r => r.key != k)).map (fun r => (r.key, f r)) := by
  simp only [adel]; rw [List.filter_map]; rfl

theorem aget?_proj {α} (l : List HRec) (f : HRec → α) (k : Key) :
    aget? (l.map (fun r => (r.key, f r))) k = (l.find? (fun r => r.key == k)).map f := by
  induction l with
  | nil => rfl
  | cons a t ih =>
    simp only [aget?, List.map_cons, List.find?_cons] at ih ⊢
    by_cases e : a.key = k
    · simp [e]
    · have : (a.key == k) = false := by simpa using e
      simp only [this]; exact ih

/-- `argminFirst` returns an entry whose value is below every value -/
theorem argminFirst_le (l : List (Key × Nat)) (p : Key × Nat) (h : argminFirst l = some p) :
    ∀ q ∈ l, p.2 ≤ q.2 := by
  induction l generalizing p with
  | nil => simp [argminFirst] at h
  | cons a t ih =>
    simp only [argminFirst] at h
    split at h
    · rename_i hn
      have : t = [] := (argminFirst_eq_none t).mp hn
      subst this
      simp only [Option.some.injEq] at h; subst h
      intro q hq; simp only [List.mem_singleton] at hq; subst hq; exact Nat.le_refl _
    · rename_i m hm
      have hle := ih m hm
      split at h
      · rename_i hlt
        simp only [Option.some.injEq] at h; subst h
        intro q hq
        rcases List.mem_cons.mp hq with rfl | hq'
        · omega
        · exact hle q hq'
      · rename_i hlt
        simp only [Option.some.injEq] at h; subst h
        intro q hq
        rcases List.mem_cons.mp hq with rfl | hq'
        · exact Nat.le_refl _
        · have := hle q hq'; omega

end HappyModel.C16
