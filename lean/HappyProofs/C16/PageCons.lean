import HappyProofs.C16.PageFrames
/-!
C16 / PageCache — conservation of dirty pages in the repaired model: every step moves the ghost
counter `made` (pages turned dirty by `write_page`) and the potential
`dirty_writebacks + dirty pages in the cache + victims whose write-back is under way` by the same amount.
Holds from *any* state, so the run-level theorem is a plain induction.
-/
namespace HappyModel.C16.Page

def pot (s : St) : Nat := s.dwb + dirtyCount s.pages + inflight s.pend

/-- `made` and the potential moved by the same amount between `s` and `s'` -/
def Bal (s s' : St) : Prop := s'.made + pot s = s.made + pot s'

theorem Bal.refl (s : St) : Bal s s := rfl
theorem Bal.trans {a b c : St} (h1 : Bal a b) (h2 : Bal b c) : Bal a c := by
  unfold Bal at *; omega

theorem bal_of_eq {s s' : St} (h1 : s'.pages = s.pages) (h2 : s'.dwb = s.dwb) (h3 : s'.made = s.made)
    (h4 : inflight s'.pend = inflight s.pend) : Bal s s' := by
  unfold Bal pot; rw [h1, h2, h3, h4]

theorem readAhead_bal (cfg : Cfg) (idx p i : Nat) (s : St) : Bal s (readAhead cfg idx p i s).1 := by
  obtain ⟨h1, h2, h3, h4⟩ := readAhead_frame cfg idx p i s
  exact bal_of_eq h1 h2 h3 h4

theorem flushNextR_bal (idx : Nat) (rest : List Nat) (n : Nat) (s : St) : Bal s (flushNextR s idx rest n).1 := by
  obtain ⟨h1, h2, h3, h4⟩ := flushNextR_frame idx rest n s
  exact bal_of_eq h1 h2 h3 h4

theorem b2n_not (b : Bool) : b2n (!b) + b2n b = 1 := by cases b <;> rfl

/-- inserting a clean page that is absent changes nothing that counts -/
theorem assign_clean_bal (s : St) (p : Nat) (h : has s.pages p = false) : Bal s (s.assign p false) := by
  have := assign_dirty s p false
  rw [isDirty_of_absent h] at this
  unfold Bal pot
  simp only [assign_dwb, assign_made, assign_pend]
  simp at this
  omega

theorem afterRoom_bal (cfg : Cfg) (s : St) (idx : Nat) (k : Cont)
    (hk : ∀ p, k = .ins p → has s.pages p = false) : Bal s (afterRoom cfg s idx k).1 := by
  cases k with
  | load p =>
    simp only [afterRoom]
    unfold Bal pot
    simp [inflight_snoc, isEvict]
  | ins p =>
    simp only [afterRoom]
    exact (assign_clean_bal s p (hk p rfl)).trans (readAhead_bal cfg idx p 1 _)
  | write p =>
    simp only [afterRoom]
    have := assign_dirty s p true
    have hb := b2n_not (isDirty s.pages p)
    unfold Bal pot
    simp only [assign_dwb, assign_pend]
    simp only [b2n] at this hb ⊢
    simp at this
    omega

theorem ensureThen_bal (cfg : Cfg) (hr : cfg.rep = true) (s : St) (idx : Nat) (k : Cont)
    (hk : ∀ p, k = .ins p → has s.pages p = false) :
    Bal s (match ensure cfg (s.pages.length + 1) s with
      | (s1, none) => afterRoom cfg s1 idx k
      | (s1, some v) => (s1.setPend idx (.evict v k), none)).1 := by
  obtain ⟨h1, h2, h3, h4⟩ := ensure_frame cfg hr (s.pages.length + 1) s
  have hh := fun p => ensure_has_false cfg p (s.pages.length + 1) s
  generalize ensure cfg (s.pages.length + 1) s = r at *
  obtain ⟨s1, o⟩ := r
  cases o with
  | none =>
    simp only at h1 h2 h3 h4 hh ⊢
    have b1 : Bal s s1 := by
      unfold Bal pot; rw [h1, h2, h3]; simp at h4; omega
    exact b1.trans (afterRoom_bal cfg s1 idx k (fun p hp => hh p (hk p hp)))
  | some v =>
    simp only at h1 h2 h3 h4 ⊢
    unfold Bal pot
    simp only [setPend_dwb, setPend_made, setPend_pages, setPend_pend, inflight_snoc, isEvict]
    rw [h1, h2, h3]; simp at h4; simp; omega

theorem withRoom_bal (cfg : Cfg) (hr : cfg.rep = true) (s : St) (idx : Nat) (k : Cont) :
    Bal s (withRoom cfg s idx k).1 := by
  cases k with
  | ins p =>
    simp only [withRoom]
    split
    · exact readAhead_bal cfg idx p 1 s
    · rename_i hh
      exact ensureThen_bal cfg hr s idx (.ins p) (fun q hq => by cases hq; simpa using hh)
  | load p =>
    simp only [withRoom]
    exact ensureThen_bal cfg hr s idx (.load p) (fun q hq => by cases hq)
  | write p =>
    simp only [withRoom]
    exact ensureThen_bal cfg hr s idx (.write p) (fun q hq => by cases hq)

theorem start_bal (cfg : Cfg) (hr : cfg.rep = true) (s : St) (i : Nat) (op : Op) : Bal s (start cfg s i op).1 := by
  cases op with
  | read p =>
    simp only [start]
    split
    · unfold Bal pot; simp [touch_dirty]
    · refine Bal.trans ?_ (withRoom_bal cfg hr _ i (.load p))
      unfold Bal pot; rfl
  | write p =>
    simp only [start]
    split
    · rename_i hh
      have := setDirty_dirty { s with hits := s.hits + 1, made := s.made + (if (!isDirty s.pages p) = true then 1 else 0) } p true hh
      have hb := b2n_not (isDirty s.pages p)
      unfold Bal pot
      simp only [touch_dirty, touch_dwb, touch_made, touch_pend, setDirty_dwb, setDirty_made, setDirty_pend]
      simp only [b2n] at this hb ⊢
      simp at this hb ⊢
      omega
    · refine Bal.trans ?_ (withRoom_bal cfg hr _ i (.write p))
      unfold Bal pot; rfl
  | flush =>
    simp only [start, hr, if_true]
    exact flushNextR_bal i _ 0 s

theorem resume_bal (cfg : Cfg) (hr : cfg.rep = true) (s : St) (i : Nat) (p : Pend)
    (hf : findPend s.pend i = some p) :
    Bal s (resume cfg { s with pend := erasePend s.pend i } i p).1 := by
  have he := inflight_erase hf
  cases p with
  | evict v k =>
    simp only [resume, hr, if_true]
    refine Bal.trans ?_ (withRoom_bal cfg hr _ i k)
    unfold Bal pot; simp [isEvict] at he ⊢; omega
  | disk q =>
    simp only [resume, hr, if_true]
    refine Bal.trans ?_ (withRoom_bal cfg hr _ i (.ins q))
    unfold Bal pot; simp [isEvict] at he ⊢; omega
  | ahead q j =>
    simp only [resume, hr, if_true]
    have b0 : Bal s { s with pend := erasePend s.pend i } := by
      unfold Bal pot; simp [isEvict] at he ⊢; omega
    split
    · rename_i hc
      have hab : has ({ s with pend := erasePend s.pend i } : St).pages (q + j) = false := by
        simp at hc; simpa using hc.1
      refine b0.trans (Bal.trans ?_ (readAhead_bal cfg i q (j + 1) _))
      have := assign_clean_bal _ (q + j) hab
      unfold Bal pot at this ⊢
      simpa using this
    · exact b0.trans (readAhead_bal cfg i q (j + 1) _)
  | flushC q g rest stamp n =>
    simp only [resume, hr, if_true]
    unfold Bal pot; simp [isEvict] at he ⊢; omega
  | flushR q rest n =>
    simp only [resume, hr]
    have b0 : Bal s { s with pend := erasePend s.pend i } := by
      unfold Bal pot; simp [isEvict] at he ⊢; omega
    simp only [Bool.not_true, Bool.false_eq_true, if_false]
    split
    · rename_i hd
      refine b0.trans (Bal.trans ?_ (flushNextR_bal i rest (n + 1) _))
      have hh : has ({ s with pend := erasePend s.pend i } : St).pages q = true := has_of_isDirty hd
      have := setDirty_dirty { s with pend := erasePend s.pend i } q false hh
      rw [hd] at this
      unfold Bal pot
      simp only [setDirty_made, setDirty_pend]
      simp at this ⊢
      omega
    · exact b0.trans (flushNextR_bal i rest n _)

theorem step_bal (cfg : Cfg) (hr : cfg.rep = true) (s : St) (a : Act) : Bal s (step cfg s a).1 := by
  cases a with
  | start i op => exact start_bal cfg hr s i op
  | resume i =>
    simp only [step]
    cases hf : findPend s.pend i with
    | none => exact Bal.refl s
    | some p => exact resume_bal cfg hr s i p hf

end HappyModel.C16.Page
