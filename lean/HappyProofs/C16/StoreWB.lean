import HappyModel.C16.Store
import HappyProofs.C16.StoreWBA
/-!
`writeback_reaches_store`, step form: in the repaired variant no segment of any operation takes a key
out of the dirty set without the backing store holding, right after that segment, the value the cache
held for the key right before it.  It holds in every state in which no current-variant flush
continuation is pending (`NoCur`, an invariant of repaired runs), hence along every schedule.
For the current code the statement is false; `Props.lean` has the witness.
-/
namespace HappyModel.C16

/-- no pending continuation of the *current* variant's flush (repaired runs never create one) -/
def NoCur (s : St) : Prop := ∀ x ∈ s.pend, ∀ k v r n, x.2 ≠ Pend.flushCur k v r n

/-- the step-level statement -/
def WritebackStep (cfg : Cfg) (s : St) (a : Act) : Prop :=
  ∀ k v, k ∈ s.dirty → aget? s.cache k = some v → k ∉ (step cfg s a).1.dirty →
    aget? (step cfg s a).1.back k = some v

/-! ### the write-back relation between a state and a later one -/

/-- whatever left the dirty set between `s` and `t` is in `t`'s backing store with the value `s` cached -/
def WB (s t : St) : Prop :=
  ∀ k v, k ∈ s.dirty → aget? s.cache k = some v → k ∉ t.dirty → aget? t.back k = some v

theorem WB.refl (s : St) : WB s s := fun _ _ h1 _ h3 => absurd h1 h3

theorem WB.mono {s t t' : St} (h : WB s t) (hd : ∀ x ∈ t.dirty, x ∈ t'.dirty) (hb : t'.back = t.back) :
    WB s t' := fun k v h1 h2 h3 => by rw [hb]; exact h k v h1 h2 (fun hx => h3 (hd k hx))

theorem WB.src {s0 s t : St} (h : WB s0 t) (hd : s0.dirty = s.dirty) (hc : s0.cache = s.cache) : WB s t :=
  fun k v h1 h2 h3 => h k v (by rw [hd]; exact h1) (by rw [hc]; exact h2) h3

/-- write `ek` back, then drop it from the dirty set: what `evictOne`, `delete`, `invalidate` do -/
theorem wb_drop (t : St) (ek k : Key) (v : Nat) (hd : k ∈ t.dirty) (hc : aget? t.cache k = some v)
    (hn : k ∉ setDel (t.writeBack ek).dirty ek) : aget? (t.writeBack ek).back k = some v := by
  by_cases e : k = ek
  · subst e; exact wb_writeBack_self t k v hd hc
  · exact absurd ((wb_mem_setDel _ _ _).mpr ⟨wb_writeBack_dirty_keep t ek k hd e, e⟩) hn

/-- loop invariant of `evictLoop` relating the state `s` before the loop and an intermediate `t` -/
structure EvP (s t : St) : Prop where
  sub : ∀ k ∈ t.dirty, k ∈ s.dirty
  val : ∀ k, k ∈ t.dirty → aget? t.cache k = aget? s.cache k
  wb : WB s t
  pend : t.pend = s.pend

theorem EvP.refl (s : St) : EvP s s := ⟨fun _ h => h, fun _ _ => rfl, WB.refl s, rfl⟩

theorem evP_evictOne (cfg : Cfg) (hrep : cfg.rep = true) (s t : St) (ek : Key) (pol' : Pol)
    (h : EvP s t) : EvP s (evictOne cfg t ek pol') := by
  have e : evictOne cfg t ek pol' = { t.writeBack ek with
      cache := adel t.cache ek, dirty := setDel (t.writeBack ek).dirty ek, pol := pol', nEv := t.nEv + 1 } := by
    simp only [evictOne, hrep, ↓reduceIte]
  rw [e]
  refine ⟨?_, ?_, ?_, ?_⟩
  · intro k hk
    have hk : k ∈ setDel (t.writeBack ek).dirty ek := hk
    exact h.sub k (wb_writeBack_dirty_sub t ek k ((wb_mem_setDel _ _ _).mp hk).1)
  · intro k hk
    have hk : k ∈ setDel (t.writeBack ek).dirty ek := hk
    have ⟨h1, h2⟩ := (wb_mem_setDel _ _ _).mp hk
    show aget? (adel t.cache ek) k = _
    rw [wb_aget?_adel_other _ _ _ h2]
    exact h.val k (wb_writeBack_dirty_sub t ek k h1)
  · intro k v h1 h2 h3
    have h3 : k ∉ setDel (t.writeBack ek).dirty ek := h3
    show aget? (t.writeBack ek).back k = some v
    by_cases hk : k ∈ t.dirty
    · exact wb_drop t ek k v hk (by rw [h.val k hk]; exact h2) h3
    · rw [wb_writeBack_back_other t ek k (Or.inr hk)]; exact h.wb k v h1 h2 hk
  · show (t.writeBack ek).pend = s.pend
    rw [wb_writeBack_pend]; exact h.pend

theorem evP_evictLoop (cfg : Cfg) (hrep : cfg.rep = true) (s : St) (fuel : Nat) (t : St) (now : Nat)
    (h : EvP s t) : EvP s (evictLoop cfg fuel t now) := by
  induction fuel generalizing t with
  | zero => simpa [evictLoop] using h
  | succ f ih =>
    unfold evictLoop
    by_cases hlt : t.cache.length < cfg.cap
    · rw [if_pos hlt]; exact h
    · rw [if_neg hlt]
      cases hev : (t.pol.evict now (t.pick cfg)).1 with
      | none => simp only []; exact ⟨h.sub, h.val, h.wb, h.pend⟩
      | some ek => simp only []; exact ih _ (evP_evictOne cfg hrep s t ek _ h)

theorem wb_cachePut (cfg : Cfg) (hrep : cfg.rep = true) (s : St) (k v now : Nat) :
    WB s (cachePut cfg s k v now) ∧ (cachePut cfg s k v now).pend = s.pend := by
  unfold cachePut
  by_cases hk : k ∈ akeys s.cache
  · rw [if_pos hk]; exact ⟨(WB.refl s).mono (fun _ hx => hx) rfl, rfl⟩
  · rw [if_neg hk]
    have hl := evP_evictLoop cfg hrep s (s.cache.length + s.pol.tracked.length + 1) s now (EvP.refl s)
    exact ⟨hl.wb.mono (fun _ hx => hx) rfl, hl.pend⟩

/-! ### `NoCur` is an invariant of repaired runs -/

theorem noCur_of_pend {s t : St} (h : NoCur s) (e : t.pend = s.pend) : NoCur t := by
  unfold NoCur; rw [e]; exact h

theorem noCur_setPend {s : St} (h : NoCur s) (i : Nat) (p : Pend)
    (hp : ∀ k v r n, p ≠ Pend.flushCur k v r n) : NoCur (s.setPend i p) := by
  intro x hx
  have hx : x ∈ s.pend ++ [(i, p)] := hx
  rcases List.mem_append.mp hx with hx | hx
  · exact h x hx
  · have : x = (i, p) := by simpa using hx
    subst this; exact hp

theorem noCur_clearPend {s : St} (h : NoCur s) (i : Nat) : NoCur (s.clearPend i) := by
  intro x hx
  have hx : x ∈ s.pend.filter (·.1 != i) := hx
  exact h x (List.mem_filter.mp hx).1

theorem noCur_flushNext (cfg : Cfg) (hrep : cfg.rep = true) (s : St) (i : Nat) (l : List Key) (n : Nat)
    (h : NoCur s) : NoCur (flushNext cfg s i l n).1 := by
  induction l generalizing n with
  | nil => exact h
  | cons k rest ih =>
    unfold flushNext
    rw [if_pos hrep]
    split
    · exact noCur_setPend h i _ (by intro _ _ _ _ e; cases e)
    · exact ih n

theorem noCur_start (cfg : Cfg) (hrep : cfg.rep = true) (s : St) (i : Nat) (op : OpK) (now : Nat)
    (h : NoCur s) : NoCur (start cfg s i op now).1 := by
  cases op with
  | get k =>
    simp only [start]
    split
    · exact noCur_setPend (noCur_of_pend h rfl) i _ (by intro _ _ _ _ e; cases e)
    · exact noCur_setPend h i _ (by intro _ _ _ _ e; cases e)
  | put k v =>
    simp only [start]
    have h1 : NoCur (cachePut cfg (s.bump cfg k) k v now) :=
      noCur_of_pend h (by rw [(wb_cachePut cfg hrep _ k v now).2]; simp)
    split
    · exact noCur_setPend (noCur_of_pend h1 (by simp)) i _ (by intro _ _ _ _ e; cases e)
    · exact noCur_setPend (noCur_of_pend h1 rfl) i _ (by intro _ _ _ _ e; cases e)
  | del k =>
    simp only [start, hrep, ↓reduceIte]
    refine noCur_setPend (noCur_of_pend h ?_) i _ (by intro _ _ _ _ e; cases e)
    rw [wb_inflInc_pend]; split <;> simp
  | inv k =>
    simp only [start, hrep, ↓reduceIte]
    split
    · exact noCur_of_pend h (by simp)
    · exact h
  | invAll =>
    simp only [start, hrep, ↓reduceIte]
    exact noCur_of_pend h (wb_writeBackAll_pend s s.dirty)
  | flush order =>
    simp only [start]
    exact noCur_flushNext cfg hrep s i order 0 h

theorem noCur_resume (cfg : Cfg) (hrep : cfg.rep = true) (s : St) (i : Nat) (p : Pend) (now : Nat)
    (h : NoCur s) (hp : ∀ k v r n, p ≠ Pend.flushCur k v r n) : NoCur (resume cfg s i p now).1 := by
  have hc := noCur_clearPend h i
  cases p with
  | getHit v => exact hc
  | getMiss k e =>
    simp only [resume]
    split
    · split
      · exact noCur_of_pend hc (wb_cachePut cfg hrep _ k _ now).2
      · exact hc
    · exact hc
  | putWT k v => simp only [resume]; exact noCur_of_pend hc (by simp)
  | putWB => exact hc
  | del k inC => simp only [resume]; exact noCur_of_pend hc (by simp)
  | flushCur k v rest n => exact absurd rfl (hp k v rest n)
  | flushRep k rest n =>
    simp only [resume]
    split
    · exact noCur_flushNext cfg hrep _ i rest (n + 1) (noCur_of_pend hc (by simp))
    · exact noCur_flushNext cfg hrep _ i rest n hc

theorem noCur_step (cfg : Cfg) (hrep : cfg.rep = true) (s : St) (a : Act) (h : NoCur s) :
    NoCur (step cfg s a).1 := by
  cases a with
  | start i op now => exact noCur_start cfg hrep s i op now h
  | resume i now =>
    simp only [step]
    split
    · rename_i hf
      exact noCur_resume cfg hrep s i _ now h (fun k v r n => h _ (List.mem_of_find?_eq_some hf) k v r n)
    · exact h

theorem noCur_run (cfg : Cfg) (hrep : cfg.rep = true) (s : St) (as : List Act) (h : NoCur s) :
    NoCur (run cfg s as) := by
  induction as generalizing s with
  | nil => exact h
  | cons a as ih => exact ih _ (noCur_step cfg hrep s a h)

/-! ### every segment writes back what it takes out of the dirty set -/

theorem wb_start (cfg : Cfg) (hrep : cfg.rep = true) (s : St) (i : Nat) (op : OpK) (now : Nat) :
    WB s (start cfg s i op now).1 := by
  cases op with
  | get k =>
    simp only [start]
    split
    · exact fun _ _ h1 _ h3 => absurd h1 h3
    · exact fun _ _ h1 _ h3 => absurd h1 h3
  | put k v =>
    simp only [start]
    have h1 : WB s (cachePut cfg (s.bump cfg k) k v now) :=
      (wb_cachePut cfg hrep (s.bump cfg k) k v now).1.src (by simp) (by simp)
    split
    · exact h1.mono (fun x hx => by simpa using hx) (by simp)
    · exact h1.mono (fun x hx => wb_mem_setAdd _ _ _ hx) rfl
  | del k =>
    simp only [start, hrep, ↓reduceIte]
    split
    · intro x v h1 h2 h3
      simp only [wb_setPend_dirty, wb_setPend_back, wb_inflInc_dirty, wb_inflInc_back,
        wb_cacheRemove_dirty, wb_cacheRemove_back] at h3 ⊢
      exact wb_drop (s.bump cfg k) k x v (by simpa using h1) (by simpa using h2) h3
    · intro x v h1 _ h3
      simp only [wb_setPend_dirty, wb_inflInc_dirty, wb_bump_dirty] at h3
      exact absurd h1 h3
  | inv k =>
    simp only [start, hrep, ↓reduceIte]
    split
    · exact fun x v h1 h2 h3 => wb_drop s k x v h1 h2 h3
    · exact WB.refl s
  | invAll =>
    simp only [start, hrep, ↓reduceIte]
    exact fun x v h1 h2 _ => wb_writeBackAll_hit s s.dirty x v h1 h2 h1
  | flush order =>
    simp only [start]
    intro x v h1 _ h3
    rw [(wb_flushNext cfg s i order 0).1] at h3
    exact absurd h1 h3

theorem wb_resume (cfg : Cfg) (hrep : cfg.rep = true) (s : St) (i : Nat) (p : Pend) (now : Nat)
    (hp : ∀ k v r n, p ≠ Pend.flushCur k v r n) : WB s (resume cfg s i p now).1 := by
  cases p with
  | getHit v => exact fun _ _ h1 _ h3 => absurd h1 h3
  | getMiss k e =>
    simp only [resume]
    split
    · split
      · exact (wb_cachePut cfg hrep (s.clearPend i) k _ now).1.src rfl rfl
      · exact fun _ _ h1 _ h3 => absurd h1 h3
    · exact fun _ _ h1 _ h3 => absurd h1 h3
  | putWT k v =>
    simp only [resume]
    intro x w h1 _ h3
    simp only [wb_inflDec_dirty] at h3
    exact absurd h1 h3
  | putWB => exact fun _ _ h1 _ h3 => absurd h1 h3
  | del k inC =>
    simp only [resume]
    intro x w h1 _ h3
    simp only [wb_inflDec_dirty] at h3
    exact absurd h1 h3
  | flushCur k v rest n => exact absurd rfl (hp k v rest n)
  | flushRep k rest n =>
    simp only [resume]
    split
    · intro x v h1 h2 h3
      rw [(wb_flushNext cfg _ i rest (n + 1)).1] at h3
      rw [(wb_flushNext cfg _ i rest (n + 1)).2]
      by_cases e : x = k
      · subst e; exact wb_writeBack_self (s.clearPend i) x v h1 h2
      · exact absurd (wb_writeBack_dirty_keep (s.clearPend i) k x h1 e) h3
    · intro x v h1 _ h3
      rw [(wb_flushNext cfg _ i rest n).1] at h3
      exact absurd h1 h3

theorem writeback_step (cfg : Cfg) (hrep : cfg.rep = true) (s : St) (a : Act) (h : NoCur s) :
    WritebackStep cfg s a := by
  show WB s (step cfg s a).1
  cases a with
  | start i op now => exact wb_start cfg hrep s i op now
  | resume i now =>
    simp only [step]
    split
    · rename_i hf
      exact wb_resume cfg hrep s i _ now (fun k v r n => h _ (List.mem_of_find?_eq_some hf) k v r n)
    · exact WB.refl s

end HappyModel.C16
