import HappyModel.C16.TierDriver
import HappyProofs.C16.TierInv
import HappyProofs.C16.TierSeq
import HappyProofs.C16.TRawK
/-!
# C16 — property theorems for `MultiTierCache` (imported by `Props.lean`)

The model (`HappyModel/C16/Tier.lean`) composes the `CachedStore` model `St` per tier with one
shared backing store.  Theorems quantify over any number of tiers, any capacities ≥ 1, any policies
made by `Pol.ofName`, either write mode per tier, all three promotion policies, both variants where
not stated otherwise, and every interleaving of operation segments (`as : List MAct` is arbitrary,
so every prefix — "after every step" — is covered).
-/
namespace HappyModel.C16.Tier
open HappyModel.C16

/-- `multitier_size_le_capacity`: after every interleaving of multi-tier operation segments every
    tier holds at most its own capacity. -/
theorem multitier_size_le_capacity (cfg : MCfg) (hcap : ∀ c, c ∈ cfg.tiers → 1 ≤ c.cap) (pols : List Pol)
    (hp : ∀ p, p ∈ pols → ∃ name arg, Pol.ofName name arg = some p) (as : List MAct)
    (t : Nat) (c : Cfg) (s : St) (hc : cfg.tiers[t]? = some c)
    (hs : (mrun cfg (MSt.init pols) as).tiers[t]? = some s) : s.cache.length ≤ c.cap :=
  (mrun_inv cfg hcap _ as (minit_inv cfg.tiers pols hp) t c s hc hs).size

/-- `multitier_policy_keys_eq_cache_keys`: after every interleaving, in every tier the eviction policy
    tracks exactly the keys the tier holds, each once. -/
theorem multitier_policy_keys_eq_cache_keys (cfg : MCfg) (hcap : ∀ c, c ∈ cfg.tiers → 1 ≤ c.cap) (pols : List Pol)
    (hp : ∀ p, p ∈ pols → ∃ name arg, Pol.ofName name arg = some p) (as : List MAct)
    (t : Nat) (c : Cfg) (s : St) (hc : cfg.tiers[t]? = some c)
    (hs : (mrun cfg (MSt.init pols) as).tiers[t]? = some s) :
    (∀ x, x ∈ s.pol.tracked ↔ x ∈ akeys s.cache) ∧ (akeys s.cache).Nodup ∧ s.pol.tracked.Nodup :=
  have r := mrun_inv cfg hcap _ as (minit_inv cfg.tiers pols hp) t c s hc hs
  ⟨r.same, r.nodup, Pol.inv_tracked_nodup _ r.pinv⟩

/-- the two-tier set-up of the witnesses: L1 capacity 1 (LRU), L2 capacity 2 (LFU), write-through,
    the tiers are the repaired `CachedStore` -/
def wCfg (rep : Bool) : MCfg := ⟨[⟨1, true, true, []⟩, ⟨2, true, true, []⟩], .always, rep⟩
def wInit : MSt := MSt.init [.lru {}, .lfu {}]

/-- non-vacuity of the two theorems above: put a, put b (L1 evicts a), a direct read of a at L2, a get
    of a (L2 hit, promoted into L1 which evicts b): both tiers are in use and full -/
example :
    let ms := mrun (wCfg true) wInit [.start 0 (.put 0 7) 0, .resume 0 0, .resume 0 0, .start 1 (.put 1 8) 0,
      .resume 1 0, .resume 1 0, .start 2 (.tget 1 0) 0, .resume 2 0, .start 3 (.get 0) 0, .resume 3 0]
    ms.tiers.map (fun s => (akeys s.cache, s.pol.tracked)) = [([0], [0]), ([0], [0])] ∧
      ms.back = [(0, 7), (1, 8)] := by decide

/-! ### read after write -/

def viewOf (s : St) : TView := ⟨sortKeys (akeys s.cache), sortKeys s.dirty, sortKeys s.pol.tracked⟩

def MAct.opId : MAct → Nat
  | .start i _ _ => i
  | .resume i _ => i

/-- what the harness prints along a schedule -/
def mobsRun (cfg : MCfg) (ms : MSt) : List MAct → List MObs
  | [] => []
  | a :: as => ⟨a.opId, (mstep cfg ms a).1.tiers.map viewOf, (mstep cfg ms a).2⟩ :: mobsRun cfg (mstep cfg ms a).1 as

/-- `multitier_read_after_write` at the property's strength: for every interleaving the observed run
    of the repaired multi-tier cache passes the Spec's read clause.  Proved below
    (`multitier_read_after_write_all_interleavings`). -/
def multitier_read_after_write_full : Prop :=
  ∀ (cfg : MCfg), cfg.rep = true → SeqCfg cfg →
  ∀ (pols : List Pol), Named pols → pols.length = cfg.tiers.length →
  ∀ (ops : List (Nat × MOp)) (as : List MAct),
    (ops.map (·.1)).Nodup →
    (∀ i op now, MAct.start i op now ∈ as → (i, op) ∈ ops) →
    (as.filterMap fun a => match a with | .start i _ _ => some i | _ => none).Nodup →
    (ops.filterMap fun x => match x.2 with | .put _ v => some v | _ => none).Nodup →
    Tier.judgeReads ops (mobsRun cfg (MSt.init pols) as) = none

theorem mobsRun_toObs (cfg : MCfg) (ms : MSt) (as : List MAct) :
    (mobsRun cfg ms as).map MObs.toObs = mobsRunG cfg ms as := by
  induction as generalizing ms with
  | nil => rfl
  | cons a as ih =>
    have : a.opId = mactId a := by cases a <;> rfl
    simp only [mobsRun, mobsRunG, List.map_cons, MObs.toObs, this, ih]

/-- **`multitier_read_after_write` for all interleavings** (repaired `MultiTierCache` over repaired
    write-through tiers, any number of tiers, capacities, policies and promotion policy, every schedule
    of segments of get / put / delete / invalidate / invalidate_all and direct tier reads): the judge's
    read clause accepts the observed run.  Invariant (`MInv`, files `TRaw*.lean`): a `put` / `delete`
    reaches the backing store in its second segment and invalidates every tier right there, so every
    tier cache entry and the backing store hold the value of a write that no write *which has reached
    the backing store* entirely follows — in particular none that completed; a value read from a lower
    tier is promoted into L1 only if the key's epoch is unchanged and nothing is in flight, and then
    every started write had completed before the read was issued. -/
theorem multitier_read_after_write_all_interleavings : multitier_read_after_write_full := by
  intro cfg hrep hc pols _ hlen ops as hnd htab hst _
  exact mraw_judge cfg hrep hc pols hlen ops hnd as htab hst _ (mobsRun_toObs cfg _ as)

/-- non-vacuity: two tiers, a `get` that hits L2 and is in flight while a `put` of the same key runs
    all three of its segments, then a later `get`: the repaired hierarchy does not promote the old value
    (epoch changed) and the later `get` returns the new one; the table and schedule satisfy the
    theorem's hypotheses -/
example :
    let ops : List (Nat × MOp) := [(0, .put 0 1), (1, .inv 0), (2, .tget 1 0), (3, .get 0), (4, .put 0 2), (5, .get 0)]
    let as : List MAct := [.start 0 (.put 0 1) 0, .resume 0 0, .resume 0 0, .start 1 (.inv 0) 0,
      .start 2 (.tget 1 0) 0, .resume 2 0, .start 3 (.get 0) 0, .start 4 (.put 0 2) 0, .resume 4 0, .resume 4 0,
      .resume 3 0, .start 5 (.get 0) 0, .resume 5 0]
    (ops.map (·.1)).Nodup ∧
    (as.filterMap fun a => match a with | .start i _ _ => some i | _ => none).Nodup ∧
    (ops.filterMap fun x => match x.2 with | .put _ v => some v | _ => none).Nodup ∧
    Tier.judgeReads ops (mobsRun (wCfg true) wInit as) = none ∧
    (mobsRun (wCfg true) wInit as).map (·.res) =
      [none, none, some .none, some .none, none, some (.val 1), none, none, none, some .none,
       some (.val 1), none, some (.val 2)] ∧
    Tier.judgeReads ops (mobsRun (wCfg false) wInit as) = some "multitier/read-after-write/stale/after-put" := by
  decide

/-- `multitier_read_after_write_sequential` (repaired variant, write-through tiers): when operations
    do not overlap (each runs all its segments before the next starts — `mexec`), the hierarchy is a
    map: every `get` through the multi-tier cache returns the value of the latest `put` of its key,
    nothing after a `delete` or before any `put` (`MSeqOk`), for any number of tiers, capacities ≥ 1,
    policies, promotion policy, and whatever direct tier reads, evictions, promotions and
    invalidations happen in between. -/
theorem multitier_read_after_write_sequential (cfg : MCfg) (hrep : cfg.rep = true) (hc : SeqCfg cfg)
    (pols : List Pol) (hp : ∀ p, p ∈ pols → ∃ name arg, Pol.ofName name arg = some p)
    (hlen : pols.length = cfg.tiers.length) (ops : List (MOp × Nat)) :
    MSeqOk cfg (MSt.init pols) [] 0 ops :=
  mseqOk_of_mr cfg hrep hc _ [] 0 ops (mr_init cfg pols hp hlen)

/-- non-vacuity: put a=7, put b=8 (L1 evicts a), direct read of a at L2, get a (L2 hit, 7, promoted),
    delete a, get a (nothing), get b (refetched from the backing store: 8) -/
example :
    let cfg := wCfg true
    let s1 := (mexec cfg wInit 0 (.put 0 7) 0).1
    let s2 := (mexec cfg s1 1 (.put 1 8) 0).1
    let s3 := (mexec cfg s2 2 (.tget 1 0) 0).1
    let s4 := mexec cfg s3 3 (.get 0) 0
    let s5 := (mexec cfg s4.1 4 (.del 0) 0).1
    let s6 := mexec cfg s5 5 (.get 0) 0
    s4.2 = some (.val 7) ∧ s6.2 = some .none ∧ (mexec cfg s6.1 6 (.get 1) 0).2 = some (.val 8) := by
  decide

/-- … on a configuration that satisfies the theorem's hypotheses -/
example : SeqCfg (wCfg true) ∧ (wCfg true).rep = true := by
  refine ⟨?_, rfl⟩
  intro c hc
  simp only [wCfg, List.mem_cons, List.not_mem_nil, or_false] at hc
  rcases hc with rfl | rfl <;> exact ⟨rfl, rfl, by decide⟩

/-- the schedule of corpus/C16/multitier-stale-promotion.json: put(a,1) completes; invalidate(a); a
    direct read re-fills L2 with 1; put(a,2) starts; get(a) hits L2 and waits for the tier's read
    latency; the put's backing write lands, the tiers are invalidated, `L1.put(a,2)` starts; the get
    resumes (and promotes); the put completes; a later get(a). -/
def staleOps : List (Nat × MOp) :=
  [(0, .put 0 1), (1, .inv 0), (2, .tget 1 0), (3, .put 0 2), (4, .get 0), (5, .get 0)]
def staleSched : List MAct :=
  [.start 0 (.put 0 1) 0, .resume 0 0, .resume 0 0, .start 1 (.inv 0) 0, .start 2 (.tget 1 0) 0, .resume 2 0,
   .start 3 (.put 0 2) 0, .start 4 (.get 0) 0, .resume 3 0, .resume 4 0, .resume 3 0, .start 5 (.get 0) 0, .resume 5 0]

/-- `multitier_stale_promotion_current`: on the current code the promotion of the value read from L2
    overwrites the newer value in L1 — the get issued after put(a,2) completed returns 1, and the Spec's
    read clause judges the observed run stale; the repaired code returns 2 and passes. -/
theorem multitier_stale_promotion_current :
    ((mobsRun (wCfg false) wInit staleSched).getLast?.map (·.res)) = some (some (.val 1)) ∧
    Tier.judgeReads staleOps (mobsRun (wCfg false) wInit staleSched)
      = some "multitier/read-after-write/stale/after-put" ∧
    ((mobsRun (wCfg true) wInit staleSched).getLast?.map (·.res)) = some (some (.val 2)) ∧
    Tier.judgeReads staleOps (mobsRun (wCfg true) wInit staleSched) = none := by decide

end HappyModel.C16.Tier
