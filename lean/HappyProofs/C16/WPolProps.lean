import HappyModel.C16.WPol
/-!
C16 — write policies (`write_policies.py`): for every kind of policy and every call sequence, the
answers of the model satisfy the Spec `judgeWPol` (write-back: the keys to flush are exactly the
keys owed to the backing store — nothing written is forgotten before an `on_flush` names it).
-/
namespace HappyModel.C16.WPol

theorem mem_dedupKeys (l : List Key) (k : Key) : k ∈ dedupKeys l ↔ k ∈ l := by
  induction l generalizing k with
  | nil => simp [dedupKeys]
  | cons a l ih =>
    simp only [dedupKeys]
    split
    · next h =>
      have : a ∈ l := (ih a).mp (List.contains_iff_mem.mp h)
      rw [ih]; simp only [List.mem_cons]
      constructor
      · exact Or.inr
      · rintro (rfl | h1)
        · exact this
        · exact h1
    · simp [ih]

theorem nodup_dedupKeys (l : List Key) : (dedupKeys l).Nodup := by
  induction l with
  | nil => simp [dedupKeys]
  | cons a l ih =>
    simp only [dedupKeys]
    split
    · exact ih
    · next h =>
      refine List.nodup_cons.mpr ⟨?_, ih⟩
      intro hm; exact h (List.contains_iff_mem.mpr hm)

theorem owed_mentioned (hist : List Op) (k : Key) (h : owed hist k = true) : k ∈ mentioned hist := by
  unfold mentioned
  rw [mem_dedupKeys]
  induction hist with
  | nil => simp [owed] at h
  | cons op rest ih =>
    simp only [List.flatMap_cons, List.mem_append]
    cases op with
    | write k' =>
      simp only [owed, Bool.or_eq_true, beq_iff_eq] at h
      rcases h with rfl | h
      · left; simp [opKeys]
      · right; exact ih h
    | onFlush ks =>
      simp only [owed, Bool.and_eq_true] at h
      right; exact ih h.2
    | shouldWT => right; exact ih (by simpa [owed] using h)
    | shouldFlush => right; exact ih (by simpa [owed] using h)
    | keysToFlush => right; exact ih (by simpa [owed] using h)
    | dirtyCount => right; exact ih (by simpa [owed] using h)
    | keysToInvalidate => right; exact ih (by simpa [owed] using h)

theorem mem_owedKeys (hist : List Op) (k : Key) : k ∈ owedKeys hist ↔ owed hist k = true := by
  unfold owedKeys
  rw [List.mem_filter]
  exact ⟨fun h => h.2, fun h => ⟨owed_mentioned hist k h, h⟩⟩

theorem nodup_owedKeys (hist : List Op) : (owedKeys hist).Nodup :=
  (nodup_dedupKeys _).sublist List.filter_sublist

theorem mem_insertSet (l : List Key) (a k : Key) : k ∈ insertSet l a ↔ k ∈ l ∨ k = a := by
  unfold insertSet
  split
  · next h =>
    have : a ∈ l := List.contains_iff_mem.mp h
    constructor
    · exact Or.inl
    · rintro (h1 | rfl)
      · exact h1
      · exact this
  · simp

theorem nodup_insertSet (l : List Key) (a : Key) (h : l.Nodup) : (insertSet l a).Nodup := by
  unfold insertSet
  split
  · exact h
  · next hc =>
    rw [List.nodup_append]
    refine ⟨h, by simp, ?_⟩
    intro x hx y hy
    simp only [List.mem_singleton] at hy
    subst hy
    intro e; subst e
    exact hc (List.contains_iff_mem.mpr hx)

theorem mem_insertSorted (a k : Key) (l : List Key) : k ∈ insertSorted a l ↔ k = a ∨ k ∈ l := by
  induction l with
  | nil => simp [insertSorted]
  | cons b l ih =>
    simp only [insertSorted]
    split
    · simp
    · simp only [List.mem_cons, ih]
      constructor
      · rintro (h | h | h)
        · exact Or.inr (Or.inl h)
        · exact Or.inl h
        · exact Or.inr (Or.inr h)
      · rintro (h | h | h)
        · exact Or.inr (Or.inl h)
        · exact Or.inl h
        · exact Or.inr (Or.inr h)

theorem mem_sortKeys (l : List Key) (k : Key) : k ∈ sortKeys l ↔ k ∈ l := by
  induction l with
  | nil => simp [sortKeys]
  | cons a l ih => simp [sortKeys, mem_insertSorted, ih]

/-- state and history agree -/
structure Inv (kind : Kind) (s : St) (hist : List Op) : Prop where
  back : ∀ m, kind = .back m → (∀ k, k ∈ s.dirty ↔ owed hist k = true) ∧ s.dirty.Nodup
  around : kind = .around → s.inval = pendingInval hist

theorem inv_init (kind : Kind) : Inv kind {} [] :=
  ⟨fun _ _ => ⟨fun k => by simp [owed], by simp⟩, fun _ => rfl⟩

theorem dirty_length (m : Nat) (s : St) (hist : List Op) (I : Inv (.back m) s hist) :
    s.dirty.length = (owedKeys hist).length := by
  obtain ⟨hm, hn⟩ := I.back m rfl
  apply List.Perm.length_eq
  rw [List.perm_ext_iff_of_nodup hn (nodup_owedKeys hist)]
  intro k
  rw [hm, mem_owedKeys]

theorem step_inv (kind : Kind) (s : St) (hist : List Op) (op : Op) (I : Inv kind s hist) :
    Inv kind (step kind s op).1 (op :: hist) := by
  cases kind with
  | through => exact ⟨fun _ h => (by cases h), fun h => (by cases h)⟩
  | around =>
    refine ⟨fun _ h => (by cases h), fun _ => ?_⟩
    have hi := I.around rfl
    cases op <;> simp [step, pendingInval, hi]
  | back m =>
    refine ⟨fun m' _ => ?_, fun h => (by cases h)⟩
    obtain ⟨hm, hn⟩ := I.back m rfl
    cases op with
    | write k =>
      refine ⟨fun x => ?_, nodup_insertSet _ _ hn⟩
      simp only [step, mem_insertSet, owed, Bool.or_eq_true, beq_iff_eq, hm]
      constructor
      · rintro (h | rfl)
        · exact Or.inr h
        · exact Or.inl rfl
      · rintro (rfl | h)
        · exact Or.inr rfl
        · exact Or.inl h
    | onFlush ks =>
      refine ⟨fun x => ?_, hn.sublist List.filter_sublist⟩
      simp only [step, List.mem_filter, owed, Bool.and_eq_true, hm]
      exact ⟨fun h => ⟨h.2, h.1⟩, fun h => ⟨h.2, h.1⟩⟩
    | shouldWT => exact ⟨fun x => by simp [step, owed, hm], by simpa [step] using hn⟩
    | shouldFlush => exact ⟨fun x => by simp [step, owed, hm], by simpa [step] using hn⟩
    | keysToFlush => exact ⟨fun x => by simp [step, owed, hm], by simpa [step] using hn⟩
    | dirtyCount => exact ⟨fun x => by simp [step, owed, hm], by simpa [step] using hn⟩
    | keysToInvalidate => exact ⟨fun x => by simp [step, owed, hm], by simpa [step] using hn⟩

theorem sameSet_self (l : List Key) : sameSet l l = true := by
  simp [sameSet, List.all_eq_true]

theorem step_ok (kind : Kind) (s : St) (hist : List Op) (op : Op) (I : Inv kind s hist) :
    judgeOne kind hist op (step kind s op).2 = none := by
  cases kind with
  | through => cases op <;> simp [step, judgeOne]
  | around =>
    have hi := I.around rfl
    cases op <;> simp [step, judgeOne, hi, sameSet_self]
  | back m =>
    obtain ⟨hm, _⟩ := I.back m rfl
    have hl := dirty_length m s hist I
    cases op with
    | write k => simp [step, judgeOne]
    | onFlush ks => simp [step, judgeOne]
    | shouldWT => simp [step, judgeOne]
    | keysToInvalidate => simp [step, judgeOne]
    | dirtyCount => simp [step, judgeOne, hl]
    | shouldFlush => simp [step, judgeOne, hl]
    | keysToFlush =>
      simp only [step, judgeOne]
      have h1 : (owedKeys hist).all (sortKeys s.dirty).contains = true := by
        rw [List.all_eq_true]; intro k hk
        rw [List.contains_iff_mem, mem_sortKeys, hm]
        exact (mem_owedKeys hist k).mp hk
      have h2 : (sortKeys s.dirty).all (owed hist) = true := by
        rw [List.all_eq_true]; intro k hk
        rw [mem_sortKeys] at hk
        exact (hm k).mp hk
      simp [h1, h2]

theorem run_ok (kind : Kind) (ops : List Op) (s : St) (hist : List Op) (I : Inv kind s hist) :
    judgeWPol kind hist (ops.zip (run kind s ops)) = none := by
  induction ops generalizing s hist with
  | nil => simp [run, judgeWPol]
  | cons op ops ih =>
    simp only [run, List.zip_cons_cons, judgeWPol, step_ok kind s hist op I]
    exact ih _ _ (step_inv kind s hist op I)

end HappyModel.C16.WPol

namespace HappyModel.C16

/-- **write policies**: for each of the three policies, any `max_dirty`, and any sequence of calls,
    what the policy answers satisfies the Spec — in particular a write-back policy lists exactly the
    keys written and not yet flushed (no written key is forgotten before `on_flush` names it), and a
    write-around policy hands every written key to the next invalidation round. -/
theorem write_policy_never_forgets (kind : WPol.Kind) (ops : List WPol.Op) :
    WPol.judgeWPol kind [] (ops.zip (WPol.run kind {} ops)) = none :=
  WPol.run_ok kind ops {} [] (WPol.inv_init kind)

-- three writes (one repeated), a partial flush, then the policy is asked again
example : WPol.run (.back 2) {} [.write 3, .write 1, .write 3, .shouldFlush, .keysToFlush, .onFlush [3, 7],
    .keysToFlush, .dirtyCount, .shouldFlush]
    = [.unit, .unit, .unit, .bool true, .keys [1, 3], .unit, .keys [1], .num 1, .bool false] := by decide
-- the Spec is not vacuous: forgetting key 1 is a violation
example : WPol.judgeWPol (.back 2) [] [(.write 3, .unit), (.write 1, .unit), (.keysToFlush, .keys [3])]
    = some "wpol/writeback/dirty-key-forgotten" := by decide

end HappyModel.C16
