import HappyProofs.C16.ORawC
/-!
Ordered read-after-write (write-through stores), part 4: first segments keep `OInv`.
-/
namespace HappyModel.C16

theorem endIdx_snoc_isSome {evs : List Obs} {j : Nat} (o : Obs) (h : (endIdx evs j).isSome) :
    (endIdx (evs ++ [o]) j).isSome := by
  cases he : endIdx evs j with
  | none => rw [he] at h; cases h
  | some e => rw [endIdx_snoc_some o he]; rfl

/-- `lim` for the ids that were already started, when `pend` only grows -/
theorem lim_old {g : Gh} {s s' : St} (ho : OInv g s) (o : Obs) (hp : ∀ x ∈ s.pend, x ∈ s'.pend)
    {j : Nat} {op : OpK} {k : Key} (hj : j ∈ g.started) (hjm : (j, op) ∈ g.ops) (hk : wk op = some k) :
    BP s' k j ∨ (endIdx (g.evs ++ [o]) j).isSome :=
  (ho.lim j op k hj hjm hk).imp (bp_mono hp) (endIdx_snoc_isSome o)

theorem oraw_start (cfg : Cfg) (hrep : cfg.rep = true) (hwt : cfg.wt = true) {g : Gh} {s : St} (h : RInvA g s)
    (ho : OInv g s) (i : Nat) (op : OpK) (now : Nat) (hi : i ∉ g.started) (op' : OpK) (hop : (i, op') ∈ g.ops)
    (hso : (∃ o1 o2, op' = .flush o1 ∧ op = .flush o2) ∨ op' = op)
    (o : Obs) (hoi : o.i = i) (hor : o.res = (start cfg s i op now).2) :
    OInv (g.ext o [i]) (start cfg s i op now).1 := by
  have hopu : ∀ op'', (i, op'') ∈ g.ops → op'' = op' := fun op'' h' => ops_unique h.gi.nd h' hop
  have hnewS : ∀ j ∈ [i], j = o.i ∧ j ∉ g.started := fun j hj => by
    have : j = i := by simpa using hj
    subst this; exact ⟨hoi.symm, hi⟩
  have hoS : o.i ∈ g.started ++ [i] := by rw [hoi]; simp
  have hfirst : firstIdx (g.evs ++ [o]) i = some g.evs.length := by
    rw [firstIdx_snoc_none o (ho.ns i hi), hoi]; simp
  have hi0 : endIdx g.evs i = none := h.gi.s2 i hi
  -- `lim` for an operation that is not a write: nothing new to show
  have limNW : ∀ (s' : St), (∀ x ∈ s.pend, x ∈ s'.pend) → (∀ k, wk op' ≠ some k) →
      ∀ j op'' k, j ∈ g.started ++ [i] → (j, op'') ∈ g.ops → wk op'' = some k →
        BP s' k j ∨ (endIdx (g.evs ++ [o]) j).isSome := by
    intro s' hp hnw j op'' k hj hjm hk
    rcases List.mem_append.mp hj with hj | hj
    · exact lim_old ho o hp hj hjm hk
    · have : j = i := by simpa using hj
      subst this
      rw [hopu op'' hjm] at hk
      exact absurd hk (hnw k)
  have notNew : ∀ k, wk op' ≠ some k → ∀ j op'', j ∈ [i] → (j, op'') ∈ g.ops → wk op'' ≠ some k := by
    intro k hk j op'' hj hjm
    have : j = i := by simpa using hj
    subst this
    rw [hopu op'' hjm]; exact hk
  rcases hso with ⟨o1, o2, rfl, rfl⟩ | rfl
  · -- flush: nothing is dirty, it returns at once
    have e : start cfg s i (.flush o2) now = (s, some (.count 0)) := flushNext_clean cfg hrep s i ho.dz o2 0
    rw [e] at hor ⊢
    have hnw : ∀ k, wk (OpK.flush o1) ≠ some k := fun k e' => by simp [wk, wkv] at e'
    refine oinv_gen h.gi ho hnewS hoS ho.dz ho.nowb (limNW s (fun x hx => hx) hnw)
      (fun k => Or.inl ⟨rfl, fun _ op'' hm' => by rw [hoi] at hm'; rw [hopu op'' hm']; exact hnw k⟩)
      (fun k v hv => Or.inl ⟨hv, notNew k (hnw k)⟩) (fun j v hm => Or.inl hm) ?_
    intro k rs hm
    rw [hoi] at hm
    have := hopu _ hm; cases this
  · cases op' with
    | get k =>
      obtain ⟨g1, g2, g3, g4⟩ := startGet_nb cfg s i k now
      have hnw : ∀ k', wk (OpK.get k) ≠ some k' := fun k' e' => by simp [wk, wkv] at e'
      have hres : o.res = none := by
        rw [hor]
        have e0 : start cfg s i (.get k) now = match aget? s.cache k with
          | some v => ({ s with pol := s.pol.access k }.setPend i (.getHit v), none)
          | none => (s.setPend i (.getMiss k (cnt s.epoch k)), none) := rfl
        rw [e0]; cases aget? s.cache k <;> rfl
      have hpend : ∀ x ∈ s.pend, x ∈ (start cfg s i (.get k) now).1.pend := by
        intro x hx
        rcases g4 with ⟨v, _, e⟩ | ⟨e', _, e⟩ <;> rw [e] <;> exact List.mem_append_left _ hx
      refine oinv_gen h.gi ho hnewS hoS (g2.trans ho.dz) ?_ (limNW _ hpend hnw)
        (fun k' => Or.inl ⟨by rw [g3], fun hs => by rw [hres] at hs; cases hs⟩)
        (fun k' v hv => Or.inl ⟨by rw [g1] at hv; exact hv, notNew k' (hnw k')⟩) ?_
        (fun _ _ _ hs => by rw [hres] at hs; cases hs)
      · intro x hx
        rcases g4 with ⟨v, _, e⟩ | ⟨e', _, e⟩ <;> rw [e] at hx <;>
          rcases List.mem_append.mp hx with hx | hx
        · exact ho.nowb x hx
        · simp only [List.mem_singleton] at hx; subst hx; simp
        · exact ho.nowb x hx
        · simp only [List.mem_singleton] at hx; subst hx; simp
      · intro j v hm
        rcases g4 with ⟨v0, hv0, e⟩ | ⟨e', _, e⟩ <;> rw [e] at hm <;>
          rcases List.mem_append.mp hm with hm | hm
        · exact Or.inl hm
        · simp only [List.mem_singleton, Prod.mk.injEq, Pend.getHit.injEq] at hm
          obtain ⟨rfl, rfl⟩ := hm
          right
          intro k' hk'
          have := hopu _ hk'; cases this
          exact ⟨_, hfirst, ((ho.co k v hv0).ext o [j] (fun j' op'' hj' _ hjm' => notNew k (hnw k) j' op'' hj' hjm')).toHit
            (fun j' hj' => by
              have hj'' : j' ∉ g.started ++ [j] := by simpa [Gh.ext] using hj'
              show endIdx (g.evs ++ [o]) j' = none
              rw [endIdx_snoc_none o (h.gi.s2 j' (fun hh => hj'' (List.mem_append_left _ hh))), hres]; simp) _⟩
        · exact Or.inl hm
        · simp at hm
    | put k v =>
      obtain ⟨ts, tp, tg⟩ := startPut_nb cfg hwt s i k v now ho.dz
      have hres : o.res = none := by
        rw [hor]
        have e0 : start cfg s i (.put k v) now =
            if cfg.wt then (((cachePut cfg (s.bump cfg k) k v now).inflInc cfg k).setPend i (.putWT k v), none)
            else ({ (cachePut cfg (s.bump cfg k) k v now) with
              dirty := setAdd (cachePut cfg (s.bump cfg k) k v now).dirty k }.setPend i .putWB, none) := rfl
        rw [e0, if_pos hwt]
      have hpend : ∀ x ∈ s.pend, x ∈ (start cfg s i (.put k v) now).1.pend := by
        intro x hx; rw [tp]; exact List.mem_append_left _ hx
      have hiS : i ∈ (g.ext o [i]).started := by simp [Gh.ext]
      have hie' : endIdx (g.evs ++ [o]) i = none := by rw [endIdx_snoc_none o hi0, hres]; simp
      refine oinv_gen h.gi ho hnewS hoS ts.dirty ?_ ?_
        (fun k' => Or.inl ⟨by rw [ts.back], fun hs => by rw [hres] at hs; cases hs⟩) ?_ ?_
        (fun _ _ _ hs => by rw [hres] at hs; cases hs)
      · intro x hx
        rw [tp] at hx
        rcases List.mem_append.mp hx with hx | hx
        · exact ho.nowb x hx
        · simp only [List.mem_singleton] at hx; subst hx; simp
      · intro j op'' k' hj hjm hk
        rcases List.mem_append.mp hj with hj | hj
        · exact lim_old ho o hpend hj hjm hk
        · have : j = i := by simpa using hj
          subst this
          rw [hopu op'' hjm] at hk
          have e := (wk_put k v k').mp hk
          subst e
          exact Or.inl ⟨.putWT k' v, by rw [tp]; simp, rfl⟩
      · intro k' w hw
        rcases ts.cache k' w hw with h' | h'
        · by_cases e : k' = k
          · -- the entry of `k` itself is the new value
            subst e
            rw [tg] at hw; cases hw
            right
            refine ⟨i, _, hiS, hop, rfl, ?_⟩
            intro j op'' hj hjm _
            left
            by_cases hj0 : j ∈ g.started
            · obtain ⟨sj, hsj⟩ := Option.isSome_iff_exists.mp (h.gi.s1 j hj0)
              exact ⟨_, sj, hfirst, firstIdx_snoc_some o hsj, Nat.le_of_lt (firstIdx_lt hsj)⟩
            · have : j = i := by
                have := mem_ext_started.mp hj
                simpa [hj0] using this
              subst this
              exact ⟨_, _, hfirst, hfirst, Nat.le_refl _⟩
          · exact Or.inl ⟨h', notNew k' (fun e' => e ((wk_put k v k').mp e'))⟩
        · cases h'
          right
          refine ⟨i, _, hiS, hop, rfl, ?_⟩
          intro j op'' hj hjm _
          left
          by_cases hj0 : j ∈ g.started
          · obtain ⟨sj, hsj⟩ := Option.isSome_iff_exists.mp (h.gi.s1 j hj0)
            exact ⟨_, sj, hfirst, firstIdx_snoc_some o hsj, Nat.le_of_lt (firstIdx_lt hsj)⟩
          · have : j = i := by
              have := mem_ext_started.mp hj
              simpa [hj0] using this
            subst this
            exact ⟨_, _, hfirst, hfirst, Nat.le_refl _⟩
      · intro j w hm
        rw [tp] at hm
        rcases List.mem_append.mp hm with hm | hm
        · exact Or.inl hm
        · simp at hm
    | del k =>
      obtain ⟨d1, d2, ⟨b, d3⟩, d4, d5, d6⟩ := startDel_nb cfg s i k now ho.dz
      have hres : o.res = none := by rw [hor]; exact d6
      have hpend : ∀ x ∈ s.pend, x ∈ (start cfg s i (.del k) now).1.pend := by
        intro x hx; rw [d3]; exact List.mem_append_left _ hx
      refine oinv_gen h.gi ho hnewS hoS d1 ?_ ?_
        (fun k' => Or.inl ⟨by rw [d2], fun hs => by rw [hres] at hs; cases hs⟩) ?_ ?_
        (fun _ _ _ hs => by rw [hres] at hs; cases hs)
      · intro x hx
        rw [d3] at hx
        rcases List.mem_append.mp hx with hx | hx
        · exact ho.nowb x hx
        · simp only [List.mem_singleton] at hx; subst hx; simp
      · intro j op'' k' hj hjm hk
        rcases List.mem_append.mp hj with hj | hj
        · exact lim_old ho o hpend hj hjm hk
        · have : j = i := by simpa using hj
          subst this
          rw [hopu op'' hjm] at hk
          have e := (wk_del k k').mp hk
          subst e
          exact Or.inl ⟨.del k' b, by rw [d3]; simp, rfl⟩
      · intro k' w hw
        have hne : k' ≠ k := fun e => by subst e; exact d4 (sq_mem_akeys_of_some _ _ _ hw)
        exact Or.inl ⟨d5 k' w hw, notNew k' (fun e' => hne ((wk_del k k').mp e'))⟩
      · intro j w hm
        rw [d3] at hm
        rcases List.mem_append.mp hm with hm | hm
        · exact Or.inl hm
        · simp at hm
    | inv k =>
      obtain ⟨ts, tp, _⟩ := startInv_nb cfg s i k now ho.dz
      have hnw : ∀ k', wk (OpK.inv k) ≠ some k' := fun k' e' => by simp [wk, wkv] at e'
      refine oinv_gen h.gi ho hnewS hoS ts.dirty (by rw [tp]; exact ho.nowb)
        (limNW _ (fun x hx => by rw [tp]; exact hx) hnw)
        (fun k' => Or.inl ⟨by rw [ts.back], fun _ op'' hm' => by rw [hoi] at hm'; rw [hopu op'' hm']; exact hnw k'⟩)
        (fun k' w hw => Or.inl ⟨(ts.cache k' w hw).elim id (fun e => by cases e), notNew k' (hnw k')⟩)
        (fun j w hm => Or.inl (by rw [tp] at hm; exact hm)) ?_
      intro k' rs hm
      rw [hoi] at hm
      have := hopu _ hm; cases this
    | invAll =>
      obtain ⟨ts, tp, _⟩ := startInvAll_nb cfg s i now ho.dz
      have hnw : ∀ k', wk OpK.invAll ≠ some k' := fun k' e' => by simp [wk, wkv] at e'
      refine oinv_gen h.gi ho hnewS hoS ts.dirty (by rw [tp]; exact ho.nowb)
        (limNW _ (fun x hx => by rw [tp]; exact hx) hnw)
        (fun k' => Or.inl ⟨by rw [ts.back], fun _ op'' hm' => by rw [hoi] at hm'; rw [hopu op'' hm']; exact hnw k'⟩)
        (fun k' w hw => Or.inl ⟨(ts.cache k' w hw).elim id (fun e => by cases e), notNew k' (hnw k')⟩)
        (fun j w hm => Or.inl (by rw [tp] at hm; exact hm)) ?_
      intro k' rs hm
      rw [hoi] at hm
      have := hopu _ hm; cases this
    | flush order =>
      have e : start cfg s i (.flush order) now = (s, some (.count 0)) := flushNext_clean cfg hrep s i ho.dz order 0
      rw [e] at hor ⊢
      have hnw : ∀ k, wk (OpK.flush order) ≠ some k := fun k e' => by simp [wk, wkv] at e'
      refine oinv_gen h.gi ho hnewS hoS ho.dz ho.nowb (limNW s (fun x hx => hx) hnw)
        (fun k => Or.inl ⟨rfl, fun _ op'' hm' => by rw [hoi] at hm'; rw [hopu op'' hm']; exact hnw k⟩)
        (fun k v hv => Or.inl ⟨hv, notNew k (hnw k)⟩) (fun j v hm => Or.inl hm) ?_
      intro k rs hm
      rw [hoi] at hm
      have := hopu _ hm; cases this

end HappyModel.C16
