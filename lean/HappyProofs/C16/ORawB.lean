import HappyProofs.C16.ORawA
/-!
Ordered read-after-write (write-through stores), part 2: what the remaining segments of a clean
store do (`startDel_nb`, `flushNext_clean`, `resumeDel_nb`), the invariant `OInv`, and how its
clauses survive an extension of the context.

In a write-through store nothing is ever dirty, so the backing store always holds the value of the
write that completed last (`BackO`), and a cache entry is the value of the write issued last, or of
the write that had completed last when every issued write had completed (`CacheO`, through `OkPair`).
-/
namespace HappyModel.C16

/-! ### segments of a clean store -/

theorem startDel_nb (c : Cfg) (s : St) (i k now : Nat) (h : s.dirty = []) :
    (start c s i (.del k) now).1.dirty = [] ∧ (start c s i (.del k) now).1.back = s.back ∧
    (∃ b, (start c s i (.del k) now).1.pend = s.pend ++ [(i, .del k b)]) ∧
    k ∉ akeys (start c s i (.del k) now).1.cache ∧
    (∀ x w, aget? (start c s i (.del k) now).1.cache x = some w → aget? s.cache x = some w) ∧
    (start c s i (.del k) now).2 = none := by
  have e0 : start c s i (.del k) now =
      (((if decide (k ∈ akeys (s.bump c k).cache) = true then
          cacheRemove (if c.rep = true then (s.bump c k).writeBack k else s.bump c k) k else s.bump c k).inflInc c k).setPend i
        (.del k (decide (k ∈ akeys (s.bump c k).cache))), none) := rfl
  rw [e0]
  have hb : (s.bump c k).dirty = [] := by rw [wb_bump_dirty]; exact h
  have ewb : (if c.rep = true then (s.bump c k).writeBack k else s.bump c k) = s.bump c k := by
    split
    · exact writeBack_nb _ k hb
    · rfl
  rw [ewb]
  by_cases hk : k ∈ akeys (s.bump c k).cache
  · simp only [hk, decide_true, if_true]
    refine ⟨?_, ?_, ⟨true, ?_⟩, ?_, ?_, by first | rfl | trivial⟩
    · show ((cacheRemove (s.bump c k) k).inflInc c k).dirty = []
      rw [wb_inflInc_dirty]; show setDel (s.bump c k).dirty k = []; rw [hb]; rfl
    · show ((cacheRemove (s.bump c k) k).inflInc c k).back = s.back
      rw [wb_inflInc_back]; show (s.bump c k).back = _; rw [sq_bump_back]
    · show ((cacheRemove (s.bump c k) k).inflInc c k).pend ++ _ = _
      rw [wb_inflInc_pend]; show (s.bump c k).pend ++ _ = _; rw [wb_bump_pend]
    · show k ∉ akeys ((cacheRemove (s.bump c k) k).inflInc c k).cache
      rw [sq_inflInc_cache]; show k ∉ akeys (adel (s.bump c k).cache k)
      rw [mem_akeys_adel]; exact fun hh => hh.2 rfl
    · intro x w hw
      have hw : aget? ((cacheRemove (s.bump c k) k).inflInc c k).cache x = some w := hw
      rw [sq_inflInc_cache] at hw
      have hw : aget? (adel (s.bump c k).cache k) x = some w := hw
      rw [wb_bump_cache] at hw
      by_cases ex : x = k
      · subst ex; rw [sq_aget?_adel_self] at hw; cases hw
      · rw [wb_aget?_adel_other _ _ _ ex] at hw; exact hw
  · simp only [hk, decide_false]
    refine ⟨?_, ?_, ⟨false, ?_⟩, ?_, ?_, by first | rfl | trivial⟩
    · show ((s.bump c k).inflInc c k).dirty = []
      rw [wb_inflInc_dirty]; exact hb
    · show ((s.bump c k).inflInc c k).back = s.back
      rw [wb_inflInc_back, sq_bump_back]
    · show ((s.bump c k).inflInc c k).pend ++ _ = _
      rw [wb_inflInc_pend, wb_bump_pend]
    · show k ∉ akeys ((s.bump c k).inflInc c k).cache
      rw [sq_inflInc_cache]; exact hk
    · intro x w hw
      have hw : aget? ((s.bump c k).inflInc c k).cache x = some w := hw
      rw [sq_inflInc_cache, wb_bump_cache] at hw; exact hw

theorem flushNext_clean (c : Cfg) (hrep : c.rep = true) (s : St) (i : Nat) (h : s.dirty = []) :
    ∀ (l : List Key) (n : Nat), flushNext c s i l n = (s, some (.count n)) := by
  intro l
  induction l with
  | nil => intro n; rfl
  | cons k rest ih =>
    intro n
    unfold flushNext
    rw [if_pos hrep]
    have : ¬ (k ∈ s.dirty ∧ k ∈ akeys s.cache) := by rw [h]; simp
    rw [if_neg this]
    exact ih n

theorem resumeDel_nb (c : Cfg) (s : St) (i k now : Nat) (b : Bool) :
    (resume c s i (.del k b) now).1.cache = s.cache ∧ (resume c s i (.del k b) now).1.dirty = s.dirty ∧
    (resume c s i (.del k b) now).1.back = adel s.back k ∧
    (resume c s i (.del k b) now).1.pend = (s.clearPend i).pend ∧
    (resume c s i (.del k b) now).2.isSome := by
  have e0 : resume c s i (.del k b) now =
      (({ (s.clearPend i) with back := adel (s.clearPend i).back k } : St).inflDec c k,
        some (.bool (b || decide (k ∈ akeys (s.clearPend i).back)))) := rfl
  rw [e0]
  refine ⟨?_, ?_, ?_, ?_, rfl⟩
  · rw [sq_inflDec_cache]; rfl
  · rw [wb_inflDec_dirty]; rfl
  · rw [sq_inflDec_back]; rfl
  · rw [wb_inflDec_pend]

/-! ### the invariant -/

/-- the backing store holds the value of the write that completed last -/
def BackO (g : Gh) (k : Key) (v : Option Nat) : Prop :=
  (∃ i op ei, i ∈ g.started ∧ (i, op) ∈ g.ops ∧ wkv op = some (k, v) ∧ endIdx g.evs i = some ei ∧
      ∀ j op' ej, j ∈ g.started → (j, op') ∈ g.ops → wk op' = some k → endIdx g.evs j = some ej → ej ≤ ei) ∨
  (v = none ∧ ∀ j op', j ∈ g.started → (j, op') ∈ g.ops → wk op' = some k → endIdx g.evs j = none)

/-- a cache entry is the value of a write that no started write is later than -/
def CacheO (g : Gh) (k : Key) (v : Nat) : Prop :=
  ∃ i op, i ∈ g.started ∧ (i, op) ∈ g.ops ∧ wkv op = some (k, some v) ∧
    ∀ j op', j ∈ g.started → (j, op') ∈ g.ops → wk op' = some k → OkPair g.evs i j

/-- the value a pending hit carries, against the writes completed before it was issued -/
def HitO (g : Gh) (k : Key) (v : Nat) (rs : Nat) : Prop :=
  ∃ i op, i ∈ g.started ∧ (i, op) ∈ g.ops ∧ wkv op = some (k, some v) ∧
    ∀ j op', (j, op') ∈ g.ops → wk op' = some k → CompletedBefore g.evs j rs → OkPair g.evs i j

structure OInv (g : Gh) (s : St) : Prop where
  dz : s.dirty = []
  nowb : ∀ x ∈ s.pend, x.2 ≠ Pend.putWB
  ns : ∀ i, i ∉ g.started → firstIdx g.evs i = none
  lim : ∀ j op k, j ∈ g.started → (j, op) ∈ g.ops → wk op = some k → BP s k j ∨ (endIdx g.evs j).isSome
  bo : ∀ k, BackO g k (aget? s.back k)
  co : ∀ k v, aget? s.cache k = some v → CacheO g k v
  ho : ∀ i v, (i, Pend.getHit v) ∈ s.pend → ∀ k, (i, OpK.get k) ∈ g.ops →
        ∃ rs, firstIdx g.evs i = some rs ∧ HitO g k v rs
  dO : ∀ i k rs re, (i, OpK.get k) ∈ g.ops → firstIdx g.evs i = some rs → endIdx g.evs i = some re →
        ∃ v, (g.evs.getD re dObs).res = some (resOf v) ∧ ReadGoodO g.ops g.evs k rs re v

/-! ### extension of the context -/

theorem mem_ext_started {g : Gh} {o : Obs} {new : List Nat} {j : Nat} :
    j ∈ (g.ext o new).started ↔ j ∈ g.started ∨ j ∈ new := by
  simp [Gh.ext]

/-- no write of `k` completes with this observation, and the newly started ids have not completed -/
theorem BackO.ext {g : Gh} {k : Key} {v : Option Nat} (o : Obs) (new : List Nat) (h : BackO g k v)
    (hnc : ∀ j op', j ∈ g.started ++ new → (j, op') ∈ g.ops → wk op' = some k → endIdx g.evs j = none →
      endIdx (g.evs ++ [o]) j = none) (hs2 : ∀ j, j ∉ g.started → endIdx g.evs j = none) :
    BackO (g.ext o new) k v := by
  have key : ∀ j op' ej, j ∈ (g.ext o new).started → (j, op') ∈ g.ops → wk op' = some k →
      endIdx (g.evs ++ [o]) j = some ej → j ∈ g.started ∧ endIdx g.evs j = some ej := by
    intro j op' ej hj hjm hk he
    have hj' : j ∈ g.started ++ new := by simpa [Gh.ext] using hj
    cases h0 : endIdx g.evs j with
    | none => rw [hnc j op' hj' hjm hk h0] at he; cases he
    | some e0 =>
      rw [endIdx_snoc_some o h0] at he
      refine ⟨Classical.byContradiction fun hn => ?_, by rw [← he]⟩
      rw [hs2 j hn] at h0; cases h0
  rcases h with ⟨i, op, ei, hi, hm, hw, he, hall⟩ | ⟨hv, hall⟩
  · refine Or.inl ⟨i, op, ei, mem_ext_started.mpr (Or.inl hi), hm, hw, endIdx_snoc_some o he, ?_⟩
    intro j op' ej hj hjm hk hej
    obtain ⟨hj0, he0⟩ := key j op' ej hj hjm hk hej
    exact hall j op' ej hj0 hjm hk he0
  · refine Or.inr ⟨hv, ?_⟩
    intro j op' hj hjm hk
    cases he : endIdx (g.evs ++ [o]) j with
    | none => exact he
    | some ej =>
      obtain ⟨hj0, he0⟩ := key j op' ej hj hjm hk he
      rw [hall j op' hj0 hjm hk] at he0; cases he0

/-- the newly started ids are not writes of `k` -/
theorem CacheO.ext {g : Gh} {k : Key} {v : Nat} (o : Obs) (new : List Nat) (h : CacheO g k v)
    (hnew : ∀ j op', j ∈ new → j ∉ g.started → (j, op') ∈ g.ops → wk op' ≠ some k) : CacheO (g.ext o new) k v := by
  obtain ⟨i, op, hi, hm, hw, hall⟩ := h
  refine ⟨i, op, mem_ext_started.mpr (Or.inl hi), hm, hw, ?_⟩
  intro j op' hj hjm hk
  by_cases hj0 : j ∈ g.started
  · exact (hall j op' hj0 hjm hk).snoc o
  · have : j ∈ new := (mem_ext_started.mp hj).resolve_left hj0
    exact absurd hk (hnew j op' this hj0 hjm)

theorem HitO.ext {g : Gh} {k : Key} {v rs : Nat} (o : Obs) (new : List Nat) (h : HitO g k v rs)
    (hr : rs ≤ g.evs.length) : HitO (g.ext o new) k v rs := by
  obtain ⟨i, op, hi, hm, hw, hall⟩ := h
  refine ⟨i, op, mem_ext_started.mpr (Or.inl hi), hm, hw, ?_⟩
  intro j op' hjm hk hc
  exact (hall j op' hjm hk ((cb_snoc o hr).mp hc)).snoc o

theorem CacheO.toHit {g : Gh} {k : Key} {v : Nat} (h : CacheO g k v) (hs2 : ∀ j, j ∉ g.started → endIdx g.evs j = none)
    (rs : Nat) : HitO g k v rs := by
  obtain ⟨i, op, hi, hm, hw, hall⟩ := h
  refine ⟨i, op, hi, hm, hw, ?_⟩
  intro j op' hjm hk ⟨e, he, _⟩
  have hj : j ∈ g.started := Classical.byContradiction fun hn => by rw [hs2 j hn] at he; cases he
  exact hall j op' hj hjm hk

/-- a pending hit's value is good for the completing `get` -/
theorem HitO.good {g : Gh} (gi : GI g) {k : Key} {v rs : Nat} (o : Obs) (h : HitO g k v rs) (hr : rs ≤ g.evs.length) :
    ReadGoodO g.ops (g.evs ++ [o]) k rs g.evs.length (some v) := by
  obtain ⟨i, op, hi, hm, hw, hall⟩ := h
  refine Or.inl ⟨i, op, hm, hw, ?_, ?_⟩
  · cases hs : firstIdx g.evs i with
    | none => have := gi.s1 i hi; rw [hs] at this; cases this
    | some s => exact ⟨s, firstIdx_snoc_some o hs, firstIdx_lt hs⟩
  · intro j op' hjm hk hc
    exact ((hall j op' hjm hk ((cb_snoc o hr).mp hc)).snoc o).not_sup

/-- what the backing store holds is good for a completing `get` that reads it -/
theorem BackO.good {g : Gh} (gi : GI g) {k : Key} {v : Option Nat} (o : Obs) (h : BackO g k v) (rs : Nat)
    (hr : rs ≤ g.evs.length) : ReadGoodO g.ops (g.evs ++ [o]) k rs g.evs.length v := by
  have hst : ∀ j, CompletedBefore (g.evs ++ [o]) j rs → j ∈ g.started ∧ ∃ ej, endIdx g.evs j = some ej := by
    intro j hc
    obtain ⟨e, he, _⟩ := (cb_snoc o hr).mp hc
    exact ⟨Classical.byContradiction (fun hn => by rw [gi.s2 j hn] at he; cases he), e, he⟩
  rcases h with ⟨i, op, ei, hi, hm, hw, he, hall⟩ | ⟨hv, hall⟩
  · refine Or.inl ⟨i, op, hm, hw, ?_, ?_⟩
    · obtain ⟨s, hs, _⟩ := firstIdx_of_endIdx he
      exact ⟨s, firstIdx_snoc_some o hs, firstIdx_lt hs⟩
    · intro j op' hjm hk hc
      obtain ⟨hj, ej, hej⟩ := hst j hc
      have hle := hall j op' ej hj hjm hk hej
      exact (OkPair.snoc o (Or.inr ⟨ei, ej, he, hej, hle⟩)).not_sup
  · refine Or.inr ⟨hv, ?_⟩
    intro j op' hjm hk hc
    obtain ⟨hj, ej, hej⟩ := hst j hc
    rw [hall j op' hj hjm hk] at hej; cases hej

end HappyModel.C16
