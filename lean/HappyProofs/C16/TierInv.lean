import HappyModel.C16.Tier
import HappyProofs.C16.StoreInv
/-!
`MultiTierCache`: every tier keeps the `CachedStore` invariant `SInv` (policy keys = cached keys,
no duplicates, size ≤ capacity) along every interleaving of multi-tier segments, both variants, any
number of tiers.  Everything the multi-tier code does to a tier is a `CachedStore` segment
(`start`/`step`) or `_cache_put`, so the tier lemmas of `StoreInv.lean` carry over through `onTier`
and `sweepL`.
-/
namespace HappyModel.C16.Tier
open HappyModel.C16

/-- tier `t` (configured by `cfg.tiers[t]`) satisfies `SInv`, for every `t` -/
def TInv (cfgs : List Cfg) (ss : List St) : Prop :=
  ∀ (t : Nat) (c : Cfg) (s : St), cfgs[t]? = some c → ss[t]? = some s → SInv c s

def Caps (cfgs : List Cfg) : Prop := ∀ c, c ∈ cfgs → 1 ≤ c.cap

theorem sinv_plug {c : Cfg} {s : St} (h : SInv c s) (b : List (Key × Nat)) : SInv c (plug s b) :=
  h.same' ⟨rfl, rfl⟩

theorem caps_get {cfgs : List Cfg} (h : Caps cfgs) {t : Nat} {c : Cfg} (e : cfgs[t]? = some c) : 1 ≤ c.cap :=
  h c (List.mem_of_getElem? e)

theorem tinv_set {cfgs : List Cfg} {ss : List St} (h : TInv cfgs ss) (t : Nat) (c : Cfg) (x : St)
    (ec : cfgs[t]? = some c) (hx : SInv c x) : TInv cfgs (ss.set t x) := by
  intro t' c' s' ec' es'
  by_cases e : t = t'
  · subst e
    rw [List.getElem?_set] at es'
    simp only [if_true] at es'
    split at es'
    · cases es'
      rw [ec] at ec'; cases ec'
      exact hx
    · cases es'
  · rw [List.getElem?_set_ne e] at es'
    exact h t' c' s' ec' es'

/-- tier-level code that keeps `SInv` keeps it on every tier when run through `onTier` -/
theorem onTier_inv (cfg : MCfg) (hcap : Caps cfg.tiers) (ms : MSt) (t : Nat) (f : Cfg → St → St × Option Res)
    (hf : ∀ c s, 1 ≤ c.cap → SInv c s → SInv c (f c s).1) (h : TInv cfg.tiers ms.tiers) :
    TInv cfg.tiers (onTier cfg ms t f).1.tiers := by
  unfold onTier
  split
  · rename_i c s ec es
    exact tinv_set h t c _ ec (hf c _ (caps_get hcap ec) (sinv_plug (h t c s ec es) _))
  · exact h

theorem sweepL_inv (op : OpK) (cs : List Cfg) (ss : List St) (b : List (Key × Nat)) (hcap : Caps cs)
    (h : TInv cs ss) : TInv cs (sweepL op cs ss b).1 := by
  induction cs generalizing ss b with
  | nil => simpa [sweepL] using h
  | cons c cs ih =>
    cases ss with
    | nil => simpa [sweepL] using h
    | cons s ss =>
      simp only [sweepL]
      intro t c' s' ec es
      cases t with
      | zero =>
        simp only [List.getElem?_cons_zero, Option.some.injEq] at ec es
        subst ec; subst es
        exact start_inv c (hcap c (by simp)) _ 0 op 0 (sinv_plug (h 0 c s rfl rfl) b)
      | succ t =>
        simp only [List.getElem?_cons_succ] at ec es
        refine ih ss _ (fun x hx => hcap x (by simp [hx])) ?_ t c' s' ec es
        intro t1 c1 s1 e1 e2
        exact h (t1 + 1) c1 s1 (by simpa using e1) (by simpa using e2)

theorem sweep_inv (cfg : MCfg) (hcap : Caps cfg.tiers) (ms : MSt) (op : OpK) (h : TInv cfg.tiers ms.tiers) :
    TInv cfg.tiers (ms.sweep cfg op).tiers :=
  sweepL_inv op cfg.tiers ms.tiers ms.back hcap h

theorem sweepLow_inv (cfg : MCfg) (hcap : Caps cfg.tiers) (ms : MSt) (op : OpK) (h : TInv cfg.tiers ms.tiers) :
    TInv cfg.tiers (ms.sweepLow cfg op).tiers := by
  unfold MSt.sweepLow
  show TInv cfg.tiers (ms.tiers.take 1 ++ (sweepL op (cfg.tiers.drop 1) (ms.tiers.drop 1) ms.back).1)
  cases hs : ms.tiers with
  | nil => intro t c s _ es; simp [sweepL] at es
  | cons s0 ss =>
    cases hc : cfg.tiers with
    | nil => intro t c s ec _; simp at ec
    | cons c0 cs =>
      rw [hs, hc] at h
      rw [hc] at hcap
      simp only [List.take_succ_cons, List.take_zero, List.drop_succ_cons, List.drop_zero, List.singleton_append]
      intro t c s ec es
      cases t with
      | zero =>
        simp only [List.getElem?_cons_zero, Option.some.injEq] at ec es
        subst ec; subst es
        exact h 0 _ _ rfl rfl
      | succ t =>
        simp only [List.getElem?_cons_succ] at ec es
        refine sweepL_inv op cs ss ms.back (fun x hx => hcap x (by simp [hx])) ?_ t c s ec es
        intro t1 c1 s1 e1 e2
        exact h (t1 + 1) c1 s1 (by simpa using e1) (by simpa using e2)

theorem fillL1_inv (cfg : MCfg) (hcap : Caps cfg.tiers) (ms : MSt) (k v now : Nat) (h : TInv cfg.tiers ms.tiers) :
    TInv cfg.tiers (ms.fillL1 cfg k v now).tiers :=
  onTier_inv cfg hcap ms 0 _ (fun c s hc hs => cachePut_inv c hc s k v now hs) h

theorem onStart_inv (cfg : MCfg) (hcap : Caps cfg.tiers) (ms : MSt) (t i : Nat) (op : OpK) (now : Nat)
    (h : TInv cfg.tiers ms.tiers) : TInv cfg.tiers (onTier cfg ms t (fun c s => start c s i op now)).1.tiers :=
  onTier_inv cfg hcap ms t _ (fun c s hc hs => start_inv c hc s i op now hs) h

theorem onStep_inv (cfg : MCfg) (hcap : Caps cfg.tiers) (ms : MSt) (t : Nat) (a : Act)
    (h : TInv cfg.tiers ms.tiers) : TInv cfg.tiers (onTier cfg ms t (fun c s => step c s a)).1.tiers :=
  onTier_inv cfg hcap ms t _ (fun c s hc hs => step_inv c hc s a hs) h

theorem enter_tiers (cfg : MCfg) (ms : MSt) (k : Key) : (ms.enter cfg k).tiers = ms.tiers := by
  unfold MSt.enter; split <;> rfl
theorem leave_tiers (cfg : MCfg) (ms : MSt) (k : Key) : (ms.leave cfg k).tiers = ms.tiers := by
  unfold MSt.leave; split <;> rfl

/-- every first segment keeps the tier invariant -/
theorem mstart_inv (cfg : MCfg) (hcap : Caps cfg.tiers) (ms : MSt) (i : Nat) (op : MOp) (now : Nat)
    (h : TInv cfg.tiers ms.tiers) : TInv cfg.tiers (mstart cfg ms i op now).1.tiers := by
  cases op with
  | get k =>
    simp only [mstart]
    split
    · exact onStart_inv cfg hcap _ _ i (.get k) now h
    · exact h
  | put k v => simp only [mstart]; show TInv cfg.tiers (ms.enter cfg k).tiers; rw [enter_tiers]; exact h
  | del k =>
    simp only [mstart]
    exact sweep_inv cfg hcap _ (.inv k) (by rw [enter_tiers]; exact h)
  | inv k => exact sweep_inv cfg hcap _ (.inv k) h
  | invAll => exact sweep_inv cfg hcap _ .invAll h
  | tget t k => exact onStart_inv cfg hcap _ t i (.get k) now h

/-- every later segment keeps the tier invariant -/
theorem mresume_inv (cfg : MCfg) (hcap : Caps cfg.tiers) (ms : MSt) (i : Nat) (p : MPend) (now : Nat)
    (h : TInv cfg.tiers ms.tiers) : TInv cfg.tiers (mresume cfg ms i p now).1.tiers := by
  have hc : TInv cfg.tiers (ms.clearPend i).tiers := h
  cases p with
  | tierGet t k e =>
    simp only [mresume]
    have h1 := onStep_inv cfg hcap (ms.clearPend i) t (.resume i now) hc
    split
    · simp only [afterTierGet]
      split
      · exact fillL1_inv cfg hcap _ k _ now h1
      · exact h1
    · exact h1
  | backGet k e =>
    simp only [mresume]
    split
    · split
      · exact fillL1_inv cfg hcap _ k _ now hc
      · exact hc
    · exact hc
  | putBack k v =>
    simp only [mresume]
    exact onStart_inv cfg hcap _ 0 i (.put k v) now (sweep_inv cfg hcap _ (.inv k) hc)
  | putL1 k =>
    simp only [mresume]
    rw [leave_tiers]
    have h1 := onStep_inv cfg hcap (ms.clearPend i) 0 (.resume i now) hc
    split
    · exact sweepLow_inv cfg hcap _ (.inv k) h1
    · exact h1
  | delBack k =>
    simp only [mresume]
    rw [leave_tiers]
    split
    · exact sweep_inv cfg hcap _ (.inv k) hc
    · exact hc
  | direct t => exact onStep_inv cfg hcap (ms.clearPend i) t (.resume i now) hc

theorem mstep_inv (cfg : MCfg) (hcap : Caps cfg.tiers) (ms : MSt) (a : MAct) (h : TInv cfg.tiers ms.tiers) :
    TInv cfg.tiers (mstep cfg ms a).1.tiers := by
  cases a with
  | start i op now => exact mstart_inv cfg hcap ms i op now h
  | resume i now =>
    simp only [mstep]
    split
    · exact mresume_inv cfg hcap ms i _ now h
    · exact h

theorem mrun_inv (cfg : MCfg) (hcap : Caps cfg.tiers) (ms : MSt) (as : List MAct) (h : TInv cfg.tiers ms.tiers) :
    TInv cfg.tiers (mrun cfg ms as).tiers := by
  induction as generalizing ms with
  | nil => exact h
  | cons a as ih => exact ih _ (mstep_inv cfg hcap ms a h)

/-- policies made by `Pol.ofName` -/
def Named (pols : List Pol) : Prop := ∀ p, p ∈ pols → ∃ name arg, Pol.ofName name arg = some p

theorem minit_inv (cfgs : List Cfg) (pols : List Pol) (hp : Named pols) : TInv cfgs (MSt.init pols).tiers := by
  intro t c s _ es
  simp only [MSt.init, List.getElem?_map] at es
  cases hpt : pols[t]? with
  | none => rw [hpt] at es; cases es
  | some p =>
    rw [hpt] at es
    simp only [Option.map_some, Option.some.injEq] at es
    subst es
    obtain ⟨name, arg, hn⟩ := hp p (List.mem_of_getElem? hpt)
    exact init_inv c name arg p hn

end HappyModel.C16.Tier
