import HappyProofs.C18.VClockBump
/-! Scalar clocks (Lamport, HLC): timestamps strictly increase along happened-before. Generic in the
timestamp order so that both clocks are instances. -/
namespace HappyModel.C18
set_option linter.unusedVariables false

structure TOrd (T : Type) where
  lt : T → T → Prop
  le : T → T → Prop
  le_refl : ∀ a, le a a
  lt_le : ∀ {a b}, lt a b → le a b
  le_lt : ∀ {a b c}, le a b → lt b c → lt a c

structure SInv {T : Type} (o : TOrd T) (ts : Rec → T) (s : St) (cur mcur : Nat → T) : Prop where
  sNode : ∀ n, ∀ r ∈ s.log, r.id ∈ s.know n → o.le (ts r) (cur n)
  sMsg : ∀ m, s.msent m = true → ∀ r ∈ s.log, r.id ∈ s.mknow m → o.le (ts r) (mcur m)
  sLog : ∀ r ∈ s.log, ∀ r' ∈ s.log, r'.id ∈ r.K → r'.id ≠ r.id → o.lt (ts r') (ts r)

theorem sinv_init {T} (o : TOrd T) (ts : Rec → T) (cur mcur : Nat → T) : SInv o ts {} cur mcur := by
  refine ⟨?_, ?_, ?_⟩ <;> simp

theorem sinv_bump {T} (o : TOrd T) (ts : Rec → T) {s : St} {cur mcur : Nat → T}
    (inv : Inv s) (si : SInv o ts s cur mcur) (n l : Nat) (v : Vec) (h : HTs) (K : List Nat) (t' : T)
    (hts : ts ⟨s.cnt, n, l, Vec.addAt v n 1, h, s.cnt :: K⟩ = t')
    (hid : ∀ x ∈ K, x < s.cnt)
    (hK : ∀ r ∈ s.log, r.id ∈ K → o.lt (ts r) t') :
    SInv o ts (bump s n l v h K) (upd cur n t') mcur := by
  have hlog : (bump s n l v h K).log = ⟨s.cnt, n, l, Vec.addAt v n 1, h, s.cnt :: K⟩ :: s.log := rfl
  refine ⟨?_, ?_, ?_⟩
  · intro n' r hr hmem
    rw [hlog] at hr
    by_cases hn : n' = n
    · subst hn
      simp only [upd_same]
      rcases List.mem_cons.mp hr with rfl | hr
      · rw [hts]; exact o.le_refl _
      · simp [bump] at hmem
        rcases hmem with hmem | hmem
        · have := (inv.idLog r hr).1; omega
        · exact o.lt_le (hK r hr hmem)
    · simp [bump, upd_other _ _ _ _ hn] at hmem
      rw [upd_other _ _ _ _ hn]
      rcases List.mem_cons.mp hr with rfl | hr
      · have := inv.idNode n' _ hmem; simp at this
      · exact si.sNode n' r hr hmem
  · intro m hm r hr hmem
    rw [hlog] at hr
    have hm' : s.msent m = true := hm
    have hmem' : r.id ∈ s.mknow m := hmem
    rcases List.mem_cons.mp hr with rfl | hr
    · have := inv.idMsg m hm' _ hmem'; simp at this
    · exact si.sMsg m hm' r hr hmem'
  · intro r hr r' hr' hin hne
    rw [hlog] at hr hr'
    rcases List.mem_cons.mp hr with rfl | hr
    · simp only at hin hne
      rcases List.mem_cons.mp hr' with rfl | hr'
      · exact absurd rfl hne
      · rw [hts]
        rcases List.mem_cons.mp hin with h1 | h1
        · exact absurd h1 hne
        · exact hK r' hr' h1
    · rcases List.mem_cons.mp hr' with rfl | hr'
      · have h1 := (inv.idLog r hr).2 _ hin
        have h2 := (inv.idLog r hr).1
        simp at h1; omega
      · exact si.sLog r hr r' hr' hin hne

/-- after `send`, the message carries the sender's fresh timestamp and past -/
theorem sinv_send {T} (o : TOrd T) (ts : Rec → T) {s1 : St} {cur mcur : Nat → T}
    (si : SInv o ts s1 cur mcur) (n m : Nat) (a : Nat → Nat) (d : Nat → Vec) (e : Nat → HTs) :
    SInv o ts { s1 with mlam := a, mvc := d, mhlc := e, mknow := upd s1.mknow m (s1.know n),
                        msent := upd s1.msent m true } cur (upd mcur m (cur n)) := by
  refine ⟨si.sNode, ?_, si.sLog⟩
  intro m' hm' r hr hmem
  by_cases hmm : m' = m
  · subst hmm
    simp only [upd_same] at hmem ⊢
    exact si.sNode n r hr hmem
  · simp only [upd_other _ _ _ _ hmm] at hm' hmem ⊢
    exact si.sMsg m' hm' r hr hmem

end HappyModel.C18
