import HappyProofs.C18.OrsetSpec
/-!
OR-set: the invariant `OInv` is preserved by every step (for some ghost tag map), and it gives
`has x = orHas r x`.
-/
namespace HappyModel.C18

/-! ### the step, and the specified membership -/

def OInvE (s : Sys) (t : SpecSys) : Prop := ∃ tg, OInv s t tg

theorem oinve_step (s : Sys) (t : SpecSys) (o : COp) (hi : SpecInv t) (h : OInvE s t) :
    OInvE (s.step o) (t.step o) := by
  obtain ⟨tg, h⟩ := h
  cases o with
  | inc r k =>
    by_cases hk : k = 0
    · simp only [Sys.step, SpecSys.step, hk, if_true]; exact ⟨tg, h⟩
    · simp only [Sys.step, SpecSys.step, hk, if_false]
      exact ⟨tg, oinv_local_other s t tg hi h r _ _ rfl (fun _ _ _ ⟨_, e⟩ => by cases e)
        (fun _ _ _ ⟨_, e⟩ => by cases e)⟩
  | dec r k =>
    by_cases hk : k = 0
    · simp only [Sys.step, SpecSys.step, hk, if_true]; exact ⟨tg, h⟩
    · simp only [Sys.step, SpecSys.step, hk, if_false]
      exact ⟨tg, oinv_local_other s t tg hi h r _ _ rfl (fun _ _ _ ⟨_, e⟩ => by cases e)
        (fun _ _ _ ⟨_, e⟩ => by cases e)⟩
  | lset r v p l nd =>
    exact ⟨tg, oinv_local_other s t tg hi h r _ _ rfl (fun _ _ _ ⟨_, e⟩ => by cases e)
      (fun _ _ _ ⟨_, e⟩ => by cases e)⟩
  | oadd r x => exact ⟨_, oinv_add s t tg hi h r x⟩
  | orem r x => exact ⟨tg, oinv_rem s t tg hi h r x⟩
  | merge d sr => exact ⟨tg, oinv_merge s t tg h d sr _ rfl⟩

theorem SpecSys.orHas_iff (t : SpecSys) (r x : Nat) :
    t.orHas r x = true ↔
      ∃ a, Seen t r a ∧ IsAdd a x ∧ ∀ d, Seen t r d → IsRem d x → a.id ∉ d.K := by
  unfold SpecSys.orHas
  simp only [List.any_eq_true]
  constructor
  · rintro ⟨a, ha, h⟩
    split at h
    · rename_i r0 y hop
      simp only [Bool.and_eq_true, beq_iff_eq, List.contains_eq_mem, decide_eq_true_eq,
        List.all_eq_true] at h
      obtain ⟨⟨rfl, hk⟩, hall⟩ := h
      refine ⟨a, ⟨ha, hk⟩, ⟨r0, hop⟩, ?_⟩
      intro d ⟨hd, hdk⟩ ⟨r1, hdop⟩ hin
      have := hall d hd
      rw [hdop] at this
      simp [hdk, hin] at this
    · cases h
  · rintro ⟨a, ⟨ha, hk⟩, ⟨r0, hop⟩, hall⟩
    refine ⟨a, ha, ?_⟩
    rw [hop]
    simp only [Bool.and_eq_true, beq_iff_eq, List.contains_eq_mem, decide_eq_true_eq,
      List.all_eq_true, true_and]
    refine ⟨hk, fun d hd => ?_⟩
    split
    · rename_i r1 z hdop
      cases hz : (z == x && decide (d.id ∈ t.know r) && decide (a.id ∈ d.K)) with
      | false => rfl
      | true =>
        simp only [Bool.and_eq_true, beq_iff_eq, decide_eq_true_eq] at hz
        obtain ⟨⟨rfl, h1⟩, h2⟩ := hz
        exact absurd h2 (hall d ⟨hd, h1⟩ ⟨r1, hdop⟩)
    · rfl

theorem oinv_has (s : Sys) (t : SpecSys) (tg : Nat → Tag) (h : OInv s t tg) (r x : Nat) :
    (s.rep r).os.has x = t.orHas r x := by
  rw [Bool.eq_iff_iff, ORSet.has_iff, SpecSys.orHas_iff]
  constructor
  · rintro ⟨u, hu⟩
    obtain ⟨⟨a, h1, h2, h3⟩, h4⟩ := (h.ents r x u).mp hu
    refine ⟨a, h1, h2, fun d hd hr hin => h4 ?_⟩
    exact (h.tomb r u).mpr ⟨a, h1.1, x, h2, h3, d, hd, hr, hin⟩
  · rintro ⟨a, h1, h2, h3⟩
    refine ⟨tg a.id, (h.ents r x _).mpr ⟨⟨a, h1, h2, rfl⟩, fun hin => ?_⟩⟩
    obtain ⟨a', ha', y, h4, h5, d, h6, h7, h8⟩ := (h.tomb r _).mp hin
    have := h.inj a' ha' a h1.1 y x h4 h2 h5
    subst this
    have := isAdd_inj h4 h2
    subst this
    exact h3 d h6 h7 h8

theorem oinv_wf (s : Sys) (t : SpecSys) (tg : Nat → Tag) (h : OInv s t tg) (r : Nat) :
    (s.rep r).os.WF := by
  intro e he
  obtain ⟨x, u⟩ := e
  exact ((h.ents r x u).mp he).2

end HappyModel.C18
