import HappyProofs.C18.VClockInv
namespace HappyModel.C18
set_option linter.unusedVariables false

theorem bump_inv {s : St} (inv : Inv s) (n l : Nat) (v : Vec) (h : HTs) (K : List Nat)
    (hP : Pref s (Vec.get v) K) (hvn : Vec.get v n = s.nev n) (hid : ∀ x ∈ K, x < s.cnt)
    (hcl : ∀ x ∈ K, ∀ r ∈ s.log, r.id = x → ∀ y ∈ r.K, y ∈ K) : Inv (bump s n l v h K) := by
  have hlog : (bump s n l v h K).log = ⟨s.cnt, n, l, Vec.addAt v n 1, h, s.cnt :: K⟩ :: s.log := rfl
  have hcnt : (bump s n l v h K).cnt = s.cnt + 1 := rfl
  have hnew := pref_new n l v h hP hvn hid inv.ownId
  rw [← get_addAt_eq_upd] at hnew
  refine ⟨?_, ?_, ?_, ?_, ?_, ?_, ?_, ?_, ?_, ?_, ?_, ?_⟩
  · intro n'
    by_cases hn : n' = n
    · subst hn
      simpa [bump] using hnew
    · have := pref_keep n l v h K (inv.pNode n') (inv.idNode n')
      simpa [bump, upd_other _ _ _ _ hn] using this
  · intro m hm
    exact pref_keep n l v h K (inv.pMsg m hm) (inv.idMsg m hm)
  · intro r hr
    rw [hlog] at hr
    rcases List.mem_cons.mp hr with rfl | hr
    · exact hnew
    · exact pref_keep n l v h K (inv.pLog r hr) (fun x hx => by
        have := inv.idLog r hr; have := this.2 x hx; omega)
  · intro n' x hx
    rw [hcnt]
    by_cases hn : n' = n
    · subst hn; simp [bump] at hx
      rcases hx with rfl | hx
      · omega
      · have := hid x hx; omega
    · simp [bump, upd_other _ _ _ _ hn] at hx
      have := inv.idNode n' x hx; omega
  · intro m hm x hx
    rw [hcnt]; have := inv.idMsg m hm x hx; omega
  · intro r hr
    rw [hlog] at hr; rw [hcnt]
    rcases List.mem_cons.mp hr with rfl | hr
    · refine ⟨by simp, ?_⟩
      intro x hx; simp at hx
      rcases hx with rfl | hx
      · exact Nat.le_refl _
      · have := hid x hx; simp; omega
    · have := inv.idLog r hr; exact ⟨by omega, this.2⟩
  · intro i k hk1 hk2
    rw [hcnt]
    by_cases hin : i = n
    · subst hin
      simp [bump] at hk2
      by_cases hkk : k = s.nev i + 1
      · subst hkk; simp [bump]
      · simp [bump, upd_other _ _ _ _ hkk]
        have := inv.ownId i k hk1 (by omega); omega
    · simp [bump, upd_other _ _ _ _ hin] at hk2 ⊢
      have := inv.ownId i k hk1 hk2; omega
  · intro n'
    by_cases hn : n' = n
    · subst hn; simp [bump, Vec.get_addAt_self]; exact hvn
    · simp [bump, upd_other _ _ _ _ hn]; exact inv.ownV n'
  · intro r hr
    rw [hlog] at hr
    rcases List.mem_cons.mp hr with rfl | hr
    · simp [bump, hvn, Vec.get_addAt_self]
    · obtain ⟨a1, a2, a3, a4⟩ := inv.logSelf r hr
      obtain ⟨rid, rnode, rL, rV, rH, rK⟩ := r
      simp only [] at a1 a2 a3 a4 ⊢
      refine ⟨a1, a2, ?_, ?_⟩
      · by_cases hn : rnode = n
        · subst hn; simp [bump]; omega
        · simp [bump, upd_other _ _ _ _ hn]; exact a3
      · by_cases hn : rnode = n
        · subst hn
          have hne : Vec.get rV rnode ≠ s.nev rnode + 1 := by omega
          simp [bump, upd_other _ _ _ _ hne]; exact a4
        · simp [bump, upd_other _ _ _ _ hn]; exact a4
  · intro n' x hx r hr hrx y hy
    rw [hlog] at hr
    by_cases hn : n' = n
    · subst hn
      simp [bump] at hx ⊢
      rcases List.mem_cons.mp hr with rfl | hr
      · simpa using hy
      · have hlt := (inv.idLog r hr).1
        rcases hx with rfl | hx
        · omega
        · right; exact hcl x hx r hr hrx y hy
    · simp [bump, upd_other _ _ _ _ hn] at hx ⊢
      rcases List.mem_cons.mp hr with rfl | hr
      · have := inv.idNode n' x hx; simp at hrx; omega
      · exact inv.clNode n' x hx r hr hrx y hy
  · intro m hm x hx r hr hrx y hy
    rw [hlog] at hr
    rcases List.mem_cons.mp hr with rfl | hr
    · have := inv.idMsg m hm x hx; simp at hrx; omega
    · exact inv.clMsg m hm x hx r hr hrx y hy
  · intro r hr x hx r' hr' hrx y hy
    rw [hlog] at hr hr'
    rcases List.mem_cons.mp hr with rfl | hr
    · simp at hx ⊢
      rcases List.mem_cons.mp hr' with rfl | hr'
      · simpa using hy
      · have hlt := (inv.idLog r' hr').1
        rcases hx with rfl | hx
        · omega
        · right; exact hcl x hx r' hr' hrx y hy
    · have hle := (inv.idLog r hr).2 x hx
      have hlt := (inv.idLog r hr).1
      rcases List.mem_cons.mp hr' with rfl | hr'
      · simp at hrx; omega
      · exact inv.clLog r hr x hx r' hr' hrx y hy

theorem step_inv (s : St) (e : Ev) (inv : Inv s) : Inv (step s e) := by
  cases e with
  | loc n pt =>
    exact bump_inv inv n _ (s.vc n) _ (s.know n) (inv.pNode n) (inv.ownV n) (inv.idNode n) (inv.clNode n)
  | send n m pt =>
    unfold step; simp only []
    split
    · exact inv
    · rename_i hns
      have b := bump_inv inv n (s.lam n + 1) (s.vc n) (hlcNow (s.hlc n) pt) (s.know n)
        (inv.pNode n) (inv.ownV n) (inv.idNode n) (inv.clNode n)
      refine ⟨b.pNode, ?_, b.pLog, b.idNode, ?_, b.idLog, b.ownId, b.ownV, b.logSelf, b.clNode, ?_, b.clLog⟩
      · intro m' hm'
        by_cases hmm : m' = m
        · subst hmm; simp; exact b.pNode n
        · simp [upd_other _ _ _ _ hmm] at hm' ⊢; exact b.pMsg m' hm'
      · intro m' hm' x hx
        by_cases hmm : m' = m
        · subst hmm; simp at hx; exact b.idNode n x hx
        · simp [upd_other _ _ _ _ hmm] at hm' hx; exact b.idMsg m' hm' x hx
      · intro m' hm' x hx r hr hrx y hy
        by_cases hmm : m' = m
        · subst hmm; simp at hx ⊢; exact b.clNode n x hx r hr hrx y hy
        · simp [upd_other _ _ _ _ hmm] at hm' hx ⊢; exact b.clMsg m' hm' x hx r hr hrx y hy
  | recv n m pt =>
    unfold step; simp only []
    split
    · rename_i hs
      apply bump_inv inv n
      · rw [get_vmax_eq]; exact pref_join (inv.pNode n) (inv.pMsg m hs)
      · rw [Vec.get_vmax]
        have h1 := inv.ownV n
        have h2 := (inv.pMsg m hs).1 n
        omega
      · intro x hx
        rcases (mem_kunion _ _ _).mp hx with h | h
        · exact inv.idNode n x h
        · exact inv.idMsg m hs x h
      · intro x hx r hr hrx y hy
        rcases (mem_kunion _ _ _).mp hx with h | h
        · exact (mem_kunion _ _ _).mpr (Or.inl (inv.clNode n x h r hr hrx y hy))
        · exact (mem_kunion _ _ _).mpr (Or.inr (inv.clMsg m hs x h r hr hrx y hy))
    · exact inv

theorem run_inv (s : St) (es : List Ev) (inv : Inv s) : Inv (run s es) := by
  induction es generalizing s with
  | nil => simpa [run]
  | cons e es ih => exact ih _ (step_inv s e inv)

end HappyModel.C18
