import HappyProofs.C18.RoundBound
/-!
Fact (a) of `RoundFacts`: what a lossless round owes flows.
-/
namespace HappyModel.C18

theorem know_mono_run (ops : List COp) (x r : Nat) :
    ∀ t : SpecSys, x ∈ t.know r → x ∈ (SpecSys.run t ops).know r := by
  induction ops with
  | nil => intro t h; exact h
  | cons o os ih =>
    intro t h
    apply ih
    have hk := SpecSys.step_kind t o
    generalize t.step o = t' at hk
    cases hk with
    | noop _ => exact h
    | loc _ _ _ => rw [SpecSys.mem_know_local]; exact Or.inl h
    | mrg d s _ => rw [SpecSys.mem_know_merge]; exact Or.inl h

theorem knowOf_mono (k : Nat) (ops more : List (Nat × XOp)) (x r : Nat) (h : x ∈ knowOf k ops r) :
    x ∈ knowOf k (ops ++ more) r := by
  unfold knowOf at h ⊢
  rw [keyOps_append, SpecSys.run_append]
  exact know_mono_run _ x r _ h

/-- building a message: the new message entity receives what the sender has of a key it holds -/
theorem emit_flow (p : PSt) (hp : PInv p) (ops : List (Nat × XOp)) (s d : Nat) (push : Bool) (k x : Nat)
    (hk : k ∈ (p.keysOf s).map (·.1)) (h : x ∈ knowOf k ops s) :
    x ∈ knowOf k (ops ++ (p.emit .repaired s d push).2) (p.n + p.msgs.length) := by
  unfold knowOf at h ⊢
  rw [keyOps_append, SpecSys.run_append, keyOps_emit p hp, if_pos hk]
  simp only [SpecSys.run, SpecSys.step_merge]
  rw [SpecSys.mem_know_merge]
  exact Or.inr ⟨rfl, h⟩

/-- merging a message: the receiver gets what the message entity has of a key the message lists -/
theorem mergeKeys_flow (p : PSt) (ops : List (Nat × XOp)) (d m : Nat) (keys : List (Nat × Nat)) (k x : Nat)
    (hnd : (keys.map (·.1)).Nodup) (hk : k ∈ keys.map (·.1)) (h : x ∈ knowOf k ops (p.n + m)) :
    x ∈ knowOf k (ops ++ (p.mergeKeys .repaired d m keys).2) d := by
  unfold knowOf at h ⊢
  rw [keyOps_append, SpecSys.run_append, keyOps_mergeKeys p d m keys k hnd, if_pos hk]
  simp only [SpecSys.run, SpecSys.step_merge]
  rw [SpecSys.mem_know_merge]
  exact Or.inr ⟨rfl, h⟩

theorem peersOf_eq (p q : PSt) (h : q.peers = p.peers) (s : Nat) : q.peersOf s = p.peersOf s := by
  unfold PSt.peersOf; rw [h]

/-- the round's result when the chosen peer does not list the ticking store: push built, push merged -/
theorem round_noanswer (kind : Kind) (p : PSt) (s jx q : Nat) (qs : List Nat) (hps : p.peersOf s = q :: qs)
    (d : Nat) (hd : d = (q :: qs).getD (jx % (q :: qs).length) q)
    (hc : (p.peersOf d).contains s = false) :
    (p.step .repaired kind (.round s jx)).2 =
      (p.emit .repaired s d true).2 ++
      ((p.emit .repaired s d true).1.mergeKeys .repaired d p.msgs.length (p.keysOf s)).2 := by
  subst hd
  have hget : (p.emit .repaired s ((q :: qs).getD (jx % (q :: qs).length) q) true).1.msgs[p.msgs.length]? =
      some ⟨s, (q :: qs).getD (jx % (q :: qs).length) q, true, p.keysOf s⟩ := by simp [PSt.emit]
  have hpe : ((p.emit .repaired s ((q :: qs).getD (jx % (q :: qs).length) q) true).1.mergeKeys .repaired
      ((q :: qs).getD (jx % (q :: qs).length) q) p.msgs.length (p.keysOf s)).1.peersOf
      ((q :: qs).getD (jx % (q :: qs).length) q) = p.peersOf ((q :: qs).getD (jx % (q :: qs).length) q) :=
    peersOf_eq _ _ ((mergeKeys_msgs _ _ _ _).2.trans rfl) _
  have hdl : (p.emit .repaired s ((q :: qs).getD (jx % (q :: qs).length) q) true).1.dlStep .repaired p.msgs.length =
      (p.emit .repaired s ((q :: qs).getD (jx % (q :: qs).length) q) true).1.mergeKeys .repaired
        ((q :: qs).getD (jx % (q :: qs).length) q) p.msgs.length (p.keysOf s) := by
    simp only [PSt.dlStep, hget, hpe, hc, Bool.and_false, Bool.false_eq_true, if_false]
  simp only [PSt.step, tickStep_cons p s jx q qs hps, hdl]
  have hlen : ¬ ((p.emit .repaired s ((q :: qs).getD (jx % (q :: qs).length) q) true).1.mergeKeys .repaired
      ((q :: qs).getD (jx % (q :: qs).length) q) p.msgs.length (p.keysOf s)).1.msgs.length = p.msgs.length + 2 := by
    rw [(mergeKeys_msgs _ _ _ _).1]; simp [PSt.emit]
  simp only [hlen, if_false, List.append_nil]

end HappyModel.C18
