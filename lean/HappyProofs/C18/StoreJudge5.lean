import HappyProofs.C18.StoreJudge4
/-!
Part 5: `judgeStep` reduced to three conditions, and the knowledge ⇒ holds lemma.
-/
namespace HappyModel.C18

theorem judgeStep_ok (kind : Kind) (n nkeys : Nat) (mentioned : List Nat) (j : JSt) (so : StepObs)
    (hinc : ∀ mo ∈ so.created, ∀ k,
      (specAt (j.apply kind n so.step).spec k).know mo.src ≠ [] → k ∈ mo.keys)
    (hmiss : ∀ r, actingOf j so.step = some r →
      ∀ a ∈ (if isRound so.step then (r :: so.created.map (·.dst)).eraseDups else [r]), ∀ k,
        (specAt (j.advance kind n so).spec k).know a ≠ [] → ∃ o ∈ so.obs, o.1 = a ∧ o.2.1 = k)
    (hval : ∀ o ∈ so.obs,
      judgeValue kind (specAt (j.advance kind n so).spec o.2.1) o.1 o.2.2 mentioned = none) :
    judgeStep kind n nkeys mentioned j so = (j.advance kind n so, none) := by
  unfold judgeStep
  have h1 : so.created.find? (fun mo => (List.range nkeys).any fun k =>
      !((specAt (j.apply kind n so.step).spec k).know mo.src).isEmpty && !mo.keys.contains k) = none := by
    rw [List.find?_eq_none]
    intro mo hmo hany
    simp only [List.any_eq_true, Bool.and_eq_true, Bool.not_eq_true', List.isEmpty_eq_false_iff,
      List.contains_eq_mem, decide_eq_false_iff_not] at hany
    obtain ⟨k, _, hk1, hk2⟩ := hany
    exact hk2 (hinc mo hmo k hk1)
  simp only [h1]
  cases hact : actingOf j so.step with
  | none => rfl
  | some r =>
    simp only
    have h2 : (if isRound so.step then (r :: so.created.map (·.dst)).eraseDups else [r]).findSome?
        (fun a => ((List.range nkeys).find? fun k =>
          !((specAt (j.advance kind n so).spec k).know a).isEmpty &&
            !(so.obs.any fun o => o.1 == a && o.2.1 == k)).map fun k => (a, k)) = none := by
      rw [List.findSome?_eq_none_iff]
      intro a ha
      simp only [Option.map_eq_none_iff]
      rw [List.find?_eq_none]
      intro k _ hk
      simp only [Bool.and_eq_true, Bool.not_eq_true', List.isEmpty_eq_false_iff,
        List.any_eq_false, beq_iff_eq, not_and] at hk
      obtain ⟨o, ho, h3, h4⟩ := hmiss r hact a ha k hk.1
      exact hk.2 o ho h3 h4
    simp only [h2]
    have h3 : so.obs.findSome? (fun o =>
        (judgeValue kind (specAt (j.advance kind n so).spec o.2.1) o.1 o.2.2 mentioned).map
          fun sig => s!"{sig} store {o.1} key {o.2.1}") = none := by
      rw [List.findSome?_eq_none_iff]
      intro o ho
      rw [hval o ho]; rfl
    rw [h3]

/-- a store has received an update of a key only if it holds the key -/
theorem known_held {n : Nat} {j : JSt} {p : PSt} {ops : List (Nat × XOp)} (hj : JInv n j p ops)
    (hg : Good p ops) (a k : Nat) (ha : a < n) (hk : (specAt j.spec k).know a ≠ []) :
    p.holds a k = true := by
  rw [hj.spec k] at hk
  rcases know_origin _ _ a hk with h | ⟨o, ho, hr⟩
  · exact absurd rfl h
  · rw [mem_keyOps] at ho
    have := hg _ ho o rfl (by rw [hr, hj.n_eq]; exact ha)
    rw [hr] at this
    exact this

theorem known_in_keys {n : Nat} {j : JSt} {p q : PSt} {ops : List (Nat × XOp)} (hj : JInv n j p ops)
    (hg : Good p ops) (hq : Grows p q) (a k id : Nat) (ha : a < n) (msg : Msg) (hs : msg.src = a)
    (hkeys : msg.keys = q.keysOf a) (hk : (specAt j.spec k).know a ≠ []) :
    k ∈ (msgObsOf id msg).keys := by
  simp only [msgObsOf, mem_sortNat, hkeys]
  exact (holds_keysOf q a k).mp (hq.2 _ _ (known_held hj hg a k ha hk))

end HappyModel.C18
