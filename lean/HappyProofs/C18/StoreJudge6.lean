import HappyProofs.C18.StoreJudge5
/-!
Part 6: every step of a well-formed script passes `judgeStep` on the model's own observations, and
the invariants carry over.
-/
namespace HappyModel.C18

theorem sys_run_append' (s : Sys) (a b : List COp) : Sys.run s (a ++ b) = Sys.run (Sys.run s a) b := by
  induction a generalizing s with
  | nil => rfl
  | cons o os ih => simp [Sys.run, ih]

structure TInv (n : Nat) (j : JSt) (st : SSt) (ops : List (Nat × XOp)) : Prop where
  j : JInv n j st.p ops
  good : Good st.p ops
  lt : MsgsLt n st.p
  wfp : WFPeers n st.p.peers
  sys : ∀ k, sysAt st.sys k = Sys.run Sys.init (keyOps k ops)

theorem tinv_init (n : Nat) (peers : List (List Nat)) (hw : WFPeers n peers) :
    TInv n {} (SSt.init n peers) [] :=
  ⟨⟨rfl, pinv_init n peers, fun k => by simp [specAt, SpecSys.run, keyOps], rfl⟩,
   by intro e he; simp at he, by intro m hm; simp [SSt.init] at hm, hw,
   fun k => by simp [SSt.init, sysAt, keyOps, Sys.run]⟩

/-- invariants after a step described by a phase -/
theorem tinv_next (kind : Kind) {n : Nat} {j : JSt} {st : SSt} {ops : List (Nat × XOp)}
    (h : TInv n j st ops) (x : SStep) (new : List Msg)
    (ph : Phase n st.p (st.p.step .repaired kind x) new) :
    TInv n (j.advance kind n (stepObs kind st x)) (st.step .repaired kind x)
      (ops ++ (st.p.step .repaired kind x).2) := by
  refine ⟨jinv_step kind h.j x _, (h.good.mono ph.grows).append ph.good, ph.lt h.lt, ?_, ?_⟩
  · show WFPeers n (st.p.step .repaired kind x).1.peers
    rw [ph.peers]; exact h.wfp
  · intro k
    show sysAt (applyOps st.sys (st.p.step .repaired kind x).2) k = _
    rw [sysAt_applyOps, runX_base _ _ _ (step_base kind st.p x), h.sys k, keyOps_append,
      sys_run_append']

/-! ### the phase of each step kind and the messages it builds -/

/-- a message built from the state of its sender at some moment `q` after `pa` -/
def BuiltAfter (n : Nat) (pa : PSt) (m : Msg) : Prop :=
  m.src < n ∧ ∃ q, Grows pa q ∧ m.keys = q.keysOf m.src

theorem step_w_phase {n : Nat} (kind : Kind) (p : PSt) (s key : Nat) (op : WOp) :
    Phase n p (p.step .repaired kind (.w s key op)) [] := by
  have hg : Grows p (if p.holds s key then p else { p with held := p.held ++ [((s, key), s)] }) := by
    split
    · exact Grows.refl p
    · exact grows_hold p s key s
  have hh : (if p.holds s key then p else { p with held := p.held ++ [((s, key), s)] }).holds s key = true := by
    split
    · rename_i h; exact h
    · exact holds_new p s key s
  have hm : (if p.holds s key then p else { p with held := p.held ++ [((s, key), s)] }).msgs = p.msgs ∧
      (if p.holds s key then p else { p with held := p.held ++ [((s, key), s)] }).peers = p.peers := by
    split <;> exact ⟨rfl, rfl⟩
  simp only [PSt.step, wop_repaired]
  cases hso : specOp kind s op with
  | none =>
    simp only [Option.map_none]
    exact ⟨hg, by intro e he; simp at he, hm.2, by simp [hm.1], fun h m hmm => h m (by rw [← hm.1]; exact hmm)⟩
  | some o =>
    simp only [Option.map_some]
    refine ⟨hg, ?_, hm.2, by simp [hm.1], fun h m hmm => h m (by rw [← hm.1]; exact hmm)⟩
    intro e he o' ho' _
    simp only [List.mem_singleton] at he
    subst he
    simp only [XOp.base.injEq] at ho'
    subst ho'
    have : o.origin = s := by
      cases op <;> simp only [specOp] at hso <;> split at hso <;> simp at hso <;> subst hso <;> rfl
    rw [this]; exact hh

theorem step_tick_phase {n : Nat} (kind : Kind) (p : PSt) (s j : Nat) (hs : s < n)
    (hw : WFPeers n p.peers) :
    (Phase n p (p.step .repaired kind (.tick s j)) []) ∨
    (∃ d, d < n ∧ Phase n p (p.step .repaired kind (.tick s j)) [⟨s, d, true, p.keysOf s⟩]) := by
  simp only [PSt.step]
  cases hps : p.peersOf s with
  | nil => left; rw [tickStep_nil p s j hps]; exact phase_id n p
  | cons q qs =>
    right
    rw [tickStep_cons p s j q qs hps]
    exact ⟨_, peer_lt hw s j q qs hps, phase_emit p s _ true hs (peer_lt hw s j q qs hps)⟩

theorem step_dl_phase {n : Nat} (kind : Kind) (p : PSt) (m : Nat) (hlt : MsgsLt n p) :
    (p.msgs[m]? = none ∧ Phase n p (p.step .repaired kind (.dl m)) []) ∨
    (∃ msg, p.msgs[m]? = some msg ∧
      (Phase n p (p.step .repaired kind (.dl m)) [] ∨
       Phase n p (p.step .repaired kind (.dl m)) [respOf p m msg])) := by
  simp only [PSt.step]
  cases hm : p.msgs[m]? with
  | none => left; rw [dlStep_none p m hm]; exact ⟨rfl, phase_id n p⟩
  | some msg =>
    right
    refine ⟨msg, rfl, ?_⟩
    rcases phase_dlStep p m msg hm (hlt msg (List.mem_of_getElem? hm)) with h | ⟨_, h⟩
    · exact Or.inl h
    · exact Or.inr h

theorem step_round_phase {n : Nat} (kind : Kind) (p : PSt) (s j : Nat) (hs : s < n)
    (hw : WFPeers n p.peers) :
    (p.peersOf s = [] ∧ Phase n p (p.step .repaired kind (.round s j)) []) ∨
    (∃ q qs d, p.peersOf s = q :: qs ∧ d = (q :: qs).getD (j % (q :: qs).length) q ∧ d < n ∧
      (Phase n p (p.step .repaired kind (.round s j)) [⟨s, d, true, p.keysOf s⟩] ∨
       Phase n p (p.step .repaired kind (.round s j))
         [⟨s, d, true, p.keysOf s⟩,
          respOf (p.emit .repaired s d true).1 p.msgs.length ⟨s, d, true, p.keysOf s⟩])) := by
  simp only [PSt.step]
  cases hps : p.peersOf s with
  | nil =>
    left
    have hnone : p.msgs[p.msgs.length]? = none := by simp
    simp only [tickStep_nil p s j hps, dlStep_none p _ hnone, List.append_nil]
    have : ¬ p.msgs.length = p.msgs.length + 2 := by omega
    simp only [this, if_false]
    exact ⟨trivial, phase_id n p⟩
  | cons q qs =>
    right
    refine ⟨q, qs, _, rfl, rfl, ?_⟩
    simp only [tickStep_cons p s j q qs hps]
    have hd := peer_lt hw s j q qs hps
    generalize (q :: qs).getD (j % (q :: qs).length) q = d at hd ⊢
    refine ⟨hd, ?_⟩
    have ph1 := phase_emit (n := n) p s d true hs hd
    generalize hp1 : p.emit .repaired s d true = e1 at ph1 ⊢
    have hget : e1.1.msgs[p.msgs.length]? = some ⟨s, d, true, p.keysOf s⟩ := by rw [ph1.msgs]; simp
    rcases phase_dlStep (n := n) e1.1 p.msgs.length _ hget ⟨hs, hd⟩ with ph2 | ⟨_, ph2⟩
    · left
      have hlen : ¬ (e1.1.dlStep .repaired p.msgs.length).1.msgs.length = p.msgs.length + 2 := by
        rw [ph2.msgs, ph1.msgs]; simp
      simp only [hlen, if_false]
      have := (ph1.comp ph2).comp (phase_id n _)
      simpa using this
    · right
      have hlen : (e1.1.dlStep .repaired p.msgs.length).1.msgs.length = p.msgs.length + 2 := by
        rw [ph2.msgs, ph1.msgs]; simp
      simp only [hlen, if_true]
      have hget2 : (e1.1.dlStep .repaired p.msgs.length).1.msgs[p.msgs.length + 1]? =
          some (respOf e1.1 p.msgs.length ⟨s, d, true, p.keysOf s⟩) := by
        rw [ph2.msgs, ph1.msgs]; simp
      rcases phase_dlStep (n := n) _ (p.msgs.length + 1) _ hget2 ⟨hd, hs⟩ with ph3 | ⟨hpush, _⟩
      · have := (ph1.comp ph2).comp ph3
        simpa using this
      · simp [respOf] at hpush

end HappyModel.C18
