import HappyModel.C18.StoreTrace
import HappyProofs.C18.StoreDeliver
import HappyProofs.C18.StoreGossip
/-!
Towards "the store judge accepts the model's own transcript", part 1: list plumbing, the protocol
invariant (`PInv`: no store holds a key twice, no message lists a key twice), what one phase of a
step emits for one key, and what the judge's bookkeeping does to one key.
-/
namespace HappyModel.C18

/-! ### the judge's per-key specification systems -/

theorem specAt_smod_self (l : List SpecSys) (k : Nat) (f : SpecSys → SpecSys) :
    specAt (smod l k f) k = f (specAt l k) := by
  induction l generalizing k with
  | nil =>
    induction k with
    | zero => simp [smod, specAt]
    | succ k ih => simpa [smod, specAt] using ih
  | cons y ys ih =>
    cases k with
    | zero => simp [smod, specAt]
    | succ k => simpa [smod, specAt] using ih k

theorem specAt_smod_other (l : List SpecSys) (k j : Nat) (f : SpecSys → SpecSys) (h : j ≠ k) :
    specAt (smod l k f) j = specAt l j := by
  induction l generalizing k j with
  | nil =>
    induction k generalizing j with
    | zero => cases j with
      | zero => exact absurd rfl h
      | succ j => simp [smod, specAt]
    | succ k ih =>
      cases j with
      | zero => simp [smod, specAt]
      | succ j =>
        have := ih j (by omega)
        simpa [smod, specAt] using this
  | cons y ys ih =>
    cases k with
    | zero => cases j with
      | zero => exact absurd rfl h
      | succ j => simp [smod, specAt]
    | succ k =>
      cases j with
      | zero => simp [smod, specAt]
      | succ j =>
        have := ih k j (by omega)
        simpa [smod, specAt] using this

theorem mergeAll_msgs (j : JSt) (d sr : Nat) (keys : List Nat) : (j.mergeAll d sr keys).msgs = j.msgs := rfl

theorem specAt_mergeAll (j : JSt) (d sr : Nat) (keys : List Nat) (hnd : keys.Nodup) (k : Nat) :
    specAt (j.mergeAll d sr keys).spec k =
      if k ∈ keys then (specAt j.spec k).step (.merge d sr) else specAt j.spec k := by
  unfold JSt.mergeAll
  simp only
  generalize j.spec = sp
  induction keys generalizing sp with
  | nil => simp
  | cons key rest ih =>
    simp only [List.nodup_cons] at hnd
    simp only [List.foldl_cons]
    rw [ih hnd.2]
    by_cases hk : k = key
    · subst hk
      simp [hnd.1, specAt_smod_self]
    · have : k ∈ key :: rest ↔ k ∈ rest := by simp [hk]
      simp only [this, specAt_smod_other _ _ _ _ hk]

/-! ### observed messages -/

def obsFrom : Nat → List Msg → List MsgObs
  | _, [] => []
  | i, m :: ms => msgObsOf i m :: obsFrom (i + 1) ms

theorem obsFrom_append (i : Nat) (a b : List Msg) :
    obsFrom i (a ++ b) = obsFrom i a ++ obsFrom (i + a.length) b := by
  induction a generalizing i with
  | nil => simp [obsFrom]
  | cons m ms ih => simp [obsFrom, ih, Nat.add_assoc, Nat.add_comm 1]

theorem obsFrom_find (i : Nat) (l : List Msg) (m : Nat) :
    (obsFrom i l).find? (·.id == m) = if m < i then none else (l[m - i]?).map (msgObsOf m) := by
  induction l generalizing i with
  | nil => simp [obsFrom]
  | cons x xs ih =>
    simp only [obsFrom, List.find?_cons, msgObsOf]
    by_cases h : i = m
    · subst h; simp [msgObsOf]
    · have hb : (i == m) = false := by simp [h]
      simp only [hb]
      rw [ih]
      by_cases h2 : m < i
      · simp [h2, Nat.lt_succ_of_lt h2]
      · have h3 : ¬ m < i + 1 := by omega
        have h4 : m - i = (m - (i + 1)) + 1 := by omega
        simp [h2, h3, h4]

theorem createdObs_of_append (p p' : PSt) (new : List Msg) (h : p'.msgs = p.msgs ++ new) :
    createdObs p p' = obsFrom p.msgs.length new := by
  unfold createdObs
  rw [h, List.drop_left]
  generalize p.msgs.length = off
  have : ∀ (l : List Msg) (s : Nat),
      (l.zipIdx s).map (fun mi => msgObsOf (off + mi.2) mi.1) = obsFrom (off + s) l := by
    intro l
    induction l with
    | nil => intro s; simp [obsFrom]
    | cons x xs ih => intro s; simp [List.zipIdx_cons, obsFrom, ih, Nat.add_assoc]
  simpa using this new 0

/-! ### the protocol invariant -/

structure PInv (p : PSt) : Prop where
  held : (p.held.map (·.1)).Nodup
  msgs : ∀ m ∈ p.msgs, (m.keys.map (·.1)).Nodup

theorem pinv_init (n : Nat) (peers : List (List Nat)) : PInv { n := n, peers := peers } :=
  ⟨by simp, by simp⟩

theorem keysOf_nodup_aux (l : List ((Nat × Nat) × Nat)) (s : Nat) (h : (l.map (·.1)).Nodup) :
    (((l.filter (fun e => e.1.1 == s)).map (fun e => (e.1.2, e.2))).map (·.1)).Nodup := by
  induction l with
  | nil => simp
  | cons e rest ih =>
    simp only [List.map_cons, List.nodup_cons] at h
    by_cases hs : e.1.1 = s
    · simp only [List.filter_cons, hs, beq_self_eq_true, if_true, List.map_cons, List.nodup_cons]
      refine ⟨?_, ih h.2⟩
      intro hm
      simp only [List.map_map, List.mem_map, List.mem_filter, beq_iff_eq, Function.comp] at hm
      obtain ⟨e', ⟨he', hs'⟩, hk⟩ := hm
      apply h.1
      refine List.mem_map.mpr ⟨e', he', ?_⟩
      exact Prod.ext (by rw [hs', hs]) hk
    · have : (e.1.1 == s) = false := by simp [hs]
      simp only [List.filter_cons, this]
      exact ih h.2

theorem keysOf_nodup (p : PSt) (h : PInv p) (s : Nat) : ((p.keysOf s).map (·.1)).Nodup :=
  keysOf_nodup_aux p.held s h.held

theorem not_holds_not_mem (p : PSt) (s key : Nat) (h : p.holds s key = false) :
    (s, key) ∉ p.held.map (·.1) := by
  intro hm
  obtain ⟨e, he, hk⟩ := List.mem_map.mp hm
  have : p.held.find? (fun e => e.1 == (s, key)) = none := by
    simpa [PSt.holds, PSt.nidOf] using h
  have := List.find?_eq_none.mp this e he
  simp [hk] at this

theorem pinv_hold (p : PSt) (h : PInv p) (s key nid : Nat) (hn : p.holds s key = false) :
    PInv { p with held := p.held ++ [((s, key), nid)] } := by
  refine ⟨?_, h.msgs⟩
  simp only [List.map_append, List.map_cons, List.map_nil]
  rw [List.nodup_append]
  refine ⟨h.held, by simp, ?_⟩
  intro a ha b hb
  simp only [List.mem_singleton] at hb
  subst hb
  intro e; subst e
  exact not_holds_not_mem p s key hn ha

theorem pinv_emit (p : PSt) (h : PInv p) (s d : Nat) (push : Bool) :
    PInv (p.emit .repaired s d push).1 := by
  refine ⟨h.held, ?_⟩
  intro m hm
  simp only [PSt.emit, List.mem_append, List.mem_singleton] at hm
  rcases hm with hm | rfl
  · exact h.msgs m hm
  · exact keysOf_nodup p h s

theorem mergeKeys_msgs (p : PSt) (d m : Nat) (keys : List (Nat × Nat)) :
    (p.mergeKeys .repaired d m keys).1.msgs = p.msgs ∧
    (p.mergeKeys .repaired d m keys).1.peers = p.peers := by
  induction keys generalizing p with
  | nil => exact ⟨rfl, rfl⟩
  | cons kn rest ih =>
    obtain ⟨key, rn⟩ := kn
    simp only [PSt.mergeKeys]
    split
    · exact ih p
    · exact ih _

theorem pinv_mergeKeys (p : PSt) (h : PInv p) (d m : Nat) (keys : List (Nat × Nat)) :
    PInv (p.mergeKeys .repaired d m keys).1 := by
  induction keys generalizing p with
  | nil => exact h
  | cons kn rest ih =>
    obtain ⟨key, rn⟩ := kn
    simp only [PSt.mergeKeys]
    split
    · exact ih p h
    · rename_i hh
      exact ih _ (pinv_hold p h d key _ (by simpa using hh))

/-! ### what one phase emits for one key -/

theorem keyOps_eq_keyX (k : Nat) (ops : List (Nat × XOp)) :
    keyOps k ops = (keyX k ops).filterMap XOp.toCOp? := by
  induction ops with
  | nil => rfl
  | cons e rest ih =>
    by_cases h : e.1 = k
    · simp only [keyOps, keyX, List.filterMap_cons, h, if_true] at ih ⊢
      cases e.2.toCOp? <;> simp [ih]
    · simp only [keyOps, keyX, List.filterMap_cons, h, if_false] at ih ⊢
      exact ih

theorem keyOps_mergeKeys (p : PSt) (d m : Nat) (keys : List (Nat × Nat)) (k : Nat)
    (hnd : (keys.map (·.1)).Nodup) :
    keyOps k (p.mergeKeys .repaired d m keys).2 =
      if k ∈ keys.map (·.1) then [.merge d (p.n + m)] else [] := by
  rw [keyOps_eq_keyX, keyX_mergeKeys p d m keys k hnd]
  split <;> simp [XOp.toCOp?]

theorem keyOps_const (k : Nat) (o : COp) (keys : List (Nat × Nat)) (hnd : (keys.map (·.1)).Nodup) :
    keyOps k (keys.map fun kn => (kn.1, XOp.base o)) = if k ∈ keys.map (·.1) then [o] else [] := by
  induction keys with
  | nil => simp [keyOps]
  | cons kn rest ih =>
    simp only [List.map_cons, List.nodup_cons] at hnd
    have ih' := ih hnd.2
    by_cases hk : kn.1 = k
    · subst hk
      have : keyOps kn.1 (rest.map fun kn => (kn.1, XOp.base o)) = [] := by rw [ih']; simp [hnd.1]
      simp only [keyOps, List.map_cons, List.filterMap_cons, if_true, XOp.toCOp?] at this ⊢
      simp [this]
    · have hk' : ¬ k = kn.1 := fun e => hk e.symm
      simp only [keyOps, List.map_cons, List.filterMap_cons, hk, if_false, List.mem_cons, hk',
        false_or] at ih' ⊢
      exact ih'

theorem keyOps_emit (p : PSt) (h : PInv p) (s d : Nat) (push : Bool) (k : Nat) :
    keyOps k (p.emit .repaired s d push).2 =
      if k ∈ (p.keysOf s).map (·.1) then [.merge (p.n + p.msgs.length) s] else [] := by
  simp only [PSt.emit, if_true]
  exact keyOps_const k _ _ (keysOf_nodup p h s)

end HappyModel.C18
