import HappyProofs.C18.SpecInv
import HappyProofs.C18.CrdtLaws
/-!
OR-set: with `tg` the (ghost) map from the id of an add operation to the unique tag it created,

* `(x, u)` is a live entry of replica `r` iff some seen add of `x` has tag `u` and `u` is not
  tombstoned at `r`;
* `u` is tombstoned at `r` iff `u` is the tag of an add of some `x` that was observed by a seen
  remove of `x`.
-/
namespace HappyModel.C18

def IsAdd (rc : OpRec) (x : Nat) : Prop := ∃ r0, rc.op = .oadd r0 x
def IsRem (rc : OpRec) (x : Nat) : Prop := ∃ r0, rc.op = .orem r0 x

/-- a recorded operation in the causal past of replica `r` -/
def Seen (t : SpecSys) (r : Nat) (a : OpRec) : Prop := a ∈ t.recs ∧ a.id ∈ t.know r

theorem seen_local (t : SpecSys) (h : SpecInv t) (r : Nat) (op : COp) (r' : Nat) (a : OpRec) :
    Seen (t.local r op) r' a ↔ Seen t r' a ∨ (r' = r ∧ a = ⟨t.cnt, op, t.know r⟩) := by
  simp only [Seen, SpecSys.local_recs, List.mem_cons, SpecSys.mem_know_local]
  constructor
  · rintro ⟨(rfl | ha), hk⟩
    · rcases hk with hk | ⟨hr, _⟩
      · have := h.knowLt r' _ hk; simp only at this; omega
      · exact Or.inr ⟨hr, rfl⟩
    · rcases hk with hk | ⟨_, hk⟩
      · exact Or.inl ⟨ha, hk⟩
      · have := h.idLt a ha; omega
  · rintro (⟨ha, hk⟩ | ⟨hr, rfl⟩)
    · exact ⟨Or.inr ha, Or.inl hk⟩
    · exact ⟨Or.inl rfl, Or.inr ⟨hr, rfl⟩⟩

theorem seen_merge (t : SpecSys) (d s r' : Nat) (a : OpRec) :
    Seen (t.mergeStep d s) r' a ↔ Seen t r' a ∨ (r' = d ∧ Seen t s a) := by
  simp only [Seen, SpecSys.mem_know_merge]
  have hrecs : (t.mergeStep d s).recs = t.recs := rfl
  rw [hrecs]
  constructor
  · rintro ⟨ha, (hk | ⟨hr, hk⟩)⟩
    · exact Or.inl ⟨ha, hk⟩
    · exact Or.inr ⟨hr, ha, hk⟩
  · rintro (⟨ha, hk⟩ | ⟨hr, ha, hk⟩)
    · exact ⟨ha, Or.inl hk⟩
    · exact ⟨ha, Or.inr ⟨hr, hk⟩⟩

/-- every observed id is older than the next fresh id, also in the new record of a local step -/
theorem local_K_lt (t : SpecSys) (h : SpecInv t) (r : Nat) (op : COp) (d : OpRec)
    (hd : d ∈ (t.local r op).recs) (y : Nat) (hy : y ∈ d.K) : y < t.cnt := by
  rw [SpecSys.local_recs, List.mem_cons] at hd
  rcases hd with rfl | hd
  · exact h.knowLt r y hy
  · have := h.kLt d hd y hy; have := h.idLt d hd; omega

structure OInv (s : Sys) (t : SpecSys) (tg : Nat → Tag) : Prop where
  fresh : ∀ a ∈ t.recs, ∀ r0 x, a.op = .oadd r0 x →
    (tg a.id).node = r0 ∧ (tg a.id).seq < (s.rep r0).os.seq
  inj : ∀ a ∈ t.recs, ∀ b ∈ t.recs, ∀ x y, IsAdd a x → IsAdd b y → tg a.id = tg b.id → a = b
  ents : ∀ r x u, (x, u) ∈ (s.rep r).os.ents ↔
    (∃ a, Seen t r a ∧ IsAdd a x ∧ tg a.id = u) ∧ u ∉ (s.rep r).os.tomb
  tomb : ∀ r u, u ∈ (s.rep r).os.tomb ↔
    ∃ a ∈ t.recs, ∃ x, IsAdd a x ∧ tg a.id = u ∧ ∃ d, Seen t r d ∧ IsRem d x ∧ a.id ∈ d.K

theorem oinv_init : OInv Sys.init {} (fun _ => ⟨0, 0⟩) := by
  constructor
  · intro a ha; simp at ha
  · intro a ha; simp at ha
  · intro r x u; simp [Sys.init, Seen]
  · intro r u; simp [Sys.init]

theorem isAdd_inj {a : OpRec} {x y : Nat} (h1 : IsAdd a x) (h2 : IsAdd a y) : x = y := by
  obtain ⟨r1, e1⟩ := h1
  obtain ⟨r2, e2⟩ := h2
  rw [e1] at e2
  cases e2; rfl

/-! ### a local operation that is neither an add nor a remove -/

theorem oinv_local_other (s : Sys) (t : SpecSys) (tg : Nat → Tag) (hi : SpecInv t) (h : OInv s t tg)
    (r : Nat) (op : COp) (x : Rep) (hx : x.os = (s.rep r).os)
    (hna : ∀ id K y, ¬ IsAdd ⟨id, op, K⟩ y) (hnr : ∀ id K y, ¬ IsRem ⟨id, op, K⟩ y) :
    OInv (s.set r x) (t.local r op) tg := by
  have hos : ∀ r', ((s.set r x).rep r').os = (s.rep r').os := by
    intro r'
    rw [Sys.set_rep]
    by_cases hr : r' = r
    · subst hr; simp [hx]
    · simp [hr]
  have hold : ∀ a y, a ∈ (t.local r op).recs → IsAdd a y → a ∈ t.recs := by
    intro a y ha hy
    rw [SpecSys.local_recs, List.mem_cons] at ha
    rcases ha with rfl | ha
    · exact absurd hy (hna _ _ _)
    · exact ha
  have hseenA : ∀ r' a y, IsAdd a y → (Seen (t.local r op) r' a ↔ Seen t r' a) := by
    intro r' a y hy
    rw [seen_local t hi]
    exact ⟨fun hh => hh.elim id (fun ⟨_, e⟩ => absurd (e ▸ hy) (hna _ _ _)), Or.inl⟩
  have hseenR : ∀ r' a y, IsRem a y → (Seen (t.local r op) r' a ↔ Seen t r' a) := by
    intro r' a y hy
    rw [seen_local t hi]
    exact ⟨fun hh => hh.elim id (fun ⟨_, e⟩ => absurd (e ▸ hy) (hnr _ _ _)), Or.inl⟩
  constructor
  · intro a ha r0 y hop
    rw [hos]
    exact h.fresh a (hold a y ha ⟨r0, hop⟩) r0 y hop
  · intro a ha b hb y z hy hz
    exact h.inj a (hold a y ha hy) b (hold b z hb hz) y z hy hz
  · intro r' y u
    rw [hos, h.ents]
    constructor
    · rintro ⟨⟨a, h1, h2, h3⟩, h4⟩
      exact ⟨⟨a, (hseenA r' a y h2).mpr h1, h2, h3⟩, h4⟩
    · rintro ⟨⟨a, h1, h2, h3⟩, h4⟩
      exact ⟨⟨a, (hseenA r' a y h2).mp h1, h2, h3⟩, h4⟩
  · intro r' u
    rw [hos, h.tomb]
    constructor
    · rintro ⟨a, ha, y, h1, h2, d, h3, h4, h5⟩
      exact ⟨a, List.mem_cons_of_mem _ ha, y, h1, h2, d, (hseenR r' d y h4).mpr h3, h4, h5⟩
    · rintro ⟨a, ha, y, h1, h2, d, h3, h4, h5⟩
      exact ⟨a, hold a y ha h1, y, h1, h2, d, (hseenR r' d y h4).mp h3, h4, h5⟩

/-! ### add -/

theorem oinv_add (s : Sys) (t : SpecSys) (tg : Nat → Tag) (hi : SpecInv t) (h : OInv s t tg)
    (r x : Nat) :
    OInv (s.set r { s.rep r with os := (s.rep r).os.add r x }) (t.local r (.oadd r x))
      (upd tg t.cnt ⟨r, (s.rep r).os.seq⟩) := by
  let n : OpRec := ⟨t.cnt, .oadd r x, t.know r⟩
  have hrecs : (t.local r (.oadd r x)).recs = n :: t.recs := rfl
  have htg : ∀ a ∈ t.recs, upd tg t.cnt ⟨r, (s.rep r).os.seq⟩ a.id = tg a.id := by
    intro a ha
    have := hi.idLt a ha
    exact upd_other _ _ _ _ (by omega)
  have htgn : upd tg t.cnt ⟨r, (s.rep r).os.seq⟩ n.id = ⟨r, (s.rep r).os.seq⟩ := upd_same _ _ _
  have hnrem : ∀ y, ¬ IsRem n y := fun y ⟨_, e⟩ => by cases e
  have hnadd : ∀ y, IsAdd n y → y = x := fun y ⟨_, e⟩ => by cases e; rfl
  have hseq : ∀ r', (s.rep r').os.seq ≤
      ((s.set r { s.rep r with os := (s.rep r).os.add r x }).rep r').os.seq := by
    intro r'
    rw [Sys.set_rep]
    by_cases hr : r' = r
    · subst hr; simp [ORSet.add]
    · simp [hr]
  have htomb : ∀ r', ((s.set r { s.rep r with os := (s.rep r).os.add r x }).rep r').os.tomb =
      (s.rep r').os.tomb := by
    intro r'
    rw [Sys.set_rep]
    by_cases hr : r' = r
    · subst hr; simp [ORSet.add]
    · simp [hr]
  -- the new tag is not the tag of an earlier add
  have hnew : ∀ a ∈ t.recs, ∀ y, IsAdd a y → tg a.id ≠ ⟨r, (s.rep r).os.seq⟩ := by
    intro a ha y ⟨r0, hop⟩ e
    have := h.fresh a ha r0 y hop
    rw [e] at this
    simp only at this
    obtain ⟨e1, e2⟩ := this
    subst e1
    omega
  have hseenOld : ∀ r' a, Seen t r' a → Seen (t.local r (.oadd r x)) r' a :=
    fun r' a ha => (seen_local t hi _ _ _ _).mpr (Or.inl ha)
  constructor
  · intro a ha r0 y hop
    rw [hrecs, List.mem_cons] at ha
    rcases ha with rfl | ha
    · rw [htgn]
      simp only [n, COp.oadd.injEq] at hop
      obtain ⟨rfl, rfl⟩ := hop
      refine ⟨rfl, ?_⟩
      rw [Sys.set_rep]; simp [ORSet.add]
    · rw [htg a ha]
      have := h.fresh a ha r0 y hop
      exact ⟨this.1, Nat.lt_of_lt_of_le this.2 (hseq r0)⟩
  · intro a ha b hb y z hy hz e
    rw [hrecs, List.mem_cons] at ha hb
    rcases ha with rfl | ha <;> rcases hb with rfl | hb
    · rfl
    · rw [htgn, htg b hb] at e
      exact absurd e.symm (hnew b hb z hz)
    · rw [htgn, htg a ha] at e
      exact absurd e (hnew a ha y hy)
    · rw [htg a ha, htg b hb] at e
      exact h.inj a ha b hb y z hy hz e
  · intro r' y u
    rw [htomb]
    by_cases hr : r' = r
    · subst hr
      rw [Sys.set_rep]
      simp only [if_true, ORSet.mem_add_ents, Prod.mk.injEq]
      constructor
      · rintro (h1 | ⟨rfl, rfl⟩)
        · obtain ⟨⟨a, h2, h3, h4⟩, h5⟩ := (h.ents r' y u).mp h1
          exact ⟨⟨a, hseenOld r' a h2, h3, by rw [htg a h2.1]; exact h4⟩, h5⟩
        · refine ⟨⟨n, (seen_local t hi _ _ _ _).mpr (Or.inr ⟨rfl, rfl⟩), ⟨r', rfl⟩, htgn⟩, ?_⟩
          intro hin
          obtain ⟨a, ha, z, h1, h2, _⟩ := (h.tomb r' _).mp hin
          exact hnew a ha z h1 h2
      · rintro ⟨⟨a, h1, h2, h3⟩, h4⟩
        rcases (seen_local t hi _ _ _ _).mp h1 with h1 | ⟨_, rfl⟩
        · left
          rw [htg a h1.1] at h3
          exact (h.ents r' y u).mpr ⟨⟨a, h1, h2, h3⟩, h4⟩
        · right
          exact ⟨hnadd y h2, by rw [← h3]; exact htgn⟩
    · rw [Sys.set_rep]
      simp only [hr, if_false]
      rw [h.ents]
      constructor
      · rintro ⟨⟨a, h1, h2, h3⟩, h4⟩
        exact ⟨⟨a, hseenOld r' a h1, h2, by rw [htg a h1.1]; exact h3⟩, h4⟩
      · rintro ⟨⟨a, h1, h2, h3⟩, h4⟩
        rcases (seen_local t hi _ _ _ _).mp h1 with h1 | ⟨h1, _⟩
        · rw [htg a h1.1] at h3
          exact ⟨⟨a, h1, h2, h3⟩, h4⟩
        · exact absurd h1 hr
  · intro r' u
    rw [htomb, h.tomb]
    constructor
    · rintro ⟨a, ha, y, h1, h2, d, h3, h4, h5⟩
      exact ⟨a, List.mem_cons_of_mem _ ha, y, h1, by rw [htg a ha]; exact h2, d, hseenOld r' d h3,
        h4, h5⟩
    · rintro ⟨a, ha, y, h1, h2, d, h3, h4, h5⟩
      have hlt := local_K_lt t hi r _ d h3.1 a.id h5
      rw [hrecs, List.mem_cons] at ha
      rcases ha with rfl | ha
      · simp only [n] at hlt; omega
      · rcases (seen_local t hi _ _ _ _).mp h3 with h3 | ⟨_, rfl⟩
        · rw [htg a ha] at h2
          exact ⟨a, ha, y, h1, h2, d, h3, h4, h5⟩
        · exact absurd h4 (hnrem y)

/-! ### remove -/

theorem oinv_rem (s : Sys) (t : SpecSys) (tg : Nat → Tag) (hi : SpecInv t) (h : OInv s t tg)
    (r x : Nat) :
    OInv (s.set r { s.rep r with os := (s.rep r).os.remove x }) (t.local r (.orem r x)) tg := by
  let n : OpRec := ⟨t.cnt, .orem r x, t.know r⟩
  have hrecs : (t.local r (.orem r x)).recs = n :: t.recs := rfl
  have hnadd : ∀ y, ¬ IsAdd n y := fun y ⟨_, e⟩ => by cases e
  have hnrem : ∀ y, IsRem n y → y = x := fun y ⟨_, e⟩ => by cases e; rfl
  have hold : ∀ a y, a ∈ (t.local r (.orem r x)).recs → IsAdd a y → a ∈ t.recs := by
    intro a y ha hy
    rw [hrecs, List.mem_cons] at ha
    rcases ha with rfl | ha
    · exact absurd hy (hnadd y)
    · exact ha
  have hseenA : ∀ r' a y, IsAdd a y → (Seen (t.local r (.orem r x)) r' a ↔ Seen t r' a) := by
    intro r' a y hy
    rw [seen_local t hi]
    exact ⟨fun hh => hh.elim id (fun ⟨_, e⟩ => absurd (by subst e; exact hy) (hnadd y)), Or.inl⟩
  have hseq : ∀ r', ((s.set r { s.rep r with os := (s.rep r).os.remove x }).rep r').os.seq =
      (s.rep r').os.seq := by
    intro r'
    rw [Sys.set_rep]
    by_cases hr : r' = r
    · subst hr; simp [ORSet.remove]
    · simp [hr]
  -- tombstones at every replica, in terms of the old state
  have htomb : ∀ r' u, u ∈ ((s.set r { s.rep r with os := (s.rep r).os.remove x }).rep r').os.tomb ↔
      ∃ a ∈ (t.local r (.orem r x)).recs, ∃ y, IsAdd a y ∧ tg a.id = u ∧
        ∃ d, Seen (t.local r (.orem r x)) r' d ∧ IsRem d y ∧ a.id ∈ d.K := by
    intro r' u
    by_cases hr : r' = r
    · subst hr
      rw [Sys.set_rep]
      simp only [if_true, ORSet.mem_remove_tomb]
      constructor
      · rintro (h1 | h1)
        · obtain ⟨a, ha, y, h2, h3, d, h4, h5, h6⟩ := (h.tomb r' u).mp h1
          exact ⟨a, List.mem_cons_of_mem _ ha, y, h2, h3, d,
            (seen_local t hi _ _ _ _).mpr (Or.inl h4), h5, h6⟩
        · obtain ⟨⟨a, h2, h3, h4⟩, _⟩ := (h.ents r' x u).mp h1
          exact ⟨a, List.mem_cons_of_mem _ h2.1, x, h3, h4, n,
            (seen_local t hi _ _ _ _).mpr (Or.inr ⟨rfl, rfl⟩), ⟨r', rfl⟩, h2.2⟩
      · rintro ⟨a, ha, y, h1, h2, d, h3, h4, h5⟩
        have ha' := hold a y ha h1
        rcases (seen_local t hi _ _ _ _).mp h3 with h3 | ⟨_, rfl⟩
        · exact Or.inl ((h.tomb r' u).mpr ⟨a, ha', y, h1, h2, d, h3, h4, h5⟩)
        · have := hnrem y h4
          subst this
          by_cases hu : u ∈ (s.rep r').os.tomb
          · exact Or.inl hu
          · exact Or.inr ((h.ents r' y u).mpr ⟨⟨a, ⟨ha', h5⟩, h1, h2⟩, hu⟩)
    · rw [Sys.set_rep]
      simp only [hr, if_false]
      rw [h.tomb]
      constructor
      · rintro ⟨a, ha, y, h2, h3, d, h4, h5, h6⟩
        exact ⟨a, List.mem_cons_of_mem _ ha, y, h2, h3, d,
          (seen_local t hi _ _ _ _).mpr (Or.inl h4), h5, h6⟩
      · rintro ⟨a, ha, y, h1, h2, d, h3, h4, h5⟩
        rcases (seen_local t hi _ _ _ _).mp h3 with h3 | ⟨h3, _⟩
        · exact ⟨a, hold a y ha h1, y, h1, h2, d, h3, h4, h5⟩
        · exact absurd h3 hr
  constructor
  · intro a ha r0 y hop
    rw [hseq]
    exact h.fresh a (hold a y ha ⟨r0, hop⟩) r0 y hop
  · intro a ha b hb y z hy hz
    exact h.inj a (hold a y ha hy) b (hold b z hb hz) y z hy hz
  · intro r' y u
    by_cases hr : r' = r
    · subst hr
      rw [Sys.set_rep]
      simp only [if_true, ORSet.mem_remove_ents, ORSet.mem_remove_tomb, not_or]
      constructor
      · rintro ⟨h1, hne⟩
        obtain ⟨⟨a, h2, h3, h4⟩, h5⟩ := (h.ents r' y u).mp h1
        refine ⟨⟨a, (hseenA r' a y h3).mpr h2, h3, h4⟩, h5, ?_⟩
        intro hxu
        obtain ⟨⟨a', h2', h3', h4'⟩, _⟩ := (h.ents r' x u).mp hxu
        have := h.inj a h2.1 a' h2'.1 y x h3 h3' (h4.trans h4'.symm)
        subst this
        exact hne (isAdd_inj h3 h3')
      · rintro ⟨⟨a, h2, h3, h4⟩, h5, h6⟩
        have hin := (h.ents r' y u).mpr ⟨⟨a, (hseenA r' a y h3).mp h2, h3, h4⟩, h5⟩
        refine ⟨hin, ?_⟩
        intro e
        subst e
        exact h6 hin
    · rw [Sys.set_rep]
      simp only [hr, if_false]
      rw [h.ents]
      constructor
      · rintro ⟨⟨a, h1, h2, h3⟩, h4⟩
        exact ⟨⟨a, (hseenA r' a y h2).mpr h1, h2, h3⟩, h4⟩
      · rintro ⟨⟨a, h1, h2, h3⟩, h4⟩
        exact ⟨⟨a, (hseenA r' a y h2).mp h1, h2, h3⟩, h4⟩
  · exact htomb

/-! ### merge -/

theorem oinv_merge (s : Sys) (t : SpecSys) (tg : Nat → Tag) (h : OInv s t tg) (d sr : Nat) (x : Rep)
    (hx : x.os = (s.rep d).os.merge (s.rep sr).os) :
    OInv (s.set d x) (t.mergeStep d sr) tg := by
  have hrecs : (t.mergeStep d sr).recs = t.recs := rfl
  have hseq : ∀ r', ((s.set d x).rep r').os.seq = (s.rep r').os.seq := by
    intro r'
    rw [Sys.set_rep]
    by_cases hr : r' = d
    · subst hr; simp [hx, ORSet.merge]
    · simp [hr]
  have htomb : ∀ r' u, u ∈ ((s.set d x).rep r').os.tomb ↔
      u ∈ (s.rep r').os.tomb ∨ (r' = d ∧ u ∈ (s.rep sr).os.tomb) := by
    intro r' u
    rw [Sys.set_rep]
    by_cases hr : r' = d
    · subst hr; simp [hx, ORSet.mem_merge_tomb]
    · simp [hr]
  constructor
  · intro a ha r0 y hop
    rw [hseq]
    exact h.fresh a ha r0 y hop
  · exact h.inj
  · intro r' y u
    rw [htomb]
    by_cases hr : r' = d
    · subst hr
      rw [Sys.set_rep]
      simp only [if_true, hx, ORSet.mem_merge_ents, h.ents, true_and, not_or]
      constructor
      · rintro ⟨h1, h2, h3⟩
        refine ⟨?_, h2, h3⟩
        rcases h1 with ⟨⟨a, h4, h5, h6⟩, _⟩ | ⟨⟨a, h4, h5, h6⟩, _⟩
        · exact ⟨a, (seen_merge t _ _ _ _).mpr (Or.inl h4), h5, h6⟩
        · exact ⟨a, (seen_merge t _ _ _ _).mpr (Or.inr ⟨rfl, h4⟩), h5, h6⟩
      · rintro ⟨⟨a, h4, h5, h6⟩, h2, h3⟩
        refine ⟨?_, h2, h3⟩
        rcases (seen_merge t _ _ _ _).mp h4 with h4 | ⟨_, h4⟩
        · exact Or.inl ⟨⟨a, h4, h5, h6⟩, h2⟩
        · exact Or.inr ⟨⟨a, h4, h5, h6⟩, h3⟩
    · rw [Sys.set_rep]
      simp only [hr, if_false, false_and, or_false]
      rw [h.ents]
      constructor
      · rintro ⟨⟨a, h1, h2, h3⟩, h4⟩
        exact ⟨⟨a, (seen_merge t _ _ _ _).mpr (Or.inl h1), h2, h3⟩, h4⟩
      · rintro ⟨⟨a, h1, h2, h3⟩, h4⟩
        rcases (seen_merge t _ _ _ _).mp h1 with h1 | ⟨h1, _⟩
        · exact ⟨⟨a, h1, h2, h3⟩, h4⟩
        · exact absurd h1 hr
  · intro r' u
    rw [htomb, hrecs, h.tomb, h.tomb]
    constructor
    · rintro (⟨a, ha, y, h1, h2, d', h3, h4, h5⟩ | ⟨hr, a, ha, y, h1, h2, d', h3, h4, h5⟩)
      · exact ⟨a, ha, y, h1, h2, d', (seen_merge t _ _ _ _).mpr (Or.inl h3), h4, h5⟩
      · exact ⟨a, ha, y, h1, h2, d', (seen_merge t _ _ _ _).mpr (Or.inr ⟨hr, h3⟩), h4, h5⟩
    · rintro ⟨a, ha, y, h1, h2, d', h3, h4, h5⟩
      rcases (seen_merge t _ _ _ _).mp h3 with h3 | ⟨hr, h3⟩
      · exact Or.inl ⟨a, ha, y, h1, h2, d', h3, h4, h5⟩
      · exact Or.inr ⟨hr, a, ha, y, h1, h2, d', h3, h4, h5⟩

end HappyModel.C18
