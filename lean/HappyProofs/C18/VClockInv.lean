import HappyModel.C18.Clocks
namespace HappyModel.C18
open Vec

theorem get_addAt_eq_upd (v : Vec) (n : Nat) :
    Vec.get (Vec.addAt v n 1) = upd (Vec.get v) n (Vec.get v n + 1) := by
  funext j
  by_cases h : j = n
  · subst h; simp [Vec.get_addAt_self]
  · simp [upd_other _ _ _ _ h, Vec.get_addAt_other _ _ _ _ h]

theorem get_vmax_eq (a b : Vec) :
    Vec.get (Vec.vmax a b) = fun j => max (Vec.get a j) (Vec.get b j) := by
  funext j; exact Vec.get_vmax a b j

/-- (v, K) describe the same causal past: for each node i, K contains exactly the first `v i`
    events of i -/
def Pref (s : St) (v : Nat → Nat) (K : List Nat) : Prop :=
  (∀ i, v i ≤ s.nev i) ∧ (∀ i k, 1 ≤ k → k ≤ s.nev i → (k ≤ v i ↔ s.own i k ∈ K))

structure Inv (s : St) : Prop where
  pNode : ∀ n, Pref s (Vec.get (s.vc n)) (s.know n)
  pMsg : ∀ m, s.msent m = true → Pref s (Vec.get (s.mvc m)) (s.mknow m)
  pLog : ∀ r ∈ s.log, Pref s (Vec.get r.V) r.K
  idNode : ∀ n, ∀ x ∈ s.know n, x < s.cnt
  idMsg : ∀ m, s.msent m = true → ∀ x ∈ s.mknow m, x < s.cnt
  idLog : ∀ r ∈ s.log, r.id < s.cnt ∧ ∀ x ∈ r.K, x ≤ r.id
  ownId : ∀ i k, 1 ≤ k → k ≤ s.nev i → s.own i k < s.cnt
  ownV : ∀ n, Vec.get (s.vc n) n = s.nev n
  logSelf : ∀ r ∈ s.log, r.id ∈ r.K ∧ 1 ≤ Vec.get r.V r.node ∧ Vec.get r.V r.node ≤ s.nev r.node
              ∧ s.own r.node (Vec.get r.V r.node) = r.id
  clNode : ∀ n, ∀ x ∈ s.know n, ∀ r ∈ s.log, r.id = x → ∀ y ∈ r.K, y ∈ s.know n
  clMsg : ∀ m, s.msent m = true → ∀ x ∈ s.mknow m, ∀ r ∈ s.log, r.id = x → ∀ y ∈ r.K, y ∈ s.mknow m
  clLog : ∀ r ∈ s.log, ∀ x ∈ r.K, ∀ r' ∈ s.log, r'.id = x → ∀ y ∈ r'.K, y ∈ r.K

theorem init_inv : Inv {} := by
  refine ⟨?_, ?_, ?_, ?_, ?_, ?_, ?_, ?_, ?_, ?_, ?_, ?_⟩ <;> simp [Pref]
  all_goals (intros; omega)

/-- joining two consistent (vector, past) pairs: pointwise max and union -/
theorem pref_join {s : St} {v1 v2 : Nat → Nat} {K1 K2 : List Nat}
    (h1 : Pref s v1 K1) (h2 : Pref s v2 K2) :
    Pref s (fun j => max (v1 j) (v2 j)) (kunion K1 K2) := by
  refine ⟨fun i => Nat.max_le.mpr ⟨h1.1 i, h2.1 i⟩, ?_⟩
  intro i k hk1 hk2
  have a := h1.2 i k hk1 hk2
  have b := h2.2 i k hk1 hk2
  simp only [mem_kunion]
  constructor
  · intro h
    rcases Nat.le_total (v1 i) (v2 i) with hle | hle
    · right; exact b.mp (by rw [Nat.max_eq_right hle] at h; exact h)
    · left; exact a.mp (by rw [Nat.max_eq_left hle] at h; exact h)
  · intro h
    rcases h with h | h
    · exact Nat.le_trans (a.mpr h) (Nat.le_max_left _ _)
    · exact Nat.le_trans (b.mpr h) (Nat.le_max_right _ _)

/-- an older consistent pair stays consistent after node n records a new event -/
theorem pref_keep {s : St} (n l : Nat) (v' : Vec) (h' : HTs) (k' : List Nat) {v : Nat → Nat}
    {K : List Nat} (h : Pref s v K) (hid : ∀ x ∈ K, x < s.cnt) :
    Pref (bump s n l v' h' k') v K := by
  refine ⟨?_, ?_⟩
  · intro i
    by_cases hin : i = n
    · subst hin; simp [bump]; have := h.1 i; omega
    · simp [bump, upd_other _ _ _ _ hin]; exact h.1 i
  · intro i k hk1 hk2
    by_cases hin : i = n
    · subst hin
      simp [bump] at hk2
      by_cases hkk : k = s.nev i + 1
      · subst hkk
        simp [bump]
        constructor
        · intro hle; have := h.1 i; omega
        · intro hmem; have := hid _ hmem; omega
      · have hk2' : k ≤ s.nev i := by omega
        simp [bump, upd_other _ _ _ _ hkk]
        exact h.2 i k hk1 hk2'
    · simp [bump, upd_other _ _ _ _ hin] at hk2 ⊢
      exact h.2 i k hk1 hk2

/-- the new event's own pair is consistent -/
theorem pref_new {s : St} (n l : Nat) (vv : Vec) (h' : HTs) {v : Nat → Nat} {K : List Nat}
    (h : Pref s v K) (hvn : v n = s.nev n) (hid : ∀ x ∈ K, x < s.cnt)
    (hown : ∀ i k, 1 ≤ k → k ≤ s.nev i → s.own i k < s.cnt) :
    Pref (bump s n l vv h' K) (upd v n (v n + 1)) (s.cnt :: K) := by
  refine ⟨?_, ?_⟩
  · intro i
    by_cases hin : i = n
    · subst hin; simp [bump]; omega
    · simp [bump, upd_other _ _ _ _ hin]; exact h.1 i
  · intro i k hk1 hk2
    by_cases hin : i = n
    · subst hin
      simp [bump] at hk2
      by_cases hkk : k = s.nev i + 1
      · subst hkk; simp [bump]; omega
      · have hk2' : k ≤ s.nev i := by omega
        simp [bump, upd_other _ _ _ _ hkk]
        have := h.2 i k hk1 hk2'
        have hne : s.own i k ≠ s.cnt := by have := hown i k hk1 hk2'; omega
        simp [hne]
        rw [← this]; omega
    · simp [bump, upd_other _ _ _ _ hin] at hk2 ⊢
      have := h.2 i k hk1 hk2
      have hne : s.own i k ≠ s.cnt := by have := hown i k hk1 hk2; omega
      simp [hne]; exact this

end HappyModel.C18
