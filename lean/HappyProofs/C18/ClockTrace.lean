import HappyProofs.C18.KClock
/-!
The two logs of a clock run (dense records of `run`, dict clocks of `krun`) as one list `P`, oldest
first, in which the record at position `i` has id `i` and the dict clock has the same entries as
the record's vector.
-/
namespace HappyModel.C18

structure ZInv (s : St) (k : KSt) (P : List (Rec × KVec)) : Prop where
  log : s.log = (P.map (·.1)).reverse
  klog : k.log = (P.map (·.2)).reverse
  len : P.length = s.cnt
  pos : ∀ (i : Nat) (r : Rec) (kv : KVec), P[i]? = some (r, kv) → r.id = i ∧ VEq kv r.V

theorem zinv_push {s : St} {k : KSt} {P : List (Rec × KVec)} (h : ZInv s k P)
    (r : Rec) (kv : KVec) (hid : r.id = s.cnt) (hv : VEq kv r.V)
    {s' : St} {k' : KSt} (hs : s'.log = r :: s.log) (hk : k'.log = kv :: k.log)
    (hc : s'.cnt = s.cnt + 1) : ZInv s' k' (P ++ [(r, kv)]) := by
  refine ⟨by simp [hs, h.log], by simp [hk, h.klog], by simp [h.len, hc], ?_⟩
  intro i r' kv' hi
  by_cases hlt : i < P.length
  · rw [List.getElem?_append_left hlt] at hi
    exact h.pos i r' kv' hi
  · rw [List.getElem?_append_right (by omega)] at hi
    have : i - P.length = 0 := by
      cases hz : i - P.length with
      | zero => rfl
      | succ z => rw [hz] at hi; simp at hi
    rw [this] at hi
    simp at hi
    obtain ⟨rfl, rfl⟩ := hi
    exact ⟨by rw [hid, ← h.len]; omega, hv⟩

theorem zinv_step (s : St) (k : KSt) (P : List (Rec × KVec)) (h : ZInv s k P) (sim : KSim k s)
    (e : Ev) : ∃ P', ZInv (step s e) (kstep k e) P' := by
  cases e with
  | loc n pt =>
    exact ⟨_, zinv_push h _ _ rfl (veq_tick (sim.vc n) n) rfl rfl rfl⟩
  | send n m pt =>
    simp only [kstep, step, sim.sent m]
    cases hs : s.msent m with
    | true => exact ⟨P, by simpa using h⟩
    | false =>
      simp only [Bool.false_eq_true, if_false]
      exact ⟨_, zinv_push h _ _ rfl (veq_tick (sim.vc n) n) rfl rfl rfl⟩
  | recv n m pt =>
    simp only [kstep, step, sim.sent m]
    cases hs : s.msent m with
    | false => exact ⟨P, by simpa using h⟩
    | true =>
      simp only [if_true]
      exact ⟨_, zinv_push h _ _ rfl (veq_receive (sim.vc n) (sim.mvc m) n) rfl rfl rfl⟩

theorem zinv_run (es : List Ev) (s : St) (k : KSt) (P : List (Rec × KVec)) (h : ZInv s k P)
    (sim : KSim k s) : ∃ P', ZInv (run s es) (krun k es) P' := by
  induction es generalizing s k P with
  | nil => exact ⟨P, h⟩
  | cons e es ih =>
    obtain ⟨P1, h1⟩ := zinv_step s k P h sim e
    exact ih _ _ P1 h1 (ksim_step k s sim e)

theorem zinv_init (mem : Nat → List Nat) : ZInv {} (KSt.init mem) [] :=
  ⟨rfl, rfl, rfl, by simp⟩

end HappyModel.C18
