import HappyModel.C18.Store
/-!
The (repaired) store model is a family of replica systems: for every key, the per-key system the
store run maintains is `Sys.run Sys.init` of the replica operations the protocol layer emits for
that key.  All replica-level theorems therefore hold for stores, gossip messages included.
-/
namespace HappyModel.C18

def runX (s : Sys) : List XOp → Sys
  | [] => s
  | x :: xs => runX (s.stepX x) xs

theorem runX_append (s : Sys) (a b : List XOp) : runX s (a ++ b) = runX (runX s a) b := by
  induction a generalizing s with
  | nil => rfl
  | cons x xs ih => simp [runX, ih]

/-- the operations of key `k`, in order -/
def keyX (k : Nat) (ops : List (Nat × XOp)) : List XOp :=
  ops.filterMap fun e => if e.1 = k then some e.2 else none

theorem keyX_append (k : Nat) (a b : List (Nat × XOp)) : keyX k (a ++ b) = keyX k a ++ keyX k b := by
  simp [keyX, List.filterMap_append]

theorem sysAt_nil (k : Nat) : sysAt [] k = Sys.init := by simp [sysAt]

theorem sysAt_lmod_self (l : List Sys) (k : Nat) (x : XOp) :
    sysAt (lmod l k x) k = (sysAt l k).stepX x := by
  induction l generalizing k with
  | nil =>
    induction k with
    | zero => simp [lmod, sysAt]
    | succ k ih => simpa [lmod, sysAt] using ih
  | cons y ys ih =>
    cases k with
    | zero => simp [lmod, sysAt]
    | succ k => simpa [lmod, sysAt] using ih k

theorem sysAt_lmod_other (l : List Sys) (k j : Nat) (x : XOp) (h : j ≠ k) :
    sysAt (lmod l k x) j = sysAt l j := by
  induction l generalizing k j with
  | nil =>
    induction k generalizing j with
    | zero => cases j with
      | zero => exact absurd rfl h
      | succ j => simp [lmod, sysAt]
    | succ k ih =>
      cases j with
      | zero => simp [lmod, sysAt]
      | succ j =>
        have := ih j (by omega)
        simpa [lmod, sysAt] using this
  | cons y ys ih =>
    cases k with
    | zero => cases j with
      | zero => exact absurd rfl h
      | succ j => simp [lmod, sysAt]
    | succ k =>
      cases j with
      | zero => simp [lmod, sysAt]
      | succ j =>
        have := ih k j (by omega)
        simpa [lmod, sysAt] using this

theorem sysAt_applyOps (l : List Sys) (ops : List (Nat × XOp)) (k : Nat) :
    sysAt (applyOps l ops) k = runX (sysAt l k) (keyX k ops) := by
  induction ops generalizing l with
  | nil => simp [applyOps, keyX, runX]
  | cons e rest ih =>
    obtain ⟨j, x⟩ := e
    simp only [applyOps]
    rw [ih]
    by_cases h : j = k
    · subst h
      simp [keyX, runX, sysAt_lmod_self]
    · have : keyX k ((j, x) :: rest) = keyX k rest := by simp [keyX, h]
      rw [this, sysAt_lmod_other _ _ _ _ (fun e => h e.symm)]

/-- the per-key system of a store run is the run of that key's operations -/
theorem sysAt_run (v : Variant) (kind : Kind) (st : SSt) (steps : List SStep) (k : Nat) :
    sysAt (SSt.run v kind st steps).sys k = runX (sysAt st.sys k) (keyX k (PSt.ops v kind st.p steps)) := by
  induction steps generalizing st with
  | nil => simp [SSt.run, PSt.ops, keyX, runX]
  | cons x xs ih =>
    simp only [SSt.run, PSt.ops]
    rw [ih, keyX_append, runX_append]
    simp [SSt.step, sysAt_applyOps]

/-! ### the repaired variant emits plain replica operations only -/

def XOp.isBase : XOp → Prop
  | .base _ => True
  | _ => False

def AllBase (ops : List (Nat × XOp)) : Prop := ∀ e ∈ ops, e.2.isBase

theorem wop_base (kind : Kind) (s nid : Nat) (op : WOp) (x : XOp)
    (h : wop .repaired kind s nid op = some x) : x.isBase := by
  cases op <;> simp only [wop] at h <;> split at h <;> simp at h <;> subst h <;> simp [XOp.isBase]

theorem emit_base (p : PSt) (s d : Nat) (push : Bool) : AllBase (p.emit .repaired s d push).2 := by
  intro e he
  simp only [PSt.emit, List.mem_map] at he
  obtain ⟨kn, _, rfl⟩ := he
  simp [XOp.isBase]

theorem mergeKeys_base (p : PSt) (d m : Nat) (keys : List (Nat × Nat)) :
    AllBase (p.mergeKeys .repaired d m keys).2 := by
  induction keys generalizing p with
  | nil => intro e he; simp [PSt.mergeKeys] at he
  | cons kn rest ih =>
    obtain ⟨key, rn⟩ := kn
    intro e he
    simp only [PSt.mergeKeys] at he
    split at he
    · simp only [List.mem_cons] at he
      rcases he with rfl | he
      · simp [XOp.isBase]
      · exact ih _ e he
    · simp only [List.mem_cons] at he
      rcases he with rfl | he
      · simp [XOp.isBase]
      · exact ih _ e he

theorem tickStep_base (p : PSt) (s j : Nat) : AllBase (p.tickStep .repaired s j).2 := by
  simp only [PSt.tickStep]
  split
  · intro e he; simp at he
  · exact emit_base _ _ _ _

theorem dlStep_base (p : PSt) (m : Nat) : AllBase (p.dlStep .repaired m).2 := by
  simp only [PSt.dlStep]
  split
  · intro e he; simp at he
  · split
    · intro e he
      simp only [List.mem_append] at he
      rcases he with he | he
      · exact mergeKeys_base _ _ _ _ e he
      · exact emit_base _ _ _ _ e he
    · exact mergeKeys_base _ _ _ _

theorem step_base (kind : Kind) (p : PSt) (x : SStep) : AllBase (p.step .repaired kind x).2 := by
  cases x with
  | w s key op =>
    intro e he
    simp only [PSt.step] at he
    split at he
    · rename_i y hy
      simp only [List.mem_singleton] at he
      subst he
      exact wop_base _ _ _ _ _ hy
    · simp at he
  | tick s j => exact tickStep_base p s j
  | dl m => exact dlStep_base p m
  | round s j =>
    intro e he
    simp only [PSt.step, List.mem_append] at he
    rcases he with (he | he) | he
    · exact tickStep_base _ _ _ e he
    · exact dlStep_base _ _ e he
    · split at he
      · exact dlStep_base _ _ e he
      · simp at he

theorem ops_base (kind : Kind) (p : PSt) (steps : List SStep) :
    AllBase (PSt.ops .repaired kind p steps) := by
  induction steps generalizing p with
  | nil => intro e he; simp [PSt.ops] at he
  | cons x xs ih =>
    intro e he
    simp only [PSt.ops, List.mem_append] at he
    rcases he with he | he
    · exact step_base kind p x e he
    · exact ih _ e he

theorem runX_base (s : Sys) (ops : List (Nat × XOp)) (k : Nat) (h : AllBase ops) :
    runX s (keyX k ops) = Sys.run s (keyOps k ops) := by
  induction ops generalizing s with
  | nil => simp [keyX, keyOps, runX, Sys.run]
  | cons e rest ih =>
    have hr : AllBase rest := fun e' he' => h e' (List.mem_cons_of_mem _ he')
    have he := h e List.mem_cons_self
    obtain ⟨j, x⟩ := e
    cases x with
    | base o =>
      by_cases hj : j = k
      · subst hj
        simp only [keyX, keyOps, List.filterMap_cons, if_true, XOp.toCOp?, runX, Sys.run, Sys.stepX]
        exact ih _ hr
      · simp only [keyX, keyOps, List.filterMap_cons, hj, if_false]
        exact ih _ hr
    | incAs _ _ _ => simp [XOp.isBase] at he
    | decAs _ _ _ => simp [XOp.isBase] at he
    | oaddAs _ _ _ => simp [XOp.isBase] at he
    | copy _ _ => simp [XOp.isBase] at he

end HappyModel.C18
