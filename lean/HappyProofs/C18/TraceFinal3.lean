import HappyProofs.C18.TraceFinal2
/-!
`judgeStore` on the model's transcript of a well-formed script reduces to its final clause, and
the final clause reduces to one statement about knowledge: after trailing lossless rounds whose owed
flows are full, every store has received, for every key, exactly the union of what the stores had
received when the rounds began (`RoundsUnion`).
-/
namespace HappyModel.C18

theorem tinv_run (kind : Kind) (mentioned : List Nat) (hv : ValueOK kind mentioned) {n : Nat}
    (steps : List SStep) :
    ∀ {j : JSt} {st : SSt} {ops : List (Nat × XOp)}, TInv n j st ops → (∀ x ∈ steps, WFStep n x) →
      TInv n (advanceAll kind n j (traceObs kind st steps)) (SSt.run .repaired kind st steps)
        (ops ++ PSt.ops .repaired kind st.p steps) := by
  induction steps with
  | nil => intro j st ops h _; simpa [advanceAll, traceObs, SSt.run, PSt.ops] using h
  | cons x xs ih =>
    intro j st ops h hw
    obtain ⟨T, _⟩ := step_ok kind 0 mentioned hv h x (hw x List.mem_cons_self)
    have := ih T (fun y hy => hw y (List.mem_cons_of_mem _ hy))
    have hp' : (st.step .repaired kind x).p = (st.p.step .repaired kind x).1 := rfl
    rw [hp'] at this
    simpa [advanceAll, traceObs, SSt.run, PSt.ops, List.append_assoc, hp'] using this

theorem go_model (kind : Kind) (n nkeys : Nat) (mentioned : List Nat) (hv : ValueOK kind mentioned)
    (steps : List SStep) :
    ∀ {j : JSt} {st : SSt} {ops : List (Nat × XOp)} (i : Nat), TInv n j st ops →
    (∀ x ∈ steps, WFStep n x) →
    (judgeStore.go kind n nkeys mentioned j i (traceObs kind st steps)).2 = none := by
  induction steps with
  | nil => intro j st ops i _ _; simp [judgeStore.go, traceObs]
  | cons x xs ih =>
    intro j st ops i h hw
    obtain ⟨T, hstep⟩ := step_ok kind nkeys mentioned hv h x (hw x List.mem_cons_self)
    simp only [traceObs, judgeStore.go, hstep]
    exact ih (i + 1) T (fun y hy => hw y (List.mem_cons_of_mem _ hy))

/-- the owed-flow reachability test of the final clause, on a script -/
def fullRounds (n : Nat) (peers : List (List Nat)) (scriptB : List SStep) : Bool :=
  (List.range n).all fun a => (List.range n).all fun b =>
    (reachB (scriptB.flatMap (owedFlows peers)) [a]).contains b

/-- the knowledge statement behind the final clause, for a phase `scriptB` of rounds that follows a
    state with operations `opsA` and produces `opsB` -/
def UnionAfter (n : Nat) (opsA opsB : List (Nat × XOp)) : Prop :=
  ∀ k a, a < n →
    SameSet ((unionAll n (SpecSys.run {} (keyOps k opsA))).know a)
            ((SpecSys.run {} (keyOps k (opsA ++ opsB))).know a)

theorem sameset_nonempty {A B : List Nat} (h : SameSet A B) (hA : A ≠ []) : B ≠ [] := by
  obtain ⟨x, hx⟩ := List.exists_mem_of_ne_nil _ hA
  exact List.ne_nil_of_mem (h.1 x hx)

theorem judgeFinal_model (kind : Kind) (n nkeys : Nat) (peers : List (List Nat)) (mentioned : List Nat)
    (hv : ValueOK kind mentioned) {jA : JSt} {stA : SSt} {opsA : List (Nat × XOp)}
    (TA : TInv n jA stA opsA) (scriptB : List SStep) (hwf : ∀ x ∈ scriptB, WFStep n x)
    (hr : ∀ x ∈ scriptB, isRound x = true)
    (hK : fullRounds n peers scriptB = true → UnionAfter n opsA (PSt.ops .repaired kind stA.p scriptB)) :
    judgeFinal kind n nkeys peers mentioned jA (traceObs kind stA scriptB)
      ((List.range n).flatMap (storeObs (SSt.run .repaired kind stA scriptB))) = none := by
  have TE := tinv_run kind mentioned hv scriptB TA hwf
  have hflat : (traceObs kind stA scriptB).flatMap (fun so => owedFlows peers so.step) =
      scriptB.flatMap (owedFlows peers) := by
    have hgen : ∀ l : List StepObs, l.flatMap (fun so => owedFlows peers so.step) =
        (l.map (·.step)).flatMap (owedFlows peers) := by
      intro l
      induction l with
      | nil => rfl
      | cons y ys ih => simp [List.flatMap_cons, ih]
    rw [hgen, traceObs_steps]
  simp only [judgeFinal, hflat]
  split
  · rfl
  · rename_i hcond
    have hfull : fullRounds n peers scriptB = true := by
      simp only [Bool.or_eq_true, Bool.not_eq_true', not_or] at hcond
      cases hf : fullRounds n peers scriptB with
      | true => rfl
      | false => exact absurd (by simpa [fullRounds] using hf) hcond.2
    have hU := hK hfull
    rw [List.findSome?_eq_none_iff]
    intro k _
    rw [List.findSome?_eq_none_iff]
    intro a ha
    have halt : a < n := List.mem_range.mp ha
    have hs := hU k a halt
    rw [TA.j.spec k]
    -- the records of both systems are those at the beginning of the phase
    have hmerge : ∀ o ∈ keyOps k (PSt.ops .repaired kind stA.p scriptB), ∃ d s, o = COp.merge d s := by
      intro o ho
      rw [mem_keyOps] at ho
      have := gossip_ops_merge kind stA.p scriptB
        (fun x hx => by have := hr x hx; cases x <;> simp_all [isRound, SStep.isGossip]) _ ho
      cases o <;> simp [XOp.isMerge] at this
      exact ⟨_, _, rfl⟩
    have hrecs : (unionAll n (SpecSys.run {} (keyOps k opsA))).recs =
        (SpecSys.run {} (keyOps k (opsA ++ PSt.ops .repaired kind stA.p scriptB))).recs := by
      rw [unionAll_recs, keyOps_append, SpecSys.run_append, run_merges_recs _ hmerge]
    cases hfind : ((List.range n).flatMap (storeObs (SSt.run .repaired kind stA scriptB))).find?
        (fun o => o.1 == a && o.2.1 == k) with
    | none =>
      simp only
      split
      · rfl
      · rename_i hne
        exfalso
        have hne' : (unionAll n (SpecSys.run {} (keyOps k opsA))).know a ≠ [] := by
          simpa [List.isEmpty_iff] using hne
        have hend := sameset_nonempty hs hne'
        rw [← TE.j.spec k] at hend
        have hh := known_held TE.j TE.good a k halt hend
        rw [holds_keysOf] at hh
        obtain ⟨kn, hkn, rfl⟩ := List.mem_map.mp hh
        have := List.find?_eq_none.mp hfind
          (a, kn.1, kobsOf ((sysAt (SSt.run .repaired kind stA scriptB).sys kn.1).rep a))
          (by simp only [List.mem_flatMap, storeObs, List.mem_map]; exact ⟨a, ha, kn, hkn, rfl⟩)
        simp at this
    | some o =>
      simp only
      have hmem := List.mem_of_find?_eq_some hfind
      have hp := List.find?_some hfind
      simp only [Bool.and_eq_true, beq_iff_eq] at hp
      simp only [List.mem_flatMap, storeObs, List.mem_map] at hmem
      obtain ⟨a', _, kn, _, rfl⟩ := hmem
      simp only at hp
      obtain ⟨rfl, rfl⟩ := hp
      simp only
      rw [judgeValue_congr kind _ _ a' _ mentioned hrecs hs, TE.sys kn.1, hv _ a']
      rfl

end HappyModel.C18
