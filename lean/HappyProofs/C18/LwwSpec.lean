import HappyProofs.C18.SpecInv
import HappyProofs.C18.CrdtLaws
/-!
LWW register: the register of a replica holds a seen write that no seen write beats.
-/
namespace HappyModel.C18

/-- `cur` is a member of the write set `W` that no member beats (`none` iff `W` is empty) -/
def Best (W : Ts × Nat → Prop) : Option (Ts × Nat) → Prop
  | none => ∀ w, ¬ W w
  | some (t, v) => W (t, v) ∧ ∀ w, W w → Ts.lt t w.1 = false

theorem Best.congr {W W' : Ts × Nat → Prop} {c : Option (Ts × Nat)} (h : Best W c)
    (hw : ∀ w, W' w ↔ W w) : Best W' c := by
  have : W' = W := funext fun w => propext (hw w)
  rw [this]; exact h

theorem Best.set {W W' : Ts × Nat → Prop} {c : Option (Ts × Nat)} (h : Best W c) (t : Ts) (v : Nat)
    (hin : W' (t, v)) (hsub : ∀ w, W w → W' w) (hnew : ∀ w, W' w → W w ∨ Ts.lt t w.1 = false) :
    Best W' (LWW.set ⟨c⟩ v t).cur := by
  cases c with
  | none =>
    refine ⟨hin, fun w hw => ?_⟩
    rcases hnew w hw with h1 | h1
    · exact absurd h1 (h w)
    · exact h1
  | some tv =>
    obtain ⟨t0, v0⟩ := tv
    obtain ⟨h0, hmax⟩ := h
    simp only [LWW.set]
    cases hlt : Ts.lt t0 t with
    | true =>
      simp only [if_true]
      refine ⟨hin, fun w hw => ?_⟩
      rcases hnew w hw with h1 | h1
      · cases h2 : Ts.lt t w.1 with
        | false => rfl
        | true => have := Ts.lt_trans hlt h2; rw [hmax w h1] at this; exact absurd this (by simp)
      · exact h1
    | false =>
      simp only [Bool.false_eq_true, if_false]
      refine ⟨hsub _ h0, fun w hw => ?_⟩
      rcases hnew w hw with h1 | h1
      · exact hmax w h1
      · exact Ts.not_lt_trans hlt h1

theorem Best.merge {Wa Wb W' : Ts × Nat → Prop} {a b : LWW} (ha : Best Wa a.cur) (hb : Best Wb b.cur)
    (hw : ∀ w, W' w ↔ Wa w ∨ Wb w) : Best W' (a.merge b).cur := by
  cases b with
  | mk cb =>
    cases cb with
    | none =>
      simp only [LWW.merge]
      exact ha.congr fun w => by rw [hw]; exact ⟨fun h => h.elim id (fun h' => absurd h' (hb w)), Or.inl⟩
    | some tv =>
      obtain ⟨t, v⟩ := tv
      simp only [LWW.merge]
      cases a with
      | mk ca =>
        exact Best.set ha t v ((hw _).mpr (Or.inr hb.1)) (fun w h => (hw w).mpr (Or.inl h))
          (fun w h => ((hw w).mp h).elim Or.inl (fun h' => Or.inr (hb.2 w h')))

/-- two best elements of the same set have the same timestamp -/
theorem Best.ts_eq {W : Ts × Nat → Prop} {t1 t2 : Ts} {v1 v2 : Nat}
    (h1 : Best W (some (t1, v1))) (h2 : Best W (some (t2, v2))) : t1 = t2 :=
  Ts.eq_of_not_lt (h1.2 _ h2.1) (h2.2 _ h1.1)

/-! ### the seen writes -/

def IsWrite (op : COp) (w : Ts × Nat) : Prop := ∃ r0, op = .lset r0 w.2 w.1.p w.1.l w.1.node

theorem SpecSys.mem_writes (t : SpecSys) (r : Nat) (w : Ts × Nat) :
    w ∈ t.writes r ↔ ∃ rc ∈ t.recs, rc.id ∈ t.know r ∧ IsWrite rc.op w := by
  unfold SpecSys.writes IsWrite
  simp only [List.mem_filterMap]
  constructor
  · rintro ⟨rc, hrc, h⟩
    refine ⟨rc, hrc, ?_⟩
    by_cases hk : (t.know r).contains rc.id = true
    · simp only [hk, if_true] at h
      refine ⟨by simpa using hk, ?_⟩
      split at h
      · rename_i r0 v p l nd heq
        simp only [Option.some.injEq] at h
        subst h
        exact ⟨r0, heq⟩
      · simp at h
    · rw [if_neg hk] at h; cases h
  · rintro ⟨rc, hrc, hk, r0, hop⟩
    refine ⟨rc, hrc, ?_⟩
    have hk' : (t.know r).contains rc.id = true := by simpa using hk
    simp only [hk', if_true, hop]

theorem SpecSys.lwwOk_iff (t : SpecSys) (r : Nat) (c : Option (Ts × Nat)) :
    t.lwwOk r c = true ↔ Best (fun w => w ∈ t.writes r) c := by
  cases c with
  | none =>
    simp only [SpecSys.lwwOk, Best, List.isEmpty_iff]
    constructor
    · intro h w; rw [h]; simp
    · intro h; exact List.eq_nil_iff_forall_not_mem.mpr h
  | some tv =>
    obtain ⟨tt, v⟩ := tv
    simp only [SpecSys.lwwOk, Best, Bool.and_eq_true, List.contains_eq_mem, decide_eq_true_eq,
      List.all_eq_true, Bool.not_eq_true']

theorem mem_writes_local (t : SpecSys) (h : SpecInv t) (r : Nat) (op : COp) (r' : Nat) (w : Ts × Nat) :
    w ∈ (t.local r op).writes r' ↔ w ∈ t.writes r' ∨ (r' = r ∧ IsWrite op w) := by
  simp only [SpecSys.mem_writes, SpecSys.local_recs, List.mem_cons, SpecSys.mem_know_local]
  constructor
  · rintro ⟨rc, (rfl | hrc), hk, hw⟩
    · rcases hk with hk | ⟨hr, _⟩
      · have := h.knowLt r' _ hk; simp only at this; omega
      · exact Or.inr ⟨hr, hw⟩
    · rcases hk with hk | ⟨_, hk⟩
      · exact Or.inl ⟨rc, hrc, hk, hw⟩
      · have := h.idLt rc hrc; omega
  · rintro (⟨rc, hrc, hk, hw⟩ | ⟨hr, hw⟩)
    · exact ⟨rc, Or.inr hrc, Or.inl hk, hw⟩
    · exact ⟨_, Or.inl rfl, Or.inr ⟨hr, rfl⟩, hw⟩

theorem mem_writes_merge (t : SpecSys) (d s r' : Nat) (w : Ts × Nat) :
    w ∈ (t.mergeStep d s).writes r' ↔ w ∈ t.writes r' ∨ (r' = d ∧ w ∈ t.writes s) := by
  simp only [SpecSys.mem_writes, SpecSys.mem_know_merge]
  have hrecs : (t.mergeStep d s).recs = t.recs := rfl
  rw [hrecs]
  constructor
  · rintro ⟨rc, hrc, (hk | ⟨hr, hk⟩), hw⟩
    · exact Or.inl ⟨rc, hrc, hk, hw⟩
    · exact Or.inr ⟨hr, rc, hrc, hk, hw⟩
  · rintro (⟨rc, hrc, hk, hw⟩ | ⟨hr, rc, hrc, hk, hw⟩)
    · exact ⟨rc, hrc, Or.inl hk, hw⟩
    · exact ⟨rc, hrc, Or.inr ⟨hr, hk⟩, hw⟩

/-! ### the invariant -/

def WInv (s : Sys) (t : SpecSys) : Prop :=
  ∀ r, Best (fun w => w ∈ t.writes r) (s.rep r).lww.cur

theorem winv_init : WInv Sys.init {} := by
  intro r w
  simp [SpecSys.writes]

/-- a local operation that is not a write and leaves the register alone -/
theorem winv_local_other (s : Sys) (t : SpecSys) (hi : SpecInv t) (h : WInv s t) (r : Nat) (op : COp)
    (x : Rep) (hx : x.lww = (s.rep r).lww) (hw : ∀ w, ¬ IsWrite op w) :
    WInv (s.set r x) (t.local r op) := by
  intro r'
  have h1 : (((s.set r x).rep r').lww) = (s.rep r').lww := by
    rw [Sys.set_rep]
    by_cases hr : r' = r
    · subst hr; simp [hx]
    · simp [hr]
  rw [h1]
  exact (h r').congr fun w => by
    rw [mem_writes_local t hi]
    exact ⟨fun hh => hh.elim id (fun ⟨_, h2⟩ => absurd h2 (hw w)), Or.inl⟩

theorem winv_step (s : Sys) (t : SpecSys) (o : COp) (hi : SpecInv t) (h : WInv s t) :
    WInv (s.step o) (t.step o) := by
  cases o with
  | inc r k =>
    by_cases hk : k = 0
    · simp only [Sys.step, SpecSys.step, hk, if_true]; exact h
    · simp only [Sys.step, SpecSys.step, hk, if_false]
      exact winv_local_other s t hi h r _ _ rfl (fun w ⟨_, e⟩ => by cases e)
  | dec r k =>
    by_cases hk : k = 0
    · simp only [Sys.step, SpecSys.step, hk, if_true]; exact h
    · simp only [Sys.step, SpecSys.step, hk, if_false]
      exact winv_local_other s t hi h r _ _ rfl (fun w ⟨_, e⟩ => by cases e)
  | oadd r x => exact winv_local_other s t hi h r _ _ rfl (fun w ⟨_, e⟩ => by cases e)
  | orem r x => exact winv_local_other s t hi h r _ _ rfl (fun w ⟨_, e⟩ => by cases e)
  | lset r v p l nd =>
    intro r'
    show Best (fun w => w ∈ (t.local r (.lset r v p l nd)).writes r') ((s.set r _).rep r').lww.cur
    rw [Sys.set_rep]
    by_cases hr : r' = r
    · subst hr
      simp only [if_true]
      refine Best.set (h r') ⟨p, l, nd⟩ v ?_ ?_ ?_
      · exact (mem_writes_local t hi _ _ _ _).mpr (Or.inr ⟨rfl, r', rfl⟩)
      · intro w hw; exact (mem_writes_local t hi _ _ _ _).mpr (Or.inl hw)
      · intro w hw
        rcases (mem_writes_local t hi _ _ _ _).mp hw with h1 | ⟨_, r0, h1⟩
        · exact Or.inl h1
        · right
          obtain ⟨⟨wp, wl, wn⟩, wv⟩ := w
          simp only [COp.lset.injEq] at h1
          obtain ⟨_, _, rfl, rfl, rfl⟩ := h1
          exact Ts.lt_irrefl _
    · simp only [hr, if_false]
      exact (h r').congr fun w => by
        rw [mem_writes_local t hi]; simp [hr]
  | merge d sr =>
    intro r'
    show Best (fun w => w ∈ (t.mergeStep d sr).writes r') ((s.set d _).rep r').lww.cur
    rw [Sys.set_rep]
    by_cases hr : r' = d
    · subst hr
      simp only [if_true]
      exact Best.merge (h r') (h sr) fun w => by rw [mem_writes_merge]; simp
    · simp only [hr, if_false]
      exact (h r').congr fun w => by rw [mem_writes_merge]; simp [hr]

end HappyModel.C18
