import HappyProofs.C18.StoreRefine
import HappyProofs.C18.Exchange
/-!
Gossip steps (ticks, deliveries, lossless rounds) emit state merges only, so a script that ends in a
gossip-only phase ends, for every key, in an *exchange* in the sense of `Exchange.lean`.
-/
namespace HappyModel.C18

def SStep.isGossip : SStep → Bool
  | .w _ _ _ => false
  | _ => true

def XOp.isMerge : XOp → Prop
  | .base (.merge _ _) => True
  | _ => False

def AllMerge (ops : List (Nat × XOp)) : Prop := ∀ e ∈ ops, e.2.isMerge

theorem AllMerge.append {a b : List (Nat × XOp)} (ha : AllMerge a) (hb : AllMerge b) :
    AllMerge (a ++ b) := by
  intro e he
  rcases List.mem_append.mp he with h | h
  · exact ha e h
  · exact hb e h

theorem emit_merge (p : PSt) (s d : Nat) (push : Bool) : AllMerge (p.emit .repaired s d push).2 := by
  intro e he
  simp only [PSt.emit, List.mem_map] at he
  obtain ⟨kn, _, rfl⟩ := he
  simp [XOp.isMerge]

theorem mergeKeys_merge (p : PSt) (d m : Nat) (keys : List (Nat × Nat)) :
    AllMerge (p.mergeKeys .repaired d m keys).2 := by
  induction keys generalizing p with
  | nil => intro e he; simp [PSt.mergeKeys] at he
  | cons kn rest ih =>
    obtain ⟨key, rn⟩ := kn
    intro e he
    simp only [PSt.mergeKeys] at he
    split at he
    · simp only [List.mem_cons] at he
      rcases he with rfl | he
      · simp [XOp.isMerge]
      · exact ih _ e he
    · simp only [List.mem_cons] at he
      rcases he with rfl | he
      · simp [XOp.isMerge]
      · exact ih _ e he

theorem tickStep_merge (p : PSt) (s j : Nat) : AllMerge (p.tickStep .repaired s j).2 := by
  simp only [PSt.tickStep]
  split
  · intro e he; simp at he
  · exact emit_merge _ _ _ _

theorem dlStep_merge (p : PSt) (m : Nat) : AllMerge (p.dlStep .repaired m).2 := by
  simp only [PSt.dlStep]
  split
  · intro e he; simp at he
  · split
    · exact (mergeKeys_merge _ _ _ _).append (emit_merge _ _ _ _)
    · exact mergeKeys_merge _ _ _ _

theorem gossip_step_merge (kind : Kind) (p : PSt) (x : SStep) (hx : x.isGossip = true) :
    AllMerge (p.step .repaired kind x).2 := by
  cases x with
  | w s key op => simp [SStep.isGossip] at hx
  | tick s j => exact tickStep_merge p s j
  | dl m => exact dlStep_merge p m
  | round s j =>
    simp only [PSt.step]
    refine ((tickStep_merge _ _ _).append (dlStep_merge _ _)).append ?_
    split
    · exact dlStep_merge _ _
    · intro e he; simp at he

theorem gossip_ops_merge (kind : Kind) (p : PSt) (steps : List SStep)
    (hg : ∀ x ∈ steps, x.isGossip = true) : AllMerge (PSt.ops .repaired kind p steps) := by
  induction steps generalizing p with
  | nil => intro e he; simp [PSt.ops] at he
  | cons x xs ih =>
    simp only [PSt.ops]
    exact (gossip_step_merge kind p x (hg x List.mem_cons_self)).append
      (ih _ (fun y hy => hg y (List.mem_cons_of_mem _ hy)))

/-- the protocol state after a script -/
def PSt.runP (v : Variant) (kind : Kind) (p : PSt) : List SStep → PSt
  | [] => p
  | x :: xs => PSt.runP v kind (p.step v kind x).1 xs

theorem ops_append (v : Variant) (kind : Kind) (p : PSt) (a b : List SStep) :
    PSt.ops v kind p (a ++ b) = PSt.ops v kind p a ++ PSt.ops v kind (PSt.runP v kind p a) b := by
  induction a generalizing p with
  | nil => simp [PSt.ops, PSt.runP]
  | cons x xs ih => simp [PSt.ops, PSt.runP, ih, List.append_assoc]

theorem keyOps_append (k : Nat) (a b : List (Nat × XOp)) :
    keyOps k (a ++ b) = keyOps k a ++ keyOps k b := by
  simp [keyOps, List.filterMap_append]

/-- the `(dst, src)` pairs of the merges in an operation list -/
def mergePairs (ops : List COp) : List (Nat × Nat) :=
  ops.filterMap fun | .merge d s => some (d, s) | _ => none

theorem keyOps_of_merges (k : Nat) (ops : List (Nat × XOp)) (h : AllMerge ops) :
    keyOps k ops = merges (mergePairs (keyOps k ops)) := by
  induction ops with
  | nil => simp [keyOps, merges, mergePairs]
  | cons e rest ih =>
    have hr : AllMerge rest := fun e' he' => h e' (List.mem_cons_of_mem _ he')
    have he := h e List.mem_cons_self
    obtain ⟨j, x⟩ := e
    cases x with
    | base o =>
      cases o with
      | merge d s =>
        by_cases hj : j = k
        · subst hj
          have hcons : keyOps j ((j, XOp.base (.merge d s)) :: rest) = .merge d s :: keyOps j rest := by
            simp [keyOps, XOp.toCOp?]
          rw [hcons]
          have hp : mergePairs (COp.merge d s :: keyOps j rest) = (d, s) :: mergePairs (keyOps j rest) := by
            simp [mergePairs]
          rw [hp]
          simp only [merges, List.map_cons]
          congr 1
          exact ih hr
        · have hcons : keyOps k ((j, XOp.base (.merge d s)) :: rest) = keyOps k rest := by
            simp [keyOps, hj]
          rw [hcons]
          exact ih hr
      | inc _ _ => simp [XOp.isMerge] at he
      | dec _ _ => simp [XOp.isMerge] at he
      | lset _ _ _ _ _ => simp [XOp.isMerge] at he
      | oadd _ _ => simp [XOp.isMerge] at he
      | orem _ _ => simp [XOp.isMerge] at he
    | incAs _ _ _ => simp [XOp.isMerge] at he
    | decAs _ _ _ => simp [XOp.isMerge] at he
    | oaddAs _ _ _ => simp [XOp.isMerge] at he
    | copy _ _ => simp [XOp.isMerge] at he

end HappyModel.C18
