import HappyProofs.C18.SameUpdates
/-!
Convergence after an exchange of states, in any order and with any duplication.

An exchange is a list of state merges `(dst, src)` (no updates in between).  `reach ex [a]` is the
set of replicas the state replica `a` had at the start has flowed into (directly, or through other
replicas or gossip messages in flight — each hop must come later in the list than the previous one;
anything else may happen in between, any number of times).  If, within a group `R` of replicas that
merges only from its own members, every member's state reaches every member, then at the end all
members have received the same updates — hence (`same_updates_equal_values`) are equal.
-/
namespace HappyModel.C18

def merges (ex : List (Nat × Nat)) : List COp := ex.map fun e => .merge e.1 e.2

/-- the replicas that a state held by one of `S` at the start has flowed into -/
def reach : List (Nat × Nat) → List Nat → List Nat
  | [], S => S
  | (d, s) :: rest, S => reach rest (if S.contains s then d :: S else S)

theorem SpecSys.run_append (t : SpecSys) (a b : List COp) :
    SpecSys.run t (a ++ b) = SpecSys.run (SpecSys.run t a) b := by
  induction a generalizing t with
  | nil => rfl
  | cons o os ih => simp [SpecSys.run, ih]

theorem SpecSys.step_merge (t : SpecSys) (d s : Nat) : t.step (.merge d s) = t.mergeStep d s := rfl

/-- what the sources knew at the start is known wherever their state has flowed -/
theorem reach_learns (ex : List (Nat × Nat)) (t : SpecSys) (S : List Nat) (x : Nat)
    (h : ∀ r ∈ S, x ∈ t.know r) :
    ∀ d ∈ reach ex S, x ∈ (SpecSys.run t (merges ex)).know d := by
  induction ex generalizing t S with
  | nil => simpa [reach, merges, SpecSys.run] using h
  | cons e rest ih =>
    obtain ⟨d0, s0⟩ := e
    simp only [reach, merges, List.map_cons, SpecSys.run, SpecSys.step_merge]
    apply ih
    intro r hr
    rw [SpecSys.mem_know_merge]
    split at hr
    · rename_i hs
      rcases List.mem_cons.mp hr with rfl | hr
      · exact Or.inr ⟨rfl, h s0 (by simpa using hs)⟩
      · exact Or.inl (h r hr)
    · exact Or.inl (h r hr)

/-- a group that merges only from its own members learns nothing from outside -/
theorem closed_bounded (ex : List (Nat × Nat)) (t : SpecSys) (R : List Nat) (x : Nat)
    (closed : ∀ e ∈ ex, e.1 ∈ R → e.2 ∈ R) :
    ∀ r ∈ R, x ∈ (SpecSys.run t (merges ex)).know r → ∃ r0 ∈ R, x ∈ t.know r0 := by
  induction ex generalizing t with
  | nil => intro r hr hx; exact ⟨r, hr, by simpa [merges, SpecSys.run] using hx⟩
  | cons e rest ih =>
    obtain ⟨d0, s0⟩ := e
    intro r hr hx
    simp only [merges, List.map_cons, SpecSys.run, SpecSys.step_merge] at hx
    obtain ⟨r1, hr1, hx1⟩ := ih (t.mergeStep d0 s0)
      (fun e he => closed e (List.mem_cons_of_mem _ he)) r hr hx
    rw [SpecSys.mem_know_merge] at hx1
    rcases hx1 with hx1 | ⟨rfl, hx1⟩
    · exact ⟨r1, hr1, hx1⟩
    · exact ⟨s0, closed (r1, s0) List.mem_cons_self hr1, hx1⟩

/-- after a full exchange inside a closed group all members have received the same updates -/
theorem exchange_same_knowledge (t : SpecSys) (R : List Nat) (ex : List (Nat × Nat))
    (closed : ∀ e ∈ ex, e.1 ∈ R → e.2 ∈ R)
    (full : ∀ a ∈ R, ∀ b ∈ R, b ∈ reach ex [a]) :
    ∀ a ∈ R, ∀ b ∈ R,
      SameSet ((SpecSys.run t (merges ex)).know a) ((SpecSys.run t (merges ex)).know b) := by
  have key : ∀ a ∈ R, ∀ b ∈ R, ∀ x ∈ (SpecSys.run t (merges ex)).know a,
      x ∈ (SpecSys.run t (merges ex)).know b := by
    intro a ha b hb x hx
    obtain ⟨r0, hr0, hx0⟩ := closed_bounded ex t R x closed a ha hx
    exact reach_learns ex t [r0] x (by simpa using hx0) b (full r0 hr0 b hb)
  intro a ha b hb
  exact ⟨key a ha b hb, key b hb a ha⟩

end HappyModel.C18
