import HappyModel.C18.KClock
/-! The keyed (dict) vector clock agrees with the dense one, and its `happened_before` over the key
union is the componentwise order with absent = 0. -/
namespace HappyModel.C18
namespace KVec

theorem get_set_self (v : KVec) (k x : Nat) : (v.set k x).get k = x := by
  induction v with
  | nil => simp [set, get]
  | cons e rest ih =>
    obtain ⟨k', y⟩ := e
    by_cases h : k' = k
    · simp [set, get, h]
    · simp [set, get, h, ih]

theorem get_set_other (v : KVec) (k j x : Nat) (h : j ≠ k) : (v.set k x).get j = v.get j := by
  have h' : ¬ k = j := fun e => h e.symm
  induction v with
  | nil => simp [set, get, h']
  | cons e rest ih =>
    obtain ⟨k', y⟩ := e
    by_cases h1 : k' = k
    · subst h1
      simp [set, get, h']
    · by_cases h2 : k' = j
      · subst h2
        simp [set, get, h1]
      · simp [set, get, h1, h2, ih]

theorem get_of_not_mem (v : KVec) (k : Nat) (h : k ∉ v.keys) : v.get k = 0 := by
  induction v with
  | nil => rfl
  | cons e rest ih =>
    obtain ⟨k', y⟩ := e
    simp only [keys, List.map_cons, List.mem_cons, not_or] at h
    have h' : ¬ k' = k := fun e => h.1 e.symm
    simp only [get, h', if_false]
    exact ih h.2

theorem get_foldl_zero (ms : List Nat) (acc : KVec) (i : Nat) (h : acc.get i = 0) :
    KVec.get (ms.foldl (fun (a : KVec) k => KVec.set a k 0) acc) i = 0 := by
  induction ms generalizing acc with
  | nil => exact h
  | cons m rest ih =>
    apply ih
    by_cases hm : i = m
    · subst hm; exact get_set_self _ _ _
    · rw [get_set_other _ _ _ _ hm]; exact h

theorem get_init (node : Nat) (members : List Nat) (i : Nat) : (init node members).get i = 0 := by
  unfold init
  by_cases h : i = node
  · subst h; exact get_set_self _ _ _
  · rw [get_set_other _ _ _ _ h]; exact get_foldl_zero _ _ _ rfl

theorem get_tick (v : KVec) (node i : Nat) :
    (v.tick node).get i = v.get i + (if i = node then 1 else 0) := by
  unfold tick
  by_cases h : i = node
  · subst h; simp [get_set_self]
  · simp [get_set_other _ _ _ _ h, h]

theorem get_absorb (remote v : KVec) (es : List (Nat × Nat)) (i : Nat) :
    (absorb remote v es).get i =
      if i ∈ es.map (·.1) then max (v.get i) (remote.get i) else v.get i := by
  induction es generalizing v with
  | nil => simp [absorb]
  | cons e rest ih =>
    simp only [absorb, List.map_cons, List.mem_cons]
    rw [ih]
    by_cases h : i = e.1
    · subst h
      simp only [get_set_self, true_or, if_true]
      split <;> omega
    · simp only [get_set_other _ _ _ _ h, h, false_or]

theorem get_receive (v : KVec) (node : Nat) (remote : KVec) (i : Nat) :
    (v.receive node remote).get i = max (v.get i) (remote.get i) + (if i = node then 1 else 0) := by
  unfold receive
  rw [get_tick, get_absorb]
  by_cases h : i ∈ remote.map (·.1)
  · simp [h]
  · have : remote.get i = 0 := get_of_not_mem remote i h
    simp [h, this]

/-- `happened_before` over the union of the two key sets is the componentwise order (absent = 0) -/
theorem happenedBefore_iff (a b : KVec) :
    a.happenedBefore b = true ↔ (∀ k, a.get k ≤ b.get k) ∧ (∃ k, a.get k < b.get k) := by
  simp only [happenedBefore, Bool.and_eq_true, List.all_eq_true, List.any_eq_true,
    decide_eq_true_eq, List.mem_append]
  constructor
  · rintro ⟨h1, k, _, h2⟩
    refine ⟨fun j => ?_, k, h2⟩
    by_cases hj : j ∈ a.keys ∨ j ∈ b.keys
    · exact h1 j hj
    · have := get_of_not_mem a j (fun h => hj (Or.inl h))
      omega
  · rintro ⟨h1, k, h2⟩
    refine ⟨fun j _ => h1 j, k, ?_, h2⟩
    by_cases hk : k ∈ b.keys
    · exact Or.inr hk
    · have := get_of_not_mem b k hk
      omega

/-- … hence equal to the dense comparison of any two vectors with the same entries -/
theorem happenedBefore_eq_dense (a b : KVec) (va vb : Vec)
    (ha : ∀ i, a.get i = Vec.get va i) (hb : ∀ i, b.get i = Vec.get vb i) :
    a.happenedBefore b = vcHappenedBefore va vb := by
  rw [Bool.eq_iff_iff, happenedBefore_iff]
  simp only [vcHappenedBefore, Bool.and_eq_true, Bool.not_eq_true', Vec.le_iff]
  constructor
  · rintro ⟨h1, k, h2⟩
    refine ⟨fun i => by rw [← ha, ← hb]; exact h1 i, ?_⟩
    cases h : Vec.le vb va with
    | false => rfl
    | true =>
      have := (Vec.le_iff vb va).mp h k
      rw [← ha, ← hb] at this
      omega
  · rintro ⟨h1, h2⟩
    refine ⟨fun i => by rw [ha, hb]; exact h1 i, ?_⟩
    apply Classical.byContradiction
    intro hne
    have : Vec.le vb va = true := by
      rw [Vec.le_iff]
      intro i
      apply Classical.byContradiction
      intro hi
      exact hne ⟨i, by rw [ha, hb]; omega⟩
    rw [this] at h2
    exact absurd h2 (by simp)

end KVec

/-! ### the keyed run agrees with the dense run -/

def VEq (k : KVec) (v : Vec) : Prop := ∀ i, k.get i = Vec.get v i

/-- the two logs agree entry by entry -/
inductive LogSim : List KVec → List Rec → Prop
  | nil : LogSim [] []
  | cons {kv : KVec} {r : Rec} {ks : List KVec} {rs : List Rec} :
      VEq kv r.V → LogSim ks rs → LogSim (kv :: ks) (r :: rs)

structure KSim (k : KSt) (s : St) : Prop where
  vc : ∀ n, VEq (k.vc n) (s.vc n)
  mvc : ∀ m, VEq (k.mvc m) (s.mvc m)
  sent : ∀ m, k.msent m = s.msent m
  log : LogSim k.log s.log

theorem ksim_init (mem : Nat → List Nat) : KSim (KSt.init mem) {} :=
  ⟨fun n i => by simp [KSt.init, KVec.get_init], fun m i => by simp [KSt.init, KVec.get],
   fun _ => rfl, LogSim.nil⟩

theorem veq_tick {k : KVec} {v : Vec} (h : VEq k v) (n : Nat) : VEq (k.tick n) (Vec.addAt v n 1) := by
  intro i
  rw [KVec.get_tick]
  by_cases hi : i = n
  · subst hi; simp [Vec.get_addAt_self, h i]
  · simp [hi, Vec.get_addAt_other _ _ _ _ hi, h i]

theorem veq_receive {k r : KVec} {v w : Vec} (h : VEq k v) (hr : VEq r w) (n : Nat) :
    VEq (k.receive n r) (Vec.addAt (Vec.vmax v w) n 1) := by
  intro i
  rw [KVec.get_receive]
  by_cases hi : i = n
  · subst hi; simp [Vec.get_addAt_self, Vec.get_vmax, h i, hr i]
  · simp [hi, Vec.get_addAt_other _ _ _ _ hi, Vec.get_vmax, h i, hr i]

theorem veq_upd {f : Nat → KVec} {g : Nat → Vec} (h : ∀ n, VEq (f n) (g n)) (n : Nat)
    {k : KVec} {v : Vec} (hv : VEq k v) : ∀ n', VEq (upd f n k n') (upd g n v n') := by
  intro n'
  by_cases hn : n' = n
  · subst hn; simpa using hv
  · simpa [upd_other _ _ _ _ hn] using h n'

theorem ksim_step (k : KSt) (s : St) (h : KSim k s) (e : Ev) : KSim (kstep k e) (step s e) := by
  cases e with
  | loc n pt =>
    have hv := veq_tick (h.vc n) n
    exact ⟨veq_upd h.vc n hv, h.mvc, h.sent, LogSim.cons hv h.log⟩
  | send n m pt =>
    simp only [kstep, step, h.sent m]
    cases hs : s.msent m with
    | true => simpa using h
    | false =>
      have hv := veq_tick (h.vc n) n
      simp only [Bool.false_eq_true, if_false]
      refine ⟨veq_upd h.vc n hv, ?_, ?_, LogSim.cons hv h.log⟩
      · intro m'
        by_cases hm : m' = m
        · subst hm; simpa [bump] using hv
        · simpa [bump, upd_other _ _ _ _ hm] using h.mvc m'
      · intro m'
        by_cases hm : m' = m
        · subst hm; simp
        · simpa [bump, upd_other _ _ _ _ hm] using h.sent m'
  | recv n m pt =>
    simp only [kstep, step, h.sent m]
    cases hs : s.msent m with
    | false => simpa using h
    | true =>
      have hv := veq_receive (h.vc n) (h.mvc m) n
      simp only [if_true]
      exact ⟨veq_upd h.vc n hv, h.mvc, h.sent, LogSim.cons hv h.log⟩

theorem ksim_run (es : List Ev) (k : KSt) (s : St) (h : KSim k s) : KSim (krun k es) (run s es) := by
  induction es generalizing k s with
  | nil => exact h
  | cons e es ih => exact ih _ _ (ksim_step k s h e)

end HappyModel.C18
