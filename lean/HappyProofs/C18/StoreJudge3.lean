import HappyProofs.C18.StoreJudge2
import HappyProofs.C18.SpecInv
/-!
Part 3: a store (an entity `< n`) has received an update of a key only if it holds the key.
-/
namespace HappyModel.C18

/-! ### knowledge appears only where operations happen -/

theorem know_origin (ops : List COp) (t : SpecSys) (r : Nat)
    (h : (SpecSys.run t ops).know r ≠ []) : t.know r ≠ [] ∨ ∃ o ∈ ops, o.origin = r := by
  induction ops generalizing t with
  | nil => exact Or.inl h
  | cons o os ih =>
    rcases ih (t.step o) h with h1 | ⟨o', ho', hr⟩
    · have hk := SpecSys.step_kind t o
      generalize t.step o = t' at hk h1
      cases hk with
      | noop _ => exact Or.inl h1
      | loc _ _ _ =>
        by_cases hr : r = o.origin
        · exact Or.inr ⟨o, List.mem_cons_self, hr.symm⟩
        · left
          obtain ⟨x, hx⟩ := List.exists_mem_of_ne_nil _ h1
          rw [SpecSys.mem_know_local] at hx
          rcases hx with hx | ⟨hx, _⟩
          · exact List.ne_nil_of_mem hx
          · exact absurd hx hr
      | mrg d s hds =>
        by_cases hr : r = d
        · exact Or.inr ⟨o, List.mem_cons_self, by rw [hds]; exact hr.symm⟩
        · left
          obtain ⟨x, hx⟩ := List.exists_mem_of_ne_nil _ h1
          rw [SpecSys.mem_know_merge] at hx
          rcases hx with hx | ⟨hx, _⟩
          · exact List.ne_nil_of_mem hx
          · exact absurd hx hr
    · exact Or.inr ⟨o', List.mem_cons_of_mem _ ho', hr⟩

theorem mem_keyOps (k : Nat) (ops : List (Nat × XOp)) (o : COp) :
    o ∈ keyOps k ops ↔ (k, XOp.base o) ∈ ops := by
  simp only [keyOps, List.mem_filterMap]
  constructor
  · rintro ⟨⟨j, x⟩, he, hx⟩
    by_cases hj : j = k
    · subst hj
      simp only [if_true] at hx
      cases x <;> simp [XOp.toCOp?] at hx
      subst hx; exact he
    · simp [hj] at hx
  · intro h
    exact ⟨(k, XOp.base o), h, by simp [XOp.toCOp?]⟩

/-! ### holding keys -/

theorem holds_iff (p : PSt) (s key : Nat) : p.holds s key = true ↔ (s, key) ∈ p.held.map (·.1) := by
  simp only [PSt.holds, PSt.nidOf, Option.isSome_map, List.find?_isSome, List.mem_map, beq_iff_eq]

theorem holds_keysOf (p : PSt) (s key : Nat) :
    p.holds s key = true ↔ key ∈ (p.keysOf s).map (·.1) := by
  rw [holds_iff]
  simp only [PSt.keysOf, List.map_map, List.mem_map, List.mem_filter, beq_iff_eq, Function.comp]
  constructor
  · rintro ⟨e, he, h⟩
    exact ⟨e, ⟨he, by rw [h]⟩, by rw [h]⟩
  · rintro ⟨e, ⟨he, h1⟩, h2⟩
    exact ⟨e, he, Prod.ext h1 h2⟩

/-- `p'` holds whatever `p` holds, same number of stores -/
def Grows (p p' : PSt) : Prop := p'.n = p.n ∧ ∀ s key, p.holds s key = true → p'.holds s key = true

theorem Grows.refl (p : PSt) : Grows p p := ⟨rfl, fun _ _ h => h⟩
theorem Grows.trans {a b c : PSt} (h1 : Grows a b) (h2 : Grows b c) : Grows a c :=
  ⟨h2.1.trans h1.1, fun s k h => h2.2 s k (h1.2 s k h)⟩

theorem grows_hold (p : PSt) (s key nid : Nat) :
    Grows p { p with held := p.held ++ [((s, key), nid)] } := by
  refine ⟨rfl, fun s' k' h => ?_⟩
  rw [holds_iff] at h ⊢
  simp only [List.map_append, List.mem_append]
  exact Or.inl h

theorem holds_new (p : PSt) (s key nid : Nat) :
    ({ p with held := p.held ++ [((s, key), nid)] } : PSt).holds s key = true := by
  rw [holds_iff]; simp

theorem grows_emit (p : PSt) (s d : Nat) (push : Bool) : Grows p (p.emit .repaired s d push).1 :=
  ⟨rfl, fun _ _ h => h⟩

theorem grows_mergeKeys (p : PSt) (d m : Nat) (keys : List (Nat × Nat)) :
    Grows p (p.mergeKeys .repaired d m keys).1 ∧
    ∀ key ∈ keys.map (·.1), (p.mergeKeys .repaired d m keys).1.holds d key = true := by
  induction keys generalizing p with
  | nil => exact ⟨Grows.refl p, by simp⟩
  | cons kn rest ih =>
    obtain ⟨key, rn⟩ := kn
    simp only [PSt.mergeKeys]
    split
    · rename_i hh
      refine ⟨(ih p).1, ?_⟩
      intro key' hk'
      simp only [List.map_cons, List.mem_cons] at hk'
      rcases hk' with rfl | hk'
      · exact (ih p).1.2 _ _ hh
      · exact (ih p).2 key' hk'
    · have g := grows_hold p d key (if Variant.repaired = Variant.repaired then d else rn)
      refine ⟨g.trans (ih _).1, ?_⟩
      intro key' hk'
      simp only [List.map_cons, List.mem_cons] at hk'
      rcases hk' with rfl | hk'
      · exact (ih _).1.2 _ _ (holds_new p d _ _)
      · exact (ih _).2 key' hk'

/-! ### every operation of a store (`origin < n`) is on a key the store holds -/

def Good (p : PSt) (ops : List (Nat × XOp)) : Prop :=
  ∀ e ∈ ops, ∀ o, e.2 = XOp.base o → o.origin < p.n → p.holds o.origin e.1 = true

theorem Good.mono {p p' : PSt} {ops : List (Nat × XOp)} (h : Good p ops) (g : Grows p p') :
    Good p' ops := fun e he o ho hn => g.2 _ _ (h e he o ho (by rw [← g.1]; exact hn))

theorem Good.append {p : PSt} {a b : List (Nat × XOp)} (ha : Good p a) (hb : Good p b) :
    Good p (a ++ b) := by
  intro e he
  rcases List.mem_append.mp he with h | h
  · exact ha e h
  · exact hb e h

theorem good_emit (p : PSt) (s d : Nat) (push : Bool) :
    Good (p.emit .repaired s d push).1 (p.emit .repaired s d push).2 := by
  intro e he o ho hn
  simp only [PSt.emit, List.mem_map] at he
  obtain ⟨kn, _, rfl⟩ := he
  simp only [if_true, XOp.base.injEq] at ho
  subst ho
  simp only [COp.origin, PSt.emit] at hn
  omega

theorem good_mergeKeys (p : PSt) (d m : Nat) (keys : List (Nat × Nat)) :
    Good (p.mergeKeys .repaired d m keys).1 (p.mergeKeys .repaired d m keys).2 := by
  have hshape : ∀ e ∈ (p.mergeKeys .repaired d m keys).2,
      e.1 ∈ keys.map (·.1) ∧ ∃ sr, e.2 = XOp.base (.merge d sr) := by
    induction keys generalizing p with
    | nil => intro e he; simp [PSt.mergeKeys] at he
    | cons kn rest ih =>
      obtain ⟨key, rn⟩ := kn
      intro e he
      simp only [PSt.mergeKeys] at he
      split at he
      · simp only [List.mem_cons] at he
        rcases he with rfl | he
        · exact ⟨by simp, _, rfl⟩
        · obtain ⟨h1, h2⟩ := ih p e he
          exact ⟨by simp [h1], h2⟩
      · simp only [List.mem_cons] at he
        rcases he with rfl | he
        · exact ⟨by simp, _, rfl⟩
        · obtain ⟨h1, h2⟩ := ih _ e he
          exact ⟨by simp [h1], h2⟩
  intro e he o ho _
  obtain ⟨hk, sr, hs⟩ := hshape e he
  rw [hs] at ho
  simp only [XOp.base.injEq] at ho
  subst ho
  exact (grows_mergeKeys p d m keys).2 e.1 hk

end HappyModel.C18
