import HappyProofs.C18.RoundFlow3
/-!
The induction over the trailing rounds with freshness carried along, `UnionAfter`, and the
unconditional acceptance of the model's transcript by the store judge.
-/
namespace HappyModel.C18

theorem rounds_know_fresh (kind : Kind) (n : Nat) (scriptB : List SStep) (k x : Nat) :
    ∀ {j : JSt} {st : SSt} {ops : List (Nat × XOp)}, TInv n j st ops → Fresh st.p ops →
    (∀ y ∈ scriptB, WFStep n y) → (∀ y ∈ scriptB, isRound y = true) →
    (∀ S : List Nat, (∀ r ∈ S, x ∈ knowOf k ops r) →
      ∀ r ∈ reachB (scriptB.flatMap (owedFlows st.p.peers)) S,
        x ∈ knowOf k (ops ++ PSt.ops .repaired kind st.p scriptB) r) ∧
    (∀ a, a < n → x ∈ knowOf k (ops ++ PSt.ops .repaired kind st.p scriptB) a →
      ∃ b, b < n ∧ x ∈ knowOf k ops b) := by
  induction scriptB with
  | nil =>
    intro j st ops _ _ _ _
    simp only [List.flatMap_nil, reachB, PSt.ops, List.append_nil]
    exact ⟨fun S h => h, fun a ha h => ⟨a, ha, h⟩⟩
  | cons y ys ih =>
    intro j st ops T hF hw hr
    have hy := hr y List.mem_cons_self
    cases y with
    | w _ _ _ => simp [isRound] at hy
    | tick _ _ => simp [isRound] at hy
    | dl _ => simp [isRound] at hy
    | round s jx =>
      have hs : s < n := hw _ List.mem_cons_self
      obtain ⟨T', _⟩ := step_ok kind 0 [] (valueOK kind []) T (.round s jx) hs
      have hF' := fresh_next kind T hF (.round s jx) hs
      have hp' : (st.step .repaired kind (.round s jx)).p = (st.p.step .repaired kind (.round s jx)).1 := rfl
      obtain ⟨i1, i2⟩ := ih T' (by rw [hp']; exact hF') (fun z hz => hw z (List.mem_cons_of_mem _ hz))
        (fun z hz => hr z (List.mem_cons_of_mem _ hz))
      rw [hp', step_peers] at i1
      rw [hp'] at i2
      simp only [PSt.ops, List.flatMap_cons, ← List.append_assoc]
      refine ⟨?_, ?_⟩
      · intro S hS r hr'
        rw [reachB_append] at hr'
        exact i1 _ (round_flows kind T s jx k x hs S hS) r hr'
      · intro a ha h
        obtain ⟨b, hb, h'⟩ := i2 a ha h
        exact round_learns_only_known kind T hF s jx k x hs b hb h'

/-- the knowledge statement behind the final clause: after trailing lossless rounds whose owed flows
    are full, every store has received, for every key, exactly the union of what the stores had
    received when the rounds began -/
theorem union_after_rounds (kind : Kind) (n : Nat) (peers : List (List Nat))
    {jA : JSt} {stA : SSt} {opsA : List (Nat × XOp)} (TA : TInv n jA stA opsA) (hFA : Fresh stA.p opsA)
    (hpe : stA.p.peers = peers) (scriptB : List SStep)
    (hw : ∀ y ∈ scriptB, WFStep n y) (hr : ∀ y ∈ scriptB, isRound y = true)
    (hfull : fullRounds n peers scriptB = true) :
    UnionAfter n opsA (PSt.ops .repaired kind stA.p scriptB) := by
  intro k a ha
  constructor
  · intro x hx
    rw [unionAll_know n _ a x ha] at hx
    obtain ⟨b, hb, hxb⟩ := hx
    obtain ⟨learn, _⟩ := rounds_know_fresh kind n scriptB k x TA hFA hw hr
    have hreach : a ∈ reachB (scriptB.flatMap (owedFlows stA.p.peers)) [b] := by
      rw [hpe]
      simp only [fullRounds, List.all_eq_true, List.mem_range, List.contains_eq_mem,
        decide_eq_true_eq] at hfull
      exact hfull b hb a ha
    exact learn [b] (by intro r hr'; simp only [List.mem_singleton] at hr'; subst hr'; exact hxb) a hreach
  · intro x hx
    obtain ⟨_, bound⟩ := rounds_know_fresh kind n scriptB k x TA hFA hw hr
    obtain ⟨b, hb, hxb⟩ := bound a ha hx
    exact (unionAll_know n _ a x ha).mpr ⟨b, hb, hxb⟩

/-- **the store judge accepts the model's own transcript**: for every CRDT kind, every number of
    stores, every well-formed peer list and script (client writes, gossip ticks, deliveries in any
    order / repeated / never, lossless rounds), `judgeStore` — all per-step clauses and the final
    liveness clause — returns no violation on what the model reports -/
theorem store_trace_satisfies_spec (kind : Kind) (n nkeys : Nat) (peers : List (List Nat))
    (script : List SStep) (hp : WFPeers n peers) (hs : ∀ x ∈ script, WFStep n x) :
    judgeStore kind n nkeys peers (traceObs kind (SSt.init n peers) script)
      ((List.range n).flatMap (storeObs (SSt.run .repaired kind (SSt.init n peers) script))) = none := by
  apply store_trace_satisfies_spec_given_union kind n nkeys peers script hp hs
  intro scriptA scriptB hsplit hr hfull
  have hwA : ∀ x ∈ scriptA, WFStep n x := fun x hx => hs x (by rw [hsplit]; exact List.mem_append_left _ hx)
  have hwB : ∀ x ∈ scriptB, WFStep n x := fun x hx => hs x (by rw [hsplit]; exact List.mem_append_right _ hx)
  have T0 := tinv_init n peers hp
  have TA := tinv_run kind [] (valueOK kind []) scriptA T0 hwA
  have hFA := fresh_run kind scriptA T0 (by intro e he; simp at he) hwA
  have hpe : (SSt.run .repaired kind (SSt.init n peers) scriptA).p.peers = peers := by
    rw [run_peers]; rfl
  have := union_after_rounds kind n peers TA hFA hpe scriptB hwB hr hfull
  simpa using this

/-- non-vacuity: a well-formed script with a lost push, a duplicate delivery and healing rounds -/
example : WFPeers 2 [[1], [0]] ∧
    (∀ x ∈ [SStep.w 0 0 (.inc 5), .w 1 0 (.inc 2), .tick 0 0, .tick 1 0, .dl 1, .dl 1, .round 0 0, .round 1 0],
      WFStep 2 x) := by decide

end HappyModel.C18
