import HappyProofs.C18.Scalar
namespace HappyModel.C18
set_option linter.unusedVariables false

def natOrd : TOrd Nat where
  lt := (· < ·)
  le := (· ≤ ·)
  le_refl := Nat.le_refl
  lt_le := Nat.le_of_lt
  le_lt := Nat.lt_of_le_of_lt

def HTs.le (a b : HTs) : Prop := a.p < b.p ∨ (a.p = b.p ∧ a.l ≤ b.l)

def hOrd : TOrd HTs where
  lt := HTs.lt
  le := HTs.le
  le_refl := fun a => Or.inr ⟨rfl, Nat.le_refl _⟩
  lt_le := by
    intro a b h; unfold HTs.lt at h; unfold HTs.le; omega
  le_lt := by
    intro a b c h1 h2; unfold HTs.lt at *; unfold HTs.le at h1; omega

theorem hlcNow_gt (last : HTs) (pt : Nat) : HTs.lt last (hlcNow last pt) := by
  unfold hlcNow HTs.lt; split <;> simp <;> omega

theorem hlcRecv_gt (last r : HTs) (pt : Nat) :
    HTs.lt last (hlcRecv last pt r) ∧ HTs.lt r (hlcRecv last pt r) := by
  unfold hlcRecv HTs.lt
  simp only []
  split
  · rename_i h; simp; omega
  · split
    · rename_i h1 h2; simp; omega
    · split
      · rename_i h1 h2 h3; simp; omega
      · rename_i h1 h2 h3; simp; omega

abbrev LInv (s : St) : Prop := SInv natOrd Rec.L s s.lam s.mlam
abbrev HInv (s : St) : Prop := SInv hOrd Rec.H s s.hlc s.mhlc

theorem linv_step (s : St) (e : Ev) (inv : Inv s) (li : LInv s) : LInv (step s e) := by
  cases e with
  | loc n pt =>
    exact sinv_bump natOrd Rec.L inv li n (s.lam n + 1) (s.vc n) _ (s.know n) (s.lam n + 1) rfl
      (inv.idNode n) (fun r hr hm => Nat.lt_succ_of_le (li.sNode n r hr hm))
  | send n m pt =>
    unfold step; simp only []
    split
    · exact li
    · have b := sinv_bump natOrd Rec.L inv li n (s.lam n + 1) (s.vc n) (hlcNow (s.hlc n) pt) (s.know n)
        (s.lam n + 1) rfl (inv.idNode n) (fun r hr hm => Nat.lt_succ_of_le (li.sNode n r hr hm))
      exact sinv_send natOrd Rec.L b n m _ _ _
  | recv n m pt =>
    unfold step; simp only []
    split
    · rename_i hs
      refine sinv_bump natOrd Rec.L inv li n _ _ _ _ (max (s.lam n) (s.mlam m) + 1) rfl ?_ ?_
      · intro x hx
        rcases (mem_kunion _ _ _).mp hx with h | h
        · exact inv.idNode n x h
        · exact inv.idMsg m hs x h
      · intro r hr hm
        show r.L < max (s.lam n) (s.mlam m) + 1
        rcases (mem_kunion _ _ _).mp hm with h | h
        · have : r.L ≤ s.lam n := li.sNode n r hr h; omega
        · have : r.L ≤ s.mlam m := li.sMsg m hs r hr h; omega
    · exact li

theorem hinv_step (s : St) (e : Ev) (inv : Inv s) (hi : HInv s) : HInv (step s e) := by
  cases e with
  | loc n pt =>
    exact sinv_bump hOrd Rec.H inv hi n (s.lam n + 1) (s.vc n) _ (s.know n) (hlcNow (s.hlc n) pt) rfl
      (inv.idNode n) (fun r hr hm => hOrd.le_lt (hi.sNode n r hr hm) (hlcNow_gt _ _))
  | send n m pt =>
    unfold step; simp only []
    split
    · exact hi
    · have b := sinv_bump hOrd Rec.H inv hi n (s.lam n + 1) (s.vc n) (hlcNow (s.hlc n) pt) (s.know n)
        (hlcNow (s.hlc n) pt) rfl (inv.idNode n)
        (fun r hr hm => hOrd.le_lt (hi.sNode n r hr hm) (hlcNow_gt _ _))
      exact sinv_send hOrd Rec.H b n m _ _ _
  | recv n m pt =>
    unfold step; simp only []
    split
    · rename_i hs
      refine sinv_bump hOrd Rec.H inv hi n _ _ _ _ (hlcRecv (s.hlc n) pt (s.mhlc m)) rfl ?_ ?_
      · intro x hx
        rcases (mem_kunion _ _ _).mp hx with h | h
        · exact inv.idNode n x h
        · exact inv.idMsg m hs x h
      · intro r hr hm
        rcases (mem_kunion _ _ _).mp hm with h | h
        · exact hOrd.le_lt (hi.sNode n r hr h) (hlcRecv_gt _ _ _).1
        · exact hOrd.le_lt (hi.sMsg m hs r hr h) (hlcRecv_gt _ _ _).2
    · exact hi

theorem all_inv (es : List Ev) (s : St) (inv : Inv s) (li : LInv s) (hi : HInv s) :
    Inv (run s es) ∧ LInv (run s es) ∧ HInv (run s es) := by
  induction es generalizing s with
  | nil => exact ⟨inv, li, hi⟩
  | cons e es ih =>
    exact ih _ (step_inv s e inv) (linv_step s e inv li) (hinv_step s e inv hi)

end HappyModel.C18
