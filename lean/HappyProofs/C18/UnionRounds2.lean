import HappyProofs.C18.UnionRounds1
/-!
`UnionAfter` from the one-round statement `RoundFacts`, and with it the judge's acceptance of the
model's whole transcript.
-/
namespace HappyModel.C18

theorem unionAfter_of_roundFacts (kind : Kind) (n : Nat) (peers : List (List Nat))
    (hf : RoundFacts kind n) {jA : JSt} {stA : SSt} {opsA : List (Nat × XOp)}
    (TA : TInv n jA stA opsA) (hpe : stA.p.peers = peers) (scriptB : List SStep)
    (hw : ∀ y ∈ scriptB, WFStep n y) (hr : ∀ y ∈ scriptB, isRound y = true)
    (hfull : fullRounds n peers scriptB = true) :
    UnionAfter n opsA (PSt.ops .repaired kind stA.p scriptB) := by
  intro k a ha
  have hv := valueOK kind []
  constructor
  · intro x hx
    rw [unionAll_know n _ a x ha] at hx
    obtain ⟨b, hb, hxb⟩ := hx
    obtain ⟨learn, _⟩ := rounds_know kind n hv hf scriptB k x TA hw hr
    have hreach : a ∈ reachB (scriptB.flatMap (owedFlows stA.p.peers)) [b] := by
      rw [hpe]
      simp only [fullRounds, List.all_eq_true, List.mem_range, List.contains_eq_mem,
        decide_eq_true_eq] at hfull
      exact hfull b hb a ha
    exact learn [b] (by intro r hr'; simp only [List.mem_singleton] at hr'; subst hr'; exact hxb) a hreach
  · intro x hx
    obtain ⟨_, bound⟩ := rounds_know kind n hv hf scriptB k x TA hw hr
    obtain ⟨b, hb, hxb⟩ := bound a ha hx
    exact (unionAll_know n _ a x ha).mpr ⟨b, hb, hxb⟩

/-- the store judge accepts the model's own transcript of every well-formed script, given the
    one-round statement `RoundFacts` (what a lossless round owes flows; stores learn only what some
    store knew) -/
theorem store_trace_satisfies_spec_given_round_facts (kind : Kind) (n nkeys : Nat)
    (peers : List (List Nat)) (script : List SStep) (hp : WFPeers n peers)
    (hs : ∀ x ∈ script, WFStep n x) (hf : RoundFacts kind n) :
    judgeStore kind n nkeys peers (traceObs kind (SSt.init n peers) script)
      ((List.range n).flatMap (storeObs (SSt.run .repaired kind (SSt.init n peers) script))) = none := by
  apply store_trace_satisfies_spec_given_union kind n nkeys peers script hp hs
  intro scriptA scriptB hsplit hr hfull
  have hwA : ∀ x ∈ scriptA, WFStep n x := fun x hx => hs x (by rw [hsplit]; exact List.mem_append_left _ hx)
  have hwB : ∀ x ∈ scriptB, WFStep n x := fun x hx => hs x (by rw [hsplit]; exact List.mem_append_right _ hx)
  have TA := tinv_run kind [] (valueOK kind []) scriptA (tinv_init n peers hp) hwA
  have hpe : (SSt.run .repaired kind (SSt.init n peers) scriptA).p.peers = peers := by
    rw [run_peers]; rfl
  have := unionAfter_of_roundFacts kind n peers hf TA hpe scriptB hwB hr hfull
  simpa using this

end HappyModel.C18
