import HappyProofs.C18.StoreJudge6
/-!
Part 7: `judgeStep` accepts every step of a well-formed script on the model's own observations.
-/
namespace HappyModel.C18

/-- the value clause, as a property of the CRDT kind (discharged in `Props.lean`) -/
def ValueOK (kind : Kind) (mentioned : List Nat) : Prop :=
  ∀ (ops : List COp) (a : Nat),
    judgeValue kind (SpecSys.run {} ops) a (kobsOf ((Sys.run Sys.init ops).rep a)) mentioned = none

theorem created_eq (kind : Kind) {n : Nat} (st : SSt) (x : SStep) (new : List Msg)
    (ph : Phase n st.p (st.p.step .repaired kind x) new) :
    (stepObs kind st x).created = obsFrom st.p.msgs.length new :=
  createdObs_of_append st.p (st.p.step .repaired kind x).1 new ph.msgs

theorem val_ok (kind : Kind) {n : Nat} {j : JSt} {st : SSt} {ops : List (Nat × XOp)} (x : SStep)
    (mentioned : List Nat) (hv : ValueOK kind mentioned)
    (T : TInv n (j.advance kind n (stepObs kind st x)) (st.step .repaired kind x) ops) :
    ∀ o ∈ (stepObs kind st x).obs,
      judgeValue kind (specAt (j.advance kind n (stepObs kind st x)).spec o.2.1) o.1 o.2.2 mentioned = none := by
  intro o ho
  simp only [stepObs, List.mem_flatMap, storeObs, List.mem_map] at ho
  obtain ⟨a, _, kn, _, rfl⟩ := ho
  simp only
  rw [T.j.spec, T.sys]
  exact hv _ a

theorem miss_ok (kind : Kind) {n : Nat} {j : JSt} {st : SSt} {ops : List (Nat × XOp)} (x : SStep)
    (T : TInv n (j.advance kind n (stepObs kind st x)) (st.step .repaired kind x) ops)
    (a : Nat) (ha : a ∈ st.p.actors x) (hlt : a < n) (k : Nat)
    (hk : (specAt (j.advance kind n (stepObs kind st x)).spec k).know a ≠ []) :
    ∃ o ∈ (stepObs kind st x).obs, o.1 = a ∧ o.2.1 = k := by
  have hh := known_held T.j T.good a k hlt hk
  rw [holds_keysOf] at hh
  obtain ⟨kn, hkn, rfl⟩ := List.mem_map.mp hh
  refine ⟨(a, kn.1, kobsOf ((sysAt (st.step .repaired kind x).sys kn.1).rep a)), ?_, rfl, rfl⟩
  simp only [stepObs, List.mem_flatMap, storeObs, List.mem_map]
  exact ⟨a, ha, kn, hkn, rfl⟩

theorem step_ok (kind : Kind) (nkeys : Nat) (mentioned : List Nat) (hv : ValueOK kind mentioned)
    {n : Nat} {j : JSt} {st : SSt} {ops : List (Nat × XOp)} (h : TInv n j st ops) (x : SStep)
    (hx : WFStep n x) :
    TInv n (j.advance kind n (stepObs kind st x)) (st.step .repaired kind x)
      (ops ++ (st.p.step .repaired kind x).2) ∧
    judgeStep kind n nkeys mentioned j (stepObs kind st x) =
      (j.advance kind n (stepObs kind st x), none) := by
  cases x with
  | w s key op =>
    have ph := step_w_phase (n := n) kind st.p s key op
    have T := tinv_next kind h _ [] ph
    refine ⟨T, judgeStep_ok _ _ _ _ _ _ ?_ ?_ (val_ok kind _ mentioned hv T)⟩
    · intro mo hmo; rw [created_eq kind st _ [] ph] at hmo; simp [obsFrom] at hmo
    · intro r hr a ha k hk
      simp only [stepObs, actingOf, Option.some.injEq] at hr
      subst hr
      simp only [stepObs, isRound, Bool.false_eq_true, if_false, List.mem_singleton] at ha
      subst ha
      exact miss_ok kind _ T _ (by simp [PSt.actors, PSt.acting]) hx k hk
  | tick s jx =>
    have hmiss : ∀ (T : TInv n (j.advance kind n (stepObs kind st (.tick s jx)))
        (st.step .repaired kind (.tick s jx)) (ops ++ (st.p.step .repaired kind (.tick s jx)).2)),
        ∀ r, actingOf j (stepObs kind st (.tick s jx)).step = some r →
        ∀ a ∈ (if isRound (stepObs kind st (.tick s jx)).step then
          (r :: (stepObs kind st (.tick s jx)).created.map (·.dst)).eraseDups else [r]), ∀ k,
        (specAt (j.advance kind n (stepObs kind st (.tick s jx))).spec k).know a ≠ [] →
        ∃ o ∈ (stepObs kind st (.tick s jx)).obs, o.1 = a ∧ o.2.1 = k := by
      intro T r hr a ha k hk
      simp only [stepObs, actingOf, Option.some.injEq] at hr
      subst hr
      simp only [stepObs, isRound, Bool.false_eq_true, if_false, List.mem_singleton] at ha
      subst ha
      exact miss_ok kind _ T _ (by simp [PSt.actors, PSt.acting]) hx k hk
    rcases step_tick_phase (n := n) kind st.p s jx hx h.wfp with ph | ⟨d, hd, ph⟩
    · have T := tinv_next kind h _ _ ph
      refine ⟨T, judgeStep_ok _ _ _ _ _ _ ?_ (hmiss T) (val_ok kind _ mentioned hv T)⟩
      intro mo hmo; rw [created_eq kind st _ _ ph] at hmo; simp [obsFrom] at hmo
    · have T := tinv_next kind h _ _ ph
      refine ⟨T, judgeStep_ok _ _ _ _ _ _ ?_ (hmiss T) (val_ok kind _ mentioned hv T)⟩
      intro mo hmo k hk
      rw [created_eq kind st _ _ ph] at hmo
      simp only [obsFrom, List.mem_singleton] at hmo
      subst hmo
      exact known_in_keys h.j h.good (Grows.refl _) s k _ hx _ rfl rfl
        (by simpa [stepObs, JSt.apply, msgObsOf] using hk)
  | dl m =>
    rcases step_dl_phase (n := n) kind st.p m h.lt with ⟨hm, ph⟩ | ⟨msg, hm, hph⟩
    · have T := tinv_next kind h _ _ ph
      refine ⟨T, judgeStep_ok _ _ _ _ _ _ ?_ ?_ (val_ok kind _ mentioned hv T)⟩
      · intro mo hmo; rw [created_eq kind st _ _ ph] at hmo; simp [obsFrom] at hmo
      · intro r hr
        simp [stepObs, actingOf, jinv_find h.j m, hm] at hr
    · have hmlt := h.lt msg (List.mem_of_getElem? hm)
      have hmiss : ∀ (T : TInv n (j.advance kind n (stepObs kind st (.dl m)))
          (st.step .repaired kind (.dl m)) (ops ++ (st.p.step .repaired kind (.dl m)).2)),
          ∀ r, actingOf j (stepObs kind st (.dl m)).step = some r →
          ∀ a ∈ (if isRound (stepObs kind st (.dl m)).step then
            (r :: (stepObs kind st (.dl m)).created.map (·.dst)).eraseDups else [r]), ∀ k,
          (specAt (j.advance kind n (stepObs kind st (.dl m))).spec k).know a ≠ [] →
          ∃ o ∈ (stepObs kind st (.dl m)).obs, o.1 = a ∧ o.2.1 = k := by
        intro T r hr a ha k hk
        simp only [stepObs, actingOf, jinv_find h.j m, hm, Option.map_some, msgObsOf,
          Option.some.injEq] at hr
        subst hr
        simp only [stepObs, isRound, Bool.false_eq_true, if_false, List.mem_singleton] at ha
        subst ha
        exact miss_ok kind _ T _ (by simp [PSt.actors, PSt.acting, hm]) hmlt.2 k hk
      rcases hph with ph | ph
      · have T := tinv_next kind h _ _ ph
        refine ⟨T, judgeStep_ok _ _ _ _ _ _ ?_ (hmiss T) (val_ok kind _ mentioned hv T)⟩
        intro mo hmo; rw [created_eq kind st _ _ ph] at hmo; simp [obsFrom] at hmo
      · have T := tinv_next kind h _ _ ph
        refine ⟨T, judgeStep_ok _ _ _ _ _ _ ?_ (hmiss T) (val_ok kind _ mentioned hv T)⟩
        intro mo hmo k hk
        rw [created_eq kind st _ _ ph] at hmo
        simp only [obsFrom, List.mem_singleton] at hmo
        subst hmo
        -- the judge's state after applying the delivery = the model after `mergeKeys`
        have hj1 := jinv_deliver h.j m msg hm
        have hg1 : Good (st.p.mergeKeys .repaired msg.dst m msg.keys).1
            (ops ++ (st.p.mergeKeys .repaired msg.dst m msg.keys).2) :=
          (h.good.mono (grows_mergeKeys _ _ _ _).1).append (good_mergeKeys _ _ _ _)
        have hk' : (specAt (j.mergeAll msg.dst (n + m) (sortNat (msg.keys.map (·.1)))).spec k).know msg.dst ≠ [] := by
          simpa [stepObs, JSt.apply, jinv_find h.j m, hm, msgObsOf, respOf] using hk
        exact known_in_keys hj1 hg1 (Grows.refl _) msg.dst k _ hmlt.2 _ rfl rfl hk'
  | round s jx =>
    rcases step_round_phase (n := n) kind st.p s jx hx h.wfp with ⟨hps, ph⟩ | ⟨q, qs, d, hps, hdd, hd, hph⟩
    · have T := tinv_next kind h _ _ ph
      have hc := created_eq kind st _ _ ph
      refine ⟨T, judgeStep_ok _ _ _ _ _ _ ?_ ?_ (val_ok kind _ mentioned hv T)⟩
      · intro mo hmo; rw [hc] at hmo; simp [obsFrom] at hmo
      · intro r hr a ha k hk
        simp only [stepObs, actingOf, Option.some.injEq] at hr
        subst hr
        rw [hc] at ha
        simp only [stepObs, isRound, if_true, obsFrom, List.map_nil] at ha
        have : a = s := by simpa using ha
        subst this
        exact miss_ok kind _ T _ (by simp [PSt.actors, hps]) hx k hk
    · -- the two possible message lists: push only, or push and answer
      have hmissG : ∀ (new : List Msg), (∀ m ∈ new, m.dst = s ∨ m.dst = d) →
          Phase n st.p (st.p.step .repaired kind (.round s jx)) new →
          ∀ (T : TInv n (j.advance kind n (stepObs kind st (.round s jx)))
            (st.step .repaired kind (.round s jx)) (ops ++ (st.p.step .repaired kind (.round s jx)).2)),
          ∀ r, actingOf j (stepObs kind st (.round s jx)).step = some r →
          ∀ a ∈ (if isRound (stepObs kind st (.round s jx)).step then
            (r :: (stepObs kind st (.round s jx)).created.map (·.dst)).eraseDups else [r]), ∀ k,
          (specAt (j.advance kind n (stepObs kind st (.round s jx))).spec k).know a ≠ [] →
          ∃ o ∈ (stepObs kind st (.round s jx)).obs, o.1 = a ∧ o.2.1 = k := by
        intro new hnew ph T r hr a ha k hk
        simp only [stepObs, actingOf, Option.some.injEq] at hr
        subst hr
        rw [created_eq kind st _ _ ph] at ha
        simp only [stepObs, isRound, if_true, List.mem_eraseDups, List.mem_cons, List.mem_map] at ha
        have hcase : a = s ∨ a = d := by
          rcases ha with rfl | ⟨mo, hmo, rfl⟩
          · exact Or.inl rfl
          · have : ∀ (l : List Msg) (i : Nat), (∀ m ∈ l, m.dst = s ∨ m.dst = d) →
                ∀ mo ∈ obsFrom i l, mo.dst = s ∨ mo.dst = d := by
              intro l
              induction l with
              | nil => intro i _ mo hmo; simp [obsFrom] at hmo
              | cons y ys ih =>
                intro i hl mo hmo
                simp only [obsFrom, List.mem_cons] at hmo
                rcases hmo with rfl | hmo
                · exact hl y List.mem_cons_self
                · exact ih _ (fun m hm => hl m (List.mem_cons_of_mem _ hm)) mo hmo
            exact this new _ hnew mo hmo
        have hact : a ∈ st.p.actors (.round s jx) := by
          simp only [PSt.actors, hps]
          rw [← hdd]
          by_cases he : d = s
          · simp only [he, if_true, List.mem_singleton]
            rcases hcase with h1 | h1
            · exact h1
            · rw [h1, he]
          · simp only [he, if_false]
            rcases hcase with h1 | h1 <;> simp [h1]
        have hlt : a < n := by
          rcases hcase with h1 | h1
          · rw [h1]; exact hx
          · rw [h1]; exact hd
        exact miss_ok kind _ T _ hact hlt k hk
      have hpush : ∀ k, (specAt j.spec k).know s ≠ [] →
          k ∈ (msgObsOf st.p.msgs.length ⟨s, d, true, st.p.keysOf s⟩).keys :=
        fun k hk => known_in_keys h.j h.good (Grows.refl _) s k _ hx _ rfl rfl hk
      rcases hph with ph | ph
      · have T := tinv_next kind h _ _ ph
        refine ⟨T, judgeStep_ok _ _ _ _ _ _ ?_
          (hmissG _ (by intro m hm; simp only [List.mem_singleton] at hm; subst hm; exact Or.inr rfl) ph T)
          (val_ok kind _ mentioned hv T)⟩
        intro mo hmo k hk
        rw [created_eq kind st _ _ ph] at hmo
        simp only [obsFrom, List.mem_singleton] at hmo
        subst hmo
        exact hpush k (by simpa [stepObs, JSt.apply, msgObsOf] using hk)
      · have T := tinv_next kind h _ _ ph
        refine ⟨T, judgeStep_ok _ _ _ _ _ _ ?_
          (hmissG _ (by
            intro m hm
            simp only [List.mem_cons, List.mem_singleton, List.not_mem_nil, or_false] at hm
            rcases hm with rfl | rfl
            · exact Or.inr rfl
            · exact Or.inl rfl) ph T)
          (val_ok kind _ mentioned hv T)⟩
        intro mo hmo k hk
        rw [created_eq kind st _ _ ph] at hmo
        simp only [obsFrom, List.mem_cons, List.mem_singleton, List.not_mem_nil, or_false] at hmo
        rcases hmo with rfl | rfl
        · exact hpush k (by simpa [stepObs, JSt.apply, msgObsOf] using hk)
        · -- the answer is built by the peer after it merged the push: it holds at least what it held before
          have hg : Grows st.p ((st.p.emit .repaired s (d) true).1.mergeKeys
              .repaired (d) st.p.msgs.length (st.p.keysOf s)).1 :=
            (grows_emit _ _ _ _).trans (grows_mergeKeys _ _ _ _).1
          exact known_in_keys h.j h.good hg _ k _ hd _ rfl rfl
            (by simpa [stepObs, JSt.apply, msgObsOf, respOf] using hk)

end HappyModel.C18
