import HappyProofs.C18.SpecInv
/-!
PN-counter: the vector entry `p[i]` of replica `r` is the sum of the increments performed at
replica `i` that `r` has seen. Seen increments of one origin form a prefix of that origin's
increments (`know_comparable`), so the pointwise maximum taken by `merge` is the sum over the union.
-/
namespace HappyModel.C18

/-! ### weighted sums over the seen records -/

def wsum (w : OpRec → Nat) : List OpRec → List Nat → Nat
  | [], _ => 0
  | rc :: rest, K => (if rc.id ∈ K then w rc else 0) + wsum w rest K

theorem wsum_le (w : OpRec → Nat) (recs : List OpRec) (A B : List Nat)
    (h : ∀ rc ∈ recs, w rc ≠ 0 → rc.id ∈ A → rc.id ∈ B) : wsum w recs A ≤ wsum w recs B := by
  induction recs with
  | nil => simp [wsum]
  | cons rc rest ih =>
    have ih' := ih (fun x hx => h x (List.mem_cons_of_mem _ hx))
    have h0 := h rc List.mem_cons_self
    simp only [wsum]
    by_cases hA : rc.id ∈ A
    · by_cases hw : w rc = 0
      · simp only [hw, ite_self]; omega
      · simp only [hA, h0 hw hA, if_true]; omega
    · simp only [hA, if_false]; omega

theorem wsum_congr (w : OpRec → Nat) (recs : List OpRec) (A B : List Nat)
    (h : ∀ rc ∈ recs, w rc ≠ 0 → (rc.id ∈ A ↔ rc.id ∈ B)) : wsum w recs A = wsum w recs B :=
  Nat.le_antisymm (wsum_le w recs A B fun rc hrc hw => (h rc hrc hw).mp)
    (wsum_le w recs B A fun rc hrc hw => (h rc hrc hw).mpr)

theorem wsum_union_max (w : OpRec → Nat) (recs : List OpRec) (A B U : List Nat)
    (hU : ∀ x, x ∈ U ↔ x ∈ A ∨ x ∈ B)
    (hc : (∀ rc ∈ recs, w rc ≠ 0 → rc.id ∈ A → rc.id ∈ B) ∨
          (∀ rc ∈ recs, w rc ≠ 0 → rc.id ∈ B → rc.id ∈ A)) :
    wsum w recs U = max (wsum w recs A) (wsum w recs B) := by
  rcases hc with hc | hc
  · have h1 := wsum_le w recs A B hc
    have h2 : wsum w recs U = wsum w recs B :=
      wsum_congr w recs U B fun rc hrc hw => by
        rw [hU]; exact ⟨fun h => h.elim (hc rc hrc hw) id, Or.inr⟩
    omega
  · have h1 := wsum_le w recs B A hc
    have h2 : wsum w recs U = wsum w recs A :=
      wsum_congr w recs U A fun rc hrc hw => by
        rw [hU]; exact ⟨fun h => h.elim id (hc rc hrc hw), Or.inl⟩
    omega

/-- what two replicas have seen of one origin is comparable (prefix-closure per origin) -/
theorem know_comparable (t : SpecSys) (h : SpecInv t) (i d s : Nat) :
    (∀ rc ∈ t.recs, rc.op.origin = i → rc.id ∈ t.know d → rc.id ∈ t.know s) ∨
    (∀ rc ∈ t.recs, rc.op.origin = i → rc.id ∈ t.know s → rc.id ∈ t.know d) := by
  by_cases hc : ∀ rc ∈ t.recs, rc.op.origin = i → rc.id ∈ t.know d → rc.id ∈ t.know s
  · exact Or.inl hc
  · right
    simp only [Classical.not_forall] at hc
    obtain ⟨a, ha, hai, had, has⟩ := hc
    intro b hb hbi hbs
    rcases Nat.lt_trichotomy a.id b.id with hlt | heq | hgt
    · exact absurd (h.closed s b hb hbs a.id (h.ownK a ha b hb (hai.trans hbi.symm) hlt)) has
    · rw [← heq]; exact had
    · exact h.closed d a ha had b.id (h.ownK b hb a ha (hbi.trans hai.symm) hgt)

/-- effect of a local operation on a weighted sum -/
theorem wsum_local (w : OpRec → Nat) (t : SpecSys) (h : SpecInv t) (r : Nat) (op : COp) (r' : Nat) :
    wsum w (t.local r op).recs ((t.local r op).know r') =
      wsum w t.recs (t.know r') + (if r' = r then w ⟨t.cnt, op, t.know r⟩ else 0) := by
  rw [SpecSys.local_recs]
  simp only [wsum]
  have h1 : wsum w t.recs ((t.local r op).know r') = wsum w t.recs (t.know r') :=
    wsum_congr w t.recs _ _ fun rc hrc _ => by
      rw [SpecSys.mem_know_local]
      have := h.idLt rc hrc
      exact ⟨fun hh => hh.elim id (fun ⟨_, e⟩ => by omega), Or.inl⟩
  have h2 : (t.cnt ∈ (t.local r op).know r') ↔ r' = r := by
    rw [SpecSys.mem_know_local]
    constructor
    · rintro (hh | ⟨hh, _⟩)
      · have := h.knowLt r' _ hh; omega
      · exact hh
    · intro hh; exact Or.inr ⟨hh, rfl⟩
  rw [h1]
  by_cases hr : r' = r
  · have := h2.mpr hr
    subst hr
    simp only [this, if_true]; omega
  · have : ¬ (t.cnt ∈ (t.local r op).know r') := fun hh => hr (h2.mp hh)
    simp only [this, hr, if_false]; omega

/-! ### the counter invariant -/

def wInc (i : Nat) (rc : OpRec) : Nat :=
  match rc.op with
  | .inc r k => if r = i then k else 0
  | _ => 0

def wDec (i : Nat) (rc : OpRec) : Nat :=
  match rc.op with
  | .dec r k => if r = i then k else 0
  | _ => 0

theorem wInc_origin (i : Nat) (rc : OpRec) (h : wInc i rc ≠ 0) : rc.op.origin = i := by
  unfold wInc at h
  split at h
  · rename_i r k heq
    rw [heq]; simp only [COp.origin]
    by_cases hr : r = i
    · exact hr
    · simp [hr] at h
  · exact absurd rfl h

theorem wDec_origin (i : Nat) (rc : OpRec) (h : wDec i rc ≠ 0) : rc.op.origin = i := by
  unfold wDec at h
  split at h
  · rename_i r k heq
    rw [heq]; simp only [COp.origin]
    by_cases hr : r = i
    · exact hr
    · simp [hr] at h
  · exact absurd rfl h

structure CInv (s : Sys) (t : SpecSys) : Prop where
  p : ∀ r i, Vec.get (s.rep r).pn.p i = wsum (wInc i) t.recs (t.know r)
  n : ∀ r i, Vec.get (s.rep r).pn.n i = wsum (wDec i) t.recs (t.know r)

theorem cinv_init : CInv Sys.init {} := by
  constructor <;> intro r i <;> simp [Sys.init, wsum]

theorem Vec.get_addAt (v : Vec) (i j d : Nat) :
    Vec.get (Vec.addAt v i d) j = Vec.get v j + (if j = i then d else 0) := by
  by_cases h : j = i
  · subst h; simp [Vec.get_addAt_self]
  · simp [Vec.get_addAt_other v i j d h, h]

/-- a local operation that leaves the counter alone and has no weight -/
theorem cinv_local_other (s : Sys) (t : SpecSys) (hi : SpecInv t) (h : CInv s t) (r : Nat) (op : COp)
    (x : Rep) (hx : x.pn = (s.rep r).pn) (hw : ∀ i id K, wInc i ⟨id, op, K⟩ = 0)
    (hw' : ∀ i id K, wDec i ⟨id, op, K⟩ = 0) : CInv (s.set r x) (t.local r op) := by
  constructor
  · intro r' i
    rw [wsum_local _ t hi, hw, Sys.set_rep, ← h.p]
    by_cases hr : r' = r
    · subst hr; simp [hx]
    · simp [hr]
  · intro r' i
    rw [wsum_local _ t hi, hw', Sys.set_rep, ← h.n]
    by_cases hr : r' = r
    · subst hr; simp [hx]
    · simp [hr]

theorem cinv_step (s : Sys) (t : SpecSys) (o : COp) (hi : SpecInv t) (h : CInv s t) :
    CInv (s.step o) (t.step o) := by
  cases o with
  | inc r k =>
    by_cases hk : k = 0
    · simp only [Sys.step, SpecSys.step, hk, if_true]; exact h
    · simp only [Sys.step, SpecSys.step, hk, if_false]
      constructor
      · intro r' i
        rw [wsum_local _ t hi, Sys.set_rep, ← h.p]
        by_cases hr : r' = r
        · subst hr
          simp only [if_true, PN.inc, Vec.get_addAt, wInc]
          by_cases hir : i = r'
          · simp [hir]
          · simp [hir, Ne.symm hir]
        · simp [hr]
      · intro r' i
        rw [wsum_local _ t hi, Sys.set_rep, ← h.n]
        by_cases hr : r' = r
        · subst hr; simp [PN.inc, wDec]
        · simp [hr]
  | dec r k =>
    by_cases hk : k = 0
    · simp only [Sys.step, SpecSys.step, hk, if_true]; exact h
    · simp only [Sys.step, SpecSys.step, hk, if_false]
      constructor
      · intro r' i
        rw [wsum_local _ t hi, Sys.set_rep, ← h.p]
        by_cases hr : r' = r
        · subst hr; simp [PN.dec, wInc]
        · simp [hr]
      · intro r' i
        rw [wsum_local _ t hi, Sys.set_rep, ← h.n]
        by_cases hr : r' = r
        · subst hr
          simp only [if_true, PN.dec, Vec.get_addAt, wDec]
          by_cases hir : i = r'
          · simp [hir]
          · simp [hir, Ne.symm hir]
        · simp [hr]
  | lset r v p l nd =>
    exact cinv_local_other s t hi h r _ _ rfl (fun _ _ _ => rfl) (fun _ _ _ => rfl)
  | oadd r x =>
    exact cinv_local_other s t hi h r _ _ rfl (fun _ _ _ => rfl) (fun _ _ _ => rfl)
  | orem r x =>
    exact cinv_local_other s t hi h r _ _ rfl (fun _ _ _ => rfl) (fun _ _ _ => rfl)
  | merge d sr =>
    show CInv (s.set d _) (t.mergeStep d sr)
    have hrecs : (t.mergeStep d sr).recs = t.recs := rfl
    constructor
    · intro r' i
      rw [Sys.set_rep, hrecs]
      by_cases hr : r' = d
      · subst hr
        simp only [if_true, PN.merge, Vec.get_vmax, h.p]
        refine (wsum_union_max _ _ _ _ _ (fun x => ?_) ?_).symm
        · rw [SpecSys.mem_know_merge]; simp
        · rcases know_comparable t hi i r' sr with hc | hc
          · exact Or.inl fun rc hrc hw => hc rc hrc (wInc_origin i rc hw)
          · exact Or.inr fun rc hrc hw => hc rc hrc (wInc_origin i rc hw)
      · simp only [hr, if_false, h.p]
        exact wsum_congr _ _ _ _ fun rc _ _ => by rw [SpecSys.mem_know_merge]; simp [hr]
    · intro r' i
      rw [Sys.set_rep, hrecs]
      by_cases hr : r' = d
      · subst hr
        simp only [if_true, PN.merge, Vec.get_vmax, h.n]
        refine (wsum_union_max _ _ _ _ _ (fun x => ?_) ?_).symm
        · rw [SpecSys.mem_know_merge]; simp
        · rcases know_comparable t hi i r' sr with hc | hc
          · exact Or.inl fun rc hrc hw => hc rc hrc (wDec_origin i rc hw)
          · exact Or.inr fun rc hrc hw => hc rc hrc (wDec_origin i rc hw)
      · simp only [hr, if_false, h.n]
        exact wsum_congr _ _ _ _ fun rc _ _ => by rw [SpecSys.mem_know_merge]; simp [hr]

/-! ### from vector entries to the value -/

def sumTo (f : Nat → Nat) : Nat → Nat
  | 0 => 0
  | B + 1 => sumTo f B + f B

theorem sumTo_shift (f : Nat → Nat) (B : Nat) :
    sumTo f (B + 1) = f 0 + sumTo (fun i => f (i + 1)) B := by
  induction B with
  | zero => simp [sumTo]
  | succ B ih => rw [sumTo, ih]; simp only [sumTo]; omega

theorem sumTo_add (f g : Nat → Nat) (B : Nat) :
    sumTo (fun i => f i + g i) B = sumTo f B + sumTo g B := by
  induction B with
  | zero => simp [sumTo]
  | succ B ih => simp only [sumTo, ih]; omega

theorem sumTo_zero (B : Nat) : sumTo (fun _ => 0) B = 0 := by
  induction B with
  | zero => rfl
  | succ B ih => simp [sumTo, ih]

theorem sumTo_congr (f g : Nat → Nat) (B : Nat) (h : ∀ i, f i = g i) : sumTo f B = sumTo g B := by
  have : f = g := funext h
  rw [this]

theorem sumTo_single (r k B : Nat) (h : r < B) : sumTo (fun i => if r = i then k else 0) B = k := by
  induction B with
  | zero => omega
  | succ B ih =>
    simp only [sumTo]
    by_cases hr : r = B
    · subst hr
      have : sumTo (fun i => if r = i then k else 0) r = 0 := by
        clear ih h
        have : ∀ C, C ≤ r → sumTo (fun i => if r = i then k else 0) C = 0 := by
          intro C
          induction C with
          | zero => intro _; rfl
          | succ C ih =>
            intro hC
            simp only [sumTo, ih (by omega)]
            have : r ≠ C := by omega
            simp [this]
        exact this r (Nat.le_refl _)
      simp [this]
    · rw [ih (by omega)]; simp [hr]

theorem foldl_add (v : List Nat) (a : Nat) : v.foldl (· + ·) a = a + v.foldl (· + ·) 0 := by
  induction v generalizing a with
  | nil => simp
  | cons x xs ih => simp only [List.foldl_cons]; rw [ih (a + x), ih (0 + x)]; omega

theorem Vec.sum_eq_sumTo (v : Vec) (B : Nat) (h : v.length ≤ B) :
    Vec.sum v = sumTo (Vec.get v) B := by
  induction v generalizing B with
  | nil =>
    have : Vec.get [] = fun _ => 0 := funext fun i => Vec.get_nil i
    rw [this, sumTo_zero]; rfl
  | cons x xs ih =>
    cases B with
    | zero => simp at h
    | succ B =>
      rw [sumTo_shift]
      simp only [Vec.get_cons_zero, Vec.get_cons_succ]
      rw [← ih B (by simpa using h)]
      simp only [Vec.sum, List.foldl_cons]
      rw [foldl_add]; omega

def wIncAll (rc : OpRec) : Nat := match rc.op with | .inc _ k => k | _ => 0
def wDecAll (rc : OpRec) : Nat := match rc.op with | .dec _ k => k | _ => 0

theorem sumTo_wInc (rc : OpRec) : ∃ B0, ∀ B, B0 ≤ B → sumTo (fun i => wInc i rc) B = wIncAll rc := by
  unfold wInc wIncAll
  split
  · rename_i r k _
    exact ⟨r + 1, fun B hB => sumTo_single r k B (by omega)⟩
  · exact ⟨0, fun B _ => sumTo_zero B⟩

theorem sumTo_wDec (rc : OpRec) : ∃ B0, ∀ B, B0 ≤ B → sumTo (fun i => wDec i rc) B = wDecAll rc := by
  unfold wDec wDecAll
  split
  · rename_i r k _
    exact ⟨r + 1, fun B hB => sumTo_single r k B (by omega)⟩
  · exact ⟨0, fun B _ => sumTo_zero B⟩

/-- summing the per-origin sums over all origins gives the total -/
theorem sumTo_wsum (wi : Nat → OpRec → Nat) (wa : OpRec → Nat)
    (hw : ∀ rc, ∃ B0, ∀ B, B0 ≤ B → sumTo (fun i => wi i rc) B = wa rc)
    (recs : List OpRec) (K : List Nat) :
    ∃ B0, ∀ B, B0 ≤ B → sumTo (fun i => wsum (wi i) recs K) B = wsum wa recs K := by
  induction recs with
  | nil => exact ⟨0, fun B _ => by simp only [wsum]; exact sumTo_zero B⟩
  | cons rc rest ih =>
    obtain ⟨B1, h1⟩ := ih
    obtain ⟨B2, h2⟩ := hw rc
    refine ⟨max B1 B2, fun B hB => ?_⟩
    simp only [wsum]
    rw [sumTo_add, h1 B (by omega)]
    by_cases hK : rc.id ∈ K
    · simp only [hK, if_true]; rw [h2 B (by omega)]
    · simp only [hK, if_false]; rw [sumTo_zero]

theorem counter_foldl (recs : List OpRec) (K : List Nat) (acc : Int) :
    recs.foldl (fun acc rc =>
      if K.contains rc.id then
        match rc.op with
        | .inc _ k => acc + k
        | .dec _ k => acc - k
        | _ => acc
      else acc) acc = acc + (wsum wIncAll recs K : Int) - (wsum wDecAll recs K : Int) := by
  induction recs generalizing acc with
  | nil => simp [wsum]
  | cons rc rest ih =>
    simp only [List.foldl_cons, wsum]
    rw [ih]
    obtain ⟨id, op, K'⟩ := rc
    by_cases hK : id ∈ K
    · have hc : K.contains id = true := by simpa using hK
      simp only [hc, hK, if_true, wIncAll, wDecAll]
      cases op <;> simp <;> omega
    · have hc : K.contains id = false := by simpa using hK
      simp only [hc, hK, if_false]
      simp

theorem SpecSys.counter_eq (t : SpecSys) (r : Nat) :
    t.counter r = (wsum wIncAll t.recs (t.know r) : Int) - (wsum wDecAll t.recs (t.know r) : Int) := by
  unfold SpecSys.counter
  exact (counter_foldl t.recs (t.know r) 0).trans (by omega)

theorem cinv_value (s : Sys) (t : SpecSys) (h : CInv s t) (r : Nat) :
    (s.rep r).pn.value = t.counter r := by
  rw [SpecSys.counter_eq, PN.value]
  obtain ⟨B1, h1⟩ := sumTo_wsum wInc wIncAll sumTo_wInc t.recs (t.know r)
  obtain ⟨B2, h2⟩ := sumTo_wsum wDec wDecAll sumTo_wDec t.recs (t.know r)
  have e1 : Vec.sum (s.rep r).pn.p = wsum wIncAll t.recs (t.know r) := by
    rw [Vec.sum_eq_sumTo _ (max (s.rep r).pn.p.length B1) (by omega), ← h1 _ (Nat.le_max_right _ _)]
    exact sumTo_congr _ _ _ (h.p r)
  have e2 : Vec.sum (s.rep r).pn.n = wsum wDecAll t.recs (t.know r) := by
    rw [Vec.sum_eq_sumTo _ (max (s.rep r).pn.n.length B2) (by omega), ← h2 _ (Nat.le_max_right _ _)]
    exact sumTo_congr _ _ _ (h.n r)
  rw [e1, e2]

end HappyModel.C18
