import HappyProofs.C18.RoundFlow
/-!
The four phases of a lossless round with an answer, and fact (a).
-/
namespace HappyModel.C18

def rE1 (p : PSt) (s d : Nat) := p.emit .repaired s d true
def rMk (p : PSt) (s d : Nat) := (rE1 p s d).1.mergeKeys .repaired d p.msgs.length (p.keysOf s)
def rE2 (p : PSt) (s d : Nat) := (rMk p s d).1.emit .repaired d s false
def rMk2 (p : PSt) (s d : Nat) :=
  (rE2 p s d).1.mergeKeys .repaired s (p.msgs.length + 1) ((rMk p s d).1.keysOf d)

theorem rMk_facts (p : PSt) (s d : Nat) :
    (rMk p s d).1.n = p.n ∧ (rMk p s d).1.msgs = p.msgs ++ [⟨s, d, true, p.keysOf s⟩] ∧
    (rMk p s d).1.peers = p.peers := by
  refine ⟨?_, ?_, ?_⟩
  · unfold rMk; rw [mergeKeys_n]; rfl
  · unfold rMk; rw [(mergeKeys_msgs _ _ _ _).1]; rfl
  · unfold rMk; rw [(mergeKeys_msgs _ _ _ _).2]; rfl

theorem round_noanswer' (kind : Kind) (p : PSt) (s jx q : Nat) (qs : List Nat) (hps : p.peersOf s = q :: qs)
    (d : Nat) (hd : d = (q :: qs).getD (jx % (q :: qs).length) q)
    (hc : (p.peersOf d).contains s = false) :
    (p.step .repaired kind (.round s jx)).2 = (rE1 p s d).2 ++ (rMk p s d).2 :=
  round_noanswer kind p s jx q qs hps d hd hc

/-- the round's result when the chosen peer lists the ticking store: push built, push merged,
    answer built, answer merged -/
theorem round_answer (kind : Kind) (p : PSt) (s jx q : Nat) (qs : List Nat) (hps : p.peersOf s = q :: qs)
    (d : Nat) (hd : d = (q :: qs).getD (jx % (q :: qs).length) q)
    (hc : (p.peersOf d).contains s = true) :
    (p.step .repaired kind (.round s jx)).2 =
      (rE1 p s d).2 ++ ((rMk p s d).2 ++ (rE2 p s d).2) ++ (rMk2 p s d).2 := by
  have hget : (rE1 p s d).1.msgs[p.msgs.length]? = some ⟨s, d, true, p.keysOf s⟩ := by simp [rE1, PSt.emit]
  have hpe : (rMk p s d).1.peersOf d = p.peersOf d := peersOf_eq _ _ (rMk_facts p s d).2.2 d
  have hdl : (rE1 p s d).1.dlStep .repaired p.msgs.length = ((rE2 p s d).1, (rMk p s d).2 ++ (rE2 p s d).2) := by
    have := hpe
    unfold rMk at this
    simp only [PSt.dlStep, hget, this, hc, Bool.and_true, if_true]
    rfl
  have hlen : (rE2 p s d).1.msgs.length = p.msgs.length + 2 := by
    simp [rE2, PSt.emit, (rMk_facts p s d).2.1]
  have hget2 : (rE2 p s d).1.msgs[p.msgs.length + 1]? = some ⟨d, s, false, (rMk p s d).1.keysOf d⟩ := by
    simp [rE2, PSt.emit, (rMk_facts p s d).2.1]
  have hdl2 : (rE2 p s d).1.dlStep .repaired (p.msgs.length + 1) = rMk2 p s d := by
    simp only [PSt.dlStep, hget2, Bool.false_and, Bool.false_eq_true, if_false]
    rfl
  have htick : p.tickStep .repaired s jx = rE1 p s d := by
    rw [tickStep_cons p s jx q qs hps, ← hd]; rfl
  simp only [PSt.step, htick, hdl, hlen, if_true, hdl2]

end HappyModel.C18
