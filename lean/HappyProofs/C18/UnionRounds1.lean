import HappyProofs.C18.TraceFinal4
/-!
Towards `UnionAfter`: what `unionAll` knows, peers never change, and the induction over the
trailing rounds from two facts about one round (`RoundFacts`).
-/
namespace HappyModel.C18

/-! ### `unionAll` -/

theorem inner_know (a : Nat) (l : List Nat) (x r : Nat) :
    ∀ t : SpecSys, x ∈ (l.foldl (fun t b => t.step (.merge a b)) t).know r ↔
      x ∈ t.know r ∨ (r = a ∧ ∃ b ∈ l, x ∈ t.know b) := by
  induction l with
  | nil => intro t; simp
  | cons b bs ih =>
    intro t
    simp only [List.foldl_cons]
    rw [ih]
    simp only [SpecSys.step_merge, SpecSys.mem_know_merge, List.mem_cons]
    constructor
    · rintro ((h | ⟨h1, h2⟩) | ⟨hra, b', hb', (h | ⟨_, h⟩)⟩)
      · exact Or.inl h
      · exact Or.inr ⟨h1, b, Or.inl rfl, h2⟩
      · exact Or.inr ⟨hra, b', Or.inr hb', h⟩
      · exact Or.inr ⟨hra, b, Or.inl rfl, h⟩
    · rintro (h | ⟨hra, b', (hb' | hb'), h⟩)
      · exact Or.inl (Or.inl h)
      · subst hb'; exact Or.inl (Or.inr ⟨hra, h⟩)
      · exact Or.inr ⟨hra, b', hb', Or.inl h⟩

theorem outer_know (l : List Nat) (x : Nat) :
    ∀ (l' : List Nat) (t : SpecSys) (r : Nat),
      x ∈ (l'.foldl (fun t a => l.foldl (fun t b => t.step (.merge a b)) t) t).know r ↔
        x ∈ t.know r ∨ (r ∈ l' ∧ ∃ b ∈ l, x ∈ t.know b) := by
  intro l'
  induction l' with
  | nil => intro t r; simp
  | cons a as ih =>
    intro t r
    simp only [List.foldl_cons]
    rw [ih]
    have hex : (∃ b ∈ l, x ∈ (l.foldl (fun t b => t.step (.merge a b)) t).know b) ↔ ∃ b ∈ l, x ∈ t.know b := by
      constructor
      · rintro ⟨b, hb, h⟩
        rw [inner_know] at h
        rcases h with h | ⟨_, b', hb', h⟩
        · exact ⟨b, hb, h⟩
        · exact ⟨b', hb', h⟩
      · rintro ⟨b, hb, h⟩
        exact ⟨b, hb, (inner_know a l x b t).mpr (Or.inl h)⟩
    rw [hex, inner_know]
    simp only [List.mem_cons]
    constructor
    · rintro ((h | ⟨rfl, h⟩) | ⟨hr, h⟩)
      · exact Or.inl h
      · exact Or.inr ⟨Or.inl rfl, h⟩
      · exact Or.inr ⟨Or.inr hr, h⟩
    · rintro (h | ⟨rfl | hr, h⟩)
      · exact Or.inl (Or.inl h)
      · exact Or.inl (Or.inr ⟨rfl, h⟩)
      · exact Or.inr ⟨hr, h⟩

/-- a store knows, in `unionAll`, exactly what some store knew -/
theorem unionAll_know (n : Nat) (sp : SpecSys) (a x : Nat) (ha : a < n) :
    x ∈ (unionAll n sp).know a ↔ ∃ b, b < n ∧ x ∈ sp.know b := by
  unfold unionAll
  rw [outer_know]
  simp only [List.mem_range]
  constructor
  · rintro (h | ⟨_, b, hb, h⟩)
    · exact ⟨a, ha, h⟩
    · exact ⟨b, hb, h⟩
  · rintro ⟨b, hb, h⟩
    exact Or.inr ⟨ha, b, hb, h⟩

/-! ### the peer lists never change -/

theorem tickStep_peers (p : PSt) (s j : Nat) : (p.tickStep .repaired s j).1.peers = p.peers := by
  simp only [PSt.tickStep]; split <;> rfl

theorem dlStep_peers (p : PSt) (m : Nat) : (p.dlStep .repaired m).1.peers = p.peers := by
  simp only [PSt.dlStep]
  split
  · rfl
  · split
    · exact (mergeKeys_msgs p _ _ _).2
    · exact (mergeKeys_msgs p _ _ _).2

theorem step_peers (kind : Kind) (p : PSt) (x : SStep) : (p.step .repaired kind x).1.peers = p.peers := by
  cases x with
  | w s key op => simp only [PSt.step]; split <;> split <;> rfl
  | tick s j => exact tickStep_peers p s j
  | dl m => exact dlStep_peers p m
  | round s j =>
    simp only [PSt.step]
    split
    · rw [dlStep_peers, dlStep_peers, tickStep_peers]
    · rw [dlStep_peers, tickStep_peers]

theorem run_peers (kind : Kind) (steps : List SStep) :
    ∀ st : SSt, (SSt.run .repaired kind st steps).p.peers = st.p.peers := by
  induction steps with
  | nil => intro st; rfl
  | cons x xs ih =>
    intro st
    simp only [SSt.run]
    rw [ih]
    exact step_peers kind st.p x

/-! ### knowledge of a key along the model's operations -/

def knowOf (k : Nat) (ops : List (Nat × XOp)) (r : Nat) : List Nat :=
  (SpecSys.run {} (keyOps k ops)).know r

/-- the two facts about one lossless round, for the state reached by any well-formed script: what
    the round owes flows, and the stores learn nothing that no store knew -/
def RoundFacts (kind : Kind) (n : Nat) : Prop :=
  ∀ (j : JSt) (st : SSt) (ops : List (Nat × XOp)) (s jx k x : Nat), TInv n j st ops → s < n →
    let ops' := ops ++ (st.p.step .repaired kind (.round s jx)).2
    (∀ S : List Nat, (∀ r ∈ S, x ∈ knowOf k ops r) →
      ∀ r ∈ reachB (owedFlows st.p.peers (.round s jx)) S, x ∈ knowOf k ops' r) ∧
    (∀ a, a < n → x ∈ knowOf k ops' a → ∃ b, b < n ∧ x ∈ knowOf k ops b)

theorem reachB_append (a b : List (Nat × Nat)) : ∀ S, reachB (a ++ b) S = reachB b (reachB a S) := by
  induction a with
  | nil => intro S; rfl
  | cons e es ih => intro S; obtain ⟨d, s⟩ := e; simp [reachB, ih]

/-- induction over the trailing rounds -/
theorem rounds_know (kind : Kind) (n : Nat) (hv : ValueOK kind []) (hf : RoundFacts kind n)
    (scriptB : List SStep) (k x : Nat) :
    ∀ {j : JSt} {st : SSt} {ops : List (Nat × XOp)}, TInv n j st ops →
    (∀ y ∈ scriptB, WFStep n y) → (∀ y ∈ scriptB, isRound y = true) →
    (∀ S : List Nat, (∀ r ∈ S, x ∈ knowOf k ops r) →
      ∀ r ∈ reachB (scriptB.flatMap (owedFlows st.p.peers)) S,
        x ∈ knowOf k (ops ++ PSt.ops .repaired kind st.p scriptB) r) ∧
    (∀ a, a < n → x ∈ knowOf k (ops ++ PSt.ops .repaired kind st.p scriptB) a →
      ∃ b, b < n ∧ x ∈ knowOf k ops b) := by
  induction scriptB with
  | nil =>
    intro j st ops _ _ _
    simp only [List.flatMap_nil, reachB, PSt.ops, List.append_nil]
    exact ⟨fun S h => h, fun a ha h => ⟨a, ha, h⟩⟩
  | cons y ys ih =>
    intro j st ops T hw hr
    have hy := hr y List.mem_cons_self
    cases y with
    | w _ _ _ => simp [isRound] at hy
    | tick _ _ => simp [isRound] at hy
    | dl _ => simp [isRound] at hy
    | round s jx =>
      have hs : s < n := hw _ List.mem_cons_self
      obtain ⟨T', _⟩ := step_ok kind 0 [] hv T (.round s jx) hs
      obtain ⟨f1, f2⟩ := hf j st ops s jx k x T hs
      have hp' : (st.step .repaired kind (.round s jx)).p = (st.p.step .repaired kind (.round s jx)).1 := rfl
      obtain ⟨i1, i2⟩ := ih T' (fun z hz => hw z (List.mem_cons_of_mem _ hz))
        (fun z hz => hr z (List.mem_cons_of_mem _ hz))
      rw [hp', step_peers] at i1
      rw [hp'] at i2
      simp only [PSt.ops, List.flatMap_cons, ← List.append_assoc]
      refine ⟨?_, ?_⟩
      · intro S hS r hr'
        rw [reachB_append] at hr'
        exact i1 _ (f1 S hS) r hr'
      · intro a ha h
        obtain ⟨b, hb, h'⟩ := i2 a ha h
        exact f2 b hb h'

end HappyModel.C18
