import HappyProofs.C18.TraceFinal1
import HappyProofs.C18.OrsetStep
/-!
The value clause depends on the specification system only through its records and the *set* of
updates the judged entity has received; merges change neither the records nor the counter.
-/
namespace HappyModel.C18

/-- two systems glued: entity 0 knows what `a` knows in `t1`, entity 1 what `a` knows in `t2` -/
def glue (t1 t2 : SpecSys) (a : Nat) : SpecSys :=
  { cnt := t1.cnt, know := fun r => if r = 0 then t1.know a else t2.know a, recs := t1.recs }

theorem judgeValue_glue0 (kind : Kind) (t1 t2 : SpecSys) (a : Nat) (o : KObs) (m : List Nat) :
    judgeValue kind (glue t1 t2 a) 0 o m = judgeValue kind t1 a o m := by
  cases kind <;>
    simp [judgeValue, glue, SpecSys.counter, SpecSys.lwwOk, SpecSys.writes, SpecSys.orHas]

theorem judgeValue_glue1 (kind : Kind) (t1 t2 : SpecSys) (a : Nat) (o : KObs) (m : List Nat)
    (hr : t1.recs = t2.recs) :
    judgeValue kind (glue t1 t2 a) 1 o m = judgeValue kind t2 a o m := by
  cases kind <;>
    simp [judgeValue, glue, SpecSys.counter, SpecSys.lwwOk, SpecSys.writes, SpecSys.orHas, hr]

theorem judgeValue_sameset (kind : Kind) (t : SpecSys) (r1 r2 : Nat) (o : KObs) (m : List Nat)
    (h : SameSet (t.know r1) (t.know r2)) :
    judgeValue kind t r1 o m = judgeValue kind t r2 o m := by
  have hc := counter_congr t r1 r2 h
  have ho : ∀ x, t.orHas r1 x = t.orHas r2 x := orHas_congr t r1 r2 h
  have hl : ∀ c, t.lwwOk r1 c = t.lwwOk r2 c := by
    intro c
    rw [Bool.eq_iff_iff, SpecSys.lwwOk_iff, SpecSys.lwwOk_iff]
    exact ⟨fun b => b.congr fun w => (writes_congr t r1 r2 h w).symm,
           fun b => b.congr fun w => writes_congr t r1 r2 h w⟩
  cases kind <;> simp [judgeValue, hc, ho, hl]

/-- the value clause sees only the records and the set of received updates -/
theorem judgeValue_congr (kind : Kind) (t1 t2 : SpecSys) (a : Nat) (o : KObs) (m : List Nat)
    (hr : t1.recs = t2.recs) (h : SameSet (t1.know a) (t2.know a)) :
    judgeValue kind t1 a o m = judgeValue kind t2 a o m := by
  rw [← judgeValue_glue0 kind t1 t2 a o m, ← judgeValue_glue1 kind t1 t2 a o m hr]
  exact judgeValue_sameset kind _ 0 1 o m (by simpa [glue] using h)

/-! ### merges keep the records -/

theorem run_merges_recs (ops : List COp) (hm : ∀ o ∈ ops, ∃ d s, o = .merge d s) (t : SpecSys) :
    (SpecSys.run t ops).recs = t.recs := by
  induction ops generalizing t with
  | nil => rfl
  | cons o os ih =>
    obtain ⟨d, s, rfl⟩ := hm _ List.mem_cons_self
    simp only [SpecSys.run]
    rw [ih (fun o ho => hm o (List.mem_cons_of_mem _ ho))]
    rfl

theorem unionAll_recs (n : Nat) (sp : SpecSys) : (unionAll n sp).recs = sp.recs := by
  unfold unionAll
  have inner : ∀ (l : List Nat) (a : Nat) (t : SpecSys),
      (l.foldl (fun t b => t.step (.merge a b)) t).recs = t.recs := by
    intro l a
    induction l with
    | nil => intro t; rfl
    | cons b bs ih => intro t; simp only [List.foldl_cons]; rw [ih]; rfl
  generalize List.range n = l
  have outer : ∀ (l' : List Nat) (t : SpecSys),
      (l'.foldl (fun t a => l.foldl (fun t b => t.step (.merge a b)) t) t).recs = t.recs := by
    intro l'
    induction l' with
    | nil => intro t; rfl
    | cons a as ih => intro t; simp only [List.foldl_cons]; rw [ih, inner]
  exact outer l sp

end HappyModel.C18
