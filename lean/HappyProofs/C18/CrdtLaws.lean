import HappyModel.C18.Crdt
/-!
Merge laws of the OR-set and the LWW register.

The OR-set keeps `ents` and `tomb` as duplicate-free lists used as *sets*, and `seq` is the
replica-local tag counter (not part of the replicated value), so the laws are stated
extensionally: `ORSet.Equiv` = same members of `ents` and of `tomb` (hence the same `has`).
-/
namespace HappyModel.C18

/-! ### OR-set -/

/-- extensional equality of the replicated part of an OR-set -/
def ORSet.Equiv (a b : ORSet) : Prop :=
  (∀ e, e ∈ a.ents ↔ e ∈ b.ents) ∧ (∀ t, t ∈ a.tomb ↔ t ∈ b.tomb)

/-- no live entry carries a tombstoned tag (holds in every reachable state, `orset_wf_run`) -/
def ORSet.WF (a : ORSet) : Prop := ∀ e ∈ a.ents, e.2 ∉ a.tomb

instance (a : ORSet) : Decidable a.WF := by unfold ORSet.WF; exact inferInstance

theorem ORSet.mem_merge_tomb (a b : ORSet) (t : Tag) :
    t ∈ (a.merge b).tomb ↔ t ∈ a.tomb ∨ t ∈ b.tomb := by
  simp [ORSet.merge, mem_lunion]

theorem ORSet.mem_merge_ents (a b : ORSet) (e : Nat × Tag) :
    e ∈ (a.merge b).ents ↔ (e ∈ a.ents ∨ e ∈ b.ents) ∧ e.2 ∉ a.tomb ∧ e.2 ∉ b.tomb := by
  simp [ORSet.merge, mem_lunion, List.mem_filter]

theorem ORSet.mem_add_ents (s : ORSet) (node x : Nat) (e : Nat × Tag) :
    e ∈ (s.add node x).ents ↔ e ∈ s.ents ∨ e = (x, ⟨node, s.seq⟩) := by
  simp [ORSet.add, mem_lunion]

theorem ORSet.mem_remove_ents (s : ORSet) (x : Nat) (e : Nat × Tag) :
    e ∈ (s.remove x).ents ↔ e ∈ s.ents ∧ e.1 ≠ x := by
  simp [ORSet.remove, List.mem_filter]

theorem ORSet.mem_remove_tomb (s : ORSet) (x : Nat) (t : Tag) :
    t ∈ (s.remove x).tomb ↔ t ∈ s.tomb ∨ (x, t) ∈ s.ents := by
  simp only [ORSet.remove, mem_lunion, List.mem_map, List.mem_filter, beq_iff_eq]
  constructor
  · rintro (h | ⟨⟨y, u⟩, ⟨h1, h2⟩, h3⟩)
    · exact Or.inl h
    · simp only at h2 h3; subst h2 h3; exact Or.inr h1
  · rintro (h | h)
    · exact Or.inl h
    · exact Or.inr ⟨(x, t), ⟨h, rfl⟩, rfl⟩

theorem ORSet.has_iff (s : ORSet) (x : Nat) : s.has x = true ↔ ∃ t, (x, t) ∈ s.ents := by
  simp only [ORSet.has, List.any_eq_true, beq_iff_eq]
  constructor
  · rintro ⟨⟨y, t⟩, h1, h2⟩
    simp only at h2; subst h2; exact ⟨t, h1⟩
  · rintro ⟨t, h⟩
    exact ⟨(x, t), h, rfl⟩

theorem ORSet.Equiv.has_eq {a b : ORSet} (h : a.Equiv b) (x : Nat) : a.has x = b.has x := by
  rw [Bool.eq_iff_iff, ORSet.has_iff, ORSet.has_iff]
  exact ⟨fun ⟨t, ht⟩ => ⟨t, (h.1 _).mp ht⟩, fun ⟨t, ht⟩ => ⟨t, (h.1 _).mpr ht⟩⟩

theorem ORSet.merge_comm_equiv (a b : ORSet) : (a.merge b).Equiv (b.merge a) := by
  refine ⟨fun e => ?_, fun t => ?_⟩
  · rw [mem_merge_ents, mem_merge_ents]
    exact ⟨fun ⟨h1, h2, h3⟩ => ⟨h1.symm, h3, h2⟩, fun ⟨h1, h2, h3⟩ => ⟨h1.symm, h3, h2⟩⟩
  · rw [mem_merge_tomb, mem_merge_tomb]
    exact Or.comm

theorem ORSet.merge_assoc_equiv (a b c : ORSet) :
    ((a.merge b).merge c).Equiv (a.merge (b.merge c)) := by
  refine ⟨fun e => ?_, fun t => ?_⟩
  · simp only [mem_merge_ents, mem_merge_tomb, not_or]
    constructor
    · rintro ⟨(⟨h1, h2, h3⟩ | h1), ⟨h4, h5⟩, h6⟩
      · rcases h1 with h1 | h1
        · exact ⟨Or.inl h1, h4, h5, h6⟩
        · exact ⟨Or.inr ⟨Or.inl h1, h5, h6⟩, h4, h5, h6⟩
      · exact ⟨Or.inr ⟨Or.inr h1, h5, h6⟩, h4, h5, h6⟩
    · rintro ⟨(h1 | ⟨h1, h2, h3⟩), h4, h5, h6⟩
      · exact ⟨Or.inl ⟨Or.inl h1, h4, h5⟩, ⟨h4, h5⟩, h6⟩
      · rcases h1 with h1 | h1
        · exact ⟨Or.inl ⟨Or.inr h1, h4, h5⟩, ⟨h4, h5⟩, h6⟩
        · exact ⟨Or.inr h1, ⟨h4, h5⟩, h6⟩
  · simp only [mem_merge_tomb]
    exact or_assoc

theorem ORSet.merge_idem_equiv (a : ORSet) (h : a.WF) : (a.merge a).Equiv a := by
  refine ⟨fun e => ?_, fun t => ?_⟩
  · rw [mem_merge_ents]
    exact ⟨fun ⟨h1, _⟩ => h1.elim id id, fun h1 => ⟨Or.inl h1, h e h1, h e h1⟩⟩
  · rw [mem_merge_tomb]
    exact ⟨fun h1 => h1.elim id id, Or.inl⟩

/-! ### LWW register -/

theorem Ts.lt_iff (a b : Ts) : Ts.lt a b = true ↔
    a.p < b.p ∨ (a.p = b.p ∧ (a.l < b.l ∨ (a.l = b.l ∧ a.node < b.node))) := by
  simp [Ts.lt]

theorem Ts.lt_irrefl (a : Ts) : Ts.lt a a = false := by
  cases h : Ts.lt a a with
  | false => rfl
  | true => rw [Ts.lt_iff] at h; omega

theorem Ts.lt_trans {a b c : Ts} (h1 : Ts.lt a b = true) (h2 : Ts.lt b c = true) :
    Ts.lt a c = true := by
  rw [Ts.lt_iff] at *; omega

theorem Ts.lt_asymm {a b : Ts} (h1 : Ts.lt a b = true) : Ts.lt b a = false := by
  cases h : Ts.lt b a with
  | false => rfl
  | true => rw [Ts.lt_iff] at *; omega

/-- the order is total: incomparable timestamps are equal -/
theorem Ts.eq_of_not_lt {a b : Ts} (h1 : Ts.lt a b = false) (h2 : Ts.lt b a = false) : a = b := by
  have h1' : ¬ (Ts.lt a b = true) := by simp [h1]
  have h2' : ¬ (Ts.lt b a = true) := by simp [h2]
  rw [Ts.lt_iff] at h1' h2'
  cases a; cases b
  simp only [Ts.mk.injEq] at *
  omega

/-- `¬ a < b` and `¬ b < c` give `¬ a < c` (≥ is transitive) -/
theorem Ts.not_lt_trans {a b c : Ts} (h1 : Ts.lt a b = false) (h2 : Ts.lt b c = false) :
    Ts.lt a c = false := by
  have h1' : ¬ (Ts.lt a b = true) := by simp [h1]
  have h2' : ¬ (Ts.lt b c = true) := by simp [h2]
  cases h : Ts.lt a c with
  | false => rfl
  | true => rw [Ts.lt_iff] at *; omega

/-- equal timestamps carry equal values -/
def LWW.Coherent (a b : LWW) : Prop :=
  ∀ t va vb, a.cur = some (t, va) → b.cur = some (t, vb) → va = vb

theorem LWW.merge_idem' (a : LWW) : a.merge a = a := by
  cases a with
  | mk cur =>
    cases cur with
    | none => rfl
    | some tv =>
      obtain ⟨t, v⟩ := tv
      simp [LWW.merge, LWW.set, Ts.lt_irrefl]

theorem LWW.merge_comm' (a b : LWW) (h : LWW.Coherent a b) : a.merge b = b.merge a := by
  cases a with
  | mk ca =>
    cases b with
    | mk cb =>
      cases ca with
      | none => cases cb with
        | none => rfl
        | some tv => obtain ⟨t, v⟩ := tv; simp [LWW.merge, LWW.set]
      | some tva =>
        obtain ⟨ta, va⟩ := tva
        cases cb with
        | none => simp [LWW.merge, LWW.set]
        | some tvb =>
          obtain ⟨tb, vb⟩ := tvb
          simp only [LWW.merge, LWW.set]
          cases hab : Ts.lt ta tb with
          | true => simp [Ts.lt_asymm hab]
          | false =>
            cases hba : Ts.lt tb ta with
            | true => simp
            | false =>
              have e := Ts.eq_of_not_lt hab hba
              subst e
              have := h ta va vb rfl rfl
              subst this
              simp

/-- associativity needs no hypothesis: merge keeps the first of the greatest timestamps -/
theorem LWW.merge_assoc' (a b c : LWW) : (a.merge b).merge c = a.merge (b.merge c) := by
  cases a with
  | mk ca =>
  cases b with
  | mk cb =>
  cases c with
  | mk cc =>
  cases cc with
  | none => simp [LWW.merge]
  | some tvc =>
    obtain ⟨tc, vc⟩ := tvc
    cases cb with
    | none =>
      cases ca with
      | none => simp [LWW.merge, LWW.set]
      | some tva => obtain ⟨ta, va⟩ := tva; simp [LWW.merge, LWW.set]
    | some tvb =>
      obtain ⟨tb, vb⟩ := tvb
      cases ca with
      | none =>
        simp only [LWW.merge, LWW.set]
        cases hbc : Ts.lt tb tc <;> simp
      | some tva =>
        obtain ⟨ta, va⟩ := tva
        simp only [LWW.merge, LWW.set]
        cases hab : Ts.lt ta tb <;> cases hbc : Ts.lt tb tc <;> cases hac : Ts.lt ta tc <;>
          simp [hab, hbc, hac]
        · exact absurd (Ts.not_lt_trans hab hbc) (by simp [hac])
        · exact absurd (Ts.lt_trans hab hbc) (by simp [hac])

end HappyModel.C18
