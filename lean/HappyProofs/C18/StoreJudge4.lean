import HappyProofs.C18.StoreJudge3
/-!
Part 4: well-formed scripts, the invariants along a step, and what the messages a step builds carry.
-/
namespace HappyModel.C18

/-- stores named by the script and the peer lists exist -/
def WFPeers (n : Nat) (peers : List (List Nat)) : Prop := ∀ ps ∈ peers, ∀ q ∈ ps, q < n

def WFStep (n : Nat) : SStep → Prop
  | .w s _ _ => s < n
  | .tick s _ => s < n
  | .round s _ => s < n
  | .dl _ => True

instance (n : Nat) (peers : List (List Nat)) : Decidable (WFPeers n peers) := by
  unfold WFPeers; exact inferInstance
instance (n : Nat) (x : SStep) : Decidable (WFStep n x) := by
  cases x <;> simp only [WFStep] <;> exact inferInstance

def MsgsLt (n : Nat) (p : PSt) : Prop := ∀ m ∈ p.msgs, m.src < n ∧ m.dst < n

theorem peer_lt {n : Nat} {p : PSt} (hw : WFPeers n p.peers) (s j q : Nat) (qs : List Nat)
    (hp : p.peersOf s = q :: qs) : (q :: qs).getD (j % (q :: qs).length) q < n := by
  have hmem : ∀ x ∈ q :: qs, x < n := by
    intro x hx
    have hps : p.peersOf s ∈ p.peers := by
      unfold PSt.peersOf at hp ⊢
      by_cases hlt : s < p.peers.length
      · simp only [List.getD_eq_getElem?_getD, List.getElem?_eq_getElem hlt, Option.getD_some]
        exact List.getElem_mem hlt
      · simp [List.getD_eq_getElem?_getD, List.getElem?_eq_none (Nat.le_of_not_lt hlt)] at hp
    rw [hp] at hps
    exact hw _ hps x hx
  have hlt : j % (q :: qs).length < (q :: qs).length := Nat.mod_lt _ (by simp)
  rw [List.getD_eq_getElem?_getD, List.getElem?_eq_getElem hlt, Option.getD_some]
  exact hmem _ (List.getElem_mem hlt)

/-! ### phases: growth, goodness, peers, message bounds -/

theorem emit_peers (p : PSt) (s d : Nat) (push : Bool) : (p.emit .repaired s d push).1.peers = p.peers := rfl

theorem msgslt_emit {n : Nat} {p : PSt} (h : MsgsLt n p) (s d : Nat) (push : Bool) (hs : s < n) (hd : d < n) :
    MsgsLt n (p.emit .repaired s d push).1 := by
  intro m hm
  simp only [PSt.emit, List.mem_append, List.mem_singleton] at hm
  rcases hm with hm | rfl
  · exact h m hm
  · exact ⟨hs, hd⟩

theorem msgslt_mergeKeys {n : Nat} {p : PSt} (h : MsgsLt n p) (d m : Nat) (keys : List (Nat × Nat)) :
    MsgsLt n (p.mergeKeys .repaired d m keys).1 := by
  intro x hx; rw [(mergeKeys_msgs p d m keys).1] at hx; exact h x hx

/-- facts about one phase `p ↦ r` emitting `ops` and appending `new` messages -/
structure Phase (n : Nat) (p : PSt) (r : PSt × List (Nat × XOp)) (new : List Msg) : Prop where
  grows : Grows p r.1
  good : Good r.1 r.2
  peers : r.1.peers = p.peers
  msgs : r.1.msgs = p.msgs ++ new
  lt : MsgsLt n p → MsgsLt n r.1

theorem phase_id (n : Nat) (p : PSt) : Phase n p (p, []) [] :=
  ⟨Grows.refl p, by intro e he; simp at he, rfl, by simp, id⟩

theorem Phase.comp {n : Nat} {p : PSt} {r1 r2 : PSt × List (Nat × XOp)} {n1 n2 : List Msg}
    (h1 : Phase n p r1 n1) (h2 : Phase n r1.1 r2 n2) : Phase n p (r2.1, r1.2 ++ r2.2) (n1 ++ n2) :=
  ⟨h1.grows.trans h2.grows, (h1.good.mono h2.grows).append h2.good, h2.peers.trans h1.peers,
   by rw [h2.msgs, h1.msgs, List.append_assoc], fun h => h2.lt (h1.lt h)⟩

theorem phase_emit {n : Nat} (p : PSt) (s d : Nat) (push : Bool) (hs : s < n) (hd : d < n) :
    Phase n p (p.emit .repaired s d push) [⟨s, d, push, p.keysOf s⟩] :=
  ⟨grows_emit p s d push, good_emit p s d push, rfl, rfl, fun h => msgslt_emit h s d push hs hd⟩

theorem phase_mergeKeys {n : Nat} (p : PSt) (d m : Nat) (keys : List (Nat × Nat)) :
    Phase n p (p.mergeKeys .repaired d m keys) [] :=
  ⟨(grows_mergeKeys p d m keys).1, good_mergeKeys p d m keys, (mergeKeys_msgs p d m keys).2,
   by simp [(mergeKeys_msgs p d m keys).1], fun h => msgslt_mergeKeys h d m keys⟩

/-- the answer a delivered push triggers -/
def respOf (p : PSt) (m : Nat) (msg : Msg) : Msg :=
  ⟨msg.dst, msg.src, false, (p.mergeKeys .repaired msg.dst m msg.keys).1.keysOf msg.dst⟩

theorem dlStep_cases (p : PSt) (m : Nat) (msg : Msg) (hm : p.msgs[m]? = some msg) :
    let mk := p.mergeKeys .repaired msg.dst m msg.keys
    (p.dlStep .repaired m = mk) ∨
    (msg.push = true ∧
      p.dlStep .repaired m = ((mk.1.emit .repaired msg.dst msg.src false).1,
        mk.2 ++ (mk.1.emit .repaired msg.dst msg.src false).2)) := by
  intro mk
  simp only [PSt.dlStep, hm]
  split
  · rename_i hc
    simp only [Bool.and_eq_true] at hc
    exact Or.inr ⟨hc.1, rfl⟩
  · exact Or.inl rfl

theorem phase_dlStep {n : Nat} (p : PSt) (m : Nat) (msg : Msg) (hm : p.msgs[m]? = some msg)
    (hlt : msg.src < n ∧ msg.dst < n) :
    Phase n p (p.dlStep .repaired m) [] ∨
    (msg.push = true ∧ Phase n p (p.dlStep .repaired m) [respOf p m msg]) := by
  rcases dlStep_cases p m msg hm with h | ⟨hp, h⟩
  · left; rw [h]; exact phase_mergeKeys p _ _ _
  · right
    refine ⟨hp, ?_⟩
    rw [h]
    have := (phase_mergeKeys (n := n) p msg.dst m msg.keys).comp
      (phase_emit _ msg.dst msg.src false hlt.2 hlt.1)
    simpa [respOf] using this

end HappyModel.C18
