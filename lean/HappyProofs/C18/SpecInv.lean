import HappyModel.C18.Spec
/-!
Invariants of the CRDT specification system `SpecSys` alone (ids, knowledge sets, recorded pasts),
and the lock-step induction principle for `Sys.run` / `SpecSys.run`.
-/
namespace HappyModel.C18

/-- the replica that performs an operation -/
def COp.origin : COp → Nat
  | .inc r _ => r
  | .dec r _ => r
  | .lset r _ _ _ _ => r
  | .oadd r _ => r
  | .orem r _ => r
  | .merge d _ => d

/-! ### membership views of a step -/

theorem SpecSys.local_recs (t : SpecSys) (r : Nat) (op : COp) :
    (t.local r op).recs = ⟨t.cnt, op, t.know r⟩ :: t.recs := rfl

theorem SpecSys.local_cnt (t : SpecSys) (r : Nat) (op : COp) : (t.local r op).cnt = t.cnt + 1 := rfl

theorem SpecSys.mem_know_local (t : SpecSys) (r : Nat) (op : COp) (r' x : Nat) :
    x ∈ (t.local r op).know r' ↔ x ∈ t.know r' ∨ (r' = r ∧ x = t.cnt) := by
  simp only [SpecSys.local, upd]
  by_cases h : r' = r
  · subst h; simp [or_comm]
  · simp [h]

/-- `SpecSys.step` of a merge, named so that it can be rewritten -/
def SpecSys.mergeStep (t : SpecSys) (d sr : Nat) : SpecSys :=
  { t with know := upd t.know d (kunion (t.know d) (t.know sr)) }

theorem SpecSys.mem_know_merge (t : SpecSys) (d sr r' x : Nat) :
    x ∈ (t.mergeStep d sr).know r' ↔ x ∈ t.know r' ∨ (r' = d ∧ x ∈ t.know sr) := by
  simp only [SpecSys.mergeStep, upd]
  by_cases h : r' = d
  · subst h; simp [mem_kunion]
  · simp [h]

/-- a step is the identity, a local operation of the op's origin, or a merge -/
inductive SpecSys.StepKind (t : SpecSys) (o : COp) : SpecSys → Prop
  | noop : (o = .inc o.origin 0 ∨ o = .dec o.origin 0) → StepKind t o t
  | loc : (∀ d s, o ≠ .merge d s) → o ≠ .inc o.origin 0 → o ≠ .dec o.origin 0 →
      StepKind t o (t.local o.origin o)
  | mrg (d s : Nat) : o = .merge d s → StepKind t o (t.mergeStep d s)

theorem SpecSys.step_kind (t : SpecSys) (o : COp) : SpecSys.StepKind t o (t.step o) := by
  cases o with
  | inc r k =>
    by_cases hk : k = 0
    · subst hk; simp only [SpecSys.step, if_true]; exact .noop (Or.inl rfl)
    · simp only [SpecSys.step, hk, if_false]
      exact .loc (fun _ _ h => by cases h) (by simp [COp.origin, hk]) (by simp)
  | dec r k =>
    by_cases hk : k = 0
    · subst hk; simp only [SpecSys.step, if_true]; exact .noop (Or.inr rfl)
    · simp only [SpecSys.step, hk, if_false]
      exact .loc (fun _ _ h => by cases h) (by simp) (by simp [COp.origin, hk])
  | lset r v p l nd => exact .loc (fun _ _ h => by cases h) (by simp) (by simp)
  | oadd r x => exact .loc (fun _ _ h => by cases h) (by simp) (by simp)
  | orem r x => exact .loc (fun _ _ h => by cases h) (by simp) (by simp)
  | merge d s => exact .mrg d s rfl

/-! ### invariants -/

structure SpecInv (t : SpecSys) : Prop where
  idLt : ∀ rc ∈ t.recs, rc.id < t.cnt
  knowLt : ∀ r, ∀ x ∈ t.know r, x < t.cnt
  kLt : ∀ rc ∈ t.recs, ∀ y ∈ rc.K, y < rc.id
  idUniq : ∀ a ∈ t.recs, ∀ b ∈ t.recs, a.id = b.id → a = b
  /-- a replica knows its own operations -/
  own : ∀ rc ∈ t.recs, rc.id ∈ t.know rc.op.origin
  /-- an operation has observed the earlier operations of its replica -/
  ownK : ∀ a ∈ t.recs, ∀ b ∈ t.recs, a.op.origin = b.op.origin → a.id < b.id → a.id ∈ b.K
  /-- knowledge is closed under recorded pasts -/
  closed : ∀ r, ∀ d ∈ t.recs, d.id ∈ t.know r → ∀ y ∈ d.K, y ∈ t.know r
  /-- merges are never recorded -/
  noMerge : ∀ rc ∈ t.recs, ∀ d s, rc.op ≠ .merge d s

theorem specInv_init : SpecInv {} := by
  constructor <;> simp

theorem specInv_local (t : SpecSys) (h : SpecInv t) (op : COp) (hm : ∀ d s, op ≠ .merge d s) :
    SpecInv (t.local op.origin op) := by
  constructor
  · intro rc hrc
    rw [SpecSys.local_recs, List.mem_cons] at hrc
    rw [SpecSys.local_cnt]
    rcases hrc with rfl | hrc
    · exact Nat.lt_succ_self _
    · exact Nat.lt_succ_of_lt (h.idLt rc hrc)
  · intro r x hx
    rw [SpecSys.mem_know_local] at hx
    rw [SpecSys.local_cnt]
    rcases hx with hx | ⟨_, rfl⟩
    · exact Nat.lt_succ_of_lt (h.knowLt r x hx)
    · exact Nat.lt_succ_self _
  · intro rc hrc y hy
    rw [SpecSys.local_recs, List.mem_cons] at hrc
    rcases hrc with rfl | hrc
    · exact h.knowLt _ y hy
    · exact h.kLt rc hrc y hy
  · intro a ha b hb hab
    rw [SpecSys.local_recs, List.mem_cons] at ha hb
    rcases ha with rfl | ha <;> rcases hb with rfl | hb
    · rfl
    · have := h.idLt b hb; simp only at hab; omega
    · have := h.idLt a ha; simp only at hab; omega
    · exact h.idUniq a ha b hb hab
  · intro rc hrc
    rw [SpecSys.local_recs, List.mem_cons] at hrc
    rw [SpecSys.mem_know_local]
    rcases hrc with rfl | hrc
    · exact Or.inr ⟨rfl, rfl⟩
    · exact Or.inl (h.own rc hrc)
  · intro a ha b hb hor hlt
    rw [SpecSys.local_recs, List.mem_cons] at ha hb
    rcases ha with rfl | ha <;> rcases hb with rfl | hb
    · simp only at hlt; omega
    · have := h.idLt b hb; simp only at hlt; omega
    · simp only at hor ⊢; rw [← hor]; exact h.own a ha
    · exact h.ownK a ha b hb hor hlt
  · intro r d hd hin y hy
    rw [SpecSys.local_recs, List.mem_cons] at hd
    rw [SpecSys.mem_know_local] at hin ⊢
    rcases hd with rfl | hd
    · simp only at hin hy
      rcases hin with hin | ⟨rfl, _⟩
      · have := h.knowLt r _ hin; omega
      · exact Or.inl hy
    · rcases hin with hin | ⟨_, hin⟩
      · exact Or.inl (h.closed r d hd hin y hy)
      · have := h.idLt d hd; omega
  · intro rc hrc
    rw [SpecSys.local_recs, List.mem_cons] at hrc
    rcases hrc with rfl | hrc
    · exact hm
    · exact h.noMerge rc hrc

theorem specInv_merge (t : SpecSys) (h : SpecInv t) (d s : Nat) : SpecInv (t.mergeStep d s) := by
  have hrecs : (t.mergeStep d s).recs = t.recs := rfl
  have hcnt : (t.mergeStep d s).cnt = t.cnt := rfl
  constructor
  · rw [hrecs, hcnt]; exact h.idLt
  · intro r x hx
    rw [SpecSys.mem_know_merge] at hx
    rw [hcnt]
    rcases hx with hx | ⟨_, hx⟩
    · exact h.knowLt r x hx
    · exact h.knowLt s x hx
  · rw [hrecs]; exact h.kLt
  · rw [hrecs]; exact h.idUniq
  · intro rc hrc
    rw [SpecSys.mem_know_merge]
    exact Or.inl (h.own rc hrc)
  · rw [hrecs]; exact h.ownK
  · intro r rc hrc hin y hy
    rw [hrecs] at hrc
    rw [SpecSys.mem_know_merge] at hin ⊢
    rcases hin with hin | ⟨hr, hin⟩
    · exact Or.inl (h.closed r rc hrc hin y hy)
    · exact Or.inr ⟨hr, h.closed s rc hrc hin y hy⟩
  · rw [hrecs]; exact h.noMerge

theorem specInv_step (t : SpecSys) (h : SpecInv t) (o : COp) : SpecInv (t.step o) := by
  have hk := SpecSys.step_kind t o
  generalize t.step o = t' at hk
  cases hk with
  | noop _ => exact h
  | loc hm _ _ => exact specInv_local t h o hm
  | mrg d s _ => exact specInv_merge t h d s

/-! ### lock-step induction -/

theorem run_ind (P : Sys → SpecSys → Prop)
    (hstep : ∀ s t o, SpecInv t → P s t → P (s.step o) (t.step o)) :
    ∀ (ops : List COp) (s : Sys) (t : SpecSys), SpecInv t → P s t →
      SpecInv (SpecSys.run t ops) ∧ P (Sys.run s ops) (SpecSys.run t ops) := by
  intro ops
  induction ops with
  | nil => intro s t hi hp; exact ⟨hi, hp⟩
  | cons o os ih =>
    intro s t hi hp
    simp only [Sys.run, SpecSys.run]
    exact ih _ _ (specInv_step t hi o) (hstep s t o hi hp)

/-! ### replica lookup after `Sys.set` -/

theorem Sys.set_rep (s : Sys) (r : Nat) (x : Rep) (r' : Nat) :
    (s.set r x).rep r' = if r' = r then x else s.rep r' := by
  simp [Sys.set, upd]

end HappyModel.C18
