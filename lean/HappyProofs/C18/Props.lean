import HappyProofs.C18.ScalarInst
import HappyProofs.C18.SameUpdates
import HappyModel.C18.Spec
/-!
# C18 — property theorems

"For any history of local events and message exchanges, if event a happened before event b then
the Lamport and hybrid-logical timestamps of a are smaller than those of b, and vector clocks order
a before b exactly when a happened before b. For any operations and any order, duplication or
grouping of state merges, CRDT replicas that have received the same updates are equal (merge is
commutative, associative and idempotent), and their value is the specified one."

Happened-before is the causal past `Rec.K` that the model computes from the history alone:
`K(e) = {e} ∪ K(previous event of the same node) ∪ K(send event of the received message)`;
`past_transitive` shows it is transitively closed, so it is Lamport's relation →*.
-/
namespace HappyModel.C18

/-- a is in the causal past of b (reflexive happened-before) -/
def InPast (a b : Rec) : Prop := a.id ∈ b.K

/-- strict happened-before -/
def HB (a b : Rec) : Prop := a.id ∈ b.K ∧ a.id ≠ b.id

theorem inv_run (es : List Ev) : Inv (run {} es) ∧ LInv (run {} es) ∧ HInv (run {} es) :=
  all_inv es {} init_inv (sinv_init _ _ _ _) (sinv_init _ _ _ _)

/-- the causal past is transitively closed -/
theorem past_transitive (es : List Ev) (a b c : Rec)
    (ha : a ∈ (run {} es).log) (hb : b ∈ (run {} es).log) (hc : c ∈ (run {} es).log)
    (hab : InPast a b) (hbc : InPast b c) : InPast a c :=
  (inv_run es).1.clLog c hc b.id hbc b hb rfl a.id hab

/-- Lamport clocks: a → b ⇒ L(a) < L(b), for every history -/
theorem lamport_hb (es : List Ev) (a b : Rec)
    (ha : a ∈ (run {} es).log) (hb : b ∈ (run {} es).log) (h : HB a b) : a.L < b.L :=
  (inv_run es).2.1.sLog b hb a ha h.1 h.2

/-- HLC: a → b ⇒ (physical, logical)(a) < (physical, logical)(b) lexicographically, for every
    history and every behaviour of the physical clocks (the readings `pt` are arbitrary inputs) -/
theorem hlc_hb (es : List Ev) (a b : Rec)
    (ha : a ∈ (run {} es).log) (hb : b ∈ (run {} es).log) (h : HB a b) : HTs.lt a.H b.H :=
  (inv_run es).2.2.sLog b hb a ha h.1 h.2

/-- vector clocks, reflexive form: V(a) ≤ V(b) pointwise ⇔ a is in the causal past of b -/
theorem vector_iff_hb (es : List Ev) (a b : Rec)
    (ha : a ∈ (run {} es).log) (hb : b ∈ (run {} es).log) :
    Vec.le a.V b.V = true ↔ InPast a b := by
  have inv := (inv_run es).1
  generalize run {} es = s at *
  rw [Vec.le_iff]
  constructor
  · intro hle
    obtain ⟨_, a2, a3, a4⟩ := inv.logSelf a ha
    have := (inv.pLog b hb).2 a.node (Vec.get a.V a.node) a2 a3
    rw [a4] at this
    exact this.mp (hle a.node)
  · intro hin j
    have hsub : ∀ y ∈ a.K, y ∈ b.K := inv.clLog b hb a.id hin a ha rfl
    by_cases hz : Vec.get a.V j = 0
    · omega
    · have h1 : 1 ≤ Vec.get a.V j := by omega
      have h2 : Vec.get a.V j ≤ s.nev j := (inv.pLog a ha).1 j
      have ina := ((inv.pLog a ha).2 j (Vec.get a.V j) h1 h2).mp (Nat.le_refl _)
      exact ((inv.pLog b hb).2 j (Vec.get a.V j) h1 h2).mpr (hsub _ ina)

/-- vector clocks, the code's `happened_before` (all ≤ and some <) ⇔ strict happened-before -/
theorem vector_strict_iff_hb (es : List Ev) (a b : Rec)
    (ha : a ∈ (run {} es).log) (hb : b ∈ (run {} es).log) :
    vcHappenedBefore a.V b.V = true ↔ HB a b := by
  have inv := (inv_run es).1
  unfold vcHappenedBefore HB
  simp only [Bool.and_eq_true, Bool.not_eq_true']
  rw [vector_iff_hb es a b ha hb]
  constructor
  · rintro ⟨h1, h2⟩
    refine ⟨h1, ?_⟩
    intro heq
    have : Vec.le b.V a.V = true := by
      rw [vector_iff_hb es b a hb ha]
      have := (inv.logSelf b hb).1
      unfold InPast; rw [← heq] at this
      -- b.id = a.id ∈ a.K ?  we know a.id ∈ a.K
      exact heq ▸ (inv.logSelf a ha).1
    rw [this] at h2; exact absurd h2 (by simp)
  · rintro ⟨h1, h2⟩
    refine ⟨h1, ?_⟩
    cases hle : Vec.le b.V a.V with
    | false => rfl
    | true =>
      have hba : InPast b a := (vector_iff_hb es b a hb ha).mp hle
      have l1 := (inv.idLog b hb).2 a.id h1
      have l2 := (inv.idLog a ha).2 b.id hba
      exact absurd (Nat.le_antisymm l1 l2) h2

/-! ### CRDT merge laws -/

theorem pn_merge_comm (a b : PN) : a.merge b = b.merge a := by
  simp [PN.merge, Vec.vmax_comm a.p b.p, Vec.vmax_comm a.n b.n]

theorem pn_merge_assoc (a b c : PN) : (a.merge b).merge c = a.merge (b.merge c) := by
  simp [PN.merge, Vec.vmax_assoc]

theorem pn_merge_idem (a : PN) : a.merge a = a := by
  simp [PN.merge, Vec.vmax_idem]

/-! #### OR-set

`ents` and `tomb` are duplicate-free lists used as sets and `seq` is the replica-local tag counter,
so the laws are extensional (`ORSet.Equiv`: same live entries, same tombstones — hence the same
`has`, `ORSet.Equiv.has_eq`). -/

theorem orset_merge_comm (a b : ORSet) : (a.merge b).Equiv (b.merge a) :=
  ORSet.merge_comm_equiv a b

theorem orset_merge_assoc (a b c : ORSet) : ((a.merge b).merge c).Equiv (a.merge (b.merge c)) :=
  ORSet.merge_assoc_equiv a b c

/-- idempotence, for sets whose live entries are not tombstoned; every reachable replica state is
    such a set (`orset_reachable_wf`) -/
theorem orset_merge_idem (a : ORSet) (h : a.WF) : (a.merge a).Equiv a :=
  ORSet.merge_idem_equiv a h

theorem orset_reachable_wf (ops : List COp) (r : Nat) : ((Sys.run Sys.init ops).rep r).os.WF := by
  obtain ⟨_, _, _, tg, h⟩ := crdtInv_run ops
  exact oinv_wf _ _ tg h r

/-- membership is what the laws are about -/
theorem orset_merge_has (a b c : ORSet) (x : Nat) :
    (a.merge b).has x = (b.merge a).has x ∧
    ((a.merge b).merge c).has x = (a.merge (b.merge c)).has x ∧
    (a.WF → (a.merge a).has x = a.has x) :=
  ⟨(orset_merge_comm a b).has_eq x, (orset_merge_assoc a b c).has_eq x,
   fun h => (orset_merge_idem a h).has_eq x⟩

/-- non-vacuity: three reachable, pairwise different OR-sets (adds, a remove and merges) -/
example :
    let s := Sys.run Sys.init [.oadd 0 7, .oadd 1 7, .merge 2 0, .orem 2 7, .oadd 1 8, .merge 0 2,
      .merge 2 1, .oadd 0 9]
    let a := (s.rep 0).os; let b := (s.rep 1).os; let c := (s.rep 2).os
    a.WF ∧ a.tomb ≠ [] ∧ b.ents.length = 2 ∧ a ≠ b ∧ b ≠ c ∧
    (a.merge b).ents ≠ (b.merge a).ents ∧ (a.merge b).has 7 = true ∧ (a.merge c).has 8 = true := by
  decide

/-- the well-formedness hypothesis of idempotence cannot be dropped for arbitrary values -/
example : ¬ ((ORSet.mk 1 [(5, ⟨0, 0⟩)] [⟨0, 0⟩]).merge (ORSet.mk 1 [(5, ⟨0, 0⟩)] [⟨0, 0⟩])).has 5
    = (ORSet.mk 1 [(5, ⟨0, 0⟩)] [⟨0, 0⟩]).has 5 := by decide

/-! #### LWW register -/

/-- commutativity, when equal timestamps carry equal values -/
theorem lww_merge_comm (a b : LWW) (h : LWW.Coherent a b) : a.merge b = b.merge a :=
  LWW.merge_comm' a b h

/-- associativity holds without the coherence hypothesis -/
theorem lww_merge_assoc (a b c : LWW) : (a.merge b).merge c = a.merge (b.merge c) :=
  LWW.merge_assoc' a b c

theorem lww_merge_idem (a : LWW) : a.merge a = a := LWW.merge_idem' a

/-- non-vacuity: coherent registers with different timestamps -/
example : LWW.Coherent ⟨some (⟨3, 0, 1⟩, 10)⟩ ⟨some (⟨3, 1, 0⟩, 20)⟩ ∧
    (LWW.merge ⟨some (⟨3, 0, 1⟩, 10)⟩ ⟨some (⟨3, 1, 0⟩, 20)⟩).cur = some (⟨3, 1, 0⟩, 20) := by
  refine ⟨fun t va vb h1 h2 => ?_, by decide⟩
  cases h1; cases h2

/-- without coherence commutativity fails: two writes with the same timestamp and different
    values — each side keeps its own -/
theorem lww_merge_not_comm_incoherent :
    LWW.merge ⟨some (⟨3, 0, 1⟩, 10)⟩ ⟨some (⟨3, 0, 1⟩, 20)⟩ ≠
    LWW.merge ⟨some (⟨3, 0, 1⟩, 20)⟩ ⟨some (⟨3, 0, 1⟩, 10)⟩ := by decide

/-! ### CRDT values are the specified ones

`SpecSys` (HappyModel/C18/Spec.lean) records every update operation with the set of operation ids
its replica had seen (`K`), and keeps for every replica the set `know r` of update ids in its
causal past; merges only union these sets. The theorems below hold for every operation list. -/

/-- counter value = Σ seen increments − Σ seen decrements -/
theorem counter_value_spec (ops : List COp) (r : Nat) :
    ((Sys.run Sys.init ops).rep r).pn.value = (SpecSys.run {} ops).counter r :=
  cinv_value _ _ (crdtInv_run ops).2.1 r

example :
    let ops := [COp.inc 0 2, .dec 1 1, .merge 1 0, .inc 1 3, .merge 0 1, .merge 0 1, .dec 2 4]
    ((Sys.run Sys.init ops).rep 0).pn.value = 4 ∧ (SpecSys.run {} ops).counter 0 = 4 ∧
    ((Sys.run Sys.init ops).rep 2).pn.value = -4 := by decide

/-- the OR-set contains x exactly when some seen add of x was not observed by a seen remove of x -/
theorem orset_spec (ops : List COp) (r x : Nat) :
    ((Sys.run Sys.init ops).rep r).os.has x = (SpecSys.run {} ops).orHas r x := by
  obtain ⟨_, _, _, tg, h⟩ := crdtInv_run ops
  exact oinv_has _ _ tg h r x

/-- non-vacuity: a concurrent add survives a remove (7 at replica 0), an observed add does not
    (7 at replica 2 before the last merge), on both sides of the equation -/
example :
    let ops := [COp.oadd 0 7, .oadd 1 7, .merge 2 0, .orem 2 7, .merge 0 2, .merge 0 1, .merge 2 0]
    let ops' := [COp.oadd 0 7, .oadd 1 7, .merge 2 0, .orem 2 7, .merge 0 2]
    ((Sys.run Sys.init ops).rep 0).os.has 7 = true ∧ (SpecSys.run {} ops).orHas 0 7 = true ∧
    ((Sys.run Sys.init ops').rep 0).os.has 7 = false ∧ (SpecSys.run {} ops').orHas 0 7 = false := by
  decide

/-- the register holds a seen write that no seen write beats (`none` iff nothing was seen);
    no hypothesis on the timestamps is needed for this direction -/
theorem lww_spec (ops : List COp) (r : Nat) :
    (SpecSys.run {} ops).lwwOk r ((Sys.run Sys.init ops).rep r).lww.cur = true :=
  (SpecSys.lwwOk_iff _ _ _).mpr ((crdtInv_run ops).2.2.1 r)

example :
    let ops := [COp.lset 0 10 5 0 0, .lset 1 20 5 1 1, .merge 0 1, .lset 2 30 4 9 2, .merge 0 2,
      .merge 2 0]
    ((Sys.run Sys.init ops).rep 2).lww.cur = some (⟨5, 1, 1⟩, 20) ∧
    (SpecSys.run {} ops).writes 2 = [(⟨4, 9, 2⟩, 30), (⟨5, 1, 1⟩, 20), (⟨5, 0, 0⟩, 10)] := by decide

/-- replicas that have received the same updates have equal values: same counter value, same
    OR-set members, and — when equal timestamps carry equal values — the same register content -/
theorem same_updates_equal_values (ops : List COp) (r1 r2 : Nat)
    (h : SameSet ((SpecSys.run {} ops).know r1) ((SpecSys.run {} ops).know r2)) :
    ((Sys.run Sys.init ops).rep r1).pn.value = ((Sys.run Sys.init ops).rep r2).pn.value ∧
    (∀ x, ((Sys.run Sys.init ops).rep r1).os.has x = ((Sys.run Sys.init ops).rep r2).os.has x) ∧
    (OpsCoherent ops →
      ((Sys.run Sys.init ops).rep r1).lww.cur = ((Sys.run Sys.init ops).rep r2).lww.cur) := by
  refine ⟨?_, fun x => ?_, fun hc => ?_⟩
  · rw [counter_value_spec, counter_value_spec]; exact counter_congr _ r1 r2 h
  · rw [orset_spec, orset_spec]; exact orHas_congr _ r1 r2 h x
  · exact best_unique ops hc r1 r2 h _ _ ((crdtInv_run ops).2.2.1 r1) ((crdtInv_run ops).2.2.1 r2)

/-- non-vacuity: after merging in both directions two replicas know the same updates (in a
    different order), the operations are coherent, and the knowledge is not trivial -/
example :
    let ops := [COp.oadd 0 5, .inc 1 2, .lset 0 9 3 0 0, .lset 1 8 3 0 1, .merge 0 1, .merge 1 0]
    let t := SpecSys.run {} ops
    SameSet (t.know 0) (t.know 1) ∧ t.know 0 ≠ t.know 1 ∧ (t.know 0).length = 4 ∧
    OpsCoherent ops := by decide

/-- without coherent timestamps the register part fails: same updates, different contents -/
example :
    let ops := [COp.lset 0 10 3 0 0, .lset 1 20 3 0 0, .merge 0 1, .merge 1 0]
    SameSet ((SpecSys.run {} ops).know 0) ((SpecSys.run {} ops).know 1) ∧
    ((Sys.run Sys.init ops).rep 0).lww.cur ≠ ((Sys.run Sys.init ops).rep 1).lww.cur := by decide

/-- non-vacuity: a concrete history with a receive has related and unrelated pairs -/
example :
    let s := run {} [.send 0 0 5, .loc 1 1, .recv 1 0 2]
    s.log.length = 3 ∧ (s.log.map (·.K)) = [[2, 1, 0], [1], [0]] := by decide

end HappyModel.C18
