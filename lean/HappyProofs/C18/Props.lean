import HappyProofs.C18.ScalarInst
import HappyProofs.C18.SameUpdates
import HappyProofs.C18.StoreRefine
import HappyProofs.C18.Exchange
import HappyProofs.C18.StoreDeliver
import HappyProofs.C18.StoreGossip
import HappyProofs.C18.StoreJudge7
import HappyProofs.C18.TraceFinal4
import HappyProofs.C18.UnionRounds2
import HappyProofs.C18.RoundBound
import HappyProofs.C18.RoundsFull
import HappyProofs.C18.KClock
import HappyProofs.C18.ClockTrace
import HappyModel.C18.Spec
/-!
# C18 — property theorems

"For any history of local events and message exchanges, if event a happened before event b then
the Lamport and hybrid-logical timestamps of a are smaller than those of b, and vector clocks order
a before b exactly when a happened before b. For any operations and any order, duplication or
grouping of state merges, CRDT replicas that have received the same updates are equal (merge is
commutative, associative and idempotent), and their value is the specified one."

Happened-before is the causal past `Rec.K` that the model computes from the history alone:
`K(e) = {e} ∪ K(previous event of the same node) ∪ K(send event of the received message)`;
`past_transitive` shows it is transitively closed, so it is Lamport's relation →*.
-/
namespace HappyModel.C18

/-- a is in the causal past of b (reflexive happened-before) -/
def InPast (a b : Rec) : Prop := a.id ∈ b.K

/-- strict happened-before -/
def HB (a b : Rec) : Prop := a.id ∈ b.K ∧ a.id ≠ b.id

theorem inv_run (es : List Ev) : Inv (run {} es) ∧ LInv (run {} es) ∧ HInv (run {} es) :=
  all_inv es {} init_inv (sinv_init _ _ _ _) (sinv_init _ _ _ _)

/-- the causal past is transitively closed -/
theorem past_transitive (es : List Ev) (a b c : Rec)
    (ha : a ∈ (run {} es).log) (hb : b ∈ (run {} es).log) (hc : c ∈ (run {} es).log)
    (hab : InPast a b) (hbc : InPast b c) : InPast a c :=
  (inv_run es).1.clLog c hc b.id hbc b hb rfl a.id hab

/-- Lamport clocks: a → b ⇒ L(a) < L(b), for every history -/
theorem lamport_hb (es : List Ev) (a b : Rec)
    (ha : a ∈ (run {} es).log) (hb : b ∈ (run {} es).log) (h : HB a b) : a.L < b.L :=
  (inv_run es).2.1.sLog b hb a ha h.1 h.2

/-- HLC: a → b ⇒ (physical, logical)(a) < (physical, logical)(b) lexicographically, for every
    history and every behaviour of the physical clocks (the readings `pt` are arbitrary inputs) -/
theorem hlc_hb (es : List Ev) (a b : Rec)
    (ha : a ∈ (run {} es).log) (hb : b ∈ (run {} es).log) (h : HB a b) : HTs.lt a.H b.H :=
  (inv_run es).2.2.sLog b hb a ha h.1 h.2

/-- vector clocks, reflexive form: V(a) ≤ V(b) pointwise ⇔ a is in the causal past of b -/
theorem vector_iff_hb (es : List Ev) (a b : Rec)
    (ha : a ∈ (run {} es).log) (hb : b ∈ (run {} es).log) :
    Vec.le a.V b.V = true ↔ InPast a b := by
  have inv := (inv_run es).1
  generalize run {} es = s at *
  rw [Vec.le_iff]
  constructor
  · intro hle
    obtain ⟨_, a2, a3, a4⟩ := inv.logSelf a ha
    have := (inv.pLog b hb).2 a.node (Vec.get a.V a.node) a2 a3
    rw [a4] at this
    exact this.mp (hle a.node)
  · intro hin j
    have hsub : ∀ y ∈ a.K, y ∈ b.K := inv.clLog b hb a.id hin a ha rfl
    by_cases hz : Vec.get a.V j = 0
    · omega
    · have h1 : 1 ≤ Vec.get a.V j := by omega
      have h2 : Vec.get a.V j ≤ s.nev j := (inv.pLog a ha).1 j
      have ina := ((inv.pLog a ha).2 j (Vec.get a.V j) h1 h2).mp (Nat.le_refl _)
      exact ((inv.pLog b hb).2 j (Vec.get a.V j) h1 h2).mpr (hsub _ ina)

/-- vector clocks, the code's `happened_before` (all ≤ and some <) ⇔ strict happened-before -/
theorem vector_strict_iff_hb (es : List Ev) (a b : Rec)
    (ha : a ∈ (run {} es).log) (hb : b ∈ (run {} es).log) :
    vcHappenedBefore a.V b.V = true ↔ HB a b := by
  have inv := (inv_run es).1
  unfold vcHappenedBefore HB
  simp only [Bool.and_eq_true, Bool.not_eq_true']
  rw [vector_iff_hb es a b ha hb]
  constructor
  · rintro ⟨h1, h2⟩
    refine ⟨h1, ?_⟩
    intro heq
    have : Vec.le b.V a.V = true := by
      rw [vector_iff_hb es b a hb ha]
      have := (inv.logSelf b hb).1
      unfold InPast; rw [← heq] at this
      -- b.id = a.id ∈ a.K ?  we know a.id ∈ a.K
      exact heq ▸ (inv.logSelf a ha).1
    rw [this] at h2; exact absurd h2 (by simp)
  · rintro ⟨h1, h2⟩
    refine ⟨h1, ?_⟩
    cases hle : Vec.le b.V a.V with
    | false => rfl
    | true =>
      have hba : InPast b a := (vector_iff_hb es b a hb ha).mp hle
      have l1 := (inv.idLog b hb).2 a.id h1
      have l2 := (inv.idLog a ha).2 b.id hba
      exact absurd (Nat.le_antisymm l1 l2) h2

/-! ### vector clocks as dicts with arbitrary (partial, growing) key sets -/

theorem LogSim.get {ks : List KVec} {rs : List Rec} (h : LogSim ks rs) (i : Nat) (k : KVec) (r : Rec)
    (hk : ks[i]? = some k) (hr : rs[i]? = some r) : VEq k r.V := by
  induction h generalizing i with
  | nil => simp at hk
  | cons hv _ ih =>
    cases i with
    | zero => simp at hk hr; subst hk hr; exact hv
    | succ i => simp at hk hr; exact ih i hk hr

/-- the code's `happened_before` walks the union of the two key sets and reads absent entries
    as 0: it is the componentwise order, whatever the key sets are -/
theorem kvec_happened_before_spec (a b : KVec) :
    a.happenedBefore b = true ↔ (∀ k, a.get k ≤ b.get k) ∧ (∃ k, a.get k < b.get k) :=
  KVec.happenedBefore_iff a b

/-- for every membership assignment (each node constructed with any list of node ids) and every
    history, the dict clocks have the same entries as the dense vectors of `run` … -/
theorem keyed_clock_refines_vector (mem : Nat → List Nat) (es : List Ev) (n i : Nat) :
    ((krun (KSt.init mem) es).vc n).get i = Vec.get ((run {} es).vc n) i :=
  (ksim_run es _ _ (ksim_init mem)).vc n i

/-- … and their `happened_before` orders two logged events exactly when one happened before the other -/
theorem keyed_vector_strict_iff_hb (mem : Nat → List Nat) (es : List Ev) (i j : Nat)
    (ka kb : KVec) (a b : Rec)
    (hka : (krun (KSt.init mem) es).log[i]? = some ka) (ha : (run {} es).log[i]? = some a)
    (hkb : (krun (KSt.init mem) es).log[j]? = some kb) (hb : (run {} es).log[j]? = some b) :
    ka.happenedBefore kb = true ↔ HB a b := by
  have sim := (ksim_run es _ _ (ksim_init mem)).log
  rw [KVec.happenedBefore_eq_dense ka kb a.V b.V (sim.get i ka a hka ha) (sim.get j kb b hkb hb)]
  exact vector_strict_iff_hb es a b (List.mem_of_getElem? ha) (List.mem_of_getElem? hb)

/-- non-vacuity: nodes that know only themselves; the send {0:1} and its receive {1:2, 0:1} have
    different key sets and are ordered; the earlier local event of node 1 is concurrent to the send -/
example :
    let k := krun (KSt.init fun n => [n]) [.loc 1 0, .send 0 0 5, .recv 1 0 2]
    k.log = [[(1, 2), (0, 1)], [(0, 1)], [(1, 1)]] ∧
    KVec.happenedBefore [(0, 1)] [(1, 2), (0, 1)] = true ∧
    KVec.concurrent [(0, 1)] [(1, 1)] = true := by decide

/-! ### the clocks judge on the model's own transcript -/

/-- what the model reports for event `i` of a history: the three timestamps of the record and the
    dict clocks' own `happened_before` / `is_concurrent` verdicts against every event (oldest first) -/
def modelClockObs (mem : Nat → List Nat) (es : List Ev) (i : Nat) : Option Obs :=
  let logR := (run {} es).log.reverse
  let klogR := (krun (KSt.init mem) es).log.reverse
  match logR[i]?, klogR[i]? with
  | some r, some kb =>
    some ⟨r.L, r.V, r.H, klogR.map (·.happenedBefore kb), klogR.map (·.concurrent kb)⟩
  | _, _ => none

theorem judgePair_model (es : List Ev) (ra rb : Rec) (ha : ra ∈ (run {} es).log)
    (hb : rb ∈ (run {} es).log) (ka kb : KVec) (va : VEq ka ra.V) (vb : VEq kb rb.V)
    (KL : List KVec) (hka : KL[ra.id]? = some ka) (hA cA : List Bool) :
    judgePair ra rb ⟨ra.L, ra.V, ra.H, hA, cA⟩
      ⟨rb.L, rb.V, rb.H, KL.map (·.happenedBefore kb), KL.map (·.concurrent kb)⟩ = none := by
  by_cases hne : ra.id = rb.id
  · simp [judgePair, hne]
  · have hne' : ¬ rb.id = ra.id := fun e => hne e.symm
    have e3 : vcHappenedBefore ra.V rb.V = decide (ra.id ∈ rb.K) := by
      rw [Bool.eq_iff_iff, vector_strict_iff_hb es ra rb ha hb]
      simp [HB, hne]
    have e4 : vcHappenedBefore rb.V ra.V = decide (rb.id ∈ ra.K) := by
      rw [Bool.eq_iff_iff, vector_strict_iff_hb es rb ra hb ha]
      simp [HB, hne']
    have e1 : ka.happenedBefore kb = decide (ra.id ∈ rb.K) := by
      rw [KVec.happenedBefore_eq_dense ka kb ra.V rb.V va vb, e3]
    have e2 : kb.happenedBefore ka = decide (rb.id ∈ ra.K) := by
      rw [KVec.happenedBefore_eq_dense kb ka rb.V ra.V vb va, e4]
    have hidx1 : (KL.map (·.happenedBefore kb))[ra.id]? = some (decide (ra.id ∈ rb.K)) := by
      simp [List.getElem?_map, hka, e1]
    have hidx2 : (KL.map (·.concurrent kb))[ra.id]? =
        some (!decide (ra.id ∈ rb.K) && !decide (rb.id ∈ ra.K)) := by
      simp [List.getElem?_map, hka, KVec.concurrent, e1, e2]
    by_cases hp : ra.id ∈ rb.K
    · have hL := lamport_hb es ra rb ha hb ⟨hp, hne⟩
      have hH := hlc_hb es ra rb ha hb ⟨hp, hne⟩
      have hH' : HTs.ltb ra.H rb.H = true := by
        simp only [HTs.lt] at hH
        simp only [HTs.ltb, Bool.or_eq_true, Bool.and_eq_true, decide_eq_true_eq, beq_iff_eq]
        exact hH
      have hf : rb.id ∉ ra.K := by
        intro hq
        have inv := (inv_run es).1
        have l1 := (inv.idLog rb hb).2 ra.id hp
        have l2 := (inv.idLog ra ha).2 rb.id hq
        exact hne (Nat.le_antisymm l1 l2)
      simp [judgePair, hne, hp, hL, hH', e3, hidx1, hidx2, hf]
    · simp [judgePair, hne, hp, e3, hidx1, hidx2]

/-- the clocks judge accepts the model's own transcript: for every membership assignment and every
    history, all clauses (Lamport, HLC, vector order on the reported vectors, the clocks' own
    `happened_before` and `is_concurrent` verdicts) hold of what the model reports -/
theorem clocks_trace_satisfies_spec (mem : Nat → List Nat) (es : List Ev) :
    judgeClocks (run {} es).log.reverse (modelClockObs mem es) = none := by
  obtain ⟨P, z⟩ := zinv_run es {} (KSt.init mem) [] (zinv_init mem) (ksim_init mem)
  have hlog : (run {} es).log.reverse = P.map (·.1) := by rw [z.log]; simp
  have hklog : (krun (KSt.init mem) es).log.reverse = P.map (·.2) := by rw [z.klog]; simp
  have hfind : ∀ r ∈ P.map (·.1), ∃ kv, P[r.id]? = some (r, kv) := by
    intro r hr
    obtain ⟨⟨r', kv⟩, hm, rfl⟩ := List.mem_map.mp hr
    obtain ⟨i, hi⟩ := List.getElem?_of_mem hm
    have := (z.pos i r' kv hi).1
    exact ⟨kv, by simp only; rw [this]; exact hi⟩
  have hobs : ∀ (r : Rec) (kv : KVec), P[r.id]? = some (r, kv) →
      modelClockObs mem es r.id =
        some ⟨r.L, r.V, r.H, (P.map (·.2)).map (·.happenedBefore kv), (P.map (·.2)).map (·.concurrent kv)⟩ := by
    intro r kv h
    simp [modelClockObs, hlog, hklog, List.getElem?_map, h]
  have hmem : ∀ r ∈ P.map (·.1), r ∈ (run {} es).log := by
    intro r hr
    rw [← hlog] at hr
    exact List.mem_reverse.mp hr
  unfold judgeClocks
  rw [hlog, List.findSome?_eq_none_iff]
  intro ra hra
  rw [List.findSome?_eq_none_iff]
  intro rb hrb
  obtain ⟨ka, hka⟩ := hfind ra hra
  obtain ⟨kb, hkb⟩ := hfind rb hrb
  rw [hobs ra ka hka, hobs rb kb hkb]
  simp only
  exact judgePair_model es ra rb (hmem ra hra) (hmem rb hrb) ka kb (z.pos _ _ _ hka).2
    (z.pos _ _ _ hkb).2 (P.map (·.2)) (by simp [List.getElem?_map, hka]) _ _

/-- non-vacuity: the model's observations for a history with a receive under self-only membership -/
example :
    (modelClockObs (fun n => [n]) [.loc 1 0, .send 0 0 5, .recv 1 0 2] 2).map (fun o => (o.L, o.V, o.hbIn, o.ccIn))
      = some (2, [1, 2], [true, true, false], [false, false, true]) := by decide

/-! ### CRDT merge laws -/

theorem pn_merge_comm (a b : PN) : a.merge b = b.merge a := by
  simp [PN.merge, Vec.vmax_comm a.p b.p, Vec.vmax_comm a.n b.n]

theorem pn_merge_assoc (a b c : PN) : (a.merge b).merge c = a.merge (b.merge c) := by
  simp [PN.merge, Vec.vmax_assoc]

theorem pn_merge_idem (a : PN) : a.merge a = a := by
  simp [PN.merge, Vec.vmax_idem]

/-! #### OR-set

`ents` and `tomb` are duplicate-free lists used as sets and `seq` is the replica-local tag counter,
so the laws are extensional (`ORSet.Equiv`: same live entries, same tombstones — hence the same
`has`, `ORSet.Equiv.has_eq`). -/

theorem orset_merge_comm (a b : ORSet) : (a.merge b).Equiv (b.merge a) :=
  ORSet.merge_comm_equiv a b

theorem orset_merge_assoc (a b c : ORSet) : ((a.merge b).merge c).Equiv (a.merge (b.merge c)) :=
  ORSet.merge_assoc_equiv a b c

/-- idempotence, for sets whose live entries are not tombstoned; every reachable replica state is
    such a set (`orset_reachable_wf`) -/
theorem orset_merge_idem (a : ORSet) (h : a.WF) : (a.merge a).Equiv a :=
  ORSet.merge_idem_equiv a h

theorem orset_reachable_wf (ops : List COp) (r : Nat) : ((Sys.run Sys.init ops).rep r).os.WF := by
  obtain ⟨_, _, _, tg, h⟩ := crdtInv_run ops
  exact oinv_wf _ _ tg h r

/-- membership is what the laws are about -/
theorem orset_merge_has (a b c : ORSet) (x : Nat) :
    (a.merge b).has x = (b.merge a).has x ∧
    ((a.merge b).merge c).has x = (a.merge (b.merge c)).has x ∧
    (a.WF → (a.merge a).has x = a.has x) :=
  ⟨(orset_merge_comm a b).has_eq x, (orset_merge_assoc a b c).has_eq x,
   fun h => (orset_merge_idem a h).has_eq x⟩

/-- non-vacuity: three reachable, pairwise different OR-sets (adds, a remove and merges) -/
example :
    let s := Sys.run Sys.init [.oadd 0 7, .oadd 1 7, .merge 2 0, .orem 2 7, .oadd 1 8, .merge 0 2,
      .merge 2 1, .oadd 0 9]
    let a := (s.rep 0).os; let b := (s.rep 1).os; let c := (s.rep 2).os
    a.WF ∧ a.tomb ≠ [] ∧ b.ents.length = 2 ∧ a ≠ b ∧ b ≠ c ∧
    (a.merge b).ents ≠ (b.merge a).ents ∧ (a.merge b).has 7 = true ∧ (a.merge c).has 8 = true := by
  decide

/-- the well-formedness hypothesis of idempotence cannot be dropped for arbitrary values -/
example : ¬ ((ORSet.mk 1 [(5, ⟨0, 0⟩)] [⟨0, 0⟩]).merge (ORSet.mk 1 [(5, ⟨0, 0⟩)] [⟨0, 0⟩])).has 5
    = (ORSet.mk 1 [(5, ⟨0, 0⟩)] [⟨0, 0⟩]).has 5 := by decide

/-! #### LWW register -/

/-- commutativity, when equal timestamps carry equal values -/
theorem lww_merge_comm (a b : LWW) (h : LWW.Coherent a b) : a.merge b = b.merge a :=
  LWW.merge_comm' a b h

/-- associativity holds without the coherence hypothesis -/
theorem lww_merge_assoc (a b c : LWW) : (a.merge b).merge c = a.merge (b.merge c) :=
  LWW.merge_assoc' a b c

theorem lww_merge_idem (a : LWW) : a.merge a = a := LWW.merge_idem' a

/-- non-vacuity: coherent registers with different timestamps -/
example : LWW.Coherent ⟨some (⟨3, 0, 1⟩, 10)⟩ ⟨some (⟨3, 1, 0⟩, 20)⟩ ∧
    (LWW.merge ⟨some (⟨3, 0, 1⟩, 10)⟩ ⟨some (⟨3, 1, 0⟩, 20)⟩).cur = some (⟨3, 1, 0⟩, 20) := by
  refine ⟨fun t va vb h1 h2 => ?_, by decide⟩
  cases h1; cases h2

/-- without coherence commutativity fails: two writes with the same timestamp and different
    values — each side keeps its own -/
theorem lww_merge_not_comm_incoherent :
    LWW.merge ⟨some (⟨3, 0, 1⟩, 10)⟩ ⟨some (⟨3, 0, 1⟩, 20)⟩ ≠
    LWW.merge ⟨some (⟨3, 0, 1⟩, 20)⟩ ⟨some (⟨3, 0, 1⟩, 10)⟩ := by decide

/-! ### CRDT values are the specified ones

`SpecSys` (HappyModel/C18/Spec.lean) records every update operation with the set of operation ids
its replica had seen (`K`), and keeps for every replica the set `know r` of update ids in its
causal past; merges only union these sets. The theorems below hold for every operation list. -/

/-- counter value = Σ seen increments − Σ seen decrements -/
theorem counter_value_spec (ops : List COp) (r : Nat) :
    ((Sys.run Sys.init ops).rep r).pn.value = (SpecSys.run {} ops).counter r :=
  cinv_value _ _ (crdtInv_run ops).2.1 r

example :
    let ops := [COp.inc 0 2, .dec 1 1, .merge 1 0, .inc 1 3, .merge 0 1, .merge 0 1, .dec 2 4]
    ((Sys.run Sys.init ops).rep 0).pn.value = 4 ∧ (SpecSys.run {} ops).counter 0 = 4 ∧
    ((Sys.run Sys.init ops).rep 2).pn.value = -4 := by decide

/-- the OR-set contains x exactly when some seen add of x was not observed by a seen remove of x -/
theorem orset_spec (ops : List COp) (r x : Nat) :
    ((Sys.run Sys.init ops).rep r).os.has x = (SpecSys.run {} ops).orHas r x := by
  obtain ⟨_, _, _, tg, h⟩ := crdtInv_run ops
  exact oinv_has _ _ tg h r x

/-- non-vacuity: a concurrent add survives a remove (7 at replica 0), an observed add does not
    (7 at replica 2 before the last merge), on both sides of the equation -/
example :
    let ops := [COp.oadd 0 7, .oadd 1 7, .merge 2 0, .orem 2 7, .merge 0 2, .merge 0 1, .merge 2 0]
    let ops' := [COp.oadd 0 7, .oadd 1 7, .merge 2 0, .orem 2 7, .merge 0 2]
    ((Sys.run Sys.init ops).rep 0).os.has 7 = true ∧ (SpecSys.run {} ops).orHas 0 7 = true ∧
    ((Sys.run Sys.init ops').rep 0).os.has 7 = false ∧ (SpecSys.run {} ops').orHas 0 7 = false := by
  decide

/-- the register holds a seen write that no seen write beats (`none` iff nothing was seen);
    no hypothesis on the timestamps is needed for this direction -/
theorem lww_spec (ops : List COp) (r : Nat) :
    (SpecSys.run {} ops).lwwOk r ((Sys.run Sys.init ops).rep r).lww.cur = true :=
  (SpecSys.lwwOk_iff _ _ _).mpr ((crdtInv_run ops).2.2.1 r)

example :
    let ops := [COp.lset 0 10 5 0 0, .lset 1 20 5 1 1, .merge 0 1, .lset 2 30 4 9 2, .merge 0 2,
      .merge 2 0]
    ((Sys.run Sys.init ops).rep 2).lww.cur = some (⟨5, 1, 1⟩, 20) ∧
    (SpecSys.run {} ops).writes 2 = [(⟨4, 9, 2⟩, 30), (⟨5, 1, 1⟩, 20), (⟨5, 0, 0⟩, 10)] := by decide

/-- replicas that have received the same updates have equal values: same counter value, same
    OR-set members, and — when equal timestamps carry equal values — the same register content -/
theorem same_updates_equal_values (ops : List COp) (r1 r2 : Nat)
    (h : SameSet ((SpecSys.run {} ops).know r1) ((SpecSys.run {} ops).know r2)) :
    ((Sys.run Sys.init ops).rep r1).pn.value = ((Sys.run Sys.init ops).rep r2).pn.value ∧
    (∀ x, ((Sys.run Sys.init ops).rep r1).os.has x = ((Sys.run Sys.init ops).rep r2).os.has x) ∧
    (OpsCoherent ops →
      ((Sys.run Sys.init ops).rep r1).lww.cur = ((Sys.run Sys.init ops).rep r2).lww.cur) := by
  refine ⟨?_, fun x => ?_, fun hc => ?_⟩
  · rw [counter_value_spec, counter_value_spec]; exact counter_congr _ r1 r2 h
  · rw [orset_spec, orset_spec]; exact orHas_congr _ r1 r2 h x
  · exact best_unique ops hc r1 r2 h _ _ ((crdtInv_run ops).2.2.1 r1) ((crdtInv_run ops).2.2.1 r2)

/-- non-vacuity: after merging in both directions two replicas know the same updates (in a
    different order), the operations are coherent, and the knowledge is not trivial -/
example :
    let ops := [COp.oadd 0 5, .inc 1 2, .lset 0 9 3 0 0, .lset 1 8 3 0 1, .merge 0 1, .merge 1 0]
    let t := SpecSys.run {} ops
    SameSet (t.know 0) (t.know 1) ∧ t.know 0 ≠ t.know 1 ∧ (t.know 0).length = 4 ∧
    OpsCoherent ops := by decide

/-- without coherent timestamps the register part fails: same updates, different contents -/
example :
    let ops := [COp.lset 0 10 3 0 0, .lset 1 20 3 0 0, .merge 0 1, .merge 1 0]
    SameSet ((SpecSys.run {} ops).know 0) ((SpecSys.run {} ops).know 1) ∧
    ((Sys.run Sys.init ops).rep 0).lww.cur ≠ ((Sys.run Sys.init ops).rep 1).lww.cur := by decide

/-! ### CRDTStore replicas (gossip of serialised state)

The store model (`HappyModel/C18/Store.lean`, variant `repaired`) keeps one replica system per key:
entity `s < n` is store `s`'s CRDT for the key, entity `n + m` is the serialised copy inside gossip
message `m`.  `store_refines_replicas` shows that, for every script of client writes, gossip ticks
and deliveries (any order, duplication, loss), this *is* a run of the replica system above over the
operations `storeOps … k`; so every store — and every message in flight — has the specified value
of the updates it has received, and stores that have received the same updates agree. -/

/-- the replica operations of key `k` in a store run -/
def storeOps (kind : Kind) (n : Nat) (peers : List (List Nat)) (steps : List SStep) (k : Nat) :
    List COp :=
  keyOps k (PSt.ops .repaired kind { n := n, peers := peers } steps)

/-- the CRDT of key `k` at entity `e` (store `e < n`, message `e - n`) after a store run -/
def storeRep (kind : Kind) (n : Nat) (peers : List (List Nat)) (steps : List SStep) (e k : Nat) :
    Rep :=
  ((sysAt (SSt.run .repaired kind (SSt.init n peers) steps).sys k).rep e)

theorem store_refines_replicas (kind : Kind) (n : Nat) (peers : List (List Nat))
    (steps : List SStep) (e k : Nat) :
    storeRep kind n peers steps e k = (Sys.run Sys.init (storeOps kind n peers steps k)).rep e := by
  unfold storeRep storeOps
  rw [sysAt_run, runX_base _ _ _ (ops_base kind _ steps)]
  simp [SSt.init, sysAt_nil]

/-- store counters: value = received increments − received decrements -/
theorem store_counter_value_spec (kind : Kind) (n : Nat) (peers : List (List Nat))
    (steps : List SStep) (e k : Nat) :
    (storeRep kind n peers steps e k).pn.value =
      (SpecSys.run {} (storeOps kind n peers steps k)).counter e := by
  rw [store_refines_replicas]; exact counter_value_spec _ e

/-- store OR-sets: x is present exactly when a received add of x is not observed by a received remove -/
theorem store_orset_spec (kind : Kind) (n : Nat) (peers : List (List Nat))
    (steps : List SStep) (e k x : Nat) :
    (storeRep kind n peers steps e k).os.has x =
      (SpecSys.run {} (storeOps kind n peers steps k)).orHas e x := by
  rw [store_refines_replicas]; exact orset_spec _ e x

/-- store registers hold a received write that no received write beats -/
theorem store_lww_spec (kind : Kind) (n : Nat) (peers : List (List Nat))
    (steps : List SStep) (e k : Nat) :
    (SpecSys.run {} (storeOps kind n peers steps k)).lwwOk e (storeRep kind n peers steps e k).lww.cur
      = true := by
  rw [store_refines_replicas]; exact lww_spec _ e

/-- stores that have received the same updates of a key report the same value for it -/
theorem store_same_updates_equal_values (kind : Kind) (n : Nat) (peers : List (List Nat))
    (steps : List SStep) (e1 e2 k : Nat)
    (h : SameSet ((SpecSys.run {} (storeOps kind n peers steps k)).know e1)
                 ((SpecSys.run {} (storeOps kind n peers steps k)).know e2)) :
    (storeRep kind n peers steps e1 k).pn.value = (storeRep kind n peers steps e2 k).pn.value ∧
    (∀ x, (storeRep kind n peers steps e1 k).os.has x = (storeRep kind n peers steps e2 k).os.has x) ∧
    (OpsCoherent (storeOps kind n peers steps k) →
      (storeRep kind n peers steps e1 k).lww.cur = (storeRep kind n peers steps e2 k).lww.cur) := by
  rw [store_refines_replicas, store_refines_replicas]
  exact same_updates_equal_values _ e1 e2 h

/-- non-vacuity: two stores write the same key concurrently, one of them adopts it from the other's
    push first; after a push / response exchange both have received all three updates (in a different
    order) and read 10 -/
example :
    let steps := [SStep.w 0 0 (.inc 5), .tick 0 0, .dl 0, .w 1 0 (.inc 3), .w 0 0 (.inc 2),
      .tick 1 0, .dl 2, .dl 3]
    let t := SpecSys.run {} (storeOps .pn 2 [[1], [0]] steps 0)
    storeOps .pn 2 [[1], [0]] steps 0 =
      [.inc 0 5, .merge 2 0, .merge 1 2, .merge 3 1, .inc 1 3, .inc 0 2, .merge 4 1, .merge 0 4,
       .merge 5 0, .merge 1 5] ∧
    SameSet (t.know 0) (t.know 1) ∧ t.know 0 ≠ t.know 1 ∧ SameSet (t.know 0) (t.know 5) ∧
    (storeRep .pn 2 [[1], [0]] steps 0 0).pn.value = 10 := by decide

/-- the code before `fixes/C18-store-adopts-remote-node-id.diff` (variant `current`): the adopted
    counter keeps the sender's node id, store 1's increment lands in store 0's slot and is lost —
    both stores read 8 although increments − decrements = 10 -/
theorem store_adoption_current_loses_increment :
    let steps := [SStep.w 0 0 (.inc 5), .tick 0 0, .dl 0, .w 1 0 (.inc 3), .w 0 0 (.inc 2),
      .tick 1 0, .dl 2, .dl 3]
    let cur := SSt.run .current .pn (SSt.init 2 [[1], [0]]) steps
    ((sysAt cur.sys 0).rep 0).pn.value = 8 ∧ ((sysAt cur.sys 0).rep 1).pn.value = 8 ∧
    (SpecSys.run {} (storeOps .pn 2 [[1], [0]] steps 0)).counter 0 = 10 ∧
    (storeRep .pn 2 [[1], [0]] steps 0 0).pn.value = 10 := by decide

/-! #### store merge = per-key CRDT merge, adoption = merge into the empty CRDT -/

/-- extensional equality of one key's CRDT -/
def Rep.Equiv (a b : Rep) : Prop := a.pn = b.pn ∧ a.lww = b.lww ∧ a.os.Equiv b.os

/-- what a delivery does to a key of the receiving store -/
theorem sys_merge_is_rep_merge (s : Sys) (d sr : Nat) :
    (s.step (.merge d sr)).rep d = Rep.merge (s.rep d) (s.rep sr) := by
  simp [Sys.step, Sys.set, Rep.merge]

theorem rep_merge_comm (a b : Rep) (h : LWW.Coherent a.lww b.lww) :
    (Rep.merge a b).Equiv (Rep.merge b a) :=
  ⟨pn_merge_comm _ _, lww_merge_comm _ _ h, orset_merge_comm _ _⟩

theorem rep_merge_assoc (a b c : Rep) :
    (Rep.merge (Rep.merge a b) c).Equiv (Rep.merge a (Rep.merge b c)) :=
  ⟨pn_merge_assoc _ _ _, lww_merge_assoc _ _ _, orset_merge_assoc _ _ _⟩

theorem rep_merge_idem (a : Rep) (h : a.os.WF) : (Rep.merge a a).Equiv a :=
  ⟨pn_merge_idem _, lww_merge_idem _, orset_merge_idem _ h⟩

/-- adoption (repaired): a key the store does not hold becomes the empty CRDT of the store merged
    with the remote state — the remote value, under the store's own identity (`seq = 0`: the
    store has issued no tag of its own yet) -/
theorem rep_adopt (r : Rep) (h : r.os.WF) :
    (Rep.merge {} r).Equiv r ∧ (Rep.merge {} r).os.seq = 0 := by
  refine ⟨⟨?_, ?_, ?_, ?_⟩, rfl⟩
  · simp [Rep.merge, PN.merge]
  · cases r with
    | mk pn lww os =>
      cases lww with
      | mk cur =>
        cases cur with
        | none => rfl
        | some tv => obtain ⟨t, v⟩ := tv; simp [Rep.merge, LWW.merge, LWW.set]
  · intro e
    simp only [Rep.merge, ORSet.mem_merge_ents]
    constructor
    · rintro ⟨h1 | h1, _⟩
      · simp at h1
      · exact h1
    · intro h1
      exact ⟨Or.inr h1, by simp, h e h1⟩
  · intro t
    simp [Rep.merge, ORSet.mem_merge_tomb]

example :
    let r : Rep := ⟨⟨[2, 1], [0, 1]⟩, ⟨some (⟨3, 0, 1⟩, 7)⟩, ⟨2, [(5, ⟨1, 0⟩)], [⟨1, 1⟩]⟩⟩
    r.os.WF ∧ Rep.merge {} r = ⟨r.pn, r.lww, ⟨0, r.os.ents, r.os.tomb⟩⟩ := by decide

/-- store merge = per-key CRDT merge with adoption: delivering message `m` (a push or a response,
    for the first time or again) changes the receiving store's CRDT of every key in the message to
    `Rep.merge local (copy in the message)` — the local value of a key the store does not hold yet
    is the empty CRDT — and leaves its other keys alone. (The message lists each key once and is
    addressed to a store: true of every message the protocol builds.) -/
theorem store_deliver_is_keywise_merge (kind : Kind) (st : SSt) (m : Nat) (msg : Msg)
    (hm : st.p.msgs[m]? = some msg) (k : Nat)
    (hnd : (msg.keys.map (·.1)).Nodup) (hd : msg.dst < st.p.n) :
    (sysAt (st.step .repaired kind (.dl m)).sys k).rep msg.dst =
      if k ∈ msg.keys.map (·.1) then
        Rep.merge ((sysAt st.sys k).rep msg.dst) ((sysAt st.sys k).rep (st.p.n + m))
      else (sysAt st.sys k).rep msg.dst :=
  store_deliver_keywise_aux kind st m msg hm k hnd hd

/-- non-vacuity: a push with two keys, one of them new to the receiver, which holds a third key -/
example :
    let st := SSt.run .repaired .pn (SSt.init 2 [[1], [0]])
      [.w 0 0 (.inc 5), .w 0 1 (.dec 2), .w 1 0 (.inc 1), .w 1 2 (.inc 4), .tick 0 0]
    st.p.msgs[0]? = some ⟨0, 1, true, [(0, 0), (1, 0)]⟩ ∧ st.p.holds 1 1 = false ∧
    ((sysAt (st.step .repaired .pn (.dl 0)).sys 1).rep 1).pn.value = -2 ∧
    ((sysAt (st.step .repaired .pn (.dl 0)).sys 0).rep 1).pn.value = 6 ∧
    ((sysAt (st.step .repaired .pn (.dl 0)).sys 2).rep 1).pn.value = 4 := by decide

/-! #### the store judge on the model's own transcript

`traceObs` (HappyModel/C18/StoreTrace.lean) is the judge-visible part of what `Driver.runStore`
prints: per step the messages handed to the network and the values the acting stores report.
Fed with it, the judge's bookkeeping (`JSt.advance`: what every store and every message has
received, reconstructed from the script and the observed messages only) is exactly the knowledge of
the model's replicas, after every step of every script — ticks, deliveries in any order, lossless
rounds — and every value the model reports passes the judge's value clause. -/

theorem jinv_run (kind : Kind) {n : Nat} (steps : List SStep) :
    ∀ {j : JSt} {st : SSt} {ops : List (Nat × XOp)}, JInv n j st.p ops →
    JInv n (advanceAll kind n j (traceObs kind st steps)) (SSt.run .repaired kind st steps).p
      (ops ++ PSt.ops .repaired kind st.p steps) := by
  induction steps with
  | nil => intro j st ops h; simpa [advanceAll, traceObs, SSt.run, PSt.ops] using h
  | cons x xs ih =>
    intro j st ops h
    have h1 := jinv_step kind h x ((st.p.actors x).flatMap (storeObs (st.step .repaired kind x)))
    have := ih (j := j.advance kind n (stepObs kind st x)) (st := st.step .repaired kind x) h1
    have hp : (st.step .repaired kind x).p = (st.p.step .repaired kind x).1 := rfl
    rw [hp] at this
    simpa [advanceAll, traceObs, SSt.run, PSt.ops, List.append_assoc, hp] using this

/-- the judge, reading the model's transcript, attributes to every store and every message in
    flight exactly the updates the model's replica has received -/
theorem store_judge_knows_model (kind : Kind) (n : Nat) (peers : List (List Nat))
    (steps : List SStep) (k : Nat) :
    specAt (advanceAll kind n {} (traceObs kind (SSt.init n peers) steps)).spec k =
      SpecSys.run {} (storeOps kind n peers steps k) := by
  have h0 : JInv n {} (SSt.init n peers).p [] :=
    ⟨rfl, pinv_init n peers, fun k => by simp [specAt, SpecSys.run, keyOps], rfl⟩
  have := (jinv_run kind steps h0).spec k
  simpa [storeOps, SSt.init] using this

theorem elemsOf_contains (s : ORSet) (x : Nat) : (elemsOf s).contains x = s.has x := by
  rw [Bool.eq_iff_iff, ORSet.has_iff]
  simp only [List.contains_eq_mem, decide_eq_true_eq, elemsOf, List.mem_eraseDups, mem_sortNat,
    List.mem_map]
  constructor
  · rintro ⟨⟨y, t⟩, h, rfl⟩; exact ⟨t, h⟩
  · rintro ⟨t, h⟩; exact ⟨(x, t), h, rfl⟩

/-- a replica's reported value passes the value clause of the judge against the specification run
    of the same operations -/
theorem judgeValue_replica (kind : Kind) (ops : List COp) (a : Nat) (mentioned : List Nat) :
    judgeValue kind (SpecSys.run {} ops) a (kobsOf ((Sys.run Sys.init ops).rep a)) mentioned = none := by
  cases kind with
  | g => simp [judgeValue, kobsOf, counter_value_spec]
  | pn => simp [judgeValue, kobsOf, counter_value_spec]
  | lww => simp [judgeValue, kobsOf, lww_spec]
  | os =>
    simp only [judgeValue, kobsOf]
    have : (mentioned ++ elemsOf ((Sys.run Sys.init ops).rep a).os).find?
        (fun x => (SpecSys.run {} ops).orHas a x != (elemsOf ((Sys.run Sys.init ops).rep a).os).contains x)
        = none := by
      rw [List.find?_eq_none]
      intro x _
      have h1 := elemsOf_contains ((Sys.run Sys.init ops).rep a).os x
      have h2 := orset_spec ops a x
      rw [h1, h2]
      simp
    rw [this]

/-- value clause: in every step of every script, every value the model's acting stores report is
    accepted by the judge (whose state is the one it reached by reading the transcript so far) -/
theorem store_trace_values_accepted (kind : Kind) (n : Nat) (peers : List (List Nat))
    (pre : List SStep) (x : SStep) (mentioned : List Nat) :
    let st := SSt.run .repaired kind (SSt.init n peers) pre
    let j := advanceAll kind n {} (traceObs kind (SSt.init n peers) pre)
    ∀ o ∈ (stepObs kind st x).obs,
      judgeValue kind (specAt (j.advance kind n (stepObs kind st x)).spec o.2.1) o.1 o.2.2 mentioned
        = none := by
  intro st j o ho
  have hk : ∀ k, specAt (j.advance kind n (stepObs kind st x)).spec k =
      SpecSys.run {} (storeOps kind n peers (pre ++ [x]) k) := by
    intro k
    have := store_judge_knows_model kind n peers (pre ++ [x]) k
    rw [← this]
    have hadv : ∀ (l : List SStep) (j0 : JSt) (s0 : SSt),
        advanceAll kind n j0 (traceObs kind s0 (l ++ [x])) =
          (advanceAll kind n j0 (traceObs kind s0 l)).advance kind n
            (stepObs kind (SSt.run .repaired kind s0 l) x) := by
      intro l
      induction l with
      | nil => intro j0 s0; simp [traceObs, advanceAll, SSt.run]
      | cons y ys ih => intro j0 s0; simp [traceObs, advanceAll, SSt.run, ih]
    rw [hadv]
  simp only [stepObs, List.mem_flatMap, storeObs, List.mem_map] at ho
  obtain ⟨a, _, kn, _, rfl⟩ := ho
  simp only
  rw [hk]
  have hrep : (sysAt (st.step .repaired kind x).sys kn.1).rep a =
      (Sys.run Sys.init (storeOps kind n peers (pre ++ [x]) kn.1)).rep a := by
    have := store_refines_replicas kind n peers (pre ++ [x]) a kn.1
    unfold storeRep at this
    rw [← this]
    have hrun : ∀ (l : List SStep) (s0 : SSt),
        SSt.run .repaired kind s0 (l ++ [x]) = (SSt.run .repaired kind s0 l).step .repaired kind x := by
      intro l
      induction l with
      | nil => intro s0; simp [SSt.run]
      | cons y ys ih => intro s0; simp [SSt.run, ih]
    rw [hrun]
  rw [hrep]
  exact judgeValue_replica kind _ a mentioned

/-- every step of a well-formed script (stores named by the script and by the peer lists are
    `< n`) passes all per-step clauses of the store judge on the model's own observations: gossip
    messages carry every key their sender has received an update for, stores report every key they
    have received an update for, every reported value is the specified one. `judgeStore.go` is the
    judge's loop over the steps; `none` = no violation. -/
theorem store_trace_steps_accepted (kind : Kind) (n nkeys : Nat) (mentioned : List Nat)
    (steps : List SStep) :
    ∀ {j : JSt} {st : SSt} {ops : List (Nat × XOp)} (i : Nat), TInv n j st ops →
    (∀ x ∈ steps, WFStep n x) →
    judgeStore.go kind n nkeys mentioned j i (traceObs kind st steps) =
      (advanceAll kind n j (traceObs kind st steps), none) := by
  induction steps with
  | nil => intro j st ops i _ _; simp [judgeStore.go, traceObs, advanceAll]
  | cons x xs ih =>
    intro j st ops i h hw
    obtain ⟨T, hstep⟩ := step_ok kind nkeys mentioned (fun ops a => judgeValue_replica kind ops a mentioned)
      h x (hw x List.mem_cons_self)
    simp only [traceObs, judgeStore.go, hstep, advanceAll]
    exact ih (i + 1) T (fun y hy => hw y (List.mem_cons_of_mem _ hy))

/-- … from the initial state: the whole script -/
theorem store_trace_satisfies_spec_steps (kind : Kind) (n nkeys : Nat) (peers : List (List Nat))
    (steps : List SStep) (mentioned : List Nat) (hp : WFPeers n peers) (hs : ∀ x ∈ steps, WFStep n x) :
    (judgeStore.go kind n nkeys mentioned {} 0 (traceObs kind (SSt.init n peers) steps)).2 = none := by
  rw [store_trace_steps_accepted kind n nkeys mentioned steps 0 (tinv_init n peers hp) hs]

/-- the invariant behind the two bookkeeping clauses: a store has received an update of a key only
    if it holds the key (well-formed scripts) -/
theorem store_received_only_if_held (kind : Kind) (n : Nat) (peers : List (List Nat))
    (steps : List SStep) (hp : WFPeers n peers) (hs : ∀ x ∈ steps, WFStep n x) (a k : Nat) (ha : a < n)
    (hk : (SpecSys.run {} (storeOps kind n peers steps k)).know a ≠ []) :
    (SSt.run .repaired kind (SSt.init n peers) steps).p.holds a k = true := by
  have hT : ∀ (steps : List SStep) {j : JSt} {st : SSt} {ops : List (Nat × XOp)}, TInv n j st ops →
      (∀ x ∈ steps, WFStep n x) →
      TInv n (advanceAll kind n j (traceObs kind st steps)) (SSt.run .repaired kind st steps)
        (ops ++ PSt.ops .repaired kind st.p steps) := by
    intro steps
    induction steps with
    | nil => intro j st ops h _; simpa [advanceAll, traceObs, SSt.run, PSt.ops] using h
    | cons x xs ih =>
      intro j st ops h hw
      obtain ⟨T, _⟩ := step_ok kind 0 [] (fun ops a => judgeValue_replica kind ops a [])
        h x (hw x List.mem_cons_self)
      have := ih T (fun y hy => hw y (List.mem_cons_of_mem _ hy))
      have hp' : (st.step .repaired kind x).p = (st.p.step .repaired kind x).1 := rfl
      rw [hp'] at this
      simpa [advanceAll, traceObs, SSt.run, PSt.ops, List.append_assoc, hp'] using this
  have T := hT steps (tinv_init n peers hp) hs
  refine known_held T.j T.good a k ha ?_
  rw [T.j.spec k]
  simpa [storeOps, SSt.init] using hk

/-- the full statement (not proved): the store judge returns no violation on the model's own
    transcript — all clauses, the final liveness clause included. Well-formed scripts only: stores
    named in the script and in the peer lists are `< n`, keys are `< nkeys`. -/
def store_trace_satisfies_spec_full : Prop :=
  ∀ (kind : Kind) (n nkeys : Nat) (peers : List (List Nat)) (steps : List SStep),
    (∀ ps ∈ peers, ∀ q ∈ ps, q < n) →
    (∀ x ∈ steps, match x with
      | .w s key _ => s < n ∧ key < nkeys | .tick s _ => s < n | .round s _ => s < n | .dl _ => True) →
    judgeStore kind n nkeys peers (traceObs kind (SSt.init n peers) steps)
      ((List.range n).flatMap (storeObs (SSt.run .repaired kind (SSt.init n peers) steps))) = none

/-- the proved part: knowledge reconstruction and value clause, for every script (no
    well-formedness needed). Gap: the clauses `store/key/missing-after-update`,
    `store/gossip/state-omits-known-key` and the final clause on the model's transcript. -/
theorem store_trace_satisfies_spec_partial (kind : Kind) (n : Nat) (peers : List (List Nat))
    (pre : List SStep) (x : SStep) (mentioned : List Nat) :
    (∀ k, specAt (advanceAll kind n {} (traceObs kind (SSt.init n peers) pre)).spec k =
      SpecSys.run {} (storeOps kind n peers pre k)) ∧
    (∀ o ∈ (stepObs kind (SSt.run .repaired kind (SSt.init n peers) pre) x).obs,
      judgeValue kind
        (specAt ((advanceAll kind n {} (traceObs kind (SSt.init n peers) pre)).advance kind n
          (stepObs kind (SSt.run .repaired kind (SSt.init n peers) pre) x)).spec o.2.1)
        o.1 o.2.2 mentioned = none) :=
  ⟨fun k => store_judge_knows_model kind n peers pre k,
   store_trace_values_accepted kind n peers pre x mentioned⟩

/-! #### convergence after exchanging states, any order, any duplication -/

/-- after any operations, let the replicas of a group `R` exchange states (list `ex` of merges
    `(dst, src)`, no updates in between) such that members merge only from members and every
    member's state reaches every member (`reach`): directly or through other members — e.g. the
    gossip messages in flight — in any order, with any repetition and any additional merges. Then
    all members have received the same updates and are equal. -/
theorem exchange_all_converges (ops : List COp) (R : List Nat) (ex : List (Nat × Nat))
    (closed : ∀ e ∈ ex, e.1 ∈ R → e.2 ∈ R)
    (full : ∀ a ∈ R, ∀ b ∈ R, b ∈ reach ex [a]) (a b : Nat) (ha : a ∈ R) (hb : b ∈ R) :
    let s := Sys.run Sys.init (ops ++ merges ex)
    (s.rep a).pn.value = (s.rep b).pn.value ∧ (∀ x, (s.rep a).os.has x = (s.rep b).os.has x) ∧
    (OpsCoherent (ops ++ merges ex) → (s.rep a).lww.cur = (s.rep b).lww.cur) := by
  apply same_updates_equal_values
  rw [SpecSys.run_append]
  exact exchange_same_knowledge _ R ex closed full a ha b hb

/-- the same for stores: if the replica operations of key `k` end in an exchange (gossip ticks and
    deliveries emit merges only) that is full for a group of stores and messages, the stores of
    the group agree on the key -/
theorem store_exchange_converges (kind : Kind) (n : Nat) (peers : List (List Nat))
    (steps : List SStep) (k : Nat) (ops : List COp) (R : List Nat) (ex : List (Nat × Nat))
    (hsplit : storeOps kind n peers steps k = ops ++ merges ex)
    (closed : ∀ e ∈ ex, e.1 ∈ R → e.2 ∈ R)
    (full : ∀ a ∈ R, ∀ b ∈ R, b ∈ reach ex [a]) (a b : Nat) (ha : a ∈ R) (hb : b ∈ R) :
    (storeRep kind n peers steps a k).pn.value = (storeRep kind n peers steps b k).pn.value ∧
    (∀ x, (storeRep kind n peers steps a k).os.has x = (storeRep kind n peers steps b k).os.has x) ∧
    (OpsCoherent (ops ++ merges ex) →
      (storeRep kind n peers steps a k).lww.cur = (storeRep kind n peers steps b k).lww.cur) := by
  rw [store_refines_replicas, store_refines_replicas, hsplit]
  exact exchange_all_converges ops R ex closed full a b ha hb

/-- liveness of gossip: let a script end in a gossip-only phase `suf` (ticks, deliveries, lossless
    rounds — no client write), whatever happened and was lost before (`pre`). The phase is, for
    every key, an exchange of states (`gossipPairs`: the merges it performs, through the messages
    it builds); if inside a group `R` of stores and messages every member's state reaches every
    member, the stores of the group end up equal. -/
def gossipPairs (kind : Kind) (n : Nat) (peers : List (List Nat)) (pre suf : List SStep) (k : Nat) :
    List (Nat × Nat) :=
  mergePairs (keyOps k (PSt.ops .repaired kind
    (PSt.runP .repaired kind { n := n, peers := peers } pre) suf))

theorem store_gossip_phase_converges (kind : Kind) (n : Nat) (peers : List (List Nat))
    (pre suf : List SStep) (k : Nat) (hg : ∀ x ∈ suf, x.isGossip = true) (R : List Nat)
    (closed : ∀ e ∈ gossipPairs kind n peers pre suf k, e.1 ∈ R → e.2 ∈ R)
    (full : ∀ a ∈ R, ∀ b ∈ R, b ∈ reach (gossipPairs kind n peers pre suf k) [a])
    (a b : Nat) (ha : a ∈ R) (hb : b ∈ R) :
    (storeRep kind n peers (pre ++ suf) a k).pn.value = (storeRep kind n peers (pre ++ suf) b k).pn.value ∧
    (∀ x, (storeRep kind n peers (pre ++ suf) a k).os.has x =
          (storeRep kind n peers (pre ++ suf) b k).os.has x) ∧
    (OpsCoherent (storeOps kind n peers pre k ++ merges (gossipPairs kind n peers pre suf k)) →
      (storeRep kind n peers (pre ++ suf) a k).lww.cur =
      (storeRep kind n peers (pre ++ suf) b k).lww.cur) := by
  have hsplit : storeOps kind n peers (pre ++ suf) k =
      storeOps kind n peers pre k ++ merges (gossipPairs kind n peers pre suf k) := by
    unfold storeOps gossipPairs
    rw [ops_append, keyOps_append]
    congr 1
    exact keyOps_of_merges k _ (gossip_ops_merge kind _ suf hg)
  exact store_exchange_converges kind n peers (pre ++ suf) k _ R _ hsplit closed full a b ha hb

/-- non-vacuity: both stores write, both pushes are lost; after the heal
    one lossless round per store: every store's state reaches every store -/
example :
    let pre := [SStep.w 0 0 (.inc 5), .w 1 0 (.inc 2), .tick 0 0, .tick 1 0]
    let suf := [SStep.round 0 0, .round 1 0]
    let ex := gossipPairs .g 2 [[1], [0]] pre suf 0
    ex = [(4, 0), (1, 4), (5, 1), (0, 5), (6, 1), (0, 6), (7, 0), (1, 7)] ∧
    (∀ x ∈ suf, x.isGossip = true) ∧
    (∀ a ∈ [0, 1], ∀ b ∈ [0, 1], b ∈ reach ex [a]) ∧
    (storeRep .g 2 [[1], [0]] (pre ++ suf) 0 0).pn.value = 7 ∧
    (storeRep .g 2 [[1], [0]] (pre ++ suf) 1 0).pn.value = 7 := by decide

/-- non-vacuity: three stores write, then gossip in a ring with one duplicate delivery and one lost
    response; replicas 0–2 are the stores, 3… the messages; every store's state reaches every store -/
example :
    let steps := [SStep.w 0 0 (.add 1), .w 1 0 (.add 2), .w 2 0 (.rem 2), .w 2 0 (.add 3),
      .tick 0 0, .dl 0, .tick 1 1, .dl 2, .dl 2, .tick 2 0, .dl 5, .dl 6, .tick 0 1, .dl 7, .dl 8,
      .tick 1 0, .dl 9, .tick 2 1, .dl 11]
    let peers := [[1, 2], [0, 2], [0, 1]]
    let ex := [(3, 0), (1, 3), (4, 1), (5, 1), (2, 5), (6, 2), (2, 5), (7, 2), (8, 2), (0, 8),
      (9, 0), (2, 9), (10, 0), (2, 10), (11, 2), (0, 11), (12, 1), (0, 12), (13, 0), (14, 2), (1, 14),
      (15, 1)]
    let R := List.range 16
    storeOps .os 3 peers steps 0 = [.oadd 0 1, .oadd 1 2, .orem 2 2, .oadd 2 3] ++ merges ex ∧
    (∀ e ∈ ex, e.1 ∈ R → e.2 ∈ R) ∧ (∀ a ∈ [0, 1, 2], ∀ b ∈ [0, 1, 2], b ∈ reach ex [a]) ∧
    (storeRep .os 3 peers steps 0 0).os.has 2 = true := by decide

/-- non-vacuity: a concrete history with a receive has related and unrelated pairs -/
example :
    let s := run {} [.send 0 0 5, .loc 1 1, .recv 1 0 2]
    s.log.length = 3 ∧ (s.log.map (·.K)) = [[2, 1, 0], [1], [0]] := by decide

end HappyModel.C18
