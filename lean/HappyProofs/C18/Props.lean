import HappyProofs.C18.ScalarInst
import HappyModel.C18.Spec
/-!
# C18 — property theorems

"For any history of local events and message exchanges, if event a happened before event b then
the Lamport and hybrid-logical timestamps of a are smaller than those of b, and vector clocks order
a before b exactly when a happened before b. For any operations and any order, duplication or
grouping of state merges, CRDT replicas that have received the same updates are equal (merge is
commutative, associative and idempotent), and their value is the specified one."

Happened-before is the causal past `Rec.K` that the model computes from the history alone:
`K(e) = {e} ∪ K(previous event of the same node) ∪ K(send event of the received message)`;
`past_transitive` shows it is transitively closed, so it is Lamport's relation →*.
-/
namespace HappyModel.C18

/-- a is in the causal past of b (reflexive happened-before) -/
def InPast (a b : Rec) : Prop := a.id ∈ b.K

/-- strict happened-before -/
def HB (a b : Rec) : Prop := a.id ∈ b.K ∧ a.id ≠ b.id

theorem inv_run (es : List Ev) : Inv (run {} es) ∧ LInv (run {} es) ∧ HInv (run {} es) :=
  all_inv es {} init_inv (sinv_init _ _ _ _) (sinv_init _ _ _ _)

/-- the causal past is transitively closed -/
theorem past_transitive (es : List Ev) (a b c : Rec)
    (ha : a ∈ (run {} es).log) (hb : b ∈ (run {} es).log) (hc : c ∈ (run {} es).log)
    (hab : InPast a b) (hbc : InPast b c) : InPast a c :=
  (inv_run es).1.clLog c hc b.id hbc b hb rfl a.id hab

/-- Lamport clocks: a → b ⇒ L(a) < L(b), for every history -/
theorem lamport_hb (es : List Ev) (a b : Rec)
    (ha : a ∈ (run {} es).log) (hb : b ∈ (run {} es).log) (h : HB a b) : a.L < b.L :=
  (inv_run es).2.1.sLog b hb a ha h.1 h.2

/-- HLC: a → b ⇒ (physical, logical)(a) < (physical, logical)(b) lexicographically, for every
    history and every behaviour of the physical clocks (the readings `pt` are arbitrary inputs) -/
theorem hlc_hb (es : List Ev) (a b : Rec)
    (ha : a ∈ (run {} es).log) (hb : b ∈ (run {} es).log) (h : HB a b) : HTs.lt a.H b.H :=
  (inv_run es).2.2.sLog b hb a ha h.1 h.2

/-- vector clocks, reflexive form: V(a) ≤ V(b) pointwise ⇔ a is in the causal past of b -/
theorem vector_iff_hb (es : List Ev) (a b : Rec)
    (ha : a ∈ (run {} es).log) (hb : b ∈ (run {} es).log) :
    Vec.le a.V b.V = true ↔ InPast a b := by
  have inv := (inv_run es).1
  generalize run {} es = s at *
  rw [Vec.le_iff]
  constructor
  · intro hle
    obtain ⟨_, a2, a3, a4⟩ := inv.logSelf a ha
    have := (inv.pLog b hb).2 a.node (Vec.get a.V a.node) a2 a3
    rw [a4] at this
    exact this.mp (hle a.node)
  · intro hin j
    have hsub : ∀ y ∈ a.K, y ∈ b.K := inv.clLog b hb a.id hin a ha rfl
    by_cases hz : Vec.get a.V j = 0
    · omega
    · have h1 : 1 ≤ Vec.get a.V j := by omega
      have h2 : Vec.get a.V j ≤ s.nev j := (inv.pLog a ha).1 j
      have ina := ((inv.pLog a ha).2 j (Vec.get a.V j) h1 h2).mp (Nat.le_refl _)
      exact ((inv.pLog b hb).2 j (Vec.get a.V j) h1 h2).mpr (hsub _ ina)

/-- vector clocks, the code's `happened_before` (all ≤ and some <) ⇔ strict happened-before -/
theorem vector_strict_iff_hb (es : List Ev) (a b : Rec)
    (ha : a ∈ (run {} es).log) (hb : b ∈ (run {} es).log) :
    vcHappenedBefore a.V b.V = true ↔ HB a b := by
  have inv := (inv_run es).1
  unfold vcHappenedBefore HB
  simp only [Bool.and_eq_true, Bool.not_eq_true']
  rw [vector_iff_hb es a b ha hb]
  constructor
  · rintro ⟨h1, h2⟩
    refine ⟨h1, ?_⟩
    intro heq
    have : Vec.le b.V a.V = true := by
      rw [vector_iff_hb es b a hb ha]
      have := (inv.logSelf b hb).1
      unfold InPast; rw [← heq] at this
      -- b.id = a.id ∈ a.K ?  we know a.id ∈ a.K
      exact heq ▸ (inv.logSelf a ha).1
    rw [this] at h2; exact absurd h2 (by simp)
  · rintro ⟨h1, h2⟩
    refine ⟨h1, ?_⟩
    cases hle : Vec.le b.V a.V with
    | false => rfl
    | true =>
      have hba : InPast b a := (vector_iff_hb es b a hb ha).mp hle
      have l1 := (inv.idLog b hb).2 a.id h1
      have l2 := (inv.idLog a ha).2 b.id hba
      exact absurd (Nat.le_antisymm l1 l2) h2

/-! ### CRDT merge laws -/

theorem pn_merge_comm (a b : PN) : a.merge b = b.merge a := by
  simp [PN.merge, Vec.vmax_comm a.p b.p, Vec.vmax_comm a.n b.n]

theorem pn_merge_assoc (a b c : PN) : (a.merge b).merge c = a.merge (b.merge c) := by
  simp [PN.merge, Vec.vmax_assoc]

theorem pn_merge_idem (a : PN) : a.merge a = a := by
  simp [PN.merge, Vec.vmax_idem]

/-- non-vacuity: a concrete history with a receive has related and unrelated pairs -/
example :
    let s := run {} [.send 0 0 5, .loc 1 1, .recv 1 0 2]
    s.log.length = 3 ∧ (s.log.map (·.K)) = [[2, 1, 0], [1], [0]] := by decide

end HappyModel.C18
