import HappyProofs.C18.CounterSpec
import HappyProofs.C18.LwwSpec
import HappyProofs.C18.OrsetStep
/-!
All invariants along a run, and: the specified values depend on the knowledge set only as a set.
-/
namespace HappyModel.C18

def CrdtInv (s : Sys) (t : SpecSys) : Prop := CInv s t ∧ WInv s t ∧ OInvE s t

theorem crdtInv_run (ops : List COp) :
    SpecInv (SpecSys.run {} ops) ∧ CrdtInv (Sys.run Sys.init ops) (SpecSys.run {} ops) :=
  run_ind CrdtInv
    (fun s t o hi h => ⟨cinv_step s t o hi h.1, winv_step s t o hi h.2.1, oinve_step s t o hi h.2.2⟩)
    ops Sys.init {} specInv_init ⟨cinv_init, winv_init, ⟨_, oinv_init⟩⟩

/-- same members -/
def SameSet (A B : List Nat) : Prop := (∀ x ∈ A, x ∈ B) ∧ (∀ x ∈ B, x ∈ A)

instance (A B : List Nat) : Decidable (SameSet A B) := by unfold SameSet; exact inferInstance

theorem SameSet.iff {A B : List Nat} (h : SameSet A B) (x : Nat) : x ∈ A ↔ x ∈ B :=
  ⟨h.1 x, h.2 x⟩

theorem counter_congr (t : SpecSys) (r1 r2 : Nat) (h : SameSet (t.know r1) (t.know r2)) :
    t.counter r1 = t.counter r2 := by
  rw [SpecSys.counter_eq, SpecSys.counter_eq,
    wsum_congr wIncAll t.recs _ _ (fun rc _ _ => h.iff rc.id),
    wsum_congr wDecAll t.recs _ _ (fun rc _ _ => h.iff rc.id)]

theorem seen_congr (t : SpecSys) (r1 r2 : Nat) (h : SameSet (t.know r1) (t.know r2)) (a : OpRec) :
    Seen t r1 a ↔ Seen t r2 a := by
  unfold Seen; rw [h.iff]

theorem orHas_congr (t : SpecSys) (r1 r2 : Nat) (h : SameSet (t.know r1) (t.know r2)) (x : Nat) :
    t.orHas r1 x = t.orHas r2 x := by
  rw [Bool.eq_iff_iff, SpecSys.orHas_iff, SpecSys.orHas_iff]
  simp only [seen_congr t r1 r2 h]

theorem writes_congr (t : SpecSys) (r1 r2 : Nat) (h : SameSet (t.know r1) (t.know r2))
    (w : Ts × Nat) : w ∈ t.writes r1 ↔ w ∈ t.writes r2 := by
  rw [SpecSys.mem_writes, SpecSys.mem_writes]
  simp only [h.iff]

/-! ### coherent writes -/

/-- two operations do not write different values under the same timestamp -/
def COp.Coh : COp → COp → Prop
  | .lset _ v1 p1 l1 n1, .lset _ v2 p2 l2 n2 => p1 = p2 → l1 = l2 → n1 = n2 → v1 = v2
  | _, _ => True

instance (a b : COp) : Decidable (COp.Coh a b) := by
  cases a <;> cases b <;> simp only [COp.Coh] <;> exact inferInstance

/-- equal timestamps carry equal values, over a whole operation list -/
def OpsCoherent (ops : List COp) : Prop := ∀ a ∈ ops, ∀ b ∈ ops, COp.Coh a b

instance (ops : List COp) : Decidable (OpsCoherent ops) := by
  unfold OpsCoherent; exact inferInstance

theorem recs_from_ops (ops : List COp) (t : SpecSys) :
    ∀ rc ∈ (SpecSys.run t ops).recs, rc ∈ t.recs ∨ rc.op ∈ ops := by
  induction ops generalizing t with
  | nil => intro rc h; exact Or.inl h
  | cons o os ih =>
    intro rc h
    simp only [SpecSys.run] at h
    rcases ih (t.step o) rc h with h1 | h1
    · have hk := SpecSys.step_kind t o
      generalize t.step o = t' at hk h1
      cases hk with
      | noop _ => exact Or.inl h1
      | loc _ _ _ =>
        rw [SpecSys.local_recs, List.mem_cons] at h1
        rcases h1 with rfl | h1
        · exact Or.inr List.mem_cons_self
        · exact Or.inl h1
      | mrg d s _ => exact Or.inl h1
    · exact Or.inr (List.mem_cons_of_mem _ h1)

/-- under coherent operations two best writes of the same write set are equal -/
theorem best_unique (ops : List COp) (hc : OpsCoherent ops) (r1 r2 : Nat)
    (h : SameSet ((SpecSys.run {} ops).know r1) ((SpecSys.run {} ops).know r2))
    (c1 c2 : Option (Ts × Nat))
    (h1 : Best (fun w => w ∈ (SpecSys.run {} ops).writes r1) c1)
    (h2 : Best (fun w => w ∈ (SpecSys.run {} ops).writes r2) c2) : c1 = c2 := by
  have h2' : Best (fun w => w ∈ (SpecSys.run {} ops).writes r1) c2 :=
    h2.congr fun w => writes_congr _ r1 r2 h w
  cases c1 with
  | none =>
    cases c2 with
    | none => rfl
    | some tv => obtain ⟨t2, v2⟩ := tv; exact absurd h2'.1 (h1 _)
  | some tv1 =>
    obtain ⟨t1, v1⟩ := tv1
    cases c2 with
    | none => exact absurd h1.1 (h2' _)
    | some tv2 =>
      obtain ⟨t2, v2⟩ := tv2
      have et := Best.ts_eq h1 h2'
      subst et
      obtain ⟨a, ha, _, ra, hao⟩ := (SpecSys.mem_writes _ _ _).mp h1.1
      obtain ⟨b, hb, _, rb, hbo⟩ := (SpecSys.mem_writes _ _ _).mp h2'.1
      have hain : a.op ∈ ops := (recs_from_ops ops {} a ha).elim (fun h => by simp at h) id
      have hbin : b.op ∈ ops := (recs_from_ops ops {} b hb).elim (fun h => by simp at h) id
      have := hc _ hain _ hbin
      rw [hao, hbo] at this
      simp only [COp.Coh, forall_const] at this
      rw [this]

end HappyModel.C18
