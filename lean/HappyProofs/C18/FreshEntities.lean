import HappyProofs.C18.UnionRounds2
/-!
Freshness: no operation targets a message entity that has not been created yet, so such entities
have received nothing.
-/
namespace HappyModel.C18

/-- every plain operation in `ops` has its target below `b` -/
def OBnd (b : Nat) (ops : List (Nat × XOp)) : Prop :=
  ∀ e ∈ ops, ∀ o, e.2 = XOp.base o → o.origin < b

theorem OBnd.mono {b b' : Nat} {ops : List (Nat × XOp)} (h : OBnd b ops) (hb : b ≤ b') : OBnd b' ops :=
  fun e he o ho => Nat.lt_of_lt_of_le (h e he o ho) hb

theorem OBnd.append {b : Nat} {x y : List (Nat × XOp)} (hx : OBnd b x) (hy : OBnd b y) : OBnd b (x ++ y) := by
  intro e he
  rcases List.mem_append.mp he with h | h
  · exact hx e h
  · exact hy e h

theorem obnd_nil (b : Nat) : OBnd b [] := by intro e he; simp at he

theorem emit_obnd (p : PSt) (s d : Nat) (push : Bool) :
    OBnd (p.n + p.msgs.length + 1) (p.emit .repaired s d push).2 := by
  intro e he o ho
  simp only [PSt.emit, List.mem_map] at he
  obtain ⟨kn, _, rfl⟩ := he
  simp only [if_true, XOp.base.injEq] at ho
  subst ho
  simp only [COp.origin]
  omega

theorem emit_len (p : PSt) (s d : Nat) (push : Bool) :
    (p.emit .repaired s d push).1.msgs.length = p.msgs.length + 1 ∧ (p.emit .repaired s d push).1.n = p.n := by
  simp [PSt.emit]

theorem mergeKeys_obnd (p : PSt) (d m b : Nat) (keys : List (Nat × Nat)) (hd : d < b) :
    OBnd b (p.mergeKeys .repaired d m keys).2 := by
  induction keys generalizing p with
  | nil => intro e he; simp [PSt.mergeKeys] at he
  | cons kn rest ih =>
    obtain ⟨key, rn⟩ := kn
    intro e he o ho
    simp only [PSt.mergeKeys] at he
    split at he
    · simp only [List.mem_cons] at he
      rcases he with rfl | he
      · simp only [XOp.base.injEq] at ho; subst ho; exact hd
      · exact ih p e he o ho
    · simp only [List.mem_cons] at he
      rcases he with rfl | he
      · simp only [if_true, XOp.base.injEq] at ho; subst ho; exact hd
      · exact ih _ e he o ho

/-- what a phase-like piece `p ↦ r` guarantees for freshness -/
structure FStep (p : PSt) (r : PSt × List (Nat × XOp)) : Prop where
  n_eq : r.1.n = p.n
  len : p.msgs.length ≤ r.1.msgs.length
  bnd : OBnd (p.n + r.1.msgs.length) r.2

theorem fstep_id (p : PSt) : FStep p (p, []) := ⟨rfl, Nat.le_refl _, obnd_nil _⟩

theorem FStep.comp {p : PSt} {r1 r2 : PSt × List (Nat × XOp)} (h1 : FStep p r1) (h2 : FStep r1.1 r2) :
    FStep p (r2.1, r1.2 ++ r2.2) :=
  ⟨h2.n_eq.trans h1.n_eq, Nat.le_trans h1.len h2.len,
   (h1.bnd.mono (Nat.add_le_add_left h2.len _)).append (by rw [← h1.n_eq]; exact h2.bnd)⟩

theorem fstep_emit (p : PSt) (s d : Nat) (push : Bool) : FStep p (p.emit .repaired s d push) :=
  ⟨(emit_len p s d push).2, by rw [(emit_len p s d push).1]; omega,
   by rw [(emit_len p s d push).1, ← Nat.add_assoc]; exact emit_obnd p s d push⟩

theorem fstep_mergeKeys (p : PSt) (d m : Nat) (keys : List (Nat × Nat)) (hd : d < p.n) :
    FStep p (p.mergeKeys .repaired d m keys) :=
  ⟨mergeKeys_n p d m keys, by rw [(mergeKeys_msgs p d m keys).1]; exact Nat.le_refl _,
   mergeKeys_obnd p d m _ keys (by omega)⟩

theorem fstep_tickStep (p : PSt) (s j : Nat) : FStep p (p.tickStep .repaired s j) := by
  simp only [PSt.tickStep]
  split
  · exact fstep_id p
  · exact fstep_emit p s _ true

theorem fstep_dlStep (p : PSt) (m : Nat) (hlt : MsgsLt p.n p) : FStep p (p.dlStep .repaired m) := by
  cases hm : p.msgs[m]? with
  | none => rw [dlStep_none p m hm]; exact fstep_id p
  | some msg =>
    have hd := (hlt msg (List.mem_of_getElem? hm)).2
    rcases dlStep_cases p m msg hm with h | ⟨_, h⟩
    · rw [h]; exact fstep_mergeKeys p _ m _ hd
    · rw [h]; exact (fstep_mergeKeys p _ m _ hd).comp (fstep_emit _ _ _ _)

/-- freshness along one step of a well-formed script -/
theorem fstep_step (kind : Kind) {n : Nat} {j : JSt} {st : SSt} {ops : List (Nat × XOp)}
    (T : TInv n j st ops) (x : SStep) (hx : WFStep n x) :
    FStep st.p (st.p.step .repaired kind x) := by
  have hn : st.p.n = n := T.j.n_eq
  have hlt : MsgsLt st.p.n st.p := by rw [hn]; exact T.lt
  cases x with
  | w s key op =>
    have ph := step_w_phase (n := n) kind st.p s key op
    refine ⟨ph.grows.1, by rw [ph.msgs]; simp, ?_⟩
    intro e he o ho
    simp only [PSt.step, wop_repaired] at he
    cases hso : specOp kind s op with
    | none => simp [hso] at he
    | some o' =>
      simp only [hso, Option.map_some, List.mem_singleton] at he
      subst he
      simp only [XOp.base.injEq] at ho
      subst ho
      have : o'.origin = s := by
        cases op <;> simp only [specOp] at hso <;> split at hso <;> simp at hso <;> subst hso <;> rfl
      rw [this, hn]
      exact Nat.lt_of_lt_of_le hx (Nat.le_add_right _ _)
  | tick s jx => exact fstep_tickStep st.p s jx
  | dl m => exact fstep_dlStep st.p m hlt
  | round s jx =>
    simp only [PSt.step]
    have f1 := fstep_tickStep st.p s jx
    -- message bounds of the intermediate states
    have lt1 : MsgsLt n (st.p.tickStep .repaired s jx).1 := by
      cases hps : st.p.peersOf s with
      | nil => rw [tickStep_nil st.p s jx hps]; exact T.lt
      | cons q qs =>
        rw [tickStep_cons st.p s jx q qs hps]
        exact msgslt_emit T.lt s _ true hx (peer_lt T.wfp s jx q qs hps)
    have hn1 : (st.p.tickStep .repaired s jx).1.n = n := by rw [f1.n_eq]; exact hn
    have f2 := fstep_dlStep (st.p.tickStep .repaired s jx).1 st.p.msgs.length (by rw [hn1]; exact lt1)
    have lt2 : MsgsLt n ((st.p.tickStep .repaired s jx).1.dlStep .repaired st.p.msgs.length).1 := by
      cases hm : (st.p.tickStep .repaired s jx).1.msgs[st.p.msgs.length]? with
      | none => rw [dlStep_none _ _ hm]; exact lt1
      | some msg =>
        rcases phase_dlStep (n := n) _ _ msg hm (lt1 msg (List.mem_of_getElem? hm)) with ph | ⟨_, ph⟩
        · exact ph.lt lt1
        · exact ph.lt lt1
    have hn2 : ((st.p.tickStep .repaired s jx).1.dlStep .repaired st.p.msgs.length).1.n = n := by
      rw [f2.n_eq]; exact hn1
    split
    · have f3 := fstep_dlStep ((st.p.tickStep .repaired s jx).1.dlStep .repaired st.p.msgs.length).1
        (st.p.msgs.length + 1) (by rw [hn2]; exact lt2)
      exact (f1.comp f2).comp f3
    · exact (f1.comp f2).comp (fstep_id _)

/-- no operation of the model targets an entity at or above `n + (number of messages built)` -/
def Fresh (p : PSt) (ops : List (Nat × XOp)) : Prop := OBnd (p.n + p.msgs.length) ops

theorem fresh_next (kind : Kind) {n : Nat} {j : JSt} {st : SSt} {ops : List (Nat × XOp)}
    (T : TInv n j st ops) (hF : Fresh st.p ops) (x : SStep) (hx : WFStep n x) :
    Fresh (st.p.step .repaired kind x).1 (ops ++ (st.p.step .repaired kind x).2) := by
  have f := fstep_step kind T x hx
  unfold Fresh at hF ⊢
  rw [f.n_eq]
  exact (hF.mono (Nat.add_le_add_left f.len _)).append f.bnd

theorem fresh_run (kind : Kind) {n : Nat} (steps : List SStep) :
    ∀ {j : JSt} {st : SSt} {ops : List (Nat × XOp)}, TInv n j st ops → Fresh st.p ops →
      (∀ x ∈ steps, WFStep n x) →
      Fresh (SSt.run .repaired kind st steps).p (ops ++ PSt.ops .repaired kind st.p steps) := by
  induction steps with
  | nil => intro j st ops _ hF _; simpa [SSt.run, PSt.ops] using hF
  | cons x xs ih =>
    intro j st ops T hF hw
    obtain ⟨T', _⟩ := step_ok kind 0 [] (valueOK kind []) T x (hw x List.mem_cons_self)
    have hF' := fresh_next kind T hF x (hw x List.mem_cons_self)
    have := ih T' hF' (fun y hy => hw y (List.mem_cons_of_mem _ hy))
    have hp' : (st.step .repaired kind x).p = (st.p.step .repaired kind x).1 := rfl
    rw [hp'] at this
    simpa [SSt.run, PSt.ops, List.append_assoc, hp'] using this

/-- freshness invariant: after any well-formed script, a message entity that has not been created
    yet (`n + m` with `m ≥` the number of messages built so far) has received nothing, for any key -/
theorem store_fresh_entities (kind : Kind) (n : Nat) (peers : List (List Nat)) (steps : List SStep)
    (hp : WFPeers n peers) (hs : ∀ x ∈ steps, WFStep n x) (k m : Nat)
    (hm : (SSt.run .repaired kind (SSt.init n peers) steps).p.msgs.length ≤ m) :
    (SpecSys.run {} (keyOps k (PSt.ops .repaired kind (SSt.init n peers).p steps))).know (n + m) = [] := by
  have hF := fresh_run kind steps (tinv_init n peers hp) (by intro e he; simp at he) hs
  have hn : (SSt.run .repaired kind (SSt.init n peers) steps).p.n = n :=
    (tinv_run kind [] (valueOK kind []) steps (tinv_init n peers hp) hs).j.n_eq
  apply Classical.byContradiction
  intro hne
  rcases know_origin _ _ (n + m) hne with h | ⟨o, ho, hr⟩
  · exact h rfl
  · rw [mem_keyOps] at ho
    have := hF _ (by simpa using ho) o rfl
    rw [hr, hn] at this
    omega

end HappyModel.C18
