import HappyProofs.C18.StoreRefine
/-!
A delivery is a key-wise CRDT merge with adoption: delivering message `m` to its destination
changes the destination's CRDT of every key in the message to `Rep.merge local copy-in-message`
(where a key the store does not hold yet has the empty CRDT as its local value) and leaves every
other key alone — whether or not a response is built in the same step.
-/
namespace HappyModel.C18

theorem mergeKeys_n (p : PSt) (d m : Nat) (keys : List (Nat × Nat)) :
    (p.mergeKeys .repaired d m keys).1.n = p.n := by
  induction keys generalizing p with
  | nil => rfl
  | cons kn rest ih =>
    obtain ⟨key, rn⟩ := kn
    simp only [PSt.mergeKeys]
    split
    · exact ih p
    · rw [ih]

/-- the operations `_merge_remote_state` emits for key `k` -/
theorem keyX_mergeKeys (p : PSt) (d m : Nat) (keys : List (Nat × Nat)) (k : Nat)
    (hnd : (keys.map (·.1)).Nodup) :
    keyX k (p.mergeKeys .repaired d m keys).2 =
      if k ∈ keys.map (·.1) then [XOp.base (.merge d (p.n + m))] else [] := by
  induction keys generalizing p with
  | nil => simp [PSt.mergeKeys, keyX]
  | cons kn rest ih =>
    obtain ⟨key, rn⟩ := kn
    simp only [List.map_cons, List.nodup_cons] at hnd
    have hrest : ∀ p' : PSt, p'.n = p.n →
        keyX k ((key, XOp.base (.merge d (p.n + m))) :: (p'.mergeKeys .repaired d m rest).2) =
          if k ∈ (key :: rest.map (·.1)) then [XOp.base (.merge d (p.n + m))] else [] := by
      intro p' hp'
      by_cases hk : key = k
      · subst hk
        have : keyX key (p'.mergeKeys .repaired d m rest).2 = [] := by
          rw [ih p' hnd.2]; simp [hnd.1]
        simp [keyX] at this ⊢
        exact this
      · have hk' : ¬ k = key := fun e => hk e.symm
        have := ih p' hnd.2
        rw [hp'] at this
        simp only [keyX, List.filterMap_cons, hk, if_false, List.mem_cons, hk', false_or] at this ⊢
        exact this
    simp only [PSt.mergeKeys, List.map_cons]
    split
    · exact hrest p rfl
    · simp only [if_true]
      exact hrest _ rfl

theorem keyX_emit_rep (p : PSt) (s d : Nat) (push : Bool) (k : Nat) (y : Sys) (r : Nat)
    (hr : r < p.n) : (runX y (keyX k (p.emit .repaired s d push).2)).rep r = y.rep r := by
  simp only [PSt.emit, if_true]
  generalize p.keysOf s = keys
  induction keys generalizing y with
  | nil => simp [keyX, runX]
  | cons kn rest ih =>
    by_cases hk : kn.1 = k
    · simp only [keyX, List.map_cons, List.filterMap_cons, hk, if_true, runX] at ih ⊢
      rw [ih]
      simp only [Sys.stepX, Sys.step, Sys.set]
      exact upd_other _ _ _ _ (by omega)
    · simp only [keyX, List.map_cons, List.filterMap_cons, hk, if_false] at ih ⊢
      exact ih y

theorem store_deliver_keywise_aux (kind : Kind) (st : SSt) (m : Nat) (msg : Msg)
    (hm : st.p.msgs[m]? = some msg) (k : Nat)
    (hnd : (msg.keys.map (·.1)).Nodup) (hd : msg.dst < st.p.n) :
    (sysAt (st.step .repaired kind (.dl m)).sys k).rep msg.dst =
      if k ∈ msg.keys.map (·.1) then
        Rep.merge ((sysAt st.sys k).rep msg.dst) ((sysAt st.sys k).rep (st.p.n + m))
      else (sysAt st.sys k).rep msg.dst := by
  have hmk := keyX_mergeKeys st.p msg.dst m msg.keys k hnd
  have core : (runX (sysAt st.sys k) (keyX k (st.p.mergeKeys .repaired msg.dst m msg.keys).2)).rep msg.dst =
      if k ∈ msg.keys.map (·.1) then
        Rep.merge ((sysAt st.sys k).rep msg.dst) ((sysAt st.sys k).rep (st.p.n + m))
      else (sysAt st.sys k).rep msg.dst := by
    rw [hmk]
    split
    · simp [runX, Sys.stepX, Sys.step, Sys.set, Rep.merge]
    · simp [runX]
  simp only [SSt.step, sysAt_applyOps, PSt.step, PSt.dlStep, hm]
  split
  · rw [keyX_append, runX_append, keyX_emit_rep _ _ _ _ _ _ _ (by rw [mergeKeys_n]; exact hd)]
    exact core
  · exact core

end HappyModel.C18
