import HappyProofs.C18.FreshEntities
/-!
Fact (b) of `RoundFacts`: after a lossless round, a store knows only what some store knew before
(given freshness of the message entities the round creates).
-/
namespace HappyModel.C18

/-- the sources of the merges in `ops` satisfy `P` -/
def SrcAll (P : Nat → Prop) (ops : List (Nat × XOp)) : Prop :=
  ∀ e ∈ ops, ∀ dd ss, e.2 = XOp.base (.merge dd ss) → P ss

theorem SrcAll.append {P : Nat → Prop} {x y : List (Nat × XOp)} (hx : SrcAll P x) (hy : SrcAll P y) :
    SrcAll P (x ++ y) := by
  intro e he
  rcases List.mem_append.mp he with h | h
  · exact hx e h
  · exact hy e h

theorem emit_src (p : PSt) (s d : Nat) (push : Bool) (P : Nat → Prop) (hs : P s) :
    SrcAll P (p.emit .repaired s d push).2 := by
  intro e he dd ss ho
  simp only [PSt.emit, List.mem_map] at he
  obtain ⟨kn, _, rfl⟩ := he
  simp only [if_true, XOp.base.injEq, COp.merge.injEq] at ho
  rw [← ho.2]; exact hs

theorem mergeKeys_src_aux (b d m : Nat) (keys : List (Nat × Nat)) (P : Nat → Prop) (hm : P (b + m)) :
    ∀ p : PSt, p.n = b → SrcAll P (p.mergeKeys .repaired d m keys).2 := by
  induction keys with
  | nil => intro p _ e he; simp [PSt.mergeKeys] at he
  | cons kn rest ih =>
    obtain ⟨key, rn⟩ := kn
    intro p hb e he dd ss ho
    simp only [PSt.mergeKeys] at he
    split at he
    · simp only [List.mem_cons] at he
      rcases he with rfl | he
      · simp only [XOp.base.injEq, COp.merge.injEq] at ho; rw [← ho.2, hb]; exact hm
      · refine ih _ ?_ e he dd ss ho; exact hb
    · simp only [List.mem_cons] at he
      rcases he with rfl | he
      · simp only [if_true, XOp.base.injEq, COp.merge.injEq] at ho; rw [← ho.2, hb]; exact hm
      · refine ih _ ?_ e he dd ss ho; exact hb

theorem mergeKeys_src (p : PSt) (d m : Nat) (keys : List (Nat × Nat)) (P : Nat → Prop) (hm : P (p.n + m)) :
    SrcAll P (p.mergeKeys .repaired d m keys).2 :=
  mergeKeys_src_aux p.n d m keys P hm p rfl

theorem tickStep_src (p : PSt) (s j : Nat) (P : Nat → Prop) (hs : P s) : SrcAll P (p.tickStep .repaired s j).2 := by
  simp only [PSt.tickStep]
  split
  · intro e he; simp at he
  · exact emit_src p s _ true P hs

theorem dlStep_src {n : Nat} (p : PSt) (m : Nat) (hlt : MsgsLt n p) (P : Nat → Prop) (hm : P (p.n + m))
    (hst : ∀ r, r < n → P r) : SrcAll P (p.dlStep .repaired m).2 := by
  cases hmm : p.msgs[m]? with
  | none => rw [dlStep_none p m hmm]; intro e he; simp at he
  | some msg =>
    have hd := (hlt msg (List.mem_of_getElem? hmm)).2
    rcases dlStep_cases p m msg hmm with h | ⟨_, h⟩
    · rw [h]; exact mergeKeys_src p _ m _ P hm
    · rw [h]; exact (mergeKeys_src p _ m _ P hm).append (emit_src _ _ _ _ P (hst _ hd))

/-- fact (b): after a lossless round a store knows only what some store knew before -/
theorem round_learns_only_known (kind : Kind) {n : Nat} {j : JSt} {st : SSt} {ops : List (Nat × XOp)}
    (T : TInv n j st ops) (hF : Fresh st.p ops) (s jx k x : Nat) (hs : s < n) (a : Nat) (ha : a < n)
    (hx : x ∈ knowOf k (ops ++ (st.p.step .repaired kind (.round s jx)).2) a) :
    ∃ b, b < n ∧ x ∈ knowOf k ops b := by
  have hn : st.p.n = n := T.j.n_eq
  let len := st.p.msgs.length
  let P : Nat → Prop := fun r => r < n ∨ r = n + len ∨ r = n + len + 1
  -- every merge of the round reads from a store or from one of the two messages the round builds
  have hsrc : SrcAll P (st.p.step .repaired kind (.round s jx)).2 := by
    simp only [PSt.step]
    have f1 := fstep_tickStep st.p s jx
    have lt1 : MsgsLt n (st.p.tickStep .repaired s jx).1 := by
      cases hps : st.p.peersOf s with
      | nil => rw [tickStep_nil st.p s jx hps]; exact T.lt
      | cons q qs =>
        rw [tickStep_cons st.p s jx q qs hps]
        exact msgslt_emit T.lt s _ true hs (peer_lt T.wfp s jx q qs hps)
    have hn1 : (st.p.tickStep .repaired s jx).1.n = n := by rw [f1.n_eq]; exact hn
    have lt2 : MsgsLt n ((st.p.tickStep .repaired s jx).1.dlStep .repaired st.p.msgs.length).1 := by
      cases hm : (st.p.tickStep .repaired s jx).1.msgs[st.p.msgs.length]? with
      | none => rw [dlStep_none _ _ hm]; exact lt1
      | some msg =>
        rcases phase_dlStep (n := n) _ _ msg hm (lt1 msg (List.mem_of_getElem? hm)) with ph | ⟨_, ph⟩
        · exact ph.lt lt1
        · exact ph.lt lt1
    have f2 := fstep_dlStep (st.p.tickStep .repaired s jx).1 st.p.msgs.length (by rw [hn1]; exact lt1)
    have hn2 : ((st.p.tickStep .repaired s jx).1.dlStep .repaired st.p.msgs.length).1.n = n := by
      rw [f2.n_eq]; exact hn1
    have s1 : SrcAll P (st.p.tickStep .repaired s jx).2 := tickStep_src st.p s jx P (Or.inl hs)
    have s2 : SrcAll P ((st.p.tickStep .repaired s jx).1.dlStep .repaired st.p.msgs.length).2 :=
      dlStep_src _ _ lt1 P (by rw [hn1]; exact Or.inr (Or.inl rfl)) (fun r hr => Or.inl hr)
    split
    · exact (s1.append s2).append
        (dlStep_src _ _ lt2 P (by rw [hn2]; exact Or.inr (Or.inr rfl)) (fun r hr => Or.inl hr))
    · exact (s1.append s2).append (by intro e he; simp at he)
  -- the round's operations of key k are merges
  have hmer := gossip_step_merge kind st.p (.round s jx) rfl
  have hkey := keyOps_of_merges k _ hmer
  unfold knowOf at hx ⊢
  rw [keyOps_append, SpecSys.run_append, hkey] at hx
  let R := List.range n ++ [n + len, n + len + 1]
  have hclosed : ∀ e ∈ mergePairs (keyOps k (st.p.step .repaired kind (.round s jx)).2), e.1 ∈ R → e.2 ∈ R := by
    intro e he _
    simp only [mergePairs, List.mem_filterMap] at he
    obtain ⟨o, ho, hoe⟩ := he
    cases o <;> simp at hoe
    rename_i dd ss
    subst hoe
    rw [mem_keyOps] at ho
    have := hsrc _ ho dd ss rfl
    simp only [R, List.mem_append, List.mem_range, List.mem_cons, List.mem_singleton, List.not_mem_nil, or_false]
    exact this
  obtain ⟨r0, hr0, hx0⟩ := closed_bounded _ _ R x hclosed a
    (by simp only [R, List.mem_append, List.mem_range]; exact Or.inl ha) hx
  simp only [R, List.mem_append, List.mem_range, List.mem_cons, List.mem_singleton, List.not_mem_nil, or_false] at hr0
  rcases hr0 with h | h
  · exact ⟨r0, h, hx0⟩
  · -- a message the round is about to build has received nothing yet
    exfalso
    have hne : (SpecSys.run {} (keyOps k ops)).know r0 ≠ [] := List.ne_nil_of_mem hx0
    rcases know_origin _ _ r0 hne with h' | ⟨o, ho, hr⟩
    · exact h' rfl
    · rw [mem_keyOps] at ho
      have := hF _ ho o rfl
      rw [hr, hn] at this
      rcases h with h | h <;> omega

end HappyModel.C18
