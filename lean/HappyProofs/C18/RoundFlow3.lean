import HappyProofs.C18.RoundFlow2
/-!
Fact (a): in a lossless round the ticking store's knowledge of every key reaches the chosen peer,
and the peer's reaches the ticking store when an answer is owed.
-/
namespace HappyModel.C18

theorem knowOf_ne {k : Nat} {ops : List (Nat × XOp)} {r x : Nat} (h : x ∈ knowOf k ops r) :
    (SpecSys.run {} (keyOps k ops)).know r ≠ [] := List.ne_nil_of_mem h

/-- push: s → d -/
theorem round_push_flow {n : Nat} {j : JSt} {st : SSt} {ops : List (Nat × XOp)} (T : TInv n j st ops)
    (s d k x : Nat) (hs : s < n) (h : x ∈ knowOf k ops s) :
    x ∈ knowOf k (ops ++ ((rE1 st.p s d).2 ++ (rMk st.p s d).2)) d := by
  have hne := knowOf_ne h
  rw [← T.j.spec k] at hne
  have hk := (holds_keysOf st.p s k).mp (known_held T.j T.good s k hs hne)
  have h1 := emit_flow st.p T.j.pinv ops s d true k x hk h
  have h2 := mergeKeys_flow (rE1 st.p s d).1 (ops ++ (rE1 st.p s d).2) d st.p.msgs.length (st.p.keysOf s) k x
    (keysOf_nodup st.p T.j.pinv s) hk h1
  rw [List.append_assoc] at h2
  exact h2

/-- answer: d → s -/
theorem round_answer_flow {n : Nat} {j : JSt} {st : SSt} {ops : List (Nat × XOp)} (T : TInv n j st ops)
    (s d k x : Nat) (hd : d < n) (h : x ∈ knowOf k ops d) :
    x ∈ knowOf k (ops ++ ((rE1 st.p s d).2 ++ ((rMk st.p s d).2 ++ (rE2 st.p s d).2) ++ (rMk2 st.p s d).2)) s := by
  have hne := knowOf_ne h
  rw [← T.j.spec k] at hne
  have hh := known_held T.j T.good d k hd hne
  have hg : Grows st.p (rMk st.p s d).1 := (grows_emit _ _ _ _).trans (grows_mergeKeys _ _ _ _).1
  have hk := (holds_keysOf (rMk st.p s d).1 d k).mp (hg.2 _ _ hh)
  have hpinv : PInv (rMk st.p s d).1 := pinv_mergeKeys _ (pinv_emit st.p T.j.pinv s d true) _ _ _
  have h0 : x ∈ knowOf k (ops ++ (rE1 st.p s d).2 ++ (rMk st.p s d).2) d := knowOf_mono k _ _ x d (knowOf_mono k _ _ x d h)
  have h1 := emit_flow (rMk st.p s d).1 hpinv _ d s false k x hk h0
  have hidx : (rMk st.p s d).1.n + (rMk st.p s d).1.msgs.length = (rE2 st.p s d).1.n + (st.p.msgs.length + 1) := by
    have f := rMk_facts st.p s d
    simp [rE2, PSt.emit, f.1, f.2.1]
  rw [hidx] at h1
  have h2 := mergeKeys_flow (rE2 st.p s d).1 _ s (st.p.msgs.length + 1) ((rMk st.p s d).1.keysOf d) k x
    (keysOf_nodup _ hpinv d) hk h1
  have : ops ++ ((rE1 st.p s d).2 ++ ((rMk st.p s d).2 ++ (rE2 st.p s d).2) ++ (rMk2 st.p s d).2) =
      ops ++ (rE1 st.p s d).2 ++ (rMk st.p s d).2 ++ (rE2 st.p s d).2 ++ (rMk2 st.p s d).2 := by
    simp [List.append_assoc]
  rw [this]
  exact h2

/-- fact (a) -/
theorem round_flows (kind : Kind) {n : Nat} {j : JSt} {st : SSt} {ops : List (Nat × XOp)}
    (T : TInv n j st ops) (s jx k x : Nat) (hs : s < n) (S : List Nat)
    (hS : ∀ r ∈ S, x ∈ knowOf k ops r) :
    ∀ r ∈ reachB (owedFlows st.p.peers (.round s jx)) S,
      x ∈ knowOf k (ops ++ (st.p.step .repaired kind (.round s jx)).2) r := by
  have hmono : ∀ r ∈ S, x ∈ knowOf k (ops ++ (st.p.step .repaired kind (.round s jx)).2) r :=
    fun r hr => knowOf_mono k _ _ x r (hS r hr)
  cases hps : st.p.peersOf s with
  | nil =>
    have : owedFlows st.p.peers (.round s jx) = [] := by
      unfold PSt.peersOf at hps
      simp only [owedFlows, hps]
    rw [this]
    exact hmono
  | cons q qs =>
    have hdn := peer_lt T.wfp s jx q qs hps
    generalize hd : (q :: qs).getD (jx % (q :: qs).length) q = d at hdn
    cases hc : (st.p.peersOf d).contains s with
    | false =>
      have how : owedFlows st.p.peers (.round s jx) = [(d, s)] := by
        have h1 := hps; have h2 := hc
        unfold PSt.peersOf at h1 h2
        simp only [owedFlows, h1, hd, h2]
        simp
      rw [how, round_noanswer' kind st.p s jx q qs hps d hd.symm hc]
      intro r hr
      simp only [reachB] at hr
      split at hr
      · rename_i hin
        rcases List.mem_cons.mp hr with rfl | hr
        · exact round_push_flow T s _ k x hs (hS s (by simpa using hin))
        · have := hmono r hr
          rwa [round_noanswer' kind st.p s jx q qs hps d hd.symm hc] at this
      · have := hmono r hr
        rwa [round_noanswer' kind st.p s jx q qs hps d hd.symm hc] at this
    | true =>
      have how : owedFlows st.p.peers (.round s jx) = [(d, s), (s, d)] := by
        have h1 := hps; have h2 := hc
        unfold PSt.peersOf at h1 h2
        simp only [owedFlows, h1, hd, h2]
        simp
      have hops := round_answer kind st.p s jx q qs hps d hd.symm hc
      rw [how, hops]
      have hmono' : ∀ r ∈ S, x ∈ knowOf k (ops ++ ((rE1 st.p s d).2 ++ ((rMk st.p s d).2 ++ (rE2 st.p s d).2) ++
          (rMk2 st.p s d).2)) r := by
        intro r hr; have := hmono r hr; rwa [hops] at this
      have hpush : s ∈ S → x ∈ knowOf k (ops ++ ((rE1 st.p s d).2 ++ ((rMk st.p s d).2 ++ (rE2 st.p s d).2) ++
          (rMk2 st.p s d).2)) d := by
        intro hin
        have := round_push_flow T s d k x hs (hS s hin)
        have h' := knowOf_mono k _ ((rE2 st.p s d).2 ++ (rMk2 st.p s d).2) x d this
        simpa [List.append_assoc] using h'
      intro r hr
      simp only [reachB] at hr
      by_cases hin : s ∈ S
      · simp only [List.contains_eq_mem, hin, decide_true, if_true, List.mem_cons, true_or] at hr
        rcases hr with rfl | rfl | hr
        · exact hmono' _ hin
        · exact hpush hin
        · exact hmono' r hr
      · simp only [List.contains_eq_mem, hin, decide_false, Bool.false_eq_true, if_false] at hr
        split at hr
        · rename_i hdin
          rcases List.mem_cons.mp hr with rfl | hr
          · exact round_answer_flow T _ d k x hdn (hS d (by simpa using hdin))
          · exact hmono' r hr
        · exact hmono' r hr

end HappyModel.C18
