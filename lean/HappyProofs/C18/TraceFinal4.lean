import HappyProofs.C18.TraceFinal3
import HappyProofs.C18.SameUpdates
/-!
`judgeStore` on the model's own transcript, for every well-formed script: everything is accepted,
given the knowledge statement `UnionAfter` for the trailing rounds (the one remaining obligation).
-/
namespace HappyModel.C18

theorem elemsOf_contains' (s : ORSet) (x : Nat) : (elemsOf s).contains x = s.has x := by
  rw [Bool.eq_iff_iff, ORSet.has_iff]
  simp only [List.contains_eq_mem, decide_eq_true_eq, elemsOf, List.mem_eraseDups, mem_sortNat,
    List.mem_map]
  constructor
  · rintro ⟨⟨y, t⟩, h, rfl⟩; exact ⟨t, h⟩
  · rintro ⟨t, h⟩; exact ⟨(x, t), h, rfl⟩

theorem valueOK (kind : Kind) (mentioned : List Nat) : ValueOK kind mentioned := by
  intro ops a
  have hc : ((Sys.run Sys.init ops).rep a).pn.value = (SpecSys.run {} ops).counter a :=
    cinv_value _ _ (crdtInv_run ops).2.1 a
  have hl : (SpecSys.run {} ops).lwwOk a ((Sys.run Sys.init ops).rep a).lww.cur = true :=
    (SpecSys.lwwOk_iff _ _ _).mpr ((crdtInv_run ops).2.2.1 a)
  have ho : ∀ x, ((Sys.run Sys.init ops).rep a).os.has x = (SpecSys.run {} ops).orHas a x := by
    intro x
    obtain ⟨_, _, _, tg, h⟩ := crdtInv_run ops
    exact oinv_has _ _ tg h a x
  cases kind with
  | g => simp [judgeValue, kobsOf, hc]
  | pn => simp [judgeValue, kobsOf, hc]
  | lww => simp [judgeValue, kobsOf, hl]
  | os =>
    simp only [judgeValue, kobsOf]
    have : (mentioned ++ elemsOf ((Sys.run Sys.init ops).rep a).os).find?
        (fun x => (SpecSys.run {} ops).orHas a x != (elemsOf ((Sys.run Sys.init ops).rep a).os).contains x)
        = none := by
      rw [List.find?_eq_none]
      intro x _
      rw [elemsOf_contains', ho x]
      simp
    rw [this]

theorem sst_run_append (kind : Kind) (a b : List SStep) :
    ∀ st : SSt, SSt.run .repaired kind st (a ++ b) =
      SSt.run .repaired kind (SSt.run .repaired kind st a) b := by
  induction a with
  | nil => intro st; rfl
  | cons x xs ih => intro st; simp [SSt.run, ih]

/-- the store judge accepts the model's own transcript of every well-formed script — all per-step
    clauses and the final liveness clause — provided the knowledge statement holds for the trailing
    rounds: when their owed flows are full, every store has received, for every key, exactly the
    union of what the stores had received when the rounds began -/
theorem store_trace_satisfies_spec_given_union (kind : Kind) (n nkeys : Nat) (peers : List (List Nat))
    (script : List SStep) (hp : WFPeers n peers) (hs : ∀ x ∈ script, WFStep n x)
    (hK : ∀ scriptA scriptB, script = scriptA ++ scriptB → (∀ x ∈ scriptB, isRound x = true) →
      fullRounds n peers scriptB = true →
      UnionAfter n (PSt.ops .repaired kind (SSt.init n peers).p scriptA)
        (PSt.ops .repaired kind (SSt.run .repaired kind (SSt.init n peers) scriptA).p scriptB)) :
    judgeStore kind n nkeys peers (traceObs kind (SSt.init n peers) script)
      ((List.range n).flatMap (storeObs (SSt.run .repaired kind (SSt.init n peers) script))) = none := by
  generalize hT : traceObs kind (SSt.init n peers) script = T
  have hsplitT := splitRounds_append T
  have hsuf := splitRounds_suffix_rounds T
  unfold judgeStore
  simp only
  generalize (splitRounds T).1 = A at hsplitT
  generalize (splitRounds T).2 = B at hsplitT hsuf
  generalize hm : elemsOfSteps T = mentioned
  have hv := valueOK kind mentioned
  have T0 := tinv_init n peers hp
  have hgo := go_model kind n nkeys mentioned hv script 0 T0 hs
  rw [hT, ← hsplitT] at hgo
  obtain ⟨hgA, hgB⟩ := go_append kind n nkeys mentioned A B {} 0 hgo
  have hfA := go_fst kind n nkeys mentioned A {} 0 hgA
  obtain ⟨hA, hB⟩ := traceObs_split kind (SSt.init n peers) script A B (by rw [hT, hsplitT])
  have hpairA : judgeStore.go kind n nkeys mentioned {} 0 A = (advanceAll kind n {} A, none) :=
    Prod.ext hfA hgA
  rw [hpairA]
  simp only
  have hgB' : (judgeStore.go kind n nkeys mentioned (advanceAll kind n {} A) A.length B).2 = none := by
    simpa using hgB
  have hpairB : judgeStore.go kind n nkeys mentioned (advanceAll kind n {} A) A.length B =
      ((judgeStore.go kind n nkeys mentioned (advanceAll kind n {} A) A.length B).1, none) :=
    Prod.ext rfl hgB'
  rw [hpairB]
  simp only
  -- the final clause
  have hscript : script = script.take A.length ++ script.drop A.length := (List.take_append_drop _ _).symm
  have hwA : ∀ x ∈ script.take A.length, WFStep n x := fun x hx => hs x (List.mem_of_mem_take hx)
  have hwB : ∀ x ∈ script.drop A.length, WFStep n x := fun x hx => hs x (List.mem_of_mem_drop hx)
  have hrB : ∀ x ∈ script.drop A.length, isRound x = true := by
    intro x hx
    have hx' : x ∈ B.map (·.step) := by rw [hB, traceObs_steps]; exact hx
    obtain ⟨so, hso, rfl⟩ := List.mem_map.mp hx'
    exact hsuf so hso
  have TA := tinv_run kind mentioned hv (script.take A.length) T0 hwA
  have hfin : SSt.run .repaired kind (SSt.init n peers) script =
      SSt.run .repaired kind (SSt.run .repaired kind (SSt.init n peers) (script.take A.length))
        (script.drop A.length) := by
    rw [← sst_run_append, List.take_append_drop]
  rw [hfin, hB, hA]
  rw [← hA]
  have := judgeFinal_model kind n nkeys peers mentioned hv TA (script.drop A.length) hwB hrB
    (by
      intro hfull
      have := hK _ _ hscript hrB hfull
      simpa using this)
  rw [← hA] at this
  exact this

end HappyModel.C18
