import HappyProofs.C18.StoreJudge7
import HappyProofs.C18.SameUpdates
/-!
The judge's split of a transcript into a prefix and the trailing lossless rounds, and what the
judge's loop does on each part.
-/
namespace HappyModel.C18

theorem judgeStep_fst (kind : Kind) (n nkeys : Nat) (mentioned : List Nat) (j : JSt) (so : StepObs) :
    (judgeStep kind n nkeys mentioned j so).1 = j.advance kind n so := by
  unfold judgeStep
  simp only
  split
  · rfl
  · split
    · rfl
    · split <;> rfl

theorem go_fst (kind : Kind) (n nkeys : Nat) (mentioned : List Nat) (l : List StepObs) :
    ∀ (j : JSt) (i : Nat), (judgeStore.go kind n nkeys mentioned j i l).2 = none →
      (judgeStore.go kind n nkeys mentioned j i l).1 = advanceAll kind n j l := by
  induction l with
  | nil => intro j i _; rfl
  | cons so rest ih =>
    intro j i h
    have hf := judgeStep_fst kind n nkeys mentioned j so
    simp only [judgeStore.go, advanceAll] at h ⊢
    cases hs : judgeStep kind n nkeys mentioned j so with
    | mk j' r =>
      rw [hs] at hf h
      simp only at hf
      cases r with
      | some sig => simp at h
      | none =>
        simp only at h ⊢
        rw [← hf]; exact ih j' (i + 1) h

theorem go_append (kind : Kind) (n nkeys : Nat) (mentioned : List Nat) (a b : List StepObs) :
    ∀ (j : JSt) (i : Nat), (judgeStore.go kind n nkeys mentioned j i (a ++ b)).2 = none →
      (judgeStore.go kind n nkeys mentioned j i a).2 = none ∧
      (judgeStore.go kind n nkeys mentioned (advanceAll kind n j a) (i + a.length) b).2 = none := by
  induction a with
  | nil => intro j i h; exact ⟨rfl, by simpa [advanceAll] using h⟩
  | cons so rest ih =>
    intro j i h
    have hf := judgeStep_fst kind n nkeys mentioned j so
    simp only [List.cons_append, judgeStore.go, advanceAll] at h ⊢
    cases hs : judgeStep kind n nkeys mentioned j so with
    | mk j' r =>
      rw [hs] at hf h
      simp only at hf
      cases r with
      | some sig => simp at h
      | none =>
        simp only at h ⊢
        rw [← hf]
        have := ih j' (i + 1) h
        refine ⟨this.1, ?_⟩
        have e : i + (rest.length + 1) = i + 1 + rest.length := by omega
        simp only [List.length_cons, e]
        exact this.2

theorem splitRounds_append (steps : List StepObs) :
    (splitRounds steps).1 ++ (splitRounds steps).2 = steps := by
  unfold splitRounds
  simp only
  generalize hs : (steps.reverse.takeWhile fun so => isRound so.step) = tw
  have h1 : steps.reverse = tw ++ steps.reverse.dropWhile (fun so => isRound so.step) := by
    rw [← hs]; exact (List.takeWhile_append_dropWhile).symm
  have h2 : steps = (steps.reverse.dropWhile fun so => isRound so.step).reverse ++ tw.reverse := by
    have := congrArg List.reverse h1
    simpa using this
  obtain ⟨D, hD⟩ : ∃ D, steps = D ++ tw.reverse := ⟨_, h2⟩
  clear h1 h2 hs
  subst hD
  simp

theorem mem_takeWhile_true {α} (p : α → Bool) (l : List α) (x : α) (h : x ∈ l.takeWhile p) : p x = true := by
  induction l with
  | nil => simp at h
  | cons y ys ih =>
    simp only [List.takeWhile_cons] at h
    split at h
    · rcases List.mem_cons.mp h with rfl | h
      · assumption
      · exact ih h
    · simp at h

theorem splitRounds_suffix_rounds (steps : List StepObs) :
    ∀ so ∈ (splitRounds steps).2, isRound so.step = true := by
  intro so hso
  simp only [splitRounds, List.mem_reverse] at hso
  exact mem_takeWhile_true (fun so : StepObs => isRound so.step) _ so hso

/-! ### transcripts of concatenated scripts -/

theorem traceObs_append (kind : Kind) (a b : List SStep) :
    ∀ st : SSt, traceObs kind st (a ++ b) =
      traceObs kind st a ++ traceObs kind (SSt.run .repaired kind st a) b := by
  induction a with
  | nil => intro st; rfl
  | cons x xs ih => intro st; simp [traceObs, SSt.run, ih]

theorem traceObs_length (kind : Kind) (l : List SStep) : ∀ st : SSt, (traceObs kind st l).length = l.length := by
  induction l with
  | nil => intro st; rfl
  | cons x xs ih => intro st; simp [traceObs, ih]

theorem traceObs_steps (kind : Kind) (l : List SStep) : ∀ st : SSt, (traceObs kind st l).map (·.step) = l := by
  induction l with
  | nil => intro st; rfl
  | cons x xs ih => intro st; simp [traceObs, stepObs, ih]

/-- a split of a transcript is the transcript of a split of the script -/
theorem traceObs_split (kind : Kind) (st : SSt) (script : List SStep) (A B : List StepObs)
    (h : traceObs kind st script = A ++ B) :
    A = traceObs kind st (script.take A.length) ∧
    B = traceObs kind (SSt.run .repaired kind st (script.take A.length)) (script.drop A.length) := by
  have hsplit := traceObs_append kind (script.take A.length) (script.drop A.length) st
  rw [List.take_append_drop] at hsplit
  rw [h] at hsplit
  have hlen : A.length = (traceObs kind st (script.take A.length)).length := by
    rw [traceObs_length, List.length_take]
    have := congrArg List.length h
    rw [traceObs_length, List.length_append] at this
    omega
  exact List.append_inj hsplit hlen

end HappyModel.C18
