import HappyProofs.C18.StoreJudge1
/-!
Part 2: the judge's bookkeeping, fed with the model's own observations, knows exactly what the
model's replicas have received (`JInv`), after every step of every script.
-/
namespace HappyModel.C18

theorem mem_sortNat (l : List Nat) (x : Nat) : x ∈ sortNat l ↔ x ∈ l := List.mem_mergeSort

theorem nodup_sortNat (l : List Nat) (h : l.Nodup) : (sortNat l).Nodup :=
  (List.mergeSort_perm l _).nodup_iff.mpr h

structure JInv (n : Nat) (j : JSt) (p : PSt) (ops : List (Nat × XOp)) : Prop where
  n_eq : p.n = n
  pinv : PInv p
  spec : ∀ k, specAt j.spec k = SpecSys.run {} (keyOps k ops)
  msgs : j.msgs = obsFrom 0 p.msgs

theorem run_single (t : SpecSys) (o : COp) : SpecSys.run t [o] = t.step o := rfl

theorem jinv_emit {n : Nat} {j : JSt} {p : PSt} {ops : List (Nat × XOp)} (h : JInv n j p ops)
    (s d : Nat) (push : Bool) :
    JInv n (j.register n (msgObsOf p.msgs.length ⟨s, d, push, p.keysOf s⟩))
      (p.emit .repaired s d push).1 (ops ++ (p.emit .repaired s d push).2) := by
  refine ⟨h.n_eq, pinv_emit p h.pinv s d push, ?_, ?_⟩
  · intro k
    have hnd := nodup_sortNat _ (keysOf_nodup p h.pinv s)
    show specAt (j.mergeAll _ _ _).spec k = _
    simp only [msgObsOf]
    rw [specAt_mergeAll _ _ _ _ hnd, keyOps_append, SpecSys.run_append, keyOps_emit p h.pinv,
      ← h.spec k]
    simp only [msgObsOf, mem_sortNat, h.n_eq]
    split <;> simp [run_single, SpecSys.run]
  · show j.msgs ++ [_] = obsFrom 0 (p.msgs ++ [_])
    rw [obsFrom_append, h.msgs]
    simp [obsFrom]

theorem jinv_deliver {n : Nat} {j : JSt} {p : PSt} {ops : List (Nat × XOp)} (h : JInv n j p ops)
    (m : Nat) (msg : Msg) (hm : p.msgs[m]? = some msg) :
    JInv n (j.mergeAll msg.dst (n + m) (sortNat (msg.keys.map (·.1))))
      (p.mergeKeys .repaired msg.dst m msg.keys).1
      (ops ++ (p.mergeKeys .repaired msg.dst m msg.keys).2) := by
  have hnd0 := h.pinv.msgs msg (List.mem_of_getElem? hm)
  refine ⟨by rw [mergeKeys_n]; exact h.n_eq, pinv_mergeKeys p h.pinv _ _ _, ?_, ?_⟩
  · intro k
    rw [specAt_mergeAll _ _ _ _ (nodup_sortNat _ hnd0), keyOps_append, SpecSys.run_append,
      keyOps_mergeKeys p _ _ _ k hnd0, ← h.spec k]
    simp only [mem_sortNat, h.n_eq]
    split <;> simp [run_single, SpecSys.run]
  · rw [mergeAll_msgs, (mergeKeys_msgs p _ _ _).1]; exact h.msgs

theorem wop_repaired (kind : Kind) (s nid : Nat) (op : WOp) :
    wop .repaired kind s nid op = (specOp kind s op).map XOp.base := by
  cases op <;> simp only [wop, specOp] <;> split <;> simp

theorem createdObs_same (p p' : PSt) (h : p'.msgs = p.msgs) : createdObs p p' = [] := by
  rw [createdObs_of_append p p' [] (by simp [h])]; rfl

theorem keyOps_single (k key : Nat) (o : COp) :
    keyOps k [(key, XOp.base o)] = if key = k then [o] else [] := by
  by_cases h : key = k <;> simp [keyOps, h, XOp.toCOp?]

theorem jinv_find {n : Nat} {j : JSt} {p : PSt} {ops : List (Nat × XOp)} (h : JInv n j p ops)
    (m : Nat) : j.msgs.find? (·.id == m) = (p.msgs[m]?).map (msgObsOf m) := by
  rw [h.msgs, obsFrom_find]; simp

/-- one delivery phase (`dlStep` of an existing message) -/
theorem jinv_dlStep {n : Nat} {j : JSt} {p : PSt} {ops : List (Nat × XOp)} (h : JInv n j p ops)
    (m : Nat) (msg : Msg) (hm : p.msgs[m]? = some msg) :
    let j1 := j.mergeAll msg.dst (n + m) (sortNat (msg.keys.map (·.1)))
    let r := p.dlStep .repaired m
    (r.1.msgs = p.msgs ∧ JInv n j1 r.1 (ops ++ r.2)) ∨
    (msg.push = true ∧ ∃ resp : Msg, resp.push = false ∧ resp.dst = msg.src ∧
      r.1.msgs = p.msgs ++ [resp] ∧
      JInv n (j1.register n (msgObsOf p.msgs.length resp)) r.1 (ops ++ r.2)) := by
  intro j1 r
  have hd := jinv_deliver h m msg hm
  have hr : r = p.dlStep .repaired m := rfl
  simp only [PSt.dlStep, hm] at hr
  split at hr
  · rename_i hc
    right
    simp only [Bool.and_eq_true] at hc
    refine ⟨hc.1, ⟨msg.dst, msg.src, false, (p.mergeKeys .repaired msg.dst m msg.keys).1.keysOf msg.dst⟩,
      rfl, rfl, ?_, ?_⟩
    · rw [hr]; simp [PSt.emit, (mergeKeys_msgs p _ _ _).1]
    · have he := jinv_emit hd msg.dst msg.src false
      rw [(mergeKeys_msgs p _ _ _).1] at he
      rw [hr]
      simpa [List.append_assoc] using he
  · left
    rw [hr]
    exact ⟨(mergeKeys_msgs p _ _ _).1, hd⟩

theorem dlStep_none (p : PSt) (m : Nat) (hm : p.msgs[m]? = none) : p.dlStep .repaired m = (p, []) := by
  simp [PSt.dlStep, hm]

theorem tickStep_nil (p : PSt) (s j : Nat) (hp : p.peersOf s = []) :
    p.tickStep .repaired s j = (p, []) := by simp [PSt.tickStep, hp]

theorem tickStep_cons (p : PSt) (s j q : Nat) (qs : List Nat) (hp : p.peersOf s = q :: qs) :
    p.tickStep .repaired s j = p.emit .repaired s ((q :: qs).getD (j % (q :: qs).length) q) true := by
  simp [PSt.tickStep, hp]

/-- the judge's bookkeeping follows the model through every step -/
theorem jinv_step (kind : Kind) {n : Nat} {j : JSt} {p : PSt} {ops : List (Nat × XOp)}
    (h : JInv n j p ops) (x : SStep) (obs : List (Nat × Nat × KObs)) :
    JInv n (j.advance kind n ⟨x, createdObs p (p.step .repaired kind x).1, obs⟩)
      (p.step .repaired kind x).1 (ops ++ (p.step .repaired kind x).2) := by
  cases x with
  | w s key op =>
    have hmsgs : (p.step .repaired kind (.w s key op)).1.msgs = p.msgs := by
      simp only [PSt.step]; split <;> split <;> rfl
    simp only [JSt.advance, isRound, createdObs_same _ _ hmsgs, List.foldl_nil, Bool.false_eq_true,
      if_false, JSt.apply]
    simp only [PSt.step, wop_repaired]
    have hp' : PInv (if p.holds s key then p else { p with held := p.held ++ [((s, key), s)] }) := by
      split
      · exact h.pinv
      · rename_i hh; exact pinv_hold p h.pinv s key s (by simpa using hh)
    have hn' : (if p.holds s key then p else { p with held := p.held ++ [((s, key), s)] }).n = n := by
      split <;> exact h.n_eq
    have hm' : (if p.holds s key then p else { p with held := p.held ++ [((s, key), s)] }).msgs = p.msgs := by
      split <;> rfl
    cases hso : specOp kind s op with
    | none =>
      simp only [Option.map_none]
      exact ⟨hn', hp', by simpa using h.spec, by rw [hm']; exact h.msgs⟩
    | some o =>
      simp only [Option.map_some]
      refine ⟨hn', hp', ?_, by rw [hm']; exact h.msgs⟩
      intro k
      rw [keyOps_append, SpecSys.run_append, keyOps_single, ← h.spec k]
      by_cases hk : key = k
      · subst hk; simp [specAt_smod_self, run_single]
      · have hk' : k ≠ key := fun e => hk e.symm
        simp [hk, specAt_smod_other _ _ _ _ hk', SpecSys.run]
  | tick s jx =>
    simp only [PSt.step, PSt.tickStep]
    split
    · simp only [JSt.advance, isRound, createdObs_same p p rfl, List.foldl_nil, JSt.apply,
        Bool.false_eq_true, if_false, List.append_nil]
      exact h
    · rename_i q qs _
      have hc := createdObs_of_append p (p.emit .repaired s ((q :: qs).getD (jx % (q :: qs).length) q) true).1
        [⟨s, (q :: qs).getD (jx % (q :: qs).length) q, true, p.keysOf s⟩] (by simp [PSt.emit])
      simp only [JSt.advance, isRound, hc, obsFrom, List.foldl_cons, List.foldl_nil, JSt.apply,
        Bool.false_eq_true, if_false]
      exact jinv_emit h s _ true
  | dl m =>
    simp only [PSt.step]
    cases hm : p.msgs[m]? with
    | none =>
      rw [dlStep_none p m hm]
      simp only [JSt.advance, isRound, createdObs_same p p rfl, List.foldl_nil, JSt.apply,
        Bool.false_eq_true, if_false, List.append_nil, jinv_find h m, hm, Option.map_none]
      exact h
    | some msg =>
      have hj : j.apply kind n (.dl m) =
          j.mergeAll msg.dst (n + m) (sortNat (msg.keys.map (·.1))) := by
        simp [JSt.apply, jinv_find h m, hm, msgObsOf]
      rcases jinv_dlStep h m msg hm with ⟨hmsgs, hi⟩ | ⟨_, resp, _, _, hmsgs, hi⟩
      · simp only [JSt.advance, isRound, createdObs_same _ _ hmsgs, List.foldl_nil,
          Bool.false_eq_true, if_false, hj]
        exact hi
      · simp only [JSt.advance, isRound, createdObs_of_append _ _ _ hmsgs, obsFrom, List.foldl_cons,
          List.foldl_nil, Bool.false_eq_true, if_false, hj]
        exact hi
  | round s jx =>
    simp only [PSt.step]
    cases hps : p.peersOf s with
    | nil =>
      -- no peers: nothing happens
      simp only [tickStep_nil p s jx hps]
      have hnone : p.msgs[p.msgs.length]? = none := by simp
      simp only [dlStep_none p _ hnone, List.append_nil]
      have : ¬ p.msgs.length = p.msgs.length + 2 := by omega
      simp only [this, if_false, List.append_nil]
      simp only [JSt.advance, isRound, createdObs_same p p rfl, List.foldl_nil, JSt.apply, if_true]
      exact h
    | cons q qs =>
      simp only [tickStep_cons p s jx q qs hps]
      generalize hd : (q :: qs).getD (jx % (q :: qs).length) q = d
      -- phase 1: the push is built
      have h1 := jinv_emit h s d true
      generalize hp1 : (p.emit .repaired s d true) = e1 at h1
      have hm1 : e1.1.msgs = p.msgs ++ [⟨s, d, true, p.keysOf s⟩] := by rw [← hp1]; simp [PSt.emit]
      have hget : e1.1.msgs[p.msgs.length]? = some ⟨s, d, true, p.keysOf s⟩ := by rw [hm1]; simp
      -- phase 2: it is delivered
      rcases jinv_dlStep h1 p.msgs.length _ hget with ⟨hmsgs, hi⟩ | ⟨_, resp, hrp, hrd, hmsgs, hi⟩
      · have hlen : ¬ (e1.1.dlStep .repaired p.msgs.length).1.msgs.length = p.msgs.length + 2 := by
          rw [hmsgs, hm1]; simp
        simp only [hlen, if_false, List.append_nil]
        have hc := createdObs_of_append p (e1.1.dlStep .repaired p.msgs.length).1
          [⟨s, d, true, p.keysOf s⟩] (by rw [hmsgs, hm1])
        simp only [JSt.advance, isRound, hc, obsFrom, List.foldl_cons, List.foldl_nil, JSt.apply,
          if_true, JSt.registerDeliver]
        simpa [msgObsOf, List.append_assoc] using hi
      · have hlen : (e1.1.dlStep .repaired p.msgs.length).1.msgs.length = p.msgs.length + 2 := by
          rw [hmsgs, hm1]; simp
        simp only [hlen, if_true]
        have hm2 : (e1.1.dlStep .repaired p.msgs.length).1.msgs =
            p.msgs ++ [⟨s, d, true, p.keysOf s⟩, resp] := by rw [hmsgs, hm1]; simp
        have hget2 : (e1.1.dlStep .repaired p.msgs.length).1.msgs[p.msgs.length + 1]? = some resp := by
          rw [hm2]; simp
        -- phase 3: the answer is delivered (it is not a push: nothing further is built)
        rcases jinv_dlStep hi (p.msgs.length + 1) resp hget2 with ⟨hmsgs3, hi3⟩ | ⟨hpush, _⟩
        · have hc := createdObs_of_append p
            ((e1.1.dlStep .repaired p.msgs.length).1.dlStep .repaired (p.msgs.length + 1)).1
            [⟨s, d, true, p.keysOf s⟩, resp] (by rw [hmsgs3, hm2])
          simp only [JSt.advance, isRound, hc, obsFrom, List.foldl_cons, List.foldl_nil, JSt.apply,
            if_true, JSt.registerDeliver]
          have hl1 : e1.1.msgs.length = p.msgs.length + 1 := by rw [hm1]; simp
          simpa [msgObsOf, List.append_assoc, hl1] using hi3
        · rw [hrp] at hpush; exact absurd hpush (by simp)

end HappyModel.C18
