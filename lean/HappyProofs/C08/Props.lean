import HappyProofs.C08.PipeParts
import HappyProofs.C08.FairStep
import HappyProofs.C08.FairCap
import HappyProofs.C08.IndusSoundC
/-!
# C08 — property theorems

"For any arrival pattern, each event offered to a queue-fronted component (queue plus driver, queued
resources, servers and their industrial variants) is at every instant exactly one of
rejected-and-counted, waiting, in service, or completed exactly once; work in service never exceeds
the concurrency limit, and no simulated time passes while an item waits and the worker has free
capacity for it. Items leave a queue in the order its policy defines (FIFO, LIFO, stable priority,
deadline, fair share) and a policy never holds more than its capacity, with
enqueued = dequeued + dropped + held at all times."

Part 1 is about `HappyModel.C08.step` (nine policies + balking wrapper, operation lists with
arbitrary clock values, random draws and CoDel drop counts); part 2 about `HappyModel.C08.Pipe.step`
(Queue + QueueDriver + Server, every schedule of pending deliveries).
-/
namespace HappyModel.C08

/-! ## Part 1 — policies -/

/-- enqueued = dequeued + dropped + held after every operation sequence, for every policy,
    configuration, clock reading, random draw and CoDel decision -/
theorem conservation (c : Cfg) (ops : List Op) :
    (finalSt c {} ops).enq =
      (finalSt c {} ops).deq + (finalSt c {} ops).deqL + (finalSt c {} ops).drp + len c (finalSt c {} ops) :=
  (finalSt_cons c ops {} (cons_init c)).cons

/-- a policy constructed with `capacity = k` never holds more than k items
    (FIFO, LIFO, priority, deadline, adaptive LIFO, RED, CoDel, weighted fair; with or without balking) -/
theorem held_le_capacity (c : Cfg) (hf : c.kind ≠ .fair) (k : Nat) (hc : c.cap = some k) (ops : List Op) :
    len c (finalSt c {} ops) ≤ k :=
  finalSt_cap c hf k hc ops {} (by cases hk : c.kind <;> simp [len, hk])

/-- FIFO order (FIFOQueue, REDQueue, CoDelQueue, with or without BalkingQueue): for every operation
    list the model answers exactly like the list specification, in which a pop returns the oldest
    held item (`spec_fifo_pop`), CoDel's drops remove the next-oldest ones, and peek shows the next pop -/
theorem fifo_order (c : Cfg) (hk : c.kind = .fifo ∨ c.kind = .red ∨ c.kind = .codel) (ops : List Op) :
    (run c {} ops).map (·.1) = (sRun c {} ops).map (·.1) :=
  run_refines (by rcases hk with h | h | h <;> simp [Kind.positional, h]) ops {} {} rfl

/-- LIFO order (LIFOQueue; AdaptiveLIFO: newest first while `len ≥ threshold`, oldest first below) -/
theorem lifo_order (c : Cfg) (hk : c.kind = .lifo ∨ c.kind = .adaptive) (ops : List Op) :
    (run c {} ops).map (·.1) = (sRun c {} ops).map (·.1) :=
  run_refines (by rcases hk with h | h <;> simp [Kind.positional, h]) ops {} {} rfl

theorem spec_fifo_pop (c : Cfg) (hk : c.kind = .fifo) (ss : SSt) (now k : Nat) :
    (sPop c ss now k).2 = ss.held.head? := by
  unfold sPop; rw [hk]; simp only; split <;> simp_all

theorem spec_lifo_pop (c : Cfg) (hk : c.kind = .lifo) (ss : SSt) (now k : Nat) :
    (sPop c ss now k).2 = ss.held.getLast? := by
  unfold sPop; rw [hk]; simp only; split <;> simp_all

/-- stable priority order (PriorityQueue, with or without BalkingQueue): for every operation list the
    heap model — extract-minimum under `(priority, insert_order)` — answers exactly like the list
    specification, in which a pop returns the first held item (in acceptance order) whose key is ≤
    every held key (`spec_prio_pop`) and peek shows the next pop -/
theorem prio_stable (c : Cfg) (hk : c.kind = .prio) (ops : List Op) :
    (run c {} ops).map (·.1) = (sRun c {} ops).map (·.1) :=
  run_krel (by simp [Kind.keyed, hk]) ops {} {} krel_init

/-- deadline order with expiry (DeadlineQueue): for every operation list — pushes, pops at arbitrary
    clock readings, peeks, `purge_expired()` calls, `count_expired()`/`count_valid()` — the heap
    model answers exactly like the list specification: every held item whose deadline has passed is
    dropped (by the pop that meets it or by the purge) and never returned, a pop returns the stable
    minimum of the live ones (`spec_deadline_pop`), and the order law keeps holding after a purge -/
theorem deadline_order_expiry (c : Cfg) (hk : c.kind = .deadline) (ops : List Op) :
    (run c {} ops).map (·.1) = (sRun c {} ops).map (·.1) :=
  run_krel (by simp [Kind.keyed, hk]) ops {} {} krel_init

theorem spec_prio_pop (c : Cfg) (hk : c.kind = .prio) (ss : SSt) (now k : Nat) :
    (sPop c ss now k).2 = firstMin ss.held := by
  unfold sPop; rw [hk]; simp only; split <;> simp_all

theorem spec_deadline_pop (c : Cfg) (hk : c.kind = .deadline) (ss : SSt) (now k : Nat) :
    (sPop c ss now k).2 = firstMin (ss.held.filter fun x => decide (now ≤ x.key)) := by
  unfold sPop; rw [hk]; simp only; split <;> simp_all

/-- the stable minimum really is one: it is held, its key is minimal, and nothing before it has the same key -/
theorem firstMin_is_stable_min (l : List Item) (m : Item) (h : firstMin l = some m) :
    m ∈ l ∧ (∀ y ∈ l, m.key ≤ y.key) ∧ ∃ pre post, l = pre ++ m :: post ∧ ∀ y ∈ pre, m.key < y.key := by
  refine ⟨List.mem_of_find?_eq_some h, (isMinIn_iff l m).mp (List.find?_some h), ?_⟩
  obtain ⟨hm, pre, post, hl, hpre⟩ := List.find?_eq_some_iff_append.mp h
  refine ⟨pre, post, hl, fun y hy => ?_⟩
  have hn := hpre y hy
  have hmin := (isMinIn_iff l m).mp hm
  have hy' : y ∈ l := by rw [hl]; exact List.mem_append_left _ hy
  cases hc : isMinIn l y with
  | true => rw [hc] at hn; simp at hn
  | false =>
    have : ¬ ∀ z ∈ l, y.key ≤ z.key := fun hall => by
      rw [(isMinIn_iff l y).mpr hall] at hc; cases hc
    have h1 := hmin y hy'
    by_cases hlt : m.key < y.key
    · exact hlt
    · exact absurd (fun z hz => by have := hmin z hz; omega) this

/-- fair share (FairQueue, WeightedFairQueue, with or without BalkingQueue): for every operation list
    the `OrderedDict`-of-deques model answers exactly like the list specification, in which the
    backlogged flow that was served — or became backlogged — least recently is served next, oldest
    item of that flow first (`spec_fair_pop`), a flow of weight w keeping its turn for w consecutive
    items; `get_flow_depth`, `flow_count`, `get_flow_weight` agree with the held list -/
theorem fair_rr (c : Cfg) (hk : c.kind = .fair ∨ c.kind = .wfq) (ops : List Op) :
    (run c {} ops).map (·.1) = (sRun c {} ops).map (·.1) := by
  rcases hk with hk | hk
  · exact run_frel (fair := true) (Or.inl ⟨hk, rfl⟩) ops {} {} (frel_init true)
  · exact run_frel (fair := false) (Or.inr ⟨hk, rfl⟩) ops {} {} (frel_init false)

/-- what the specification's fair-share pop returns: the oldest held item of the flow holding the
    smallest service ticket -/
theorem spec_fair_pop (c : Cfg) (hk : c.kind = .fair ∨ c.kind = .wfq) (ss : SSt) (now k : Nat) :
    (sPop c ss now k).2 = (minAct ss.act).bind fun a => ss.held.find? (·.flow == a.fid) := by
  unfold sPop
  rcases hk with hk | hk <;> simp only [hk] <;> (cases minAct ss.act <;> simp only [Option.bind]) <;>
    (split <;> rename_i h <;> simp [h])

/-- three flows, round robin; flow 0 has two items -/
example : (run { kind := .fair } {} [.push ⟨0, 0, 0⟩ 0 false false, .push ⟨1, 0, 0⟩ 0 false false,
      .push ⟨2, 0, 1⟩ 0 false false, .push ⟨3, 0, 2⟩ 0 false false, .pop 0 0, .pop 0 0, .pop 0 0, .pop 0 0]).map (·.1)
    = [.pushed true, .pushed true, .pushed true, .pushed true,
       .popped (some ⟨0, 0, 0⟩), .popped (some ⟨2, 0, 1⟩), .popped (some ⟨3, 0, 2⟩), .popped (some ⟨1, 0, 0⟩)] := by decide

/-- weighted: flow 0 (weight 2) is served twice per turn -/
example : (run { kind := .wfq, weights := [2, 1] } {} [.push ⟨0, 0, 0⟩ 0 false false, .push ⟨1, 0, 0⟩ 0 false false,
      .push ⟨2, 0, 0⟩ 0 false false, .push ⟨3, 0, 1⟩ 0 false false, .pop 0 0, .pop 0 0, .pop 0 0, .pop 0 0]).map (·.1)
    = [.pushed true, .pushed true, .pushed true, .pushed true,
       .popped (some ⟨0, 0, 0⟩), .popped (some ⟨1, 0, 0⟩), .popped (some ⟨3, 0, 1⟩), .popped (some ⟨2, 0, 0⟩)] := by decide

/-- a purge between the pushes and the pops: two expired entries leave, the survivors come out
    earliest-deadline-first (the input shape of a heap compaction that would lose the order) -/
example : (run { kind := .deadline } {}
    [.push ⟨0, 2, 0⟩ 1 false false, .push ⟨1, 3, 0⟩ 1 false false, .push ⟨2, 60, 0⟩ 1 false false,
     .push ⟨3, 90, 0⟩ 1 false false, .push ⟨4, 50, 0⟩ 1 false false, .push ⟨5, 40, 0⟩ 1 false false,
     .purge 4, .pop 4 0, .pop 4 0, .pop 4 0]).map (·.1)
    = [.pushed true, .pushed true, .pushed true, .pushed true, .pushed true, .pushed true,
       .purged 2, .popped (some ⟨5, 40, 0⟩), .popped (some ⟨4, 50, 0⟩), .popped (some ⟨2, 60, 0⟩)] := by decide

example : (run { kind := .lifo, cap := some 2 } {}
    [.push ⟨0, 0, 0⟩ 0 false false, .push ⟨1, 0, 0⟩ 0 false false, .push ⟨2, 0, 0⟩ 0 false false, .pop 0 0]).map (·.1)
    = [.pushed true, .pushed true, .pushed false, .popped (some ⟨1, 0, 0⟩)] := by decide

/-- concrete run with ties -/
example : (run { kind := .prio } {} [.push ⟨0, 5, 0⟩ 0 false false, .push ⟨1, 3, 0⟩ 0 false false,
      .push ⟨2, 3, 0⟩ 0 false false, .pop 0 0, .pop 0 0]).map (·.1)
    = (sRun { kind := .prio } {} [.push ⟨0, 5, 0⟩ 0 false false, .push ⟨1, 3, 0⟩ 0 false false,
      .push ⟨2, 3, 0⟩ 0 false false, .pop 0 0, .pop 0 0]).map (·.1) := by decide

example : len { kind := .prio, cap := some 1 } (finalSt { kind := .prio, cap := some 1 } {}
    [.push ⟨0, 5, 0⟩ 0 false false, .push ⟨1, 3, 0⟩ 0 false false, .pop 0 0, .push ⟨2, 1, 0⟩ 0 false false]) = 1 := by decide

example : (finalSt { kind := .deadline } {}
    [.push ⟨0, 5, 0⟩ 0 false false, .push ⟨1, 9, 0⟩ 0 false false, .pop 7 0]).drp = 1 := by decide

end HappyModel.C08

namespace HappyModel.C08.Pipe
open HappyModel.C08

/-! ## Part 2 — Queue + QueueDriver + Server (repaired driver)

`Setting c`: repaired driver, `Server` worker, queue policy FIFO / LIFO / stable priority / deadline /
adaptive LIFO / fair / weighted fair, with or without the balking wrapper (`Plain`, which also says
what the pipeline model does not exercise: expiry, balking draws).  `Sched c s as`: the schedule `as`
is admissible from `s` (a `QueueDispatchedEvent` is never delivered before the payload it follows).
Every statement is about `final c s₀ as` for **every** admissible `as`; since every prefix of an
admissible schedule is admissible (`sched_take`), that is: after every event of every run. -/

/-- the protocol invariant and the policy refinement relation at the end of an admissible schedule -/
theorem final_pinv {c : PCfg} (st : Setting c) (lim : Nat) (as : List Act) (hs : Sched c { limit := lim } as) :
    PInv c (final c { limit := lim } as) :=
  (final_inv st as _ {} hs (inv_init c lim) (polrel_init _)).1

/-- work in service never exceeds the concurrency limit, for every admissible delivery schedule -/
theorem in_service_le_limit {c : PCfg} (st : Setting c) (lim : Nat) (as : List Act)
    (hs : Sched c { limit := lim } as) :
    (final c { limit := lim } as).inService.length ≤ lim ∧
    (final c { limit := lim } as).active = (final c { limit := lim } as).inService.length := by
  have h := final_pinv st lim as hs
  have hl : (final c { limit := lim } as).limit = lim := final_limit as _ hs
  refine ⟨?_, h.act⟩
  have := h.le
  rw [h.act, hl] at this
  exact this

/-- an item the queue accepted is never discarded by the worker (`requests_rejected` stays 0):
    the only rejection is the counted one at offer time -/
theorem no_accepted_item_discarded {c : PCfg} (st : Setting c) (lim : Nat) (as : List Act)
    (hs : Sched c { limit := lim } as) : (final c { limit := lim } as).rejected = 0 :=
  (final_pinv st lim as hs).rej

/-- every accepted item is waiting, in transit inside the current instant, in service or completed:
    the four populations add up to `stats_accepted` at every point of every admissible schedule.
    (Counting form of `item_state_partition_full`.) -/
theorem item_state_partition_partial {c : PCfg} (st : Setting c) (lim : Nat) (as : List Act)
    (hs : Sched c { limit := lim } as) :
    let s := final c { limit := lim } as
    s.acc = s.depth c + (s.delivers.length + s.works.length) + s.inService.length + s.completed := by
  have h := (final_pinv st lim as hs).count
  simp only; omega

/-- **item_state_partition**, identities: for every setting, limit and admissible schedule whose
    offered item ids are pairwise distinct, at the end of the schedule — hence, every prefix of an
    admissible schedule being one (`item_state_partition_every_event`), after every event — every
    offered id is in exactly one of rejected-and-counted (`refused`, `dropped` counts them) /
    waiting (`waitIds`: the queue policy's contents) / in transit (`delivers`, `works`) / in
    service / completed (`done`, `completed` counts them): the concatenation of the populations
    is a permutation of the offered ids and every offered id occurs in it exactly once; `done`
    has no duplicates (completed at most once); nothing was discarded after dequeue.
    `ghost` reads the refused / accepted / completed ids off the visible trace of `run`
    (`ghost_eq_fold`). -/
theorem item_state_partition_full {c : PCfg} (st : Setting c) (lim : Nat) (as : List Act)
    (hs : Sched c { limit := lim } as) (hd : (offeredIds as).Nodup) :
    Partition c (final c { limit := lim } as) (ghost c { limit := lim } {} as) (offeredIds as) := by
  have hf := final_inv st as _ {} hs (inv_init c lim) (polrel_init _)
  have hg := final_ginv c as _ {} {} (polrel_init _) (ginv_init lim)
  have ho : (ghost c { limit := lim } {} as).offered = offeredIds as := by
    rw [ghost_offered]; rfl
  have := partition_of_inv hf.2 hg hf.1.rej (by rw [ho]; exact hd)
  rw [ho] at this; exact this

/-- the same after every event: the state after the first `n` deliveries of an admissible schedule -/
theorem item_state_partition_every_event {c : PCfg} (st : Setting c) (lim : Nat) (as : List Act)
    (hs : Sched c { limit := lim } as) (hd : (offeredIds as).Nodup) (n : Nat) :
    Partition c (final c { limit := lim } (as.take n)) (ghost c { limit := lim } {} (as.take n))
      (offeredIds (as.take n)) :=
  item_state_partition_full st lim (as.take n) (sched_take n as _ hs) (offeredIds_take_nodup hd n)

/-- no item is lost or duplicated by **any** variant, worker or schedule (admissible or not): with
    the seventh population "discarded by the `Server` after dequeue" (`requests_rejected`), every
    offered id is in exactly one population — also under the unrepaired driver, whose defect
    (`double_poll_discards`) is that the seventh population is not empty -/
theorem item_state_partition_any_schedule (c : PCfg) (lim : Nat) (as : List Act) (hd : (offeredIds as).Nodup) :
    Partition7 c (final c { limit := lim } as) (ghost c { limit := lim } {} as) (offeredIds as) := by
  have hr := final_rel c as { limit := lim } {} (polrel_init _)
  have hg := final_ginv c as _ {} {} (polrel_init _) (ginv_init lim)
  have ho : (ghost c { limit := lim } {} as).offered = offeredIds as := by
    rw [ghost_offered]; rfl
  have := partition7_of_inv hr hg (by rw [ho]; exact hd)
  rw [ho] at this; exact this

/-- **fifo_end_to_end**, service starts: with a FIFO queue (any limit) the accepted ids, in
    acceptance order, are exactly: the ids whose service has started, in start order, then the (at
    most one) id in transit, then the waiting ids in queue order — so items start service in the
    order they were accepted, after every event of every admissible schedule -/
theorem fifo_start_order {c : PCfg} (st : Setting c) (hk : c.pol.kind = .fifo) (lim : Nat) (as : List Act)
    (hs : Sched c { limit := lim } as) :
    let s := final c { limit := lim } as
    let g := ghost c { limit := lim } {} as
    g.accepted = g.started ++ ((s.delivers ++ s.works) ++ waitIds c.pol s.q) ∧
    (s.delivers ++ s.works).length ≤ 1 ∧ g.started <+: g.accepted := by
  have hf := final_inv st as _ {} hs (inv_init c lim) (polrel_init _)
  have ho := (final_finv st hk as _ {} {} hs (polrel_init _) (inv_init c lim) (finv_init lim)).ord
  rw [← polrel_waitIds_eq hf.2 (by simp [Kind.isFlow, hk])] at ho
  exact ⟨ho, transit_le_one hf.1, ho ▸ List.prefix_append _ _⟩

/-- **fifo_end_to_end**: with a FIFO queue and one slot (concurrency limit 1) the accepted ids, in
    acceptance order, are exactly: the completed ids in completion order, then the (at most one)
    id in service or on its way to the worker, then the waiting ids in queue order — so items
    complete in the order they were accepted: `done` is a prefix of `accepted` after every event
    of every admissible schedule -/
theorem fifo_end_to_end {c : PCfg} (st : Setting c) (hk : c.pol.kind = .fifo) (as : List Act)
    (hs : Sched c { limit := 1 } as) :
    let s := final c { limit := 1 } as
    let g := ghost c { limit := 1 } {} as
    g.accepted = g.done ++ ((s.inService ++ (s.delivers ++ s.works)) ++ waitIds c.pol s.q) ∧
    (s.inService ++ (s.delivers ++ s.works)).length ≤ 1 ∧ g.done <+: g.accepted := by
  have hf := final_inv st as _ {} hs (inv_init c 1) (polrel_init _)
  have hl : (final c { limit := 1 } as).limit = 1 := final_limit as _ hs
  have hfi := final_finv st hk as _ {} {} hs (polrel_init _) (inv_init c 1) (finv_init 1)
  have ho := hfi.ord
  rw [← polrel_waitIds_eq hf.2 (by simp [Kind.isFlow, hk]), hfi.one hl] at ho
  have ho' : (ghost c { limit := 1 } {} as).accepted = (ghost c { limit := 1 } {} as).done ++
      (((final c { limit := 1 } as).inService ++ ((final c { limit := 1 } as).delivers ++ (final c { limit := 1 } as).works)) ++
        waitIds c.pol (final c { limit := 1 } as).q) := by
    rw [ho]; simp only [List.append_assoc]
  exact ⟨ho', busy_le_one hf.1 hl, ho' ▸ List.prefix_append _ _⟩

/-- no strand: whenever the component is quiescent (no protocol event pending, so simulated time is
    about to pass) and an item waits, the worker has no free slot -/
theorem no_strand {c : PCfg} (st : Setting c) (lim : Nat) (as : List Act)
    (hs : Sched c { limit := lim } as) :
    quiescent (final c { limit := lim } as) = true → 0 < (final c { limit := lim } as).depth c →
      (final c { limit := lim } as).limit ≤ (final c { limit := lim } as).active := by
  have h := final_pinv st lim as hs
  generalize final c { limit := lim } as = s at h
  intro hq hd
  by_cases hlt : s.active < s.limit
  · have := h.strand hd hlt
    simp only [quiescent, Bool.and_eq_true, beq_iff_eq, List.isEmpty_iff] at hq
    obtain ⟨⟨⟨⟨⟨h1, h2⟩, h3⟩, h4⟩, h5⟩, h6⟩ := hq
    rcases this with g | g | g | g | ⟨g, _⟩
    · omega
    · omega
    · rw [h5] at g; simp at g
    · omega
    · omega
  · omega

/-! ### non-vacuity: the repaired run of the §9-8 input is an admissible schedule that ends with
    three completions, and at one point has an item waiting while the server is full -/

def cfgR : PCfg := { variant := .repaired, worker := .server, pol := { kind := .fifo } }
def cfgC : PCfg := { variant := .current, worker := .server, pol := { kind := .fifo } }
def itA : Item := ⟨0, 0, 0⟩
def itC : Item := ⟨1, 0, 0⟩
def itD : Item := ⟨2, 0, 0⟩

/-- deliveries of the patched implementation for A@1s, C and D @2s behind A's continuation -/
def schedR : List Act :=
  [.arr itA, .notify, .poll, .deliver (some 0), .work 0, .disp,
   .fin 0, .arr itC, .arr itD, .poll, .notify, .deliver (some 1), .work 1, .disp,
   .fin 1, .poll, .deliver (some 2), .work 2, .disp, .fin 2, .poll, .deliver none]

example : Setting cfgR := ⟨rfl, rfl, Or.inl rfl⟩
example : Sched cfgR { limit := 1 } schedR := by decide
example : (final cfgR { limit := 1 } schedR).completed = 3 ∧ (final cfgR { limit := 1 } schedR).acc = 3 := by decide
example : let s := final cfgR { limit := 1 } (schedR.take 14)
    quiescent s = true ∧ s.depth cfgR = 1 ∧ s.active = 1 := by decide

/-! ### non-vacuity of the identity and order theorems: a FIFO queue of capacity 1 in front of a
    one-slot server; item 2 is refused (queue full), items 1 and 3 wait, three items complete -/

def cfgK : PCfg := { variant := .repaired, worker := .server, pol := { kind := .fifo, cap := some 1 } }
def itm (i : Nat) : Item := ⟨i, 0, 0⟩

def schedK : List Act :=
  [.arr (itm 0), .notify, .poll, .arr (itm 1), .arr (itm 2), .deliver (some 0), .work 0, .disp,
   .fin 0, .poll, .arr (itm 3), .deliver (some 1), .work 1, .disp, .notify,
   .fin 1, .poll, .deliver (some 3), .work 3, .disp, .fin 3, .poll, .deliver none]

example : Setting cfgK := ⟨rfl, rfl, Or.inl rfl⟩
/-- the hypotheses of `item_state_partition_full` and `fifo_end_to_end` hold of it -/
example : Sched cfgK { limit := 1 } schedK ∧ (offeredIds schedK).Nodup ∧ cfgK.pol.kind = .fifo := by decide
/-- at the end: one refused and counted, three completed once each, in acceptance order -/
example : ghost cfgK { limit := 1 } {} schedK =
    { offered := [0, 1, 2, 3], refused := [2], accepted := [0, 1, 3], started := [0, 1, 3], done := [0, 1, 3] } ∧
    (final cfgK { limit := 1 } schedK).dropped = 1 ∧ (final cfgK { limit := 1 } schedK).completed = 3 := by decide
/-- after 14 events every population but "in transit" is inhabited: item 2 refused, item 3 waiting,
    item 1 in service, item 0 completed — and the conclusions of the theorems, computed -/
example : let s := final cfgK { limit := 1 } (schedK.take 14)
    let g := ghost cfgK { limit := 1 } {} (schedK.take 14)
    g.refused = [2] ∧ waitIds cfgK.pol s.q = [3] ∧ s.delivers ++ s.works = [] ∧ s.inService = [1] ∧ g.done = [0] ∧
    populations cfgK s g = [2, 3, 1, 0] ∧ g.accepted = g.done ++ ((s.inService ++ (s.delivers ++ s.works)) ++ waitIds cfgK.pol s.q) := by
  decide
/-- after 10 events item 1 is in transit (dequeued, not yet at the worker) -/
example : (final cfgK { limit := 1 } (schedK.take 10)).delivers = [1] := by decide

/-- the wider setting: a fair queue behind the balking wrapper; flow 0 holds items 0 and 1, flow 1
    item 2 — served round robin, item 1 still waits -/
def cfgF : PCfg := { variant := .repaired, worker := .server, pol := { kind := .fair, balk := some 1 } }
def schedF : List Act :=
  [.arr ⟨0, 0, 0⟩, .arr ⟨1, 0, 0⟩, .arr ⟨2, 0, 1⟩, .notify, .poll, .deliver (some 0), .work 0, .disp,
   .fin 0, .poll, .deliver (some 2), .work 2, .disp]

example : Setting cfgF := ⟨rfl, rfl, Or.inr (Or.inr (Or.inr (Or.inr (Or.inr (Or.inl rfl)))))⟩
example : Sched cfgF { limit := 1 } schedF ∧ (offeredIds schedF).Nodup := by decide
example : populations cfgF (final cfgF { limit := 1 } schedF) (ghost cfgF { limit := 1 } {} schedF) = [1, 2, 0] ∧
    (final cfgF { limit := 1 } schedF).inService = [2] := by decide

/-! ### the current code falsifies the clauses (DESIGN §9-8): concrete delivery sequences of the
    unpatched implementation, replayed on the `current` variant -/

/-- deliveries of the unpatched implementation for the same input -/
def schedC : List Act :=
  [.arr itA, .notify, .poll, .deliver (some 0), .work 0,
   .fin 0, .arr itC, .arr itD, .poll, .notify, .deliver (some 1), .work 1, .poll, .deliver (some 2), .work 2]

/-- a completion-hook poll and a notify poll in one instant dequeue two items for one slot; the
    `Server` discards the second after dequeue: accepted 3, and one accepted item is rejected -/
theorem double_poll_discards :
    (final cfgC { limit := 1 } schedC).rejected = 1 ∧ (final cfgC { limit := 1 } schedC).acc = 3 ∧
    (final cfgC { limit := 1 } schedC).depth cfgC = 0 := by decide

/-- the unrepaired driver on the §9-8 input: nothing is lost, but item 2 ends in the seventh population -/
example : (ghost cfgC { limit := 1 } {} schedC).discarded = [2] ∧ (offeredIds schedC).Nodup := by decide

/-- with a worker that does not re-check (plain QueuedResource / ShiftedServer) the limit is exceeded -/
theorem double_poll_over_admits :
    (final { cfgC with worker := .shifted } { limit := 1 } schedC).inService.length = 2 := by decide

/-- a burst of two on one nanosecond at a two-slot server: one notify, one poll — the second item
    waits beside a free slot with nothing pending (the current driver strands it for a service time) -/
theorem burst_strands_current :
    let s := final cfgC { limit := 2 } [.arr itA, .arr itC, .notify, .poll, .deliver (some 0), .work 0]
    quiescent s = true ∧ s.depth cfgC = 1 ∧ s.active < s.limit := by decide

/-- ShiftedServer, capacity 0 → 2 with five jobs queued: nothing is pending afterwards (§9-8b) -/
theorem shift_change_strands_current :
    let s := final { cfgC with worker := .shifted } { limit := 0 }
      [.arr itA, .notify, .arr itC, .arr itD, .shift 2]
    quiescent s = true ∧ s.depth cfgC = 3 ∧ s.active < s.limit := by decide

/-- the repaired shift change wakes the driver -/
example :
    let s := final { cfgR with worker := .shifted } { limit := 0 } [.arr itA, .notify, .arr itC, .arr itD, .shift 2]
    quiescent s = false := by decide

/-- the schedule hypothesis is needed: if the engine delivered the driver's note before the payload
    it follows, the repaired driver would over-poll too -/
theorem dispatched_before_payload_breaks :
    (final cfgR { limit := 1 }
      [.arr itA, .arr itC, .notify, .poll, .deliver (some 0), .disp, .poll, .deliver (some 1), .work 0, .work 1]).rejected = 1 := by
  decide

end HappyModel.C08.Pipe
