import HappyProofs.C08.FairBase
/-!
Fair-share policies, part 2: the relation between the model's flow dictionary and the
specification's held list + service tickets, and its preservation by the three kinds of accepted
push and the three outcomes of a pop.
-/
namespace HappyModel.C08

/-- `fair = true` for FairQueue (every flow has weight = credits = 1) -/
structure FRel (fair : Bool) (s : St) (ss : SSt) : Prop where
  sig : s.flows.map sig3 = ss.act.map asig3
  nodup : (s.flows.map (·.fid)).Nodup
  qs : ∀ f, flowQ s.flows f = ss.held.filter (·.flow == f)
  nonempty : ∀ fl ∈ s.flows, fl.q ≠ []
  tickets : ss.act.Pairwise (fun a b => a.ticket < b.ticket)
  below : ∀ a ∈ ss.act, a.ticket < ss.clock
  credits : ∀ fl ∈ s.flows, 0 < fl.credits ∧ 0 < fl.weight
  one : fair = true → ∀ fl ∈ s.flows, fl.weight = 1 ∧ fl.credits = 1
  total : s.total = ss.held.length

theorem frel_init (fair : Bool) : FRel fair {} {} :=
  ⟨rfl, by simp, by intro f; simp [flowQ, findFlow], by simp, by simp, by simp, by simp, by simp, rfl⟩

theorem sig_fids {fs : List FlowSt} {as : List Act} (h : fs.map sig3 = as.map asig3) :
    fs.map (·.fid) = as.map (·.fid) := by
  have := congrArg (List.map (·.1)) h
  simpa [List.map_map, Function.comp_def, sig3, asig3] using this

theorem sig_length {fs : List FlowSt} {as : List Act} (h : fs.map sig3 = as.map asig3) :
    fs.length = as.length := by
  have := congrArg List.length h
  simpa using this

theorem FRel.same {fair : Bool} {s : St} {ss : SSt} (h : FRel fair s ss) (s' : St)
    (hf : s'.flows = s.flows) (ht : s'.total = s.total) : FRel fair s' ss :=
  ⟨by rw [hf]; exact h.sig, by rw [hf]; exact h.nodup, by rw [hf]; exact h.qs, by rw [hf]; exact h.nonempty,
   h.tickets, h.below, by rw [hf]; exact h.credits, by rw [hf]; exact h.one, by rw [ht]; exact h.total⟩

/-- what the dictionary knows about the flow of an arriving item -/
theorem FRel.flow_none {fair : Bool} {s : St} {ss : SSt} (h : FRel fair s ss) {f : Nat}
    (hn : findFlow s.flows f = none) : ss.held.filter (·.flow == f) = [] := by
  rw [← h.qs f]; unfold flowQ; rw [hn]

theorem FRel.flow_some {fair : Bool} {s : St} {ss : SSt} (h : FRel fair s ss) {f : Nat} {fl : FlowSt}
    (hs : findFlow s.flows f = some fl) : ss.held.filter (·.flow == f) = fl.q ∧ fl.q ≠ [] := by
  refine ⟨?_, h.nonempty fl (findFlow_some hs).1⟩
  rw [← h.qs f]; unfold flowQ; rw [hs]

/-- a first item of a new flow: the flow joins the dictionary at the end, with a fresh ticket -/
theorem FRel.new_flow {fair : Bool} {s : St} {ss : SSt} (h : FRel fair s ss) (it : Item) (w : Nat) (hw : 0 < w)
    (hfw : fair = true → w = 1) (hn : findFlow s.flows it.flow = none) (s' : St)
    (hf : s'.flows = s.flows ++ [⟨it.flow, [it], w, w⟩]) (ht : s'.total = s.total + 1) :
    FRel fair s' ((ss.accept it).activate it.flow w) := by
  have hnot : it.flow ∉ s.flows.map (·.fid) := (findFlow_none_iff _ _).mp hn
  refine ⟨?_, ?_, ?_, ?_, ?_, ?_, ?_, ?_, ?_⟩
  · rw [hf]; simp [SSt.accept, SSt.activate, sig3, asig3, h.sig]
  · rw [hf, List.map_append, List.nodup_append]
    refine ⟨h.nodup, by simp, ?_⟩
    intro a ha b hb
    simp at hb; subst hb
    intro e; subst e; exact hnot ha
  · intro g
    rw [hf, flowQ_append_new _ _ _ hnot]
    simp only [SSt.accept, SSt.activate, List.filter_append]
    by_cases hg : it.flow = g
    · subst hg
      simp [h.flow_none hn]
    · have hb : (it.flow == g) = false := by simpa using hg
      simp [hg, h.qs g, List.filter_cons, hb]
  · intro fl hfl
    rw [hf] at hfl
    rcases List.mem_append.mp hfl with h1 | h1
    · exact h.nonempty fl h1
    · simp at h1; subst h1; simp
  · simp only [SSt.accept, SSt.activate]
    rw [List.pairwise_append]
    refine ⟨h.tickets, by simp, ?_⟩
    intro a ha b hb
    simp at hb; subst hb
    exact h.below a ha
  · intro a ha
    simp only [SSt.accept, SSt.activate] at ha ⊢
    rcases List.mem_append.mp ha with h1 | h1
    · have := h.below a h1; omega
    · simp at h1; subst h1; simp
  · intro fl hfl
    rw [hf] at hfl
    rcases List.mem_append.mp hfl with h1 | h1
    · exact h.credits fl h1
    · simp at h1; subst h1; exact ⟨hw, hw⟩
  · intro hfair fl hfl
    rw [hf] at hfl
    rcases List.mem_append.mp hfl with h1 | h1
    · exact h.one hfair fl h1
    · simp at h1; subst h1; exact ⟨hfw hfair, hfw hfair⟩
  · rw [ht, h.total]; simp [SSt.accept, SSt.activate]

/-- another item of a backlogged flow: it joins its flow's deque, tickets unchanged -/
theorem FRel.more {fair : Bool} {s : St} {ss : SSt} (h : FRel fair s ss) (it : Item) {fl : FlowSt}
    (hs : findFlow s.flows it.flow = some fl) (s' : St)
    (hf : s'.flows = appendTo s.flows it.flow it) (ht : s'.total = s.total + 1) :
    FRel fair s' (ss.accept it) := by
  have hmem : it.flow ∈ s.flows.map (·.fid) := by
    have := findFlow_some hs
    rw [← this.2]; exact List.mem_map_of_mem this.1
  refine ⟨?_, ?_, ?_, ?_, h.tickets, h.below, ?_, ?_, ?_⟩
  · rw [hf, appendTo_sig]; exact h.sig
  · rw [hf, appendTo_fids]; exact h.nodup
  · intro g
    rw [hf, flowQ_appendTo _ _ _ _ hmem]
    simp only [SSt.accept, List.filter_append]
    by_cases hg : it.flow = g
    · subst hg; simp [h.qs it.flow]
    · have hb : (it.flow == g) = false := by simpa using hg
      simp [hg, h.qs g, List.filter_cons, hb]
  · intro fl' hfl'
    rw [hf] at hfl'
    rcases appendTo_mem hfl' with h1 | h1
    · exact h1
    · exact h.nonempty fl' h1
  · rw [hf]
    intro fl' hfl'
    refine ⟨appendTo_credits (fun x hx => (h.credits x hx).1) fl' hfl', ?_⟩
    have : ∀ x ∈ appendTo s.flows it.flow it, 0 < x.weight := by
      have hsig := appendTo_sig s.flows it.flow it
      intro x hx
      have hx' : sig3 x ∈ (s.flows.map sig3) := by rw [← hsig]; exact List.mem_map_of_mem hx
      obtain ⟨y, hy, hxy⟩ := List.mem_map.mp hx'
      have := (h.credits y hy).2
      simp only [sig3, Prod.mk.injEq] at hxy
      omega
    exact this fl' hfl'
  · intro hfair fl' hfl'
    rw [hf] at hfl'
    have hsig := appendTo_sig s.flows it.flow it
    have hx' : sig3 fl' ∈ (s.flows.map sig3) := by rw [← hsig]; exact List.mem_map_of_mem hfl'
    obtain ⟨y, hy, hxy⟩ := List.mem_map.mp hx'
    have := h.one hfair y hy
    simp only [sig3, Prod.mk.injEq] at hxy
    omega
  · rw [ht, h.total]; simp [SSt.accept]

/-! ### pop: what both sides see at the head -/

structure HeadFacts (ss : SSt) (fl : FlowSt) (rest : List FlowSt) (it : Item) (q' : List Item)
    (a : Act) (as : List Act) : Prop where
  act : ss.act = a :: as
  asig : asig3 a = sig3 fl
  rsig : rest.map sig3 = as.map asig3
  min : minAct ss.act = some a
  find : ss.held.find? (·.flow == a.fid) = some it
  self : (removeFirst (·.flow == a.fid) ss.held).filter (·.flow == a.fid) = q'
  other : ∀ g, g ≠ a.fid → (removeFirst (·.flow == a.fid) ss.held).filter (·.flow == g) = ss.held.filter (·.flow == g)
  len : (removeFirst (·.flow == a.fid) ss.held).length + 1 = ss.held.length
  any : (removeFirst (·.flow == a.fid) ss.held).any (·.flow == a.fid) = !q'.isEmpty
  others : ss.act.filter (·.fid != a.fid) = as
  notin : fl.fid ∉ rest.map (·.fid)

theorem FRel.head {fair : Bool} {s : St} {ss : SSt} (h : FRel fair s ss) {fl : FlowSt} {rest : List FlowSt}
    {it : Item} {q' : List Item} (hfl : s.flows = fl :: rest) (hq : fl.q = it :: q') :
    ∃ a as, HeadFacts ss fl rest it q' a as := by
  have hsig := h.sig
  rw [hfl] at hsig
  cases hact : ss.act with
  | nil => rw [hact] at hsig; simp at hsig
  | cons a as =>
    rw [hact] at hsig
    simp only [List.map_cons, List.cons.injEq] at hsig
    obtain ⟨ha, hrest⟩ := hsig
    have hafid : a.fid = fl.fid := by simp only [sig3, asig3, Prod.mk.injEq] at ha; exact ha.1.symm
    have hqs : ss.held.filter (·.flow == a.fid) = it :: q' := by
      rw [hafid, ← h.qs fl.fid, hfl, flowQ_cons]; simp [hq]
    have hnd := h.nodup
    rw [hfl] at hnd
    have hnotin : fl.fid ∉ rest.map (·.fid) := (List.nodup_cons.mp hnd).1
    have hfind : ss.held.find? (·.flow == a.fid) = some it := by
      rw [find?_eq_filter_head, hqs]; rfl
    have hndact : ((a :: as).map (·.fid)).Nodup := by
      have := sig_fids h.sig
      rw [hfl, hact] at this
      rw [← this]; exact hnd
    refine ⟨a, as, ⟨hact, ha.symm, hrest, ?_, hfind, ?_, ?_, removeFirst_length hfind, ?_, ?_, hnotin⟩⟩
    · have := h.tickets; rw [hact] at this
      rw [hact]; exact minAct_head a as this
    · rw [filter_removeFirst_self, hqs]; rfl
    · intro g hg
      apply filter_removeFirst hfind
      have hit : it.flow = a.fid := by
        have := List.find?_some hfind
        simpa using this
      simp [hit]; exact fun e => hg e.symm
    · rw [List.any_eq_not_all_not]
      have hf := filter_removeFirst_self (p := fun x : Item => x.flow == a.fid) ss.held
      rw [hqs] at hf
      simp only [List.tail_cons] at hf
      cases hq' : q' with
      | nil =>
        rw [hq'] at hf
        simp only [List.isEmpty_nil, Bool.not_true, Bool.not_eq_false']
        rw [List.all_eq_true]
        intro x hx
        cases hp : (x.flow == a.fid) with
        | false => rfl
        | true =>
          have : x ∈ (removeFirst (fun x => x.flow == a.fid) ss.held).filter (fun x => x.flow == a.fid) :=
            List.mem_filter.mpr ⟨hx, hp⟩
          rw [hf] at this; simp at this
      | cons y ys =>
        rw [hq'] at hf
        simp only [List.isEmpty_cons, Bool.not_false, Bool.not_eq_true']
        rw [List.all_eq_false]
        have hy : y ∈ (removeFirst (fun x => x.flow == a.fid) ss.held).filter (fun x => x.flow == a.fid) := by
          rw [hf]; exact List.mem_cons_self
        obtain ⟨h1, h2⟩ := List.mem_filter.mp hy
        exact ⟨y, h1, by simp [h2]⟩
    · rw [hact]; exact filter_fid_ne_of_nodup a as hndact

end HappyModel.C08
