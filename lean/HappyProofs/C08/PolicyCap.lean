import HappyProofs.C08.PolicyPop
/-! A policy never holds more than its capacity (all policies that take `capacity`). -/
namespace HappyModel.C08

theorem len_balked (c : Cfg) (s : St) : len c { s with balked := s.balked + 1 } = len c s := by
  unfold len; cases c.kind <;> rfl

theorem capFull_false {k n : Nat} (h : capFull (some k) n = false) : n < k := by
  simpa [capFull] using h

theorem pushInner_len_le (c : Cfg) (s : St) (it : Item) (rd : Bool) (hf : c.kind ≠ .fair) (k : Nat)
    (hc : c.cap = some k) (h : len c s ≤ k) : len c (pushInner c s it rd).1 ≤ k := by
  unfold pushInner
  cases hk : c.kind <;> simp only
  case fair => exact absurd hk hf
  case wfq =>
    unfold pushWfq
    have hl : ∀ t, len c t = t.total := fun t => len_total (by simp [Kind.isFlow, hk])
    rw [hl] at h ⊢
    rw [hc]
    split
    · simpa using h
    · rename_i hfull
      have := capFull_false (Bool.eq_false_iff.mpr hfull)
      split
      · simp; omega
      · split
        · simpa using h
        · simp; omega
  case red =>
    unfold pushRed
    have hl : ∀ t, len c t = t.q.length := fun t => len_q (by simp [Kind.isFlow, hk])
    rw [hl] at h ⊢
    rw [hc]
    split
    · simpa using h
    · rename_i hfull
      have := capFull_false (Bool.eq_false_iff.mpr hfull)
      split
      · simpa using h
      · simp; omega
  all_goals
    unfold pushList
    have hl : ∀ t, len c t = t.q.length := fun t => len_q (by simp [Kind.isFlow, hk])
    rw [hl] at h ⊢
    rw [hc]
    split
    · simpa using h
    · rename_i hfull
      have := capFull_false (Bool.eq_false_iff.mpr hfull)
      simp; omega

theorem push_len_le (c : Cfg) (s : St) (it : Item) (coin rd : Bool) (hf : c.kind ≠ .fair) (k : Nat)
    (hc : c.cap = some k) (h : len c s ≤ k) : len c (push c s it coin rd).1 ≤ k := by
  unfold push
  split
  · split
    · rw [len_balked]; exact h
    · exact pushInner_len_le c s it rd hf k hc h
  · exact pushInner_len_le c s it rd hf k hc h

theorem extractMin_len_le {l : List Ent} {m : Ent} {rest : List Ent} (h : extractMin l = some (m, rest)) :
    rest.length ≤ l.length := by
  have := extractMin_length _ _ _ h; omega

theorem popDeadline_q_le (now : Nat) : ∀ (fuel : Nat) (s : St), (popDeadline now fuel s).1.q.length ≤ s.q.length
  | 0, s => by simp [popDeadline]
  | fuel + 1, s => by
    unfold popDeadline
    split
    · exact Nat.le_refl _
    · rename_i m rest hq
      have := extractMin_len_le hq
      split
      · exact Nat.le_trans (popDeadline_q_le now fuel _) (by simpa using this)
      · simpa using this

theorem popFair_total_le : ∀ (fuel : Nat) (s : St), (popFair fuel s).1.total ≤ s.total
  | 0, s => by simp [popFair]
  | fuel + 1, s => by
    unfold popFair
    split
    · exact Nat.le_refl _
    · split
      · exact Nat.le_trans (popFair_total_le fuel _) (by simp)
      · split <;> simp

theorem popWfq_total_le : ∀ (fuel : Nat) (s : St), (popWfq fuel s).1.total ≤ s.total
  | 0, s => by simp [popWfq]
  | fuel + 1, s => by
    unfold popWfq
    split
    · exact Nat.le_refl _
    · split
      · exact Nat.le_trans (popWfq_total_le fuel _) (by simp)
      · split
        · simp only; split
          · simp
          · split <;> simp
        · exact Nat.le_trans (popWfq_total_le fuel _) (by simp)

theorem pop_len_le (c : Cfg) (s : St) (now k : Nat) : len c (pop c s now k).1 ≤ len c s := by
  unfold pop
  cases hk : c.kind <;> simp only
  case fair =>
    rw [len_total (by simp [Kind.isFlow, hk]), len_total (by simp [Kind.isFlow, hk])]
    exact popFair_total_le _ _
  case wfq =>
    rw [len_total (by simp [Kind.isFlow, hk]), len_total (by simp [Kind.isFlow, hk])]
    exact popWfq_total_le _ _
  all_goals
    rw [len_q (by simp [Kind.isFlow, hk]), len_q (by simp [Kind.isFlow, hk])]
  case fifo => unfold popHead; split <;> simp_all
  case red => unfold popHead; split <;> simp_all
  case lifo => unfold popLast; split <;> simp
  case codel => unfold popCodel; split <;> simp_all; omega
  case adaptive =>
    unfold popAdaptive
    split
    · simp
    · simp only; split
      · split <;> simp_all
      · simp_all
  case prio =>
    unfold popPrio
    split
    · simp
    · rename_i m rest hq; simpa using extractMin_len_le hq
  case deadline => exact popDeadline_q_le _ _ _

theorem purge_len_le (c : Cfg) (s : St) (now : Nat) : len c (purge c s now).1 ≤ len c s := by
  unfold purge
  cases hk : c.kind <;> simp only <;> try exact Nat.le_refl _
  simp only [len, hk]
  exact List.length_filter_le _ _

/-- capacity invariant for one operation -/
theorem step_cap (c : Cfg) (s : St) (o : Op) (hf : c.kind ≠ .fair) (k : Nat) (hc : c.cap = some k)
    (h : len c s ≤ k) : len c (step c s o).1 ≤ k := by
  cases o with
  | push it now coin rd => exact push_len_le c s it coin rd hf k hc h
  | pop now kk => exact Nat.le_trans (pop_len_le c s now kk) h
  | peek now => exact h
  | purge now => exact Nat.le_trans (purge_len_le c s now) h
  | query now f => exact h

theorem finalSt_cap (c : Cfg) (hf : c.kind ≠ .fair) (k : Nat) (hc : c.cap = some k) :
    ∀ (ops : List Op) (s : St), len c s ≤ k → len c (finalSt c s ops) ≤ k
  | [], _, h => h
  | o :: os, s, h => finalSt_cap c hf k hc os _ (step_cap c s o hf k hc h)

end HappyModel.C08
