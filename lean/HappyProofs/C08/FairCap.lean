import HappyProofs.C08.PolicyCap
import HappyProofs.C08.FairBase
/-!
FairQueue never holds more than `max_flows × per_flow_capacity` items.

`held_le_capacity` (Props) covers every policy constructed with `capacity`; FairQueue has no `capacity`
argument, its bound is the product of `max_flows` and `per_flow_capacity` (the class's `capacity`
property).  The invariant `FairCapInv` says: the flow dictionary has at most `F` entries (a pop that
empties a flow deletes its entry, so the count only shrinks on pop), every per-flow deque holds at most
`B` items, and `total` is the sum of the deque lengths (part of `Cons`).  It is preserved by every
operation of the op language (push with or without the BalkingQueue wrapper, pop, peek, purge, query).

The constructor refuses `per_flow_capacity < 1`; the model's `pushFair` (like the Python) never checks the
per-flow bound for a fresh flow, so the statement needs `1 ≤ P` (see the `P = 0` example at the end).
The invariant is stated for a bound `B` with `P ≤ B` and `1 ≤ B`, which gives both the theorem under
the constructor's precondition (`B = P`) and the unconditional variant (`B = max P 1`).
-/
namespace HappyModel.C08

structure FairCapInv (c : Cfg) (F B : Nat) (s : St) : Prop where
  /-- conservation and `total = Σ per-flow deque lengths` -/
  cons : Cons c s
  /-- number of flows that have a queue -/
  nflows : s.flows.length ≤ F
  /-- every flow's deque -/
  each : ∀ fl ∈ s.flows, fl.q.length ≤ B

theorem flowSum_le (B : Nat) : ∀ (fs : List FlowSt), (∀ fl ∈ fs, fl.q.length ≤ B) → flowSum fs ≤ fs.length * B
  | [], _ => by simp [flowSum]
  | x :: xs, h => by
    have h1 := h x List.mem_cons_self
    have h2 := flowSum_le B xs (fun fl hfl => h fl (List.mem_cons_of_mem _ hfl))
    simp only [flowSum, List.length_cons, Nat.add_one_mul]
    omega

/-- the invariant bounds the held count -/
theorem FairCapInv.held {c : Cfg} {F B : Nat} {s : St} (hk : c.kind = .fair) (h : FairCapInv c F B s) :
    len c s ≤ F * B := by
  rw [len_total (by simp [Kind.isFlow, hk]), h.cons.tot]
  exact Nat.le_trans (flowSum_le B _ h.each) (Nat.mul_le_mul_right B h.nflows)

theorem fairCapInv_init (c : Cfg) (F B : Nat) : FairCapInv c F B {} :=
  ⟨cons_init c, Nat.zero_le _, fun fl h => by simp at h⟩

/-! ### push -/

theorem appendTo_length (fs : List FlowSt) (f : Nat) (it : Item) : (appendTo fs f it).length = fs.length := by
  have := congrArg List.length (appendTo_fids fs f it)
  simpa using this

theorem appendTo_each (B : Nat) : ∀ (fs : List FlowSt) (f : Nat) (it : Item) (fl : FlowSt),
    findFlow fs f = some fl → fl.q.length < B → (∀ x ∈ fs, x.q.length ≤ B) →
    ∀ x ∈ appendTo fs f it, x.q.length ≤ B
  | [], _, _, _, h, _, _ => by simp [findFlow] at h
  | y :: ys, f, it, fl, h, hlt, hall => by
    intro x hx
    rw [findFlow_cons] at h
    simp only [appendTo] at hx
    by_cases hy : y.fid = f
    · have hb : (y.fid == f) = true := by simpa using hy
      simp only [hy, if_true] at h
      cases h
      simp only [hb, if_true] at hx
      rcases List.mem_cons.mp hx with hx | hx
      · subst hx; simp; omega
      · exact hall x (List.mem_cons_of_mem _ hx)
    · have hb : (y.fid == f) = false := by simpa using hy
      simp only [hy, if_false] at h
      simp only [hb, Bool.false_eq_true, if_false] at hx
      rcases List.mem_cons.mp hx with hx | hx
      · subst hx; exact hall _ List.mem_cons_self
      · exact appendTo_each B ys f it fl h hlt (fun z hz => hall z (List.mem_cons_of_mem _ hz)) x hx

theorem pushFair_shape {c : Cfg} {F P B : Nat} (hF : c.maxFlows = some F) (hP : c.perFlow = some P)
    (hPB : P ≤ B) (hB : 1 ≤ B) {s : St} (h1 : s.flows.length ≤ F) (h2 : ∀ fl ∈ s.flows, fl.q.length ≤ B)
    (it : Item) :
    (pushFair c s it).1.flows.length ≤ F ∧ ∀ fl ∈ (pushFair c s it).1.flows, fl.q.length ≤ B := by
  unfold pushFair
  split
  · rw [hF]
    split
    · exact ⟨h1, h2⟩
    · rename_i hfull
      have hlt := capFull_false (Bool.eq_false_iff.mpr hfull)
      refine ⟨by simp; omega, ?_⟩
      intro x hx
      simp only [List.mem_append, List.mem_singleton] at hx
      rcases hx with hx | hx
      · exact h2 x hx
      · subst hx; simpa using hB
  · rename_i fl hfl
    rw [hP]
    split
    · exact ⟨h1, h2⟩
    · rename_i hfull
      have hlt := capFull_false (Bool.eq_false_iff.mpr hfull)
      refine ⟨by simpa [appendTo_length] using h1, ?_⟩
      exact appendTo_each B s.flows it.flow it fl hfl (by omega) h2

theorem pushFair_capInv {c : Cfg} {F P B : Nat} (hk : c.kind = .fair) (hF : c.maxFlows = some F)
    (hP : c.perFlow = some P) (hPB : P ≤ B) (hB : 1 ≤ B) {s : St} (h : FairCapInv c F B s) (it : Item) :
    FairCapInv c F B (pushFair c s it).1 :=
  ⟨pushFair_cons it (by simp [Kind.isFlow, hk]) h.cons,
   (pushFair_shape hF hP hPB hB h.nflows h.each it).1,
   (pushFair_shape hF hP hPB hB h.nflows h.each it).2⟩

theorem push_capInv {c : Cfg} {F P B : Nat} (hk : c.kind = .fair) (hF : c.maxFlows = some F)
    (hP : c.perFlow = some P) (hPB : P ≤ B) (hB : 1 ≤ B) {s : St} (h : FairCapInv c F B s)
    (it : Item) (coin rd : Bool) : FairCapInv c F B (push c s it coin rd).1 := by
  have hi : FairCapInv c F B (pushInner c s it rd).1 := by
    have : pushInner c s it rd = pushFair c s it := by simp only [pushInner, hk]
    rw [this]; exact pushFair_capInv hk hF hP hPB hB h it
  unfold push
  split
  · split
    · exact ⟨cons_balked h.cons, h.nflows, h.each⟩
    · exact hi
  · exact hi

/-! ### pop (a flow whose deque runs empty is deleted from the dictionary, a non-empty one rotates) -/

theorem popFair_shape (F B : Nat) : ∀ (fuel : Nat) (s : St), s.flows.length ≤ F →
    (∀ fl ∈ s.flows, fl.q.length ≤ B) →
    (popFair fuel s).1.flows.length ≤ F ∧ ∀ fl ∈ (popFair fuel s).1.flows, fl.q.length ≤ B
  | 0, s, h1, h2 => by simpa [popFair] using ⟨h1, h2⟩
  | fuel + 1, s, h1, h2 => by
    unfold popFair
    split
    · exact ⟨h1, h2⟩
    · rename_i fl rest hfl
      rw [hfl] at h1 h2
      split
      · apply popFair_shape F B fuel _
        · simp at h1 ⊢; omega
        · intro x hx; exact h2 x (List.mem_cons_of_mem _ hx)
      · rename_i it q' hq
        split
        · exact ⟨by simp at h1 ⊢; omega, fun x hx => h2 x (List.mem_cons_of_mem _ hx)⟩
        · refine ⟨by simp at h1 ⊢; omega, ?_⟩
          intro x hx
          simp only [List.mem_append, List.mem_singleton] at hx
          rcases hx with hx | hx
          · exact h2 x (List.mem_cons_of_mem _ hx)
          · subst hx
            have := h2 fl List.mem_cons_self
            rw [hq] at this
            simp at this ⊢; omega

/-- a pop never adds a flow: the dictionary shrinks by the deleted (emptied) flows -/
theorem popFair_flows_le : ∀ (fuel : Nat) (s : St), (popFair fuel s).1.flows.length ≤ s.flows.length
  | 0, s => by simp [popFair]
  | fuel + 1, s => by
    unfold popFair
    split
    · exact Nat.le_refl _
    · rename_i fl rest hfl
      split
      · exact Nat.le_trans (popFair_flows_le fuel _) (by simp [hfl])
      · split <;> simp [hfl]

theorem pop_capInv {c : Cfg} {F B : Nat} (hk : c.kind = .fair) {s : St} (h : FairCapInv c F B s)
    (now k : Nat) : FairCapInv c F B (pop c s now k).1 := by
  have hp : pop c s now k = popFair (s.flows.length + 1) s := by simp only [pop, hk]
  rw [hp]
  exact ⟨popFair_cons (by simp [Kind.isFlow, hk]) _ s h.cons,
    (popFair_shape F B _ s h.nflows h.each).1, (popFair_shape F B _ s h.nflows h.each).2⟩

theorem purge_fair {c : Cfg} (hk : c.kind = .fair) (s : St) (now : Nat) : purge c s now = (s, 0) := by
  unfold purge; simp [hk]

/-! ### every operation, and the run -/

theorem step_capInv {c : Cfg} {F P B : Nat} (hk : c.kind = .fair) (hF : c.maxFlows = some F)
    (hP : c.perFlow = some P) (hPB : P ≤ B) (hB : 1 ≤ B) {s : St} (h : FairCapInv c F B s) (o : Op) :
    FairCapInv c F B (step c s o).1 := by
  cases o with
  | push it now coin rd => exact push_capInv hk hF hP hPB hB h it coin rd
  | pop now k => exact pop_capInv hk h now k
  | peek now => exact h
  | purge now =>
    show FairCapInv c F B (purge c s now).1
    rw [purge_fair hk]; exact h
  | query now f => exact h

theorem finalSt_capInv {c : Cfg} {F P B : Nat} (hk : c.kind = .fair) (hF : c.maxFlows = some F)
    (hP : c.perFlow = some P) (hPB : P ≤ B) (hB : 1 ≤ B) :
    ∀ (ops : List Op) (s : St), FairCapInv c F B s → FairCapInv c F B (finalSt c s ops)
  | [], _, h => h
  | o :: os, _, h => finalSt_capInv hk hF hP hPB hB os _ (step_capInv hk hF hP hPB hB h o)

theorem run_capInv {c : Cfg} {F P B : Nat} (hk : c.kind = .fair) (hF : c.maxFlows = some F)
    (hP : c.perFlow = some P) (hPB : P ≤ B) (hB : 1 ≤ B) :
    ∀ (ops : List Op) (s : St), FairCapInv c F B s → ∀ p ∈ run c s ops, FairCapInv c F B p.2
  | [], _, _, p, hp => by simp [run] at hp
  | o :: os, s, h, p, hp => by
    have hs := step_capInv hk hF hP hPB hB h o
    simp only [run, List.mem_cons] at hp
    rcases hp with hp | hp
    · rw [hp]; exact hs
    · exact run_capInv hk hF hP hPB hB os _ hs p hp

/-- **FairQueue never holds more than `max_flows × per_flow_capacity` items** (its `capacity` property), for
    every operation list, with or without the BalkingQueue wrapper.  `1 ≤ P` is the constructor's precondition
    (`per_flow_capacity < 1` raises). -/
theorem fair_held_le_capacity (c : Cfg) (hk : c.kind = .fair) (F P : Nat) (hF : c.maxFlows = some F)
    (hP : c.perFlow = some P) (hP1 : 1 ≤ P) (ops : List Op) :
    len c (finalSt c {} ops) ≤ F * P :=
  (finalSt_capInv hk hF hP (Nat.le_refl P) hP1 ops {} (fairCapInv_init c F P)).held hk

/-- the two factors separately: at most `F` flows have a queue, and every flow's queue holds at most `P` items
    (also as answered by `get_flow_depth`) -/
theorem fair_flows_le_capacity (c : Cfg) (hk : c.kind = .fair) (F P : Nat) (hF : c.maxFlows = some F)
    (hP : c.perFlow = some P) (hP1 : 1 ≤ P) (ops : List Op) :
    (finalSt c {} ops).flows.length ≤ F ∧
    (∀ fl ∈ (finalSt c {} ops).flows, fl.q.length ≤ P) ∧
    (∀ f, flowDepth (finalSt c {} ops).flows f ≤ P) ∧
    (finalSt c {} ops).total = flowSum (finalSt c {} ops).flows := by
  have inv := finalSt_capInv hk hF hP (Nat.le_refl P) hP1 ops {} (fairCapInv_init c F P)
  refine ⟨inv.nflows, inv.each, ?_, inv.cons.tot⟩
  intro f
  unfold flowDepth
  cases hf : findFlow (finalSt c {} ops).flows f with
  | none => exact Nat.zero_le _
  | some fl => exact inv.each fl (findFlow_some hf).1

/-- the bound holds after every operation of the run, not only at its end -/
theorem fair_held_le_capacity_run (c : Cfg) (hk : c.kind = .fair) (F P : Nat) (hF : c.maxFlows = some F)
    (hP : c.perFlow = some P) (hP1 : 1 ≤ P) (ops : List Op) :
    ∀ p ∈ run c {} ops, len c p.2 ≤ F * P ∧ p.2.flows.length ≤ F ∧ ∀ fl ∈ p.2.flows, fl.q.length ≤ P := by
  intro p hp
  have inv := run_capInv hk hF hP (Nat.le_refl P) hP1 ops {} (fairCapInv_init c F P) p hp
  exact ⟨inv.held hk, inv.nflows, inv.each⟩

/-- without the constructor's precondition: a fresh flow is accepted with one item whatever `P` is -/
theorem fair_held_le_capacity_any (c : Cfg) (hk : c.kind = .fair) (F P : Nat) (hF : c.maxFlows = some F)
    (hP : c.perFlow = some P) (ops : List Op) :
    len c (finalSt c {} ops) ≤ F * max P 1 :=
  (finalSt_capInv hk hF hP (Nat.le_max_left P 1) (Nat.le_max_right P 1) ops {}
    (fairCapInv_init c F (max P 1))).held hk

/-! ### non-vacuity -/

/-- `F = 2`, `P = 2`: four pushes (two flows, two each) are accepted and fill the queue; a fifth item of an
    existing flow is refused by `per_flow_capacity`, an item of a third flow by `max_flows`; a pop that empties
    nothing rotates; after popping flow 0 empty its entry is deleted and a third flow is accepted -/
example :
    let c : Cfg := { kind := .fair, maxFlows := some 2, perFlow := some 2 }
    let ops : List Op :=
      [.push ⟨1, 0, 0⟩ 0 false false, .push ⟨2, 0, 0⟩ 0 false false,
       .push ⟨3, 0, 1⟩ 0 false false, .push ⟨4, 0, 1⟩ 0 false false,
       .push ⟨5, 0, 0⟩ 0 false false, .push ⟨6, 0, 2⟩ 0 false false]
    (run c {} ops).map (·.1) =
      [.pushed true, .pushed true, .pushed true, .pushed true, .pushed false, .pushed false] ∧
    len c (finalSt c {} ops) = 4 ∧ (finalSt c {} ops).flows.length = 2 ∧
    (finalSt c {} ops).rejA = 1 ∧ (finalSt c {} ops).rejB = 1 ∧
    len c (finalSt c {} (ops ++ [.pop 0 0, .pop 0 0, .pop 0 0])) = 1 ∧
    (finalSt c {} (ops ++ [.pop 0 0, .pop 0 0, .pop 0 0])).flows.length = 1 ∧
    (step c (finalSt c {} (ops ++ [.pop 0 0, .pop 0 0, .pop 0 0])) (.push ⟨7, 0, 2⟩ 0 false false)).2 =
      .pushed true := by
  decide

/-- the hypothesis `1 ≤ P` is needed: with `per_flow_capacity = 0` (refused by the constructor) the model,
    like the Python `push`, still accepts the first item of a fresh flow -/
example :
    let c : Cfg := { kind := .fair, maxFlows := some 1, perFlow := some 0 }
    len c (finalSt c {} [.push ⟨1, 0, 0⟩ 0 false false]) = 1 := by
  decide

end HappyModel.C08
