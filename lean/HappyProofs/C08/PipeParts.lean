import HappyProofs.C08.PipeFifo
/-!
From the inductive invariants (`GInv`, `FInv`, `PInv`) to the statements of the property text:
the populations of a pipeline state, "every offered id is in exactly one of them", and the
FIFO order statements in terms of the concrete queue contents (`waitIds`).
-/
namespace HappyModel.C08.Pipe
open HappyModel.C08

/-- the populations of the property text, as lists of item ids:
    rejected-and-counted / waiting in the queue / in transit (`delivers`, `works`) / in service /
    completed -/
def populations (c : PCfg) (s : PSt) (g : Gh) : List Nat :=
  g.refused ++ (waitIds c.pol s.q ++ (s.delivers ++ (s.works ++ (s.inService ++ g.done))))

/-- `item_state_partition` for a state `s`, the ghost record `g` of the run that led to it and the
    list `off` of offered ids -/
structure Partition (c : PCfg) (s : PSt) (g : Gh) (off : List Nat) : Prop where
  /-- the populations together are exactly the offered ids -/
  perm : (populations c s g).Perm off
  /-- every offered id occurs exactly once in the concatenation: in one population, once -/
  one : ∀ i ∈ off, (populations c s g).count i = 1
  /-- nothing that was not offered is anywhere -/
  only : ∀ i, i ∉ off → (populations c s g).count i = 0
  /-- completed at most once -/
  once : g.done.Nodup
  /-- accepted and refused split the offered ids -/
  split : (g.refused ++ g.accepted).Perm off
  /-- rejected-**and-counted**: the public counters are the sizes of the populations -/
  dropped : s.dropped = g.refused.length
  accepted : s.acc = g.accepted.length
  completed : s.completed = g.done.length
  /-- the worker discarded nothing after dequeue -/
  discarded : g.discarded = [] ∧ s.rejected = 0

/-- the same with the seventh population of the unrepaired driver: items the `Server` discarded
    after dequeue (counted in `requests_rejected`) -/
structure Partition7 (c : PCfg) (s : PSt) (g : Gh) (off : List Nat) : Prop where
  perm : (populations c s g ++ g.discarded).Perm off
  one : ∀ i ∈ off, (populations c s g ++ g.discarded).count i = 1
  once : g.done.Nodup
  split : (g.refused ++ g.accepted).Perm off
  dropped : s.dropped = g.refused.length
  accepted : s.acc = g.accepted.length
  completed : s.completed = g.done.length
  rejected : s.rejected = g.discarded.length

theorem nodup_done_of {a b c d e f g : List Nat} (h : (a ++ (b ++ (c ++ (d ++ (e ++ f)))) ++ g).Nodup) : f.Nodup := by
  have h1 := (List.nodup_append.mp h).1
  have h2 := (List.nodup_append.mp h1).2.1
  have h3 := (List.nodup_append.mp h2).2.1
  have h4 := (List.nodup_append.mp h3).2.1
  have h5 := (List.nodup_append.mp h4).2.1
  exact (List.nodup_append.mp h5).2.1

theorem partition7_of_inv {c : PCfg} {s : PSt} {g : Gh} {ss : SSt} (hr : PolRel c.pol s.q ss) (hg : GInv s g ss)
    (hd : g.offered.Nodup) : Partition7 c s g g.offered := by
  have hperm : (populations c s g ++ g.discarded).Perm g.offered := by
    have hw := polrel_waitIds hr
    apply List.perm_iff_count.mpr
    intro a
    have := hg.perm a
    have := hw.count_eq a
    simp only [populations, pops, List.count_append] at *
    omega
  have hnd : (populations c s g ++ g.discarded).Nodup := hperm.nodup_iff.mpr hd
  refine ⟨hperm, ?_, nodup_done_of hnd, List.perm_iff_count.mpr hg.ra, hg.drop, hg.acc, hg.comp, hg.rej⟩
  intro i hi
  rw [hperm.count_eq, hd.count, if_pos hi]

theorem partition_of_inv {c : PCfg} {s : PSt} {g : Gh} {ss : SSt} (hr : PolRel c.pol s.q ss) (hg : GInv s g ss)
    (h0 : s.rejected = 0) (hd : g.offered.Nodup) : Partition c s g g.offered := by
  have h7 := partition7_of_inv hr hg hd
  have hdis : g.discarded = [] := List.eq_nil_of_length_eq_zero (by rw [← hg.rej]; exact h0)
  have e : populations c s g ++ g.discarded = populations c s g := by rw [hdis, List.append_nil]
  refine ⟨e ▸ h7.perm, fun i hi => e ▸ h7.one i hi, ?_, h7.once, h7.split, h7.dropped, h7.accepted, h7.completed,
    hdis, h0⟩
  intro i hi
  have hp : (populations c s g).Perm g.offered := e ▸ h7.perm
  rw [hp.count_eq]
  exact List.count_eq_zero.mpr hi

/-- every prefix of an admissible schedule is admissible -/
theorem sched_take {c : PCfg} : ∀ (n : Nat) (as : List Act) (s : PSt), Sched c s as → Sched c s (as.take n)
  | 0, _, _, _ => trivial
  | _ + 1, [], _, _ => trivial
  | n + 1, _ :: as, _, hs => ⟨hs.1, sched_take n as _ hs.2⟩

theorem offeredIds_take_nodup {as : List Act} (hd : (offeredIds as).Nodup) (n : Nat) :
    (offeredIds (as.take n)).Nodup :=
  hd.sublist ((List.take_sublist n as).filterMap _)

/-- at most one item is between the queue and the worker (repaired driver) -/
theorem transit_le_one {c : PCfg} {s : PSt} (h : PInv c s) : (s.delivers ++ s.works).length ≤ 1 := by
  have hrt := h.rt
  have hwf := h.wf
  have hb1 : (if s.busy = true then (1 : Nat) else 0) ≤ 1 := by split <;> omega
  simp only [List.length_append]; omega

/-- with one slot, at most one item is in service or on its way there -/
theorem busy_le_one {c : PCfg} {s : PSt} (h : PInv c s) (hl : s.limit = 1) :
    (s.inService ++ (s.delivers ++ s.works)).length ≤ 1 := by
  have hrt := h.rt
  have hwf := h.wf
  have hres := h.res
  have hact := h.act
  have hle := h.le
  have hb1 : (if s.busy = true then (1 : Nat) else 0) ≤ 1 := by split <;> omega
  simp only [List.length_append]
  by_cases hp : 1 ≤ s.nPoll + s.delivers.length + s.works.length
  · have := hres hp; omega
  · omega

end HappyModel.C08.Pipe
