import HappyModel.C08.PolicySpec
/-! Per-operation lemmas for the queue-policy model: lengths, counters, capacity. -/
namespace HappyModel.C08

def flowSum : List FlowSt → Nat
  | [] => 0
  | fl :: fs => fl.q.length + flowSum fs

theorem flowSum_append (a b : List FlowSt) : flowSum (a ++ b) = flowSum a + flowSum b := by
  induction a with
  | nil => simp [flowSum]
  | cons x xs ih => simp [flowSum, ih]; omega

theorem flowSum_appendTo (fs : List FlowSt) (f : Nat) (it : Item) (fl : FlowSt)
    (h : findFlow fs f = some fl) : flowSum (appendTo fs f it) = flowSum fs + 1 := by
  induction fs with
  | nil => simp [findFlow] at h
  | cons x xs ih =>
    by_cases hx : (x.fid == f) = true
    · simp [appendTo, hx, flowSum]; omega
    · have h' : findFlow xs f = some fl := by simpa [findFlow, List.find?, hx] using h
      have := ih h'
      simp [appendTo, hx, flowSum, this]; omega

theorem extractMin_none : ∀ l, extractMin l = none → l = []
  | [], _ => rfl
  | x :: xs, h => by
    simp only [extractMin] at h
    cases hx : extractMin xs with
    | none => rw [hx] at h; simp at h
    | some p => rw [hx] at h; simp only at h; split at h <;> simp at h

theorem extractMin_length : ∀ (l : List Ent) (m : Ent) (rest : List Ent),
    extractMin l = some (m, rest) → rest.length + 1 = l.length
  | [], _, _, h => by simp [extractMin] at h
  | x :: xs, m, rest, h => by
    simp only [extractMin] at h
    cases hx : extractMin xs with
    | none =>
      rw [hx] at h; simp at h; obtain ⟨_, rfl⟩ := h
      have := extractMin_none xs hx; subst this; rfl
    | some p =>
      obtain ⟨m', r'⟩ := p
      rw [hx] at h
      have ih := extractMin_length xs m' r' hx
      simp only at h
      split at h <;> simp at h <;> obtain ⟨_, rfl⟩ := h <;> simp <;> omega

end HappyModel.C08
