import HappyProofs.C08.IndusSound
/-!
# C08 part 3 — soundness of the judge, reneging component: the queue is FIFO
-/
namespace HappyModel.C08.Indus

/-! ## reneging: dequeue order is offer order -/

/-- ids accepted into the queue, in offer order (function of the observations only) -/
def accStep (a : List Nat) (o : Obs) : List Nat :=
  match o.act, o.res with
  | .offer id _, .acc => a ++ [id]
  | _, _ => a

/-- ids handed out by the queue, in dequeue order (function of the observations only) -/
def deqStep (d : List Nat) (o : Obs) : List Nat :=
  match o.act, o.res with
  | .deq, .got id => d ++ [id]
  | _, _ => d

def accFold : List Nat → List Obs → List Nat
  | a, [] => a
  | a, o :: r => accFold (accStep a o) r

def deqFold : List Nat → List Obs → List Nat
  | d, [] => d
  | d, o :: r => deqFold (deqStep d o) r

theorem judgeReneging_fifo {cfg : Cfg} {j j1 : Book} {o : Obs} (h : judgeReneging cfg j o = .ok j1)
    (a d : List Nat) (hi : a = d ++ j.waiting.map (·.id)) :
    accStep a o = deqStep d o ++ j1.waiting.map (·.id) := by
  unfold judgeReneging at h
  cases ha : o.act <;> simp only [ha] at h
  all_goals (try unfold judgeDone at h)
  all_goals (repeat' split at h)
  all_goals first
    | (cases h; done)
    | (cases h; simp_all [accStep, deqStep]; done)

theorem reneging_fifo_step {cfg : Cfg} {j j' : Book} {o : Obs} (hc : cfg.comp = .reneging)
    (h : judgeObs cfg j o = .ok j') (a d : List Nat) (hi : a = d ++ j.waiting.map (·.id)) :
    accStep a o = deqStep d o ++ j'.waiting.map (·.id) := by
  obtain ⟨j1, hact, hf⟩ := judgeObs_ok h
  have hj' := finishObs_eq hf
  subst hj'
  unfold judgeAct at hact
  simp only [hc] at hact
  exact judgeReneging_fifo hact a d hi

theorem judge_sound_reneging_fifo_gen (cfg : Cfg) (hc : cfg.comp = .reneging) :
    ∀ (obs : List Obs) (j : Book) (i : Nat) (a d : List Nat), a = d ++ j.waiting.map (·.id) →
      judgeRun cfg j i obs = none →
      deqFold d obs = accFold a obs ∧ ∀ k, deqFold d (obs.take k) <+: accFold a (obs.take k) := by
  intro obs
  induction obs with
  | nil =>
    intro j i a d hi h
    obtain ⟨_, _, _, _, h5⟩ := endCheck_pr (.inr hc) (judgeRun_nil h)
    rw [h5] at hi
    simp only [List.map_nil, List.append_nil] at hi
    subst hi
    simp [accFold, deqFold]
  | cons o rest ih =>
    intro j i a d hi h
    unfold judgeRun at h
    split at h
    · cases h
    · rename_i j' hj
      have hs := reneging_fifo_step hc hj a d hi
      obtain ⟨g1, g2⟩ := ih j' (i + 1) _ _ hs h
      refine ⟨by simpa [accFold, deqFold] using g1, ?_⟩
      intro k
      cases k with
      | zero => simp only [List.take_zero, accFold, deqFold]; rw [hi]; exact List.prefix_append _ _
      | succ k => simpa [accFold, deqFold] using g2 k

/-- **Soundness (FIFO, reneging).** If the judge accepts a whole transcript of the reneging component, then
after every prefix the ids the queue handed out (`deq → got id`) are, in this order, an initial segment of the
ids it accepted (`offer id → acc`); at the end the two sequences are equal (every accepted id was dequeued). -/
theorem judge_sound_reneging_fifo (cfg : Cfg) (hc : cfg.comp = .reneging) (obs : List Obs)
    (h : judgeRun cfg {} 0 obs = none) :
    deqFold [] obs = accFold [] obs ∧ ∀ k, deqFold [] (obs.take k) <+: accFold [] (obs.take k) :=
  judge_sound_reneging_fifo_gen cfg hc obs {} 0 [] [] rfl h

/-- accepted: two items dequeued in offer order (both workers free) -/
example : judgeRun { comp := .reneging, limit := 2 } {} 0
    [⟨0, .offer 0 none, .acc, [1, 1, 0, 0, 0, 0], false⟩, ⟨0, .offer 1 none, .acc, [2, 2, 0, 0, 0, 0], false⟩,
     ⟨0, .deq, .got 0, [1, 2, 0, 0, 0, 0], false⟩, ⟨0, .work 0, .start, [1, 2, 0, 1, 0, 1], false⟩,
     ⟨0, .deq, .got 1, [0, 2, 0, 1, 0, 1], false⟩, ⟨0, .work 1, .start, [0, 2, 0, 2, 0, 2], false⟩,
     ⟨5, .fin 0, .dash, [0, 2, 0, 2, 0, 1], false⟩, ⟨5, .done 0, .dash, [0, 2, 0, 2, 0, 1], false⟩,
     ⟨6, .fin 1, .dash, [0, 2, 0, 2, 0, 0], false⟩, ⟨6, .done 1, .dash, [0, 2, 0, 2, 0, 0], false⟩] = none := by decide

/-- rejected: the queue hands out the younger item first -/
example : judgeRun { comp := .reneging, limit := 2 } {} 0
    [⟨0, .offer 0 none, .acc, [1, 1, 0, 0, 0, 0], false⟩, ⟨0, .offer 1 none, .acc, [2, 2, 0, 0, 0, 0], false⟩,
     ⟨0, .deq, .got 1, [1, 2, 0, 0, 0, 0], false⟩]
    = some "indus/reneging/order at-line 2" := by decide

end HappyModel.C08.Indus
