import HappyProofs.C08.PolicyLemmas
/-! Conservation and capacity invariants of the queue-policy model, preserved by every operation. -/
namespace HappyModel.C08

def Kind.isFlow : Kind → Bool
  | .fair | .wfq => true
  | _ => false

theorem len_q {c : Cfg} {s : St} (h : c.kind.isFlow = false) : len c s = s.q.length := by
  unfold len; cases hk : c.kind <;> simp_all [Kind.isFlow]

theorem len_total {c : Cfg} {s : St} (h : c.kind.isFlow = true) : len c s = s.total := by
  unfold len; cases hk : c.kind <;> simp_all [Kind.isFlow]

/-- enqueued = dequeued + dropped + held, and the flow bookkeeping is consistent -/
structure Cons (c : Cfg) (s : St) : Prop where
  cons : s.enq = s.deq + s.deqL + s.drp + len c s
  tot : s.total = flowSum s.flows

theorem cons_init (c : Cfg) : Cons c {} := by
  constructor
  · cases hk : c.kind <;> simp [len, hk]
  · rfl

/-! ### push -/

theorem pushList_cons {c : Cfg} {s : St} (it : Item) (hk : c.kind.isFlow = false) (h : Cons c s) :
    Cons c (pushList c s it).1 := by
  obtain ⟨h1, h2⟩ := h
  rw [len_q hk] at h1
  unfold pushList
  split
  · exact ⟨by rw [len_q hk]; simpa using h1, h2⟩
  · exact ⟨by rw [len_q hk]; simp; omega, h2⟩

theorem pushRed_cons {c : Cfg} {s : St} (it : Item) (rd : Bool) (hk : c.kind.isFlow = false) (h : Cons c s) :
    Cons c (pushRed c s it rd).1 := by
  obtain ⟨h1, h2⟩ := h
  rw [len_q hk] at h1
  unfold pushRed
  split
  · exact ⟨by rw [len_q hk]; simpa using h1, h2⟩
  · split
    · exact ⟨by rw [len_q hk]; simpa using h1, h2⟩
    · exact ⟨by rw [len_q hk]; simp; omega, h2⟩

theorem pushFair_cons {c : Cfg} {s : St} (it : Item) (hk : c.kind.isFlow = true) (h : Cons c s) :
    Cons c (pushFair c s it).1 := by
  obtain ⟨h1, h2⟩ := h
  rw [len_total hk] at h1
  unfold pushFair
  split
  · split
    · exact ⟨by rw [len_total hk]; simpa using h1, h2⟩
    · refine ⟨by rw [len_total hk]; simp; omega, ?_⟩
      simp [flowSum_append, flowSum, h2]
  · rename_i fl hf
    split
    · exact ⟨by rw [len_total hk]; simpa using h1, h2⟩
    · refine ⟨by rw [len_total hk]; simp; omega, ?_⟩
      simp [flowSum_appendTo _ _ _ fl hf, h2]

theorem pushWfq_cons {c : Cfg} {s : St} (it : Item) (hk : c.kind.isFlow = true) (h : Cons c s) :
    Cons c (pushWfq c s it).1 := by
  obtain ⟨h1, h2⟩ := h
  rw [len_total hk] at h1
  unfold pushWfq
  split
  · exact ⟨by rw [len_total hk]; simpa using h1, h2⟩
  · split
    · refine ⟨by rw [len_total hk]; simp; omega, ?_⟩
      simp [flowSum_append, flowSum, h2]
    · rename_i fl hf
      split
      · exact ⟨by rw [len_total hk]; simpa using h1, h2⟩
      · refine ⟨by rw [len_total hk]; simp; omega, ?_⟩
        simp [flowSum_appendTo _ _ _ fl hf, h2]

theorem pushInner_cons {c : Cfg} {s : St} (it : Item) (rd : Bool) (h : Cons c s) :
    Cons c (pushInner c s it rd).1 := by
  unfold pushInner
  cases hk : c.kind <;> simp only
  all_goals first
    | exact pushFair_cons it (by simp [Kind.isFlow, hk]) h
    | exact pushWfq_cons it (by simp [Kind.isFlow, hk]) h
    | exact pushRed_cons it rd (by simp [Kind.isFlow, hk]) h
    | exact pushList_cons it (by simp [Kind.isFlow, hk]) h

theorem cons_balked {c : Cfg} {s : St} (h : Cons c s) : Cons c { s with balked := s.balked + 1 } := by
  obtain ⟨h1, h2⟩ := h
  refine ⟨?_, h2⟩
  have : len c { s with balked := s.balked + 1 } = len c s := by unfold len; cases c.kind <;> rfl
  rw [this]; exact h1

theorem push_cons {c : Cfg} {s : St} (it : Item) (coin rd : Bool) (h : Cons c s) :
    Cons c (push c s it coin rd).1 := by
  unfold push
  split
  · split
    · exact cons_balked h
    · exact pushInner_cons it rd h
  · exact pushInner_cons it rd h

end HappyModel.C08
