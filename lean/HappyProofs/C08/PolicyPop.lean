import HappyProofs.C08.PolicyInv
/-! Conservation is preserved by every pop. -/
namespace HappyModel.C08

theorem getLast?_some_length {α} {l : List α} {e : α} (h : l.getLast? = some e) : l.dropLast.length + 1 = l.length := by
  cases l with
  | nil => simp at h
  | cons x xs => simp

theorem popHead_cons {c : Cfg} {s : St} (hk : c.kind.isFlow = false) (h : Cons c s) : Cons c (popHead s).1 := by
  obtain ⟨h1, h2⟩ := h
  rw [len_q hk] at h1
  unfold popHead
  split
  · exact ⟨by rw [len_q hk]; exact h1, h2⟩
  · rename_i e es hq
    refine ⟨?_, h2⟩
    rw [len_q hk]; simp [hq] at h1 ⊢; omega

theorem popLast_cons {c : Cfg} {s : St} (hk : c.kind.isFlow = false) (h : Cons c s) : Cons c (popLast s).1 := by
  obtain ⟨h1, h2⟩ := h
  rw [len_q hk] at h1
  unfold popLast
  split
  · exact ⟨by rw [len_q hk]; exact h1, h2⟩
  · rename_i e hq
    refine ⟨?_, h2⟩
    have := getLast?_some_length hq
    rw [len_q hk]; simp at h1 ⊢; omega

theorem popCodel_cons {c : Cfg} {s : St} (k : Nat) (hk : c.kind.isFlow = false) (h : Cons c s) :
    Cons c (popCodel s k).1 := by
  obtain ⟨h1, h2⟩ := h
  rw [len_q hk] at h1
  unfold popCodel
  split
  · exact ⟨by rw [len_q hk]; exact h1, h2⟩
  · rename_i e es hq
    refine ⟨?_, h2⟩
    rw [len_q hk]; simp [hq] at h1 ⊢; omega

theorem popAdaptive_cons {c : Cfg} {s : St} (hk : c.kind.isFlow = false) (h : Cons c s) :
    Cons c (popAdaptive c s).1 := by
  obtain ⟨h1, h2⟩ := h
  rw [len_q hk] at h1
  unfold popAdaptive
  split
  · exact ⟨by rw [len_q hk]; exact h1, h2⟩
  · rename_i e es hq
    simp only
    split
    · split
      · exact ⟨by rw [len_q hk]; exact h1, h2⟩
      · rename_i l hl
        refine ⟨?_, h2⟩
        have := getLast?_some_length hl
        rw [len_q hk]; simp [hq] at h1 this ⊢; omega
    · refine ⟨?_, h2⟩
      rw [len_q hk]; simp [hq] at h1 ⊢; omega

theorem popPrio_cons {c : Cfg} {s : St} (hk : c.kind.isFlow = false) (h : Cons c s) : Cons c (popPrio s).1 := by
  obtain ⟨h1, h2⟩ := h
  rw [len_q hk] at h1
  unfold popPrio
  split
  · exact ⟨by rw [len_q hk]; exact h1, h2⟩
  · rename_i m rest hq
    refine ⟨?_, h2⟩
    have := extractMin_length _ _ _ hq
    rw [len_q hk]; simp at h1 ⊢; omega

theorem popDeadline_cons {c : Cfg} (now : Nat) (hk : c.kind.isFlow = false) :
    ∀ (fuel : Nat) (s : St), Cons c s → Cons c (popDeadline now fuel s).1
  | 0, s, h => by simpa [popDeadline] using h
  | fuel + 1, s, h => by
    unfold popDeadline
    split
    · exact h
    · rename_i m rest hq
      have hl := extractMin_length _ _ _ hq
      obtain ⟨h1, h2⟩ := h
      rw [len_q hk] at h1
      split
      · apply popDeadline_cons now hk fuel
        refine ⟨?_, h2⟩
        rw [len_q hk]; simp at h1 ⊢; omega
      · refine ⟨?_, h2⟩
        rw [len_q hk]; simp at h1 ⊢; omega

theorem popFair_cons {c : Cfg} (hk : c.kind.isFlow = true) :
    ∀ (fuel : Nat) (s : St), Cons c s → Cons c (popFair fuel s).1
  | 0, s, h => by simpa [popFair] using h
  | fuel + 1, s, h => by
    unfold popFair
    split
    · exact h
    · rename_i fl rest hf
      obtain ⟨h1, h2⟩ := h
      rw [len_total hk] at h1
      split
      · rename_i hq
        apply popFair_cons hk fuel
        refine ⟨by rw [len_total hk]; simpa using h1, ?_⟩
        simp [hf, flowSum, hq] at h2 ⊢; exact h2
      · rename_i it q' hq
        simp [hf, flowSum, hq] at h2
        split
        · rename_i he
          have : q' = [] := by simpa using he
          subst this
          refine ⟨by rw [len_total hk]; simp; omega, ?_⟩
          simp at h2 ⊢; omega
        · refine ⟨by rw [len_total hk]; simp; omega, ?_⟩
          simp [flowSum_append, flowSum] at h2 ⊢; omega

theorem popWfq_cons {c : Cfg} (hk : c.kind.isFlow = true) :
    ∀ (fuel : Nat) (s : St), Cons c s → Cons c (popWfq fuel s).1
  | 0, s, h => by simpa [popWfq] using h
  | fuel + 1, s, h => by
    unfold popWfq
    split
    · exact h
    · rename_i fl rest hf
      obtain ⟨h1, h2⟩ := h
      rw [len_total hk] at h1
      split
      · rename_i hq
        apply popWfq_cons hk fuel
        refine ⟨by rw [len_total hk]; simpa using h1, ?_⟩
        simp [hf, flowSum, hq] at h2 ⊢; exact h2
      · rename_i it q' hq
        simp [hf, flowSum, hq] at h2
        split
        · simp only
          split
          · rename_i he
            have : q' = [] := by simpa using he
            subst this
            refine ⟨by rw [len_total hk]; simp; omega, ?_⟩
            simp at h2 ⊢; omega
          · split
            · refine ⟨by rw [len_total hk]; simp; omega, ?_⟩
              simp [flowSum_append, flowSum] at h2 ⊢; omega
            · refine ⟨by rw [len_total hk]; simp; omega, ?_⟩
              simp [flowSum] at h2 ⊢; omega
        · apply popWfq_cons hk fuel
          refine ⟨by rw [len_total hk]; simpa using h1, ?_⟩
          simp [flowSum_append, flowSum, hq, hf] at h2 ⊢; omega

theorem pop_cons {c : Cfg} {s : St} (now k : Nat) (h : Cons c s) : Cons c (pop c s now k).1 := by
  unfold pop
  cases hk : c.kind <;> simp only
  all_goals first
    | exact popHead_cons (by simp [Kind.isFlow, hk]) h
    | exact popLast_cons (by simp [Kind.isFlow, hk]) h
    | exact popCodel_cons k (by simp [Kind.isFlow, hk]) h
    | exact popAdaptive_cons (by simp [Kind.isFlow, hk]) h
    | exact popPrio_cons (by simp [Kind.isFlow, hk]) h
    | exact popDeadline_cons now (by simp [Kind.isFlow, hk]) _ _ h
    | exact popFair_cons (by simp [Kind.isFlow, hk]) _ _ h
    | exact popWfq_cons (by simp [Kind.isFlow, hk]) _ _ h

theorem filter_length_add (p : Ent → Bool) (l : List Ent) :
    (l.filter p).length + (l.length - (l.filter p).length) = l.length := by
  have := List.length_filter_le p l; omega

/-- `purge_expired` keeps the books balanced: what leaves the heap is counted as expired -/
theorem purge_cons {c : Cfg} {s : St} (now : Nat) (h : Cons c s) : Cons c (purge c s now).1 := by
  unfold purge
  cases hk : c.kind <;> simp only <;> try exact h
  obtain ⟨h1, h2⟩ := h
  have hq : c.kind.isFlow = false := by simp [Kind.isFlow, hk]
  rw [len_q hq] at h1
  refine ⟨?_, h2⟩
  rw [len_q hq]
  have := filter_length_add (isLive now) s.q
  simp only at h1 ⊢; omega

theorem step_cons {c : Cfg} {s : St} (o : Op) (h : Cons c s) : Cons c (step c s o).1 := by
  cases o with
  | push it now coin rd => exact push_cons it coin rd h
  | pop now k => exact pop_cons now k h
  | peek now => exact h
  | purge now => exact purge_cons now h
  | query now f => exact h

theorem finalSt_cons (c : Cfg) : ∀ (ops : List Op) (s : St), Cons c s → Cons c (finalSt c s ops)
  | [], _, h => h
  | o :: os, s, h => finalSt_cons c os _ (step_cons o h)

end HappyModel.C08
