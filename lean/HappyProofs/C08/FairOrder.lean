import HappyProofs.C08.FairRel
/-!
Fair-share policies, part 3: every operation of FairQueue / WeightedFairQueue (with or without the
balking wrapper) answers like the list specification — the backlogged flow that was served, or
became backlogged, least recently is served next, oldest item first; a flow of weight w keeps its
turn for w consecutive items.
-/
namespace HappyModel.C08

theorem qs_after {fair : Bool} {s : St} {ss : SSt} (h : FRel fair s ss) {fl : FlowSt} {rest : List FlowSt}
    {it : Item} {q' : List Item} {a : Act} {as : List Act} (hfl : s.flows = fl :: rest)
    (hf : HeadFacts ss fl rest it q' a as) (g : Nat) :
    (if fl.fid = g then q' else flowQ rest g) = (removeFirst (·.flow == a.fid) ss.held).filter (·.flow == g) := by
  have hafid : a.fid = fl.fid := by
    have := hf.asig; simp only [sig3, asig3, Prod.mk.injEq] at this; exact this.1
  by_cases hg : fl.fid = g
  · subst hg; rw [if_pos rfl, ← hafid]; exact hf.self.symm
  · rw [if_neg hg, hf.other g (by rw [hafid]; exact fun e => hg e.symm), ← h.qs g, hfl, flowQ_cons, if_neg hg]

/-- outcome 1: the served flow has nothing left — it leaves the dictionary -/
theorem FRel.pop_gone {fair : Bool} {s : St} {ss : SSt} (h : FRel fair s ss) {fl : FlowSt} {rest : List FlowSt}
    {it : Item} {a : Act} {as : List Act} (hfl : s.flows = fl :: rest)
    (hf : HeadFacts ss fl rest it [] a as) (s' : St) (ss' : SSt)
    (h1 : s'.flows = rest) (h2 : s'.total = s.total - 1)
    (h3 : ss'.held = removeFirst (·.flow == a.fid) ss.held) (h4 : ss'.act = as) (h5 : ss'.clock = ss.clock) :
    FRel fair s' ss' := by
  have hnd := h.nodup; rw [hfl] at hnd
  have htk := h.tickets; rw [hf.act] at htk
  refine ⟨?_, ?_, ?_, ?_, ?_, ?_, ?_, ?_, ?_⟩
  · rw [h1, h4]; exact hf.rsig
  · rw [h1]; exact (List.nodup_cons.mp hnd).2
  · intro g
    rw [h1, h3, ← qs_after h hfl hf g]
    by_cases hg : fl.fid = g
    · subst hg; rw [if_pos rfl]; exact flowQ_not_mem hf.notin
    · rw [if_neg hg]
  · intro x hx; rw [h1] at hx; exact h.nonempty x (by rw [hfl]; exact List.mem_cons_of_mem _ hx)
  · rw [h4]; exact (List.pairwise_cons.mp htk).2
  · intro x hx; rw [h4] at hx; rw [h5]; exact h.below x (by rw [hf.act]; exact List.mem_cons_of_mem _ hx)
  · intro x hx; rw [h1] at hx; exact h.credits x (by rw [hfl]; exact List.mem_cons_of_mem _ hx)
  · intro hfair x hx; rw [h1] at hx; exact h.one hfair x (by rw [hfl]; exact List.mem_cons_of_mem _ hx)
  · rw [h2, h3, h.total]; have := hf.len; omega

/-- outcome 2: the served flow used up its turn — it moves to the end with a fresh ticket -/
theorem FRel.pop_rotate {fair : Bool} {s : St} {ss : SSt} (h : FRel fair s ss) {fl : FlowSt} {rest : List FlowSt}
    {it : Item} {q' : List Item} {a : Act} {as : List Act} (hfl : s.flows = fl :: rest)
    (hf : HeadFacts ss fl rest it q' a as) (hq' : q' ≠ []) (fl2 : FlowSt)
    (e1 : fl2.fid = fl.fid) (e2 : fl2.q = q') (e3 : fl2.weight = fl.weight) (e4 : fl2.credits = fl.weight)
    (s' : St) (ss' : SSt) (h1 : s'.flows = rest ++ [fl2]) (h2 : s'.total = s.total - 1)
    (h3 : ss'.held = removeFirst (·.flow == a.fid) ss.held)
    (h4 : ss'.act = as ++ [{ a with ticket := ss.clock, credits := a.weight }]) (h5 : ss'.clock = ss.clock + 1) :
    FRel fair s' ss' := by
  have hnd := h.nodup; rw [hfl] at hnd
  have htk := h.tickets; rw [hf.act] at htk
  have hsig := hf.asig; simp only [sig3, asig3, Prod.mk.injEq] at hsig
  have hnot2 : fl2.fid ∉ rest.map (·.fid) := by rw [e1]; exact hf.notin
  have hflmem : fl ∈ s.flows := by rw [hfl]; exact List.mem_cons_self
  refine ⟨?_, ?_, ?_, ?_, ?_, ?_, ?_, ?_, ?_⟩
  · rw [h1, h4]; simp [sig3, asig3, hf.rsig, e1, e3, e4, hsig.1, hsig.2.1]
  · rw [h1, List.map_append, List.nodup_append]
    refine ⟨(List.nodup_cons.mp hnd).2, by simp, ?_⟩
    intro x hx y hy
    simp at hy; subst hy
    intro e; subst e; exact hnot2 hx
  · intro g
    rw [h1, h3, flowQ_append_new _ _ _ hnot2, e1, e2]
    exact qs_after h hfl hf g
  · intro x hx; rw [h1] at hx
    rcases List.mem_append.mp hx with hx | hx
    · exact h.nonempty x (by rw [hfl]; exact List.mem_cons_of_mem _ hx)
    · simp at hx; subst hx; rw [e2]; exact hq'
  · rw [h4, List.pairwise_append]
    refine ⟨(List.pairwise_cons.mp htk).2, by simp, ?_⟩
    intro x hx y hy
    simp at hy; subst hy
    exact h.below x (by rw [hf.act]; exact List.mem_cons_of_mem _ hx)
  · intro x hx; rw [h4] at hx; rw [h5]
    rcases List.mem_append.mp hx with hx | hx
    · have := h.below x (by rw [hf.act]; exact List.mem_cons_of_mem _ hx); omega
    · simp at hx; subst hx; simp
  · intro x hx; rw [h1] at hx
    rcases List.mem_append.mp hx with hx | hx
    · exact h.credits x (by rw [hfl]; exact List.mem_cons_of_mem _ hx)
    · simp at hx; subst hx; rw [e3, e4]; exact ⟨(h.credits fl hflmem).2, (h.credits fl hflmem).2⟩
  · intro hfair x hx; rw [h1] at hx
    rcases List.mem_append.mp hx with hx | hx
    · exact h.one hfair x (by rw [hfl]; exact List.mem_cons_of_mem _ hx)
    · simp at hx; subst hx; rw [e3, e4]; exact ⟨(h.one hfair fl hflmem).1, (h.one hfair fl hflmem).1⟩
  · rw [h2, h3, h.total]; have := hf.len; omega

/-- outcome 3 (weighted only): the served flow keeps its turn, one credit less -/
theorem FRel.pop_stay {s : St} {ss : SSt} (h : FRel false s ss) {fl : FlowSt} {rest : List FlowSt}
    {it : Item} {q' : List Item} {a : Act} {as : List Act} (hfl : s.flows = fl :: rest)
    (hf : HeadFacts ss fl rest it q' a as) (hq' : q' ≠ []) (hcr : 1 < fl.credits) (fl3 : FlowSt)
    (e1 : fl3.fid = fl.fid) (e2 : fl3.q = q') (e3 : fl3.weight = fl.weight) (e4 : fl3.credits = fl.credits - 1)
    (s' : St) (ss' : SSt) (h1 : s'.flows = fl3 :: rest) (h2 : s'.total = s.total - 1)
    (h3 : ss'.held = removeFirst (·.flow == a.fid) ss.held)
    (h4 : ss'.act = { a with credits := a.credits - 1 } :: as) (h5 : ss'.clock = ss.clock) :
    FRel false s' ss' := by
  have hnd := h.nodup; rw [hfl] at hnd
  have htk := h.tickets; rw [hf.act] at htk
  have hsig := hf.asig; simp only [sig3, asig3, Prod.mk.injEq] at hsig
  have hflmem : fl ∈ s.flows := by rw [hfl]; exact List.mem_cons_self
  refine ⟨?_, ?_, ?_, ?_, ?_, ?_, ?_, ?_, ?_⟩
  · rw [h1, h4]; simp [sig3, asig3, hf.rsig, e1, e3, e4, hsig.1, hsig.2.1, hsig.2.2]
  · rw [h1]; simp only [List.map_cons, e1]; exact hnd
  · intro g
    rw [h1, h3, flowQ_cons, e1, e2]
    exact qs_after h hfl hf g
  · intro x hx; rw [h1] at hx
    rcases List.mem_cons.mp hx with hx | hx
    · subst hx; rw [e2]; exact hq'
    · exact h.nonempty x (by rw [hfl]; exact List.mem_cons_of_mem _ hx)
  · rw [h4]; exact List.pairwise_cons.mpr ⟨fun y hy => (List.pairwise_cons.mp htk).1 y hy, (List.pairwise_cons.mp htk).2⟩
  · intro x hx; rw [h4] at hx; rw [h5]
    rcases List.mem_cons.mp hx with hx | hx
    · subst hx; exact h.below a (by rw [hf.act]; exact List.mem_cons_self)
    · exact h.below x (by rw [hf.act]; exact List.mem_cons_of_mem _ hx)
  · intro x hx; rw [h1] at hx
    rcases List.mem_cons.mp hx with hx | hx
    · subst hx; rw [e3, e4]; exact ⟨by omega, (h.credits fl hflmem).2⟩
    · exact h.credits x (by rw [hfl]; exact List.mem_cons_of_mem _ hx)
  · intro hfair; cases hfair
  · rw [h2, h3, h.total]; have := hf.len; omega

end HappyModel.C08
