import HappyProofs.C08.KeyMin
/-!
Key-ordered policies, part 2: the code-mirroring model of `PriorityQueue` and `DeadlineQueue`
(with or without the balking wrapper) answers every operation list — push, pop (with pop-side
expiry), peek, `purge_expired`, the read-only accessors — exactly like the list specification.
-/
namespace HappyModel.C08

def Kind.keyed : Kind → Bool
  | .prio | .deadline => true
  | _ => false

theorem keyed_notFlow {c : Cfg} (h : c.kind.keyed = true) : c.kind.isFlow = false := by
  cases hk : c.kind <;> simp_all [Kind.keyed, Kind.isFlow]

/-- the held list is the heap contents in insertion order, and insert orders are fresh and increasing -/
structure KRel (s : St) (ss : SSt) : Prop where
  held : s.q.map (·.item) = ss.held
  sorted : SeqSorted s.q
  fresh : ∀ e ∈ s.q, e.seq < s.ctr

def liveI (now : Nat) (x : Item) : Bool := decide (now ≤ x.key)

theorem map_filter_live (now : Nat) (q : List Ent) :
    (q.filter (isLive now)).map (·.item) = (q.map (·.item)).filter (liveI now) := by
  rw [List.filter_map]; rfl

theorem sorted_filter {q : List Ent} (p : Ent → Bool) (h : SeqSorted q) : SeqSorted (q.filter p) :=
  List.Pairwise.sublist List.filter_sublist h

/-! ### push -/

theorem pushList_krel {c : Cfg} {s : St} {ss : SSt} (h : KRel s ss) (it : Item) :
    (pushList c s it).2 = (if capFull c.cap ss.held.length then false else true) ∧
    KRel (pushList c s it).1 (if capFull c.cap ss.held.length then ss else ss.accept it) := by
  have hl : ss.held.length = s.q.length := by rw [← h.held]; simp
  unfold pushList
  rw [hl]
  cases hf : capFull c.cap s.q.length with
  | true =>
    simp only [if_true]
    exact ⟨trivial, ⟨h.held, h.sorted, h.fresh⟩⟩
  | false =>
    simp only [Bool.false_eq_true, if_false]
    refine ⟨by first | trivial | rfl | simp, ?_, ?_, ?_⟩
    · simp [SSt.accept, h.held]
    · show SeqSorted (s.q ++ [⟨it, s.ctr⟩])
      unfold SeqSorted
      rw [List.pairwise_append]
      refine ⟨h.sorted, by simp, ?_⟩
      intro a ha b hb
      simp at hb; subst hb
      exact h.fresh a ha
    · intro e he
      simp only [List.mem_append, List.mem_singleton] at he
      rcases he with he | he
      · have := h.fresh e he; simp; omega
      · subst he; simp

theorem push_krel {c : Cfg} (hk : c.kind.keyed = true) {s : St} {ss : SSt} (h : KRel s ss)
    (it : Item) (coin rd : Bool) :
    (push c s it coin rd).2 = (sPush c ss it coin rd).2 ∧ KRel (push c s it coin rd).1 (sPush c ss it coin rd).1 := by
  have hl : len c s = ss.held.length := by rw [len_q (keyed_notFlow hk), ← h.held]; simp
  have inner : (pushInner c s it rd).2 = (sPushInner c ss it rd).2 ∧
      KRel (pushInner c s it rd).1 (sPushInner c ss it rd).1 := by
    have := pushList_krel (c := c) h it
    unfold pushInner sPushInner
    cases hkk : c.kind <;> simp [Kind.keyed, hkk] at hk <;> simp only
    all_goals
      by_cases hf : capFull c.cap ss.held.length = true
      · simp only [hf, if_true] at this ⊢; exact this
      · simp only [hf] at this ⊢; simpa using this
  unfold push sPush
  cases hb : c.balk with
  | none => simpa using inner
  | some t =>
    simp only [hl]
    by_cases hc : (decide (t ≤ ss.held.length) && coin) = true
    · simp only [hc, if_true]
      exact ⟨trivial, ⟨h.held, h.sorted, h.fresh⟩⟩
    · simp only [hc]; simpa using inner

/-! ### pop -/

theorem popPrio_krel {s : St} {ss : SSt} (h : KRel s ss) :
    (popPrio s).2 = firstMin ss.held ∧
    KRel (popPrio s).1
      (match firstMin ss.held with
       | none => ss
       | some _ => { ss with held := removeFirst (isMinIn ss.held) ss.held, deq := ss.deq + 1 }) := by
  unfold popPrio
  cases hx : extractMin s.q with
  | none =>
    have hq := extractMin_none s.q hx
    have hh : ss.held = [] := by rw [← h.held, hq]; rfl
    simp only [hh, firstMin, List.find?_nil]
    exact ⟨trivial, ⟨by rw [hq, hh]; rfl, h.sorted, h.fresh⟩⟩
  | some p =>
    obtain ⟨m, rest⟩ := p
    obtain ⟨h1, h2⟩ := extractMin_firstMin s.q h.sorted m rest hx
    rw [h.held] at h1 h2
    simp only [h1]
    refine ⟨trivial, ?_, extractMin_sorted h.sorted hx, ?_⟩
    · simp [h2]
    · intro e he
      exact h.fresh e ((extractMin_mem s.q m rest hx).2.subset he)

theorem filter_removeFirst {p q : Item → Bool} : ∀ {l : List Item} {m : Item},
    l.find? p = some m → q m = false → (removeFirst p l).filter q = l.filter q
  | [], _, h, _ => by simp at h
  | x :: xs, m, h, hq => by
    simp only [List.find?_cons] at h
    simp only [removeFirst]
    cases hp : p x with
    | true =>
      rw [hp] at h; simp at h; subst h
      simp [List.filter_cons, hq]
    | false =>
      rw [hp] at h; simp only at h
      simp only [Bool.false_eq_true, if_false, List.filter_cons]
      rw [filter_removeFirst h hq]

/-- what the specification holds after a deadline pop -/
def specHeld (live : List Item) : List Item :=
  match firstMin live with
  | none => live
  | some _ => removeFirst (isMinIn live) live

/-- `DeadlineQueue.pop`: the loop drops every expired entry (they all sort before the first live
    one) and returns the stable minimum of the live ones -/
theorem popDeadline_items (now : Nat) : ∀ (fuel : Nat) (s : St), SeqSorted s.q → s.q.length < fuel →
    ((popDeadline now fuel s).1.q.map (·.item) = specHeld ((s.q.map (·.item)).filter (liveI now)) ∧
     (popDeadline now fuel s).2 = firstMin ((s.q.map (·.item)).filter (liveI now))) ∧
    SeqSorted (popDeadline now fuel s).1.q ∧ (popDeadline now fuel s).1.q.Sublist s.q ∧
    (popDeadline now fuel s).1.ctr = s.ctr
  | 0, s, _, hl => by omega
  | fuel + 1, s, hs, hl => by
    unfold popDeadline
    cases hx : extractMin s.q with
    | none =>
      have hq := extractMin_none s.q hx
      simp only [hq]
      exact ⟨⟨by simp [specHeld, firstMin], by simp [firstMin]⟩, by simp [SeqSorted], by simp, by first | rfl | trivial⟩
    | some p =>
      obtain ⟨m, rest⟩ := p
      obtain ⟨h1, h2⟩ := extractMin_firstMin s.q hs m rest hx
      have hlen := extractMin_length s.q m rest hx
      have hsub := (extractMin_mem s.q m rest hx).2
      have hs' := extractMin_sorted hs hx
      simp only
      by_cases hexp : m.item.key < now
      · simp only [hexp, if_true]
        obtain ⟨⟨i1, i2⟩, i3, i4, i5⟩ :=
          popDeadline_items now fuel { s with q := rest, drp := s.drp + 1 } hs' (by simp; omega)
        have hlive : ((rest.map (·.item)).filter (liveI now)) = ((s.q.map (·.item)).filter (liveI now)) := by
          rw [← h2]
          exact filter_removeFirst h1 (by simp [liveI]; omega)
        simp only at i1 i2 i4 i5
        rw [hlive] at i1 i2
        exact ⟨⟨i1, i2⟩, i3, i4.trans hsub, i5⟩
      · simp only [hexp, if_false]
        have hall : ∀ y ∈ s.q.map (·.item), liveI now y = true := by
          intro y hy
          have := (isMinIn_iff _ _).mp (List.find?_some h1) y hy
          simp [liveI]; omega
        have hfl : (s.q.map (·.item)).filter (liveI now) = s.q.map (·.item) := List.filter_eq_self.mpr hall
        rw [hfl]
        refine ⟨⟨?_, by simp [h1]⟩, hs', hsub, by first | rfl | trivial⟩
        simp [specHeld, h1, h2]

theorem popDeadline_krel {s : St} {ss : SSt} (h : KRel s ss) (now : Nat) :
    (popDeadline now (s.q.length + 1) s).2 = firstMin (ss.held.filter (liveI now)) ∧
    ∀ ss' : SSt, ss'.held = specHeld (ss.held.filter (liveI now)) → KRel (popDeadline now (s.q.length + 1) s).1 ss' := by
  obtain ⟨⟨i1, i2⟩, i3, i4, i5⟩ := popDeadline_items now (s.q.length + 1) s h.sorted (by omega)
  rw [h.held] at i1 i2
  refine ⟨i2, fun ss' hs' => ⟨by rw [i1, hs'], i3, ?_⟩⟩
  intro e he
  rw [i5]
  exact h.fresh e (i4.subset he)

theorem pop_krel {c : Cfg} (hk : c.kind.keyed = true) {s : St} {ss : SSt} (h : KRel s ss) (now k : Nat) :
    (pop c s now k).2 = (sPop c ss now k).2 ∧ KRel (pop c s now k).1 (sPop c ss now k).1 := by
  unfold pop sPop
  cases hkk : c.kind <;> simp [Kind.keyed, hkk] at hk <;> simp only
  case prio =>
    have := popPrio_krel h
    cases hf : firstMin ss.held with
    | none => simp only [hf] at this ⊢; exact this
    | some x => simp only [hf] at this ⊢; exact this
  case deadline =>
    have := popDeadline_krel h now
    have hfil : (ss.held.filter fun x => decide (now ≤ x.key)) = ss.held.filter (liveI now) := rfl
    rw [hfil]
    cases hf : firstMin (ss.held.filter (liveI now)) with
    | none =>
      simp only [hf] at this ⊢
      exact ⟨this.1, this.2 _ (by simp [specHeld, hf])⟩
    | some x =>
      simp only [hf] at this ⊢
      exact ⟨this.1, this.2 _ (by simp [specHeld, hf])⟩

/-! ### peek, purge_expired, accessors -/

theorem extractMin_item_firstMin (q : List Ent) (hs : SeqSorted q) :
    (extractMin q).map (·.1.item) = firstMin (q.map (·.item)) := by
  cases hx : extractMin q with
  | none => have := extractMin_none q hx; subst this; simp [firstMin]
  | some p =>
    obtain ⟨m, rest⟩ := p
    simp [(extractMin_firstMin q hs m rest hx).1]

theorem peek_krel {c : Cfg} (hk : c.kind.keyed = true) {s : St} {ss : SSt} (h : KRel s ss) (now : Nat) :
    peek c s now = sChoose c ss now := by
  unfold peek sChoose
  cases hkk : c.kind <;> simp [Kind.keyed, hkk] at hk <;> simp only
  case prio => rw [extractMin_item_firstMin s.q h.sorted, h.held]
  case deadline =>
    have : (s.q.filter fun e => decide (now ≤ e.item.key)) = s.q.filter (isLive now) := rfl
    rw [this, extractMin_item_firstMin _ (sorted_filter _ h.sorted), map_filter_live, h.held]
    rfl

theorem purge_krel {c : Cfg} (hk : c.kind.keyed = true) {s : St} {ss : SSt} (h : KRel s ss) (now : Nat) :
    (purge c s now).2 = (sPurge c ss now).2 ∧ KRel (purge c s now).1 (sPurge c ss now).1 := by
  have hl : ss.held.length = s.q.length := by rw [← h.held]; simp
  have hfl : (ss.held.filter (liveI now)).length = (s.q.filter (isLive now)).length := by
    rw [← h.held, ← map_filter_live]; simp
  unfold purge sPurge
  cases hkk : c.kind <;> simp [Kind.keyed, hkk] at hk <;> simp only
  case prio => exact ⟨trivial, h⟩
  case deadline =>
    have hfil : (ss.held.filter fun x => decide (now ≤ x.key)) = ss.held.filter (liveI now) := rfl
    rw [hfil, hl, hfl]
    refine ⟨by first | rfl | trivial, ?_, sorted_filter _ h.sorted, ?_⟩
    · show (s.q.filter (isLive now)).map (·.item) = ss.held.filter (liveI now)
      rw [map_filter_live, h.held]
    · intro e he
      exact h.fresh e (List.mem_filter.mp he).1

theorem query_krel {c : Cfg} (hk : c.kind.keyed = true) {s : St} {ss : SSt} (h : KRel s ss) (now f : Nat) :
    query c s now f = sQuery c ss now f := by
  have hl : ss.held.length = s.q.length := by rw [← h.held]; simp
  have hfl : (ss.held.filter (liveI now)).length = (s.q.filter (isLive now)).length := by
    rw [← h.held, ← map_filter_live]; simp
  unfold query sQuery
  cases hkk : c.kind <;> simp [Kind.keyed, hkk] at hk <;> simp only
  case deadline =>
    have hfil : (ss.held.filter fun x => decide (now ≤ x.key)) = ss.held.filter (liveI now) := rfl
    rw [hfil, hl, hfl]

theorem step_krel {c : Cfg} (hk : c.kind.keyed = true) {s : St} {ss : SSt} (h : KRel s ss) (o : Op) :
    (step c s o).2 = (sStep c ss o).2 ∧ KRel (step c s o).1 (sStep c ss o).1 := by
  cases o with
  | push it now coin rd =>
    have := push_krel hk h it coin rd
    exact ⟨by simp [step, sStep, this.1], this.2⟩
  | pop now k =>
    have := pop_krel hk h now k
    exact ⟨by simp [step, sStep, this.1], this.2⟩
  | peek now => exact ⟨by simp [step, sStep, peek_krel hk h now], h⟩
  | purge now =>
    have := purge_krel hk h now
    exact ⟨by simp [step, sStep, this.1], this.2⟩
  | query now f => exact ⟨by simp [step, sStep, query_krel hk h now f], h⟩

/-- the key-ordered model answers like the list specification, operation for operation -/
theorem run_krel {c : Cfg} (hk : c.kind.keyed = true) : ∀ (ops : List Op) (s : St) (ss : SSt), KRel s ss →
    (run c s ops).map (·.1) = (sRun c ss ops).map (·.1)
  | [], _, _, _ => rfl
  | o :: os, s, ss, h => by
    have := step_krel hk h o
    simp only [run, sRun, List.map_cons, this.1]
    rw [run_krel hk os _ _ this.2]

theorem krel_init : KRel {} {} := ⟨rfl, by simp [SeqSorted], by simp⟩

end HappyModel.C08
