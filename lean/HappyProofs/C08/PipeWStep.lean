import HappyProofs.C08.PipeWInv
/-!
`WInv` is preserved by every admissible delivery of the admission proposal (`admission` and `wake` on;
any `ConcurrencyModel`, any list queue); `used ≤ limit` is preserved by every delivery of every
config as long as the limit is not lowered.
-/
namespace HappyModel.C08.PipeW

/-! ### admissible deliveries -/

/-- admissible delivery: a `QueueDispatchedEvent` is handled only after the payload it was created
    behind has reached the worker (engine FIFO tie order); the limit is not lowered while a dequeued
    item is on its way to the worker (the same-instant race); with a LIFO / priority queue all
    requests take the same number of units `w0` (only a FIFO head is stable under arrivals) -/
def Adm (c : WCfg) (w0 : Nat) (s : WSt) (a : Act) : Prop :=
  (a = .disp → s.works = []) ∧
  (∀ n, a = .limit n → newLimit c s n < s.limit → s.delivers = [] ∧ s.works = []) ∧
  (∀ it, a = .arr it → c.kind = .fifo ∨ wOf c it = w0)

/-- `Adm` by cases on the action (the decidable form) -/
def admC (c : WCfg) (w0 : Nat) (s : WSt) : Act → Prop
  | .disp => s.works = []
  | .limit n => newLimit c s n < s.limit → s.delivers = [] ∧ s.works = []
  | .arr it => c.kind = .fifo ∨ wOf c it = w0
  | _ => True

theorem adm_iff (c : WCfg) (w0 : Nat) (s : WSt) (a : Act) : Adm c w0 s a ↔ admC c w0 s a := by
  unfold Adm
  cases a <;> simp [admC]

instance instDecAdmC (c : WCfg) (w0 : Nat) (s : WSt) : (a : Act) → Decidable (admC c w0 s a)
  | .disp => inferInstanceAs (Decidable (s.works = []))
  | .limit n => inferInstanceAs (Decidable (newLimit c s n < s.limit → s.delivers = [] ∧ s.works = []))
  | .arr it => inferInstanceAs (Decidable (c.kind = .fifo ∨ wOf c it = w0))
  | .notify => isTrue trivial
  | .poll => isTrue trivial
  | .deliver _ => isTrue trivial
  | .work _ => isTrue trivial
  | .fin _ => isTrue trivial

instance instDecAdm (c : WCfg) (w0 : Nat) (s : WSt) (a : Act) : Decidable (Adm c w0 s a) :=
  decidable_of_iff _ (adm_iff c w0 s a).symm

/-- the design suggestion: the admission test travels with the poll, a raised limit wakes the driver -/
structure Setting (c : WCfg) : Prop where
  ha : c.admission = true
  hw : c.wake = true

/-- every prefix of the schedule is admissible -/
def Sched (c : WCfg) (w0 : Nat) : WSt → List Act → Prop
  | _, [] => True
  | s, a :: as => Adm c w0 s a ∧ Sched c w0 (step c s a).1 as

instance instDecSched (c : WCfg) (w0 : Nat) : ∀ (as : List Act) (s : WSt), Decidable (Sched c w0 s as)
  | [], _ => isTrue trivial
  | a :: as, s =>
    match (inferInstance : Decidable (Adm c w0 s a)), instDecSched c w0 as (step c s a).1 with
    | isTrue h1, isTrue h2 => isTrue ⟨h1, h2⟩
    | isFalse h1, _ => isFalse fun h => h1 h.1
    | _, isFalse h2 => isFalse fun h => h2 h.2

/-! ### per-action preservation -/

theorem busy_of_pending {s : WSt}
    (rt : s.nPoll + s.delivers.length + s.nEmpty + s.nDisp = (if s.busy then 1 else 0))
    (hp : 0 < s.nPoll + s.delivers.length + s.nEmpty + s.nDisp) : s.busy = true := by
  by_cases hb : s.busy = true
  · exact hb
  · rw [if_neg hb] at rt; omega

theorem arr_inv {c : WCfg} {w0 : Nat} {s : WSt} (it : WItem) (ha : c.kind = .fifo ∨ wOf c it = w0)
    (h : WInv c w0 s) : WInv c w0 (stepArr c s it).1 := by
  obtain ⟨⟨rt, wf, res, act, rej, count, uni⟩, strand⟩ := h
  unfold stepArr
  split
  · exact ⟨⟨rt, wf, res, act, rej, count, uni⟩, strand⟩
  · have uni' : c.kind = .fifo ∨ ∀ x, x ∈ s.q ++ [it] → wOf c x = w0 := by
      rcases uni with hk | hu
      · exact Or.inl hk
      · rcases ha with hk | hw
        · exact Or.inl hk
        · refine Or.inr fun x hx => ?_
          rcases List.mem_append.1 hx with hx | hx
          · exact hu x hx
          · simp only [List.mem_singleton] at hx; rw [hx]; exact hw
    refine ⟨⟨rt, wf, res, act, rej, ?_, uni'⟩, ?_⟩
    · dsimp only; simp only [List.length_append, List.length_singleton]; omega
    · intro x hx hfit
      dsimp only at hx hfit ⊢
      by_cases hq : s.q = []
      · simp [hq]
      · have hne : s.q.isEmpty = false := by simpa using hq
        simp only [hne, Bool.false_eq_true, if_false]
        by_cases hk : c.kind = .fifo
        · rw [hk, pick_fifo_append it hq] at hx
          exact strand x (by rw [hk]; exact hx) hfit
        · have hu : ∀ x, x ∈ s.q ++ [it] → wOf c x = w0 := uni'.resolve_left hk
          obtain ⟨y, hy⟩ := pick_ne_none (k := c.kind) hq
          have hyw : wOf c y = w0 := hu y (List.mem_append_left _ (pick_mem hy))
          have hxw : wOf c x = w0 := hu x (pick_mem hx)
          exact strand y hy (by omega)

theorem notify_inv {c : WCfg} {w0 : Nat} {s : WSt} (h : WInv c w0 s) : WInv c w0 (stepNotify s).1 := by
  unfold stepNotify
  split
  · exact h
  · exact pollIfReady_inv ⟨h.rt, h.wf, h.res, h.act, h.rej, h.count, h.uni⟩

theorem poll_inv {c : WCfg} {w0 : Nat} {s : WSt} (ha : c.admission = true) (h : WInv c w0 s) :
    WInv c w0 (stepPoll c s).1 := by
  obtain ⟨⟨rt, wf, res, act, rej, count, uni⟩, strand⟩ := h
  by_cases hp : s.nPoll = 0
  · simp only [stepPoll, hp, if_true]
    exact ⟨⟨rt, wf, res, act, rej, count, uni⟩, strand⟩
  · simp only [stepPoll, hp, if_false]
    cases hit : pick c.kind s.q with
    | none =>
      simp only
      refine ⟨⟨?_, wf, res, act, rej, count, uni⟩, ?_⟩
      · dsimp only; omega
      · intro x hx; dsimp only at hx; rw [hit] at hx; cases hx
    | some it =>
      simp only
      by_cases had : admits c s it = true
      · simp only [had, if_true]
        have hfit : s.used + wOf c it ≤ s.limit := by simpa [admits, ha, fits] using had
        have hm := pick_mem hit
        have hlen := List.length_erase_of_mem hm
        have hpos := List.length_pos_of_mem hm
        refine ⟨⟨?_, wf, ?_, act, rej, ?_, ?_⟩, ?_⟩
        · simp only [List.length_append, List.length_singleton]; omega
        · intro x hx; dsimp only at hx ⊢
          rcases List.mem_append.1 hx with hx | hx
          · rcases List.mem_append.1 hx with hx | hx
            · exact res x (List.mem_append_left _ hx)
            · simp only [List.mem_singleton] at hx; rw [hx]; exact hfit
          · exact res x (List.mem_append_right _ hx)
        · dsimp only; simp only [hlen, List.length_append, List.length_singleton]; omega
        · rcases uni with hk | hu
          · exact Or.inl hk
          · exact Or.inr fun x hx => hu x (List.mem_of_mem_erase hx)
        · intro _ _ _; simp
      · have had' : admits c s it = false := by simpa using had
        simp only [had', Bool.false_eq_true, if_false]
        refine ⟨⟨?_, wf, res, act, rej, count, uni⟩, ?_⟩
        · dsimp only; omega
        · intro x hx hfit; dsimp only at hx hfit
          rw [hit] at hx; cases hx
          have : admits c s it = true := by simpa [admits, ha, fits] using hfit
          exact absurd this had

theorem deliver_inv {c : WCfg} {w0 : Nat} {s : WSt} (x : Option Nat) (h : WInv c w0 s) :
    WInv c w0 (stepDeliver s x).1 := by
  obtain ⟨⟨rt, wf, res, act, rej, count, uni⟩, strand⟩ := h
  cases x with
  | some i =>
    cases hb : byId s.delivers i with
    | none =>
      simp only [stepDeliver, hb]
      exact ⟨⟨rt, wf, res, act, rej, count, uni⟩, strand⟩
    | some it =>
      have hm := byId_mem hb
      have hlen := List.length_erase_of_mem hm
      have hpos := List.length_pos_of_mem hm
      simp only [stepDeliver, hb]
      refine ⟨⟨?_, ?_, ?_, act, rej, ?_, uni⟩, ?_⟩
      · simp only [hlen]; omega
      · simp only [List.length_append, List.length_singleton]; omega
      · intro x hx; dsimp only at hx ⊢
        rcases List.mem_append.1 hx with hx | hx
        · exact res x (List.mem_append_left _ (List.mem_of_mem_erase hx))
        · rcases List.mem_append.1 hx with hx | hx
          · exact res x (List.mem_append_right _ hx)
          · simp only [List.mem_singleton] at hx; rw [hx]
            exact res it (List.mem_append_left _ hm)
      · dsimp only; simp only [hlen, List.length_append, List.length_singleton]; omega
      · intro _ _ _; dsimp only; omega
  | none =>
    by_cases hne : s.nEmpty = 0
    · simp only [stepDeliver, hne, if_true]
      exact ⟨⟨rt, wf, res, act, rej, count, uni⟩, strand⟩
    · have hbusy : s.busy = true := busy_of_pending rt (by omega)
      simp only [hbusy, if_true] at rt
      have h0 : WInv0 c w0 { s with nEmpty := s.nEmpty - 1, busy := false } := by
        refine ⟨?_, wf, res, act, rej, count, uni⟩
        dsimp only; rw [if_neg (by decide)]; omega
      simp only [stepDeliver, hne, if_false]
      split
      · exact pollIfReady_inv h0
      · rename_i hr
        refine ⟨h0, ?_⟩
        intro x hx hfit
        dsimp only at hx hfit hr ⊢
        rcases strand x hx hfit with h | h | h | h | ⟨_, h⟩
        · exact Or.inl h
        · omega
        · omega
        · omega
        · exact absurd h hr

theorem disp_inv {c : WCfg} {w0 : Nat} {s : WSt} (hw0 : s.works = []) (h : WInv c w0 s) :
    WInv c w0 (stepDisp s).1 := by
  obtain ⟨⟨rt, wf, res, act, rej, count, uni⟩, strand⟩ := h
  unfold stepDisp
  split
  · exact ⟨⟨rt, wf, res, act, rej, count, uni⟩, strand⟩
  · rename_i hne
    have hbusy : s.busy = true := busy_of_pending rt (by omega)
    simp only [hbusy, if_true] at rt
    apply pollIfReady_inv
    refine ⟨?_, by simp [hw0], res, act, rej, count, uni⟩
    dsimp only; rw [if_neg (by decide)]; omega

theorem work_inv {c : WCfg} {w0 : Nat} {s : WSt} (i : Nat) (h : WInv c w0 s) :
    WInv c w0 (stepWork c s i).1 := by
  obtain ⟨⟨rt, wf, res, act, rej, count, uni⟩, strand⟩ := h
  cases hb : byId s.works i with
  | none =>
    simp only [stepWork, hb]
    exact ⟨⟨rt, wf, res, act, rej, count, uni⟩, strand⟩
  | some it =>
    have hm := byId_mem hb
    have hlen := List.length_erase_of_mem hm
    have hpos := List.length_pos_of_mem hm
    have hfit : s.used + wOf c it ≤ s.limit := res it (List.mem_append_right _ hm)
    have hf : fits s (wOf c it) = true := (fits_iff _ _).2 hfit
    have hbusy : s.busy = true := busy_of_pending rt (by omega)
    have rt' := rt
    simp only [hbusy, if_true] at rt'
    have hd0 : s.delivers = [] := List.eq_nil_of_length_eq_zero (by omega)
    have he0 : s.works.erase it = [] := List.eq_nil_of_length_eq_zero (by omega)
    simp only [stepWork, hb, hf, if_true]
    refine ⟨⟨rt, ?_, ?_, ?_, rej, ?_, uni⟩, ?_⟩
    · dsimp only; omega
    · intro x hx; dsimp only at hx; simp [hd0, he0] at hx
    · dsimp only; simp only [sumW_append, sumW_singleton]; omega
    · dsimp only; simp only [hlen, List.length_append, List.length_singleton]; omega
    · intro _ _ _; dsimp only; omega

theorem fin_inv {c : WCfg} {w0 : Nat} {s : WSt} (i : Nat) (h : WInv c w0 s) :
    WInv c w0 (stepFin c s i).1 := by
  obtain ⟨⟨rt, wf, res, act, rej, count, uni⟩, strand⟩ := h
  cases hb : byId s.inService i with
  | none =>
    simp only [stepFin, hb]
    exact ⟨⟨rt, wf, res, act, rej, count, uni⟩, strand⟩
  | some it =>
    have hm := byId_mem hb
    have hlen := List.length_erase_of_mem hm
    have hpos := List.length_pos_of_mem hm
    have hsum := sumW_erase c hm
    simp only [stepFin, hb]
    apply pollIfReady_inv
    refine ⟨rt, wf, ?_, ?_, rej, ?_, uni⟩
    · intro x hx; have := res x hx; dsimp only; omega
    · dsimp only; omega
    · dsimp only; simp only [hlen]; omega

theorem limit_inv {c : WCfg} {w0 : Nat} {s : WSt} (hw : c.wake = true) (n : Nat)
    (ha : newLimit c s n < s.limit → s.delivers = [] ∧ s.works = []) (h : WInv c w0 s) :
    WInv c w0 (stepLimit c s n).1 := by
  obtain ⟨⟨rt, wf, res, act, rej, count, uni⟩, strand⟩ := h
  have hres : ∀ it, it ∈ s.delivers ++ s.works → s.used + wOf c it ≤ newLimit c s n := by
    intro x hx
    by_cases hl : newLimit c s n < s.limit
    · obtain ⟨h1, h2⟩ := ha hl; simp [h1, h2] at hx
    · have := res x hx; omega
  simp only [stepLimit, hw, eq_self, true_and]
  split
  · refine ⟨⟨rt, wf, hres, act, rej, count, uni⟩, ?_⟩
    intro _ _ _; dsimp only; omega
  · rename_i hc
    refine ⟨⟨rt, wf, hres, act, rej, count, uni⟩, ?_⟩
    intro x hx hfit
    dsimp only at hx hfit ⊢
    by_cases hl : s.limit < newLimit c s n
    · have hq : s.q = [] := by
        by_cases hq : s.q = []
        · exact hq
        · exact absurd ⟨hl, hq⟩ hc
      rw [hq, pick_nil] at hx; cases hx
    · exact strand x hx (by omega)

theorem step_inv {c : WCfg} {w0 : Nat} {s : WSt} (st : Setting c) (a : Act) (ha : Adm c w0 s a)
    (h : WInv c w0 s) : WInv c w0 (step c s a).1 := by
  cases a with
  | arr it => exact arr_inv it (ha.2.2 it rfl) h
  | notify => exact notify_inv h
  | poll => exact poll_inv st.ha h
  | deliver x => exact deliver_inv x h
  | work i => exact work_inv i h
  | disp => exact disp_inv (ha.1 rfl) h
  | fin i => exact fin_inv i h
  | limit n => exact limit_inv st.hw n (ha.2.1 n rfl) h

theorem final_inv {c : WCfg} {w0 : Nat} (st : Setting c) : ∀ (as : List Act) (s : WSt), Sched c w0 s as →
    WInv c w0 s → WInv c w0 (final c s as)
  | [], _, _, h => h
  | a :: as, _, hs, h => final_inv st as _ hs.2 (step_inv st a hs.1 h)

/-- every prefix of an admissible schedule is admissible: the theorems about `final` hold after
    every event -/
theorem sched_take {c : WCfg} {w0 : Nat} : ∀ (n : Nat) (as : List Act) (s : WSt),
    Sched c w0 s as → Sched c w0 s (as.take n)
  | 0, _, _, _ => trivial
  | _ + 1, [], _, _ => trivial
  | n + 1, _ :: as, _, h => ⟨h.1, sched_take n as _ h.2⟩

/-! ### `used ≤ limit` along schedules that never lower the limit (every config) -/

def NoLowerAct (c : WCfg) (s : WSt) : Act → Prop
  | .limit n => s.limit ≤ newLimit c s n
  | _ => True

instance instDecNoLowerAct (c : WCfg) (s : WSt) : (a : Act) → Decidable (NoLowerAct c s a)
  | .limit n => inferInstanceAs (Decidable (s.limit ≤ newLimit c s n))
  | .arr _ => isTrue trivial
  | .notify => isTrue trivial
  | .poll => isTrue trivial
  | .deliver _ => isTrue trivial
  | .work _ => isTrue trivial
  | .disp => isTrue trivial
  | .fin _ => isTrue trivial

/-- every `set_limit` met along the run leaves the limit where it is or raises it -/
def NoLower (c : WCfg) : WSt → List Act → Prop
  | _, [] => True
  | s, a :: as => NoLowerAct c s a ∧ NoLower c (step c s a).1 as

instance instDecNoLower (c : WCfg) : ∀ (as : List Act) (s : WSt), Decidable (NoLower c s as)
  | [], _ => isTrue trivial
  | a :: as, s =>
    match (inferInstance : Decidable (NoLowerAct c s a)), instDecNoLower c as (step c s a).1 with
    | isTrue h1, isTrue h2 => isTrue ⟨h1, h2⟩
    | isFalse h1, _ => isFalse fun h => h1 h.1
    | _, isFalse h2 => isFalse fun h => h2 h.2

theorem step_le (c : WCfg) (s : WSt) (a : Act) (hn : NoLowerAct c s a) (h : s.used ≤ s.limit) :
    (step c s a).1.used ≤ (step c s a).1.limit := by
  cases a with
  | arr it => simp only [step, stepArr]; split <;> exact h
  | notify =>
    simp only [step, stepNotify]; split
    · exact h
    · simp only [pollIfReady_used, pollIfReady_limit]; exact h
  | poll => simp only [step, stepPoll]; (repeat' split) <;> exact h
  | deliver x =>
    cases x with
    | some i => simp only [step, stepDeliver]; (repeat' split) <;> exact h
    | none =>
      simp only [step, stepDeliver]; (repeat' split) <;>
        first | exact h | (simp only [pollIfReady_used, pollIfReady_limit]; exact h)
  | work i =>
    simp only [step, stepWork]
    split
    · exact h
    · split
      · rename_i hf
        exact (fits_iff _ _).1 hf
      · simp only [pollIfReady_used, pollIfReady_limit]; exact h
  | disp =>
    simp only [step, stepDisp]; split
    · exact h
    · simp only [pollIfReady_used, pollIfReady_limit]; exact h
  | fin i =>
    simp only [step, stepFin]
    split
    · exact h
    · simp only [pollIfReady_used, pollIfReady_limit]; omega
  | limit n =>
    have hn' : s.limit ≤ newLimit c s n := hn
    simp only [step, stepLimit]; (repeat' split) <;> exact Nat.le_trans h hn'

theorem final_le (c : WCfg) : ∀ (as : List Act) (s : WSt), NoLower c s as → s.used ≤ s.limit →
    (final c s as).used ≤ (final c s as).limit
  | [], _, _, h => h
  | a :: as, s, hs, h => final_le c as _ hs.2 (step_le c s a hs.1 h)

end HappyModel.C08.PipeW
