import HappyProofs.C08.KeyOrder
/-!
Fair-share policies (FairQueue, WeightedFairQueue), part 1: list lemmas relating the model's
`OrderedDict` of per-flow deques to the specification's single held list and its service tickets.
-/
namespace HappyModel.C08

/-- the deque of flow `f` (empty if the flow is not in the dictionary) -/
def flowQ (fs : List FlowSt) (f : Nat) : List Item :=
  match findFlow fs f with
  | some fl => fl.q
  | none => []

def sig3 (fl : FlowSt) : Nat × Nat × Nat := (fl.fid, fl.weight, fl.credits)
def asig3 (a : Act) : Nat × Nat × Nat := (a.fid, a.weight, a.credits)

theorem findFlow_cons (fl : FlowSt) (fs : List FlowSt) (f : Nat) :
    findFlow (fl :: fs) f = if fl.fid = f then some fl else findFlow fs f := by
  simp only [findFlow, List.find?_cons]
  by_cases h : fl.fid = f
  · simp [h]
  · have : (fl.fid == f) = false := by simpa using h
    simp [h, this]

theorem findFlow_none_iff (fs : List FlowSt) (f : Nat) : findFlow fs f = none ↔ f ∉ fs.map (·.fid) := by
  induction fs with
  | nil => simp [findFlow]
  | cons fl fs ih =>
    rw [findFlow_cons]
    by_cases h : fl.fid = f
    · simp [h]
    · simp only [h, if_false, ih, List.map_cons, List.mem_cons, not_or]
      exact ⟨fun h' => ⟨fun e => h e.symm, h'⟩, fun h' => h'.2⟩

theorem findFlow_some {fs : List FlowSt} {f : Nat} {fl : FlowSt} (h : findFlow fs f = some fl) :
    fl ∈ fs ∧ fl.fid = f := by
  induction fs with
  | nil => simp [findFlow] at h
  | cons x xs ih =>
    rw [findFlow_cons] at h
    by_cases hx : x.fid = f
    · simp only [hx, if_true] at h; cases h; exact ⟨List.mem_cons_self, hx⟩
    · simp only [hx, if_false] at h; exact ⟨List.mem_cons_of_mem _ (ih h).1, (ih h).2⟩

theorem flowQ_cons (fl : FlowSt) (fs : List FlowSt) (f : Nat) :
    flowQ (fl :: fs) f = if fl.fid = f then fl.q else flowQ fs f := by
  unfold flowQ; rw [findFlow_cons]; by_cases h : fl.fid = f <;> simp [h]

theorem flowQ_not_mem {fs : List FlowSt} {f : Nat} (h : f ∉ fs.map (·.fid)) : flowQ fs f = [] := by
  unfold flowQ; rw [(findFlow_none_iff fs f).mpr h]

theorem flowQ_append_new (fs : List FlowSt) (nf : FlowSt) (g : Nat) (h : nf.fid ∉ fs.map (·.fid)) :
    flowQ (fs ++ [nf]) g = if nf.fid = g then nf.q else flowQ fs g := by
  induction fs with
  | nil =>
    simp only [List.nil_append, flowQ_cons]
  | cons x xs ih =>
    have hx : x.fid ≠ nf.fid := fun e => h (by simp [e])
    have hxs : nf.fid ∉ xs.map (·.fid) := fun e => h (by simp at e ⊢; exact Or.inr e)
    simp only [List.cons_append, flowQ_cons, ih hxs]
    by_cases h1 : x.fid = g
    · have : nf.fid ≠ g := fun e => hx (h1.trans e.symm)
      simp [h1, this]
    · simp [h1]

theorem appendTo_sig (fs : List FlowSt) (f : Nat) (it : Item) : (appendTo fs f it).map sig3 = fs.map sig3 := by
  induction fs with
  | nil => rfl
  | cons x xs ih =>
    simp only [appendTo]
    split
    · simp [sig3]
    · simp [ih]

theorem appendTo_fids (fs : List FlowSt) (f : Nat) (it : Item) :
    (appendTo fs f it).map (·.fid) = fs.map (·.fid) := by
  induction fs with
  | nil => rfl
  | cons x xs ih =>
    simp only [appendTo]
    split
    · simp
    · simp [ih]

theorem flowQ_appendTo (fs : List FlowSt) (f : Nat) (it : Item) (g : Nat) (h : f ∈ fs.map (·.fid)) :
    flowQ (appendTo fs f it) g = if f = g then flowQ fs f ++ [it] else flowQ fs g := by
  induction fs with
  | nil => simp at h
  | cons x xs ih =>
    simp only [appendTo]
    by_cases hx : x.fid = f
    · have hb : (x.fid == f) = true := by simpa using hx
      simp only [hb, if_true, flowQ_cons]
      by_cases hg : f = g
      · simp [hx, hg]
      · have : x.fid ≠ g := fun e => hg (hx.symm.trans e)
        simp [this, hg]
    · have hb : (x.fid == f) = false := by simpa using hx
      have hm : f ∈ xs.map (·.fid) := by
        simp only [List.map_cons, List.mem_cons] at h
        rcases h with h | h
        · exact absurd h.symm hx
        · exact h
      simp only [hb, Bool.false_eq_true, if_false, flowQ_cons, ih hm]
      by_cases hg : f = g
      · have : x.fid ≠ g := fun e => hx (e.trans hg.symm)
        simp [hx, hg, this]
      · by_cases h1 : x.fid = g <;> simp [h1, hg, hx]

theorem appendTo_mem {fs : List FlowSt} {f : Nat} {it : Item} {fl : FlowSt} (h : fl ∈ appendTo fs f it) :
    fl.q ≠ [] ∨ fl ∈ fs := by
  induction fs with
  | nil => simp [appendTo] at h
  | cons x xs ih =>
    simp only [appendTo] at h
    split at h
    · rcases List.mem_cons.mp h with h | h
      · left; subst h; simp
      · right; exact List.mem_cons_of_mem _ h
    · rcases List.mem_cons.mp h with h | h
      · right; subst h; exact List.mem_cons_self
      · rcases ih h with h | h
        · left; exact h
        · right; exact List.mem_cons_of_mem _ h

theorem appendTo_credits {fs : List FlowSt} {f : Nat} {it : Item} (hc : ∀ fl ∈ fs, 0 < fl.credits) :
    ∀ fl ∈ appendTo fs f it, 0 < fl.credits := by
  induction fs with
  | nil => simp [appendTo]
  | cons x xs ih =>
    intro fl h
    simp only [appendTo] at h
    split at h
    · rcases List.mem_cons.mp h with h | h
      · rw [h]; exact hc x List.mem_cons_self
      · exact hc fl (List.mem_cons_of_mem _ h)
    · rcases List.mem_cons.mp h with h | h
      · rw [h]; exact hc x List.mem_cons_self
      · exact ih (fun fl' h' => hc fl' (List.mem_cons_of_mem _ h')) fl h

/-! ### the specification side -/

theorem minAct_head (a : Act) (as : List Act)
    (h : (a :: as).Pairwise (fun x y => x.ticket < y.ticket)) : minAct (a :: as) = some a := by
  induction as generalizing a with
  | nil => simp [minAct]
  | cons b bs ih =>
    have hb : (b :: bs).Pairwise (fun x y => x.ticket < y.ticket) := (List.pairwise_cons.mp h).2
    have hab : a.ticket < b.ticket := (List.pairwise_cons.mp h).1 b List.mem_cons_self
    simp only [minAct] at ih ⊢
    rw [ih b hb]
    simp only
    rw [if_neg (by omega)]

theorem find?_eq_filter_head {p : Item → Bool} : ∀ (l : List Item), l.find? p = (l.filter p).head?
  | [] => rfl
  | x :: xs => by
    have ih := find?_eq_filter_head (p := p) xs
    cases hp : p x with
    | true => simp [List.find?_cons, List.filter_cons, hp]
    | false => simp only [List.find?_cons, List.filter_cons, hp, Bool.false_eq_true, if_false, ih]

theorem filter_removeFirst_self {p : Item → Bool} : ∀ (l : List Item),
    (removeFirst p l).filter p = (l.filter p).tail
  | [] => rfl
  | x :: xs => by
    cases hp : p x with
    | true => simp [removeFirst, List.filter_cons, hp]
    | false =>
      have ih := filter_removeFirst_self (p := p) xs
      simp only [removeFirst, hp, Bool.false_eq_true, if_false, List.filter_cons, ih]

theorem removeFirst_length {p : Item → Bool} : ∀ {l : List Item} {m : Item}, l.find? p = some m →
    (removeFirst p l).length + 1 = l.length
  | [], _, h => by simp at h
  | x :: xs, m, h => by
    simp only [List.find?_cons] at h
    simp only [removeFirst]
    cases hp : p x with
    | true => simp
    | false =>
      rw [hp] at h
      simp [removeFirst_length (l := xs) h]

theorem filter_fid_ne_of_nodup (a : Act) (as : List Act) (h : ((a :: as).map (·.fid)).Nodup) :
    (a :: as).filter (·.fid != a.fid) = as := by
  have hn : a.fid ∉ as.map (·.fid) := (List.nodup_cons.mp h).1
  simp only [List.filter_cons, bne_self_eq_false, Bool.false_eq_true, if_false]
  apply List.filter_eq_self.mpr
  intro b hb
  have : b.fid ≠ a.fid := fun e => hn (by rw [← e]; exact List.mem_map_of_mem hb)
  simpa using this

end HappyModel.C08
