import HappyProofs.C08.PipeGhost
/-!
FIFO end to end (repaired driver, `Server` worker, FIFO queue, admissible schedule): the accepted
ids, in acceptance order, are

  started ++ (delivers ++ works) ++ waiting          (any limit)
  started = done ++ inService                        (limit 1)

as **lists**: items start service in the order they were accepted, and with one slot they also
complete in that order.  The protocol invariant `PInv` supplies "at most one item in transit" and,
with limit 1, "at most one item in service".
-/
namespace HappyModel.C08.Pipe
open HappyModel.C08

structure FInv (s : PSt) (g : Gh) (ss : SSt) : Prop where
  ord : g.accepted = g.started ++ ((s.delivers ++ s.works) ++ ss.held.map (·.id))
  one : s.limit = 1 → g.started = g.done ++ s.inService

theorem finv_init (lim : Nat) : FInv { limit := lim } {} {} := ⟨rfl, fun _ => rfl⟩

theorem FInv.frame {s s' : PSt} {g : Gh} {ss : SSt} (h : FInv s g ss) (f : Same s s') (hl : s'.limit = s.limit) :
    FInv s' g ss :=
  ⟨by rw [f.d, f.w]; exact h.ord, by rw [f.i, hl]; exact h.one⟩

theorem eq_singleton_of_mem {l : List Nat} {i : Nat} (hl : l.length ≤ 1) (hm : i ∈ l) : l = [i] := by
  cases l with
  | nil => cases hm
  | cons x xs =>
    cases xs with
    | nil => simp at hm; rw [hm]
    | cons y ys => simp at hl

theorem arr_finv {c : PCfg} {s : PSt} {g : Gh} {ss : SSt} (hr : PolRel c.pol s.q ss) (h : FInv s g ss) (it : Item) :
    FInv (stepArr c s it).1 (gstep g (.arr it) (stepArr c s it).2) (sPush c.pol ss it false false).1 := by
  obtain ⟨ord, one⟩ := h
  have h2 := (polrel_push hr it false false).1
  have hh := sPush_held c.pol ss it false false
  unfold stepArr
  simp only
  cases hok : (push c.pol s.q it false false).2 with
  | true =>
    rw [← h2, hok] at hh
    simp only [if_true] at hh
    simp only [if_true, gstep]
    refine ⟨?_, one⟩
    rw [hh, ord]; simp
  | false =>
    rw [← h2, hok] at hh
    simp only [Bool.false_eq_true, if_false] at hh
    simp only [Bool.false_eq_true, if_false, gstep]
    exact ⟨by rw [hh]; exact ord, one⟩

theorem poll_finv {c : PCfg} {s : PSt} {g : Gh} {ss : SSt} (hk : c.pol.kind = .fifo) (hr : PolRel c.pol s.q ss)
    (hi : PInv c s) (h : FInv s g ss) :
    FInv (stepPoll c s).1 (gstep g .poll (stepPoll c s).2) (sstep c s ss .poll) := by
  obtain ⟨ord, one⟩ := h
  obtain ⟨h2, hr'⟩ := polrel_pop hr 0 0
  by_cases hp : s.nPoll = 0
  · simp only [stepPoll, sstep, hp, if_true, gstep]
    exact ⟨ord, one⟩
  · simp only [stepPoll, sstep, hp, if_false]
    cases hit : (pop c.pol s.q 0 0).2 with
    | some it =>
      rw [hit] at h2
      have hhd := sPop_held_fifo c.pol hk ss it h2.symm
      have hrt := hi.rt
      have hb1 : (if s.busy = true then (1 : Nat) else 0) ≤ 1 := by split <;> omega
      have hwf := hi.wf
      have hd : s.delivers = [] := List.eq_nil_of_length_eq_zero (by omega)
      have hw : s.works = [] := List.eq_nil_of_length_eq_zero (by omega)
      simp only [gstep]
      refine ⟨?_, one⟩
      rw [ord, hhd, hd, hw]; simp
    | none =>
      rw [hit] at h2
      have hnil := sPop_none_held hr h2.symm
      have hle := pop_len_le c.pol s.q 0 0
      rw [polrel_len hr', polrel_len hr, hnil] at hle
      have hnil' : (sPop c.pol ss 0 0).1.held = [] := List.eq_nil_of_length_eq_zero (Nat.le_zero.mp hle)
      have key : FInv { s with nPoll := s.nPoll - 1, q := (pop c.pol s.q 0 0).1 } g (sPop c.pol ss 0 0).1 :=
        ⟨by rw [hnil']; rw [hnil] at ord; exact ord, one⟩
      cases c.variant <;> exact key.frame ⟨rfl, rfl, rfl, rfl, rfl, rfl, rfl⟩ rfl

theorem deliver_finv {c : PCfg} {s : PSt} {g : Gh} {ss : SSt} (hi : PInv c s) (h : FInv s g ss) (x : Option Nat) :
    FInv (stepDeliver c s x).1 (gstep g (.deliver x) (stepDeliver c s x).2) ss := by
  cases x with
  | some i =>
    by_cases hc : s.delivers.contains i = true
    · have hm : i ∈ s.delivers := by simpa using hc
      obtain ⟨ord, one⟩ := h
      have hrt := hi.rt
      have hb1 : (if s.busy = true then (1 : Nat) else 0) ≤ 1 := by split <;> omega
      have hwf := hi.wf
      have hpos : 0 < s.delivers.length := List.length_pos_of_mem hm
      have hd : s.delivers = [i] := eq_singleton_of_mem (by omega) hm
      have hw : s.works = [] := List.eq_nil_of_length_eq_zero (by omega)
      have key : FInv { s with delivers := s.delivers.erase i, works := s.works ++ [i] } g ss := by
        refine ⟨?_, one⟩
        rw [ord, hd, hw]; simp
      simp only [stepDeliver, hc, Bool.not_true, Bool.false_eq_true, if_false]
      cases c.variant <;> exact key.frame ⟨rfl, rfl, rfl, rfl, rfl, rfl, rfl⟩ rfl
    · have hc' : s.delivers.contains i = false := by simpa using hc
      simp only [stepDeliver, hc', Bool.not_false, if_true]
      exact h
  | none =>
    simp only [stepDeliver]
    split
    · exact h
    · have h0 : FInv { s with nEmpty := s.nEmpty - 1, busy := false } g ss := ⟨h.ord, h.one⟩
      split
      · exact h0.frame (pollIfReady_same c _) (pollIfReady_limit c _)
      · exact h0

theorem work_finv {c : PCfg} {s : PSt} {g : Gh} {ss : SSt} (st : Setting c) (hi : PInv c s) (h : FInv s g ss)
    (i : Nat) : FInv (stepWork c s i).1 (gstep g (.work i) (stepWork c s i).2) ss := by
  by_cases hc : s.works.contains i = true
  · have hm : i ∈ s.works := by simpa using hc
    obtain ⟨ord, one⟩ := h
    have hrt := hi.rt
    have hb1 : (if s.busy = true then (1 : Nat) else 0) ≤ 1 := by split <;> omega
    have hwf := hi.wf
    have hact := hi.act
    have hpos : 0 < s.works.length := List.length_pos_of_mem hm
    have hlt : s.active < s.limit := hi.res (by omega)
    have hw : s.works = [i] := eq_singleton_of_mem (by omega) hm
    have hd : s.delivers = [] := List.eq_nil_of_length_eq_zero (by omega)
    have hcap : hasCap { s with works := s.works.erase i } = true := by simpa [hasCap] using hlt
    simp only [stepWork, hc, Bool.not_true, Bool.false_eq_true, if_false, st.hw, hcap, if_true, gstep]
    refine ⟨?_, fun h1 => ?_⟩
    · show g.accepted = (g.started ++ [i]) ++ ((s.delivers ++ s.works.erase i) ++ ss.held.map (·.id))
      rw [ord, hd, hw]; simp
    · have h1' : s.limit = 1 := h1
      have hin : s.inService = [] := List.eq_nil_of_length_eq_zero (by omega)
      show g.started ++ [i] = g.done ++ (s.inService ++ [i])
      rw [one h1', hin]; simp
  · have hc' : s.works.contains i = false := by simpa using hc
    simp only [stepWork, hc', Bool.not_false, if_true]
    exact h

theorem fin_finv {c : PCfg} {s : PSt} {g : Gh} {ss : SSt} (hi : PInv c s) (h : FInv s g ss) (i : Nat) :
    FInv (stepFin c s i).1 (gstep g (.fin i) (stepFin c s i).2) ss := by
  by_cases hc : s.inService.contains i = true
  · have hm : i ∈ s.inService := by simpa using hc
    obtain ⟨ord, one⟩ := h
    have hact := hi.act
    have hle := hi.le
    have key : FInv { s with inService := s.inService.erase i, active := s.active - 1, completed := s.completed + 1 }
        { g with done := g.done ++ [i] } ss := by
      refine ⟨ord, fun h1 => ?_⟩
      have h1' : s.limit = 1 := h1
      have hin : s.inService = [i] := eq_singleton_of_mem (by omega) hm
      show g.started = (g.done ++ [i]) ++ s.inService.erase i
      rw [one h1', hin]; simp
    simp only [stepFin, hc, Bool.not_true, Bool.false_eq_true, if_false, gstep]
    exact key.frame (pollIfReady_same c _) (pollIfReady_limit c _)
  · have hc' : s.inService.contains i = false := by simpa using hc
    simp only [stepFin, hc', Bool.not_false, if_true]
    exact h

theorem step_finv {c : PCfg} {s : PSt} {g : Gh} {ss : SSt} (st : Setting c) (hk : c.pol.kind = .fifo)
    (hr : PolRel c.pol s.q ss) (hi : PInv c s) (h : FInv s g ss) (a : Act) (ha : Adm s a) :
    FInv (step c s a).1 (gstep g a (step c s a).2) (sstep c s ss a) := by
  cases a with
  | arr it => exact arr_finv hr h it
  | notify =>
    simp only [step, stepNotify, sstep]
    split
    · exact h
    · exact FInv.frame (s := { s with nNotify := s.nNotify - 1 }) ⟨h.ord, h.one⟩
        (pollIfReady_same c _) (pollIfReady_limit c _)
  | poll => exact poll_finv hk hr hi h
  | deliver x => exact deliver_finv hi h x
  | work i => exact work_finv st hi h i
  | disp =>
    simp only [step, stepDisp, sstep]
    split
    · exact h
    · exact FInv.frame (s := { s with nDisp := s.nDisp - 1, busy := false }) ⟨h.ord, h.one⟩
        (pollIfReady_same c _) (pollIfReady_limit c _)
  | fin i => exact fin_finv hi h i
  | shift cap => exact absurd ha.2 (by simp [Act.isShift])

theorem final_finv {c : PCfg} (st : Setting c) (hk : c.pol.kind = .fifo) : ∀ (as : List Act) (s : PSt) (g : Gh)
    (ss : SSt), Sched c s as → PolRel c.pol s.q ss → PInv c s → FInv s g ss →
    FInv (final c s as) (ghost c s g as) (sfinal c s ss as)
  | [], _, _, _, _, _, _, h => h
  | a :: as, _, _, _, hs, hr, hi, h =>
    final_finv st hk as _ _ _ hs.2 (step_rel hr a) (step_inv st hr a hs.1 hi) (step_finv st hk hr hi h a hs.1)

end HappyModel.C08.Pipe
