import HappyProofs.C08.PipeWStep
/-!
C08 part 2b — the protocol of /repo HEAD (`admission` off, `wake` on): a granted poll dequeues
whatever the policy hands out; the worker rejects and counts what does not fit.  `DInv` is preserved
by every delivery of every schedule that handles a `QueueDispatchedEvent` after its payload — no
hypothesis on weights, queue kind or limit changes.  Step-level facts about the worker's rejection
hold for every state and config.
-/
namespace HappyModel.C08.PipeW

/-- /repo HEAD -/
structure SettingD (c : WCfg) : Prop where
  ha : c.admission = false
  hw : c.wake = true

/-- admissible delivery: a `QueueDispatchedEvent` is handled only after the payload it was created
    behind has reached the worker (engine FIFO tie order); nothing else is asked -/
def AdmD (s : WSt) (a : Act) : Prop := a = .disp → s.works = []

instance instDecAdmD (s : WSt) (a : Act) : Decidable (AdmD s a) :=
  inferInstanceAs (Decidable (a = .disp → s.works = []))

/-- every prefix of the schedule is admissible (`c` only drives the run) -/
def SchedD (c : WCfg) : WSt → List Act → Prop
  | _, [] => True
  | s, a :: as => AdmD s a ∧ SchedD c (step c s a).1 as

instance instDecSchedD (c : WCfg) : ∀ (as : List Act) (s : WSt), Decidable (SchedD c s as)
  | [], _ => isTrue trivial
  | a :: as, s =>
    match (inferInstance : Decidable (AdmD s a)), instDecSchedD c as (step c s a).1 with
    | isTrue h1, isTrue h2 => isTrue ⟨h1, h2⟩
    | isFalse h1, _ => isFalse fun h => h1 h.1
    | _, isFalse h2 => isFalse fun h => h2 h.2

theorem schedD_take {c : WCfg} : ∀ (n : Nat) (as : List Act) (s : WSt),
    SchedD c s as → SchedD c s (as.take n)
  | 0, _, _, _ => trivial
  | _ + 1, [], _, _ => trivial
  | n + 1, _ :: as, _, h => ⟨h.1, schedD_take n as _ h.2⟩

/-! ### the invariant -/

/-- everything except the no-strand clause -/
structure DInv0 (c : WCfg) (s : WSt) : Prop where
  rt : s.nPoll + s.delivers.length + s.nEmpty + s.nDisp = (if s.busy then 1 else 0)
  wf : s.works.length ≤ s.nDisp
  act : s.used = sumW c s.inService
  /-- waiting, in transit, in service, completed, rejected by the worker and counted -/
  count : s.acc = s.q.length + s.delivers.length + s.works.length + s.inService.length + s.completed + s.rejected

/-- whenever something waits and at least one unit is free, some protocol event is still pending
    (the code dequeues on one free unit and rejects a head that does not fit rather than letting it
    block the queue) -/
def NoStrandD (s : WSt) : Prop := s.q ≠ [] → s.used + 1 ≤ s.limit →
    0 < s.nNotify ∨ 0 < s.nPoll ∨ 0 < s.delivers.length ∨ 0 < s.nDisp ∨ (0 < s.nEmpty ∧ s.recheck = true)

structure DInv (c : WCfg) (s : WSt) : Prop extends DInv0 c s where
  strand : NoStrandD s

theorem dinv_init (c : WCfg) (lim : Nat) : DInv c { limit := lim } := by
  refine ⟨⟨by simp, by simp, by simp [sumW], by simp⟩, ?_⟩
  intro hq; simp at hq

/-- Lemma A: after `_poll_if_ready` the no-strand clause holds whatever it was before -/
theorem pollIfReady_dinv {c : WCfg} {s : WSt} (h : DInv0 c s) : DInv c (pollIfReady s).1 := by
  obtain ⟨rt, wf, act, count⟩ := h
  unfold pollIfReady
  by_cases hb : s.busy = true
  · simp only [hb, if_true]
    simp only [hb, if_true] at rt
    refine ⟨⟨by simpa [hb] using rt, wf, act, count⟩, ?_⟩
    intro _ _
    simp
    omega
  · have hb' : s.busy = false := by simpa using hb
    simp only [hb', Bool.false_eq_true, if_false] at rt ⊢
    by_cases hc : fits s 1 = true
    · simp only [hc, if_true]
      refine ⟨⟨by simp; omega, wf, act, count⟩, ?_⟩
      intro _ _; simp
    · simp only [hc, Bool.false_eq_true, if_false]
      refine ⟨⟨by simpa [hb'] using rt, wf, act, count⟩, ?_⟩
      intro _ hlt
      exact absurd ((fits_iff s 1).2 hlt) hc

/-! ### per-action preservation -/

theorem arr_dinv {c : WCfg} {s : WSt} (it : WItem) (h : DInv c s) : DInv c (stepArr c s it).1 := by
  obtain ⟨⟨rt, wf, act, count⟩, strand⟩ := h
  unfold stepArr
  split
  · exact ⟨⟨rt, wf, act, count⟩, strand⟩
  · refine ⟨⟨rt, wf, act, ?_⟩, ?_⟩
    · dsimp only; simp only [List.length_append, List.length_singleton]; omega
    · intro _ hfit
      dsimp only at hfit ⊢
      by_cases hq : s.q = []
      · simp [hq]
      · have hne : s.q.isEmpty = false := by simpa using hq
        simp only [hne, Bool.false_eq_true, if_false]
        exact strand hq hfit

theorem notify_dinv {c : WCfg} {s : WSt} (h : DInv c s) : DInv c (stepNotify s).1 := by
  unfold stepNotify
  split
  · exact h
  · exact pollIfReady_dinv ⟨h.rt, h.wf, h.act, h.count⟩

theorem poll_dinv {c : WCfg} {s : WSt} (ha : c.admission = false) (h : DInv c s) :
    DInv c (stepPoll c s).1 := by
  obtain ⟨⟨rt, wf, act, count⟩, strand⟩ := h
  by_cases hp : s.nPoll = 0
  · simp only [stepPoll, hp, if_true]
    exact ⟨⟨rt, wf, act, count⟩, strand⟩
  · simp only [stepPoll, hp, if_false]
    cases hit : pick c.kind s.q with
    | none =>
      simp only
      have hq : s.q = [] := by
        by_cases hq : s.q = []
        · exact hq
        · obtain ⟨y, hy⟩ := pick_ne_none (k := c.kind) hq
          rw [hit] at hy; cases hy
      refine ⟨⟨?_, wf, act, count⟩, ?_⟩
      · dsimp only; omega
      · intro hne; exact absurd hq hne
    | some it =>
      have had : admits c s it = true := by simp [admits, ha]
      have hm := pick_mem hit
      have hlen := List.length_erase_of_mem hm
      have hpos := List.length_pos_of_mem hm
      simp only [had, if_true]
      refine ⟨⟨?_, wf, act, ?_⟩, ?_⟩
      · simp only [List.length_append, List.length_singleton]; omega
      · dsimp only; simp only [hlen, List.length_append, List.length_singleton]; omega
      · intro _ _; simp

theorem deliver_dinv {c : WCfg} {s : WSt} (x : Option Nat) (h : DInv c s) :
    DInv c (stepDeliver s x).1 := by
  obtain ⟨⟨rt, wf, act, count⟩, strand⟩ := h
  cases x with
  | some i =>
    cases hb : byId s.delivers i with
    | none =>
      simp only [stepDeliver, hb]
      exact ⟨⟨rt, wf, act, count⟩, strand⟩
    | some it =>
      have hm := byId_mem hb
      have hlen := List.length_erase_of_mem hm
      have hpos := List.length_pos_of_mem hm
      simp only [stepDeliver, hb]
      refine ⟨⟨?_, ?_, act, ?_⟩, ?_⟩
      · simp only [hlen]; omega
      · simp only [List.length_append, List.length_singleton]; omega
      · dsimp only; simp only [hlen, List.length_append, List.length_singleton]; omega
      · intro _ _; dsimp only; omega
  | none =>
    by_cases hne : s.nEmpty = 0
    · simp only [stepDeliver, hne, if_true]
      exact ⟨⟨rt, wf, act, count⟩, strand⟩
    · have hbusy : s.busy = true := busy_of_pending rt (by omega)
      simp only [hbusy, if_true] at rt
      have h0 : DInv0 c { s with nEmpty := s.nEmpty - 1, busy := false } := by
        refine ⟨?_, wf, act, count⟩
        dsimp only; rw [if_neg (by decide)]; omega
      simp only [stepDeliver, hne, if_false]
      split
      · exact pollIfReady_dinv h0
      · rename_i hr
        refine ⟨h0, ?_⟩
        intro hq hfit
        dsimp only at hq hfit hr ⊢
        rcases strand hq hfit with h | h | h | h | ⟨_, h⟩
        · exact Or.inl h
        · omega
        · omega
        · omega
        · exact absurd h hr

theorem disp_dinv {c : WCfg} {s : WSt} (hw0 : s.works = []) (h : DInv c s) :
    DInv c (stepDisp s).1 := by
  obtain ⟨⟨rt, wf, act, count⟩, strand⟩ := h
  unfold stepDisp
  split
  · exact ⟨⟨rt, wf, act, count⟩, strand⟩
  · rename_i hne
    have hbusy : s.busy = true := busy_of_pending rt (by omega)
    simp only [hbusy, if_true] at rt
    apply pollIfReady_dinv
    refine ⟨?_, by simp [hw0], act, ?_⟩
    · dsimp only; rw [if_neg (by decide)]; omega
    · exact count

theorem work_dinv {c : WCfg} {s : WSt} (i : Nat) (h : DInv c s) : DInv c (stepWork c s i).1 := by
  obtain ⟨⟨rt, wf, act, count⟩, strand⟩ := h
  cases hb : byId s.works i with
  | none =>
    simp only [stepWork, hb]
    exact ⟨⟨rt, wf, act, count⟩, strand⟩
  | some it =>
    have hm := byId_mem hb
    have hlen := List.length_erase_of_mem hm
    have hpos := List.length_pos_of_mem hm
    by_cases hf : fits s (wOf c it) = true
    · -- started: the dispatched event behind the payload is still pending
      simp only [stepWork, hb, hf, if_true]
      refine ⟨⟨rt, ?_, ?_, ?_⟩, ?_⟩
      · dsimp only; omega
      · dsimp only; simp only [sumW_append, sumW_singleton]; omega
      · dsimp only; simp only [hlen, List.length_append, List.length_singleton]; omega
      · intro _ _; dsimp only; omega
    · -- rejected and counted; the completion hook runs `_poll_if_ready`
      have hf' : fits s (wOf c it) = false := by simpa using hf
      simp only [stepWork, hb, hf', Bool.false_eq_true, if_false]
      apply pollIfReady_dinv
      refine ⟨rt, ?_, act, ?_⟩
      · dsimp only; omega
      · dsimp only; simp only [hlen]; omega

theorem fin_dinv {c : WCfg} {s : WSt} (i : Nat) (h : DInv c s) : DInv c (stepFin c s i).1 := by
  obtain ⟨⟨rt, wf, act, count⟩, strand⟩ := h
  cases hb : byId s.inService i with
  | none =>
    simp only [stepFin, hb]
    exact ⟨⟨rt, wf, act, count⟩, strand⟩
  | some it =>
    have hm := byId_mem hb
    have hlen := List.length_erase_of_mem hm
    have hpos := List.length_pos_of_mem hm
    have hsum := sumW_erase c hm
    simp only [stepFin, hb]
    apply pollIfReady_dinv
    refine ⟨rt, wf, ?_, ?_⟩
    · dsimp only; omega
    · dsimp only; simp only [hlen]; omega

theorem limit_dinv {c : WCfg} {s : WSt} (hw : c.wake = true) (n : Nat) (h : DInv c s) :
    DInv c (stepLimit c s n).1 := by
  obtain ⟨⟨rt, wf, act, count⟩, strand⟩ := h
  simp only [stepLimit, hw, eq_self, true_and]
  split
  · -- raised with work waiting: the notify is pending
    refine ⟨⟨rt, wf, act, count⟩, ?_⟩
    intro _ _; dsimp only; omega
  · rename_i hc
    refine ⟨⟨rt, wf, act, count⟩, ?_⟩
    intro hq hfit
    dsimp only at hq hfit ⊢
    have hl : ¬ s.limit < newLimit c s n := fun hl => hc ⟨hl, hq⟩
    exact strand hq (by omega)

theorem stepD_inv {c : WCfg} {s : WSt} (st : SettingD c) (a : Act) (ha : AdmD s a) (h : DInv c s) :
    DInv c (step c s a).1 := by
  cases a with
  | arr it => exact arr_dinv it h
  | notify => exact notify_dinv h
  | poll => exact poll_dinv st.ha h
  | deliver x => exact deliver_dinv x h
  | work i => exact work_dinv i h
  | disp => exact disp_dinv (ha rfl) h
  | fin i => exact fin_dinv i h
  | limit n => exact limit_dinv st.hw n h

theorem finalD_inv {c : WCfg} (st : SettingD c) : ∀ (as : List Act) (s : WSt), SchedD c s as →
    DInv c s → DInv c (final c s as)
  | [], _, _, h => h
  | a :: as, _, hs, h => finalD_inv st as _ hs.2 (stepD_inv st a hs.1 h)

end HappyModel.C08.PipeW
