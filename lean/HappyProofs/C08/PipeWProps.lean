import HappyProofs.C08.PipeWDefault
/-!
# C08 part 2b — Queue + QueueDriver + `Server` over every `ConcurrencyModel`, in capacity units

Part A: facts about **every** config and schedule (capacity bookkeeping of the worker).
Part B: /repo HEAD (`SettingD c`: `admission` off, `wake` on) under every schedule that handles a
`QueueDispatchedEvent` after its payload (`SchedD c s as`): the five-way item-state partition (a
request the worker rejects is counted), rejection exactly when the request does not fit, no strand
while one unit is free.  Part C: the admission proposal (`Setting c`: `admission` and `wake` on) under
`Sched c w0 s as`: nothing accepted is rejected, no strand for the head's weight.  Every statement
about `final c s₀ as` holds for every admissible `as`, i.e. after every event of every run.
Part D: witnesses — the rejection at HEAD, and the strand of the code before `wake`.
-/
namespace HappyModel.C08.PipeW

/-! ## Part A — every config and schedule -/

/-- conservation: the reported units in use are exactly the weights of the items in service -/
theorem used_eq_in_service_weight (c : WCfg) (lim : Nat) (as : List Act) :
    (final c { limit := lim } as).used = sumW c (final c { limit := lim } as).inService :=
  final_act c as _ rfl

/-- a start takes exactly the item's weight, and only when that fits under the limit in force -/
theorem start_takes_weight (c : WCfg) (s : WSt) (i : Nat) (hact : s.used = sumW c s.inService)
    (h : (stepWork c s i).2 = .started true) :
    ∃ it, byId s.works i = some it ∧ (stepWork c s i).1.used = s.used + wOf c it ∧
      (stepWork c s i).1.used ≤ s.limit ∧
      (stepWork c s i).1.used = sumW c (stepWork c s i).1.inService := by
  cases hb : byId s.works i with
  | none => simp [stepWork, hb] at h
  | some it =>
    by_cases hf : fits s (wOf c it) = true
    · have hfit := (fits_iff _ _).1 hf
      refine ⟨it, rfl, ?_, ?_, ?_⟩ <;> simp only [stepWork, hb, hf, if_true]
      · exact hfit
      · simp only [sumW_append, sumW_singleton]; omega
    · have hf' : fits s (wOf c it) = false := by simpa using hf
      simp [stepWork, hb, hf'] at h

/-- a finish gives exactly the item's weight back and counts one completion -/
theorem finish_returns_weight (c : WCfg) (s : WSt) (i : Nat) (it : WItem)
    (hact : s.used = sumW c s.inService) (hb : byId s.inService i = some it) :
    (stepFin c s i).1.used + wOf c it = s.used ∧ (stepFin c s i).1.completed = s.completed + 1 ∧
      (stepFin c s i).1.used = sumW c (stepFin c s i).1.inService := by
  have hle := wOf_le_sumW c (byId_mem hb)
  have hsum := sumW_erase c (byId_mem hb)
  refine ⟨?_, ?_, ?_⟩ <;>
    simp only [stepFin, hb, pollIfReady_used, pollIfReady_completed, pollIfReady_inService] <;> omega

/-- a start never takes the units in use above the limit (any state, any config) -/
theorem start_never_exceeds_limit (c : WCfg) (s : WSt) (i : Nat)
    (h : (stepWork c s i).2 = .started true) :
    (stepWork c s i).1.used ≤ (stepWork c s i).1.limit := by
  cases hb : byId s.works i with
  | none => simp [stepWork, hb] at h
  | some it =>
    by_cases hf : fits s (wOf c it) = true
    · simp only [stepWork, hb, hf, if_true]
      exact (fits_iff _ _).1 hf
    · have hf' : fits s (wOf c it) = false := by simpa using hf
      simp [stepWork, hb, hf'] at h

/-- work in service never exceeds the limit along any schedule that does not lower the limit -/
theorem in_service_weight_le_limit (c : WCfg) (lim : Nat) (as : List Act)
    (hn : NoLower c { limit := lim } as) :
    (final c { limit := lim } as).used ≤ (final c { limit := lim } as).limit ∧
    sumW c (final c { limit := lim } as).inService ≤ (final c { limit := lim } as).limit := by
  have h := final_le c as { limit := lim } hn (Nat.zero_le _)
  exact ⟨h, used_eq_in_service_weight c lim as ▸ h⟩

/-! ## Part B — /repo HEAD (`admission` off, `wake` on) -/

theorem quiescent_no_pending {s : WSt} (hq : quiescent s = true) :
    ¬ (0 < s.nNotify ∨ 0 < s.nPoll ∨ 0 < s.delivers.length ∨ 0 < s.nDisp ∨ (0 < s.nEmpty ∧ s.recheck = true)) := by
  simp only [quiescent, Bool.and_eq_true, beq_iff_eq, List.isEmpty_iff] at hq
  obtain ⟨⟨⟨⟨⟨h1, h2⟩, h3⟩, h4⟩, h5⟩, h6⟩ := hq
  rintro (g | g | g | g | ⟨g, _⟩)
  · omega
  · omega
  · rw [h5] at g; simp at g
  · omega
  · omega

/-- the protocol invariant at the end of an admissible schedule -/
theorem final_dinv {c : WCfg} (st : SettingD c) (lim : Nat) (as : List Act)
    (hs : SchedD c { limit := lim } as) : DInv c (final c { limit := lim } as) :=
  finalD_inv st as _ hs (dinv_init c lim)

/-- every accepted item is waiting, in transit inside the current instant, in service, completed, or
    rejected by the worker and counted: the five populations add up to `stats_accepted` -/
theorem item_state_partition_count {c : WCfg} (st : SettingD c) (lim : Nat) (as : List Act)
    (hs : SchedD c { limit := lim } as) :
    let s := final c { limit := lim } as
    s.acc = s.q.length + (s.delivers.length + s.works.length) + s.inService.length + s.completed + s.rejected := by
  have h := (final_dinv st lim as hs).count
  simp only; omega

/-- no strand: whenever the component is quiescent (no protocol event pending, so simulated time is
    about to pass) with a request waiting, not even one capacity unit is free -/
theorem no_strand {c : WCfg} (st : SettingD c) (lim : Nat) (as : List Act)
    (hs : SchedD c { limit := lim } as) :
    quiescent (final c { limit := lim } as) = true → (final c { limit := lim } as).q ≠ [] →
      (final c { limit := lim } as).limit < (final c { limit := lim } as).used + 1 := by
  have h := final_dinv st lim as hs
  generalize final c { limit := lim } as = s at h
  intro hq hne
  by_cases hfit : s.used + 1 ≤ s.limit
  · exact absurd (h.strand hne hfit) (quiescent_no_pending hq)
  · omega

/-- … so no waiting request fits into the free capacity -/
theorem no_waiting_item_fits {c : WCfg} (st : SettingD c) (lim : Nat) (as : List Act)
    (hs : SchedD c { limit := lim } as) :
    quiescent (final c { limit := lim } as) = true → ∀ it, it ∈ (final c { limit := lim } as).q →
      (final c { limit := lim } as).limit < (final c { limit := lim } as).used + wOf c it := by
  intro hq it hit
  have h := no_strand st lim as hs hq (List.ne_nil_of_mem hit)
  have := wOf_pos c it
  omega

/-- the worker rejects a request only when its weight does not fit under the limit in force -/
theorem rejected_only_when_not_fitting (c : WCfg) (s : WSt) (i : Nat)
    (h : (stepWork c s i).2 = .started false) :
    ∃ it, byId s.works i = some it ∧ s.limit < s.used + wOf c it := by
  cases hb : byId s.works i with
  | none => simp [stepWork, hb] at h
  | some it =>
    by_cases hf : fits s (wOf c it) = true
    · simp [stepWork, hb, hf] at h
    · exact ⟨it, rfl, by have := mt (fits_iff s (wOf c it)).2 hf; omega⟩

/-- a rejected request is counted once, takes no capacity, never starts and never completes -/
theorem rejected_is_counted_and_takes_nothing (c : WCfg) (s : WSt) (i : Nat)
    (h : (stepWork c s i).2 = .started false) :
    (stepWork c s i).1.rejected = s.rejected + 1 ∧ (stepWork c s i).1.used = s.used ∧
      (stepWork c s i).1.inService = s.inService ∧ (stepWork c s i).1.completed = s.completed := by
  cases hb : byId s.works i with
  | none => simp [stepWork, hb] at h
  | some it =>
    by_cases hf : fits s (wOf c it) = true
    · simp [stepWork, hb, hf] at h
    · have hf' : fits s (wOf c it) = false := by simpa using hf
      simp only [stepWork, hb, hf', Bool.false_eq_true, if_false, pollIfReady_rejected, pollIfReady_used,
        pollIfReady_inService, pollIfReady_completed, and_self]

/-- a request that fits is started, never rejected -/
theorem fitting_item_is_started (c : WCfg) (s : WSt) (i : Nat) (it : WItem)
    (hb : byId s.works i = some it) (hf : s.used + wOf c it ≤ s.limit) :
    (stepWork c s i).2 = .started true := by
  simp only [stepWork, hb, (fits_iff s (wOf c it)).2 hf, if_true]

/-! ### non-vacuity (HEAD) -/

def cfgH : WCfg := { conc := .weighted }
def cfgHL : WCfg := { conc := .weighted, kind := .lifo }
def cfgDy : WCfg := { conc := .dynamic 1 (some 4) }

example : SettingD cfgH ∧ SettingD cfgHL ∧ SettingD cfgDy := ⟨⟨rfl, rfl⟩, ⟨rfl, rfl⟩, ⟨rfl, rfl⟩⟩

/-- weighted pool of 3 units behind a FIFO queue, weights 2, 2, 1, 1: item 0 starts; one unit is free,
    so the poll is granted and hands out item 1 (2 units): the worker rejects and counts it (event 13);
    the lighter item 2 behind it starts (event 17) and fills the pool; item 3 arrives and waits, the
    instant ends quiescent; `fin 0` frees two units and item 3 starts -/
def schedX : List Act :=
  [.arr ⟨0, 0, 2⟩, .notify, .poll, .deliver (some 0), .work 0, .disp, .poll, .deliver none,
   .arr ⟨1, 0, 2⟩, .arr ⟨2, 0, 1⟩, .notify, .poll, .deliver (some 1), .work 1, .disp,
   .poll, .deliver (some 2), .work 2, .disp, .arr ⟨3, 0, 1⟩, .notify,
   .fin 0, .poll, .deliver (some 3), .work 3, .disp, .poll, .deliver none]

example : SchedD cfgH { limit := 3 } schedX ∧ NoLower cfgH { limit := 3 } schedX := by decide
example : (run cfgH { limit := 3 } schedX).map (·.1) =
    [.accepted true, .polled true, .popped (some 0), .done, .started true, .polled true, .popped none,
     .polled false, .accepted true, .accepted true, .polled true, .popped (some 1), .done, .started false,
     .polled true, .popped (some 2), .done, .started true, .polled false, .accepted true, .polled false,
     .done, .popped (some 3), .done, .started true, .polled true, .popped none, .polled false] := by decide
/-- the five populations at the end (0 + 0 + 2 + 1 + 1 = 4) and in mid-instant (event 13 done:
    1 waiting, 0 + 0 in transit, 1 in service, 0 completed, 1 rejected) -/
example : let s := final cfgH { limit := 3 } schedX
    s.rejected = 1 ∧ s.acc = 4 ∧ s.q = [] ∧ s.inService = [⟨2, 0, 1⟩, ⟨3, 0, 1⟩] ∧ s.completed = 1 ∧
    s.used = 2 ∧ s.acc = s.q.length + (s.delivers.length + s.works.length) + s.inService.length +
      s.completed + s.rejected := by decide
example : let s := final cfgH { limit := 3 } (schedX.take 14)
    s.q = [⟨2, 0, 1⟩] ∧ s.inService = [⟨0, 0, 2⟩] ∧ s.rejected = 1 ∧ s.acc = 3 ∧ s.nDisp = 1 := by decide
/-- hypotheses and conclusion of `no_strand` / `no_waiting_item_fits`, computed (after event 20) -/
example : let s := final cfgH { limit := 3 } (schedX.take 21)
    quiescent s = true ∧ s.q = [⟨3, 0, 1⟩] ∧ s.used = 3 ∧ s.limit = 3 ∧
    s.limit < s.used + wOf cfgH ⟨3, 0, 1⟩ := by decide
/-- the three step-level theorems on that run: event 13 rejects item 1 (2 units, 1 free), event 17
    starts item 2 (1 unit, 1 free) -/
example : let s := final cfgH { limit := 3 } (schedX.take 13)
    (stepWork cfgH s 1).2 = .started false ∧ byId s.works 1 = some ⟨1, 0, 2⟩ ∧ s.used = 2 ∧ s.limit = 3 ∧
    (stepWork cfgH s 1).1.rejected = s.rejected + 1 ∧ (stepWork cfgH s 1).1.used = 2 := by decide
example : let s := final cfgH { limit := 3 } (schedX.take 17)
    byId s.works 2 = some ⟨2, 0, 1⟩ ∧ s.used + wOf cfgH ⟨2, 0, 1⟩ ≤ s.limit ∧
    (stepWork cfgH s 2).2 = .started true ∧ (stepWork cfgH s 2).1.used = 3 := by decide
/-- `finish_returns_weight` on that run: event 21 -/
example : let s := final cfgH { limit := 3 } (schedX.take 21)
    byId s.inService 0 = some ⟨0, 0, 2⟩ ∧ (stepFin cfgH s 0).1.used = 1 := by decide

/-- a LIFO queue with mixed weights 2, 3, 1 in a pool of 4: the newest (lightest) overtakes and
    starts, the 3-unit item is handed out beside one free unit and rejected -/
def schedLX : List Act :=
  [.arr ⟨0, 0, 2⟩, .notify, .poll, .deliver (some 0), .work 0, .disp, .arr ⟨1, 0, 3⟩, .arr ⟨2, 0, 1⟩,
   .poll, .notify, .deliver (some 2), .work 2, .disp, .poll, .deliver (some 1), .work 1, .disp,
   .poll, .deliver none]

example : SchedD cfgHL { limit := 4 } schedLX := by decide
example : let s := final cfgHL { limit := 4 } schedLX
    s.inService = [⟨0, 0, 2⟩, ⟨2, 0, 1⟩] ∧ s.used = 3 ∧ s.rejected = 1 ∧ s.acc = 3 ∧ s.q = [] ∧
    quiescent s = true := by decide

/-- `DynamicConcurrency` in `[1, 4]`: item 1 waits beside a full single slot; `set_limit(2)` leaves a
    notify pending (event 8), the driver polls and item 1 starts in the same run; `set_limit(9)` clamps
    to 4; `set_limit(1)` with two requests in service leaves `used = 2 > limit = 1` until they
    finish — the reason `in_service_weight_le_limit` asks for `NoLower` -/
def schedDyn : List Act :=
  [.arr ⟨0, 0, 1⟩, .notify, .poll, .deliver (some 0), .work 0, .disp, .arr ⟨1, 0, 1⟩, .notify, .limit 2,
   .notify, .poll, .deliver (some 1), .work 1, .disp, .limit 9, .limit 1, .fin 0, .fin 1, .poll, .deliver none]

example : SchedD cfgDy { limit := 1 } schedDyn := by decide
example : (run cfgDy { limit := 1 } schedDyn).map (·.1) =
    [.accepted true, .polled true, .popped (some 0), .done, .started true, .polled false, .accepted true,
     .polled false, .polled true, .polled true, .popped (some 1), .done, .started true, .polled false,
     .polled false, .polled false, .done, .done, .popped none, .polled false] := by decide
example : NoLower cfgDy { limit := 1 } (schedDyn.take 15) ∧
    ¬ NoLower cfgDy { limit := 1 } (schedDyn.take 16) := by decide
example : (final cfgDy { limit := 1 } (schedDyn.take 15)).limit = 4 ∧
    (final cfgDy { limit := 1 } (schedDyn.take 15)).used = 2 := by decide
example : let s := final cfgDy { limit := 1 } (schedDyn.take 16)
    s.limit = 1 ∧ s.used = 2 ∧ s.used = sumW cfgDy s.inService := by decide
example : (final cfgDy { limit := 1 } schedDyn).completed = 2 ∧
    quiescent (final cfgDy { limit := 1 } schedDyn) = true := by decide
/-- lowering the limit while a dequeued request is on its way to the worker is inside `SchedD`: the
    worker rejects and counts it (`min_limit = 0`) -/
example : let c : WCfg := { conc := .dynamic 0 (some 4) }
    let as : List Act := [.arr ⟨0, 0, 1⟩, .notify, .poll, .deliver (some 0), .limit 0, .work 0, .disp]
    SchedD c { limit := 1 } as ∧ (final c { limit := 1 } as).rejected = 1 ∧
    (final c { limit := 1 } as).acc = 1 ∧ quiescent (final c { limit := 1 } as) = true := by decide
/-- the schedule hypothesis on `disp` is needed: handled before its payload, a second request is in
    flight and `wf` (`works.length ≤ nDisp`) fails -/
example : let as : List Act := [.arr ⟨0, 0, 1⟩, .arr ⟨1, 0, 1⟩, .notify, .poll, .deliver (some 0), .disp]
    ¬ SchedD cfgH { limit := 2 } as ∧ (final cfgH { limit := 2 } as).works.length = 1 ∧
    (final cfgH { limit := 2 } as).nDisp = 0 := by decide

/-! ## Part C — the admission proposal (`admission` and `wake` on) under `Sched` -/

/-- the protocol invariant at the end of an admissible schedule -/
theorem admission_final_winv {c : WCfg} (st : Setting c) (lim w0 : Nat) (as : List Act)
    (hs : Sched c w0 { limit := lim } as) : WInv c w0 (final c { limit := lim } as) :=
  final_inv st as _ hs (inv_init c w0 lim)

/-- an item the queue accepted is never rejected by the worker (`requests_rejected` stays 0) -/
theorem admission_no_accepted_item_discarded {c : WCfg} (st : Setting c) (lim w0 : Nat) (as : List Act)
    (hs : Sched c w0 { limit := lim } as) : (final c { limit := lim } as).rejected = 0 :=
  (admission_final_winv st lim w0 as hs).rej

/-- every accepted item is waiting, in transit inside the current instant, in service or
    completed: the four populations add up to `stats_accepted` -/
theorem admission_item_state_partition_count {c : WCfg} (st : Setting c) (lim w0 : Nat) (as : List Act)
    (hs : Sched c w0 { limit := lim } as) :
    let s := final c { limit := lim } as
    s.acc = s.q.length + (s.delivers.length + s.works.length) + s.inService.length + s.completed := by
  have h := (admission_final_winv st lim w0 as hs).count
  simp only; omega

/-- with `admission` on the queue grants a poll only for a head that fits into the free capacity
    (any state) -/
theorem no_poll_granted_without_capacity_for_head (c : WCfg) (s : WSt) (i : Nat)
    (ha : c.admission = true) (h : (stepPoll c s).2 = .popped (some i)) :
    ∃ it, pick c.kind s.q = some it ∧ it.id = i ∧ s.used + wOf c it ≤ s.limit := by
  by_cases hp : s.nPoll = 0
  · simp [stepPoll, hp] at h
  · cases hit : pick c.kind s.q with
    | none => simp [stepPoll, hp, hit] at h
    | some it =>
      by_cases had : admits c s it = true
      · have hfit : s.used + wOf c it ≤ s.limit := by simpa [admits, ha, fits] using had
        simp only [stepPoll, hp, if_false, hit, had, if_true, Res.popped.injEq, Option.some.injEq] at h
        exact ⟨it, rfl, h, hfit⟩
      · have had' : admits c s it = false := by simpa using had
        simp [stepPoll, hp, hit, had'] at h

/-- no strand: whenever the component is quiescent, the item the queue would hand out next does not
    fit into the free capacity -/
theorem admission_no_strand {c : WCfg} (st : Setting c) (lim w0 : Nat) (as : List Act)
    (hs : Sched c w0 { limit := lim } as) :
    quiescent (final c { limit := lim } as) = true →
    ∀ it, pick c.kind (final c { limit := lim } as).q = some it →
      (final c { limit := lim } as).limit < (final c { limit := lim } as).used + wOf c it := by
  have h := admission_final_winv st lim w0 as hs
  generalize final c { limit := lim } as = s at h
  intro hq it hit
  by_cases hfit : s.used + wOf c it ≤ s.limit
  · exact absurd (h.strand it hit hfit) (quiescent_no_pending hq)
  · omega

/-! ### non-vacuity (admission proposal) -/

def cfgA : WCfg := { conc := .weighted, admission := true }
def cfgAL : WCfg := { conc := .weighted, admission := true, kind := .lifo }
def cfgDyA : WCfg := { conc := .dynamic 1 (some 4), admission := true }

example : Setting cfgA ∧ Setting cfgAL ∧ Setting cfgDyA := ⟨⟨rfl, rfl⟩, ⟨rfl, rfl⟩, ⟨rfl, rfl⟩⟩

/-- weighted pool of 3 units behind a FIFO queue, weights 2, 2, 1: item 0 starts; the poll after its
    dispatch finds item 1 (2 units) at the head with one unit free and is answered empty (twice: the
    notify asked for a re-check); the instant ends with items 1 and 2 waiting; `fin 0` frees two
    units, item 1 starts, then item 2 -/
def schedM : List Act :=
  [.arr ⟨0, 0, 2⟩, .notify, .poll, .deliver (some 0), .work 0, .disp,
   .arr ⟨1, 0, 2⟩, .arr ⟨2, 0, 1⟩, .poll, .notify, .deliver none, .poll, .deliver none,
   .fin 0, .poll, .deliver (some 1), .work 1, .disp, .poll, .deliver (some 2), .work 2, .disp]

example : Sched cfgA 0 { limit := 3 } schedM ∧ NoLower cfgA { limit := 3 } schedM := by decide
/-- the empty deliveries (events 9 and 12) are answered because the head does not fit … -/
example : (run cfgA { limit := 3 } schedM).map (·.1) =
    [.accepted true, .polled true, .popped (some 0), .done, .started true, .polled true,
     .accepted true, .accepted true, .popped none, .polled false, .polled true, .popped none, .polled false,
     .done, .popped (some 1), .done, .started true, .polled true, .popped (some 2), .done, .started true,
     .polled false] := by decide
/-- … the instant ends quiescent with the 2-unit head waiting beside one free unit (the hypotheses
    and the conclusion of `admission_no_strand`, computed) … -/
example : let s := final cfgA { limit := 3 } (schedM.take 13)
    quiescent s = true ∧ pick .fifo s.q = some ⟨1, 0, 2⟩ ∧ s.used = 2 ∧ s.limit = 3 ∧
    s.limit < s.used + wOf cfgA ⟨1, 0, 2⟩ := by decide
/-- … and after `fin 0` it starts; at the end both are in service and the pool is full -/
example : let s := final cfgA { limit := 3 } schedM
    s.inService = [⟨1, 0, 2⟩, ⟨2, 0, 1⟩] ∧ s.used = 3 ∧ s.used = sumW cfgA s.inService ∧
    s.completed = 1 ∧ s.rejected = 0 ∧ s.acc = 3 := by decide
/-- `start_takes_weight` is not vacuous: the start of item 1 (event 16) of that run -/
example : let s := final cfgA { limit := 3 } (schedM.take 16)
    s.used = sumW cfgA s.inService ∧ (stepWork cfgA s 1).2 = .started true ∧
    (stepWork cfgA s 1).1.used = s.used + 2 := by decide
/-- `no_poll_granted_without_capacity_for_head` is not vacuous: the poll of event 14 is granted -/
example : (stepPoll cfgA (final cfgA { limit := 3 } (schedM.take 14))).2 = .popped (some 1) := by decide

/-- a LIFO queue with uniform weight 2 in a pool of 4 (`w0 = 2`): the newest item overtakes -/
def schedL : List Act :=
  [.arr ⟨0, 0, 2⟩, .notify, .poll, .deliver (some 0), .work 0, .disp, .arr ⟨1, 0, 2⟩, .arr ⟨2, 0, 2⟩,
   .poll, .notify, .deliver (some 2), .work 2, .disp, .fin 0, .poll, .deliver (some 1), .work 1, .disp]

example : Sched cfgAL 2 { limit := 4 } schedL := by decide
example : (final cfgAL { limit := 4 } schedL).inService = [⟨2, 0, 2⟩, ⟨1, 0, 2⟩] ∧
    (final cfgAL { limit := 4 } schedL).used = 4 := by decide
/-- mixed weights behind a LIFO queue are outside `Sched` (the uniform-weight clause of `Adm`) -/
example : ¬ Sched cfgAL 2 { limit := 4 } [.arr ⟨0, 0, 2⟩, .arr ⟨1, 0, 1⟩] := by decide
/-- the dynamic schedule above is admissible for the proposal too; lowering the limit while a dequeued
    item is on its way to the worker is outside `Sched` -/
example : Sched cfgDyA 1 { limit := 1 } schedDyn ∧ (final cfgDyA { limit := 1 } schedDyn).completed = 2 := by
  decide
example : ¬ Sched cfgDyA 1 { limit := 2 }
    [.arr ⟨0, 0, 1⟩, .notify, .poll, .deliver (some 0), .limit 1] := by decide

/-! ## Part D — witnesses -/

/-- a weighted pool of 3, two requests of weight 2 -/
def schedH : List Act :=
  [.arr ⟨0, 0, 2⟩, .notify, .poll, .deliver (some 0), .work 0, .disp, .poll, .deliver none,
   .arr ⟨1, 0, 2⟩, .notify, .poll, .deliver (some 1), .work 1]

/-- /repo HEAD: `has_capacity()` asks for one unit, the queue hands out a request of weight 2 with one
    unit free, `acquire(2)` fails and the `Server` rejects the request and counts it: it takes no
    capacity (`used` stays item 0's weight) and never starts.  With `admission` on the same poll
    (event 10) is answered empty, nothing is rejected and item 1 stays queued. -/
theorem weighted_head_rejected_and_counted :
    (run { conc := .weighted } { limit := 3 } schedH).map (·.1) =
      [.accepted true, .polled true, .popped (some 0), .done, .started true, .polled true, .popped none,
       .polled false, .accepted true, .polled true, .popped (some 1), .done, .started false] ∧
    (final { conc := .weighted } { limit := 3 } schedH).rejected = 1 ∧
    (final { conc := .weighted } { limit := 3 } schedH).acc = 2 ∧
    (final { conc := .weighted } { limit := 3 } schedH).q = [] ∧
    (final { conc := .weighted } { limit := 3 } schedH).used = 2 ∧
    (final { conc := .weighted } { limit := 3 } schedH).inService = [⟨0, 0, 2⟩] ∧
    (step { conc := .weighted, admission := true }
      (final { conc := .weighted, admission := true } { limit := 3 } (schedH.take 10)) .poll).2 = .popped none ∧
    (final { conc := .weighted, admission := true } { limit := 3 } (schedH.take 11)).rejected = 0 ∧
    (final { conc := .weighted, admission := true } { limit := 3 } (schedH.take 11)).q = [⟨1, 0, 2⟩] := by
  decide

/-- the whole schedule is admissible at HEAD, its first 11 events for the proposal -/
example : SchedD cfgH { limit := 3 } schedH ∧ Sched cfgA 0 { limit := 3 } (schedH.take 11) := by decide

/-- item 0 in service, item 1 waiting, then `set_limit(2)` -/
def schedU : List Act :=
  [.arr ⟨0, 0, 1⟩, .notify, .poll, .deliver (some 0), .work 0, .disp, .arr ⟨1, 0, 1⟩, .notify, .limit 2]

/-- the code before `wake`: `DynamicConcurrency.set_limit` raises the limit and tells nobody — the
    component is quiescent, a request waits and a unit is free: a strand until the next arrival or
    completion.  /repo HEAD (`wake` on) leaves a `QueueNotifyEvent` pending. -/
theorem scale_up_strands_current :
    (let s := final { conc := .dynamic 1 (some 4), wake := false } { limit := 1 } schedU
     quiescent s = true ∧ s.q ≠ [] ∧ s.used + 1 ≤ s.limit) ∧
    (let s := final { conc := .dynamic 1 (some 4), wake := true } { limit := 1 } schedU
     s.nNotify = 1 ∧ quiescent s = false) := by decide

example : SchedD cfgDy { limit := 1 } schedU ∧
    SchedD { conc := .dynamic 1 (some 4), wake := false } { limit := 1 } schedU := by decide

end HappyModel.C08.PipeW
