import HappyProofs.C08.PipeWStep
/-!
# C08 part 2b — Queue + QueueDriver + `Server` over every `ConcurrencyModel`, in capacity units

Part A: facts about **every** config, variant and schedule (capacity bookkeeping of the worker).
Part B: the repaired protocol (`Setting c`) under admissible schedules (`Sched c w0 s as`): nothing
accepted is discarded, the item-state partition, no poll is granted to a head that does not fit,
no strand.  Every statement is about `final c s₀ as` for every admissible `as`, i.e. after every
event of every run.  Part C: /repo HEAD (`current`) falsifies two of the clauses.
-/
namespace HappyModel.C08.PipeW

/-! ## Part A — every config, variant and schedule -/

/-- conservation: the reported units in use are exactly the weights of the items in service -/
theorem used_eq_in_service_weight (c : WCfg) (lim : Nat) (as : List Act) :
    (final c { limit := lim } as).used = sumW c (final c { limit := lim } as).inService :=
  final_act c as _ rfl

/-- a start takes exactly the item's weight, and only when that fits under the limit in force -/
theorem start_takes_weight (c : WCfg) (s : WSt) (i : Nat) (hact : s.used = sumW c s.inService)
    (h : (stepWork c s i).2 = .started true) :
    ∃ it, byId s.works i = some it ∧ (stepWork c s i).1.used = s.used + wOf c it ∧
      (stepWork c s i).1.used ≤ s.limit ∧
      (stepWork c s i).1.used = sumW c (stepWork c s i).1.inService := by
  cases hb : byId s.works i with
  | none => simp [stepWork, hb] at h
  | some it =>
    by_cases hf : fits s (wOf c it) = true
    · have hfit := (fits_iff _ _).1 hf
      refine ⟨it, rfl, ?_, ?_, ?_⟩ <;> simp only [stepWork, hb, hf, if_true]
      · exact hfit
      · simp only [sumW_append, sumW_singleton]; omega
    · have hf' : fits s (wOf c it) = false := by simpa using hf
      simp [stepWork, hb, hf'] at h

/-- a finish gives exactly the item's weight back and counts one completion -/
theorem finish_returns_weight (c : WCfg) (s : WSt) (i : Nat) (it : WItem)
    (hact : s.used = sumW c s.inService) (hb : byId s.inService i = some it) :
    (stepFin c s i).1.used + wOf c it = s.used ∧ (stepFin c s i).1.completed = s.completed + 1 ∧
      (stepFin c s i).1.used = sumW c (stepFin c s i).1.inService := by
  have hle := wOf_le_sumW c (byId_mem hb)
  have hsum := sumW_erase c (byId_mem hb)
  refine ⟨?_, ?_, ?_⟩ <;>
    simp only [stepFin, hb, pollIfReady_used, pollIfReady_completed, pollIfReady_inService] <;> omega

/-- a start never takes the units in use above the limit (any state, any variant) -/
theorem start_never_exceeds_limit (c : WCfg) (s : WSt) (i : Nat)
    (h : (stepWork c s i).2 = .started true) :
    (stepWork c s i).1.used ≤ (stepWork c s i).1.limit := by
  cases hb : byId s.works i with
  | none => simp [stepWork, hb] at h
  | some it =>
    by_cases hf : fits s (wOf c it) = true
    · simp only [stepWork, hb, hf, if_true]
      exact (fits_iff _ _).1 hf
    · have hf' : fits s (wOf c it) = false := by simpa using hf
      simp [stepWork, hb, hf'] at h

/-- work in service never exceeds the limit along any schedule that does not lower the limit -/
theorem in_service_weight_le_limit (c : WCfg) (lim : Nat) (as : List Act)
    (hn : NoLower c { limit := lim } as) :
    (final c { limit := lim } as).used ≤ (final c { limit := lim } as).limit ∧
    sumW c (final c { limit := lim } as).inService ≤ (final c { limit := lim } as).limit := by
  have h := final_le c as { limit := lim } hn (Nat.zero_le _)
  exact ⟨h, used_eq_in_service_weight c lim as ▸ h⟩

/-! ## Part B — the repaired protocol under admissible schedules -/

/-- the protocol invariant at the end of an admissible schedule -/
theorem final_winv {c : WCfg} (st : Setting c) (lim w0 : Nat) (as : List Act)
    (hs : Sched c w0 { limit := lim } as) : WInv c w0 (final c { limit := lim } as) :=
  final_inv st as _ hs (inv_init c w0 lim)

/-- an item the queue accepted is never discarded by the worker (`requests_rejected` stays 0) -/
theorem no_accepted_item_discarded {c : WCfg} (st : Setting c) (lim w0 : Nat) (as : List Act)
    (hs : Sched c w0 { limit := lim } as) : (final c { limit := lim } as).rejected = 0 :=
  (final_winv st lim w0 as hs).rej

/-- every accepted item is waiting, in transit inside the current instant, in service or
    completed: the four populations add up to `stats_accepted` -/
theorem item_state_partition_count {c : WCfg} (st : Setting c) (lim w0 : Nat) (as : List Act)
    (hs : Sched c w0 { limit := lim } as) :
    let s := final c { limit := lim } as
    s.acc = s.q.length + (s.delivers.length + s.works.length) + s.inService.length + s.completed := by
  have h := (final_winv st lim w0 as hs).count
  simp only; omega

/-- the repaired queue grants a poll only for a head that fits into the free capacity (any state) -/
theorem no_poll_granted_without_capacity_for_head (c : WCfg) (s : WSt) (i : Nat)
    (hv : c.variant = .repaired) (h : (stepPoll c s).2 = .popped (some i)) :
    ∃ it, pick c.kind s.q = some it ∧ it.id = i ∧ s.used + wOf c it ≤ s.limit := by
  by_cases hp : s.nPoll = 0
  · simp [stepPoll, hp] at h
  · cases hit : pick c.kind s.q with
    | none => simp [stepPoll, hp, hit] at h
    | some it =>
      by_cases had : admits c s it = true
      · have hfit : s.used + wOf c it ≤ s.limit := by simpa [admits, hv, fits] using had
        simp only [stepPoll, hp, if_false, hit, had, if_true, Res.popped.injEq, Option.some.injEq] at h
        exact ⟨it, rfl, h, hfit⟩
      · have had' : admits c s it = false := by simpa using had
        simp [stepPoll, hp, hit, had'] at h

/-- no strand: whenever the component is quiescent (no protocol event pending, so simulated time is
    about to pass), the item the queue would hand out next does not fit into the free capacity -/
theorem no_strand {c : WCfg} (st : Setting c) (lim w0 : Nat) (as : List Act)
    (hs : Sched c w0 { limit := lim } as) :
    quiescent (final c { limit := lim } as) = true →
    ∀ it, pick c.kind (final c { limit := lim } as).q = some it →
      (final c { limit := lim } as).limit < (final c { limit := lim } as).used + wOf c it := by
  have h := final_winv st lim w0 as hs
  generalize final c { limit := lim } as = s at h
  intro hq it hit
  by_cases hfit : s.used + wOf c it ≤ s.limit
  · have := h.strand it hit hfit
    simp only [quiescent, Bool.and_eq_true, beq_iff_eq, List.isEmpty_iff] at hq
    obtain ⟨⟨⟨⟨⟨h1, h2⟩, h3⟩, h4⟩, h5⟩, h6⟩ := hq
    rcases this with g | g | g | g | ⟨g, _⟩
    · omega
    · omega
    · rw [h5] at g; simp at g
    · omega
    · omega
  · omega

/-! ### non-vacuity -/

def cfgW (v : Variant) : WCfg := { variant := v, conc := .weighted }
def cfgD (v : Variant) : WCfg := { variant := v, conc := .dynamic 1 (some 4) }
def cfgL : WCfg := { variant := .repaired, conc := .weighted, kind := .lifo }

/-- weighted pool of 3 units behind a FIFO queue, weights 2, 2, 1: item 0 starts; the poll after its
    dispatch finds item 1 (2 units) at the head with one unit free and is answered empty (twice: the
    notify asked for a re-check); the instant ends with items 1 and 2 waiting; `fin 0` frees two
    units, item 1 starts, then item 2 -/
def schedM : List Act :=
  [.arr ⟨0, 0, 2⟩, .notify, .poll, .deliver (some 0), .work 0, .disp,
   .arr ⟨1, 0, 2⟩, .arr ⟨2, 0, 1⟩, .poll, .notify, .deliver none, .poll, .deliver none,
   .fin 0, .poll, .deliver (some 1), .work 1, .disp, .poll, .deliver (some 2), .work 2, .disp]

example : Setting (cfgW .repaired) := ⟨rfl⟩
example : Sched (cfgW .repaired) 0 { limit := 3 } schedM ∧ NoLower (cfgW .repaired) { limit := 3 } schedM := by
  decide
/-- the empty deliveries (events 9 and 12) are answered because the head does not fit … -/
example : (run (cfgW .repaired) { limit := 3 } schedM).map (·.1) =
    [.accepted true, .polled true, .popped (some 0), .done, .started true, .polled true,
     .accepted true, .accepted true, .popped none, .polled false, .polled true, .popped none, .polled false,
     .done, .popped (some 1), .done, .started true, .polled true, .popped (some 2), .done, .started true,
     .polled false] := by decide
/-- … the instant ends quiescent with the 2-unit head waiting beside one free unit (the hypotheses
    and the conclusion of `no_strand`, computed) … -/
example : let s := final (cfgW .repaired) { limit := 3 } (schedM.take 13)
    quiescent s = true ∧ pick .fifo s.q = some ⟨1, 0, 2⟩ ∧ s.used = 2 ∧ s.limit = 3 ∧
    s.limit < s.used + wOf (cfgW .repaired) ⟨1, 0, 2⟩ := by decide
/-- … and after `fin 0` it starts; at the end both are in service and the pool is full -/
example : let s := final (cfgW .repaired) { limit := 3 } schedM
    s.inService = [⟨1, 0, 2⟩, ⟨2, 0, 1⟩] ∧ s.used = 3 ∧ s.used = sumW (cfgW .repaired) s.inService ∧
    s.completed = 1 ∧ s.rejected = 0 ∧ s.acc = 3 := by decide
/-- `start_takes_weight` / `finish_returns_weight` are not vacuous: the start of item 1 (event 16)
    and the finish of item 0 (event 13) of that run -/
example : let s := final (cfgW .repaired) { limit := 3 } (schedM.take 16)
    s.used = sumW (cfgW .repaired) s.inService ∧ (stepWork (cfgW .repaired) s 1).2 = .started true ∧
    (stepWork (cfgW .repaired) s 1).1.used = s.used + 2 := by decide
example : let s := final (cfgW .repaired) { limit := 3 } (schedM.take 13)
    byId s.inService 0 = some ⟨0, 0, 2⟩ ∧ (stepFin (cfgW .repaired) s 0).1.used = 0 := by decide
/-- `no_poll_granted_without_capacity_for_head` is not vacuous: the poll of event 14 is granted -/
example : (stepPoll (cfgW .repaired) (final (cfgW .repaired) { limit := 3 } (schedM.take 14))).2 =
    .popped (some 1) := by decide

/-- a LIFO queue with uniform weight 2 in a pool of 4 (`w0 = 2`): the newest item overtakes -/
def schedL : List Act :=
  [.arr ⟨0, 0, 2⟩, .notify, .poll, .deliver (some 0), .work 0, .disp, .arr ⟨1, 0, 2⟩, .arr ⟨2, 0, 2⟩,
   .poll, .notify, .deliver (some 2), .work 2, .disp, .fin 0, .poll, .deliver (some 1), .work 1, .disp]

example : Setting cfgL ∧ Sched cfgL 2 { limit := 4 } schedL := ⟨⟨rfl⟩, by decide⟩
example : (final cfgL { limit := 4 } schedL).inService = [⟨2, 0, 2⟩, ⟨1, 0, 2⟩] ∧
    (final cfgL { limit := 4 } schedL).used = 4 := by decide
/-- mixed weights behind a LIFO queue are outside `Sched` (the uniform-weight clause of `Adm`) -/
example : ¬ Sched cfgL 2 { limit := 4 } [.arr ⟨0, 0, 2⟩, .arr ⟨1, 0, 1⟩] := by decide

/-- `DynamicConcurrency` in `[1, 4]`: item 1 waits beside a full single slot; `set_limit(2)` wakes
    the repaired driver and item 1 starts; `set_limit(9)` clamps to 4; `set_limit(1)` with two
    requests in service is admissible (nothing in flight) and leaves `used = 2 > limit = 1` until
    they finish — the reason `in_service_weight_le_limit` asks for `NoLower` -/
def schedD : List Act :=
  [.arr ⟨0, 0, 1⟩, .notify, .poll, .deliver (some 0), .work 0, .disp, .arr ⟨1, 0, 1⟩, .notify, .limit 2,
   .notify, .poll, .deliver (some 1), .work 1, .disp, .limit 9, .limit 1, .fin 0, .fin 1, .poll, .deliver none]

example : Sched (cfgD .repaired) 1 { limit := 1 } schedD := by decide
example : NoLower (cfgD .repaired) { limit := 1 } (schedD.take 15) ∧
    ¬ NoLower (cfgD .repaired) { limit := 1 } (schedD.take 16) := by decide
example : (final (cfgD .repaired) { limit := 1 } (schedD.take 15)).limit = 4 ∧
    (final (cfgD .repaired) { limit := 1 } (schedD.take 15)).used = 2 := by decide
example : let s := final (cfgD .repaired) { limit := 1 } (schedD.take 16)
    s.limit = 1 ∧ s.used = 2 ∧ s.used = sumW (cfgD .repaired) s.inService := by decide
example : (final (cfgD .repaired) { limit := 1 } schedD).completed = 2 ∧
    quiescent (final (cfgD .repaired) { limit := 1 } schedD) = true := by decide
/-- lowering the limit while a dequeued item is on its way to the worker is outside `Sched` -/
example : ¬ Sched (cfgD .repaired) 1 { limit := 2 }
    [.arr ⟨0, 0, 1⟩, .notify, .poll, .deliver (some 0), .limit 1] := by decide

/-! ## Part C — /repo HEAD (`current`) falsifies the clauses -/

/-- deliveries of the unpatched implementation: a weighted pool of 3, two requests of weight 2 -/
def schedH : List Act :=
  [.arr ⟨0, 0, 2⟩, .notify, .poll, .deliver (some 0), .work 0, .disp, .poll, .deliver none,
   .arr ⟨1, 0, 2⟩, .notify, .poll, .deliver (some 1), .work 1]

/-- `has_capacity()` asks for one unit, the queue hands out a request of weight 2 with one unit free,
    `acquire(2)` fails and the `Server` discards the accepted request.  Under `repaired` the same
    poll (event 10) is answered empty and nothing is discarded. -/
theorem weighted_head_discarded_current :
    (run (cfgW .current) { limit := 3 } schedH).map (·.1) =
      [.accepted true, .polled true, .popped (some 0), .done, .started true, .polled true, .popped none,
       .polled false, .accepted true, .polled true, .popped (some 1), .done, .started false] ∧
    (final (cfgW .current) { limit := 3 } schedH).rejected = 1 ∧
    (final (cfgW .current) { limit := 3 } schedH).acc = 2 ∧
    (final (cfgW .current) { limit := 3 } schedH).q = [] ∧
    (step (cfgW .repaired) (final (cfgW .repaired) { limit := 3 } (schedH.take 10)) .poll).2 = .popped none ∧
    (final (cfgW .repaired) { limit := 3 } (schedH.take 11)).rejected = 0 ∧
    (final (cfgW .repaired) { limit := 3 } (schedH.take 11)).q = [⟨1, 0, 2⟩] := by decide

/-- the first 11 events are an admissible schedule of the repaired protocol -/
example : Sched (cfgW .repaired) 0 { limit := 3 } (schedH.take 11) := by decide

/-- item 0 in service, item 1 waiting, then `set_limit(2)` -/
def schedU : List Act :=
  [.arr ⟨0, 0, 1⟩, .notify, .poll, .deliver (some 0), .work 0, .disp, .arr ⟨1, 0, 1⟩, .notify, .limit 2]

/-- `DynamicConcurrency.set_limit` raises the limit and tells nobody: the component is quiescent,
    a request waits and a unit is free — a strand until the next arrival or completion.  The
    repaired `set_limit` leaves a `QueueNotifyEvent` pending. -/
theorem scale_up_strands_current :
    (let s := final (cfgD .current) { limit := 1 } schedU
     quiescent s = true ∧ s.q ≠ [] ∧ pick .fifo s.q = some ⟨1, 0, 1⟩ ∧
       s.used + wOf (cfgD .current) ⟨1, 0, 1⟩ ≤ s.limit) ∧
    (let s := final (cfgD .repaired) { limit := 1 } schedU
     s.nNotify = 1 ∧ quiescent s = false) := by decide

example : Sched (cfgD .repaired) 1 { limit := 1 } schedU := by decide

/-- the schedule hypothesis on `disp` is needed here too -/
example : (final (cfgW .repaired) { limit := 2 }
    [.arr ⟨0, 0, 1⟩, .arr ⟨1, 0, 2⟩, .notify, .poll, .deliver (some 0), .disp, .poll, .deliver (some 1),
     .work 0, .work 1]).rejected = 1 := by decide

end HappyModel.C08.PipeW
