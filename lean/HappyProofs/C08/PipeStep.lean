import HappyProofs.C08.PipeInv
/-! `PInv` is preserved by every admissible delivery (repaired driver, `Server` worker). -/
namespace HappyModel.C08.Pipe
open HappyModel.C08

/-- admissible delivery: a `QueueDispatchedEvent` is handled only after the payload it was created
    behind has reached the worker (engine FIFO tie order); the limit of a `Server` is fixed -/
def Act.isShift : Act → Bool
  | .shift _ => true
  | _ => false

def Adm (s : PSt) (a : Act) : Prop :=
  (a = .disp → s.works = []) ∧ a.isShift = false

instance (s : PSt) (a : Act) : Decidable (Adm s a) := by unfold Adm; exact inferInstance

structure Setting (c : PCfg) : Prop where
  hv : c.variant = .repaired
  hw : c.worker = .server
  hp : Plain c.pol

theorem mem_of_contains {l : List Nat} {i : Nat} (h : (!l.contains i) = false) : i ∈ l := by
  simpa using h

theorem arr_inv {c : PCfg} {s : PSt} {ss : SSt} (hr : PolRel c.pol s.q ss) (it : Item) (h : PInv c s) :
    PInv c (stepArr c s it).1 := by
  obtain ⟨⟨rt, wf, res, act, le, rej, count⟩, strand⟩ := h
  have hl := rel_push_len hr it false false
  unfold stepArr
  simp only
  by_cases hok : (push c.pol s.q it false false).2 = true
  · simp only [hok, if_true] at hl ⊢
    refine ⟨⟨rt, wf, res, act, le, rej, ?_⟩, ?_⟩
    · simp only [PSt.depth] at count ⊢; omega
    · unfold NoStrand at strand ⊢
      dsimp only [PSt.depth] at strand ⊢
      intro hd hlt
      by_cases he : len c.pol s.q = 0
      · simp [he]
      · simp only [he, decide_false, Bool.false_eq_true, if_false]
        exact strand (by omega) hlt
  · have hok' : (push c.pol s.q it false false).2 = false := by simpa using hok
    simp only [hok', Bool.false_eq_true, if_false] at hl ⊢
    refine ⟨⟨rt, wf, res, act, le, rej, ?_⟩, ?_⟩
    · simp only [PSt.depth] at count ⊢; omega
    · unfold NoStrand at strand ⊢
      dsimp only [PSt.depth] at strand ⊢
      intro hd hlt
      exact strand (by omega) hlt

theorem notify_inv {c : PCfg} {s : PSt} (st : Setting c) (h : PInv c s) : PInv c (stepNotify c s).1 := by
  unfold stepNotify
  split
  · exact h
  · exact pollIfReady_inv st.hv ⟨h.rt, h.wf, h.res, h.act, h.le, h.rej, h.count⟩

theorem poll_inv {c : PCfg} {s : PSt} {ss : SSt} (st : Setting c) (hr : PolRel c.pol s.q ss) (h : PInv c s) :
    PInv c (stepPoll c s).1 := by
  obtain ⟨⟨rt, wf, res, act, le, rej, count⟩, strand⟩ := h
  have hl := rel_pop_len hr
  by_cases hp : s.nPoll = 0
  · simp only [stepPoll, hp, if_true]
    exact ⟨⟨rt, wf, res, act, le, rej, count⟩, strand⟩
  · simp only [stepPoll, hp, if_false]
    cases hit : (pop c.pol s.q 0 0).2 with
    | some it =>
      have := hl.1 it hit
      simp only
      refine ⟨⟨?_, wf, ?_, act, le, rej, ?_⟩, ?_⟩
      · simp only [List.length_append, List.length_singleton]; omega
      · intro hh; apply res; simp only [List.length_append, List.length_singleton] at hh; omega
      · dsimp only [PSt.depth] at count ⊢
        simp only [List.length_append, List.length_singleton]; omega
      · unfold NoStrand; dsimp only
        intro _ _; simp only [List.length_append, List.length_singleton]; omega
    | none =>
      have := hl.2 hit
      simp only [st.hv]
      refine ⟨⟨?_, wf, ?_, act, le, rej, ?_⟩, ?_⟩
      · dsimp only; omega
      · intro hh; apply res; dsimp only at hh; omega
      · dsimp only [PSt.depth] at count ⊢; omega
      · unfold NoStrand; dsimp only [PSt.depth]; intro hd _; omega

theorem deliver_inv {c : PCfg} {s : PSt} (st : Setting c) (x : Option Nat) (h : PInv c s) :
    PInv c (stepDeliver c s x).1 := by
  obtain ⟨⟨rt, wf, res, act, le, rej, count⟩, strand⟩ := h
  cases x with
  | some i =>
    by_cases hc : s.delivers.contains i = true
    · have hm : i ∈ s.delivers := by simpa using hc
      have hlen := List.length_erase_of_mem hm
      have hpos : 0 < s.delivers.length := List.length_pos_of_mem hm
      simp only [stepDeliver, hc, st.hv, Bool.not_true, Bool.false_eq_true, if_false]
      refine ⟨⟨?_, ?_, ?_, act, le, rej, ?_⟩, ?_⟩
      · simp only [hlen]; omega
      · simp only [List.length_append, List.length_singleton]; omega
      · intro hh; apply res; simp only [hlen, List.length_append, List.length_singleton] at hh; omega
      · dsimp only [PSt.depth] at count ⊢
        simp only [hlen, List.length_append, List.length_singleton]; omega
      · unfold NoStrand; dsimp only; intro _ _; omega
    · have hc' : s.delivers.contains i = false := by simpa using hc
      simp only [stepDeliver, hc', Bool.not_false, if_true]
      exact ⟨⟨rt, wf, res, act, le, rej, count⟩, strand⟩
  | none =>
    by_cases hne : s.nEmpty = 0
    · simp only [stepDeliver, hne, if_true]
      exact ⟨⟨rt, wf, res, act, le, rej, count⟩, strand⟩
    · have hbusy : s.busy = true := by
        by_cases hb : s.busy = true
        · exact hb
        · simp [hb] at rt; omega
      simp only [hbusy, if_true] at rt
      have h0 : PInv0 c { s with nEmpty := s.nEmpty - 1, busy := false } := by
        refine ⟨?_, wf, res, act, le, rej, count⟩
        dsimp only; rw [if_neg (by decide)]; omega
      simp only [stepDeliver, hne, if_false]
      split
      · exact pollIfReady_inv st.hv h0
      · rename_i hr
        refine ⟨h0, ?_⟩
        unfold NoStrand at strand ⊢
        dsimp only [PSt.depth] at strand hr ⊢
        intro hd hlt
        rcases strand hd hlt with h | h | h | h | ⟨_, h⟩
        · exact Or.inl h
        · omega
        · omega
        · omega
        · exact absurd h hr

theorem disp_inv {c : PCfg} {s : PSt} (st : Setting c) (hw0 : s.works = []) (h : PInv c s) :
    PInv c (stepDisp c s).1 := by
  obtain ⟨⟨rt, wf, res, act, le, rej, count⟩, strand⟩ := h
  unfold stepDisp
  split
  · exact ⟨⟨rt, wf, res, act, le, rej, count⟩, strand⟩
  · rename_i hne
    have hbusy : s.busy = true := by
      by_cases hb : s.busy = true
      · exact hb
      · simp [hb] at rt; omega
    simp only [hbusy, if_true] at rt
    apply pollIfReady_inv st.hv
    refine ⟨?_, by simp [hw0], ?_, act, le, rej, count⟩
    · dsimp only; rw [if_neg (by decide)]; omega
    · intro hh; apply res; dsimp only at hh ⊢; omega

theorem work_inv {c : PCfg} {s : PSt} (st : Setting c) (i : Nat) (h : PInv c s) :
    PInv c (stepWork c s i).1 := by
  obtain ⟨⟨rt, wf, res, act, le, rej, count⟩, strand⟩ := h
  unfold stepWork
  split
  · exact ⟨⟨rt, wf, res, act, le, rej, count⟩, strand⟩
  · rename_i hc
    have hm : i ∈ s.works := mem_of_contains (by simpa using hc)
    have hlen := List.length_erase_of_mem hm
    have hpos : 0 < s.works.length := List.length_pos_of_mem hm
    have hlt : s.active < s.limit := res (by omega)
    have hbusy : s.busy = true := by
      by_cases hb : s.busy = true
      · exact hb
      · simp [hb] at rt; omega
    simp only [hbusy, if_true] at rt
    rw [st.hw]; simp only
    have hcap : hasCap { s with works := s.works.erase i } = true := by simpa [hasCap] using hlt
    simp only [hcap, if_true]
    refine ⟨⟨by simpa [hbusy] using rt, by simp [hlen]; omega, fun hh => by simp [hlen] at hh; omega,
      by simp [act], by simp; omega, rej, ?_⟩, ?_⟩
    · simp only [PSt.depth] at count ⊢; simp [hlen]; omega
    · intro _ _; simp; omega

theorem fin_inv {c : PCfg} {s : PSt} (st : Setting c) (i : Nat) (h : PInv c s) :
    PInv c (stepFin c s i).1 := by
  obtain ⟨⟨rt, wf, res, act, le, rej, count⟩, strand⟩ := h
  unfold stepFin
  split
  · exact ⟨⟨rt, wf, res, act, le, rej, count⟩, strand⟩
  · rename_i hc
    have hm : i ∈ s.inService := mem_of_contains (by simpa using hc)
    have hlen := List.length_erase_of_mem hm
    have hpos : 0 < s.inService.length := List.length_pos_of_mem hm
    apply pollIfReady_inv st.hv
    refine ⟨rt, wf, fun _ => by simp; omega, by simp [hlen]; omega, by simp; omega, rej, ?_⟩
    simp only [PSt.depth] at count ⊢; simp [hlen]; omega

theorem step_inv {c : PCfg} {s : PSt} {ss : SSt} (st : Setting c) (hr : PolRel c.pol s.q ss) (a : Act)
    (ha : Adm s a) (h : PInv c s) : PInv c (step c s a).1 := by
  cases a with
  | arr it => exact arr_inv hr it h
  | notify => exact notify_inv st h
  | poll => exact poll_inv st hr h
  | deliver x => exact deliver_inv st x h
  | work i => exact work_inv st i h
  | disp => exact disp_inv st (ha.1 rfl) h
  | fin i => exact fin_inv st i h
  | shift cap => exact absurd ha.2 (by simp [Act.isShift])

/-- every prefix of the schedule is admissible -/
def Sched (c : PCfg) : PSt → List Act → Prop
  | _, [] => True
  | s, a :: as => Adm s a ∧ Sched c (step c s a).1 as

instance instDecSched (c : PCfg) : ∀ (as : List Act) (s : PSt), Decidable (Sched c s as)
  | [], _ => isTrue trivial
  | a :: as, s =>
    match (inferInstance : Decidable (Adm s a)), instDecSched c as (step c s a).1 with
    | isTrue h1, isTrue h2 => isTrue ⟨h1, h2⟩
    | isFalse h1, _ => isFalse fun h => h1 h.1
    | _, isFalse h2 => isFalse fun h => h2 h.2

/-! ### the list specification's state as a ghost next to the queue policy's -/

/-- the specification state follows every push and every pop the pipeline issues -/
def sstep (c : PCfg) (s : PSt) (ss : SSt) : Act → SSt
  | .arr it => (sPush c.pol ss it false false).1
  | .poll => if s.nPoll = 0 then ss else (sPop c.pol ss 0 0).1
  | _ => ss

def sfinal (c : PCfg) : PSt → SSt → List Act → SSt
  | _, ss, [] => ss
  | s, ss, a :: as => sfinal c (step c s a).1 (sstep c s ss a) as

theorem pollIfReady_q (c : PCfg) (s : PSt) : (pollIfReady c s).1.q = s.q := by
  unfold pollIfReady
  cases c.variant <;> simp only <;> (repeat' split) <;> rfl

theorem step_rel {c : PCfg} {s : PSt} {ss : SSt} (hr : PolRel c.pol s.q ss) (a : Act) :
    PolRel c.pol (step c s a).1.q (sstep c s ss a) := by
  cases a with
  | arr it =>
    have := (polrel_push hr it false false).2
    simp only [step, stepArr, sstep]; split <;> exact this
  | poll =>
    have := (polrel_pop hr 0 0).2
    simp only [step, stepPoll, sstep]
    split
    · exact hr
    · (repeat' split) <;> exact this
  | notify => simp only [step, stepNotify, sstep]; split <;> simp [pollIfReady_q, hr]
  | deliver x =>
    cases x with
    | some i => simp only [step, stepDeliver, sstep]; (repeat' split) <;> exact hr
    | none => simp only [step, stepDeliver, sstep]; (repeat' split) <;> simp [pollIfReady_q, hr]
  | work i => simp only [step, stepWork, sstep]; (repeat' split) <;> simp [pollIfReady_q, hr]
  | disp => simp only [step, stepDisp, sstep]; split <;> simp [pollIfReady_q, hr]
  | fin i => simp only [step, stepFin, sstep]; split <;> simp [pollIfReady_q, hr]
  | shift cap => simp only [step, stepShift, sstep]; (repeat' split) <;> exact hr

/-- the refinement relation holds along every schedule (no hypothesis on variant, worker, schedule) -/
theorem final_rel (c : PCfg) : ∀ (as : List Act) (s : PSt) (ss : SSt), PolRel c.pol s.q ss →
    PolRel c.pol (final c s as).q (sfinal c s ss as)
  | [], _, _, h => h
  | a :: as, _, _, h => final_rel c as _ _ (step_rel h a)

theorem final_inv {c : PCfg} (st : Setting c) : ∀ (as : List Act) (s : PSt) (ss : SSt), Sched c s as →
    PInv c s → PolRel c.pol s.q ss → PInv c (final c s as) ∧ PolRel c.pol (final c s as).q (sfinal c s ss as)
  | [], _, _, _, h, hr => ⟨h, hr⟩
  | a :: as, _, _, hs, h, hr => final_inv st as _ _ hs.2 (step_inv st hr a hs.1 h) (step_rel hr a)

theorem pollIfReady_limit (c : PCfg) (s : PSt) : (pollIfReady c s).1.limit = s.limit := by
  unfold pollIfReady
  cases c.variant <;> simp only <;> (repeat' split) <;> rfl

theorem step_limit (c : PCfg) (s : PSt) (a : Act) (ha : a.isShift = false) :
    (step c s a).1.limit = s.limit := by
  cases a with
  | arr it => simp only [step, stepArr]; split <;> rfl
  | notify => simp only [step, stepNotify]; split <;> simp [pollIfReady_limit]
  | poll => simp only [step, stepPoll]; (repeat' split) <;> rfl
  | deliver x =>
    cases x with
    | some i => simp only [step, stepDeliver]; (repeat' split) <;> rfl
    | none => simp only [step, stepDeliver]; (repeat' split) <;> simp [pollIfReady_limit]
  | work i => simp only [step, stepWork]; (repeat' split) <;> simp [pollIfReady_limit]
  | disp => simp only [step, stepDisp]; split <;> simp [pollIfReady_limit]
  | fin i => simp only [step, stepFin]; split <;> simp [pollIfReady_limit]
  | shift cap => exact absurd ha (by simp [Act.isShift])

theorem final_limit {c : PCfg} : ∀ (as : List Act) (s : PSt), Sched c s as → (final c s as).limit = s.limit
  | [], _, _ => rfl
  | a :: as, s, hs => by rw [final, final_limit as _ hs.2, step_limit c s a hs.1.2]

end HappyModel.C08.Pipe
