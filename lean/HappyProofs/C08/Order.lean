import HappyProofs.C08.PolicyCap
/-!
Refinement of the code-mirroring policy model to the list specification (`PolicySpec.lean`) for the
policies whose order is positional: FIFO, LIFO, RED, CoDel, AdaptiveLIFO (with or without balking).
-/
namespace HappyModel.C08

def Kind.positional : Kind → Bool
  | .fifo | .lifo | .red | .codel | .adaptive => true
  | _ => false

/-- the specification's held list is the model's deque, entry for entry -/
def Rel (s : St) (ss : SSt) : Prop := s.q.map (·.item) = ss.held

theorem positional_notFlow {c : Cfg} (h : c.kind.positional = true) : c.kind.isFlow = false := by
  cases hk : c.kind <;> simp_all [Kind.positional, Kind.isFlow]

theorem push_refines {c : Cfg} (hk : c.kind.positional = true) {s : St} {ss : SSt} (h : Rel s ss)
    (it : Item) (coin rd : Bool) :
    (push c s it coin rd).2 = (sPush c ss it coin rd).2 ∧ Rel (push c s it coin rd).1 (sPush c ss it coin rd).1 := by
  obtain ⟨held, act, clock, acc, deq, drp⟩ := ss
  simp only [Rel] at h; subst h
  have hl : len c s = s.q.length := len_q (positional_notFlow hk)
  have inner : (pushInner c s it rd).2 = (sPushInner c ⟨s.q.map (·.item), act, clock, acc, deq, drp⟩ it rd).2 ∧
      Rel (pushInner c s it rd).1 (sPushInner c ⟨s.q.map (·.item), act, clock, acc, deq, drp⟩ it rd).1 := by
    unfold pushInner sPushInner
    cases hkk : c.kind <;> simp [Kind.positional, hkk] at hk <;> simp only [List.length_map]
    case red =>
      unfold pushRed
      by_cases hf : capFull c.cap s.q.length = true
      · simp [hf, Rel]
      · cases rd <;> simp [hf, Rel, SSt.accept]
    all_goals
      unfold pushList
      by_cases hf : capFull c.cap s.q.length = true
      · simp [hf, Rel]
      · simp [hf, Rel, SSt.accept]
  unfold push sPush
  cases hb : c.balk with
  | none => simpa using inner
  | some t =>
    simp only [hl, List.length_map]
    by_cases hc : (decide (t ≤ s.q.length) && coin) = true
    · simp only [hc, if_true]; exact ⟨trivial, by simp [Rel]⟩
    · simp only [hc]; simpa using inner

theorem pop_refines {c : Cfg} (hk : c.kind.positional = true) {s : St} {ss : SSt} (h : Rel s ss) (now k : Nat) :
    (pop c s now k).2 = (sPop c ss now k).2 ∧ Rel (pop c s now k).1 (sPop c ss now k).1 := by
  obtain ⟨held, act, clock, acc, deq, drp⟩ := ss
  simp only [Rel] at h; subst h
  unfold pop sPop Rel
  cases hkk : c.kind <;> simp [Kind.positional, hkk] at hk <;> simp only [List.length_map]
  case fifo | red =>
    unfold popHead
    cases hq : s.q with
    | nil => simp [hq]
    | cons e es => simp
  case lifo =>
    unfold popLast
    rw [List.getLast?_map]
    cases hq : s.q.getLast? with
    | none => simp
    | some e => simp [List.map_dropLast]
  case codel =>
    unfold popCodel
    cases hq : s.q with
    | nil => simp [hq]
    | cons e es => simp [List.map_drop]
  case adaptive =>
    unfold popAdaptive
    cases hq : s.q with
    | nil => simp [hq]
    | cons e es =>
      by_cases hc : c.thr ≤ (e :: es).length
      · simp only [hc, decide_true, if_true]
        rw [List.getLast?_map]
        cases hg : (e :: es).getLast? with
        | none => simp at hg
        | some l => simp [List.map_dropLast]
      · simp only [hc, decide_false, Bool.false_eq_true, if_false]
        simp

theorem peek_refines {c : Cfg} (hk : c.kind.positional = true) {s : St} {ss : SSt} (h : Rel s ss) (now : Nat) :
    peek c s now = sChoose c ss now := by
  obtain ⟨held, act, clock, acc, deq, drp⟩ := ss
  simp only [Rel] at h; subst h
  unfold peek sChoose
  cases hkk : c.kind <;> simp [Kind.positional, hkk] at hk <;> simp only [List.length_map]
  case fifo | red | codel => simp [List.head?_map]
  case lifo => simp [List.getLast?_map]
  case adaptive => split <;> simp [List.head?_map, List.getLast?_map]

theorem query_refines {c : Cfg} (hk : c.kind.positional = true) {s : St} {ss : SSt} (h : Rel s ss) (now f : Nat) :
    query c s now f = sQuery c ss now f := by
  obtain ⟨held, act, clock, acc, deq, drp⟩ := ss
  simp only [Rel] at h; subst h
  unfold query sQuery
  cases hkk : c.kind <;> simp [Kind.positional, hkk] at hk <;> simp

theorem step_refines {c : Cfg} (hk : c.kind.positional = true) {s : St} {ss : SSt} (h : Rel s ss) (o : Op) :
    (step c s o).2 = (sStep c ss o).2 ∧ Rel (step c s o).1 (sStep c ss o).1 := by
  cases o with
  | push it now coin rd =>
    have := push_refines hk h it coin rd
    exact ⟨by simp [step, sStep, this.1], this.2⟩
  | pop now k =>
    have := pop_refines hk h now k
    exact ⟨by simp [step, sStep, this.1], this.2⟩
  | peek now => exact ⟨by simp [step, sStep, peek_refines hk h now], h⟩
  | purge now =>
    have hp : purge c s now = (s, 0) := by
      unfold purge; cases hkk : c.kind <;> simp [Kind.positional, hkk] at hk <;> rfl
    have hs : sPurge c ss now = (ss, 0) := by
      unfold sPurge; cases hkk : c.kind <;> simp [Kind.positional, hkk] at hk <;> rfl
    exact ⟨by simp [step, sStep, hp, hs], by simpa [step, sStep, hp, hs] using h⟩
  | query now f => exact ⟨by simp [step, sStep, query_refines hk h now f], h⟩

/-- the model's answers are the list specification's answers, operation for operation -/
theorem run_refines {c : Cfg} (hk : c.kind.positional = true) : ∀ (ops : List Op) (s : St) (ss : SSt), Rel s ss →
    (run c s ops).map (·.1) = (sRun c ss ops).map (·.1)
  | [], _, _, _ => rfl
  | o :: os, s, ss, h => by
    have := step_refines hk h o
    simp only [run, sRun, List.map_cons, this.1]
    rw [run_refines hk os _ _ this.2]

end HappyModel.C08
