import HappyProofs.C08.IndusStrandB
/-!
# C08 part 3 — soundness of the judge, pooled and reneging components: no strand, no item lost

Every theorem quantifies over all transcripts; the right-hand sides are folds over the observations.
-/
namespace HappyModel.C08.Indus

/-! ## the strand clause -/

theorem strandCheck_pr {cfg : Cfg} {j : Book} {nx : Option Nat}
    (hc : cfg.comp = .pooled ∨ cfg.comp = .reneging) (h : strandCheck cfg j nx = none) :
    j.transit = [] ∧ j.finished = [] ∧ j.rpending = [] ∧
      ¬ (j.waiting ≠ [] ∧ j.svc.ids.length < cfg.limit) := by
  unfold strandCheck at h
  split at h
  · cases h
  · rename_i ht
    split at h
    · cases h
    · rename_i hf
      have h1 : j.transit = [] := by
        cases hx : j.transit with
        | nil => rfl
        | cons a r => simp [hx] at ht
      have h2 : j.finished = [] ∧ j.rpending = [] := by simpa using hf
      refine ⟨h1, h2.1, h2.2, ?_⟩
      rcases hc with hc | hc
      · simp only [hc] at h
        split at h
        · cases h
        · rename_i hw; simpa using hw
      · simp only [hc] at h
        split at h
        · cases h
        · rename_i hw; simpa using hw

/-- **Soundness (no strand, pooled / reneging).** If the judge accepts an observation that advances the
clock, then in the instant that is over no item waited while a unit was free, no dequeued item was left
between queue and worker, and no finished / reneged item was left undelivered. -/
theorem judge_sound_no_strand_pooled_reneging {cfg : Cfg} {j j' : Book} {o : Obs}
    (hc : cfg.comp = .pooled ∨ cfg.comp = .reneging) (h : judgeObs cfg j o = .ok j')
    (hs : j.started = true) (hl : j.lastT < o.t) :
    ¬ (j.waiting ≠ [] ∧ j.svc.ids.length < cfg.limit) ∧ j.transit = [] ∧ j.finished = [] ∧
      j.rpending = [] := by
  have hg := judgeObs_gate h
  unfold strandGate at hg
  simp only [hs, hl, decide_true, Bool.and_self, if_true] at hg
  obtain ⟨h1, h2, h3, h4⟩ := strandCheck_pr hc hg
  exact ⟨h4, h1, h2, h3⟩

/-- accepted: item 1 waits while the only unit is busy, and is started when the unit is freed -/
example : judgeRun { comp := .pooled, limit := 1 } {} 0
    [⟨0, .offer 0 none, .start, [0, 1, 0, 0, 0], false⟩, ⟨0, .offer 1 none, .wait, [0, 1, 1, 0, 0], false⟩,
     ⟨5, .fin 0, .dash, [1, 0, 0, 1, 0], false⟩, ⟨5, .offer 1 none, .start, [0, 1, 0, 1, 0], false⟩,
     ⟨5, .done 0, .dash, [0, 1, 0, 1, 0], false⟩, ⟨9, .fin 1, .dash, [1, 0, 0, 2, 0], false⟩,
     ⟨9, .done 1, .dash, [1, 0, 0, 2, 0], false⟩] = none := by decide

/-- rejected: the clock moves on while item 0 waits in the reneging queue and the worker is free -/
example : judgeRun { comp := .reneging, limit := 1 } {} 0
    [⟨0, .offer 0 none, .acc, [1, 1, 0, 0, 0, 0], false⟩, ⟨3, .deq, .got 0, [0, 1, 0, 0, 0, 0], false⟩]
    = some "indus/reneging/strand/waiting-with-free-capacity at-line 1" := by decide

theorem endCheck_pr {cfg : Cfg} {j : Book} (hc : cfg.comp = .pooled ∨ cfg.comp = .reneging)
    (h : endCheck cfg j = none) :
    j.transit = [] ∧ j.finished = [] ∧ j.rpending = [] ∧ j.svc.ids = [] ∧ j.waiting = [] := by
  unfold endCheck at h
  split at h
  · cases h
  · rename_i hs
    obtain ⟨h1, h2, h3, _⟩ := strandCheck_pr hc hs
    simp only at h
    split at h
    · cases h
    · rename_i hids
      have h4 : j.svc.ids = [] := by simpa using hids
      refine ⟨h1, h2, h3, h4, ?_⟩
      rcases hc with hc | hc
      · simp only [hc] at h
        split at h
        · cases h
        · rename_i hw; simpa using hw
      · simp only [hc] at h
        split at h
        · cases h
        · rename_i hw; simpa using hw

theorem judgeRun_nil {cfg : Cfg} {j : Book} {i : Nat} (h : judgeRun cfg j i [] = none) :
    endCheck cfg j = none := by
  unfold judgeRun at h
  cases he : endCheck cfg j with
  | none => rfl
  | some v => rw [he] at h; cases h

/-! ## reneging: no accepted item is lost -/

/-- ids that left through the reneged side, latest first (function of the observations only): delivered to
the reneged sink, or — no reneged target configured — reported as reneged by the worker (counted, discarded) -/
def renStep (rt : Bool) (r : List Nat) (o : Obs) : List Nat :=
  match o.act, o.res with
  | .rdone id, _ => id :: r
  | .work id, .renege => if rt then r else id :: r
  | _, _ => r

def renFold (rt : Bool) : List Nat → List Obs → List Nat
  | r, [] => r
  | r, o :: rest => renFold rt (renStep rt r o) rest

/-- the populations an accepted id of the reneging component can be in -/
def wher (j : Book) (x : Nat) : Prop :=
  x ∈ j.waiting.map (·.id) ∨ x ∈ j.transit.map (·.id) ∨ x ∈ j.svc.ids ∨ x ∈ j.finished ∨ x ∈ j.done ∨
    x ∈ j.rpending ∨ x ∈ j.rdone

theorem svcStep_ren_other {s : Svc} {o : Obs} (h1 : ∀ id, o.act ≠ .work id) (h2 : ∀ id, o.act ≠ .fin id) :
    svcStep .reneging s o = s := by
  unfold svcStep
  split <;> simp_all

theorem svcStep_ren_work {s : Svc} {o : Obs} {id : Nat} (h1 : o.act = .work id) :
    svcStep .reneging s o = if o.res = .start then { s with ids := s.ids ++ [id] } else s := by
  unfold svcStep
  split <;> simp_all

theorem svcStep_ren_fin {s : Svc} {o : Obs} {id : Nat} (h1 : o.act = .fin id) :
    svcStep .reneging s o = { s with ids := s.ids.erase id } := by
  unfold svcStep
  split <;> simp_all

theorem mem_filter_ne {l : List WItem} {x id : Nat} (h : x ∈ l.map (·.id)) (hne : x ≠ id) :
    x ∈ (l.filter (·.id != id)).map (·.id) := by
  simp only [List.mem_map, List.mem_filter] at h ⊢
  obtain ⟨w, hw, he⟩ := h
  exact ⟨w, ⟨hw, by simp [he, hne]⟩, he⟩

theorem judgeReneging_step {cfg : Cfg} {j j1 : Book} {o : Obs} (x : Nat) (lt : Nat) (st : Bool)
    (hact : judgeReneging cfg j o = .ok j1) :
    (wher j x → wher { j1 with svc := svcStep .reneging j.svc o, done := doneStep j.done o,
                                lastT := lt, started := st } x) ∧
    (∀ p, o.act = .offer x p → o.res = .acc →
      wher { j1 with svc := svcStep .reneging j.svc o, done := doneStep j.done o,
                     lastT := lt, started := st } x) ∧
    j1.rdone = renStep cfg.rtarget j.rdone o := by
  unfold judgeReneging at hact
  cases ha : o.act with
  | offer id p =>
    simp only [ha] at hact
    have hsv : svcStep .reneging j.svc o = j.svc := svcStep_ren_other (by simp [ha]) (by simp [ha])
    split at hact
    · cases hact
    · split at hact
      · split at hact
        · cases hact
        · cases hact
          simp only [wher, hsv, doneStep, renStep, ha, List.map_append, List.mem_append]
          refine ⟨?_, ?_, trivial⟩
          · intro h; rcases h with h | h | h | h | h | h | h <;> simp [h]
          · intro q hq _; cases hq; simp
      · split at hact
        · cases hact
        · cases hact
          simp only [wher, hsv, doneStep, renStep, ha]
          refine ⟨fun h => h, ?_, trivial⟩
          intro q _ hr; simp_all
      · cases hact
  | deq =>
    simp only [ha] at hact
    have hsv : svcStep .reneging j.svc o = j.svc := svcStep_ren_other (by simp [ha]) (by simp [ha])
    split at hact
    · split at hact
      · cases hact
      · cases hact
        simp only [wher, hsv, doneStep, renStep, ha]
        exact ⟨fun h => h, (by intro q hq; cases hq), trivial⟩
    · split at hact
      · cases hact
      · rename_i w rest hw
        split at hact
        · cases hact
          simp only [wher, hsv, doneStep, renStep, ha, hw, List.map_append, List.mem_append, List.map_cons,
            List.mem_cons, List.map_nil, List.mem_nil_iff, or_false]
          refine ⟨?_, (by intro q hq; cases hq), trivial⟩
          grind
        · split at hact <;> cases hact
    · cases hact
  | work id =>
    simp only [ha] at hact
    have hsv := svcStep_ren_work (s := j.svc) ha
    split at hact
    · cases hact
    · split at hact
      · cases hact
      · split at hact
        · rename_i hr
          split at hact
          · cases hact
          · cases hact
            simp only [wher, hsv, hr, doneStep, renStep, ha, if_true, List.mem_append, List.mem_singleton]
            refine ⟨?_, (by intro q hq; cases hq), trivial⟩
            intro h
            by_cases hx : x = id
            · exact .inr (.inr (.inl (.inr hx)))
            · rcases h with h | h | h | h | h | h | h
              · exact .inl h
              · exact .inr (.inl (mem_filter_ne h hx))
              · exact .inr (.inr (.inl (.inl h)))
              · exact .inr (.inr (.inr (.inl h)))
              · exact .inr (.inr (.inr (.inr (.inl h))))
              · exact .inr (.inr (.inr (.inr (.inr (.inl h)))))
              · exact .inr (.inr (.inr (.inr (.inr (.inr h)))))
        · rename_i hr
          split at hact
          · cases hact
          · split at hact
            · rename_i hrt
              cases hact
              simp only [wher, hsv, hr, doneStep, renStep, ha, hrt, if_true, List.mem_append, List.mem_singleton]
              refine ⟨?_, (by intro q hq; cases hq), ?_⟩
              · intro h
                by_cases hx : x = id
                · simp [hx]
                · rcases h with h | h | h | h | h | h | h
                  · exact .inl h
                  · exact .inr (.inl (mem_filter_ne h hx))
                  · exact .inr (.inr (.inl (by simpa using h)))
                  · exact .inr (.inr (.inr (.inl h)))
                  · exact .inr (.inr (.inr (.inr (.inl h))))
                  · exact .inr (.inr (.inr (.inr (.inr (.inl (.inl h))))))
                  · exact .inr (.inr (.inr (.inr (.inr (.inr h)))))
              · simp
            · rename_i hrt
              cases hact
              simp only [wher, hsv, hr, doneStep, renStep, ha, hrt, List.mem_cons]
              refine ⟨?_, (by intro q hq; cases hq), ?_⟩
              · intro h
                by_cases hx : x = id
                · simp [hx]
                · rcases h with h | h | h | h | h | h | h
                  · exact .inl h
                  · exact .inr (.inl (mem_filter_ne h hx))
                  · exact .inr (.inr (.inl (by simpa using h)))
                  · exact .inr (.inr (.inr (.inl h)))
                  · exact .inr (.inr (.inr (.inr (.inl h))))
                  · exact .inr (.inr (.inr (.inr (.inr (.inl h)))))
                  · exact .inr (.inr (.inr (.inr (.inr (.inr (.inr h))))))
              · simp
        · cases hact
  | fin id =>
    simp only [ha] at hact
    have hsv := svcStep_ren_fin (s := j.svc) ha
    split at hact
    · cases hact
    · cases hact
      simp only [wher, hsv, doneStep, renStep, ha, List.mem_append, List.mem_singleton]
      refine ⟨?_, (by intro q hq; cases hq), trivial⟩
      intro h
      by_cases hx : x = id
      · exact .inr (.inr (.inr (.inl (.inr hx))))
      · rcases h with h | h | h | h | h | h | h
        · exact .inl h
        · exact .inr (.inl h)
        · exact .inr (.inr (.inl ((List.mem_erase_of_ne hx).mpr h)))
        · exact .inr (.inr (.inr (.inl (.inl h))))
        · exact .inr (.inr (.inr (.inr (.inl h))))
        · exact .inr (.inr (.inr (.inr (.inr (.inl h)))))
        · exact .inr (.inr (.inr (.inr (.inr (.inr h)))))
  | done id =>
    simp only [ha] at hact
    have hsv : svcStep .reneging j.svc o = j.svc := svcStep_ren_other (by simp [ha]) (by simp [ha])
    split at hact
    · cases hact
    · unfold judgeDone at hact
      repeat' split at hact
      all_goals try cases hact
      simp only [wher, hsv, doneStep, renStep, ha, List.mem_cons]
      refine ⟨?_, (by intro q hq; cases hq), trivial⟩
      intro h
      by_cases hx : x = id
      · exact .inr (.inr (.inr (.inr (.inl (.inl hx)))))
      · rcases h with h | h | h | h | h | h | h
        · exact .inl h
        · exact .inr (.inl h)
        · exact .inr (.inr (.inl h))
        · exact .inr (.inr (.inr (.inl ((List.mem_erase_of_ne hx).mpr h))))
        · exact .inr (.inr (.inr (.inr (.inl (.inr h)))))
        · exact .inr (.inr (.inr (.inr (.inr (.inl h)))))
        · exact .inr (.inr (.inr (.inr (.inr (.inr h)))))
  | rdone id =>
    simp only [ha] at hact
    have hsv : svcStep .reneging j.svc o = j.svc := svcStep_ren_other (by simp [ha]) (by simp [ha])
    repeat' split at hact
    all_goals try cases hact
    simp only [wher, hsv, doneStep, renStep, ha, List.mem_cons]
    refine ⟨?_, (by intro q hq; cases hq), trivial⟩
    intro h
    by_cases hx : x = id
    · exact .inr (.inr (.inr (.inr (.inr (.inr (.inl hx))))))
    · rcases h with h | h | h | h | h | h | h
      · exact .inl h
      · exact .inr (.inl h)
      · exact .inr (.inr (.inl h))
      · exact .inr (.inr (.inr (.inl h)))
      · exact .inr (.inr (.inr (.inr (.inl h))))
      · exact .inr (.inr (.inr (.inr (.inr (.inl ((List.mem_erase_of_ne hx).mpr h))))))
      · exact .inr (.inr (.inr (.inr (.inr (.inr (.inr h))))))
  | _ => simp only [ha] at hact; cases hact

theorem reneging_step {cfg : Cfg} {j j' : Book} {o : Obs} (hc : cfg.comp = .reneging) (x : Nat)
    (h : judgeObs cfg j o = .ok j') :
    (wher j x → wher j' x) ∧ (∀ p, o.act = .offer x p → o.res = .acc → wher j' x) ∧
    j'.done = doneStep j.done o ∧ j'.rdone = renStep cfg.rtarget j.rdone o := by
  obtain ⟨j1, hact, hf⟩ := judgeObs_ok h
  have hj' := finishObs_eq hf
  subst hj'
  unfold judgeAct at hact
  simp only [hc] at hact ⊢
  obtain ⟨h1, h2, h3⟩ := judgeReneging_step x o.t true hact
  exact ⟨h1, h2, trivial, h3⟩

theorem judge_sound_reneging_gen (cfg : Cfg) (hc : cfg.comp = .reneging) (x : Nat) :
    ∀ (obs : List Obs) (j : Book) (i : Nat), judgeRun cfg j i obs = none →
      (wher j x → x ∈ doneFold j.done obs ∨ x ∈ renFold cfg.rtarget j.rdone obs) ∧
      (∀ o ∈ obs, ∀ p, o.act = .offer x p → o.res = .acc →
        x ∈ doneFold j.done obs ∨ x ∈ renFold cfg.rtarget j.rdone obs) := by
  intro obs
  induction obs with
  | nil =>
    intro j i h
    obtain ⟨h1, h2, h3, h4, h5⟩ := endCheck_pr (.inr hc) (judgeRun_nil h)
    refine ⟨?_, fun o ho => by cases ho⟩
    intro hw
    simp only [doneFold, renFold]
    unfold wher at hw
    rw [h1, h2, h3, h4, h5] at hw
    rcases hw with hw | hw | hw | hw | hw | hw | hw
    · cases hw
    · cases hw
    · cases hw
    · cases hw
    · exact .inl hw
    · cases hw
    · exact .inr hw
  | cons o rest ih =>
    intro j i h
    unfold judgeRun at h
    split at h
    · cases h
    · rename_i j' hj
      obtain ⟨hk, hn, hd, hr⟩ := reneging_step hc x hj
      obtain ⟨g1, g2⟩ := ih j' (i + 1) h
      rw [hd, hr] at g1 g2
      simp only [doneFold, renFold]
      refine ⟨fun hw => g1 (hk hw), ?_⟩
      intro o' ho' p ha hres
      simp only [List.mem_cons] at ho'
      rcases ho' with ho' | ho'
      · subst ho'; exact g1 (hn p ha hres)
      · exact g2 o' ho' p ha hres

theorem renFold_mem {rt : Bool} {x : Nat} : ∀ (obs : List Obs) (r : List Nat), x ∈ renFold rt r obs →
    x ∈ r ∨ (∃ o ∈ obs, o.act = .rdone x) ∨ (rt = false ∧ ∃ o ∈ obs, o.act = .work x ∧ o.res = .renege) := by
  intro obs
  induction obs with
  | nil => intro r h; exact .inl h
  | cons o rest ih =>
    intro r h
    simp only [renFold] at h
    rcases ih _ h with h | ⟨o', ho', h⟩ | ⟨hrt, o', ho', h⟩
    · unfold renStep at h
      split at h
      · rename_i id ha
        simp only [List.mem_cons] at h
        rcases h with h | h
        · subst h; exact .inr (.inl ⟨o, List.mem_cons_self, ha⟩)
        · exact .inl h
      · rename_i id ha hr
        split at h
        · exact .inl h
        · rename_i hrt
          simp only [List.mem_cons] at h
          rcases h with h | h
          · subst h
            exact .inr (.inr ⟨by simpa using hrt, o, List.mem_cons_self, ha, hr⟩)
          · exact .inl h
      · exact .inl h
    · exact .inr (.inl ⟨o', List.mem_cons_of_mem _ ho', h⟩)
    · exact .inr (.inr ⟨hrt, o', List.mem_cons_of_mem _ ho', h⟩)

/-- **Soundness (no item lost, reneging).** If the judge accepts a whole transcript of the reneging component
including its end check, then every id whose offer was answered `acc` reached the sink, or was delivered to
the reneged sink, or — no reneged target configured — was reported as reneged by the worker. -/
theorem judge_sound_reneging_none_lost (cfg : Cfg) (hc : cfg.comp = .reneging) (obs : List Obs)
    (h : judgeRun cfg {} 0 obs = none) :
    ∀ o ∈ obs, ∀ id p, o.act = .offer id p → o.res = .acc →
      id ∈ doneFold [] obs ∨ (∃ o' ∈ obs, o'.act = .rdone id) ∨
      (cfg.rtarget = false ∧ ∃ o' ∈ obs, o'.act = .work id ∧ o'.res = .renege) := by
  intro o ho id p ha hr
  rcases (judge_sound_reneging_gen cfg hc id obs {} 0 h).2 o ho p ha hr with h1 | h1
  · exact .inl h1
  · rcases renFold_mem obs [] h1 with h2 | h2 | h2
    · cases h2
    · exact .inr (.inl h2)
    · exact .inr (.inr h2)

/-- accepted: item 0 is served, item 1 reneges and is delivered to the reneged sink -/
example : judgeRun { comp := .reneging, limit := 1 } {} 0
    [⟨0, .offer 0 (some 1000), .acc, [1, 1, 0, 0, 0, 0], false⟩, ⟨0, .offer 1 (some 1000), .acc, [2, 2, 0, 0, 0, 0], false⟩,
     ⟨0, .deq, .got 0, [1, 2, 0, 0, 0, 0], false⟩, ⟨0, .work 0, .start, [1, 2, 0, 1, 0, 1], false⟩,
     ⟨4000, .fin 0, .dash, [1, 2, 0, 1, 0, 0], false⟩, ⟨4000, .deq, .got 1, [0, 2, 0, 1, 0, 0], false⟩,
     ⟨4000, .work 1, .renege, [0, 2, 0, 1, 1, 0], false⟩, ⟨4000, .done 0, .dash, [0, 2, 0, 1, 1, 0], false⟩,
     ⟨4000, .rdone 1, .dash, [0, 2, 0, 1, 1, 0], false⟩] = none := by decide

/-- rejected: the reneged item never reaches the reneged sink … -/
example : judgeRun { comp := .reneging, limit := 1 } {} 0
    [⟨0, .offer 0 (some 1000), .acc, [1, 1, 0, 0, 0, 0], false⟩, ⟨0, .offer 1 (some 1000), .acc, [2, 2, 0, 0, 0, 0], false⟩,
     ⟨0, .deq, .got 0, [1, 2, 0, 0, 0, 0], false⟩, ⟨0, .work 0, .start, [1, 2, 0, 1, 0, 1], false⟩,
     ⟨4000, .fin 0, .dash, [1, 2, 0, 1, 0, 0], false⟩, ⟨4000, .deq, .got 1, [0, 2, 0, 1, 0, 0], false⟩,
     ⟨4000, .work 1, .renege, [0, 2, 0, 1, 1, 0], false⟩, ⟨4000, .done 0, .dash, [0, 2, 0, 1, 1, 0], false⟩]
    = some "indus/reneging/item-lost at-end" := by decide

/-- … and a run that ends with an accepted item still in the queue (worker busy) is rejected as well -/
example : judgeRun { comp := .reneging, limit := 1 } {} 0
    [⟨0, .offer 0 none, .acc, [1, 1, 0, 0, 0, 0], false⟩, ⟨0, .offer 1 none, .acc, [2, 2, 0, 0, 0, 0], false⟩,
     ⟨0, .deq, .got 0, [1, 2, 0, 0, 0, 0], false⟩, ⟨0, .work 0, .start, [1, 2, 0, 1, 0, 1], false⟩]
    = some "indus/reneging/item-lost at-end" := by decide

end HappyModel.C08.Indus
