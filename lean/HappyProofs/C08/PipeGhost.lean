import HappyProofs.C08.PipeStep
/-!
Item identities along a pipeline run.

The ghost record `Gh` is computed from what a run *shows* — the delivered actions and their visible
results (`Pipe.run`): which ids were offered, which the queue refused, which it accepted, which the
worker started, which it discarded after dequeue, which finished, each in the order it happened.
`GInv` says where every offered id is: the seven populations

  refused ++ waiting ++ delivers ++ works ++ inService ++ done ++ discarded

hold exactly the offered ids, with multiplicity, and the public counters are the lengths of the
ghost lists.  It is preserved by **every** action of **every** variant and worker (no schedule
hypothesis): only the queue policy's refinement relation is used.
-/
namespace HappyModel.C08.Pipe
open HappyModel.C08

structure Gh where
  offered : List Nat := []      -- ids of the `arr` actions, in order
  refused : List Nat := []      -- `arr` answered `accepted false`
  accepted : List Nat := []     -- `arr` answered `accepted true` (acceptance order)
  started : List Nat := []      -- `work` answered `started true` (service-start order)
  discarded : List Nat := []    -- `work` answered `started false` (rejected after dequeue)
  done : List Nat := []         -- `fin` answered `done` (completion order)
deriving Repr, DecidableEq

/-- one observed (action, result) pair -/
def gstep (g : Gh) : Act → Res → Gh
  | .arr it, .accepted true => { g with offered := g.offered ++ [it.id], accepted := g.accepted ++ [it.id] }
  | .arr it, .accepted false => { g with offered := g.offered ++ [it.id], refused := g.refused ++ [it.id] }
  | .work i, .started true => { g with started := g.started ++ [i] }
  | .work i, .started false => { g with discarded := g.discarded ++ [i] }
  | .fin i, .done => { g with done := g.done ++ [i] }
  | _, _ => g

def ghost (c : PCfg) : PSt → Gh → List Act → Gh
  | _, g, [] => g
  | s, g, a :: as => ghost c (step c s a).1 (gstep g a (step c s a).2) as

/-- the ghost record is a fold over the visible trace of `run` -/
theorem ghost_eq_fold (c : PCfg) : ∀ (as : List Act) (s : PSt) (g : Gh),
    ghost c s g as = (as.zip ((run c s as).map (·.1))).foldl (fun g p => gstep g p.1 p.2) g
  | [], _, _ => rfl
  | a :: as, s, g => by simp only [ghost, run, List.map_cons, List.zip_cons_cons, List.foldl_cons]
                        exact ghost_eq_fold c as _ _

/-- ids of the offered items of a schedule -/
def offeredIds (as : List Act) : List Nat :=
  as.filterMap fun a => match a with
    | .arr it => some it.id
    | _ => none

/-- the seven populations, `held` being the ids waiting in the queue -/
def pops (held : List Nat) (s : PSt) (g : Gh) : List Nat :=
  g.refused ++ (held ++ (s.delivers ++ (s.works ++ (s.inService ++ (g.done ++ g.discarded)))))

/-- counting form (per id) of the identity invariant -/
structure GInv (s : PSt) (g : Gh) (ss : SSt) : Prop where
  perm : ∀ a, (pops (ss.held.map (·.id)) s g).count a = g.offered.count a
  ra : ∀ a, (g.refused ++ g.accepted).count a = g.offered.count a
  sd : ∀ a, g.started.count a = (s.inService ++ g.done).count a
  drop : s.dropped = g.refused.length
  acc : s.acc = g.accepted.length
  comp : s.completed = g.done.length
  rej : s.rejected = g.discarded.length

theorem ginv_init (lim : Nat) : GInv { limit := lim } {} {} :=
  ⟨fun _ => rfl, fun _ => rfl, fun _ => rfl, rfl, rfl, rfl, rfl⟩

/-- the fields `GInv` reads are untouched -/
structure Same (s s' : PSt) : Prop where
  d : s'.delivers = s.delivers
  w : s'.works = s.works
  i : s'.inService = s.inService
  dr : s'.dropped = s.dropped
  ac : s'.acc = s.acc
  co : s'.completed = s.completed
  re : s'.rejected = s.rejected

theorem GInv.frame {s s' : PSt} {g : Gh} {ss : SSt} (h : GInv s g ss) (f : Same s s') : GInv s' g ss := by
  obtain ⟨p, ra, sd, dr, ac, co, re⟩ := h
  refine ⟨?_, ra, ?_, by rw [f.dr]; exact dr, by rw [f.ac]; exact ac, by rw [f.co]; exact co,
    by rw [f.re]; exact re⟩
  · intro a; have := p a; simp only [pops, f.d, f.w, f.i] at this ⊢; exact this
  · intro a; rw [f.i]; exact sd a

theorem pollIfReady_same (c : PCfg) (s : PSt) : Same s (pollIfReady c s).1 := by
  unfold pollIfReady
  cases c.variant <;> simp only <;> (repeat' split) <;> exact ⟨rfl, rfl, rfl, rfl, rfl, rfl, rfl⟩

theorem erase_count {l : List Nat} {i : Nat} (hm : i ∈ l) (a : Nat) :
    l.count a = (l.erase i).count a + if (i == a) = true then 1 else 0 := by
  have := (List.perm_cons_erase hm).count_eq a
  rw [List.count_cons] at this; exact this

theorem arr_ginv {c : PCfg} {s : PSt} {g : Gh} {ss : SSt} (hr : PolRel c.pol s.q ss) (h : GInv s g ss) (it : Item) :
    GInv (stepArr c s it).1 (gstep g (.arr it) (stepArr c s it).2) (sPush c.pol ss it false false).1 := by
  obtain ⟨p, ra, sd, dr, ac, co, re⟩ := h
  have h2 := (polrel_push hr it false false).1
  have hh := sPush_held c.pol ss it false false
  unfold stepArr
  simp only
  cases hok : (push c.pol s.q it false false).2 with
  | true =>
    rw [← h2, hok] at hh
    simp only [if_true] at hh
    simp only [if_true, gstep]
    refine ⟨?_, ?_, sd, dr, by simp only [List.length_append, List.length_singleton]; omega, co, re⟩
    · intro a; have := p a
      simp only [pops, hh, List.map_append, List.map_cons, List.map_nil, List.count_append, List.count_cons,
        List.count_nil] at this ⊢
      omega
    · intro a; have := ra a
      simp only [List.count_append, List.count_cons, List.count_nil] at this ⊢; omega
  | false =>
    rw [← h2, hok] at hh
    simp only [Bool.false_eq_true, if_false] at hh
    simp only [Bool.false_eq_true, if_false, gstep]
    refine ⟨?_, ?_, sd, by simp only [List.length_append, List.length_singleton]; omega, ac, co, re⟩
    · intro a; have := p a
      simp only [pops, hh, List.count_append, List.count_cons, List.count_nil] at this ⊢
      omega
    · intro a; have := ra a
      simp only [List.count_append, List.count_cons, List.count_nil] at this ⊢; omega

theorem poll_ginv {c : PCfg} {s : PSt} {g : Gh} {ss : SSt} (hr : PolRel c.pol s.q ss) (h : GInv s g ss) :
    GInv (stepPoll c s).1 (gstep g .poll (stepPoll c s).2) (sstep c s ss .poll) := by
  obtain ⟨p, ra, sd, dr, ac, co, re⟩ := h
  obtain ⟨h2, hr'⟩ := polrel_pop hr 0 0
  by_cases hp : s.nPoll = 0
  · simp only [stepPoll, sstep, hp, if_true, gstep]
    exact ⟨p, ra, sd, dr, ac, co, re⟩
  · simp only [stepPoll, sstep, hp, if_false]
    cases hit : (pop c.pol s.q 0 0).2 with
    | some it =>
      rw [hit] at h2
      have hperm := fun a => ((sPop_held_some c.pol ss it h2.symm).map (·.id)).count_eq a
      simp only [gstep]
      refine ⟨?_, ra, sd, dr, ac, co, re⟩
      intro a; have := p a; have := hperm a
      simp only [pops, List.map_cons, List.count_append, List.count_cons, List.count_nil] at *
      omega
    | none =>
      rw [hit] at h2
      have hnil := sPop_none_held hr h2.symm
      have hle := pop_len_le c.pol s.q 0 0
      rw [polrel_len hr', polrel_len hr, hnil] at hle
      have hnil' : (sPop c.pol ss 0 0).1.held = [] := List.eq_nil_of_length_eq_zero (Nat.le_zero.mp hle)
      have key : GInv { s with nPoll := s.nPoll - 1, q := (pop c.pol s.q 0 0).1 } g (sPop c.pol ss 0 0).1 := by
        refine ⟨?_, ra, sd, dr, ac, co, re⟩
        intro a; have := p a
        simp only [pops, hnil, hnil'] at this ⊢; exact this
      cases c.variant <;> exact key.frame ⟨rfl, rfl, rfl, rfl, rfl, rfl, rfl⟩

theorem deliver_ginv {c : PCfg} {s : PSt} {g : Gh} {ss : SSt} (h : GInv s g ss) (x : Option Nat) :
    GInv (stepDeliver c s x).1 (gstep g (.deliver x) (stepDeliver c s x).2) ss := by
  cases x with
  | some i =>
    by_cases hc : s.delivers.contains i = true
    · have hm : i ∈ s.delivers := by simpa using hc
      obtain ⟨p, ra, sd, dr, ac, co, re⟩ := h
      have key : GInv { s with delivers := s.delivers.erase i, works := s.works ++ [i] } g ss := by
        refine ⟨?_, ra, sd, dr, ac, co, re⟩
        intro a; have := p a; have := erase_count hm a
        simp only [pops, List.count_append, List.count_cons, List.count_nil] at *
        omega
      simp only [stepDeliver, hc, Bool.not_true, Bool.false_eq_true, if_false]
      cases c.variant <;> exact key.frame ⟨rfl, rfl, rfl, rfl, rfl, rfl, rfl⟩
    · have hc' : s.delivers.contains i = false := by simpa using hc
      simp only [stepDeliver, hc', Bool.not_false, if_true]
      exact h
  | none =>
    simp only [stepDeliver]
    split
    · exact h
    · have h0 : GInv { s with nEmpty := s.nEmpty - 1, busy := false } g ss :=
        ⟨h.perm, h.ra, h.sd, h.drop, h.acc, h.comp, h.rej⟩
      split
      · exact h0.frame (pollIfReady_same c _)
      · exact h0

theorem work_ginv {c : PCfg} {s : PSt} {g : Gh} {ss : SSt} (h : GInv s g ss) (i : Nat) :
    GInv (stepWork c s i).1 (gstep g (.work i) (stepWork c s i).2) ss := by
  by_cases hc : s.works.contains i = true
  · have hm : i ∈ s.works := by simpa using hc
    obtain ⟨p, ra, sd, dr, ac, co, re⟩ := h
    have started : GInv { s with works := s.works.erase i, active := s.active + 1, inService := s.inService ++ [i] }
        { g with started := g.started ++ [i] } ss := by
      refine ⟨?_, ra, ?_, dr, ac, co, re⟩
      · intro a; have := p a; have := erase_count hm a
        simp only [pops, List.count_append, List.count_cons, List.count_nil] at *
        omega
      · intro a; have := sd a
        simp only [List.count_append, List.count_cons, List.count_nil] at *
        omega
    have discarded : GInv { s with works := s.works.erase i, rejected := s.rejected + 1 }
        { g with discarded := g.discarded ++ [i] } ss := by
      refine ⟨?_, ra, sd, dr, ac, co, by simp only [List.length_append, List.length_singleton]; omega⟩
      intro a; have := p a; have := erase_count hm a
      simp only [pops, List.count_append, List.count_cons, List.count_nil] at *
      omega
    simp only [stepWork, hc, Bool.not_true, Bool.false_eq_true, if_false]
    cases c.worker with
    | shifted => exact started
    | server =>
      simp only
      split
      · exact started
      · exact discarded.frame (pollIfReady_same c _)
  · have hc' : s.works.contains i = false := by simpa using hc
    simp only [stepWork, hc', Bool.not_false, if_true]
    exact h

theorem fin_ginv {c : PCfg} {s : PSt} {g : Gh} {ss : SSt} (h : GInv s g ss) (i : Nat) :
    GInv (stepFin c s i).1 (gstep g (.fin i) (stepFin c s i).2) ss := by
  by_cases hc : s.inService.contains i = true
  · have hm : i ∈ s.inService := by simpa using hc
    obtain ⟨p, ra, sd, dr, ac, co, re⟩ := h
    have key : GInv { s with inService := s.inService.erase i, active := s.active - 1, completed := s.completed + 1 }
        { g with done := g.done ++ [i] } ss := by
      refine ⟨?_, ra, ?_, dr, ac, by simp only [List.length_append, List.length_singleton]; omega, re⟩
      · intro a; have := p a; have := erase_count hm a
        simp only [pops, List.count_append, List.count_cons, List.count_nil] at *
        omega
      · intro a; have := sd a; have := erase_count hm a
        simp only [List.count_append, List.count_cons, List.count_nil] at *
        omega
    simp only [stepFin, hc, Bool.not_true, Bool.false_eq_true, if_false, gstep]
    exact key.frame (pollIfReady_same c _)
  · have hc' : s.inService.contains i = false := by simpa using hc
    simp only [stepFin, hc', Bool.not_false, if_true]
    exact h

/-- the identity invariant is kept by every action — any variant, any worker, any schedule -/
theorem step_ginv {c : PCfg} {s : PSt} {g : Gh} {ss : SSt} (hr : PolRel c.pol s.q ss) (h : GInv s g ss) (a : Act) :
    GInv (step c s a).1 (gstep g a (step c s a).2) (sstep c s ss a) := by
  cases a with
  | arr it => exact arr_ginv hr h it
  | notify =>
    simp only [step, stepNotify, sstep]
    split
    · exact h
    · exact GInv.frame (s := { s with nNotify := s.nNotify - 1 }) ⟨h.perm, h.ra, h.sd, h.drop, h.acc, h.comp, h.rej⟩
        (pollIfReady_same c _)
  | poll => exact poll_ginv hr h
  | deliver x => exact deliver_ginv h x
  | work i => exact work_ginv h i
  | disp =>
    simp only [step, stepDisp, sstep]
    split
    · exact h
    · exact GInv.frame (s := { s with nDisp := s.nDisp - 1, busy := false })
        ⟨h.perm, h.ra, h.sd, h.drop, h.acc, h.comp, h.rej⟩ (pollIfReady_same c _)
  | fin i => exact fin_ginv h i
  | shift cap =>
    simp only [step, stepShift, sstep]
    (repeat' split) <;> exact ⟨h.perm, h.ra, h.sd, h.drop, h.acc, h.comp, h.rej⟩

theorem final_ginv (c : PCfg) : ∀ (as : List Act) (s : PSt) (g : Gh) (ss : SSt), PolRel c.pol s.q ss → GInv s g ss →
    GInv (final c s as) (ghost c s g as) (sfinal c s ss as)
  | [], _, _, _, _, h => h
  | a :: as, _, _, _, hr, h => final_ginv c as _ _ _ (step_rel hr a) (step_ginv hr h a)

/-- the ghost `offered` list is the list of offered ids of the schedule -/
theorem ghost_offered (c : PCfg) : ∀ (as : List Act) (s : PSt) (g : Gh),
    (ghost c s g as).offered = g.offered ++ offeredIds as
  | [], _, g => by simp [ghost, offeredIds]
  | a :: as, s, g => by
    rw [ghost, ghost_offered c as]
    cases a with
    | arr it =>
      have : (step c s (.arr it)).2 = .accepted true ∨ (step c s (.arr it)).2 = .accepted false := by
        simp only [step, stepArr]; split <;> simp
      rcases this with e | e <;> rw [e] <;> simp [gstep, offeredIds]
    | work i =>
      have : (gstep g (.work i) (step c s (.work i)).2).offered = g.offered := by
        cases (step c s (.work i)).2 <;> try rfl
        rename_i b; cases b <;> rfl
      rw [this]; simp [offeredIds]
    | fin i =>
      have : (gstep g (.fin i) (step c s (.fin i)).2).offered = g.offered := by
        cases (step c s (.fin i)).2 <;> rfl
      rw [this]; simp [offeredIds]
    | notify => simp [gstep, offeredIds]
    | poll => simp [gstep, offeredIds]
    | deliver x => simp [gstep, offeredIds]
    | disp => simp [gstep, offeredIds]
    | shift cap => simp [gstep, offeredIds]

end HappyModel.C08.Pipe
