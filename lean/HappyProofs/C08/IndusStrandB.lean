import HappyProofs.C08.IndusStrand
/-!
# C08 part 3 — BatchProcessor: no item is stranded in the buffer, part B (the judge)

(C) an accepted transcript (flush timeout configured) delivers every offered id at the sink;
(D) no accepted transcript lets the clock pass a waiting item's flush deadline.
The book invariant `BkInv` and its step lemma `batch_step` are in `IndusStrand.lean`.
-/
namespace HappyModel.C08.Indus

theorem endCheck_batch {cfg : Cfg} {j : Book} (hc : cfg.comp = .batch) (h : endCheck cfg j = none) :
    j.finished = [] ∧ j.svc.ids = [] ∧ (cfg.timeout ≠ 0 → j.waiting = []) := by
  unfold endCheck at h
  split at h
  · cases h
  · rename_i hs
    simp only [hc] at h
    split at h
    · cases h
    · rename_i hids
      split at h
      · cases h
      · rename_i hwt
        unfold strandCheck at hs
        split at hs
        · cases hs
        · split at hs
          · cases hs
          · rename_i hfin
            refine ⟨?_, ?_, ?_⟩
            · cases hf : j.finished with
              | nil => rfl
              | cons a r => simp [hf] at hfin
            · cases hi : j.svc.ids with
              | nil => rfl
              | cons a r => simp [hi] at hids
            · intro ht
              cases hw : j.waiting with
              | nil => rfl
              | cons a r => simp [hw, ht] at hwt

theorem judge_sound_batch_gen (cfg : Cfg) (hc : cfg.comp = .batch) :
    ∀ (obs : List Obs) (j : Book) (i : Nat), BkInv j → judgeRun cfg j i obs = none →
      (∀ id ∈ j.offered, id ∈ doneFold j.done obs ∨ id ∈ waitFold (j.waiting.map (·.id)) obs) ∧
      (∀ o ∈ obs, ∀ id p, o.act = .offer id p →
        id ∈ doneFold j.done obs ∨ id ∈ waitFold (j.waiting.map (·.id)) obs) ∧
      (cfg.timeout ≠ 0 → waitFold (j.waiting.map (·.id)) obs = []) := by
  intro obs
  induction obs with
  | nil =>
    intro j i hi h
    unfold judgeRun at h
    have he : endCheck cfg j = none := by
      cases he : endCheck cfg j with
      | none => rfl
      | some v => rw [he] at h; cases h
    obtain ⟨hf, hs, hw⟩ := endCheck_batch hc he
    refine ⟨?_, ?_, ?_⟩
    · intro id hid
      simp only [doneFold, waitFold]
      rcases hi.acc id hid with h | ⟨b, hb, _⟩ | h | h
      · exact .inr h
      · have := (hi.key b hb).1; rw [hs] at this; cases this
      · rw [hf] at h; cases h
      · exact .inl h
    · intro o ho; cases ho
    · intro ht; simp [waitFold, hw ht]
  | cons o rest ih =>
    intro j i hi h
    unfold judgeRun at h
    split at h
    · cases h
    · rename_i j' hj
      obtain ⟨hi', hmono, hnew, hd, hwt⟩ := batch_step hc hj hi
      obtain ⟨h1, h2, h3⟩ := ih j' (i + 1) hi' h
      simp only [doneFold, waitFold]
      rw [hd, hwt] at h1 h2
      rw [hwt] at h3
      refine ⟨fun id hid => h1 id (hmono id hid), ?_, h3⟩
      intro o' ho' id p ha
      simp only [List.mem_cons] at ho'
      rcases ho' with ho' | ho'
      · subst ho'; exact h1 id (hnew id p ha)
      · exact h2 o' ho' id p ha

theorem BkInv.empty : BkInv {} := by
  constructor
  · intro _ h; cases h
  · intro _ h; cases h
  · intro _ h; cases h

/-- **Soundness (no item is stranded, BatchProcessor with a flush timeout; `overlap` either way).** If the judge
accepts a whole transcript including its end check, every id offered in it was delivered at the sink. -/
theorem judge_sound_batch_all_completed (cfg : Cfg) (hc : cfg.comp = .batch) (ht : cfg.timeout ≠ 0)
    (obs : List Obs) (h : judgeRun cfg {} 0 obs = none) :
    ∀ o ∈ obs, ∀ id p, o.act = .offer id p → id ∈ doneFold [] obs := by
  obtain ⟨_, h2, h3⟩ := judge_sound_batch_gen cfg hc obs {} 0 BkInv.empty h
  intro o ho id p ha
  have hw : waitFold [] obs = [] := h3 ht
  rcases h2 o ho id p ha with h | h
  · exact h
  · have h' : id ∈ waitFold [] obs := h
    rw [hw] at h'; cases h'

/-- **Soundness, flush timeout disabled or not:** every offered id was delivered at the sink or is still in
the buffer the transcript ends with (`waitFold`: offers answered `wait` since the last batch start). -/
theorem judge_sound_batch_completed_or_buffered (cfg : Cfg) (hc : cfg.comp = .batch)
    (obs : List Obs) (h : judgeRun cfg {} 0 obs = none) :
    ∀ o ∈ obs, ∀ id p, o.act = .offer id p → id ∈ doneFold [] obs ∨ id ∈ waitFold [] obs :=
  (judge_sound_batch_gen cfg hc obs {} 0 BkInv.empty h).2.1

/-- accepted: a full batch of two; a partial batch flushed by its timeout while batch 0 is in process -/
example : judgeRun { comp := .batch, limit := 2, timeout := 10, overlap := true } {} 0
    [⟨0, .offer 0 none, .wait, [1, 0, 0, 0], false⟩, ⟨1, .offer 1 none, .start, [0, 0, 0, 0], false⟩,
     ⟨2, .offer 2 none, .wait, [1, 0, 0, 0], false⟩, ⟨12, .timeout, .start, [0, 0, 0, 1], false⟩,
     ⟨15, .bfin 0, .dash, [0, 1, 2, 1], false⟩, ⟨15, .done 0, .dash, [0, 1, 2, 1], false⟩,
     ⟨15, .done 1, .dash, [0, 1, 2, 1], false⟩, ⟨20, .bfin 1, .dash, [0, 2, 3, 1], false⟩,
     ⟨20, .done 2, .dash, [0, 2, 3, 1], false⟩] = none := by decide

/-- rejected: the run ends with an item in the buffer although a flush timeout is configured -/
example : judgeRun { comp := .batch, limit := 2, timeout := 10 } {} 0
    [⟨0, .offer 0 none, .wait, [1, 0, 0, 0], false⟩]
    = some "indus/batch/strand/timeout-overdue at-end" := by decide

/-- without a timeout the same transcript is accepted, the item is in the final buffer -/
example : judgeRun { comp := .batch, limit := 2 } {} 0 [⟨0, .offer 0 none, .wait, [1, 0, 0, 0], false⟩] = none ∧
    waitFold [] [⟨0, .offer 0 none, .wait, [1, 0, 0, 0], false⟩] = [0] := by decide

/-! ## (D) the clock never passes a waiting item's flush deadline -/

theorem judge_sound_batch_overdue_gen {cfg : Cfg} {j j' : Book} {o : Obs} (hc : cfg.comp = .batch)
    (hfree : cfg.overlap = true ∨ j.svc.ids = []) (ht : cfg.timeout ≠ 0) (h : judgeObs cfg j o = .ok j')
    (hs : j.started = true) (hl : j.lastT < o.t) {w : WItem} {rest : List WItem} (hw : j.waiting = w :: rest) :
    o.t ≤ w.t + cfg.timeout := by
  have hg := judgeObs_gate h
  unfold strandGate at hg
  simp only [hs, hl, decide_true, Bool.and_self, if_true] at hg
  apply Nat.le_of_not_lt
  intro hlt
  unfold strandCheck at hg
  split at hg
  · cases hg
  · split at hg
    · cases hg
    · simp only [hc] at hg
      split at hg
      · cases hg
      · rcases hfree with hf | hf <;> simp [hw, hf, ht, hlt] at hg

/-- **Soundness (flush deadline, overlapping batches).** No accepted transcript lets the clock pass the flush
deadline of the oldest waiting item, whatever is in process. -/
theorem judge_sound_batch_overdue {cfg : Cfg} {j j' : Book} {o : Obs} (hc : cfg.comp = .batch)
    (hov : cfg.overlap = true) (ht : cfg.timeout ≠ 0) (h : judgeObs cfg j o = .ok j')
    (hs : j.started = true) (hl : j.lastT < o.t) {w : WItem} {rest : List WItem} (hw : j.waiting = w :: rest) :
    o.t ≤ w.t + cfg.timeout :=
  judge_sound_batch_overdue_gen hc (.inl hov) ht h hs hl hw

/-- the same with one batch at a time, while nothing is in process -/
theorem judge_sound_batch_overdue_idle {cfg : Cfg} {j j' : Book} {o : Obs} (hc : cfg.comp = .batch)
    (hidle : j.svc.ids = []) (ht : cfg.timeout ≠ 0) (h : judgeObs cfg j o = .ok j')
    (hs : j.started = true) (hl : j.lastT < o.t) {w : WItem} {rest : List WItem} (hw : j.waiting = w :: rest) :
    o.t ≤ w.t + cfg.timeout :=
  judge_sound_batch_overdue_gen hc (.inr hidle) ht h hs hl hw

/-- rejected: batch 0 is in process, item 2 waits since 2, the clock moves to 13 > 2 + 10 … -/
example : judgeRun { comp := .batch, limit := 2, timeout := 10, overlap := true } {} 0
    [⟨0, .offer 0 none, .wait, [1, 0, 0, 0], false⟩, ⟨1, .offer 1 none, .start, [0, 0, 0, 0], false⟩,
     ⟨2, .offer 2 none, .wait, [1, 0, 0, 0], false⟩, ⟨13, .bfin 0, .dash, [1, 1, 2, 0], false⟩]
    = some "indus/batch/strand/timeout-overdue at-line 3" := by decide

/-- … which the one-batch-at-a-time reading (`overlap := false`) lets pass at that line -/
example : judgeRun { comp := .batch, limit := 2, timeout := 10 } {} 0
    [⟨0, .offer 0 none, .wait, [1, 0, 0, 0], false⟩, ⟨1, .offer 1 none, .start, [0, 0, 0, 0], false⟩,
     ⟨2, .offer 2 none, .wait, [1, 0, 0, 0], false⟩, ⟨13, .bfin 0, .dash, [1, 1, 2, 0], false⟩]
    = some "indus/batch/item-lost at-end" := by decide

end HappyModel.C08.Indus
