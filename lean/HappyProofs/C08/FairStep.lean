import HappyProofs.C08.FairOrder
/-! Fair-share policies, part 4: the per-operation refinement and the run theorem. -/
namespace HappyModel.C08

def Kind.fairB : Kind → Bool
  | .fair => true
  | _ => false

theorem weightOf_pos (c : Cfg) (f : Nat) : 0 < weightOf c f := by
  unfold weightOf; simp only; split <;> omega

/-! ### push -/

theorem pushFair_frel {c : Cfg} (hk : c.kind = .fair) {s : St} {ss : SSt} (h : FRel true s ss) (it : Item) (rd : Bool) :
    (pushFair c s it).2 = (sPushInner c ss it rd).2 ∧
    FRel true (pushFair c s it).1 (sPushInner c ss it rd).1 := by
  unfold pushFair sPushInner
  simp only [hk]
  cases hfind : findFlow s.flows it.flow with
  | none =>
    have he := h.flow_none hfind
    have hlen := sig_length h.sig
    simp only [he, List.isEmpty_nil, if_true, ← hlen]
    cases hcf : capFull c.maxFlows s.flows.length with
    | true => simp only [if_true]; exact ⟨trivial, h.same _ rfl rfl⟩
    | false =>
      simp only [Bool.false_eq_true, if_false]
      exact ⟨trivial, h.new_flow it 1 (by omega) (fun _ => rfl) hfind _ rfl rfl⟩
  | some fl =>
    obtain ⟨he, hne⟩ := h.flow_some hfind
    have hemp : fl.q.isEmpty = false := by
      cases hq : fl.q with
      | nil => exact absurd hq hne
      | cons x xs => rfl
    simp only [he, hemp, Bool.false_eq_true, if_false]
    cases hcf : capFull c.perFlow fl.q.length with
    | true => simp only [if_true]; exact ⟨trivial, h.same _ rfl rfl⟩
    | false =>
      simp only [Bool.false_eq_true, if_false]
      exact ⟨trivial, h.more it hfind _ rfl rfl⟩

theorem pushWfq_frel {c : Cfg} (hk : c.kind = .wfq) {s : St} {ss : SSt} (h : FRel false s ss) (it : Item) (rd : Bool) :
    (pushWfq c s it).2 = (sPushInner c ss it rd).2 ∧
    FRel false (pushWfq c s it).1 (sPushInner c ss it rd).1 := by
  unfold pushWfq sPushInner
  simp only [hk, ← h.total]
  cases hcap : capFull c.cap s.total with
  | true => simp only [if_true]; exact ⟨trivial, h.same _ rfl rfl⟩
  | false =>
    simp only [Bool.false_eq_true, if_false]
    cases hfind : findFlow s.flows it.flow with
    | none =>
      have he := h.flow_none hfind
      simp only [he, List.isEmpty_nil, if_true]
      exact ⟨trivial, h.new_flow it (weightOf c it.flow) (weightOf_pos c _) (fun e => by cases e) hfind _ rfl rfl⟩
    | some fl =>
      obtain ⟨he, hne⟩ := h.flow_some hfind
      have hemp : fl.q.isEmpty = false := by
        cases hq : fl.q with
        | nil => exact absurd hq hne
        | cons x xs => rfl
      simp only [he, hemp, Bool.false_eq_true, if_false]
      cases hcf : capFull c.perFlow fl.q.length with
      | true => simp only [if_true]; exact ⟨trivial, h.same _ rfl rfl⟩
      | false =>
        simp only [Bool.false_eq_true, if_false]
        exact ⟨trivial, h.more it hfind _ rfl rfl⟩


theorem push_frel {c : Cfg} {fair : Bool} (hk : (c.kind = .fair ∧ fair = true) ∨ (c.kind = .wfq ∧ fair = false))
    {s : St} {ss : SSt} (h : FRel fair s ss) (it : Item) (coin rd : Bool) :
    (push c s it coin rd).2 = (sPush c ss it coin rd).2 ∧ FRel fair (push c s it coin rd).1 (sPush c ss it coin rd).1 := by
  have hl : len c s = ss.held.length := by
    rw [← h.total]; unfold len; rcases hk with ⟨hk, _⟩ | ⟨hk, _⟩ <;> simp [hk]
  have inner : (pushInner c s it rd).2 = (sPushInner c ss it rd).2 ∧
      FRel fair (pushInner c s it rd).1 (sPushInner c ss it rd).1 := by
    unfold pushInner
    rcases hk with ⟨hk, hf⟩ | ⟨hk, hf⟩
    · subst hf; simp only [hk]; exact pushFair_frel hk h it rd
    · subst hf; simp only [hk]; exact pushWfq_frel hk h it rd
  unfold push sPush
  cases hb : c.balk with
  | none => simpa using inner
  | some t =>
    simp only [hl]
    by_cases hc : (decide (t ≤ ss.held.length) && coin) = true
    · simp only [hc, if_true]; exact ⟨trivial, h.same _ rfl rfl⟩
    · simp only [hc]; simpa using inner

/-! ### pop -/

theorem act_nil_of_flows_nil {fair : Bool} {s : St} {ss : SSt} (h : FRel fair s ss) (hf : s.flows = []) : ss.act = [] := by
  have := sig_length h.sig
  rw [hf] at this
  exact List.eq_nil_of_length_eq_zero this.symm

theorem sPop_fair_empty {c : Cfg} (hk : c.kind = .fair ∨ c.kind = .wfq) {ss : SSt} (ha : ss.act = []) (now k : Nat) :
    sPop c ss now k = (ss, none) := by
  unfold sPop
  rcases hk with hk | hk <;> simp [hk, ha, minAct]

/-- the specification's pop on a backlogged queue, with the head facts plugged in -/
theorem sPop_fair_head {c : Cfg} (hk : c.kind = .fair ∨ c.kind = .wfq) {ss : SSt} {fl : FlowSt} {rest : List FlowSt}
    {it : Item} {q' : List Item} {a : Act} {as : List Act} (hf : HeadFacts ss fl rest it q' a as) (now k : Nat) :
    sPop c ss now k =
      (serveAct { ss with held := removeFirst (·.flow == a.fid) ss.held, deq := ss.deq + 1 } a (!q'.isEmpty), some it) := by
  unfold sPop
  rcases hk with hk | hk <;> simp only [hk, hf.min, hf.find, hf.any]

theorem popFair_frel {c : Cfg} (hk : c.kind = .fair) {s : St} {ss : SSt} (h : FRel true s ss) (now k : Nat) :
    (popFair (s.flows.length + 1) s).2 = (sPop c ss now k).2 ∧
    FRel true (popFair (s.flows.length + 1) s).1 (sPop c ss now k).1 := by
  unfold popFair
  cases hfl : s.flows with
  | nil =>
    rw [sPop_fair_empty (Or.inl hk) (act_nil_of_flows_nil h hfl)]
    exact ⟨rfl, h⟩
  | cons fl rest =>
    simp only
    cases hq : fl.q with
    | nil => exact absurd hq (h.nonempty fl (by rw [hfl]; exact List.mem_cons_self))
    | cons it q' =>
      obtain ⟨a, as, hf⟩ := h.head hfl hq
      have hone := h.one rfl fl (by rw [hfl]; exact List.mem_cons_self)
      have hsig := hf.asig; simp only [sig3, asig3, Prod.mk.injEq] at hsig
      rw [sPop_fair_head (Or.inl hk) hf]
      simp only
      cases hq' : q' with
      | nil =>
        subst hq'
        simp only [List.isEmpty_nil, if_true]
        refine ⟨by first | rfl | trivial, h.pop_gone hfl hf _ _ rfl rfl ?_ ?_ ?_⟩
        · simp [serveAct]
        · simp [serveAct, hf.others]
        · simp [serveAct]
      | cons y ys =>
        rw [← hq']
        have hne : q' ≠ [] := by rw [hq']; simp
        have hemp : q'.isEmpty = false := by rw [hq']; rfl
        simp only [hemp, Bool.false_eq_true, if_false]
        refine ⟨by first | rfl | trivial, h.pop_rotate hfl hf hne { fl with q := q' } rfl rfl rfl (by simp [hone.1, hone.2]) _ _ rfl rfl ?_ ?_ ?_⟩
        · simp [serveAct]; split <;> rfl
        · have hc : a.credits ≤ 1 := by omega
          simp [serveAct, hf.others, hc]
        · have hc : a.credits ≤ 1 := by omega
          simp [serveAct, hc]

theorem popWfq_frel {c : Cfg} (hk : c.kind = .wfq) {s : St} {ss : SSt} (h : FRel false s ss) (now k : Nat) :
    (popWfq (2 * s.flows.length) s).2 = (sPop c ss now k).2 ∧
    FRel false (popWfq (2 * s.flows.length) s).1 (sPop c ss now k).1 := by
  cases hfl : s.flows with
  | nil =>
    rw [sPop_fair_empty (Or.inr hk) (act_nil_of_flows_nil h hfl)]
    simp only [List.length_nil, Nat.mul_zero, popWfq]
    exact ⟨trivial, h⟩
  | cons fl rest =>
    have hfuel : 2 * (fl :: rest).length = (2 * rest.length + 1) + 1 := by simp; omega
    rw [hfuel]
    unfold popWfq
    simp only [hfl]
    cases hq : fl.q with
    | nil => exact absurd hq (h.nonempty fl (by rw [hfl]; exact List.mem_cons_self))
    | cons it q' =>
      obtain ⟨a, as, hf⟩ := h.head hfl hq
      have hcr := h.credits fl (by rw [hfl]; exact List.mem_cons_self)
      have hsig := hf.asig; simp only [sig3, asig3, Prod.mk.injEq] at hsig
      rw [sPop_fair_head (Or.inr hk) hf]
      simp only [hcr.1, if_true]
      cases hq' : q' with
      | nil =>
        subst hq'
        simp only [List.isEmpty_nil, if_true]
        refine ⟨by first | rfl | trivial, h.pop_gone hfl hf _ _ rfl rfl ?_ ?_ ?_⟩
        · simp [serveAct]
        · simp [serveAct, hf.others]
        · simp [serveAct]
      | cons y ys =>
        rw [← hq']
        have hne : q' ≠ [] := by rw [hq']; simp
        have hemp : q'.isEmpty = false := by rw [hq']; rfl
        simp only [hemp, Bool.false_eq_true, if_false]
        by_cases hex : fl.credits - 1 = 0
        · have hc : a.credits ≤ 1 := by omega
          simp only [hex, decide_true, if_true]
          refine ⟨by first | rfl | trivial, h.pop_rotate hfl hf hne ⟨fl.fid, q', fl.weight, fl.weight⟩ rfl rfl rfl rfl _ _ rfl rfl ?_ ?_ ?_⟩
          · simp [serveAct]; split <;> rfl
          · simp [serveAct, hf.others, hc]
          · simp [serveAct, hc]
        · have hc : ¬ a.credits ≤ 1 := by omega
          simp only [hex, decide_false, Bool.false_eq_true, if_false]
          refine ⟨by first | rfl | trivial, h.pop_stay hfl hf hne (by omega) ⟨fl.fid, q', fl.weight, fl.credits - 1⟩ rfl rfl rfl rfl _ _ rfl rfl ?_ ?_ ?_⟩
          · simp [serveAct, hc]
          · have hnd : ((a :: as).map (·.fid)).Nodup := by
              have := sig_fids h.sig; rw [hfl, hf.act] at this; rw [← this]
              have := h.nodup; rw [hfl] at this; exact this
            have hn : a.fid ∉ as.map (·.fid) := (List.nodup_cons.mp hnd).1
            have hmap : as.map (fun b => if (b.fid == a.fid) = true then { b with credits := b.credits - 1 } else b) = as := by
              calc as.map (fun b => if (b.fid == a.fid) = true then { b with credits := b.credits - 1 } else b)
                  = as.map id := by
                    apply List.map_congr_left
                    intro b hb
                    have : b.fid ≠ a.fid := fun e => hn (by rw [← e]; exact List.mem_map_of_mem hb)
                    have hb' : (b.fid == a.fid) = false := by simpa using this
                    simp [hb']
                _ = as := by simp
            simp only [beq_iff_eq] at hmap
            simp [serveAct, hc, hf.act, hmap]
          · simp [serveAct, hc]

theorem pop_frel {c : Cfg} {fair : Bool} (hk : (c.kind = .fair ∧ fair = true) ∨ (c.kind = .wfq ∧ fair = false))
    {s : St} {ss : SSt} (h : FRel fair s ss) (now k : Nat) :
    (pop c s now k).2 = (sPop c ss now k).2 ∧ FRel fair (pop c s now k).1 (sPop c ss now k).1 := by
  unfold pop
  rcases hk with ⟨hk, hf⟩ | ⟨hk, hf⟩
  · subst hf; simp only [hk]; exact popFair_frel hk h now k
  · subst hf; simp only [hk]; exact popWfq_frel hk h now k


/-! ### peek, accessors, purge -/

theorem peek_frel {c : Cfg} {fair : Bool} (hk : c.kind = .fair ∨ c.kind = .wfq)
    {s : St} {ss : SSt} (h : FRel fair s ss) (now : Nat) : peek c s now = sChoose c ss now := by
  have hp : peek c s now = (s.flows.find? fun fl => !fl.q.isEmpty).bind (·.q.head?) := by
    unfold peek; rcases hk with hk | hk <;> simp [hk]
  have hs : sChoose c ss now = (match minAct ss.act with
      | none => none
      | some a => ss.held.find? (·.flow == a.fid)) := by
    unfold sChoose; rcases hk with hk | hk <;> (simp only [hk]; try rfl)
  rw [hp, hs]
  cases hfl : s.flows with
  | nil => rw [act_nil_of_flows_nil h hfl]; simp [minAct]
  | cons fl rest =>
    cases hq : fl.q with
    | nil => exact absurd hq (h.nonempty fl (by rw [hfl]; exact List.mem_cons_self))
    | cons it q' =>
      obtain ⟨a, as, hf⟩ := h.head hfl hq
      simp [hf.min, hf.find, hq]

theorem flowDepth_eq (fs : List FlowSt) (f : Nat) : flowDepth fs f = (flowQ fs f).length := by
  unfold flowDepth flowQ; cases findFlow fs f <;> rfl

theorem weight_lookup (d f : Nat) : ∀ (fs : List FlowSt) (as : List Act), fs.map sig3 = as.map asig3 →
    (match findFlow fs f with | some fl => fl.weight | none => d) =
    (match as.find? (·.fid == f) with | some a => a.weight | none => d)
  | [], [], _ => by simp [findFlow]
  | [], _ :: _, h => by simp at h
  | _ :: _, [], h => by simp at h
  | fl :: fs, a :: as, h => by
    simp only [List.map_cons, List.cons.injEq] at h
    obtain ⟨h1, h2⟩ := h
    simp only [sig3, asig3, Prod.mk.injEq] at h1
    have ih := weight_lookup d f fs as h2
    rw [findFlow_cons, List.find?_cons]
    by_cases hf : fl.fid = f
    · have : (a.fid == f) = true := by rw [← h1.1]; simpa using hf
      simp [hf, this, h1.2.1]
    · have : (a.fid == f) = false := by rw [← h1.1]; simpa using hf
      simp only [hf, if_false, this]
      exact ih

theorem query_frel {c : Cfg} {fair : Bool} (hk : c.kind = .fair ∨ c.kind = .wfq)
    {s : St} {ss : SSt} (h : FRel fair s ss) (now f : Nat) : query c s now f = sQuery c ss now f := by
  have hlen := sig_length h.sig
  unfold query sQuery
  rcases hk with hk | hk
  · simp only [hk]; rw [flowDepth_eq, h.qs f, hlen]
  · simp only [hk]; rw [flowDepth_eq, h.qs f, hlen]
    have hw := weight_lookup (c.weights.getD f 1) f s.flows ss.act h.sig
    have : ∀ (A B x y : Nat), x = y → [A, B, x] = [A, B, y] := by intro A B x y e; rw [e]
    exact this _ _ _ _ hw

theorem purge_frel {c : Cfg} (hk : c.kind = .fair ∨ c.kind = .wfq) (s : St) (ss : SSt) (now : Nat) :
    purge c s now = (s, 0) ∧ sPurge c ss now = (ss, 0) := by
  unfold purge sPurge; rcases hk with hk | hk <;> simp [hk]

theorem step_frel {c : Cfg} {fair : Bool} (hk : (c.kind = .fair ∧ fair = true) ∨ (c.kind = .wfq ∧ fair = false))
    {s : St} {ss : SSt} (h : FRel fair s ss) (o : Op) :
    (step c s o).2 = (sStep c ss o).2 ∧ FRel fair (step c s o).1 (sStep c ss o).1 := by
  have hk' : c.kind = .fair ∨ c.kind = .wfq := by rcases hk with ⟨hk, _⟩ | ⟨hk, _⟩ <;> simp [hk]
  cases o with
  | push it now coin rd =>
    have := push_frel hk h it coin rd
    exact ⟨by simp [step, sStep, this.1], this.2⟩
  | pop now k =>
    have := pop_frel hk h now k
    exact ⟨by simp [step, sStep, this.1], this.2⟩
  | peek now => exact ⟨by simp [step, sStep, peek_frel hk' h now], h⟩
  | purge now =>
    have := purge_frel hk' s ss now
    exact ⟨by simp [step, sStep, this.1, this.2], by simpa [step, sStep, this.1, this.2] using h⟩
  | query now f => exact ⟨by simp [step, sStep, query_frel hk' h now f], h⟩

/-- the fair-share model answers like the list specification, operation for operation -/
theorem run_frel {c : Cfg} {fair : Bool} (hk : (c.kind = .fair ∧ fair = true) ∨ (c.kind = .wfq ∧ fair = false)) :
    ∀ (ops : List Op) (s : St) (ss : SSt), FRel fair s ss → (run c s ops).map (·.1) = (sRun c ss ops).map (·.1)
  | [], _, _, _ => rfl
  | o :: os, s, ss, h => by
    have := step_frel hk h o
    simp only [run, sRun, List.map_cons, this.1]
    rw [run_frel hk os _ _ this.2]

end HappyModel.C08
