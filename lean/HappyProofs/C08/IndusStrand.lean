import HappyModel.C08.IndusModel
import HappyProofs.C08.IndusProps
/-!
# C08 part 3 — BatchProcessor: no item is stranded in the buffer

(A) model: a non-empty buffer always has its flush timer armed for the head item's deadline;
(B) model: a due flush timeout starts the batch whatever else is in process;
(C) judge: an accepted transcript (flush timeout configured) delivers every offered id at the sink;
(D) judge: no accepted transcript lets the clock pass a waiting item's flush deadline.
-/
namespace HappyModel.C08.Indus

/-! ## (A) the model keeps the timer armed while the buffer is partial -/

def TInv (cfg : Cfg) (s : MSt) : Prop :=
  (s.queue = [] → s.timer = none) ∧
  (∀ w rest, s.queue = w :: rest → cfg.timeout ≠ 0 → s.timer = some (w.t + cfg.timeout))

theorem processBatch_tinv (cfg : Cfg) (s : MSt) : TInv cfg (processBatch s) := by
  unfold TInv processBatch
  constructor
  · intro _; rfl
  · intro w rest h; simp at h

theorem stepBatch_tinv (cfg : Cfg) (s : MSt) (t : Nat) (a : Act) (h : TInv cfg s) :
    TInv cfg (stepBatch cfg s t a).1 := by
  obtain ⟨h1, h2⟩ := h
  cases a with
  | offer id p =>
    have harm : ((s.queue ++ [(⟨id, t, none⟩ : WItem)]).length == 1 && cfg.timeout != 0) = true →
        TInv cfg { s with queue := s.queue ++ [⟨id, t, none⟩], accepted := s.accepted + 1,
                          timer := some (t + cfg.timeout) } := by
      intro hc
      have hq : s.queue = [] := by
        cases hq : s.queue with
        | nil => rfl
        | cons w r => simp [hq] at hc
      constructor
      · intro h; simp at h
      · intro w rest h _
        simp [hq] at h
        obtain ⟨hw, _⟩ := h
        subst hw; rfl
    have hkeep : ¬ ((s.queue ++ [(⟨id, t, none⟩ : WItem)]).length == 1 && cfg.timeout != 0) = true →
        TInv cfg { s with queue := s.queue ++ [⟨id, t, none⟩], accepted := s.accepted + 1 } := by
      intro hc
      constructor
      · intro h; simp at h
      · intro w rest h ht
        cases hq : s.queue with
        | nil => simp [hq, ht] at hc
        | cons w' r' =>
          simp [hq] at h
          obtain ⟨hw, _⟩ := h
          subst hw
          exact h2 _ _ hq ht
    simp only [stepBatch]
    repeat' split
    all_goals first
      | exact processBatch_tinv _ _
      | (apply harm; assumption)
      | (apply hkeep; assumption)
  | timeout =>
    simp only [stepBatch]
    repeat' split
    · exact ⟨h1, h2⟩
    · rename_i _ hq
      constructor
      · intro _; rfl
      · intro w rest h; simp at hq; simp [hq] at h
    · exact processBatch_tinv _ _
  | bfin k =>
    simp only [stepBatch]
    split
    · exact ⟨h1, h2⟩
    · exact ⟨h1, h2⟩
  | done id =>
    simp only [stepBatch]
    unfold sinkStep
    split <;> exact ⟨h1, h2⟩
  | _ => simp only [stepBatch]; exact ⟨h1, h2⟩

/-- **A partial batch always has its flush timer armed (BatchProcessor model, both variants).** Along every
schedule: an empty buffer has no timer, and a non-empty buffer (timeout configured) has the timer set to the
offer instant of its oldest item plus the timeout — late arrivals never move it, a stale timeout never
clears it. -/
theorem batch_partial_has_timer (cfg : Cfg) (hc : cfg.comp = .batch) (acts : List (Nat × Act)) :
    ((run cfg (init cfg) acts).queue = [] → (run cfg (init cfg) acts).timer = none) ∧
    (∀ w rest, (run cfg (init cfg) acts).queue = w :: rest → cfg.timeout ≠ 0 →
      (run cfg (init cfg) acts).timer = some (w.t + cfg.timeout)) := by
  have : TInv cfg (run cfg (init cfg) acts) := by
    apply run_inv (TInv cfg)
    · intro s t a h; simp only [step, hc]; exact stepBatch_tinv cfg s t a h
    · constructor
      · intro _; rfl
      · intro w rest h; simp [init] at h
  exact this

/-- non-vacuity: a second arrival leaves the timer at the first item's deadline; a stale timeout is refused;
the current code with batch size one arms the timer as well -/
example :
    let acts : List (Nat × Act) := [(0, .offer 0 none), (3, .offer 1 none), (3, .timeout)]
    let s := run { comp := .batch, limit := 3, timeout := 4 } (init {}) acts
    let s' := run { comp := .batch, limit := 3, timeout := 4, repaired := false } (init {}) acts
    let s1 := run { comp := .batch, limit := 1, timeout := 4, repaired := false } (init {}) [(2, .offer 0 none)]
    (s.queue.map (·.id), s.timer) = ([0, 1], some 4) ∧ (s'.queue.map (·.id), s'.timer) = ([0, 1], some 4) ∧
    (s1.queue.map (·.id), s1.timer) = ([0], some 6) := by decide

/-! ## (B) a due timeout flushes the buffer -/

/-- **A due flush timeout starts the batch (BatchProcessor model), whatever is in process.** -/
theorem batch_due_timeout_flushes (cfg : Cfg) (hc : cfg.comp = .batch) (s : MSt) (t : Nat)
    (ht : s.timer = some t) (hq : s.queue ≠ []) :
    (step cfg s t .timeout).2 = .start ∧ (step cfg s t .timeout).1.queue = [] ∧
    (s.nextBatch, s.queue.map (·.id)) ∈ (step cfg s t .timeout).1.batches ∧
    (step cfg s t .timeout).1.timeouts = s.timeouts + 1 ∧
    (step cfg s t .timeout).1.active = s.active ++ [s.nextBatch] ∧
    (step cfg s t .timeout).1.timer = none := by
  have he : s.queue.isEmpty = false := by
    cases hs : s.queue with
    | nil => exact absurd hs hq
    | cons w r => rfl
  simp [step, hc, stepBatch, ht, he, processBatch]

example :
    let s : MSt := { queue := [⟨5, 0, none⟩, ⟨6, 1, none⟩], timer := some 4, active := [0], nextBatch := 1,
                     batches := [(0, [1, 2])] }
    (step { comp := .batch, limit := 3, timeout := 4 } s 4 .timeout).2 = .start ∧
    (step { comp := .batch, limit := 3, timeout := 4 } s 4 .timeout).1.batches = [(0, [1, 2]), (1, [5, 6])] ∧
    (step { comp := .batch, limit := 3, timeout := 4 } s 3 .timeout).2 = .err := by decide

/-! ## (C) the judge: an accepted transcript delivers every offered id -/

/-- what the book of an accepted batch transcript keeps: every offered id is somewhere; the batches in
process are keyed by distinct batch numbers that are in service -/
structure BkInv (j : Book) : Prop where
  acc : ∀ id ∈ j.offered, id ∈ j.waiting.map (·.id) ∨ (∃ b ∈ j.batches, id ∈ b.2) ∨ id ∈ j.finished ∨ id ∈ j.done
  key : ∀ b ∈ j.batches, b.1 ∈ j.svc.ids ∧ b.1 < j.svc.next
  uniq : ∀ b ∈ j.batches, ∀ b' ∈ j.batches, b.1 = b'.1 → b = b'

theorem finishObs_eq {cfg : Cfg} {j j1 j' : Book} {o : Obs} (h : finishObs cfg j j1 o = .ok j') :
    j' = { j1 with svc := svcStep cfg.comp j.svc o, done := doneStep j.done o, lastT := o.t, started := true } := by
  unfold finishObs at h
  split at h
  · cases h
  · split at h
    · cases h
    · cases h; rfl

theorem judgeObs_gate {cfg : Cfg} {j j' : Book} {o : Obs} (h : judgeObs cfg j o = .ok j') :
    strandGate cfg j o = none := by
  unfold judgeObs at h
  split at h
  · cases h
  split at h
  · cases h
  split at h
  · cases h
  split at h
  · cases h
  · assumption

/-- starting a batch from the waiting list keeps the invariant -/
theorem BkInv.start {j : Book} (hi : BkInv j) (off : List Nat) (ids : List Nat) (d : List Nat)
    (hoff : ∀ id ∈ off, id ∈ j.offered ∨ id ∈ ids) (hw : ∀ id ∈ j.waiting.map (·.id), id ∈ ids)
    (a c t : Nat) (lt : Nat) (st : Bool) (hd : d = j.done) :
    BkInv { j with offered := off, accepted := a, timeouts := t, completed := c,
                   batches := j.batches ++ [(j.svc.next, ids)], waiting := [],
                   svc := { ids := j.svc.ids ++ [j.svc.next], next := j.svc.next + 1 },
                   done := d, lastT := lt, started := st } := by
  subst hd
  constructor
  · intro id hid
    simp only at hid ⊢
    rcases hoff id hid with h | h
    · rcases hi.acc id h with h | ⟨b, hb, h⟩ | h | h
      · exact .inr (.inl ⟨(j.svc.next, ids), by simp, hw id h⟩)
      · exact .inr (.inl ⟨b, by simp [hb], h⟩)
      · exact .inr (.inr (.inl h))
      · exact .inr (.inr (.inr h))
    · exact .inr (.inl ⟨(j.svc.next, ids), by simp, h⟩)
  · intro b hb
    simp only [List.mem_append, List.mem_singleton] at hb ⊢
    rcases hb with hb | hb
    · have := hi.key b hb
      exact ⟨.inl this.1, by omega⟩
    · subst hb; exact ⟨.inr rfl, by simp⟩
  · intro b hb b' hb' he
    simp only [List.mem_append, List.mem_singleton] at hb hb'
    rcases hb with hb | hb <;> rcases hb' with hb' | hb'
    · exact hi.uniq b hb b' hb' he
    · subst hb'; have := (hi.key b hb).2; simp at he; omega
    · subst hb; have := (hi.key b' hb').2; simp at he; omega
    · subst hb; subst hb'; rfl

/-- the buffer as a function of the observations only -/
def waitStep (w : List Nat) (o : Obs) : List Nat :=
  match o.act, o.res with
  | .offer id _, .wait => w ++ [id]
  | .offer _ _, .start => []
  | .timeout, .start => []
  | _, _ => w

def waitFold : List Nat → List Obs → List Nat
  | w, [] => w
  | w, o :: r => waitFold (waitStep w o) r

/-- a step that starts no batch and ends none: items only move towards `done` -/
theorem BkInv.move {j : Book} (hi : BkInv j) (j2 : Book) (hs : j2.svc = j.svc) (hb : j2.batches = j.batches)
    (hacc : ∀ id ∈ j2.offered, id ∈ j2.waiting.map (·.id) ∨ (∃ b ∈ j.batches, id ∈ b.2) ∨ id ∈ j2.finished ∨ id ∈ j2.done) :
    BkInv j2 := by
  constructor
  · rw [hb]; exact hacc
  · rw [hb, hs]; exact hi.key
  · rw [hb]; exact hi.uniq

theorem judgeBatch_step {cfg : Cfg} {j j1 : Book} {o : Obs} (lt : Nat) (st : Bool)
    (hact : judgeBatch cfg j o = .ok j1) (hi : BkInv j) :
    BkInv { j1 with svc := svcStep .batch j.svc o, done := doneStep j.done o, lastT := lt, started := st } ∧
    (∀ id ∈ j.offered, id ∈ j1.offered) ∧ (∀ id p, o.act = .offer id p → id ∈ j1.offered) ∧
    j1.waiting.map (·.id) = waitStep (j.waiting.map (·.id)) o := by
  unfold judgeBatch at hact
  cases ha : o.act with
  | offer id p =>
    simp only [ha] at hact
    split at hact
    · cases hact
    · split at hact
      · rename_i hr
        cases hact
        simp only [svcStep, doneStep, waitStep, ha, hr]
        refine ⟨hi.move _ rfl rfl ?_, ?_, ?_, by simp⟩
        · intro x hx
          simp only [List.mem_cons] at hx
          rcases hx with hx | hx
          · left; simp [hx]
          · rcases hi.acc x hx with h | h | h | h
            · left; simp only [List.map_append, List.mem_append]; exact .inl h
            · exact .inr (.inl h)
            · exact .inr (.inr (.inl h))
            · exact .inr (.inr (.inr h))
        · intro x hx; exact List.mem_cons_of_mem _ hx
        · intro x q hq; cases hq; exact List.mem_cons_self
      · rename_i hr
        split at hact
        · cases hact
        · split at hact
          · cases hact
          · cases hact
            simp only [svcStep, doneStep, waitStep, ha, hr]
            refine ⟨BkInv.start hi (id :: j.offered) _ _ ?_ ?_ _ _ _ _ _ rfl, ?_, ?_, by simp⟩
            · intro x hx
              simp only [List.mem_cons] at hx
              rcases hx with hx | hx
              · right; simp [hx]
              · exact .inl hx
            · intro x hx; simp only [List.mem_append]; exact .inl hx
            · intro x hx; exact List.mem_cons_of_mem _ hx
            · intro x q hq; cases hq; exact List.mem_cons_self
      · cases hact
  | timeout =>
    simp only [ha] at hact
    split at hact
    · rename_i hr
      cases hact
      simp only [svcStep, doneStep, waitStep, ha, hr]
      refine ⟨hi.move _ rfl rfl hi.acc, ?_, ?_, ?_⟩
      · intro _ h; exact h
      · intro _ _ h; cases h
      · first | trivial | rfl
    · rename_i hr
      split at hact
      · cases hact
      · rename_i w rest hw
        split at hact
        · cases hact
        · cases hact
          simp only [svcStep, doneStep, waitStep, ha, hr]
          refine ⟨BkInv.start hi j.offered _ _ ?_ ?_ _ _ _ _ _ rfl, ?_, ?_, ?_⟩
          · intro x hx; exact .inl hx
          · intro x hx; simpa [hw] using hx
          · intro _ h; exact h
          · intro _ _ h; cases h
          · first | trivial | rfl | simp
    · cases hact
  | bfin k =>
    simp only [ha] at hact
    split at hact
    · cases hact
    · rename_i k' ids hf
      split at hact
      · cases hact
      · cases hact
        have hm : (k', ids) ∈ j.batches := List.mem_of_find?_eq_some hf
        have hk : k' = k := by
          have := List.find?_some (p := fun b : Nat × List Nat => b.1 == k) hf
          simpa using this
        simp only [svcStep, doneStep, waitStep, ha]
        refine ⟨⟨?_, ?_, ?_⟩, ?_, ?_, ?_⟩
        rotate_left 3
        · intro _ h; exact h
        · intro _ _ h; cases h
        · first | trivial | rfl
        · intro x hx
          rcases hi.acc x hx with h | ⟨b, hb, h⟩ | h | h
          · exact .inl h
          · by_cases hb1 : b.1 = k
            · have := hi.uniq b hb (k', ids) hm (by simp [hb1, hk])
              subst this
              exact .inr (.inr (.inl (by simp only [List.mem_append]; exact .inr h)))
            · exact .inr (.inl ⟨b, by simp [List.mem_filter, hb, hb1], h⟩)
          · exact .inr (.inr (.inl (by simp only [List.mem_append]; exact .inl h)))
          · exact .inr (.inr (.inr h))
        · intro b hb
          simp only [List.mem_filter, bne_iff_ne, ne_eq] at hb
          have := hi.key b hb.1
          exact ⟨(List.mem_erase_of_ne hb.2).mpr this.1, this.2⟩
        · intro b hb b' hb'
          simp only [List.mem_filter] at hb hb'
          exact hi.uniq b hb.1 b' hb'.1
  | done id =>
    simp only [ha] at hact
    unfold judgeDone at hact
    repeat' split at hact
    all_goals try cases hact
    simp only [svcStep, doneStep, waitStep, ha]
    refine ⟨hi.move _ rfl rfl ?_, ?_, ?_, ?_⟩
    rotate_left 1
    · intro _ h; exact h
    · intro _ _ h; cases h
    · first | trivial | rfl
    intro x hx
    rcases hi.acc x hx with h | h | h | h
    · exact .inl h
    · exact .inr (.inl h)
    · by_cases hxi : x = id
      · exact .inr (.inr (.inr (by simp [hxi])))
      · exact .inr (.inr (.inl ((List.mem_erase_of_ne hxi).mpr h)))
    · exact .inr (.inr (.inr (List.mem_cons_of_mem _ h)))
  | _ => simp only [ha] at hact; cases hact

theorem batch_step {cfg : Cfg} {j j' : Book} {o : Obs} (hc : cfg.comp = .batch)
    (h : judgeObs cfg j o = .ok j') (hi : BkInv j) :
    BkInv j' ∧ (∀ id ∈ j.offered, id ∈ j'.offered) ∧ (∀ id p, o.act = .offer id p → id ∈ j'.offered) ∧
    j'.done = doneStep j.done o ∧ j'.waiting.map (·.id) = waitStep (j.waiting.map (·.id)) o := by
  obtain ⟨j1, hact, hf⟩ := judgeObs_ok h
  have hj' := finishObs_eq hf
  subst hj'
  unfold judgeAct at hact
  simp only [hc] at hact ⊢
  obtain ⟨h1, h2, h3, h4⟩ := judgeBatch_step o.t true hact hi
  exact ⟨h1, h2, h3, by first | trivial | rfl, h4⟩

end HappyModel.C08.Indus
