import HappyProofs.C08.Order
import HappyProofs.C08.SpecHeld
/-!
One relation for every policy: the order-refinement relations of `Order.lean` (positional policies),
`KeyOrder.lean` (priority, deadline) and `FairRel.lean` (fair, weighted fair) under one name, with
what the pipeline proofs need from them: a push / a pop of the model answers like the list
specification and keeps the relation, the model's `len` is the number of held items, the ids the
model holds are the ids of the held list, and a pop that returns nothing found nothing held.
-/
namespace HappyModel.C08

def PolRel (p : Cfg) (s : St) (ss : SSt) : Prop :=
  (p.kind.positional = true ∧ Rel s ss) ∨ (p.kind.keyed = true ∧ KRel s ss) ∨
  (p.kind = .fair ∧ FRel true s ss) ∨ (p.kind = .wfq ∧ FRel false s ss)

theorem polrel_init (p : Cfg) : PolRel p {} {} := by
  unfold PolRel
  cases hk : p.kind
  case prio | deadline => exact Or.inr (Or.inl ⟨rfl, krel_init⟩)
  case fair => exact Or.inr (Or.inr (Or.inl ⟨rfl, frel_init true⟩))
  case wfq => exact Or.inr (Or.inr (Or.inr ⟨rfl, frel_init false⟩))
  all_goals exact Or.inl ⟨rfl, rfl⟩

theorem polrel_push {p : Cfg} {s : St} {ss : SSt} (h : PolRel p s ss) (it : Item) (coin rd : Bool) :
    (push p s it coin rd).2 = (sPush p ss it coin rd).2 ∧
    PolRel p (push p s it coin rd).1 (sPush p ss it coin rd).1 := by
  rcases h with ⟨hk, h⟩ | ⟨hk, h⟩ | ⟨hk, h⟩ | ⟨hk, h⟩
  · have := push_refines hk h it coin rd
    exact ⟨this.1, Or.inl ⟨hk, this.2⟩⟩
  · have := push_krel hk h it coin rd
    exact ⟨this.1, Or.inr (Or.inl ⟨hk, this.2⟩)⟩
  · have := push_frel (Or.inl ⟨hk, rfl⟩) h it coin rd
    exact ⟨this.1, Or.inr (Or.inr (Or.inl ⟨hk, this.2⟩))⟩
  · have := push_frel (Or.inr ⟨hk, rfl⟩) h it coin rd
    exact ⟨this.1, Or.inr (Or.inr (Or.inr ⟨hk, this.2⟩))⟩

theorem polrel_pop {p : Cfg} {s : St} {ss : SSt} (h : PolRel p s ss) (now k : Nat) :
    (pop p s now k).2 = (sPop p ss now k).2 ∧ PolRel p (pop p s now k).1 (sPop p ss now k).1 := by
  rcases h with ⟨hk, h⟩ | ⟨hk, h⟩ | ⟨hk, h⟩ | ⟨hk, h⟩
  · have := pop_refines hk h now k
    exact ⟨this.1, Or.inl ⟨hk, this.2⟩⟩
  · have := pop_krel hk h now k
    exact ⟨this.1, Or.inr (Or.inl ⟨hk, this.2⟩)⟩
  · have := pop_frel (Or.inl ⟨hk, rfl⟩) h now k
    exact ⟨this.1, Or.inr (Or.inr (Or.inl ⟨hk, this.2⟩))⟩
  · have := pop_frel (Or.inr ⟨hk, rfl⟩) h now k
    exact ⟨this.1, Or.inr (Or.inr (Or.inr ⟨hk, this.2⟩))⟩

theorem polrel_len {p : Cfg} {s : St} {ss : SSt} (h : PolRel p s ss) : len p s = ss.held.length := by
  rcases h with ⟨hk, h⟩ | ⟨hk, h⟩ | ⟨hk, h⟩ | ⟨hk, h⟩
  · rw [len_q (positional_notFlow hk), ← h]; simp
  · rw [len_q (keyed_notFlow hk), ← h.held]; simp
  · rw [len_total (by simp [Kind.isFlow, hk]), h.total]
  · rw [len_total (by simp [Kind.isFlow, hk]), h.total]

/-! ### the ids a policy holds -/

/-- ids of the items waiting in the policy: the deque / heap contents, or the per-flow deques -/
def waitIds (p : Cfg) (s : St) : List Nat :=
  if p.kind.isFlow then s.flows.flatMap (fun fl => fl.q.map (·.id)) else s.q.map (·.item.id)

theorem held_nil_of_filters {held : List Item} (h : ∀ f, held.filter (·.flow == f) = []) : held = [] := by
  cases held with
  | nil => rfl
  | cons x xs => have := h x.flow; simp at this

/-- the per-flow deques together hold exactly the held items -/
theorem flows_perm : ∀ (fs : List FlowSt) (held : List Item), (fs.map (·.fid)).Nodup →
    (∀ f, flowQ fs f = held.filter (·.flow == f)) → (fs.flatMap (·.q)).Perm held
  | [], held, _, hq => by
    have : held = [] := held_nil_of_filters fun f => by rw [← hq f]; rfl
    subst this; exact List.Perm.refl _
  | fl :: rest, held, hn, hq => by
    obtain ⟨hnot, hn'⟩ := List.nodup_cons.mp hn
    have hself : held.filter (·.flow == fl.fid) = fl.q := by rw [← hq fl.fid, flowQ_cons]; simp
    have ih := flows_perm rest (held.filter fun x => !(x.flow == fl.fid)) hn' (by
      intro f
      rw [List.filter_filter]
      by_cases hf : fl.fid = f
      · subst hf
        rw [flowQ_not_mem hnot]
        symm; apply List.filter_eq_nil_iff.mpr
        intro a _; cases (a.flow == fl.fid) <;> simp
      · have := hq f
        rw [flowQ_cons, if_neg hf] at this
        rw [this]
        apply List.filter_congr
        intro a _
        by_cases ha : a.flow = f
        · simp [ha]
          intro e; exact hf e.symm
        · simp [ha])
    simp only [List.flatMap_cons]
    rw [← hself]
    exact (List.Perm.append_left _ ih).trans (List.filter_append_perm _ held)

theorem polrel_waitIds {p : Cfg} {s : St} {ss : SSt} (h : PolRel p s ss) :
    (waitIds p s).Perm (ss.held.map (·.id)) := by
  have flow : ∀ fair, FRel fair s ss → (s.flows.flatMap (fun fl => fl.q.map (·.id))).Perm (ss.held.map (·.id)) := by
    intro fair h
    have := (flows_perm s.flows ss.held h.nodup h.qs).map (·.id)
    rw [List.map_flatMap] at this
    exact this
  unfold waitIds
  rcases h with ⟨hk, h⟩ | ⟨hk, h⟩ | ⟨hk, h⟩ | ⟨hk, h⟩
  · rw [positional_notFlow hk, ← h]; simp [Function.comp_def]
  · rw [keyed_notFlow hk, ← h.held]; simp [Function.comp_def]
  · simp only [Kind.isFlow, hk, if_true]; exact flow _ h
  · simp only [Kind.isFlow, hk, if_true]; exact flow _ h

/-- for the policies that keep one deque / heap the ids are the held ids in acceptance order -/
theorem polrel_waitIds_eq {p : Cfg} {s : St} {ss : SSt} (h : PolRel p s ss) (hf : p.kind.isFlow = false) :
    waitIds p s = ss.held.map (·.id) := by
  unfold waitIds
  rw [hf]
  rcases h with ⟨hk, h⟩ | ⟨hk, h⟩ | ⟨hk, h⟩ | ⟨hk, h⟩
  · rw [← h]; simp
  · rw [← h.held]; simp
  · simp [Kind.isFlow, hk] at hf
  · simp [Kind.isFlow, hk] at hf

/-! ### a pop that returns nothing found nothing held -/

theorem sPop_none_held {p : Cfg} {s : St} {ss : SSt} (h : PolRel p s ss) (hn : (sPop p ss 0 0).2 = none) :
    ss.held = [] := by
  rcases h with ⟨hk, h⟩ | ⟨hk, h⟩ | ⟨hk, h⟩ | ⟨hk, h⟩
  · unfold sPop at hn
    cases hkk : p.kind <;> simp [Kind.positional, hkk] at hk <;> simp only [hkk] at hn
    case fifo | red | codel => cases hh : ss.held <;> simp_all
    case lifo =>
      cases hl : ss.held.getLast? with
      | none => simpa using hl
      | some y => simp [hl] at hn
    case adaptive =>
      split at hn
      · cases hl : ss.held.getLast? with
        | none => simpa using hl
        | some y => simp [hl] at hn
      · cases hh : ss.held <;> simp_all
  · unfold sPop at hn
    cases hkk : p.kind <;> simp [Kind.keyed, hkk] at hk <;> simp only [hkk, filter_live0] at hn
    all_goals
      cases hf : firstMin ss.held with
      | none => exact firstMin_none hf
      | some y => simp [hf] at hn
  all_goals
    have hkk : p.kind = .fair ∨ p.kind = .wfq := by simp [hk]
    cases hfl : s.flows with
    | nil =>
      exact held_nil_of_filters fun f => by rw [← h.qs f, hfl]; rfl
    | cons fl rest =>
      cases hq : fl.q with
      | nil => exact absurd hq (h.nonempty fl (by rw [hfl]; exact List.mem_cons_self))
      | cons it q' =>
        obtain ⟨a, as, hf⟩ := h.head hfl hq
        rw [sPop_fair_head hkk hf] at hn
        cases hn

end HappyModel.C08
