import HappyProofs.C08.FairStep
/-!
What a push and a pop do to the specification's held list (`SSt.held`, accepted and not yet removed
items in acceptance order), for every policy: an accepted push appends exactly the item, a refused
push changes nothing, a pop that returns `x` removes exactly one occurrence of `x` (as a multiset;
for FIFO: the head), a pop that returns nothing found nothing held.

Pops are taken at clock 0 with no CoDel drop request — the way the pipeline model (`Pipe.stepPoll`)
calls the policy — so nothing expires and nothing is dropped behind the returned item.
-/
namespace HappyModel.C08

theorem removeFirst_perm {p : Item → Bool} : ∀ {l : List Item} {x : Item}, l.find? p = some x →
    l.Perm (x :: removeFirst p l)
  | [], _, h => by simp at h
  | y :: ys, x, h => by
    simp only [List.find?_cons] at h
    simp only [removeFirst]
    cases hp : p y with
    | true => rw [hp] at h; simp at h; subst h; simp
    | false =>
      rw [hp] at h; simp only at h
      simp only [Bool.false_eq_true, if_false]
      exact ((removeFirst_perm h).cons y).trans (List.Perm.swap x y _)

theorem firstMin_none {l : List Item} (h : firstMin l = none) : l = [] := by
  cases hs : sMin l with
  | none => exact sMin_none l hs
  | some p =>
    obtain ⟨m, rest⟩ := p
    have := (sMin_spec l m rest hs).1
    rw [h] at this; cases this

theorem serveAct_held (s : SSt) (a : Act) (b : Bool) : (serveAct s a b).held = s.held := by
  unfold serveAct; (repeat' split) <;> rfl

theorem getLast?_split {α} {l : List α} {x : α} (h : l.getLast? = some x) : l = l.dropLast ++ [x] := by
  obtain ⟨ys, rfl⟩ := List.getLast?_eq_some_iff.mp h
  simp

theorem filter_live0 (l : List Item) : (l.filter fun x => decide (0 ≤ x.key)) = l :=
  List.filter_eq_self.mpr (by simp)

/-! ### push -/

theorem sPushInner_held (c : Cfg) (ss : SSt) (it : Item) (rd : Bool) :
    (sPushInner c ss it rd).1.held = if (sPushInner c ss it rd).2 then ss.held ++ [it] else ss.held := by
  unfold sPushInner
  cases c.kind <;> simp only <;> (repeat' split) <;> simp_all [SSt.accept, SSt.activate]

theorem sPush_held (c : Cfg) (ss : SSt) (it : Item) (coin rd : Bool) :
    (sPush c ss it coin rd).1.held = if (sPush c ss it coin rd).2 then ss.held ++ [it] else ss.held := by
  unfold sPush
  split
  · split
    · simp
    · exact sPushInner_held c ss it rd
  · exact sPushInner_held c ss it rd

/-! ### pop (clock 0, no CoDel drops) -/

theorem sPop_held_some (c : Cfg) (ss : SSt) (x : Item) (h : (sPop c ss 0 0).2 = some x) :
    ss.held.Perm (x :: (sPop c ss 0 0).1.held) := by
  unfold sPop at h ⊢
  cases hk : c.kind <;> simp only [hk] at h ⊢
  case fifo | red =>
    cases hh : ss.held with
    | nil => simp [hh] at h
    | cons y ys => simp only [hh] at h ⊢; cases h; exact List.Perm.refl _
  case codel =>
    cases hh : ss.held with
    | nil => simp [hh] at h
    | cons y ys => simp only [hh] at h ⊢; cases h; simp
  case lifo =>
    cases hl : ss.held.getLast? with
    | none => simp [hl] at h
    | some y =>
      simp only [hl] at h ⊢; cases h
      have := getLast?_split hl
      exact (List.Perm.of_eq this).trans (List.perm_append_singleton _ _)
  case adaptive =>
    split at h
    · rename_i hc; simp only [hc, if_true]
      cases hl : ss.held.getLast? with
      | none => simp [hl] at h
      | some y =>
        simp only [hl] at h ⊢; cases h
        have := getLast?_split hl
        exact (List.Perm.of_eq this).trans (List.perm_append_singleton _ _)
    · rename_i hc; simp only [hc]
      cases hh : ss.held with
      | nil => simp [hh] at h
      | cons y ys => simp only [hh] at h ⊢; cases h; exact List.Perm.refl _
  case prio =>
    cases hf : firstMin ss.held with
    | none => simp [hf] at h
    | some y => simp only [hf] at h ⊢; cases h; exact removeFirst_perm hf
  case deadline =>
    simp only [filter_live0] at h ⊢
    cases hf : firstMin ss.held with
    | none => simp [hf] at h
    | some y => simp only [hf] at h ⊢; cases h; exact removeFirst_perm hf
  case fair | wfq =>
    cases hm : minAct ss.act with
    | none => simp [hm] at h
    | some a =>
      simp only [hm] at h ⊢
      cases hf : ss.held.find? (·.flow == a.fid) with
      | none => simp [hf] at h
      | some y =>
        simp only [hf] at h ⊢; cases h
        rw [serveAct_held]
        exact removeFirst_perm hf

/-- FIFO: the returned item is the oldest held one and the others keep their order -/
theorem sPop_held_fifo (c : Cfg) (hk : c.kind = .fifo) (ss : SSt) (x : Item) (h : (sPop c ss 0 0).2 = some x) :
    ss.held = x :: (sPop c ss 0 0).1.held := by
  unfold sPop at h ⊢
  simp only [hk] at h ⊢
  cases hh : ss.held with
  | nil => simp [hh] at h
  | cons y ys => simp only [hh] at h ⊢; cases h; rfl

end HappyModel.C08
