import HappyProofs.C08.IndusSoundB
/-!
# C08 part 3 — soundness of the judge, pooled component: no item lost, counters
-/
namespace HappyModel.C08.Indus

/-- the populations an accepted id of the pooled component can be in -/
def wherP (j : Book) (x : Nat) : Prop :=
  x ∈ j.waiting.map (·.id) ∨ x ∈ j.transit.map (·.id) ∨ x ∈ j.svc.ids ∨ x ∈ j.finished ∨ x ∈ j.done

theorem svcStep_pool_offer {s : Svc} {o : Obs} {id : Nat} {p : Option Nat} (h1 : o.act = .offer id p) :
    svcStep .pooled s o = if o.res = .start then { s with ids := s.ids ++ [id] } else s := by
  unfold svcStep
  split <;> simp_all

theorem svcStep_pool_fin {s : Svc} {o : Obs} {id : Nat} (h1 : o.act = .fin id) :
    svcStep .pooled s o = { s with ids := s.ids.erase id } := by
  unfold svcStep
  split <;> simp_all

theorem svcStep_pool_other {s : Svc} {o : Obs} (h1 : ∀ id p, o.act ≠ .offer id p) (h2 : ∀ id, o.act ≠ .fin id) :
    svcStep .pooled s o = s := by
  unfold svcStep
  split <;> simp_all

theorem judgePooled_step {cfg : Cfg} {j j1 : Book} {o : Obs} (hsink : cfg.sink = true) (x : Nat) (lt : Nat)
    (st : Bool) (hact : judgePooled cfg j o = .ok j1) :
    (wherP j x → wherP { j1 with svc := svcStep .pooled j.svc o, done := doneStep j.done o,
                                 lastT := lt, started := st } x) ∧
    (∀ p, o.act = .offer x p → (o.res = .start ∨ o.res = .wait) →
      wherP { j1 with svc := svcStep .pooled j.svc o, done := doneStep j.done o,
                      lastT := lt, started := st } x) := by
  unfold judgePooled at hact
  cases ha : o.act with
  | offer id p =>
    simp only [ha] at hact
    have hsv := svcStep_pool_offer (s := j.svc) ha
    split at hact
    · split at hact
      · cases hact
      · split at hact
        · rename_i hr
          cases hact
          simp only [wherP, hsv, hr, doneStep, ha, if_true, List.mem_append, List.mem_singleton]
          refine ⟨?_, ?_⟩
          · intro h
            by_cases hx : x = id
            · exact .inr (.inr (.inl (.inr hx)))
            · rcases h with h | h | h | h | h
              · exact .inl h
              · exact .inr (.inl (mem_filter_ne h hx))
              · exact .inr (.inr (.inl (.inl h)))
              · exact .inr (.inr (.inr (.inl h)))
              · exact .inr (.inr (.inr (.inr h)))
          · intro q hq _; cases hq
            exact .inr (.inr (.inl (.inr rfl)))
        · cases hact
        · cases hact
        · cases hact
    · split at hact
      · cases hact
      · split at hact
        · cases hact
        · split at hact
          · rename_i hr
            split at hact
            · cases hact
            · cases hact
              simp only [wherP, hsv, hr, doneStep, ha, if_true, List.mem_append, List.mem_singleton]
              refine ⟨?_, ?_⟩
              · intro h
                rcases h with h | h | h | h | h
                · exact .inl h
                · exact .inr (.inl h)
                · exact .inr (.inr (.inl (.inl h)))
                · exact .inr (.inr (.inr (.inl h)))
                · exact .inr (.inr (.inr (.inr h)))
              · intro q hq _; cases hq
                exact .inr (.inr (.inl (.inr rfl)))
          · rename_i hr
            split at hact
            · cases hact
            · split at hact
              · cases hact
              · cases hact
                simp only [wherP, hsv, hr, doneStep, ha, reduceCtorEq, if_false, List.map_append, List.mem_append,
                  List.map_cons, List.map_nil, List.mem_singleton]
                refine ⟨?_, ?_⟩
                · intro h
                  rcases h with h | h | h | h | h
                  · exact .inl (.inl h)
                  · exact .inr (.inl h)
                  · exact .inr (.inr (.inl h))
                  · exact .inr (.inr (.inr (.inl h)))
                  · exact .inr (.inr (.inr (.inr h)))
                · intro q hq _; cases hq
                  exact .inl (.inr rfl)
          · rename_i hr
            split at hact
            · cases hact
            · cases hact
              refine ⟨?_, ?_⟩
              · simp only [wherP, hsv, hr, doneStep, ha, reduceCtorEq, if_false]
                exact fun h => h
              · intro q _ hres
                rw [hr] at hres
                rcases hres with h | h <;> cases h
          · cases hact
  | fin id =>
    simp only [ha] at hact
    have hsv := svcStep_pool_fin (s := j.svc) ha
    split at hact
    · cases hact
    · split at hact
      · rename_i hw
        cases hact
        simp only [wherP, hsv, doneStep, ha, List.mem_append, List.mem_singleton]
        refine ⟨?_, (by intro q hq; cases hq)⟩
        intro h
        by_cases hx : x = id
        · exact .inr (.inr (.inr (.inl (.inr hx))))
        · rcases h with h | h | h | h | h
          · exact .inl h
          · exact .inr (.inl h)
          · exact .inr (.inr (.inl ((List.mem_erase_of_ne hx).mpr h)))
          · exact .inr (.inr (.inr (.inl (.inl h))))
          · exact .inr (.inr (.inr (.inr h)))
      · rename_i w rest hw
        cases hact
        simp only [wherP, hsv, hw, doneStep, ha, List.mem_append,
          List.map_append, List.map_cons, List.map_nil, List.mem_cons, List.mem_nil_iff, or_false]
        refine ⟨?_, (by intro q hq; cases hq)⟩
        intro h
        by_cases hx : x = id
        · exact .inr (.inr (.inr (.inl (.inr hx))))
        · rcases h with (h | h) | h | h | h | h
          · exact .inr (.inl (.inr h))
          · exact .inl h
          · exact .inr (.inl (.inl h))
          · exact .inr (.inr (.inl ((List.mem_erase_of_ne hx).mpr h)))
          · exact .inr (.inr (.inr (.inl (.inl h))))
          · exact .inr (.inr (.inr (.inr h)))
  | done id =>
    simp only [ha] at hact
    have hsv : svcStep .pooled j.svc o = j.svc := svcStep_pool_other (by simp [ha]) (by simp [ha])
    unfold judgeDone at hact
    repeat' split at hact
    all_goals try cases hact
    simp only [wherP, hsv, doneStep, ha, List.mem_cons]
    refine ⟨?_, (by intro q hq; cases hq)⟩
    intro h
    by_cases hx : x = id
    · exact .inr (.inr (.inr (.inr (.inl hx))))
    · rcases h with h | h | h | h | h
      · exact .inl h
      · exact .inr (.inl h)
      · exact .inr (.inr (.inl h))
      · exact .inr (.inr (.inr (.inl ((List.mem_erase_of_ne hx).mpr h))))
      · exact .inr (.inr (.inr (.inr (.inr h))))
  | _ => simp only [ha] at hact; cases hact

theorem pooled_step {cfg : Cfg} {j j' : Book} {o : Obs} (hc : cfg.comp = .pooled) (hsink : cfg.sink = true)
    (x : Nat) (h : judgeObs cfg j o = .ok j') :
    (wherP j x → wherP j' x) ∧
    (∀ p, o.act = .offer x p → (o.res = .start ∨ o.res = .wait) → wherP j' x) ∧
    j'.done = doneStep j.done o := by
  obtain ⟨j1, hact, hf⟩ := judgeObs_ok h
  have hj' := finishObs_eq hf
  subst hj'
  unfold judgeAct at hact
  simp only [hc] at hact ⊢
  obtain ⟨h1, h2⟩ := judgePooled_step hsink x o.t true hact
  exact ⟨h1, h2, trivial⟩

theorem judge_sound_pooled_gen (cfg : Cfg) (hc : cfg.comp = .pooled) (hsink : cfg.sink = true) (x : Nat) :
    ∀ (obs : List Obs) (j : Book) (i : Nat), judgeRun cfg j i obs = none →
      (wherP j x → x ∈ doneFold j.done obs) ∧
      (∀ o ∈ obs, ∀ p, o.act = .offer x p → (o.res = .start ∨ o.res = .wait) → x ∈ doneFold j.done obs) := by
  intro obs
  induction obs with
  | nil =>
    intro j i h
    obtain ⟨h1, h2, _, h4, h5⟩ := endCheck_pr (.inl hc) (judgeRun_nil h)
    refine ⟨?_, fun o ho => by cases ho⟩
    intro hw
    simp only [doneFold]
    unfold wherP at hw
    rw [h1, h2, h4, h5] at hw
    rcases hw with hw | hw | hw | hw | hw
    · cases hw
    · cases hw
    · cases hw
    · cases hw
    · exact hw
  | cons o rest ih =>
    intro j i h
    unfold judgeRun at h
    split at h
    · cases h
    · rename_i j' hj
      obtain ⟨hk, hn, hd⟩ := pooled_step hc hsink x hj
      obtain ⟨g1, g2⟩ := ih j' (i + 1) h
      rw [hd] at g1 g2
      simp only [doneFold]
      refine ⟨fun hw => g1 (hk hw), ?_⟩
      intro o' ho' p ha hres
      simp only [List.mem_cons] at ho'
      rcases ho' with ho' | ho'
      · subst ho'; exact g1 (hn p ha hres)
      · exact g2 o' ho' p ha hres

/-- **Soundness (no item lost, pooled resource with a downstream).** If the judge accepts a whole transcript of
the pooled component including its end check, then every id whose offer was answered `start` or `wait`
(given a unit or put in the overflow queue) was delivered at the sink. -/
theorem judge_sound_pooled_none_lost (cfg : Cfg) (hc : cfg.comp = .pooled) (hsink : cfg.sink = true)
    (obs : List Obs) (h : judgeRun cfg {} 0 obs = none) :
    ∀ o ∈ obs, ∀ id p, o.act = .offer id p → (o.res = .start ∨ o.res = .wait) → id ∈ doneFold [] obs := by
  intro o ho id p ha hr
  exact (judge_sound_pooled_gen cfg hc hsink id obs {} 0 h).2 o ho p ha hr

/-- accepted (the transcript of `IndusSound.lean`): both accepted ids reach the sink -/
example :
    let obs : List Obs :=
      [⟨0, .offer 0 none, .start, [0, 1, 0, 0, 0], false⟩, ⟨0, .offer 1 none, .wait, [0, 1, 1, 0, 0], false⟩,
       ⟨5, .fin 0, .dash, [1, 0, 0, 1, 0], false⟩, ⟨5, .offer 1 none, .start, [0, 1, 0, 1, 0], false⟩,
       ⟨5, .done 0, .dash, [0, 1, 0, 1, 0], false⟩, ⟨9, .fin 1, .dash, [1, 0, 0, 2, 0], false⟩,
       ⟨9, .done 1, .dash, [1, 0, 0, 2, 0], false⟩]
    judgeRun { comp := .pooled, limit := 1 } {} 0 obs = none ∧ doneFold [] obs = [1, 0] := by decide

/-- rejected: the queued item is never re-delivered after the unit is freed … -/
example : judgeRun { comp := .pooled, limit := 1 } {} 0
    [⟨0, .offer 0 none, .start, [0, 1, 0, 0, 0], false⟩, ⟨0, .offer 1 none, .wait, [0, 1, 1, 0, 0], false⟩,
     ⟨5, .fin 0, .dash, [1, 0, 0, 1, 0], false⟩, ⟨5, .done 0, .dash, [1, 0, 0, 1, 0], false⟩]
    = some "indus/pooled/strand/dequeued-item-not-started-in-its-instant at-end" := by decide

/-- … and a completed item that never reaches the sink is rejected -/
example : judgeRun { comp := .pooled, limit := 1 } {} 0
    [⟨0, .offer 0 none, .start, [0, 1, 0, 0, 0], false⟩, ⟨5, .fin 0, .dash, [1, 0, 0, 1, 0], false⟩]
    = some "indus/pooled/item-lost at-end" := by decide

/-! ## pooled: the reported counters -/

theorem list_len5 {l : List Nat} (h : l.length = 5) : ∃ a b c d e, l = [a, b, c, d, e] := by
  rcases l with _ | ⟨a, _ | ⟨b, _ | ⟨c, _ | ⟨d, _ | ⟨e, _ | ⟨f, r⟩⟩⟩⟩⟩⟩ <;> simp at h
  exact ⟨a, b, c, d, e, rfl⟩

theorem pooledCounters_ok {cfg : Cfg} {j : Book} {o : Obs} (hc : cfg.comp = .pooled)
    (h : judgeCounters cfg j o = none) :
    o.ctr = [cfg.limit - j.svc.ids.length, j.svc.ids.length, j.waiting.length, j.completed, j.refused.length] := by
  unfold judgeCounters at h
  simp only [hc] at h
  unfold mismatch at h
  split at h
  · cases h
  · rename_i hl
    have hlen : o.ctr.length = 5 := by simpa using (Eq.symm (by simpa using hl))
    obtain ⟨a, b, c, d, e, hctr⟩ := list_len5 hlen
    rw [hctr] at h ⊢
    split at h
    · cases h
    · rename_i hf
      simp [List.find?_eq_none] at hf
      simp
      omega

theorem judge_sound_pooled_counters_gen (cfg : Cfg) (hc : cfg.comp = .pooled) :
    ∀ (obs : List Obs) (j : Book) (i : Nat), judgeRun cfg j i obs = none →
      ∀ (k : Nat) (o : Obs), obs[k]? = some o →
        ∃ av ac q c r, o.ctr = [av, ac, q, c, r] ∧ av + ac = cfg.limit ∧
          ac = (svcFold .pooled j.svc (obs.take (k + 1))).ids.length := by
  intro obs
  induction obs with
  | nil => intro j i _ k o hk; simp at hk
  | cons o1 rest ih =>
    intro j i h k o hk
    unfold judgeRun at h
    split at h
    · cases h
    · rename_i j' hj
      obtain ⟨j1, _, hf⟩ := judgeObs_ok hj
      obtain ⟨hs, _, hl⟩ := finishObs_ok hf
      obtain ⟨_, _, hcn⟩ := finishObs_ok' hf
      rw [hc] at hs
      cases k with
      | zero =>
        simp at hk
        subst hk
        have hctr := pooledCounters_ok hc hcn
        have hle : ¬ cfg.limit < j'.svc.ids.length := by simpa [overLimit, hc] using hl
        refine ⟨_, _, _, _, _, hctr, by omega, ?_⟩
        simp [svcFold, hs]
      | succ k =>
        obtain ⟨av, ac, q, c, r, g1, g2, g3⟩ := ih j' (i + 1) h k o (by simpa using hk)
        refine ⟨av, ac, q, c, r, g1, g2, ?_⟩
        rw [g3, hs]
        simp [svcFold]

/-- **Soundness (counters, pooled).** If the judge accepts a transcript of the pooled component, then at every
line the five reported counters `[available, active, queued, completed, rejected]` satisfy
`available + active = limit`, and `active` is the number of items in service computed from the observations
alone (offers answered `start` whose `fin` was not yet seen). -/
theorem judge_sound_pooled_counters (cfg : Cfg) (hc : cfg.comp = .pooled) (obs : List Obs)
    (h : judgeRun cfg {} 0 obs = none) :
    ∀ (k : Nat) (o : Obs), obs[k]? = some o →
      ∃ av ac q c r, o.ctr = [av, ac, q, c, r] ∧ av + ac = cfg.limit ∧
        ac = (svcFold .pooled {} (obs.take (k + 1))).ids.length :=
  judge_sound_pooled_counters_gen cfg hc obs {} 0 h

/-- rejected: a unit is reported free while an item is in service -/
example : judgeRun { comp := .pooled, limit := 1 } {} 0 [⟨0, .offer 0 none, .start, [1, 1, 0, 0, 0], false⟩]
    = some "indus/pooled/counter-mismatch available expected 0 reported 1 at-line 0" := by decide

/-- rejected: `active` does not count the item that was started -/
example : judgeRun { comp := .pooled, limit := 2 } {} 0 [⟨0, .offer 0 none, .start, [2, 0, 0, 0, 0], false⟩]
    = some "indus/pooled/counter-mismatch available expected 1 reported 2 at-line 0" := by decide

end HappyModel.C08.Indus
