import HappyProofs.C08.Order
/-!
Key-ordered policies (PriorityQueue, DeadlineQueue), part 1: the heap of the code-mirroring model
— extract-minimum under `(key, insert_order)` on a list whose insert orders increase — returns
exactly the *stable minimum* of the list specification (`firstMin`: the first held item, in
acceptance order, whose key is ≤ every held key) and leaves the other items in acceptance order.
-/
namespace HappyModel.C08

/-- item-level extract-minimum: smallest key, the earliest one among equals -/
def sMin : List Item → Option (Item × List Item)
  | [] => none
  | x :: xs =>
    match sMin xs with
    | none => some (x, [])
    | some (m, rest) => if m.key < x.key then some (m, x :: rest) else some (x, xs)

/-- insert orders increase along the heap contents (entries are appended with a fresh counter) -/
def SeqSorted (q : List Ent) : Prop := q.Pairwise (fun a b => a.seq < b.seq)

theorem sMin_none : ∀ l, sMin l = none → l = []
  | [], _ => rfl
  | x :: xs, h => by
    simp only [sMin] at h
    cases hx : sMin xs with
    | none => rw [hx] at h; simp at h
    | some p => rw [hx] at h; simp only at h; split at h <;> simp at h

theorem extractMin_mem : ∀ (l : List Ent) (m : Ent) (rest : List Ent),
    extractMin l = some (m, rest) → m ∈ l ∧ rest.Sublist l
  | [], _, _, h => by simp [extractMin] at h
  | x :: xs, m, rest, h => by
    simp only [extractMin] at h
    cases hx : extractMin xs with
    | none =>
      rw [hx] at h; simp at h; obtain ⟨rfl, rfl⟩ := h
      exact ⟨List.mem_cons_self, by simp⟩
    | some p =>
      obtain ⟨m', r'⟩ := p
      rw [hx] at h
      have ih := extractMin_mem xs m' r' hx
      simp only at h
      split at h
      · simp at h; obtain ⟨rfl, rfl⟩ := h
        exact ⟨List.mem_cons_of_mem _ ih.1, ih.2.cons₂ _⟩
      · simp at h; obtain ⟨rfl, rfl⟩ := h
        exact ⟨List.mem_cons_self, List.Sublist.cons _ (List.Sublist.refl _)⟩

/-- on a list with increasing insert orders, the heap's extract-minimum is the item-level one -/
theorem extractMin_sMin : ∀ (q : List Ent), SeqSorted q → ∀ (m : Ent) (rest : List Ent),
    extractMin q = some (m, rest) → sMin (q.map (·.item)) = some (m.item, rest.map (·.item))
  | [], _, _, _, h => by simp [extractMin] at h
  | e :: es, hs, m, rest, h => by
    have hs' : SeqSorted es := (List.pairwise_cons.mp hs).2
    have hlt : ∀ b ∈ es, e.seq < b.seq := (List.pairwise_cons.mp hs).1
    simp only [extractMin] at h
    simp only [List.map_cons, sMin]
    cases hx : extractMin es with
    | none =>
      rw [hx] at h; simp at h; obtain ⟨rfl, rfl⟩ := h
      have := extractMin_none es hx; subst this
      simp [sMin]
    | some p =>
      obtain ⟨m', r'⟩ := p
      rw [hx] at h
      have ih := extractMin_sMin es hs' m' r' hx
      have hm := (extractMin_mem es m' r' hx).1
      have hseq := hlt m' hm
      have hent : entLt m' e = decide (m'.item.key < e.item.key) := by
        unfold entLt
        have : decide (m'.seq < e.seq) = false := by simp; omega
        rw [this]; simp
      rw [ih]
      simp only [hent, decide_eq_true_eq] at h ⊢
      split at h
      · rename_i hk; simp at h; obtain ⟨rfl, rfl⟩ := h; simp [hk]
      · rename_i hk; simp at h; obtain ⟨rfl, rfl⟩ := h; simp [hk]

theorem find?_congr_mem {α} {p q : α → Bool} : ∀ {l : List α}, (∀ y ∈ l, p y = q y) → l.find? p = l.find? q
  | [], _ => rfl
  | x :: xs, h => by
    simp only [List.find?_cons]
    rw [h x List.mem_cons_self, find?_congr_mem (fun y hy => h y (List.mem_cons_of_mem _ hy))]

theorem removeFirst_congr_mem {p q : Item → Bool} : ∀ {l : List Item}, (∀ y ∈ l, p y = q y) →
    removeFirst p l = removeFirst q l
  | [], _ => rfl
  | x :: xs, h => by
    simp only [removeFirst]
    rw [h x List.mem_cons_self, removeFirst_congr_mem (fun y hy => h y (List.mem_cons_of_mem _ hy))]

theorem isMinIn_iff (l : List Item) (x : Item) : isMinIn l x = true ↔ ∀ y ∈ l, x.key ≤ y.key := by
  simp [isMinIn, List.all_eq_true]

/-- the item-level extract-minimum is the stable minimum of the list specification -/
theorem sMin_spec : ∀ (l : List Item) (m : Item) (rest : List Item), sMin l = some (m, rest) →
    firstMin l = some m ∧ removeFirst (isMinIn l) l = rest
  | [], _, _, h => by simp [sMin] at h
  | x :: xs, m, rest, h => by
    simp only [sMin] at h
    cases hx : sMin xs with
    | none =>
      rw [hx] at h; simp at h; obtain ⟨rfl, rfl⟩ := h
      have := sMin_none xs hx; subst this
      simp [firstMin, isMinIn, removeFirst]
    | some p =>
      obtain ⟨m', r'⟩ := p
      rw [hx] at h
      obtain ⟨ih1, ih2⟩ := sMin_spec xs m' r' hx
      have hm' : m' ∈ xs := List.mem_of_find?_eq_some ih1
      have hmin : ∀ y ∈ xs, m'.key ≤ y.key := (isMinIn_iff xs m').mp (List.find?_some ih1)
      simp only at h
      split at h
      · rename_i hk
        simp at h; obtain ⟨rfl, rfl⟩ := h
        have hx0 : isMinIn (x :: xs) x = false := by
          cases hc : isMinIn (x :: xs) x with
          | false => rfl
          | true =>
            have := (isMinIn_iff _ _).mp hc m' (List.mem_cons_of_mem _ hm')
            omega
        have hcongr : ∀ y ∈ xs, isMinIn (x :: xs) y = isMinIn xs y := by
          intro y hy
          cases hc : isMinIn xs y with
          | true =>
            have h1 := (isMinIn_iff _ _).mp hc
            apply (isMinIn_iff _ _).mpr
            intro z hz
            rcases List.mem_cons.mp hz with rfl | hz
            · have := h1 m' hm'; omega
            · exact h1 z hz
          | false =>
            cases hd : isMinIn (x :: xs) y with
            | false => rfl
            | true =>
              have h1 := (isMinIn_iff _ _).mp hd
              have : isMinIn xs y = true := (isMinIn_iff _ _).mpr (fun z hz => h1 z (List.mem_cons_of_mem _ hz))
              rw [this] at hc; cases hc
        refine ⟨?_, ?_⟩
        · simp only [firstMin, List.find?_cons, hx0]
          rw [find?_congr_mem hcongr]; exact ih1
        · simp only [removeFirst, hx0]
          rw [removeFirst_congr_mem hcongr, ih2]; simp
      · rename_i hk
        simp at h; obtain ⟨rfl, rfl⟩ := h
        have hx1 : isMinIn (x :: xs) x = true := by
          apply (isMinIn_iff _ _).mpr
          intro z hz
          rcases List.mem_cons.mp hz with rfl | hz
          · exact Nat.le_refl _
          · have := hmin z hz; omega
        simp [firstMin, List.find?_cons, hx1, removeFirst]

/-- heap extract-minimum = stable minimum of the held list -/
theorem extractMin_firstMin (q : List Ent) (hs : SeqSorted q) (m : Ent) (rest : List Ent)
    (h : extractMin q = some (m, rest)) :
    firstMin (q.map (·.item)) = some m.item ∧
    removeFirst (isMinIn (q.map (·.item))) (q.map (·.item)) = rest.map (·.item) :=
  sMin_spec _ _ _ (extractMin_sMin q hs m rest h)

theorem extractMin_sorted {q : List Ent} (hs : SeqSorted q) {m : Ent} {rest : List Ent}
    (h : extractMin q = some (m, rest)) : SeqSorted rest :=
  List.Pairwise.sublist (extractMin_mem q m rest h).2 hs

end HappyModel.C08
