import HappyModel.C08.PipeW
/-!
C08 part 2b — basic facts about the capacity-unit pipeline model (`HappyModel.C08.PipeW`):
weights, the list queue's `pick`, frame lemmas of `_poll_if_ready`, the conservation invariant
`used = Σ weights in service` (every config and schedule), and the invariant of the admission
proposal (`admission` on) with Lemma A (`pollIfReady_inv`).
-/
namespace HappyModel.C08.PipeW

/-! ### weights -/

theorem wOf_pos (c : WCfg) (it : WItem) : 1 ≤ wOf c it := by
  unfold wOf
  split
  · exact Nat.le_max_right _ _
  · exact Nat.le_refl 1

theorem sumW_append (c : WCfg) (l1 l2 : List WItem) : sumW c (l1 ++ l2) = sumW c l1 + sumW c l2 := by
  induction l1 with
  | nil => simp [sumW]
  | cons x xs ih => simp only [List.cons_append, sumW, ih]; omega

theorem sumW_singleton (c : WCfg) (it : WItem) : sumW c [it] = wOf c it := by
  simp [sumW]

theorem sumW_erase (c : WCfg) {it : WItem} :
    ∀ {l : List WItem}, it ∈ l → sumW c (l.erase it) + wOf c it = sumW c l
  | [], h => by cases h
  | x :: xs, h => by
    by_cases hx : x = it
    · subst hx
      rw [List.erase_cons_head]
      simp only [sumW]; omega
    · have hm : it ∈ xs := by
        cases h with
        | head => exact absurd rfl hx
        | tail _ h => exact h
      have ih := sumW_erase c hm
      rw [List.erase_cons_tail (by simpa using hx)]
      simp only [sumW]; omega

theorem wOf_le_sumW (c : WCfg) {it : WItem} {l : List WItem} (h : it ∈ l) : wOf c it ≤ sumW c l := by
  have := sumW_erase c h; omega

/-! ### lookups and the queue's choice -/

theorem byId_mem {l : List WItem} {i : Nat} {it : WItem} (h : byId l i = some it) : it ∈ l :=
  List.mem_of_find?_eq_some h

theorem byId_id {l : List WItem} {i : Nat} {it : WItem} (h : byId l i = some it) : it.id = i := by
  have := List.find?_some h
  simpa using this

theorem firstMinW_mem : ∀ {q : List WItem} {it : WItem}, firstMinW q = some it → it ∈ q
  | [], _, h => by simp [firstMinW] at h
  | x :: xs, it, h => by
    unfold firstMinW at h
    cases hm : firstMinW xs with
    | none =>
      rw [hm] at h
      simp only [Option.some.injEq] at h
      subst h; exact List.mem_cons_self
    | some m =>
      rw [hm] at h
      simp only at h
      split at h
      · simp only [Option.some.injEq] at h
        subst h; exact List.mem_cons_of_mem _ (firstMinW_mem hm)
      · simp only [Option.some.injEq] at h
        subst h; exact List.mem_cons_self

theorem firstMinW_cons_isSome (x : WItem) (xs : List WItem) : ∃ it, firstMinW (x :: xs) = some it := by
  unfold firstMinW
  cases firstMinW xs with
  | none => exact ⟨x, rfl⟩
  | some m =>
    simp only
    split
    · exact ⟨m, rfl⟩
    · exact ⟨x, rfl⟩

theorem pick_nil (k : QKind) : pick k [] = none := by
  cases k <;> rfl

theorem pick_mem {k : QKind} {q : List WItem} {it : WItem} (h : pick k q = some it) : it ∈ q := by
  cases k with
  | fifo =>
    cases q with
    | nil => simp [pick] at h
    | cons x xs =>
      simp only [pick, List.head?_cons, Option.some.injEq] at h
      subst h; exact List.mem_cons_self
  | lifo =>
    simp only [pick] at h
    exact List.mem_of_getLast? h
  | prio => exact firstMinW_mem h

theorem pick_ne_none {k : QKind} {q : List WItem} (hq : q ≠ []) : ∃ it, pick k q = some it := by
  cases q with
  | nil => exact absurd rfl hq
  | cons x xs =>
    cases k with
    | fifo => exact ⟨x, rfl⟩
    | lifo =>
      cases h : (x :: xs).getLast? with
      | none => simp at h
      | some y => exact ⟨y, h⟩
    | prio => exact firstMinW_cons_isSome x xs

theorem pick_fifo_append {q : List WItem} (x : WItem) (hq : q ≠ []) :
    pick .fifo (q ++ [x]) = pick .fifo q := by
  cases q with
  | nil => exact absurd rfl hq
  | cons y ys => rfl

theorem fits_iff (s : WSt) (k : Nat) : fits s k = true ↔ s.used + k ≤ s.limit := by
  simp [fits]

/-! ### frame lemmas of `_poll_if_ready` -/

theorem pollIfReady_used (s : WSt) : (pollIfReady s).1.used = s.used := by
  unfold pollIfReady; (repeat' split) <;> rfl

theorem pollIfReady_limit (s : WSt) : (pollIfReady s).1.limit = s.limit := by
  unfold pollIfReady; (repeat' split) <;> rfl

theorem pollIfReady_inService (s : WSt) : (pollIfReady s).1.inService = s.inService := by
  unfold pollIfReady; (repeat' split) <;> rfl

theorem pollIfReady_completed (s : WSt) : (pollIfReady s).1.completed = s.completed := by
  unfold pollIfReady; (repeat' split) <;> rfl

theorem pollIfReady_rejected (s : WSt) : (pollIfReady s).1.rejected = s.rejected := by
  unfold pollIfReady; (repeat' split) <;> rfl

theorem pollIfReady_q (s : WSt) : (pollIfReady s).1.q = s.q := by
  unfold pollIfReady; (repeat' split) <;> rfl

/-! ### conservation: reported units in use = Σ weights of the items in service -/

theorem step_act (c : WCfg) (s : WSt) (a : Act) (h : s.used = sumW c s.inService) :
    (step c s a).1.used = sumW c (step c s a).1.inService := by
  cases a with
  | arr it => simp only [step, stepArr]; split <;> exact h
  | notify =>
    simp only [step, stepNotify]; split
    · exact h
    · simp only [pollIfReady_used, pollIfReady_inService]; exact h
  | poll => simp only [step, stepPoll]; (repeat' split) <;> exact h
  | deliver x =>
    cases x with
    | some i => simp only [step, stepDeliver]; (repeat' split) <;> exact h
    | none =>
      simp only [step, stepDeliver]; (repeat' split) <;>
        first | exact h | (simp only [pollIfReady_used, pollIfReady_inService]; exact h)
  | work i =>
    simp only [step, stepWork]
    split
    · exact h
    · split
      · simp only [sumW_append, sumW_singleton]; omega
      · simp only [pollIfReady_used, pollIfReady_inService]; exact h
  | disp =>
    simp only [step, stepDisp]; split
    · exact h
    · simp only [pollIfReady_used, pollIfReady_inService]; exact h
  | fin i =>
    simp only [step, stepFin]
    split
    · exact h
    · rename_i it hit
      simp only [pollIfReady_used, pollIfReady_inService]
      have := sumW_erase c (byId_mem hit)
      omega
  | limit n => simp only [step, stepLimit]; (repeat' split) <;> exact h

theorem final_act (c : WCfg) : ∀ (as : List Act) (s : WSt), s.used = sumW c s.inService →
    (final c s as).used = sumW c (final c s as).inService
  | [], _, h => h
  | a :: as, s, h => final_act c as _ (step_act c s a h)

/-! ### the invariant of the admission proposal (`admission = true`) -/

/-- everything except the no-strand clause -/
structure WInv0 (c : WCfg) (w0 : Nat) (s : WSt) : Prop where
  rt : s.nPoll + s.delivers.length + s.nEmpty + s.nDisp = (if s.busy then 1 else 0)
  wf : s.works.length ≤ s.nDisp
  /-- capacity stays free for the item in flight -/
  res : ∀ it, it ∈ s.delivers ++ s.works → s.used + wOf c it ≤ s.limit
  act : s.used = sumW c s.inService
  rej : s.rejected = 0
  count : s.acc = s.q.length + s.delivers.length + s.works.length + s.inService.length + s.completed
  uni : c.kind = .fifo ∨ ∀ x, x ∈ s.q → wOf c x = w0

/-- whenever the item the queue would hand out next fits into the free capacity, some protocol
    event is still pending -/
def NoStrand (c : WCfg) (s : WSt) : Prop :=
  ∀ it, pick c.kind s.q = some it → s.used + wOf c it ≤ s.limit →
    0 < s.nNotify ∨ 0 < s.nPoll ∨ 0 < s.delivers.length ∨ 0 < s.nDisp ∨ (0 < s.nEmpty ∧ s.recheck = true)

structure WInv (c : WCfg) (w0 : Nat) (s : WSt) : Prop extends WInv0 c w0 s where
  strand : NoStrand c s

theorem inv_init (c : WCfg) (w0 lim : Nat) : WInv c w0 { limit := lim } := by
  refine ⟨⟨by simp, by simp, by simp, by simp [sumW], by simp, by simp, Or.inr (by simp)⟩, ?_⟩
  intro it hit
  simp [pick_nil] at hit

/-- Lemma A: after `_poll_if_ready` the no-strand clause holds whatever it was before -/
theorem pollIfReady_inv {c : WCfg} {w0 : Nat} {s : WSt} (h : WInv0 c w0 s) :
    WInv c w0 (pollIfReady s).1 := by
  obtain ⟨rt, wf, res, act, rej, count, uni⟩ := h
  unfold pollIfReady
  by_cases hb : s.busy = true
  · simp only [hb, if_true]
    simp only [hb, if_true] at rt
    refine ⟨⟨by simpa [hb] using rt, wf, res, act, rej, count, uni⟩, ?_⟩
    intro _ _ _
    simp
    omega
  · have hb' : s.busy = false := by simpa using hb
    simp only [hb', Bool.false_eq_true, if_false] at rt ⊢
    by_cases hc : fits s 1 = true
    · simp only [hc, if_true]
      refine ⟨⟨by simp; omega, wf, res, act, rej, count, uni⟩, ?_⟩
      intro _ _ _; simp
    · simp only [hc, Bool.false_eq_true, if_false]
      refine ⟨⟨by simpa [hb'] using rt, wf, res, act, rej, count, uni⟩, ?_⟩
      intro it _ hlt
      have := wOf_pos c it
      exact absurd ((fits_iff s 1).2 (by omega)) hc

end HappyModel.C08.PipeW
