import HappyModel.C08.IndusModel
/-!
# C08 part 3 — theorems about the executable models of the industrial components
(all schedules; `run cfg (init cfg) acts` is the state after an arbitrary list of deliveries)
-/
namespace HappyModel.C08.Indus

theorem run_inv {cfg : Cfg} (P : MSt → Prop) (hstep : ∀ s t a, P s → P (step cfg s t a).1) :
    ∀ (acts : List (Nat × Act)) (s : MSt), P s → P (run cfg s acts) := by
  intro acts
  induction acts with
  | nil => intro s h; simpa [run] using h
  | cons x rest ih =>
    intro s h
    obtain ⟨t, a⟩ := x
    simp only [run]
    exact ih _ (hstep s t a h)

theorem sinkStep_fields (s : MSt) (id : Nat) :
    (sinkStep s id).1.active = s.active ∧ (sinkStep s id).1.transit = s.transit ∧
    (sinkStep s id).1.queue = s.queue ∧ (sinkStep s id).1.accepted = s.accepted ∧
    (sinkStep s id).1.completed = s.completed ∧ (sinkStep s id).1.isOpen = s.isOpen ∧
    (sinkStep s id).1.passed = s.passed ∧ (sinkStep s id).1.batches = s.batches := by
  unfold sinkStep
  split <;> simp

theorem eraseP_len {l : List WItem} {id : Nat} (h : l.any (·.id == id) = true) :
    (l.eraseP (·.id == id)).length + 1 = l.length := by
  obtain ⟨a, ha, hp⟩ := List.any_eq_true.mp h
  have := List.length_eraseP_of_mem (p := fun x : WItem => x.id == id) ha hp
  have hpos : 0 < l.length := List.length_pos_of_mem ha
  omega

theorem erase_len {l : List Nat} {id : Nat} (h : l.contains id = true) :
    (l.erase id).length + 1 = l.length := by
  have hm : id ∈ l := by simpa using h
  have := List.length_erase_of_mem hm
  have hpos : 0 < l.length := List.length_pos_of_mem hm
  omega

/-! ## PooledCycleResource -/

/-- units in use plus (repaired) units kept for handed-over items never exceed the pool -/
def PInv (cfg : Cfg) (s : MSt) : Prop :=
  s.active.length + (if cfg.repaired then s.transit.length else 0) ≤ cfg.limit

/-- finish a goal about lengths after all case splits -/
macro "lens" : tactic =>
  `(tactic| all_goals (first | omega | (simp at * <;> omega) | (simp_all <;> omega) | simp_all))

theorem stepPooled_inv (cfg : Cfg) (s : MSt) (t : Nat) (a : Act) (h : PInv cfg s) :
    PInv cfg (stepPooled cfg s t a).1 := by
  unfold PInv at *
  cases hr : cfg.repaired <;> simp only [hr] at h ⊢
  all_goals
    cases a with
    | offer id p =>
      by_cases hany : s.transit.any (·.id == id) = true
      · have hl := eraseP_len hany
        simp only [stepPooled, hr, hany]
        repeat' split
        lens
      · simp only [stepPooled, hr, hany]
        repeat' split
        lens
    | fin id =>
      by_cases hc : s.active.contains id = true
      · have hl := erase_len hc
        simp only [stepPooled, hr, hc]
        repeat' split
        lens
      · simp only [stepPooled, hr, hc]
        repeat' split
        lens
    | done id =>
      simp only [stepPooled]
      obtain ⟨h1, h2, _⟩ := sinkStep_fields s id
      rw [h1, h2]; exact h
    | _ => simpa [stepPooled] using h

/-- **Concurrency limit, PooledCycleResource model (both variants).** Along every schedule the number of
units in a cycle never exceeds `pool_size`. -/
theorem pooled_in_service_le_pool (cfg : Cfg) (hc : cfg.comp = .pooled) (acts : List (Nat × Act)) :
    (run cfg (init cfg) acts).active.length ≤ cfg.limit := by
  have : PInv cfg (run cfg (init cfg) acts) := by
    apply run_inv (PInv cfg)
    · intro s t a h; simp only [step, hc]; exact stepPooled_inv cfg s t a h
    · simp [PInv, init]
  unfold PInv at this; omega

example : (run { comp := .pooled, limit := 1 } (init {}) [(0, .offer 0 none), (0, .offer 1 none), (4, .fin 0)]).active.length = 0 ∧
    (run { comp := .pooled, limit := 1 } (init {}) [(0, .offer 0 none), (0, .offer 1 none), (4, .fin 0)]).transit.length = 1 := by decide

/-- accepted = queued + handed over + in a cycle + completed (repaired variant) -/
def PCons (s : MSt) : Prop :=
  s.accepted = s.queue.length + s.transit.length + s.active.length + s.completed

theorem stepPooled_cons (cfg : Cfg) (hr : cfg.repaired = true) (s : MSt) (t : Nat) (a : Act) (h : PCons s) :
    PCons (stepPooled cfg s t a).1 := by
  unfold PCons at *
  cases a with
  | offer id p =>
    by_cases hany : s.transit.any (·.id == id) = true
    · have hl := eraseP_len hany
      simp only [stepPooled, hr, hany]
      repeat' split
      lens
    · simp only [stepPooled, hr, hany]
      repeat' split
      lens
  | fin id =>
    by_cases hc : s.active.contains id = true
    · have hl := erase_len hc
      simp only [stepPooled, hr, hc]
      repeat' split
      lens
    · simp only [stepPooled, hr, hc]
      repeat' split
      lens
  | done id =>
    simp only [stepPooled]
    obtain ⟨h1, h2, h3, h4, h5, _⟩ := sinkStep_fields s id
    rw [h1, h2, h3, h4, h5]; exact h
  | _ => simpa [stepPooled] using h

/-- **No accepted item is lost, PooledCycleResource model, repaired variant.** Along every schedule
every accepted item is queued, handed over, in a cycle or completed. -/
theorem pooled_repaired_conservation (cfg : Cfg) (hc : cfg.comp = .pooled) (hr : cfg.repaired = true)
    (acts : List (Nat × Act)) : PCons (run cfg (init cfg) acts) := by
  apply run_inv PCons
  · intro s t a h; simp only [step, hc]; exact stepPooled_cons cfg hr s t a h
  · simp [PCons, init]

/-- **Repaired: a handed-over item always starts** (whatever was delivered in between). -/
theorem pooled_repaired_handover_starts (cfg : Cfg) (hr : cfg.repaired = true) (s : MSt) (t id : Nat)
    (p : Option Nat) (h : s.transit.any (·.id == id) = true) :
    (stepPooled cfg s t (.offer id p)).2 = .start := by
  simp [stepPooled, hr, h]

def witnessOvertake : List (Nat × Act) :=
  [(0, .offer 0 none), (1, .offer 1 none), (4, .fin 0), (4, .offer 2 none), (4, .offer 3 none), (4, .offer 1 none)]

/-- **Current code: the dequeued item is overtaken and rejected after acceptance** (pool 1, queue
capacity 1; the schedule of `fixes/C08-indus-pooled-dequeued-item-overtaken.md`). -/
theorem pooled_current_overtakes :
    let cfg : Cfg := { comp := .pooled, limit := 1, qcap := some 1, repaired := false }
    (run cfg (init cfg) witnessOvertake).lost = 1 ∧
    (run cfg (init cfg) witnessOvertake).accepted = 4 ∧ (run cfg (init cfg) witnessOvertake).completed = 1 ∧
    (run cfg (init cfg) witnessOvertake).active = [2] ∧ (run cfg (init cfg) witnessOvertake).queue.map (·.id) = [3] := by
  decide

/-- the repaired model serves the dequeued item on the same schedule -/
example :
    let cfg : Cfg := { comp := .pooled, limit := 1, qcap := some 1, repaired := true }
    (run cfg (init cfg) witnessOvertake).lost = 0 ∧ (run cfg (init cfg) witnessOvertake).active = [1] := by
  decide

/-! ## ConveyorBelt -/

theorem stepConveyor_inv (cfg : Cfg) (hu : cfg.unlimited = false) (s : MSt) (a : Act)
    (h : s.active.length ≤ cfg.limit) : (stepConveyor cfg s a).1.active.length ≤ cfg.limit := by
  cases a with
  | offer id p =>
    simp only [stepConveyor, hu]
    repeat' split
    lens
  | fin id =>
    by_cases hc : s.active.contains id = true
    · have hl := erase_len hc
      simp only [stepConveyor, hc]
      repeat' split
      lens
    · simp only [stepConveyor, hc]
      repeat' split
      lens
  | done id =>
    simp only [stepConveyor]
    obtain ⟨h1, _⟩ := sinkStep_fields s id
    rw [h1]; exact h
  | _ => simpa [stepConveyor] using h

/-- **Concurrency limit, ConveyorBelt model.** With a capacity, the items in transit never exceed it. -/
theorem conveyor_in_transit_le_capacity (cfg : Cfg) (hc : cfg.comp = .conveyor) (hu : cfg.unlimited = false)
    (acts : List (Nat × Act)) : (run cfg (init cfg) acts).active.length ≤ cfg.limit := by
  apply run_inv (fun s => s.active.length ≤ cfg.limit)
  · intro s t a h; simp only [step, hc]; exact stepConveyor_inv cfg hu s a h
  · simp [init]

example : (run { comp := .conveyor, limit := 1 } (init {}) [(0, .offer 0 none), (0, .offer 1 none)]).active = [0] ∧
    (run { comp := .conveyor, limit := 1 } (init {}) [(0, .offer 0 none), (0, .offer 1 none)]).rejected = 1 := by decide

/-! ## GateController -/

/-- an open gate holds nothing; every accepted item passed or is queued -/
def GInv (s : MSt) : Prop :=
  (s.isOpen = true → s.queue = []) ∧ s.accepted = s.passed + s.queue.length

theorem stepGate_inv (cfg : Cfg) (s : MSt) (t : Nat) (a : Act) (h : GInv s) : GInv (stepGate cfg s t a).1 := by
  unfold GInv at *
  obtain ⟨ho, hc⟩ := h
  cases a with
  | offer id p =>
    simp only [stepGate]
    repeat' split
    all_goals (constructor <;> simp_all <;> omega)
  | openG =>
    simp only [stepGate]
    repeat' split
    all_goals (constructor <;> simp_all <;> omega)
  | copen =>
    simp only [stepGate]
    repeat' split
    all_goals (constructor <;> simp_all <;> omega)
  | closeG =>
    simp only [stepGate]
    split
    · exact ⟨ho, hc⟩
    · constructor <;> simp_all
  | cclose => simp only [stepGate]; constructor <;> simp_all
  | done id =>
    simp only [stepGate]
    obtain ⟨_, _, h3, h4, _, h6, h7, _⟩ := sinkStep_fields s id
    rw [h3, h4, h6, h7]; exact ⟨ho, hc⟩
  | _ => simp only [stepGate]; exact ⟨ho, hc⟩

/-- **No strand / conservation, GateController model.** Along every schedule an open gate has an empty
queue, and every accepted item has passed or is waiting behind the closed gate. -/
theorem gate_open_holds_nothing (cfg : Cfg) (hc : cfg.comp = .gate) (acts : List (Nat × Act)) :
    GInv (run cfg (init cfg) acts) := by
  apply run_inv GInv
  · intro s t a h; simp only [step, hc]; exact stepGate_inv cfg s t a h
  · simp [GInv, init]

example : (run { comp := .gate, initOpen := false } (init { initOpen := false })
    [(0, .offer 0 none), (0, .offer 1 none), (4, .openG)]).out = [0, 1] := by decide

/-! ## BatchProcessor -/

/-- items inside the batches in process -/
def inProc (bs : List (Nat × List Nat)) : Nat := (bs.map (·.2.length)).sum

theorem inProc_append (bs : List (Nat × List Nat)) (b : Nat × List Nat) :
    inProc (bs ++ [b]) = inProc bs + b.2.length := by
  simp [inProc]

theorem inProc_erase (bs : List (Nat × List Nat)) (b : Nat × List Nat) (h : b ∈ bs) :
    inProc (bs.erase b) + b.2.length = inProc bs := by
  induction bs with
  | nil => cases h
  | cons x rest ih =>
    by_cases hx : x = b
    · subst hx; simp [inProc]; omega
    · have hm : b ∈ rest := by
        cases h with
        | head => exact absurd rfl hx
        | tail _ h' => exact h'
      have := ih hm
      have he : (x :: rest).erase b = x :: rest.erase b := by
        simp [hx]
      rw [he]
      simp [inProc] at this ⊢; omega

/-- every accepted item is buffered, inside a batch in process, or processed -/
def BInv (s : MSt) : Prop := s.accepted = s.queue.length + inProc s.batches + s.completed

theorem processBatch_inv (s : MSt) (h : BInv s) : BInv (processBatch s) := by
  unfold BInv processBatch at *
  simp only [inProc_append]
  simp; omega

theorem stepBatch_inv (cfg : Cfg) (s : MSt) (t : Nat) (a : Act) (h : BInv s) : BInv (stepBatch cfg s t a).1 := by
  cases a with
  | offer id p =>
    have h1 : BInv { s with queue := s.queue ++ [⟨id, t, none⟩], accepted := s.accepted + 1 } := by
      unfold BInv at *; simp; omega
    simp only [stepBatch]
    repeat' split
    all_goals first
      | exact processBatch_inv _ h1
      | exact h1
      | (unfold BInv at *; simp at *; omega)
  | timeout =>
    simp only [stepBatch]
    repeat' split
    all_goals first
      | exact h
      | (apply processBatch_inv; unfold BInv at *; simp at *; omega)
      | (unfold BInv at *; simp at *; omega)
  | bfin k =>
    simp only [stepBatch]
    split
    · exact h
    · rename_i k' ids hf
      have hm : (k', ids) ∈ s.batches := List.mem_of_find?_eq_some hf
      have := inProc_erase s.batches (k', ids) hm
      unfold BInv at *; simp at *; omega
  | done id =>
    simp only [stepBatch]
    obtain ⟨_, _, h3, h4, h5, _, _, h8⟩ := sinkStep_fields s id
    unfold BInv at *
    rw [h3, h4, h5, h8]; exact h
  | _ => simpa [stepBatch] using h

/-- **Conservation, BatchProcessor model (both variants).** Along every schedule every accepted item is in
the buffer, in a batch in process, or counted in `items_processed`. -/
theorem batch_conservation (cfg : Cfg) (hc : cfg.comp = .batch) (acts : List (Nat × Act)) :
    BInv (run cfg (init cfg) acts) := by
  apply run_inv BInv
  · intro s t a h; simp only [step, hc]; exact stepBatch_inv cfg s t a h
  · simp [BInv, init, inProc]

def witnessConcurrent : List (Nat × Act) :=
  [(0, .offer 0 none), (0, .offer 1 none), (1, .offer 2 none), (1, .offer 3 none)]

/-- **Known finding: two batches in process at once** (batch size 2; the second batch fills while the
first is in process; `fixes/C08-indus-batch-concurrent-batches.known.md`).  Holds for both variants. -/
theorem batch_concurrent_batches_current :
    (run { comp := .batch, limit := 2, repaired := false } (init {}) witnessConcurrent).active = [0, 1] ∧
    (run { comp := .batch, limit := 2, repaired := true } (init {}) witnessConcurrent).active = [0, 1] := by
  decide

/-- **Repaired: a full batch starts at once** -/
theorem batch_repaired_full_batch_starts (cfg : Cfg) (hr : cfg.repaired = true) (s : MSt) (t id : Nat)
    (p : Option Nat) (h : cfg.limit ≤ s.queue.length + 1) :
    (stepBatch cfg s t (.offer id p)).2 = .start := by
  simp [stepBatch, hr, h]

/-- **Current code: a batch of size one with a timeout waits for the timeout** -/
theorem batch_current_size_one_waits :
    (stepBatch { comp := .batch, limit := 1, timeout := 4, repaired := false } (init {}) 0 (.offer 0 none)).2 = .wait ∧
    (stepBatch { comp := .batch, limit := 1, timeout := 4, repaired := true } (init {}) 0 (.offer 0 none)).2 = .start := by
  decide

/-! ## RenegingQueuedResource -/

/-- **Patience, reneging model.** A dequeued item starts service exactly when it has not waited longer
than its patience, and reneges otherwise. -/
theorem reneging_start_iff_within_patience (cfg : Cfg) (s : MSt) (t id : Nat) (w : WItem)
    (hf : s.transit.find? (·.id == id) = some w) :
    ((stepReneging cfg s t (.work id)).2 = .start ↔ expired w t = false) ∧
    ((stepReneging cfg s t (.work id)).2 = .renege ↔ expired w t = true) := by
  simp only [stepReneging, hf]
  cases expired w t <;> simp

example : expired ⟨1, 0, some 500⟩ 1000 = true ∧ expired ⟨1, 0, some 1000⟩ 1000 = false ∧ expired ⟨1, 0, none⟩ 1000 = false := by
  decide

/-! ### the item-state partition of the reneging model (both `reneged_target` settings) -/

theorem any_of_find {l : List WItem} {id : Nat} {w : WItem} (h : l.find? (·.id == id) = some w) :
    l.any (·.id == id) = true :=
  List.any_eq_true.mpr ⟨w, List.mem_of_find?_eq_some h, List.find?_some (p := fun x : WItem => x.id == id) h⟩

/-- every accepted item is waiting, on its way to the worker, counted as served or counted as reneged —
exactly one of them; an item counted as served is in service or has completed -/
def RInv (s : MSt) : Prop :=
  s.accepted = s.queue.length + s.transit.length + s.served + s.reneged ∧
  s.served = s.active.length + s.completed

theorem stepReneging_inv (cfg : Cfg) (s : MSt) (t : Nat) (a : Act) (h : RInv s) :
    RInv (stepReneging cfg s t a).1 := by
  unfold RInv at *
  obtain ⟨h1, h2⟩ := h
  cases a with
  | offer id p =>
    simp only [stepReneging]
    split <;> (constructor <;> simp <;> omega)
  | deq =>
    simp only [stepReneging]
    split
    · exact ⟨h1, h2⟩
    · rename_i w rest hq
      constructor <;> simp [hq] at * <;> omega
  | work id =>
    simp only [stepReneging]
    split
    · exact ⟨h1, h2⟩
    · rename_i w hf
      have hl := eraseP_len (any_of_find hf)
      split <;> (constructor <;> simp <;> omega)
  | fin id =>
    by_cases hc : s.active.contains id = true
    · have hl := erase_len hc
      simp only [stepReneging, hc]
      constructor <;> simp <;> omega
    · simp only [stepReneging, hc]
      exact ⟨h1, h2⟩
  | done id =>
    simp only [stepReneging]
    unfold sinkStep
    split <;> exact ⟨h1, h2⟩
  | rdone id =>
    simp only [stepReneging]
    split <;> exact ⟨h1, h2⟩
  | _ => simpa [stepReneging] using ⟨h1, h2⟩

/-- **Item-state partition, RenegingQueuedResource model (reneged_target set or None).** Along every
schedule `accepted = waiting + dequeued + served + reneged` and `served = in service + completed`: a dequeued
item is counted as served or as reneged, never as both, and a reneged item is never in service. -/
theorem reneging_exactly_one_state (cfg : Cfg) (hc : cfg.comp = .reneging) (acts : List (Nat × Act)) :
    RInv (run cfg (init cfg) acts) := by
  apply run_inv RInv
  · intro s t a h; simp only [step, hc]; exact stepReneging_inv cfg s t a h
  · simp [RInv, init]

/-- patience 1 s, single slot: item 1 has waited 4 s when it is dequeued; it is counted as reneged, not served,
with and without a reneged target -/
example :
    let acts : List (Nat × Act) := [(0, .offer 0 (some 1000)), (0, .offer 1 (some 1000)), (0, .deq), (0, .work 0),
      (4000, .fin 0), (4000, .deq), (4000, .work 1)]
    let s := run { comp := .reneging, rtarget := false } (init {}) acts
    let s' := run { comp := .reneging, rtarget := true } (init {}) acts
    (s.served, s.reneged, s.active, s.rout) = (1, 1, [], []) ∧ (s'.served, s'.reneged, s'.active, s'.rout) = (1, 1, [], [1]) := by
  decide

theorem stepReneging_rout (cfg : Cfg) (hr : cfg.rtarget = false) (s : MSt) (t : Nat) (a : Act) (h : s.rout = []) :
    (stepReneging cfg s t a).1.rout = [] := by
  cases a with
  | offer id p => simp only [stepReneging]; split <;> simpa using h
  | deq => simp only [stepReneging]; split <;> simpa using h
  | work id =>
    simp only [stepReneging, hr]
    split
    · exact h
    · split <;> simpa using h
  | fin id => simp only [stepReneging]; split <;> simpa using h
  | done id => simp only [stepReneging]; unfold sinkStep; split <;> simpa using h
  | rdone id => simp only [stepReneging]; split <;> simp [h]
  | _ => simpa [stepReneging] using h

/-- **`reneged_target = None`: a reneged item is discarded.** Along every schedule nothing is ever on its way
to a reneged-target sink (together with `reneging_exactly_one_state`: it is counted in `reneged` and gone). -/
theorem reneging_no_target_discards (cfg : Cfg) (hc : cfg.comp = .reneging) (hr : cfg.rtarget = false)
    (acts : List (Nat × Act)) : (run cfg (init cfg) acts).rout = [] := by
  apply run_inv (fun s => s.rout = [])
  · intro s t a h; simp only [step, hc]; exact stepReneging_rout cfg hr s t a h
  · simp [init]

/-- **`downstream = None` (PooledCycleResource): a completed item is counted and leaves.** -/
theorem pooled_no_downstream_forwards_nothing (cfg : Cfg) (hc : cfg.comp = .pooled) (hs : cfg.sink = false)
    (acts : List (Nat × Act)) : (run cfg (init cfg) acts).out = [] := by
  apply run_inv (fun s => s.out = [])
  · intro s t a h
    simp only [step, hc]
    cases a with
    | offer id p => simp only [stepPooled]; repeat' split
                    all_goals simpa using h
    | fin id => simp only [stepPooled, hs]; repeat' split
                all_goals first | (simpa using h) | simp_all
    | done id => simp only [stepPooled]; unfold sinkStep; split <;> simp [h]
    | _ => simpa [stepPooled] using h
  · simp [init]

example : (run { comp := .pooled, limit := 1, sink := false } (init {}) [(0, .offer 0 none), (4, .fin 0)]).completed = 1 := by decide


end HappyModel.C08.Indus
