import HappyModel.C08.IndusModel
import HappyProofs.C08.IndusModelProps
/-!
# C08 part 3 — theorems about the judge (soundness) and about the component models

No `sorry`, no axioms beyond the standard three; every theorem quantifies over all schedules /
transcripts.
-/
namespace HappyModel.C08.Indus

/-! ## soundness of the judge: what an accepted transcript guarantees -/

/-- in-service population after a prefix of the transcript: starts without a matching end -/
def svcFold (c : Comp) : Svc → List Obs → Svc
  | s, [] => s
  | s, o :: r => svcFold c (svcStep c s o) r

/-- ids delivered at the sink along a transcript -/
def doneFold : List Nat → List Obs → List Nat
  | d, [] => d
  | d, o :: r => doneFold (doneStep d o) r

theorem finishObs_ok {cfg : Cfg} {j j1 j' : Book} {o : Obs} (h : finishObs cfg j j1 o = .ok j') :
    j'.svc = svcStep cfg.comp j.svc o ∧ j'.done = doneStep j.done o ∧
    overLimit cfg j'.svc.ids.length = false := by
  unfold finishObs at h
  split at h
  · cases h
  · rename_i hl
    split at h
    · cases h
    · cases h
      simpa using hl

theorem judgeObs_ok {cfg : Cfg} {j j' : Book} {o : Obs} (h : judgeObs cfg j o = .ok j') :
    ∃ j1, judgeAct cfg j o = .ok j1 ∧ finishObs cfg j j1 o = .ok j' := by
  unfold judgeObs at h
  split at h
  · cases h
  split at h
  · cases h
  split at h
  · cases h
  split at h
  · cases h
  split at h
  · cases h
  · rename_i j1 hj1
    exact ⟨j1, hj1, h⟩

/-- **Soundness (concurrency clause).** If the judge accepts a transcript, then after every prefix
of it the number of items in service (started, not ended) is within the configured limit. -/
theorem judge_sound_in_service (cfg : Cfg) :
    ∀ (obs : List Obs) (j : Book) (i : Nat), overLimit cfg j.svc.ids.length = false →
      judgeRun cfg j i obs = none →
      ∀ k, overLimit cfg (svcFold cfg.comp j.svc (obs.take k)).ids.length = false := by
  intro obs
  induction obs with
  | nil => intro j i h0 _ k; simpa [svcFold] using h0
  | cons o rest ih =>
    intro j i h0 h k
    cases k with
    | zero => simpa [svcFold] using h0
    | succ k =>
      unfold judgeRun at h
      split at h
      · cases h
      · rename_i j' hj
        obtain ⟨j1, _, hf⟩ := judgeObs_ok hj
        obtain ⟨hs, _, hl⟩ := finishObs_ok hf
        have := ih j' (i + 1) hl h k
        simpa [svcFold, hs] using this

example : judgeRun { comp := .conveyor, limit := 1 } {} 0
    [⟨0, .offer 7 none, .start, [1, 0, 0], false⟩, ⟨5, .fin 7, .dash, [0, 1, 0], false⟩,
     ⟨5, .done 7, .dash, [0, 1, 0], false⟩] = none := by decide

/-- the judge does reject an over-admission (the theorem is not vacuous) -/
example : judgeRun { comp := .conveyor, limit := 1 } {} 0
    [⟨0, .offer 7 none, .start, [1, 0, 0], false⟩, ⟨0, .offer 8 none, .start, [2, 0, 0], false⟩]
    = some "indus/conveyor/in-service-exceeds-limit at-line 1" := by decide

theorem judgeDone_ok {c : Comp} {j j1 : Book} {id : Nat} (h : judgeDone c j id = .ok j1) :
    j.done.contains id = false := by
  unfold judgeDone at h
  split at h
  · cases h
  · rename_i hc
    simpa using hc

theorem judgeAct_done {cfg : Cfg} {j j1 : Book} {o : Obs} {id : Nat} (ha : o.act = .done id)
    (h : judgeAct cfg j o = .ok j1) : j.done.contains id = false := by
  unfold judgeAct at h
  cases hc : cfg.comp <;> simp only [hc] at h
  · simp only [judgePooled, ha] at h; exact judgeDone_ok h
  · simp only [judgeConveyor, ha] at h; exact judgeDone_ok h
  · simp only [judgeGate, ha] at h; exact judgeDone_ok h
  · simp only [judgeBatch, ha] at h; exact judgeDone_ok h
  · simp only [judgeReneging, ha] at h
    split at h
    · cases h
    · exact judgeDone_ok h

/-- **Soundness (completed exactly once).** If the judge accepts a transcript, no id is seen twice
at the downstream sink. -/
theorem judge_sound_done_once (cfg : Cfg) :
    ∀ (obs : List Obs) (j : Book) (i : Nat), j.done.Nodup →
      judgeRun cfg j i obs = none → (doneFold j.done obs).Nodup := by
  intro obs
  induction obs with
  | nil => intro j i h0 _; simpa [doneFold] using h0
  | cons o rest ih =>
    intro j i h0 h
    unfold judgeRun at h
    split at h
    · cases h
    · rename_i j' hj
      obtain ⟨j1, hact, hf⟩ := judgeObs_ok hj
      obtain ⟨_, hd, _⟩ := finishObs_ok hf
      have hn : j'.done.Nodup := by
        rw [hd]
        unfold doneStep
        split
        · rename_i id ha
          have := judgeAct_done ha hact
          simp only [List.nodup_cons]
          exact ⟨by simpa using this, h0⟩
        · exact h0
      have := ih j' (i + 1) hn h
      simpa [doneFold, hd] using this

example : doneFold [] [⟨0, .offer 7 none, .start, [1, 0, 0], false⟩, ⟨5, .fin 7, .dash, [0, 1, 0], false⟩,
     ⟨5, .done 7, .dash, [0, 1, 0], false⟩] = [7] := by decide

/-- a second delivery of the same id is rejected -/
example : judgeRun { comp := .conveyor, limit := 1 } {} 0
    [⟨0, .offer 7 none, .start, [1, 0, 0], false⟩, ⟨5, .fin 7, .dash, [0, 1, 0], false⟩,
     ⟨5, .done 7, .dash, [0, 1, 0], false⟩, ⟨5, .done 7, .dash, [0, 1, 0], false⟩]
    = some "indus/conveyor/completed-twice at-line 3" := by decide

/-! ## soundness: one dequeued item, one count ("exactly one of rejected-and-counted / … / in service") -/

def isWork : Act → Bool
  | .work _ => true
  | _ => false

/-- deliveries of a dequeued item to the worker along a transcript -/
def workCount (obs : List Obs) : Nat := (obs.filter (fun o => isWork o.act)).length

theorem judgeReneging_sum {cfg : Cfg} {j j1 : Book} {o : Obs} (h : judgeReneging cfg j o = .ok j1) :
    j1.served + j1.reneged = j.served + j.reneged + (if isWork o.act then 1 else 0) := by
  unfold judgeReneging at h
  cases ha : o.act <;> simp only [ha] at h
  all_goals (try unfold judgeDone at h)
  all_goals (repeat' split at h)
  all_goals first
    | (cases h; done)
    | (cases h; simp [isWork]; done)
    | (cases h; simp [isWork]; omega)

theorem finishObs_ok' {cfg : Cfg} {j j1 j' : Book} {o : Obs} (h : finishObs cfg j j1 o = .ok j') :
    j'.served = j1.served ∧ j'.reneged = j1.reneged ∧ judgeCounters cfg j' o = none := by
  unfold finishObs at h
  split at h
  · cases h
  · split at h
    · cases h
    · rename_i hn
      cases h
      exact ⟨rfl, rfl, hn⟩

theorem list_len6 {l : List Nat} (h : l.length = 6) : ∃ a b c d e f, l = [a, b, c, d, e, f] := by
  rcases l with _ | ⟨a, _ | ⟨b, _ | ⟨c, _ | ⟨d, _ | ⟨e, _ | ⟨f, _ | ⟨g, r⟩⟩⟩⟩⟩⟩⟩ <;> simp at h
  exact ⟨a, b, c, d, e, f, rfl⟩

/-- accepted counters of the reneging component: what it reports is what the judge's book holds -/
theorem renegingCounters_ok {cfg : Cfg} {j : Book} {o : Obs} (hc : cfg.comp = .reneging)
    (h : judgeCounters cfg j o = none) : o.ctr.getD 3 0 = j.served ∧ o.ctr.getD 4 0 = j.reneged := by
  unfold judgeCounters at h
  simp only [hc] at h
  split at h
  · cases h
  · rename_i hm
    unfold mismatch at hm
    split at hm
    · cases hm
    · rename_i hl
      have hlen : o.ctr.length = 6 := by simpa using (Eq.symm (by simpa using hl))
      obtain ⟨a, b, c, d, e, f, hctr⟩ := list_len6 hlen
      rw [hctr] at hm ⊢
      split at hm
      · cases hm
      · rename_i hf
        simp [List.find?_eq_none] at hf
        simp
        omega

/-- **Soundness (a dequeued item is counted exactly once).** If the judge accepts a transcript of the
reneging component, then at every line the reported `served + reneged` equals the number of deliveries of a
dequeued item to the worker so far: no item is counted as reneged *and* served, none is dropped uncounted. -/
theorem judge_sound_served_xor_reneged (cfg : Cfg) (hc : cfg.comp = .reneging) :
    ∀ (obs : List Obs) (j : Book) (i : Nat), judgeRun cfg j i obs = none →
      ∀ (k : Nat) (o : Obs), obs[k]? = some o →
        o.ctr.getD 3 0 + o.ctr.getD 4 0 = j.served + j.reneged + workCount (obs.take (k + 1)) := by
  intro obs
  induction obs with
  | nil => intro j i _ k o hk; simp at hk
  | cons o1 rest ih =>
    intro j i h k o hk
    unfold judgeRun at h
    split at h
    · cases h
    · rename_i j' hj
      obtain ⟨j1, hact, hf⟩ := judgeObs_ok hj
      obtain ⟨hs, hr, hcn⟩ := finishObs_ok' hf
      have hsum : j1.served + j1.reneged = j.served + j.reneged + (if isWork o1.act then 1 else 0) := by
        unfold judgeAct at hact
        simp only [hc] at hact
        exact judgeReneging_sum hact
      obtain ⟨h3, h4⟩ := renegingCounters_ok hc hcn
      cases k with
      | zero =>
        simp at hk
        subst hk
        simp only [workCount, List.take, List.filter]
        split <;> simp_all <;> omega
      | succ k =>
        have := ih j' (i + 1) h k o (by simpa using hk)
        simp only [workCount, List.take, List.filter] at this ⊢
        split <;> simp_all <;> omega

/-- non-vacuity: an accepted reneging transcript (item 1 reneges without a target) … -/
example : judgeRun { comp := .reneging, limit := 1, rtarget := false } {} 0
    [⟨0, .offer 0 (some 1000), .acc, [1, 1, 0, 0, 0, 0], false⟩, ⟨0, .offer 1 (some 1000), .acc, [2, 2, 0, 0, 0, 0], false⟩,
     ⟨0, .deq, .got 0, [1, 2, 0, 0, 0, 0], false⟩, ⟨0, .work 0, .start, [1, 2, 0, 1, 0, 1], false⟩,
     ⟨4000, .fin 0, .dash, [1, 2, 0, 1, 0, 0], false⟩, ⟨4000, .deq, .got 1, [0, 2, 0, 1, 0, 0], false⟩,
     ⟨4000, .work 1, .renege, [0, 2, 0, 1, 1, 0], false⟩, ⟨4000, .done 0, .dash, [0, 2, 0, 1, 1, 0], false⟩] = none := by decide

/-- … and the same run with the expired item counted as reneged *and* started is rejected -/
example : judgeRun { comp := .reneging, limit := 1, rtarget := false } {} 0
    [⟨0, .offer 0 (some 1000), .acc, [1, 1, 0, 0, 0, 0], false⟩, ⟨0, .offer 1 (some 1000), .acc, [2, 2, 0, 0, 0, 0], false⟩,
     ⟨0, .deq, .got 0, [1, 2, 0, 0, 0, 0], false⟩, ⟨0, .work 0, .start, [1, 2, 0, 1, 0, 1], false⟩,
     ⟨4000, .fin 0, .dash, [1, 2, 0, 1, 0, 0], false⟩, ⟨4000, .deq, .got 1, [0, 2, 0, 1, 0, 0], false⟩,
     ⟨4000, .work 1, .start, [0, 2, 0, 2, 1, 1], false⟩]
    = some "indus/reneging/item-in-two-states at-line 6" := by decide

end HappyModel.C08.Indus
