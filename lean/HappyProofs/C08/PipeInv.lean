import HappyModel.C08.PipeSpec
import HappyProofs.C08.PolicyCap
/-!
Invariant of the repaired Queue + QueueDriver + Server protocol, preserved by every delivery
(any schedule in which a `QueueDispatchedEvent` is handled after the payload it follows).
-/
namespace HappyModel.C08.Pipe
open HappyModel.C08

/-- the three policies `Server` is built with in the correspondence runs; no balking wrapper -/
def Plain (p : Cfg) : Prop := (p.kind = .fifo ∨ p.kind = .lifo ∨ p.kind = .prio) ∧ p.balk = none

theorem plain_notFlow {p : Cfg} (h : Plain p) : p.kind.isFlow = false := by
  rcases h.1 with h | h | h <;> simp [Kind.isFlow, h]

theorem plain_push_len {p : Cfg} (hp : Plain p) (s : St) (it : Item) (a b : Bool) :
    len p (push p s it a b).1 = len p s + (if (push p s it a b).2 then 1 else 0) := by
  have hf := plain_notFlow hp
  rw [len_q hf, len_q hf]
  unfold push
  rw [hp.2]
  simp only
  unfold pushInner
  rcases hp.1 with h | h | h <;> rw [h] <;> simp only <;> unfold pushList <;> split <;> simp

theorem plain_pop_len {p : Cfg} (hp : Plain p) (s : St) (now k : Nat) :
    (∀ x, (pop p s now k).2 = some x → len p (pop p s now k).1 + 1 = len p s) ∧
    ((pop p s now k).2 = none → len p (pop p s now k).1 = 0 ∧ len p s = 0) := by
  have hf := plain_notFlow hp
  rw [len_q hf, len_q hf]
  unfold pop
  rcases hp.1 with h | h | h <;> rw [h] <;> simp only
  · unfold popHead; split <;> simp_all
  · unfold popLast
    split
    · rename_i hq; simp at hq; simp [hq]
    · rename_i e hq; have := getLast?_some_length hq; simp; omega
  · unfold popPrio
    split
    · rename_i hq; have := extractMin_none _ hq; simp [this]
    · rename_i m rest hq; have := extractMin_length _ _ _ hq; simp; omega

/-- everything except the no-strand clause -/
structure PInv0 (c : PCfg) (s : PSt) : Prop where
  rt : s.nPoll + s.delivers.length + s.nEmpty + s.nDisp = (if s.busy then 1 else 0)
  wf : s.works.length ≤ s.nDisp
  res : 1 ≤ s.nPoll + s.delivers.length + s.works.length → s.active < s.limit
  act : s.active = s.inService.length
  le : s.active ≤ s.limit
  rej : s.rejected = 0
  count : s.acc = s.depth c + s.delivers.length + s.works.length + s.inService.length + s.completed

/-- whenever an item waits beside a free slot, some protocol event is still pending -/
def NoStrand (c : PCfg) (s : PSt) : Prop :=
  0 < s.depth c → s.active < s.limit →
    0 < s.nNotify ∨ 0 < s.nPoll ∨ 0 < s.delivers.length ∨ 0 < s.nDisp ∨ (0 < s.nEmpty ∧ s.recheck = true)

structure PInv (c : PCfg) (s : PSt) : Prop extends PInv0 c s where
  strand : NoStrand c s

theorem inv_init (c : PCfg) (lim : Nat) : PInv c { limit := lim } := by
  refine ⟨⟨by simp, by simp, by simp, by simp, by simp, by simp, ?_⟩, ?_⟩
  · have : PSt.depth c { limit := lim } = 0 := by
      unfold PSt.depth len; cases c.pol.kind <;> rfl
    simp [this]
  · intro h
    have : PSt.depth c { limit := lim } = 0 := by
      unfold PSt.depth len; cases c.pol.kind <;> rfl
    omega

/-- Lemma A: after `_poll_if_ready` the no-strand clause holds whatever it was before -/
theorem pollIfReady_inv {c : PCfg} {s : PSt} (hv : c.variant = .repaired) (h : PInv0 c s) :
    PInv c (pollIfReady c s).1 := by
  obtain ⟨rt, wf, res, act, le, rej, count⟩ := h
  unfold pollIfReady
  rw [hv]; simp only
  by_cases hb : s.busy = true
  · simp only [hb, if_true]
    simp only [hb, if_true] at rt
    refine ⟨⟨by simpa [hb] using rt, wf, res, act, le, rej, count⟩, ?_⟩
    intro _ _
    simp
    omega
  · have hb' : s.busy = false := by simpa using hb
    simp only [hb', Bool.false_eq_true, if_false] at rt ⊢
    by_cases hc : hasCap s = true
    · simp only [hc, if_true]
      have hlt : s.active < s.limit := by simpa [hasCap] using hc
      refine ⟨⟨by simp; omega, wf, fun _ => hlt, act, le, rej, ?_⟩, ?_⟩
      · simpa [PSt.depth] using count
      · intro _ _; simp
    · simp only [hc, if_false]
      refine ⟨⟨by simpa [hb'] using rt, wf, res, act, le, rej, count⟩, ?_⟩
      intro _ hlt
      exact absurd (by simpa [hasCap] using hlt) hc

end HappyModel.C08.Pipe
