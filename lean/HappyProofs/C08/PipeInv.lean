import HappyModel.C08.PipeSpec
import HappyProofs.C08.PolicyCap
import HappyProofs.C08.PolRel
/-!
Invariant of the repaired Queue + QueueDriver + Server protocol, preserved by every delivery
(any schedule in which a `QueueDispatchedEvent` is handled after the payload it follows).
-/
namespace HappyModel.C08.Pipe
open HappyModel.C08

/-- the queue policies the pipeline theorems cover: FIFO, LIFO, stable priority, deadline, adaptive
    LIFO, fair and weighted fair share, each with or without the balking wrapper.  (The
    correspondence runs build `Server` with FIFO, LIFO or priority.)  RED and CoDel are left out on
    purpose: the pipeline model passes the policy no early-drop decision and no CoDel drop count,
    so inside a pipeline run they would only repeat FIFO.  The pipeline model also polls at clock 0
    and never draws the balking coin: a deadline queue never expires an item inside a pipeline run
    and a balking wrapper refuses only what its inner policy refuses. -/
def Plain (p : Cfg) : Prop :=
  p.kind = .fifo ∨ p.kind = .lifo ∨ p.kind = .prio ∨ p.kind = .deadline ∨ p.kind = .adaptive ∨
  p.kind = .fair ∨ p.kind = .wfq

/-- a push changes `len` by one exactly when it accepts (any policy, any balking draw): a refused
    push — by capacity, by flow limits or by balking — leaves the queue as it was -/
theorem rel_push_len {p : Cfg} {s : St} {ss : SSt} (hr : PolRel p s ss) (it : Item) (a b : Bool) :
    len p (push p s it a b).1 = len p s + (if (push p s it a b).2 then 1 else 0) := by
  obtain ⟨h2, hr'⟩ := polrel_push hr it a b
  rw [polrel_len hr', polrel_len hr, sPush_held, h2]
  split <;> simp

/-- a pop (as the pipeline issues it) that returns an item shortens the queue by one; a pop that
    returns nothing found it empty -/
theorem rel_pop_len {p : Cfg} {s : St} {ss : SSt} (hr : PolRel p s ss) :
    (∀ x, (pop p s 0 0).2 = some x → len p (pop p s 0 0).1 + 1 = len p s) ∧
    ((pop p s 0 0).2 = none → len p (pop p s 0 0).1 = 0 ∧ len p s = 0) := by
  obtain ⟨h2, hr'⟩ := polrel_pop hr 0 0
  have hle := pop_len_le p s 0 0
  rw [polrel_len hr', polrel_len hr] at hle ⊢
  rw [h2]
  refine ⟨fun x hx => ?_, fun hn => ?_⟩
  · have := (sPop_held_some p ss x hx).length_eq
    simp only [List.length_cons] at this; omega
  · have := sPop_none_held hr hn
    rw [this] at hle ⊢
    exact ⟨Nat.le_zero.mp hle, rfl⟩

/-- everything except the no-strand clause -/
structure PInv0 (c : PCfg) (s : PSt) : Prop where
  rt : s.nPoll + s.delivers.length + s.nEmpty + s.nDisp = (if s.busy then 1 else 0)
  wf : s.works.length ≤ s.nDisp
  res : 1 ≤ s.nPoll + s.delivers.length + s.works.length → s.active < s.limit
  act : s.active = s.inService.length
  le : s.active ≤ s.limit
  rej : s.rejected = 0
  count : s.acc = s.depth c + s.delivers.length + s.works.length + s.inService.length + s.completed

/-- whenever an item waits beside a free slot, some protocol event is still pending -/
def NoStrand (c : PCfg) (s : PSt) : Prop :=
  0 < s.depth c → s.active < s.limit →
    0 < s.nNotify ∨ 0 < s.nPoll ∨ 0 < s.delivers.length ∨ 0 < s.nDisp ∨ (0 < s.nEmpty ∧ s.recheck = true)

structure PInv (c : PCfg) (s : PSt) : Prop extends PInv0 c s where
  strand : NoStrand c s

theorem inv_init (c : PCfg) (lim : Nat) : PInv c { limit := lim } := by
  refine ⟨⟨by simp, by simp, by simp, by simp, by simp, by simp, ?_⟩, ?_⟩
  · have : PSt.depth c { limit := lim } = 0 := by
      unfold PSt.depth len; cases c.pol.kind <;> rfl
    simp [this]
  · intro h
    have : PSt.depth c { limit := lim } = 0 := by
      unfold PSt.depth len; cases c.pol.kind <;> rfl
    omega

/-- Lemma A: after `_poll_if_ready` the no-strand clause holds whatever it was before -/
theorem pollIfReady_inv {c : PCfg} {s : PSt} (hv : c.variant = .repaired) (h : PInv0 c s) :
    PInv c (pollIfReady c s).1 := by
  obtain ⟨rt, wf, res, act, le, rej, count⟩ := h
  unfold pollIfReady
  rw [hv]; simp only
  by_cases hb : s.busy = true
  · simp only [hb, if_true]
    simp only [hb, if_true] at rt
    refine ⟨⟨by simpa [hb] using rt, wf, res, act, le, rej, count⟩, ?_⟩
    intro _ _
    simp
    omega
  · have hb' : s.busy = false := by simpa using hb
    simp only [hb', Bool.false_eq_true, if_false] at rt ⊢
    by_cases hc : hasCap s = true
    · simp only [hc, if_true]
      have hlt : s.active < s.limit := by simpa [hasCap] using hc
      refine ⟨⟨by simp; omega, wf, fun _ => hlt, act, le, rej, ?_⟩, ?_⟩
      · simpa [PSt.depth] using count
      · intro _ _; simp
    · simp only [hc, if_false]
      refine ⟨⟨by simpa [hb'] using rt, wf, res, act, le, rej, count⟩, ?_⟩
      intro _ hlt
      exact absurd (by simpa [hasCap] using hlt) hc

end HappyModel.C08.Pipe
