import HappyModel.C08.IndusModel
import HappyProofs.C08.IndusProps
/-!
# C08 part 3 — GateController against its schedule

The schedule is a list of `(open_at, close_at)` windows; the gate must be open at every instant that lies in
some window (their union), whatever the order in which the windows are listed and however they overlap.
`repaired` is /repo with `fixes/C08-indus-gate-overlapping-windows.diff`: a schedule close that falls inside
another window is ignored.  `current` closes unconditionally, so the creation order of the schedule events
decides (witness below).
-/
namespace HappyModel.C08.Indus

/-- the gate events of one instant, handled in the given order -/
def gateRun (cfg : Cfg) (t : Nat) : MSt → List Act → MSt
  | s, [] => s
  | s, a :: rest => gateRun cfg t (stepGate cfg s t a).1 rest

/-- **Repaired: a schedule close inside another window is ignored.** -/
theorem gate_repaired_close_inside_window_ignored (cfg : Cfg) (hr : cfg.repaired = true) (s : MSt) (t : Nat)
    (hc : covered cfg.windows t = true) : (stepGate cfg s t .closeG).1 = s := by
  simp [stepGate, hr, hc]

theorem stepGate_open_stays (cfg : Cfg) (hr : cfg.repaired = true) (t : Nat) (hc : covered cfg.windows t = true)
    (s : MSt) (a : Act) (ha : a = .openG ∨ a = .closeG) (ho : s.isOpen = true) :
    (stepGate cfg s t a).1.isOpen = true := by
  rcases ha with rfl | rfl
  · simp [stepGate, ho]
  · simp [stepGate, hr, hc, ho]

theorem stepGate_open_opens (cfg : Cfg) (s : MSt) (t : Nat) : (stepGate cfg s t .openG).1.isOpen = true := by
  simp only [stepGate]
  split <;> simp_all

/-- **Repaired: open at every covered instant, whatever the order of the schedule events.**  At an instant that
lies in some window of the schedule, after the open / close events of that instant have been handled *in any
order*, the gate is open provided it was open before or one of the events is an open (the window covering
the instant either started earlier or starts now). -/
theorem gate_repaired_open_at_covered_instant (cfg : Cfg) (hr : cfg.repaired = true) (t : Nat)
    (hc : covered cfg.windows t = true) :
    ∀ (evs : List Act) (s : MSt), (∀ a ∈ evs, a = .openG ∨ a = .closeG) →
      (s.isOpen = true ∨ Act.openG ∈ evs) → (gateRun cfg t s evs).isOpen = true := by
  intro evs
  induction evs with
  | nil =>
    intro s _ h
    rcases h with h | h
    · simpa [gateRun] using h
    · cases h
  | cons a rest ih =>
    intro s hall h
    have ha := hall a (by simp)
    have hrest : ∀ b ∈ rest, b = .openG ∨ b = .closeG := fun b hb => hall b (by simp [hb])
    simp only [gateRun]
    apply ih _ hrest
    rcases h with ho | hm
    · exact Or.inl (stepGate_open_stays cfg hr t hc s a ha ho)
    · rcases List.mem_cons.mp hm with rfl | hm'
      · exact Or.inl (stepGate_open_opens cfg s t)
      · exact Or.inr hm'

/-- windows `[(1 s, 1.5 s), (0.5 s, 1 s)]` listed out of order: at 1 s the creation order of `start_events` is
open(1 s) before close(1 s) -/
def touchingUnsorted : List (Nat × Nat) := [(4, 6), (2, 4)]

example : covered touchingUnsorted 4 = true ∧ covered touchingUnsorted 5 = true ∧ covered touchingUnsorted 6 = false := by decide

/-- **Current code: touching windows listed out of order leave the gate shut for the whole second window**
(`corpus/C08/pending/gate-touching-windows-out-of-order.json`); the repaired model stays open. -/
theorem gate_current_touching_unsorted_closes :
    (gateRun { comp := .gate, repaired := false, windows := touchingUnsorted } 4
      (gateRun { comp := .gate, repaired := false, windows := touchingUnsorted } 2 (init { initOpen := false }) [.openG])
      [.openG, .closeG]).isOpen = false ∧
    (gateRun { comp := .gate, repaired := true, windows := touchingUnsorted } 4
      (gateRun { comp := .gate, repaired := true, windows := touchingUnsorted } 2 (init { initOpen := false }) [.openG])
      [.openG, .closeG]).isOpen = true := by decide

/-! ## soundness of the judge's schedule clause -/

theorem strandGate_none {cfg : Cfg} {j j' : Book} {o : Obs} (h : judgeObs cfg j o = .ok j') :
    strandGate cfg j o = none := by
  unfold judgeObs at h
  split at h
  · cases h
  split at h
  · cases h
  split at h
  · cases h
  split at h
  · cases h
  · rename_i hs; exact hs

/-- **Soundness (gate, strand against the schedule).** If the judge accepts an observation that lets the clock
advance from `lastT` to `o.t` while items wait behind the gate and no programmatic open()/close() has happened,
then no non-empty window of the schedule meets the stretch `[lastT, o.t)`: an accepted transcript never lets
time pass over waiting items while the schedule says open. -/
theorem judge_sound_gate_window_strand (cfg : Cfg) (hc : cfg.comp = .gate) (j j' : Book) (o : Obs)
    (h : judgeObs cfg j o = .ok j') (hs : j.started = true) (ht : j.lastT < o.t)
    (hw : j.waiting ≠ []) (hctl : j.ctlSeen = false) :
    windowMeets cfg.windows j.lastT (some o.t) = false := by
  have hg := strandGate_none h
  unfold strandGate at hg
  simp only [hs, ht, decide_true, Bool.and_self, if_true] at hg
  unfold strandCheck at hg
  simp only [hc] at hg
  have hwe : j.waiting.isEmpty = false := by
    cases hjw : j.waiting with
    | nil => exact absurd hjw hw
    | cons _ _ => rfl
  split at hg
  · cases hg
  split at hg
  · cases hg
  simp only [hwe, hctl, Bool.not_false, Bool.true_and] at hg
  split at hg
  · cases hg
  · split at hg
    · cases hg
    · rename_i hm
      simpa using hm

/-- the clause is not vacuous: the judge rejects an item left waiting across a window -/
example : judgeRun { comp := .gate, initOpen := false, windows := [(4, 6), (2, 4)] } { isOpen := false } 0
    [⟨2, .openG, .dash, [1, 0, 0, 0, 0, 1], false⟩, ⟨4, .openG, .dash, [1, 0, 0, 0, 0, 1], false⟩,
     ⟨4, .closeG, .dash, [0, 0, 0, 0, 0, 1], false⟩, ⟨5, .offer 0 none, .wait, [0, 1, 0, 1, 0, 1], false⟩,
     ⟨6, .closeG, .dash, [0, 1, 0, 1, 0, 1], false⟩]
    = some "indus/gate/strand/closed-inside-open-window at-line 4" := by decide

/-- … and accepts the repaired behaviour on the same schedule -/
example : judgeRun { comp := .gate, initOpen := false, windows := [(4, 6), (2, 4)] } { isOpen := false } 0
    [⟨2, .openG, .dash, [1, 0, 0, 0, 0, 1], false⟩, ⟨4, .openG, .dash, [1, 0, 0, 0, 0, 1], false⟩,
     ⟨4, .closeG, .dash, [1, 0, 0, 0, 0, 1], false⟩, ⟨5, .offer 0 none, .pass, [1, 0, 1, 0, 0, 1], false⟩,
     ⟨5, .done 0, .dash, [1, 0, 1, 0, 0, 1], false⟩, ⟨6, .closeG, .dash, [0, 0, 1, 0, 0, 1], false⟩] = none := by decide

/-! ## ConveyorBelt: every offered item is in exactly one reported population -/

/-- **Soundness (conveyor, exactly one state).** If the judge accepts an observation of a conveyor whose
counters are `items_in_transit, items_transported, items_rejected`, these add up to the number of items
offered so far: no item is counted in two populations (transported *and* still in transit) or in none. -/
theorem judge_sound_conveyor_conservation (cfg : Cfg) (hc : cfg.comp = .conveyor) (j j' : Book) (o : Obs)
    (h : judgeObs cfg j o = .ok j') (it tr rj : Nat) (hctr : o.ctr = [it, tr, rj]) :
    it + tr + rj = j'.offered.length := by
  obtain ⟨j1, _, hf⟩ := judgeObs_ok h
  obtain ⟨_, _, hn⟩ := finishObs_ok' hf
  unfold judgeCounters at hn
  simp only [hc, hctr] at hn
  split at hn
  · cases hn
  · rename_i hne
    simpa using hne

/-- the clause is not vacuous: an item handed over in the instant of its offer and still counted as in transit
is rejected -/
example : judgeRun { comp := .conveyor, limit := 2 } {} 0
    [⟨0, .offer 7 none, .pass, [1, 1, 0], false⟩]
    = some "indus/conveyor/conservation in_transit 1 + transported 1 + rejected 0 != offered 1 at-line 0" := by decide

/-- … and the same hand-over with exact counters is accepted -/
example : judgeRun { comp := .conveyor, limit := 2 } {} 0
    [⟨0, .offer 7 none, .pass, [0, 1, 0], false⟩, ⟨0, .done 7, .dash, [0, 1, 0], false⟩] = none := by decide

end HappyModel.C08.Indus
